/-
  C01 for the weekly filler, part 3: the loop over the weeks `wlyLoop` — what it writes (`wlyLoop_sound`): round `j`
  walks the offsets `offs 8 wd_incs 0` of the week that starts `7 * INTERVAL * j` days after the first one.
-/
import Echse.Lemmas.RrWlyRfc2
namespace Echse.Lemmas.RrRfc
open Echse.Rrule Echse.Instant Echse.Spec.RrOk Echse.Spec.Cal Echse.Spec.RuleExt Echse.Spec.Rfc
open Echse.Lemmas.RrOkBase

def wlyNset (c : WlyCtx) (m d maxd : Nat) : Nat :=
  if c.posp then nsetLoop c m d maxd (m % 12 + 1) 8 c.wdIncs 0 0 * (c.e.H.length * c.e.M.length * c.e.S.length) else 0

theorem wlyLoop_succ (c : WlyCtx) (fuel y m d maxd : Nat) (res : List Inst) :
    wlyLoop c (fuel + 1) y m d maxd res =
      if ¬ res.length < c.nti then some res else
      match wlyWeek c (wlyNset c m d maxd) 8 c.wdIncs y m d maxd 0 res with
      | none => none
      | some (res, true) => some res
      | some (res, false) =>
        if c.r.inter % u32 > (u32 - 1 - 31) / 7 then some res else
        match carryMon ((d + (c.r.inter % u32 * 7) % u32) % u32 + 1) y m ((d + (c.r.inter % u32 * 7) % u32) % u32) maxd with
        | none => none
        | some none => some res
        | some (some (y, m, d, maxd)) => wlyLoop c fuel y m d maxd res := by
  rfl

theorem offs_shift : ∀ (f incs D a : Nat), offs f incs (D + a) = (offs f incs D).map (· + a) := by
  intro f
  induction f with
  | zero => intro incs D a; rfl
  | succ f ih =>
    intro incs D a
    unfold offs
    have e : D + a + incs % 16 = D + incs % 16 + a := by omega
    rw [e]
    split
    · rw [ih]; rfl
    · rfl

theorem mem_offs_shift {f incs d D' : Nat} (h : D' ∈ offs f incs d) : ∃ o ∈ offs f incs 0, D' = d + o := by
  have := offs_shift f incs 0 d
  rw [Nat.zero_add] at this
  rw [this] at h
  obtain ⟨o, ho, e⟩ := List.mem_map.1 h
  exact ⟨o, ho, by omega⟩

theorem offs_shift_mem {f incs d o : Nat} (h : o ∈ offs f incs 0) : d + o ∈ offs f incs d := by
  have := offs_shift f incs 0 d
  rw [Nat.zero_add] at this
  rw [this]
  exact List.mem_map.2 ⟨o, h, by omega⟩

/-- nothing written is lost -/
theorem wlyLoop_subset (c : WlyCtx) : ∀ (fuel y m d maxd : Nat) (res l : List Inst),
    wlyLoop c fuel y m d maxd res = some l → ∀ z ∈ res, z ∈ l := by
  intro fuel
  induction fuel with
  | zero => intro y m d maxd res l h; cases h
  | succ f ih =>
    intro y m d maxd res l h z hz
    rw [wlyLoop_succ] at h
    split at h
    · cases h; exact hz
    · split at h
      · cases h
      · rename_i res1 hw
        cases h; exact wlyWeek_subset c _ _ _ _ _ _ _ _ _ _ hw z hz
      · rename_i res1 hw
        have hz' := wlyWeek_subset c _ _ _ _ _ _ _ _ _ _ hw z hz
        split at h
        · cases h; exact hz'
        · split at h
          · cases h
          · cases h; exact hz'
          · exact ih _ _ _ _ _ _ h z hz'

/-- a full result ends the loop -/
theorem wlyLoop_full (c : WlyCtx) (fuel y m d maxd : Nat) (res l : List Inst) (hf : ¬ res.length < c.nti)
    (h : wlyLoop c fuel y m d maxd res = some l) : l = res := by
  cases fuel with
  | zero => cases h
  | succ f => rw [wlyLoop_succ, if_pos hf] at h; cases h; rfl

/-- the days between two weeks the loop looks at -/
def wk (c : WlyCtx) : Nat := c.r.inter * 7

/-- what the week loop writes -/
theorem wlyLoop_sound (c : WlyCtx) (hr : WfRule c.r) (hp : WfInst c.proto) (he : EnumOk c.e)
    (hinc : nibOk 8 c.wdIncs 6 = true) (Q : Inst → Prop) (y0 m0 d0 : Nat) (hv0 : VD y0 m0 d0)
    (hQ : ∀ (j y m d o ty tm td : Nat), Carry y0 m0 (d0 + j * wk c) y m d → o ∈ offs 8 c.wdIncs 0 →
      Carry y m (d + o) ty tm td → ty ≤ 2099 → bit c.mMask tm = true → ∀ t ∈ c.e.timesIx,
      wlySkip c (wlyNset c m d (getNdom y m)) (ndAt c y m (offs 8 c.wdIncs d) (d + o)) t.1 = false →
      ltP ⟨ty, tm, td, t.2.1, t.2.2.1, t.2.2.2, c.proto.ms⟩ c.proto = false →
      ltP c.r.untl ⟨ty, tm, td, t.2.1, t.2.2.1, t.2.2.2, c.proto.ms⟩ = false →
      Q ⟨ty, tm, td, t.2.1, t.2.2.1, t.2.2.2, c.proto.ms⟩) :
    ∀ (fuel j y m d : Nat) (res l : List Inst), Carry y0 m0 (d0 + j * wk c) y m d → y ≤ 13000000 → (∀ z ∈ res, Q z) →
      wlyLoop c fuel y m d (getNdom y m) res = some l → ∀ z ∈ l, Q z := by
  intro fuel
  induction fuel with
  | zero => intro j y m d res l _ _ _ h; cases h
  | succ f ih =>
    intro j y m d res l hc hy hres h
    have hd0 := hv0.2.2.1
    obtain ⟨hv, hpot, -, -⟩ := hc.props hv0.1 hv0.2.1 (by omega)
    rw [wlyLoop_succ] at h
    split at h
    · cases h; exact hres
    · have hweek : ∀ out, wlyWeek c (wlyNset c m d (getNdom y m)) 8 c.wdIncs y m d (getNdom y m) 0 res = some out →
          ∀ z ∈ out.1, Q z := by
        intro out hw
        refine wlyWeek_sound c hp he _ Q hv hy 8 c.wdIncs d y m d 0 res 6 out hinc (by omega) (Nat.le_refl _)
          (Carry.done hv.2.2.2) ?_ hres hw
        intro D' hD' ty tm td hcd hty hbit t ht hsk hge hle
        obtain ⟨o, ho, e⟩ := mem_offs_shift hD'
        rw [e] at hcd
        rw [Nat.zero_add, e] at hsk
        exact hQ j y m d o ty tm td hc ho hcd hty hbit t ht hsk hge hle
      split at h
      · cases h
      · rename_i res1 hw
        cases h; exact hweek _ hw
      · rename_i res1 hw
        have hres1 := hweek _ hw
        split at h
        · cases h; exact hres1
        · rename_i cg
          have hi := hr.inter
          have hd31 := hv.d31
          have hm12 := hv.2.1
          have hd1 := hv.2.2.1
          have hk : c.r.inter * 7 + 31 < 4294967296 := by unfold u32 at cg; omega
          have e1 : (d + c.r.inter % u32 * 7 % u32) % u32 = d + wk c := by unfold wk u32; omega
          rw [e1] at h
          -- the year of a week that did not say `fin` is not beyond 2099
          obtain ⟨res2, fin2, hw2, -, hfin⟩ := wlyWeek_spec c hp False (fun hf => hf.elim)
            (wlyNset c m d (getNdom y m)) hv hy 8 c.wdIncs d y m d 0 res 6 hinc (by omega) (Nat.le_refl _)
            (Carry.done hv.2.2.2) (fun hf => hf.elim)
          rw [hw] at hw2
          cases hw2
          have hy99 := hfin rfl
          obtain ⟨y2, m2, d2, hcm, hc2⟩ := carryMon_spec (d + wk c + 1) y m (d + wk c) hv.1 hv.2.1 (by omega)
            (by unfold pot wk; omega)
          rw [hcm] at h
          simp only at h
          obtain ⟨hv2, hpot2, -, -⟩ := hc2.props hv.1 hv.2.1 (by omega)
          refine ih (j + 1) y2 m2 d2 res1 l ?_ ?_ hres1 h
          · rw [Nat.succ_mul, ← Nat.add_assoc]
            exact hc.comp (wk c) _ _ _ hc2
          · unfold pot wk at hpot2; omega

end Echse.Lemmas.RrRfc
