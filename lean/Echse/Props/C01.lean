/-
  Property C01: RRULE expansion equals the RFC 5545 recurrence set.

  Specification: Echse/Spec/Rfc5545.lean (instances per frequency from the RFC's expand/limit table, BYSETPOS,
  DTSTART, UNTIL), written independently of the code.  Models: Echse/Model/Rr*.lean, the transcribed fillers
  `rrul_fill_*` (tied to src/evrrul.c by the call-level correspondence run of the checks).

  Per filler call `fillX r p n = some l` (seed `p` = DTSTART or the occurrence held back before a refill):
    * none extra   : every `x ∈ l` is an instance of the rule anchored at the seed and passes BYSETPOS;
    * none missing : every instance `x` (passing BYSETPOS, not before the seed, not after UNTIL, not after 2099) is in `l`,
                     or `l` is full (`cap` = what `nti` and COUNT allow) and `x` comes after all of `l`.
  Together with C16 (`FillOk`: ascending, bounded) `l` is exactly the first `cap` members of the recurrence set from
  the seed on; C16's stream theorem carries this across refills (the seed of a refill is an occurrence).

  Status: SECONDLY, MINUTELY, HOURLY, DAILY, WEEKLY — proved in full, BYSETPOS included.
          MONTHLY, YEARLY — proved, BYSETPOS and the refill included, for the whole RFC rule language (after the repairs of
          findings D125, D129: numbered BYDAY entries as a limit next to BYMONTHDAY / BYYEARDAY, and BYWEEKNO / BYYEARDAY /
          BYMONTH / BYMONTHDAY limiting one another).  What `MlySup`, `YlySup` still assume is what the parser guarantees
          (sizes of the BYMONTHDAY / BYMONTH sets, BYDAY ordinals from -53 on) and, for YEARLY, that BYDAY next to BYWEEKNO
          alone carries no ordinals — a combination RFC 5545 forbids, where the code drops the numbered entries and the
          specification reads them as plain weekdays (`yearly_weekno_numbered_byday`).  BYWEEKNO takes the weeks of the
          neighbouring ISO years too, for their days within the calendar year (finding D192, `yearly_weekno_year_ends`).
          MONTHLY completeness keeps
          `MlyFirstPos` (an occurrence within the first 336 months; see below).  SHIFT and BYEASTER are echse's own
          extensions and are C17's matter (`r.shift = 0`, `r.easter = []` here).
  The proofs are in Echse/Lemmas/RrSubRfc*, RrSlyRfc*, RrMnlyRfc*, RrHlyRfc*, RrRfcBase*, RrRfcPos*, RrDlyRfc*, RrDlyPos*,
  RrWlyRfc*, RrWlyPos*, RrCandRfc*, RrCandPos*, RrMlyRfc*, RrMlyPos*, RrMlyReseed, RrYlyRfc*, RrYlyPos*, RrYlyReseed.
-/
import Echse.Lemmas.RrSlyRfc3
import Echse.Lemmas.RrMnlyRfc4
import Echse.Lemmas.RrHlyRfc4
import Echse.Lemmas.RrDlyRfc
import Echse.Lemmas.RrWlyRfc
import Echse.Lemmas.RrMlyReseed
import Echse.Lemmas.RrYlyReseed
namespace C01
open Echse.Rrule Echse.Instant Echse.Spec.RrOk Echse.Spec.Rfc
open Echse.Lemmas.RrSubRfc Echse.Lemmas.RrRfc Echse.Lemmas.RrMlyRfc Echse.Lemmas.RrYlyRfc

/-- hypotheses shared by all statements: a parser-producible Gregorian rule and a sane seed in the years in which echse's
leap rule is the Gregorian one.  (A former third one, no BYHOUR/BYMINUTE/BYSECOND on a DATE-valued seed, is gone: RFC 5545
has these parts ignored next to a DATE value, so has the specification (`TimeExp`), and since the repair of `make_enum`
so has the code; `date_seed_ignores_time_parts` below.) -/
structure Pre (r : Rule) (p : Inst) : Prop where
  rule : WfRule r
  seed : WfInst p
  year : 1901 ≤ p.y

/-! ### FREQ=DAILY -/

theorem daily_none_extra (r : Rule) (p : Inst) (n : Nat) (l : List Inst) (h0 : Pre r p) (hn : n ≤ 64)
    (hf : r.pos ≠ [] → r.freq = 4) (h : fillDly r p n = some l) : ∀ x ∈ l, DailyInst r p x ∧ SetposOk r p x :=
  Echse.Lemmas.RrDlyRfc.fillDly_sound r p n l h0.rule h0.seed hn h0.year hf h

theorem daily_none_missing (r : Rule) (p : Inst) (n : Nat) (l : List Inst) (h0 : Pre r p) (hn : n ≤ 64)
    (hf : r.pos ≠ [] → r.freq = 4) (h : fillDly r p n = some l)
    (x : Inst) (hx : DailyInst r p x) (hsp : SetposOk r p x) (hge : absOf p ≤ absOf x)
    (hle : ltP r.untl x = false) (hxy : x.y ≤ 2099) :
    x ∈ l ∨ (l.length = capOf r n ∧ ∀ z ∈ l, ltP z x = true) :=
  Echse.Lemmas.RrDlyRfc.fillDly_complete r p n l h0.rule h0.seed hn h0.year hf h x hx hsp hge hle hxy

/-- FREQ=DAILY;BYHOUR=9;BYMINUTE=30 from the DATE 2020-01-01 (a combination RFC 5545 forbids and wants read with the
time parts ignored): the days themselves come out, and they are the specification's instances.  Before the repair of
`make_enum` the code wrote 2020-01-01T09:30:00, … and the theorems above had to exclude the case (`SeedOk`). -/
def tR : Rule := { freq := 4, H := [9], M := [30] }
def tD : Inst := { y := 2020, m := 1, d := 1, H := allDay, M := 0, S := 0, ms := 0 }
theorem date_seed_ignores_time_parts :
    fillDly tR tD 2 = some [tD, { tD with d := 2 }] ∧
    ∀ x ∈ [tD, { tD with d := 2 }], DailyInst tR tD x ∧ SetposOk tR tD x := by
  have h : fillDly tR tD 2 = some [tD, { tD with d := 2 }] := by decide +kernel
  have hr : WfRule tR := by constructor <;> simp [tR, Asc]
  have hd : WfInst tD := by constructor <;> decide
  exact ⟨h, daily_none_extra tR tD 2 _ ⟨hr, hd, by decide⟩ (by decide) (fun _ => rfl) h⟩

/-! ### FREQ=WEEKLY (weeks start on Monday) -/

theorem weekly_none_extra (r : Rule) (p : Inst) (n : Nat) (l : List Inst) (h0 : Pre r p) (hn : n ≤ 64)
    (hf : r.pos ≠ [] → r.freq = 3) (h : fillWly r p n = some l) : ∀ x ∈ l, WeeklyInst r p x ∧ SetposOk r p x :=
  Echse.Lemmas.RrWlyRfc.fillWly_sound r p n l h0.rule h0.seed hn h0.year hf h

theorem weekly_none_missing (r : Rule) (p : Inst) (n : Nat) (l : List Inst) (h0 : Pre r p) (hn : n ≤ 64)
    (hf : r.pos ≠ [] → r.freq = 3) (h : fillWly r p n = some l)
    (x : Inst) (hx : WeeklyInst r p x) (hsp : SetposOk r p x) (hge : absOf p ≤ absOf x)
    (hle : ltP r.untl x = false) (hxy : x.y ≤ 2099) :
    x ∈ l ∨ (l.length = capOf r n ∧ ∀ z ∈ l, ltP z x = true) :=
  Echse.Lemmas.RrWlyRfc.fillWly_complete r p n l h0.rule h0.seed hn h0.year hf h x hx hsp hge hle hxy

/-! ### FREQ=HOURLY / MINUTELY / SECONDLY
  `seedT p` is the seed as these fillers read it (a DATE-valued seed — outside RFC 5545 for these frequencies — counts
  as 00:00:00 of its day; for a date-time seed `seedT p = p`). -/

theorem hourly_none_extra (r : Rule) (p : Inst) (n : Nat) (l : List Inst) (hr : WfRule r) (hp : WfInst p) (hy : 1901 ≤ p.y)
    (hf : r.freq = 5) (h : fillHly r p n = some l) : ∀ x ∈ l, HourlyInst r (seedT p) x ∧ SetposOk r (seedT p) x :=
  fun x hx => ⟨Echse.Lemmas.RrHlyRfc.fillHly_sound_gen r p n l hr hp hy h x hx,
               Echse.Lemmas.RrHlyRfc.fillHly_setpos_gen r p n l hr hp hy hf h x hx⟩

theorem hourly_none_missing (r : Rule) (p : Inst) (n cap : Nat) (l : List Inst) (hr : WfRule r) (hp : WfInst p)
    (hy : 1901 ≤ p.y) (hf : r.freq = 5) (hcap : capNti r n = some cap) (h : fillHly r p n = some l)
    (x : Inst) (hx : HourlyInst r (seedT p) x) (hsp : SetposOk r (seedT p) x) (hge : absOf (seedT p) ≤ absOf x)
    (hu : ltP r.untl x = false) (hxy : x.y ≤ 2099) :
    x ∈ l ∨ (l.length = cap ∧ ∀ z ∈ l, ltP z x = true) :=
  Echse.Lemmas.RrHlyRfc.fillHly_complete_pos_gen r p n cap l hr hp hy hf hcap h x hx hsp hge hu hxy

theorem minutely_none_extra (r : Rule) (p : Inst) (n : Nat) (l : List Inst) (hr : WfRule r) (hp : WfInst p) (hy : 1901 ≤ p.y)
    (hf : r.freq = 6) (h : fillMnly r p n = some l) : ∀ x ∈ l, MinutelyInst r (seedT p) x ∧ SetposOk r (seedT p) x :=
  fun x hx => ⟨Echse.Lemmas.RrMnlyRfc.fillMnly_sound_gen r p n l hr hp hy h x hx,
               Echse.Lemmas.RrMnlyRfc.fillMnly_setpos_gen r p n l hr hp hy hf h x hx⟩

theorem minutely_none_missing (r : Rule) (p : Inst) (n cap : Nat) (l : List Inst) (hr : WfRule r) (hp : WfInst p)
    (hy : 1901 ≤ p.y) (hf : r.freq = 6) (hcap : capNti r n = some cap) (h : fillMnly r p n = some l)
    (x : Inst) (hx : MinutelyInst r (seedT p) x) (hsp : SetposOk r (seedT p) x) (hge : absOf (seedT p) ≤ absOf x)
    (hu : ltP r.untl x = false) (hxy : x.y ≤ 2099) :
    x ∈ l ∨ (l.length = cap ∧ ∀ z ∈ l, ltP z x = true) :=
  Echse.Lemmas.RrMnlyRfc.fillMnly_complete_pos_gen r p n cap l hr hp hy hf hcap h x hx hsp hge hu hxy

theorem secondly_none_extra (r : Rule) (p : Inst) (n : Nat) (l : List Inst) (hr : WfRule r) (hp : WfInst p) (hy : 1901 ≤ p.y)
    (hf : r.freq = 7) (h : fillSly r p n = some l) : ∀ x ∈ l, SecondlyInst r (seedT p) x ∧ SetposOk r (seedT p) x :=
  fun x hx => ⟨Echse.Lemmas.RrSlyRfc.fillSly_sound_gen r p n l hr hp hy h x hx,
               Echse.Lemmas.RrSlyRfc.fillSly_setpos_gen r p n l hr hp hf h x hx⟩

theorem secondly_none_missing (r : Rule) (p : Inst) (n cap : Nat) (l : List Inst) (hr : WfRule r) (hp : WfInst p)
    (hy : 1901 ≤ p.y) (hf : r.freq = 7) (hcap : capNti r n = some cap) (h : fillSly r p n = some l)
    (x : Inst) (hx : SecondlyInst r (seedT p) x) (hsp : SetposOk r (seedT p) x)
    (hu : ltP r.untl x = false) (hxy : x.y ≤ 2099) :
    x ∈ l ∨ (l.length = cap ∧ ∀ z ∈ l, ltP z x = true) :=
  Echse.Lemmas.RrSlyRfc.fillSly_complete_pos_gen r p n cap l hr hp hy hf hcap h x hx hsp hu hxy

/-- for a date-time seed the sub-daily statements are about the seed itself -/
theorem seedT_of_timed (p : Inst) (h : p.H ≠ allDay) : seedT p = p := by unfold seedT; rw [if_neg h]

/-! ### the daily filler's hand-over to the weekly one is sound -/
theorem weekly_of_daily {r : Rule} {p x : Inst} (h1 : plainDays r ≠ []) (h2 : r.inter = 1) (hx : DailyInst r p x) :
    WeeklyInst r p x := Echse.Lemmas.RrDlyRfc.weekly_of_daily h1 h2 hx

/-! ### FREQ=MONTHLY
  `MlySup r`: at most 62 BYMONTHDAY values (what the parser's set holds) — no RFC-valid rule is left out.  BYDAY next to
  BYMONTHDAY limits, a numbered entry (1MO, -1FR) allowing the n-th such weekday of the month only (`bydayInMonth`).
  `MlyFirstPos r p` (completeness only): the rule has an occurrence within its first 336 periods from the seed; the code
  gives up after 337 fruitless months, exactly one more than the 336 months after which month lengths and weekdays
  repeat, so there is no slack to argue with — the hypothesis is discharged when the seed is itself an occurrence
  (`monthly_none_missing_sync`), which is the case at every refill. -/

theorem monthly_none_extra (r : Rule) (p : Inst) (n : Nat) (l : List Inst) (h0 : Pre r p) (hn : n ≤ 64)
    (hsup : MlySup r) (hsh : r.shift = 0) (hf : r.pos ≠ [] → r.freq = 2) (h : fillMly r p n = some l) :
    ∀ x ∈ l, MonthlyInst r p x ∧ SetposOk r p x :=
  fillMly_sound_all r p n l h0.rule h0.seed hn h0.year hsup hsh hf h

theorem monthly_none_missing (r : Rule) (p : Inst) (n : Nat) (l : List Inst) (h0 : Pre r p) (hn : n ≤ 64)
    (hsup : MlySup r) (hsh : r.shift = 0) (hf : r.pos ≠ [] → r.freq = 2) (hfp : MlyFirstPos r p)
    (h : fillMly r p n = some l)
    (x : Inst) (hx : MonthlyInst r p x) (hsp : SetposOk r p x) (hge : absOf p ≤ absOf x)
    (hle : ltP r.untl x = false) (hxy : x.y ≤ 2099) :
    x ∈ l ∨ (l.length = capOf r n ∧ ∀ z ∈ l, ltP z x = true) :=
  fillMly_complete_all r p n l h0.rule h0.seed hn h0.year hsup hsh hf hfp h x hx hsp hge hle hxy

/-- without BYSETPOS a seed that is an occurrence needs no `MlyFirstPos` -/
theorem monthly_none_missing_sync (r : Rule) (p : Inst) (n : Nat) (l : List Inst) (h0 : Pre r p) (hn : n ≤ 64)
    (hsup : MlySup r) (hsh : r.shift = 0) (hpos : r.pos = []) (hsync : MonthlyInst r p p) (h : fillMly r p n = some l)
    (x : Inst) (hx : MonthlyInst r p x) (hge : absOf p ≤ absOf x) (hle : ltP r.untl x = false) (hxy : x.y ≤ 2099) :
    x ∈ l ∨ (l.length = capOf r n ∧ ∀ z ∈ l, ltP z x = true) :=
  fillMly_complete_sync r p n l h0.rule h0.seed hn h0.year hsup hsh hpos hsync h x hx hge hle hxy

/-- across a refill: the seed `p` is an occurrence of (`ds`, rule); what the call writes are occurrences of (`ds`, rule) … -/
theorem monthly_refill_none_extra (r : Rule) (ds p : Inst) (n : Nat) (l : List Inst) (h0 : Pre r p) (hn : n ≤ 64)
    (hsup : MlySup r) (hsh : r.shift = 0) (hf : r.pos ≠ [] → r.freq = 2) (hseed : MonthlyInst r ds p)
    (h : fillMly r p n = some l) : ∀ x ∈ l, MonthlyInst r ds x ∧ SetposOk r ds x :=
  fillMly_sound_reseed r ds p n l h0.rule h0.seed hn h0.year hsup hsh hf hseed h

/-- … and none from the seed on is left out -/
theorem monthly_refill_none_missing (r : Rule) (ds p : Inst) (n : Nat) (l : List Inst) (h0 : Pre r p) (hn : n ≤ 64)
    (hsup : MlySup r) (hsh : r.shift = 0) (hf : r.pos ≠ [] → r.freq = 2) (hseed : MonthlyInst r ds p)
    (hfp : MlyFirstPos r p) (h : fillMly r p n = some l)
    (x : Inst) (hx : MonthlyInst r ds x) (hsp : SetposOk r ds x) (hge : absOf p ≤ absOf x)
    (hle : ltP r.untl x = false) (hxy : x.y ≤ 2099) :
    x ∈ l ∨ (l.length = capOf r n ∧ ∀ z ∈ l, ltP z x = true) :=
  fillMly_complete_reseed r ds p n l h0.rule h0.seed hn h0.year hsup hsh hf hseed hfp h x hx hsp hge hle hxy

/-! ### FREQ=YEARLY
  `YlySup r`: no BYEASTER (not RFC 5545), at most 62 BYMONTHDAY and 12 BYMONTH values (the parser's sets), BYDAY ordinals
  not below -53 (RFC 5545: -53..53), and `wkPlain`: with BYWEEKNO and neither BYYEARDAY nor BYMONTHDAY, BYDAY has plain
  weekdays only.  RFC 5545 forbids numbered BYDAY entries together with BYWEEKNO altogether, so no RFC-valid rule is left
  out; the hypothesis is needed, as `fill_yly_ywd` skips numbered entries while `YearlyInst` (`bydayLimit`) reads them
  as plain weekdays: `yearly_weekno_numbered_byday`.  Every combination of BYMONTH / BYWEEKNO / BYYEARDAY / BYMONTHDAY /
  BYDAY is covered: each part present limits the dates of the year, BYDAY limits when BYYEARDAY or BYMONTHDAY is there
  (numbered entries counting within the month with BYMONTH, within the year without), else picks the weekdays within
  the weeks of BYWEEKNO, the months of BYMONTH, or the year.  No "first occurrence" hypothesis is needed: the calendar
  repeats after 28 years and the code tries 63 of them. -/

theorem yearly_none_extra (r : Rule) (p : Inst) (n : Nat) (l : List Inst) (h0 : Pre r p) (hn : n ≤ 64)
    (hsup : YlySup r) (hsh : r.shift = 0) (hf : r.pos ≠ [] → r.freq = 1) (h : fillYly r p n = some l) :
    ∀ x ∈ l, YearlyInst r p x ∧ SetposOk r p x :=
  fillYly_sound_all r p n l h0.rule h0.seed hn h0.year hsup hsh hf h

theorem yearly_none_missing (r : Rule) (p : Inst) (n : Nat) (l : List Inst) (h0 : Pre r p) (hn : n ≤ 64)
    (hsup : YlySup r) (hsh : r.shift = 0) (hf : r.pos ≠ [] → r.freq = 1) (h : fillYly r p n = some l)
    (x : Inst) (hx : YearlyInst r p x) (hsp : SetposOk r p x) (hge : absOf p ≤ absOf x)
    (hle : ltP r.untl x = false) (hxy : x.y ≤ 2099) :
    x ∈ l ∨ (l.length = capOf r n ∧ ∀ z ∈ l, ltP z x = true) :=
  fillYly_complete_all r p n l h0.rule h0.seed hn h0.year hsup hsh hf h x hx hsp hge hle hxy

theorem yearly_refill_none_extra (r : Rule) (ds p : Inst) (n : Nat) (l : List Inst) (h0 : Pre r p) (hn : n ≤ 64)
    (hsup : YlySup r) (hsh : r.shift = 0) (hf : r.pos ≠ [] → r.freq = 1) (hseed : YearlyInst r ds p)
    (h : fillYly r p n = some l) : ∀ x ∈ l, YearlyInst r ds x ∧ SetposOk r ds x :=
  fillYly_sound_reseed r ds p n l h0.rule h0.seed hn h0.year hsup hsh hf hseed h

theorem yearly_refill_none_missing (r : Rule) (ds p : Inst) (n : Nat) (l : List Inst) (h0 : Pre r p) (hn : n ≤ 64)
    (hsup : YlySup r) (hsh : r.shift = 0) (hf : r.pos ≠ [] → r.freq = 1) (hseed : YearlyInst r ds p)
    (h : fillYly r p n = some l)
    (x : Inst) (hx : YearlyInst r ds x) (hsp : SetposOk r ds x) (hge : absOf p ≤ absOf x)
    (hle : ltP r.untl x = false) (hxy : x.y ≤ 2099) :
    x ∈ l ∨ (l.length = capOf r n ∧ ∀ z ∈ l, ltP z x = true) :=
  fillYly_complete_reseed r ds p n l h0.rule h0.seed hn h0.year hsup hsh hf hseed h x hx hsp hge hle hxy

/-- why `YlySup.wkPlain` is there: FREQ=YEARLY;BYWEEKNO=20;BYDAY=1MO from 2021-01-04T09:00:00 — the code finds nothing
(`echse unroll` prints nothing either), the specification has the Monday of week 20 -/
theorem yearly_weekno_numbered_byday :
    fillYly { freq := 1, wk := [20], dow := [1 * 8 + 1] }
      { y := 2021, m := 1, d := 4, H := 9, M := 0, S := 0, ms := 0 } 1 = some [] ∧
    YearlyInst { freq := 1, wk := [20], dow := [1 * 8 + 1] }
      { y := 2021, m := 1, d := 4, H := 9, M := 0, S := 0, ms := 0 }
      { y := 2021, m := 5, d := 17, H := 9, M := 0, S := 0, ms := 0 } := by
  refine ⟨by decide +kernel, ?_⟩
  unfold YearlyInst
  refine ⟨by unfold SameKind; decide, ⟨0, by decide⟩, Or.inl rfl, Or.inr ⟨20, by decide, by decide +kernel⟩,
    Or.inl rfl, Or.inl rfl, ?_, Or.inr ⟨by unfold hourExp; decide, by unfold minExp; decide, by unfold secExp; decide⟩⟩
  rw [if_pos (by decide), if_neg (by decide), if_pos (by decide)]
  exact ⟨9, by decide, by decide +kernel⟩

/-- finding D192, BYWEEKNO at the year's ends: the days of a first week that lie in the December before, and those of a
last week in the January after, belong to the calendar year they lie in.  FREQ=YEARLY;BYWEEKNO=1;BYDAY=MO from
2024-01-01T09:00:00 has 2024-12-30 (the Monday of week 1 of ISO year 2025) in calendar year 2024, in the code and in the
specification; FREQ=YEARLY;BYWEEKNO=-1;BYDAY=FR,SA,SU has 2021-01-01 .. 2021-01-03 (week 53 of ISO year 2020) in
calendar year 2021 -/
theorem yearly_weekno_year_ends :
    fillYly { freq := 1, wk := [1], dow := [1] }
      { y := 2024, m := 1, d := 1, H := 9, M := 0, S := 0, ms := 0 } 3 =
      some [{ y := 2024, m := 1, d := 1, H := 9, M := 0, S := 0, ms := 0 },
            { y := 2024, m := 12, d := 30, H := 9, M := 0, S := 0, ms := 0 },
            { y := 2025, m := 12, d := 29, H := 9, M := 0, S := 0, ms := 0 }] ∧
    weeknoOk { freq := 1, wk := [1], dow := [1] } { y := 2024, m := 12, d := 30, H := 9, M := 0, S := 0, ms := 0 } ∧
    fillYlyYwd [] 2024 [1] [1] = [packCand 1 1, packCand 12 30] ∧
    fillYlyYwd [] 2021 [-1] [5, 6, 7] = [packCand 1 1, packCand 1 2, packCand 1 3, packCand 12 31] ∧
    fillYly { freq := 1, wk := [-1], dow := [5, 6, 7] }
      { y := 2020, m := 12, d := 25, H := 9, M := 0, S := 0, ms := 0 } 4 =
      some [{ y := 2021, m := 1, d := 1, H := 9, M := 0, S := 0, ms := 0 },
            { y := 2021, m := 1, d := 2, H := 9, M := 0, S := 0, ms := 0 },
            { y := 2021, m := 1, d := 3, H := 9, M := 0, S := 0, ms := 0 },
            { y := 2021, m := 12, d := 31, H := 9, M := 0, S := 0, ms := 0 }] ∧
    weeknoOk { freq := 1, wk := [-1], dow := [5, 6, 7] } { y := 2021, m := 1, d := 2, H := 9, M := 0, S := 0, ms := 0 } := by
  refine ⟨by decide +kernel, ⟨1, by decide, 2025, by decide, by decide +kernel⟩, by decide +kernel, by decide +kernel,
    by decide +kernel, ⟨-1, by decide, 2020, by decide, by decide +kernel⟩⟩

/-! the hypotheses are satisfiable: ordinary rules of each kind -/
example : MlySup { freq := 2, dom := [15, -1], dow := [] } := ⟨by decide⟩
/-- MONTHLY;BYMONTHDAY=1,2,3,4,5,6,7;BYDAY=1MO: a numbered BYDAY next to BYMONTHDAY -/
example : MlySup { freq := 2, dom := [1, 2, 3, 4, 5, 6, 7], dow := [1 * 8 + 1] } := ⟨by decide⟩
example : YlySup { freq := 1, mon := [3, 10], dow := [-1 * 8 + 7] } :=
  ⟨rfl, by decide, by decide, by decide, fun h => absurd rfl h⟩
/-- YEARLY;BYMONTHDAY=8,9,10,11,12,13,14;BYDAY=2MO,-1FR: numbered BYDAY next to BYMONTHDAY, counted within the year -/
example : YlySup { freq := 1, dom := [8, 9, 10, 11, 12, 13, 14], dow := [2 * 8 + 1, -1 * 8 + 5] } :=
  ⟨rfl, by decide, by decide, by decide, fun h => absurd rfl h⟩
/-- YEARLY;BYWEEKNO=20;BYMONTH=5: BYWEEKNO next to BYMONTH -/
example : YlySup { freq := 1, mon := [5], wk := [20] } :=
  ⟨rfl, by decide, by decide, by decide, fun _ _ _ t ht => nomatch ht⟩
/-- YEARLY;BYYEARDAY=100,-1;BYMONTH=4,12;BYDAY=FR -/
example : YlySup { freq := 1, doy := [100, -1], mon := [4, 12], dow := [5] } :=
  ⟨rfl, by decide, by decide, by decide, fun h => absurd rfl h⟩

end C01
