/-
  Property C09: the fill loops of the recurrence-rule engine end, stay within the cache they were given, and a rule
  that matches nothing (any more) ends its stream instead of spinning.

  What is modelled: as for C16 (Echse/Model/Rr*.lean: the seven fillers of src/evrrul.c, `refill` / `next_evrrul` of
  src/evical.c).  Every C loop of the weekly, daily and the three sub-daily fillers is a recursive function with an
  explicit fuel argument, and running out of fuel makes the model say `none` -- so "`fill` returns `some`" means: every
  loop ended by one of its own exit conditions within the fuel the model grants (the fuel bounds are justified in the
  model files).  The yearly and the monthly model return the cache also when the fuel is used up; for them the content
  is `yearly_fuel_irrelevant` / `monthly_fuel_irrelevant`: more fuel does not change the run.
  `refill` asks for `nti = 64` instants of a 128-entry cache and stamps the group at offset 64.
  Proofs: Echse/Lemmas/Rr{Yly,Mly,Wly,Dly,Hly,Mnly,Sly}Ok, RrAsm7/8.
-/
import Echse.Lemmas.RrAsm8
namespace C09
open Echse.Rrule Echse.Instant Echse.Spec.RrOk
open Echse.Lemmas.RrStrmOk Echse.Lemmas.RrAsm

/-! ### the loops end -/

/-- every loop of every filler ends within the model's fuel: the call returns -/
theorem every_fill_returns (r : Rule) (p : Inst) (n : Nat) (hr : WfRule r) (hp : WfInst p) (hn : n ≤ 64) :
    ∃ l, fill r p n = some l := by
  have h := fill_total r p n hr hp hn
  cases hf : fill r p n with
  | none => rw [hf] at h; cases h
  | some l => exact ⟨l, rfl⟩

/-- the per-filler statements behind it -/
theorem each_filler_returns (r : Rule) (p : Inst) (n : Nat) (hr : WfRule r) (hp : WfInst p) (hn : n ≤ 64) :
    (fillYly r p n).isSome ∧ (fillMly r p n).isSome ∧ (fillWly r p n).isSome ∧ (fillDly r p n).isSome ∧
    (fillHly r p n).isSome ∧ (fillMnly r p n).isSome ∧ (fillSly r p n).isSome :=
  ⟨Echse.Lemmas.RrYlyOk.fillYly_total r p n hr hp hn, Echse.Lemmas.RrMlyOk.fillMly_total r p n hr hp hn,
   Echse.Lemmas.RrWlyOk.fillWly_total r p n hr hp hn, Echse.Lemmas.RrDlyOk.fillDly_total r p n hr hp hn,
   Echse.Lemmas.RrHlyOk.fillHly_total r p n hr hp hn, Echse.Lemmas.RrMnlyOk.fillMnly_total r p n hr hp hn,
   Echse.Lemmas.RrSlyOk.fillSly_total r p n hr hp hn⟩

open Echse.Lemmas.RrYlyOk in
/-- the yearly loop never ends for want of fuel: the year grows by INTERVAL ≥ 1 per round and the loop is left beyond
2099, so any amount of fuel from the model's own on gives the same run -/
theorem yearly_fuel_irrelevant (r : Rule) (p : Inst) (nti F : Nat) (hr : WfRule r) (hF : 64 * (nti + 1) + 2101 ≤ F) :
    ylyLoop (ylyCtxOf r p nti) F (ylyStart r p) 64 {} =
      ylyLoop (ylyCtxOf r p nti) (64 * (nti + 1) + 2101) (ylyStart r p) 64 {} :=
  fillYly_fuel_enough r p nti F hr hF

open Echse.Lemmas.RrMlyOk in
/-- likewise the monthly loop: the month count `12 y + m` grows every round -/
theorem monthly_fuel_irrelevant (r : Rule) (p : Inst) (nti F y : Nat) (m : Int) (hr : WfRule r) (hm : 1 ≤ p.m ∧ p.m ≤ 12)
    (hs : mlyStart r p = some (y, m)) (hF : mlyTries * (nti + 1) + 12 * 2100 + 1 ≤ F) :
    mlyLoop (mlyCtxOf r p nti) F y m mlyTries {} =
      mlyLoop (mlyCtxOf r p nti) (mlyTries * (nti + 1) + 12 * 2100 + 1) y m mlyTries {} :=
  fillMly_fuel_enough r p nti F y m hr hm hs hF

/-! ### nothing is written beyond the slots asked for -/

/-- a filler asked for `n ≤ 64` instants writes at most `n`: the group stamp at offset 64 of the 128-entry cache and
whatever lies behind `tgt[n)` stay untouched -/
theorem fill_stays_in_cache (r : Rule) (p : Inst) (n : Nat) (l : List Inst) (hr : WfRule r) (hp : WfInst p)
    (hs : ShiftOk r) (hn : n ≤ 64) (h : fill r p n = some l) : l.length ≤ n ∧ l.length ≤ 64 := by
  have := (fill_contract r p n l hr hp hs hn h).len_nti
  exact ⟨this, by omega⟩

/-- the cache `refill` leaves never exceeds 64 entries (with a seed kept back: 63) -/
theorem refill_cache_bounded (r : Rule) (ds : Inst) (hr : WfRule r) (out : List Inst) (s s' : Strm)
    (hI : Inv StrmK r ds out s) (hrem : rem s = []) (h : refill s = some s') : (rem s').length ≤ 64 := by
  have hI' := (inv_refill strm_contract hr hI hrem s' h).1
  by_cases h0 : s.from_ = none ∨ s.rule.count = 0
  · rw [refill_idle h h0]; simp [rem]
  · have hcnt : ¬ s.rule.count = 0 := fun e => h0 (Or.inr e)
    unfold refill at h
    split at h
    · next e => exact absurd (Or.inl e) h0
    next proto hp =>
    rw [if_neg hcnt] at h
    split at h
    · cases h
    next l hl =>
    have hF := (strm_contract.fill s.rule proto 64 l (inv_wfRule hr hI) (hI.seed proto hp).1 (hI.kind proto hp)
      (Nat.le_refl _) hl).1
    have hlen := hF.len_nti
    have hasc := hF.ascending
    by_cases hge : l.length ≥ GRP_CCH_OFF
    · simp only [if_pos hge] at h
      cases h
      have hs : (l.take (l.length - 1)).Pairwise (fun a b => ltP a b = true) :=
        hasc.sublist (List.take_sublist _ _)
      simp only [rem, sortInst_asc _ hs, List.drop_zero, List.length_take]
      omega
    · simp only [if_neg hge] at h
      cases h
      simp only [rem, sortInst_asc _ hasc, List.drop_zero]
      omega

/-! ### an empty (or short) fill ends the stream -/

theorem refill_count0 (s : Strm) (hc : s.rule.count = 0) : ∃ s', refill s = some s' ∧ s'.cch = [] := by
  unfold refill
  split
  · exact ⟨_, rfl, rfl⟩
  · rw [if_pos hc]; exact ⟨_, rfl, rfl⟩

/-- a rule whose first fill finds nothing answers end-of-stream at once -/
theorem empty_set_ends_stream (r : Rule) (ds : Inst) (n : Nat) (hn : 1 ≤ n)
    (h : fill (fixDflts r ds) ds 64 = some []) : pops n (mkStrm r ds) = some ([], true) := by
  obtain ⟨n, rfl⟩ : ∃ k, n = k + 1 := ⟨n - 1, by omega⟩
  have hp : ∃ s', pop (mkStrm r ds) = some (none, s') := by
    unfold pop
    rw [if_pos (by simp [mkStrm])]
    by_cases hc : (mkStrm r ds).rule.count = 0
    · obtain ⟨s', h1, h2⟩ := refill_count0 (mkStrm r ds) hc
      rw [h1]; dsimp only; rw [h2]; exact ⟨_, rfl⟩
    · obtain ⟨s', h1, _, h3, _⟩ := refill_short (mkStrm r ds) ds [] rfl hc h (by decide)
      rw [h1]
      have : s'.cch = [] := by rw [h3]; rfl
      dsimp only
      rw [this]; exact ⟨_, rfl⟩
  obtain ⟨s', hp⟩ := hp
  rw [pops, hp]

/-- a fill that returns fewer than 64 instants notes the end of the stream: no seed is kept, … -/
theorem short_fill_ends (s : Strm) (p : Inst) (l : List Inst) (hp : s.from_ = some p) (hc : s.rule.count ≠ 0)
    (hf : fill s.rule p 64 = some l) (hl : l.length < 64) :
    ∃ s', refill s = some s' ∧ s'.from_ = none ∧ s'.cch = sortInst l ∧ s'.rdi = 0 :=
  refill_short s p l hp hc hf hl

/-- … and from then on the stream hands out what is in its cache and ends, without calling a filler again -/
theorem ended_stream_drains (n : Nat) (s : Strm) (h : s.from_ = none) :
    pops n s = some ((s.cch.drop s.rdi).take n, decide ((s.cch.drop s.rdi).length < n)) :=
  pops_drain n s h

/-! ### not vacuous -/

/-- FREQ=HOURLY;INTERVAL=24;BYHOUR=5 from 06:00 never matches; the filler says so at once (`hlyReach`) … -/
def nR : Rule := { freq := 5, inter := 24, H := [5] }
def nD : Inst := { y := 2020, m := 1, d := 1, H := 6, M := 0, S := 0, ms := allSec }
theorem nR_wf : WfRule nR := by constructor <;> simp [nR, Asc]
theorem nD_wf : WfInst nD := by constructor <;> decide
theorem never_matching_hourly : fill nR nD 64 = some [] := by decide +kernel
/-- … and so the stream ends at once -/
example : pops 3 (mkStrm nR nD) = some ([], true) :=
  empty_set_ends_stream nR nD 3 (by decide) never_matching_hourly

/-- FREQ=YEARLY;BYMONTH=2;BYMONTHDAY=30: the yearly loop runs through all years to 2099, finds nothing and ends -/
def fR : Rule := { freq := 1, mon := [2], dom := [30] }
def fD : Inst := { y := 2020, m := 1, d := 1, H := allDay, M := 0, S := 0, ms := allSec }
theorem never_matching_yearly : fill fR fD 64 = some [] := by decide +kernel
example : pops 1 (mkStrm fR fD) = some ([], true) :=
  empty_set_ends_stream fR fD 1 (by decide) never_matching_yearly

example : ∃ l, fill nR nD 64 = some l := every_fill_returns nR nD 64 nR_wf nD_wf (by decide)

end C09
