/-
  Model of the stream layer: src/evstrm.c `next_evmux` (k-way merge with lookahead cache and
  equal-event suppression) and src/evfilt.c `next_evfilt` / `make_evfilt` (exception filter),
  with src/event.h `echs_event_lt_p` / `echs_event_eq_p` / `echs_event_range`.

  Sub-streams are abstract: a state type `σ` with the two calls the C code makes on them,
  `next(s, false)` and `next(s, true)`; both may change the sub-stream's state (peeking at a
  nested mux pops suppressed duplicates inside it).  Hand transcription; tied to the C code by
  vlib/p_C03.py / p_C02.py through harness/hx_strm.c.
-/
import Echse.Model.Instant
namespace Echse.Stream
open Echse.Instant

/-- `echs_event_t` as far as the stream layer looks at it: `from` is the packed 64-bit instant
(0 = the nul event), `dur` milliseconds, `oid` the interned UID. -/
structure Event where
  from_ : Nat
  dur : Int
  oid : Nat
deriving DecidableEq, Repr, Inhabited

def Event.nul : Event := ⟨0, 0, 0⟩
def Event.isNul (e : Event) : Bool := e.from_ == 0
def maxInstant : Nat := 2^64 - 1

/-- `echs_event_lt_p` = `echs_instant_lt_p` on `from` -/
def evLt (a b : Event) : Bool := ltP (Inst.unpack a.from_) (Inst.unpack b.from_)
/-- `echs_event_eq_p` -/
def evEq (a b : Event) : Bool := a.oid == b.oid && a.from_ == b.from_

/-- the calls made on a sub-stream -/
structure Ops (σ : Type) where
  peek : σ → Event × σ      -- `echs_evstrm_next`
  pop : σ → Event × σ       -- `echs_evstrm_pop`

/-- a stream that is just a list of events (`struct evical_s`: array + index) -/
def listOps : Ops (List Event) where
  peek := fun l => (l.headD Event.nul, l)
  pop := fun l => (l.headD Event.nul, l.tail)

/-! ### `struct evmux_s` -/

structure Mux (σ : Type) where
  subs : List σ
  cache : List Event
  primed : Bool        -- `ev[0].from` is no longer the max-instant marker
  dead : Bool          -- `this->s == NULL`

def Mux.make {σ} (subs : List σ) : Mux σ := { subs := subs, cache := [], primed := false, dead := false }

/-- precache: `for j: ev[j] = next(s[j])` -/
def primeAll {σ} (ops : Ops σ) : List σ → List Event × List σ
  | [] => ([], [])
  | s :: ss =>
    let (e, s') := ops.peek s
    let (es, ss') := primeAll ops ss
    (e :: es, s' :: ss')

/-- the scan `for (i++; i < ns; i++)`: walks the remaining (sub-stream, cached event) pairs with the
current `best`; returns the updated pairs, the final best and its index. -/
def scan {σ} (ops : Ops σ) : List (σ × Event) → Nat → Event → Nat → List (σ × Event) × Event × Nat
  | [], _, best, besti => ([], best, besti)
  | (s, ecur) :: rest, i, best, besti =>
    if ecur.isNul then
      let (r, b, bi) := scan ops rest (i + 1) best besti
      ((s, ecur) :: r, b, bi)
    else if evLt ecur best then
      let (r, b, bi) := scan ops rest (i + 1) ecur i
      ((s, ecur) :: r, b, bi)
    else if evEq ecur best then
      let (_, s1) := ops.pop s
      let (e2, s2) := ops.peek s1
      let (r, b, bi) := scan ops rest (i + 1) best besti
      ((s2, e2) :: r, b, bi)
    else
      let (r, b, bi) := scan ops rest (i + 1) best besti
      ((s, ecur) :: r, b, bi)

/-- index of the first non-nul cached event -/
def firstLive : List Event → Nat → Option Nat
  | [], _ => none
  | e :: es, i => if e.isNul then firstLive es (i + 1) else some i

/-- `next_evmux(strm, popp)` -/
def muxNext {σ} (ops : Ops σ) (m : Mux σ) (popp : Bool) : Event × Mux σ :=
  if m.dead then (Event.nul, m) else
  let (cache, subs) := if m.primed then (m.cache, m.subs) else primeAll ops m.subs
  match firstLive cache 0 with
  | none => (Event.nul, { subs := [], cache := cache, primed := true, dead := true })
  | some i0 =>
    let pairs := subs.zip cache
    let best := cache.getD i0 Event.nul
    let (tl, best, besti) := scan ops (pairs.drop (i0 + 1)) (i0 + 1) best i0
    let pairs := pairs.take (i0 + 1) ++ tl
    let pairs :=
      if popp then
        pairs.zipIdx.map fun ((s, e), k) =>
          if k = besti then
            let (_, s1) := ops.pop s
            let (e2, s2) := ops.peek s1
            (s2, e2)
          else (s, e)
      else pairs
    (best, { subs := pairs.map (·.1), cache := pairs.map (·.2), primed := true, dead := false })

def muxOps {σ} (ops : Ops σ) : Ops (Mux σ) where
  peek := fun m => muxNext ops m false
  pop := fun m => muxNext ops m true

/-! ### `struct evfilt_s` -/

/-- `echs_event_range`: only `beg` matters to the (repaired) filter; a nul `end` marks "no more exceptions".
`end` is `from + dur`, which is nul exactly when the exception event is the nul event (instants are never 0 otherwise). -/
structure Filt (σ τ : Type) where
  e : σ
  x : τ
  exBeg : Nat
  exNul : Bool

/-- `make_evfilt(e, x)`: pops the first exception -/
def Filt.make {σ τ} (xops : Ops τ) (e : σ) (x : τ) : Filt σ τ :=
  let (nx, x') := xops.pop x
  { e := e, x := x', exBeg := nx.from_, exNul := nx.isNul }

/-- the `check:` loop of `next_evfilt`; every iteration pops one event or one exception, `fuel` bounds it -/
def filtLoop {σ τ} (eops : Ops σ) (xops : Ops τ) : Nat → Filt σ τ → Event → Filt σ τ × Event
  | 0, f, e => (f, e)
  | fuel+1, f, e =>
    if f.exNul then (f, e)
    else if e.from_ == f.exBeg then
      let (_, e1) := eops.pop f.e
      let (e', e2) := eops.peek e1
      filtLoop eops xops fuel { f with e := e2 } e'
    else if ltP (Inst.unpack f.exBeg) (Inst.unpack e.from_) then
      let (ex, x') := xops.pop f.x
      filtLoop eops xops fuel { f with x := x', exBeg := ex.from_, exNul := ex.isNul } e
    else (f, e)

/-- `next_evfilt(s, popp)` with an explicit bound on the loop -/
def filtNext {σ τ} (eops : Ops σ) (xops : Ops τ) (fuel : Nat) (f : Filt σ τ) (popp : Bool) : Event × Filt σ τ :=
  let (e, e1) := eops.peek f.e
  let (f, e) := filtLoop eops xops fuel { f with e := e1 } e
  if popp then
    let (_, e2) := eops.pop f.e
    (e, { f with e := e2 })
  else (e, f)

end Echse.Stream
