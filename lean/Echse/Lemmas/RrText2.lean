/-
  C05, rule text round trip — part 2: inserting a list that is in iterator order into the empty set gives the list;
  the value-list loops of BYMONTH / BYHOUR / … (unsigned) and BYMONTHDAY / BYWEEKNO / … (signed) read back what
  `sendPart` prints.
-/
import Echse.Lemmas.RrText1
namespace Echse.RrText
open Echse.Rrule

/-! ### ordered insertion -/

theorem assU_append (acc : List Nat) (x : Nat) (h : ∀ v ∈ acc, v < x) : assU acc x = acc ++ [x] := by
  induction acc with
  | nil => rfl
  | cons v vs ih =>
    have hv : v < x := h v (by simp)
    simp only [assU, hv, if_true, List.cons_append]
    rw [ih (fun w hw => h w (by simp [hw]))]

theorem foldl_assU (l acc : List Nat) (h : (acc ++ l).Pairwise (· < ·)) : l.foldl assU acc = acc ++ l := by
  induction l generalizing acc with
  | nil => simp
  | cons x xs ih =>
    rw [List.foldl_cons]
    have hx : ∀ v ∈ acc, v < x := by
      intro v hv
      exact (List.pairwise_append.mp h).2.2 v hv x (by simp)
    rw [assU_append acc x hx, ih (acc ++ [x]) (by simpa using h)]
    simp

theorem assI_append (acc : List Int) (x : Int) (h : ∀ v ∈ acc, iterLt v x) : assI acc x = acc ++ [x] := by
  induction acc with
  | nil => rfl
  | cons v vs ih =>
    have hv : iterLt v x := h v (by simp)
    unfold iterLt at hv
    simp only [assI, hv, if_true, List.cons_append]
    rw [ih (fun w hw => h w (by simp [hw]))]

theorem foldl_assI (l acc : List Int) (h : (acc ++ l).Pairwise iterLt) : l.foldl assI acc = acc ++ l := by
  induction l generalizing acc with
  | nil => simp
  | cons x xs ih =>
    rw [List.foldl_cons]
    have hx : ∀ v ∈ acc, iterLt v x := by
      intro v hv
      exact (List.pairwise_append.mp h).2.2 v hv x (by simp)
    rw [assI_append acc x hx, ih (acc ++ [x]) (by simpa using h)]
    simp

/-! ### the value-list loops -/

/-- the text behind the first value of a part: `,v,v…` and then whatever follows the part -/
def moreVals {α : Type} (fmt : α → List Char) (xs : List α) (t : List Char) : List Char :=
  xs.flatMap (fun y => ',' :: fmt y) ++ t

theorem moreVals_nil {α : Type} (fmt : α → List Char) (t : List Char) : moreVals fmt [] t = t := rfl
theorem moreVals_cons {α : Type} (fmt : α → List Char) (y : α) (ys : List α) (t : List Char) :
    moreVals fmt (y :: ys) t = ',' :: (fmt y ++ moreVals fmt ys t) := by
  simp [moreVals]

theorem moreVals_noDig {α : Type} (fmt : α → List Char) (xs : List α) (t : List Char) (ht : Term t) :
    NoDig (moreVals fmt xs t) := by
  cases xs with
  | nil => exact ht.noDig
  | cons y ys => rw [moreVals_cons]; exact noDig_cons _ _ (by decide)

theorem ulistLoop_items (ok : Nat → Bool) (xs : List Nat) (x : Nat) (t : List Char) (acc : List Nat) (fuel : Nat)
    (hok : ∀ y ∈ x :: xs, ok y = true ∧ y < 2^64) (ht : Term t) (hf : xs.length < fuel) :
    ulistLoop ok fuel (fmtU x ++ moreVals fmtU xs t) acc = (x :: xs).foldl assU acc := by
  induction xs generalizing x acc fuel with
  | nil =>
    obtain ⟨f, rfl⟩ : ∃ f, fuel = f + 1 := ⟨fuel - 1, by simp at hf; omega⟩
    have h := hok x (by simp)
    rw [ulistLoop, strtoulC_u x _ (moreVals_noDig fmtU [] t ht) h.2]
    simp only [h.1, if_true, moreVals_nil, List.foldl_cons, List.foldl_nil]
    split
    · next r => exact absurd rfl (ht.noComma r)
    · rfl
  | cons y ys ih =>
    obtain ⟨f, rfl⟩ : ∃ f, fuel = f + 1 := ⟨fuel - 1, by simp at hf; omega⟩
    have h := hok x (by simp)
    rw [ulistLoop, strtoulC_u x _ (moreVals_noDig fmtU (y :: ys) t ht) h.2]
    simp only [h.1, if_true, moreVals_cons]
    rw [ih y (assU acc x) f (fun z hz => hok z (by simp at hz ⊢; right; exact hz)) (by simp at hf; omega)]
    rfl

theorem ilistLoop_items (nz : Bool) (lim : Int) (xs : List Int) (x : Int) (t : List Char) (acc : List Int)
    (fuel : Nat) (hlim : lim ≤ 2^62)
    (hok : ∀ y ∈ x :: xs, (nz = true → y ≠ 0) ∧ y ≤ lim ∧ y ≥ -lim) (ht : Term t) (hf : xs.length < fuel) :
    ilistLoop nz lim fuel (fmtD x ++ moreVals fmtD xs t) acc = (x :: xs).foldl assI acc := by
  have step : ∀ z : Int, ((nz = true → z ≠ 0) ∧ z ≤ lim ∧ z ≥ -lim) → ∀ a : List Int,
      (if (nz && z == 0) = true then a else if z ≤ lim ∧ z ≥ -lim then assI a z else a) = assI a z := by
    intro z hz a
    have h1 : (nz && z == 0) = false := by
      cases nz with
      | false => rfl
      | true => simp [hz.1 rfl]
    rw [h1]
    simp [hz.2.1, hz.2.2]
  induction xs generalizing x acc fuel with
  | nil =>
    obtain ⟨f, rfl⟩ : ∃ f, fuel = f + 1 := ⟨fuel - 1, by simp at hf; omega⟩
    have h := hok x (by simp)
    rw [ilistLoop, strtolC_d x _ (moreVals_noDig fmtD [] t ht) (by omega)]
    simp only [step x h, moreVals_nil, List.foldl_cons, List.foldl_nil]
    split
    · next r => exact absurd rfl (ht.noComma r)
    · rfl
  | cons y ys ih =>
    obtain ⟨f, rfl⟩ : ∃ f, fuel = f + 1 := ⟨fuel - 1, by simp at hf; omega⟩
    have h := hok x (by simp)
    rw [ilistLoop, strtolC_d x _ (moreVals_noDig fmtD (y :: ys) t ht) (by omega)]
    simp only [step x h, moreVals_cons]
    rw [ih y (assI acc x) f (fun z hz => hok z (by simp at hz ⊢; right; exact hz)) (by simp at hf; omega)]
    rfl

/-- a value list is at least as long as the number of its values: the fuel `snarf_rrule`'s loops get suffices -/
theorem moreVals_length {α : Type} (fmt : α → List Char) (xs : List α) (t : List Char) :
    xs.length ≤ (moreVals fmt xs t).length := by
  induction xs with
  | nil => simp
  | cons y ys ih => rw [moreVals_cons]; simp; omega

end Echse.RrText
