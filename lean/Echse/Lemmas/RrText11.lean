/-
  C05, rule text round trip — part 11: no NUL in the serialised rule; the optional parts INTERVAL, COUNT, UNTIL.
-/
import Echse.Lemmas.RrText10
namespace Echse.RrText
open Echse.Rrule Echse.Strpf Echse.Instant

/-! ### the text holds no NUL byte -/

theorem avoid_sendPart {α : Type} (c : Char) (key : List Char) (fmt : α → List Char) (l : List α)
    (h1 : ';' ≠ c) (h2 : '=' ≠ c) (h3 : ',' ≠ c) (hk : Avoid c key) (hf : ∀ x, Avoid c (fmt x)) :
    Avoid c (sendPart key fmt l) := by
  cases l with
  | nil => exact avoid_nil c
  | cons x xs =>
    unfold sendPart
    exact avoid_cons h1 (avoid_append (avoid_append hk (avoid_cons h2 (hf x)))
      (avoid_flatMap _ _ (fun y => avoid_cons h3 (hf y))))

theorem avoid_nul_sendCd (v : Int) : Avoid '\x00' (sendCd v) := by
  have hall : ∀ w, w < 8 → Avoid '\x00' (wdayName w) := by decide
  unfold sendCd
  refine avoid_append (avoid_ite (avoid_fmtD (by decide) (by decide) _) (avoid_nil _)) ?_
  by_cases hw : (v % 8).toNat < 8
  · exact hall _ hw
  · have : wdayName (v % 8).toNat = [] := by
      unfold wdayName
      rw [List.getD_eq_getElem?_getD, List.getElem?_eq_none (by simp; omega)]
      rfl
    rw [this]; exact avoid_nil _

theorem avoid_nul_sendScale (sca : Nat) : Avoid '\x00' (sendScale sca) := by
  have hall : ∀ g, g < 11 → Avoid '\x00' (scaleName g) := by decide
  unfold sendScale
  split
  · exact avoid_append (by decide) (hall _ (by omega))
  · exact avoid_nil _

theorem avoid_nul_sendShift (sh : Int) : Avoid '\x00' (sendShift sh) := by
  by_cases h0 : sh = 0
  · subst h0; exact avoid_nil _
  · rw [sendShift_eq sh h0]
    exact avoid_append (by decide)
      (avoid_shiftText '\x00' (by decide) (by decide) (by decide) (by decide) (by decide) sh)

theorem avoid_nul_body (r : Rule) (ccnt : Nat) : Avoid '\x00' (body r ccnt) := by
  have hu : ∀ (key : List Char) (l : List Nat), Avoid '\x00' key → Avoid '\x00' (sendPart key fmtU l) :=
    fun key l hk => avoid_sendPart _ key fmtU l (by decide) (by decide) (by decide) hk (avoid_fmtU (by decide))
  have hi : ∀ (key : List Char) (l : List Int), Avoid '\x00' key → Avoid '\x00' (sendPart key fmtD l) :=
    fun key l hk => avoid_sendPart _ key fmtD l (by decide) (by decide) (by decide) hk
      (avoid_fmtD (by decide) (by decide))
  unfold body tInter tScale tMon tWk tDoy tDom tEaster tDow tH tM tS tPos tShift tCount tUntil
  refine avoid_append (avoid_append (by decide) (avoid_freqName _ (by decide) _)) ?_
  refine avoid_append (avoid_ite (avoid_append (by decide) (avoid_fmtU (by decide) _)) (avoid_nil _)) ?_
  refine avoid_append (avoid_nul_sendScale _) ?_
  refine avoid_append (hu _ _ (by decide)) ?_
  refine avoid_append (hi _ _ (by decide)) ?_
  refine avoid_append (hi _ _ (by decide)) ?_
  refine avoid_append (hi _ _ (by decide)) ?_
  refine avoid_append (hi _ _ (by decide)) ?_
  refine avoid_append (avoid_sendPart _ _ sendCd _ (by decide) (by decide) (by decide) (by decide)
    avoid_nul_sendCd) ?_
  refine avoid_append (hu _ _ (by decide)) ?_
  refine avoid_append (hu _ _ (by decide)) ?_
  refine avoid_append (hu _ _ (by decide)) ?_
  refine avoid_append (hi _ _ (by decide)) ?_
  refine avoid_append (avoid_nul_sendShift _) ?_
  refine avoid_append (avoid_ite (avoid_append (by decide) (avoid_fmtU (by decide) _)) (avoid_nil _)) ?_
  exact avoid_ite (avoid_append (by decide) (avoid_ical _ (by decide) (by decide) (by decide) _)) (avoid_nil _)

/-! ### the optional parts -/

theorem part_inter' (r0 : Rule) (n : Nat) (t : List Char) (ht : Term t) (hn : 1 ≤ n ∧ n < 2^31) :
    parseFrom r0 ((if n > 1 then ";INTERVAL=".toList ++ fmtU n else []) ++ t)
      = parseFrom { r0 with inter := if n > 1 then n else r0.inter } t := by
  split
  · exact part_inter r0 n t ht hn
  · rfl

/-- COUNT carries the occurrences already handed out (`ccnt`) as well -/
theorem part_count' (r0 : Rule) (cnt : Int) (ccnt : Nat) (t : List Char) (ht : Term t)
    (hc : cnt = -1 ∨ (1 ≤ cnt ∧ cnt + ccnt < 2^31)) :
    parseFrom r0 ((if cnt ≥ 0 then ";COUNT=".toList ++ fmtU ((cnt.toNat + ccnt) % 2^64) else []) ++ t)
      = parseFrom { r0 with count := if cnt ≥ 0 then cnt + ccnt else r0.count } t := by
  rcases hc with hc | hc
  · subst hc; rfl
  · have h0 : cnt ≥ 0 := by omega
    simp only [h0, if_true]
    have hm : (cnt.toNat + ccnt) % 2^64 = cnt.toNat + ccnt := by omega
    rw [hm, part_count r0 (cnt.toNat + ccnt) t ht (by omega)]
    have : ((cnt.toNat + ccnt : Nat) : Int) = cnt + ccnt := by omega
    rw [this]

theorem pack_lt_of_untilOk (i : Inst) (h : UntilOk i) : i.pack < 2^64 - 1 := by
  have hy := h.1
  unfold Inst.pack
  omega

theorem part_until' (r0 r : Rule) (hu : r.untl = Inst.unpack (2^64 - 1) ∨ UntilOk r.untl) :
    parseFrom r0 (tUntil r) = some { r0 with untl := if r.untl.pack < 2^64 - 1 then r.untl else r0.untl } := by
  unfold tUntil
  rcases hu with hu | hu
  · have : ¬ (r.untl.pack < 2^64 - 1) := by rw [hu]; decide
    simp only [this, if_false]
    rfl
  · have := pack_lt_of_untilOk _ hu
    simp only [this, if_true]
    exact part_until r0 r.untl hu

end Echse.RrText
