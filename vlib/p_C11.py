"""C11 — queue is a per-user map by UID; users cannot touch others' tasks."""
from . import p_echsd

RULE = ("random histories on echsd.c (virtual-time loop): add / replace / cancel requests from 4 known users and an unknown "
        "peer over a small pool of UIDs (so that replacing, cancelling and foreign access happen constantly), X-ECHS-OWNER "
        "fields naming the peer or someone else, interleaved with clock advances, child exits, table dumps and GET [/u/<uid>]/sched[?tuid=] requests from every user and root (own uid, another uid, bit-supersets such as 1023/2047, none); root and "
        "per-user daemons; tasks whose UID has 256..700 characters, tasks without UID (filed under the hash of the command, "
        "listed and cancellable as echse/autouid-0x...@echse) and tasks with neither UID nor SUMMARY; the reference is the abstract map UID -> (owner, task): one reply per instruction, 2.0 iff the "
        "map changed as requested, no effect on other users' entries.")


def probes(ctx):
    """two fixed histories for the recorded limits of the task table (keyed by the bare 32-bit hash of the UID, direct-mapped)"""
    from . import common
    from .p_echsd import TaskSpec, request, T0, xxh32
    exe = p_echsd.build(ctx)
    same = ("job-91490@example.com", "job-327544@example.com")          # equal hashes
    near = ("t2046", "t2398")                                           # hashes that agree in their low 22 bits
    assert xxh32(same[0].encode()) == xxh32(same[1].encode()) and (xxh32(near[0].encode()) ^ xxh32(near[1].encode())) % (1 << 23) == 1 << 22
    add = lambda peer, uid: request(peer, [TaskSpec(uid, [T0 + 500, T0 + 600])])[0]
    lines = ["d.hist 0 ; T %d ; %s ; %s ; Q" % (T0, add(1001, same[0]), add(1001, same[1])),
             "d.hist 0 ; T %d ; %s ; %s ; QZ" % (T0, add(1001, near[0]), add(1002, near[1]))]
    impl, st, err = ctx.impl(exe, lines, timeout=300)
    seen = {}
    g = p_echsd.parse_groups(impl[0]) if impl else []
    rows = [r.split(":")[0] for r in g[-1].split(",") if r] if g else None
    if rows is None or sorted(rows) != sorted(same):
        seen["uid-hash-collision"] = ("two UIDs of one user with equal 32-bit hashes (%s, %s): the queue holds %s, replies %s" % (same + (rows, g[2:4] if g else None)), lines[0])
    g = p_echsd.parse_groups(impl[1]) if len(impl) > 1 else []
    m = __import__("re").match(r"(\d+)/(\d+)$", g[-1]) if g else None
    if not m or int(m.group(1)) != 2 or int(m.group(2)) > 1 << 16:
        seen["table-growth"] = ("two tasks whose UID hashes agree in the low 22 bits (%s, %s): tasks/slots of the table %s, replies %s" % (near + (g[-1] if g else None, g[2:4] if g else None)), lines[1])
    ctx.cov["table_probes"] = {k: v[0] for k, v in seen.items()} or "two colliding UIDs are two entries; the table stays small"
    known = {k.get("class"): k for k in common.load_known("C11") if k.get("status") == "known"}
    for c, (why, line) in seen.items():
        if c in known:
            ctx.known(known[c]["what"])
        elif not any(v["found"] for v in ctx.violations):
            ctx.violation("property", why, {"op": line, "impl": impl})


def run(ctx):
    probes(ctx)
    p_echsd.run_checks(ctx, "C11", {"steps": 26, "nusers": 4, "p_cancel": 0.35, "chk": False, "http": True, "httpq": True, "conns": True,
                                      "uidforms": [None] * 6 + ["long", "auto", "auto", "none"]}, 500, 6000, RULE,
                       me_choices=(0, 0, 0, 1001))


replay = p_echsd.replay
