/-
  C01 for the YEARLY / MONTHLY filler models, part 1: the emission of one period read as a fold of a simple step
  (`pstep`) over the list of instants the period offers, and both period loops read as one abstract loop (`aLoop`)
  over such lists.  States are compared up to the position counter `inst` (`Sim`).
-/
import Echse.Lemmas.RrYlyOk
import Echse.Lemmas.RrMlyOk
namespace Echse.Lemmas.RrCandRfc
open Echse.Rrule Echse.Instant Echse.Spec.RrOk Echse.Lemmas.RrCandOk

/-- what the emission does with one instant offered (no SHIFT): nothing once finished or full; UNTIL passed: finish;
before the seed: skip; else write -/
def pstep (k : FillCtx) (st : FillSt) (x : Inst) : FillSt :=
  if st.fin ∨ !(st.res < k.nti) then st
  else if ltP k.untl x then { st with fin := true }
  else if ltP x k.proto then st
  else { st with hit := true, out := x :: st.out, res := st.res + 1 }

/-- equal up to the position counter -/
def Sim (a b : FillSt) : Prop := a.out = b.out ∧ a.res = b.res ∧ a.hit = b.hit ∧ a.fin = b.fin

theorem Sim.rfl' (a : FillSt) : Sim a a := ⟨rfl, rfl, rfl, rfl⟩

theorem Sim.trans {a b c : FillSt} (h1 : Sim a b) (h2 : Sim b c) : Sim a c :=
  ⟨h1.1.trans h2.1, h1.2.1.trans h2.2.1, h1.2.2.1.trans h2.2.2.1, h1.2.2.2.trans h2.2.2.2⟩

theorem Sim.symm {a b : FillSt} (h : Sim a b) : Sim b a := ⟨h.1.symm, h.2.1.symm, h.2.2.1.symm, h.2.2.2.symm⟩

theorem pstep_stop (k : FillCtx) (st : FillSt) (x : Inst) (h : st.fin ∨ !(st.res < k.nti)) : pstep k st x = st := by
  unfold pstep
  exact if_pos h

theorem pstep_sim (k : FillCtx) {a b : FillSt} (h : Sim a b) (x : Inst) : Sim (pstep k a x) (pstep k b x) := by
  obtain ⟨h1, h2, h3, h4⟩ := h
  unfold pstep
  by_cases c1 : a.fin ∨ !(a.res < k.nti)
  · have c1' : b.fin ∨ !(b.res < k.nti) := by rw [← h2, ← h4]; exact c1
    rw [if_pos c1, if_pos c1']; exact ⟨h1, h2, h3, h4⟩
  · have c1' : ¬ (b.fin ∨ !(b.res < k.nti)) := by rw [← h2, ← h4]; exact c1
    rw [if_neg c1, if_neg c1']
    by_cases c2 : ltP k.untl x = true
    · rw [if_pos c2, if_pos c2]; exact ⟨h1, h2, h3, rfl⟩
    · rw [if_neg c2, if_neg c2]
      by_cases c3 : ltP x k.proto = true
      · rw [if_pos c3, if_pos c3]; exact ⟨h1, h2, h3, h4⟩
      · rw [if_neg c3, if_neg c3]
        refine ⟨?_, ?_, rfl, h4⟩
        · show x :: a.out = x :: b.out
          rw [h1]
        · show a.res + 1 = b.res + 1
          rw [h2]

theorem foldl_pstep_sim (k : FillCtx) (E : List Inst) {a b : FillSt} (h : Sim a b) :
    Sim (E.foldl (pstep k) a) (E.foldl (pstep k) b) := by
  induction E generalizing a b with
  | nil => exact h
  | cons x E ih => exact ih (pstep_sim k h x)

/-- once finished or full nothing changes -/
theorem foldl_pstep_stop (k : FillCtx) (E : List Inst) (st : FillSt) (h : st.fin ∨ !(st.res < k.nti)) :
    E.foldl (pstep k) st = st := by
  induction E with
  | nil => rfl
  | cons x E ih =>
    rw [List.foldl_cons, pstep_stop k st x h]; exact ih

/-- without SHIFT and without position counting the ENUM round is `pstep` -/
theorem emitStep_pstep (k : FillCtx) (ninst yy yd : Nat) (st : FillSt) (t : Nat × Nat × Nat) (hs : k.sh = 0)
    (ht : k.tposp = false) : emitStep k ninst yy yd st t = pstep k st (mkX k yy yd t) := by
  unfold emitStep pstep mkX
  simp only [ht, hs, Bool.false_eq_true, false_and, ite_false, ne_eq, not_true_eq_false, and_false]
  split
  · rfl
  split
  · rfl
  split
  · rfl
  · split <;> rfl

theorem emitDay_pstep (k : FillCtx) (ninst yy yd : Nat) (st : FillSt) (hs : k.sh = 0) (ht : k.tposp = false) :
    emitDay k ninst yy yd st = (dayE k yy yd).foldl (pstep k) st := by
  rw [emitDay_eq]
  unfold dayE
  rw [List.foldl_map]
  congr 1
  funext st t
  exact emitStep_pstep k ninst yy yd st t hs ht

theorem emitSet_pstep (k : FillCtx) (ninst yy : Nat) (cs : List Nat) (st : FillSt) (hs : k.sh = 0)
    (ht : k.tposp = false) :
    cs.foldl (fun st yd =>
        if st.fin ∨ !(st.res < k.nti) then st
        else if k.tposp ∧ !possSelP k.pos (st.inst + 1) (st.inst + k.nT) ninst then
          { st with inst := st.inst + k.nT }
        else emitDay k ninst yy yd st) st = (setE k yy cs).foldl (pstep k) st := by
  induction cs generalizing st with
  | nil => rfl
  | cons c cs ih =>
    simp only [List.foldl_cons, setE, List.flatMap_cons, List.foldl_append]
    have h1 : (if st.fin ∨ !(st.res < k.nti) then st
        else if k.tposp ∧ !possSelP k.pos (st.inst + 1) (st.inst + k.nT) ninst then
          { st with inst := st.inst + k.nT }
        else emitDay k ninst yy c st) = (dayE k yy c).foldl (pstep k) st := by
      split
      · rename_i h; rw [foldl_pstep_stop k _ st h]
      · rw [ht]; simp only [Bool.false_eq_true, false_and, ite_false]
        exact emitDay_pstep k ninst yy c st hs ht
    rw [h1]
    exact ih _

/-- the period's tail without SHIFT and without position counting: BYSETPOS on the days, then a fold of `pstep` -/
theorem finishPeriod_pstep (k : FillCtx) (y : Nat) (cand : List Nat) (st : FillSt) (hs : k.sh = 0)
    (ht : k.tposp = false) :
    finishPeriod k y cand st = (setE k y (clrPoss cand k.pos)).foldl (pstep k) { st with hit := false } := by
  unfold finishPeriod emitPeriod
  have e1 : (if !k.tposp then clrPoss cand k.pos else cand) = clrPoss cand k.pos := by rw [ht]; rfl
  have e2 : (if k.tposp then { st with inst := 0 } else st) = st := by rw [ht]; rfl
  have e3 : shift { same := clrPoss cand k.pos } y k.sh = { same := clrPoss cand k.pos } := by rw [hs]; rfl
  simp only [e1, e2, e3, List.foldl_cons, List.foldl_nil]
  rw [emitSet_pstep k _ _ [] _ hs ht, emitSet_pstep k _ _ _ _ hs ht, emitSet_pstep k _ _ [] _ hs ht]
  simp [setE]

end Echse.Lemmas.RrCandRfc
