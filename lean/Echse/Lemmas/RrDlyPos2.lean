/-
  BYSETPOS for the daily filler: soundness and completeness of the day loop's run with BYSETPOS.
-/
import Echse.Lemmas.RrDlyPos1
namespace Echse.Lemmas.RrRfc
open Echse.Rrule Echse.Instant Echse.Spec.RrOk Echse.Spec.Cal Echse.Spec.RuleExt Echse.Spec.Rfc
open Echse.Lemmas.RrOkBase

theorem not_handover_of_pos {r : Rule} (hpos : r.pos ≠ []) : ¬ Handover r := by
  rintro ⟨-, -, -, h4⟩
  cases hq : r.pos with
  | nil => exact hpos hq
  | cons a as => rw [hq] at h4; simp at h4

theorem dly_pos_sound (r : Rule) (p : Inst) (n nti : Nat) (l : List Inst) (hr : WfRule r) (hp : WfInst p)
    (hy : 1901 ≤ p.y) (hf : r.freq = 4) (hpos : r.pos ≠ []) (hcap : capNti r n = some nti)
    (h : fillDly r p n = some l) : ∀ x ∈ l, SetposOk r p x := by
  rw [fillDly_nh r p n nti hr hp hcap (not_handover_of_pos hpos)] at h
  obtain ⟨l', hl, rfl⟩ := Option.map_eq_some_iff.1 h
  obtain ⟨hc0, hw0⟩ := dly_start r p nti hp hy
  rw [hw0] at hl
  have he : EnumOk (dctx r p nti).e := makeEnum_ok r p hr hp
  intro x hx
  refine dlyLoop_sound (dctx r p nti) hr hp he (SetposOk r p) ?_ _ 0 p.y p.m p.d [] l' hc0
    (fun z hz => by cases hz) hl x (List.mem_reverse.1 hx)
  intro j y m d hc hy2 hsk t ht hskip _ _
  exact (dlySkip_iff r p nti hr hp hy hf hpos j y m d hc hy2 hsk t ht).1 hskip

theorem dly_pos_complete (r : Rule) (p : Inst) (n nti : Nat) (l : List Inst) (hr : WfRule r) (hp : WfInst p)
    (hy : 1901 ≤ p.y) (hf : r.freq = 4) (hpos : r.pos ≠ []) (hcap : capNti r n = some nti)
    (h : fillDly r p n = some l) (x : Inst) (hx : DailyInst r p x) (hsp : SetposOk r p x) (hge : absOf p ≤ absOf x)
    (hle : ltP r.untl x = false) (hxy : x.y ≤ 2099) :
    x ∈ l ∨ (l.length = nti ∧ ∀ z ∈ l, ltP z x = true) := by
  refine dly_nh_complete' r p n nti l hr hp hy hcap (not_handover_of_pos hpos) h x hx hge hle hxy ?_
  intro k ix hc hsk hix
  have hxeq : mkz x.y x.m x.d p.ms (ix, x.H, x.M, x.S) = x := by
    have hms := hx.1.2.2.2.2.1
    unfold mkz
    cases x
    simp only at hms
    subst hms
    rfl
  have := (dlySkip_iff r p nti hr hp hy hf hpos k x.y x.m x.d hc hxy hsk (ix, x.H, x.M, x.S) hix).2
  rw [hxeq] at this
  exact this hsp

end Echse.Lemmas.RrRfc
