/-
  Stream layer, part 7: the prefix lemma.  The answers of a merge up to an instant depend only
  on the parts of the sources up to that instant: two families of source lists that agree on
  their events with key ≤ K give the same answers as long as the answers are events with key ≤ K.
  This is what lets the finite-list theorems speak about prefixes of unbounded rule streams.
-/
import Echse.Lemmas.Stream4
namespace Echse.Stream

/-! ### the scan with an optional best, from the first source on -/

/-- one source in the scan -/
def ostep (l : List Event) (i : Nat) (o : Option (Event × Nat)) : List Event × Option (Event × Nat) :=
  match l, o with
  | [], o => ([], o)
  | h :: t, none => (h :: t, some (h, i))
  | h :: t, some (b, bi) =>
    if evLt h b then (h :: t, some (h, i))
    else if evEq h b then (t, some (b, bi))
    else (h :: t, some (b, bi))

def oscan : List (List Event) → Nat → Option (Event × Nat) → List (List Event) × Option (Event × Nat)
  | [], _, o => ([], o)
  | l :: rest, i, o =>
    ((ostep l i o).1 :: (oscan rest (i+1) (ostep l i o).2).1, (oscan rest (i+1) (ostep l i o).2).2)

theorem oscan_some : ∀ (rest : List (List Event)) (i : Nat) (b : Event) (bi : Nat),
    oscan rest i (some (b, bi)) = ((lscan rest i b bi).1, some (lscan rest i b bi).2) := by
  intro rest
  induction rest with
  | nil => intro i b bi; rfl
  | cons l rest ih =>
    intro i b bi
    cases l with
    | nil => simp only [oscan, ostep, lscan, ih]
    | cons h t =>
      simp only [oscan, ostep, lscan]
      split
      · simp only [ih]
      · split <;> simp only [ih]

theorem oscan_empty_prefix : ∀ (E rest : List (List Event)) (i : Nat) (o : Option (Event × Nat)),
    (∀ l ∈ E, l = []) →
    oscan (E ++ rest) i o = (E ++ (oscan rest (i + E.length) o).1, (oscan rest (i + E.length) o).2) := by
  intro E
  induction E with
  | nil => intro rest i o _; rfl
  | cons a E ih =>
    intro rest i o hE
    have ha : a = [] := hE a List.mem_cons_self
    subst ha
    simp only [List.cons_append, oscan, ostep, List.length_cons]
    rw [ih rest (i+1) o (fun l hl => hE l (List.mem_cons_of_mem _ hl))]
    have : i + 1 + E.length = i + (E.length + 1) := by omega
    rw [this]

/-- `lstep` as one scan over all sources -/
theorem lstep_oscan (ls : List (List Event)) (b : Bool) :
    lstep ls b = match (oscan ls 0 none).2 with
      | none => (Event.nul, [])
      | some (e, bi) => (e, if b then popAt bi (oscan ls 0 none).1 else (oscan ls 0 none).1) := by
  rcases split_cases ls with h | ⟨E, h, t, rest, h1, h2⟩
  · rw [lstep_empty h]
    have := oscan_empty_prefix ls [] 0 none h
    simp only [List.append_nil, oscan] at this
    rw [this]
  · rw [h1, lstep_split E h t rest h2, oscan_empty_prefix E _ 0 none h2]
    simp only [oscan, ostep, Nat.zero_add, oscan_some]

/-- where the scan's best sits -/
theorem oscan_best : ∀ (ls : List (List Event)) (i : Nat) (o : Option (Event × Nat)) (b : Event) (bi : Nat),
    (oscan ls i o).2 = some (b, bi) →
    o = some (b, bi) ∨ ∃ pre t post, (oscan ls i o).1 = pre ++ (b :: t) :: post ∧ bi = i + pre.length := by
  intro ls
  induction ls with
  | nil => intro i o b bi h; exact Or.inl h
  | cons l ls ih =>
    intro i o b bi h
    simp only [oscan] at h ⊢
    rcases ih (i+1) _ b bi h with h' | ⟨pre, t, post, h1, h2⟩
    · -- the best was set at this source, or before
      cases l with
      | nil => exact Or.inl h'
      | cons x t =>
        cases o with
        | none =>
          simp only [ostep, Option.some.injEq, Prod.mk.injEq] at h'
          right
          refine ⟨[], t, (oscan ls (i + 1) (ostep (x :: t) i none).2).1, ?_, by simp [h'.2]⟩
          simp only [ostep, List.nil_append, h'.1]
        | some p =>
          obtain ⟨b0, bi0⟩ := p
          simp only [ostep] at h' ⊢
          split at h'
          · simp only [Option.some.injEq, Prod.mk.injEq] at h'
            right
            rename_i hlt
            obtain ⟨hx, hi⟩ := h'
            subst hx hi
            exact ⟨[], t, (oscan ls (i + 1) (some (x, i))).1, by simp only [hlt, if_true, List.nil_append],
              by simp⟩
          · split at h' <;> exact Or.inl h'
    · right
      refine ⟨(ostep l i o).1 :: pre, t, post, ?_, ?_⟩
      · rw [h1]; rfl
      · rw [h2, List.length_cons]; omega

/-! ### agreement up to `K` -/

def Low (K : Nat) (l : List Event) : Prop := ∀ x ∈ l, key x.from_ ≤ K
def High (K : Nat) (l : List Event) : Prop := ∀ x ∈ l, K < key x.from_

/-- same events up to `K`, only later ones behind -/
def AgreeTo (K : Nat) (l1 l2 : List Event) : Prop :=
  ∃ p r1 r2, l1 = p ++ r1 ∧ l2 = p ++ r2 ∧ Low K p ∧ High K r1 ∧ High K r2

inductive Agree (K : Nat) : List (List Event) → List (List Event) → Prop
  | nil : Agree K [] []
  | cons {l1 l2 : List Event} {ls1 ls2 : List (List Event)} :
      AgreeTo K l1 l2 → Agree K ls1 ls2 → Agree K (l1 :: ls1) (l2 :: ls2)

def OHigh (K : Nat) (o : Option (Event × Nat)) : Prop := ∀ b bi, o = some (b, bi) → K < key b.from_

def ORel (K : Nat) (o1 o2 : Option (Event × Nat)) : Prop :=
  (o1 = o2 ∧ ∃ b bi, o1 = some (b, bi) ∧ key b.from_ ≤ K) ∨ (OHigh K o1 ∧ OHigh K o2)

theorem High.tail {K : Nat} {l : List Event} (h : High K l) : High K l.tail :=
  fun x hx => h x (List.mem_of_mem_tail hx)

theorem ostep_high {K : Nat} {l : List Event} (hl : High K l) (i : Nat) {o : Option (Event × Nat)}
    (ho : OHigh K o) : High K (ostep l i o).1 ∧ OHigh K (ostep l i o).2 := by
  cases l with
  | nil => exact ⟨hl, ho⟩
  | cons h t =>
    have hh : K < key h.from_ := hl h List.mem_cons_self
    have hnew : OHigh K (some (h, i)) := by
      intro b bi hb
      simp only [Option.some.injEq, Prod.mk.injEq] at hb
      rw [← hb.1]; exact hh
    cases o with
    | none => exact ⟨hl, hnew⟩
    | some p =>
      obtain ⟨b0, bi0⟩ := p
      simp only [ostep]
      split
      · exact ⟨hl, hnew⟩
      · split
        · exact ⟨fun x hx => hl x (List.mem_cons_of_mem _ hx), ho⟩
        · exact ⟨hl, ho⟩

theorem ostep_high_low {K : Nat} {l : List Event} (hl : High K l) (i : Nat) {b : Event} (bi : Nat)
    (hb : key b.from_ ≤ K) : ostep l i (some (b, bi)) = (l, some (b, bi)) := by
  cases l with
  | nil => rfl
  | cons h t =>
    have hh : K < key h.from_ := hl h List.mem_cons_self
    have h1 : evLt h b = false := by rw [evLt_false_iff]; omega
    have h2 : evEq h b = false := by
      cases hq : evEq h b
      · rfl
      · have := evEq_from hq; rw [this] at hh; omega
    simp only [ostep, h1, h2, Bool.false_eq_true, if_false]

theorem ostep_rel {K : Nat} {l1 l2 : List Event} (ha : AgreeTo K l1 l2) (i : Nat)
    {o1 o2 : Option (Event × Nat)} (ho : ORel K o1 o2) :
    AgreeTo K (ostep l1 i o1).1 (ostep l2 i o2).1 ∧ ORel K (ostep l1 i o1).2 (ostep l2 i o2).2 := by
  obtain ⟨p, r1, r2, e1, e2, hp, hr1, hr2⟩ := ha
  cases p with
  | nil =>
    simp only [List.nil_append] at e1 e2
    subst e1 e2
    rcases ho with ⟨heq, b, bi, hb1, hb2⟩ | ⟨h1, h2⟩
    · subst heq
      rw [hb1, ostep_high_low hr1 i bi hb2, ostep_high_low hr2 i bi hb2]
      exact ⟨⟨[], l1, l2, rfl, rfl, hp, hr1, hr2⟩, Or.inl ⟨rfl, b, bi, rfl, hb2⟩⟩
    · obtain ⟨a1, a2⟩ := ostep_high hr1 i h1
      obtain ⟨a3, a4⟩ := ostep_high hr2 i h2
      exact ⟨⟨[], _, _, rfl, rfl, hp, a1, a3⟩, Or.inr ⟨a2, a4⟩⟩
  | cons h p' =>
    subst e1 e2
    have hh : key h.from_ ≤ K := hp h List.mem_cons_self
    have hp' : Low K p' := fun x hx => hp x (List.mem_cons_of_mem _ hx)
    have keep : AgreeTo K (h :: p' ++ r1) (h :: p' ++ r2) := ⟨h :: p', r1, r2, rfl, rfl, hp, hr1, hr2⟩
    have drop : AgreeTo K (p' ++ r1) (p' ++ r2) := ⟨p', r1, r2, rfl, rfl, hp', hr1, hr2⟩
    have same : ORel K (some (h, i)) (some (h, i)) := Or.inl ⟨rfl, h, i, rfl, hh⟩
    -- from a high (or no) best the head becomes the best
    have fromHigh : ∀ (r : List Event) (o : Option (Event × Nat)), OHigh K o →
        ostep (h :: p' ++ r) i o = (h :: p' ++ r, some (h, i)) := by
      intro r o ho
      cases o with
      | none => rfl
      | some q =>
        obtain ⟨b0, bi0⟩ := q
        have := ho b0 bi0 rfl
        have hlt : evLt h b0 = true := by rw [evLt_iff]; omega
        simp only [List.cons_append, ostep, hlt, if_true]
    rcases ho with ⟨heq, b, bi, hb1, hb2⟩ | ⟨h1, h2⟩
    · subst heq
      subst hb1
      simp only [List.cons_append, ostep]
      split
      · exact ⟨keep, same⟩
      · split
        · exact ⟨drop, Or.inl ⟨rfl, b, bi, rfl, hb2⟩⟩
        · exact ⟨keep, Or.inl ⟨rfl, b, bi, rfl, hb2⟩⟩
    · rw [fromHigh r1 o1 h1, fromHigh r2 o2 h2]
      exact ⟨keep, same⟩

theorem oscan_rel {K : Nat} {ls1 ls2 : List (List Event)} (ha : Agree K ls1 ls2) :
    ∀ (i : Nat) (o1 o2 : Option (Event × Nat)), ORel K o1 o2 →
      Agree K (oscan ls1 i o1).1 (oscan ls2 i o2).1 ∧ ORel K (oscan ls1 i o1).2 (oscan ls2 i o2).2 := by
  induction ha with
  | nil => intro i o1 o2 ho; exact ⟨Agree.nil, ho⟩
  | cons a _ ih =>
    intro i o1 o2 ho
    obtain ⟨s1, s2⟩ := ostep_rel a i ho
    obtain ⟨t1, t2⟩ := ih (i+1) _ _ s2
    exact ⟨Agree.cons s1 t1, t2⟩

theorem AgreeTo.tail {K : Nat} {l1 l2 : List Event} (ha : AgreeTo K l1 l2)
    (hlow : ∀ h t, l1 = h :: t → key h.from_ ≤ K) : AgreeTo K l1.tail l2.tail := by
  obtain ⟨p, r1, r2, e1, e2, hp, hr1, hr2⟩ := ha
  cases p with
  | nil =>
    simp only [List.nil_append] at e1 e2
    subst e1 e2
    cases l1 with
    | nil => exact ⟨[], [], l2.tail, rfl, rfl, hp, hr1, hr2.tail⟩
    | cons h t =>
      have := hlow h t rfl
      have := hr1 h List.mem_cons_self
      omega
  | cons h p' =>
    subst e1 e2
    exact ⟨p', r1, r2, rfl, rfl, fun x hx => hp x (List.mem_cons_of_mem _ hx), hr1, hr2⟩

theorem Agree.popAt {K : Nat} {ls1 ls2 : List (List Event)} (ha : Agree K ls1 ls2) :
    ∀ n, (∀ h t, ls1.getD n [] = h :: t → key h.from_ ≤ K) → Agree K (popAt n ls1) (popAt n ls2) := by
  induction ha with
  | nil => intro n _; cases n <;> exact Agree.nil
  | cons a r ih =>
    intro n hn
    cases n with
    | zero => exact Agree.cons (a.tail hn) r
    | succ n => exact Agree.cons a (ih n hn)

/-- one call: while the answer is an event with key ≤ `K`, it is the same for both families,
and the families still agree afterwards -/
theorem lstep_rel {K : Nat} {ls1 ls2 : List (List Event)} (ha : Agree K ls1 ls2) (b : Bool)
    (hn : (lstep ls1 b).1.isNul = false) (hk : key (lstep ls1 b).1.from_ ≤ K) :
    (lstep ls2 b).1 = (lstep ls1 b).1 ∧ Agree K (lstep ls1 b).2 (lstep ls2 b).2 := by
  have init : ORel K none none := Or.inr ⟨fun _ _ h => (by cases h), fun _ _ h => (by cases h)⟩
  obtain ⟨ag, rel⟩ := oscan_rel ha 0 none none init
  rw [lstep_oscan ls1 b] at hn hk ⊢
  rw [lstep_oscan ls2 b]
  rcases rel with ⟨heq, e, bi, he1, he2⟩ | ⟨h1, _⟩
  · rw [← heq, he1]
    refine ⟨rfl, ?_⟩
    cases b
    · exact ag
    · simp only [if_true]
      apply ag.popAt
      intro h t hget
      rcases oscan_best ls1 0 none e bi he1 with h' | ⟨pre, t', post, q1, q2⟩
      · cases h'
      · rw [q1, q2, Nat.zero_add, List.getD_eq_getElem?_getD,
          List.getElem?_append_right (Nat.le_refl _)] at hget
        simp only [Nat.sub_self, List.getElem?_cons_zero, Option.getD_some, List.cons.injEq] at hget
        rw [← hget.1]; exact he2
  · exfalso
    cases ho : (oscan ls1 0 none).2 with
    | none => rw [ho] at hn; simp [Event.isNul, Event.nul] at hn
    | some q =>
      obtain ⟨e, bi⟩ := q
      rw [ho] at hk
      have := h1 e bi ho
      simp only at hk
      omega

/-- scripts: the first `n` answers agree if those of the first family are events with key ≤ `K` -/
theorem lanswers_prefix {K : Nat} : ∀ (sc : List Bool) (ls1 ls2 : List (List Event)) (n : Nat),
    Agree K ls1 ls2 →
    (∀ e ∈ (answers lOps ls1 sc).take n, e.isNul = false ∧ key e.from_ ≤ K) →
    (answers lOps ls2 sc).take n = (answers lOps ls1 sc).take n := by
  intro sc
  induction sc with
  | nil => intro ls1 ls2 n _ _; rfl
  | cons b sc ih =>
    intro ls1 ls2 n ha h
    cases n with
    | zero => rfl
    | succ n =>
      simp only [answers, call_lOps, List.take_succ_cons] at h ⊢
      obtain ⟨h1, h2⟩ := h _ List.mem_cons_self
      obtain ⟨r1, r2⟩ := lstep_rel ha b h1 h2
      rw [r1, ih _ _ n r2 (fun e he => h e (List.mem_cons_of_mem _ he))]

/-! ### appending later events -/

theorem sorted_split (K : Nat) : ∀ (l : List Event), Sorted l →
    ∃ p r, l = p ++ r ∧ Low K p ∧ High K r := by
  intro l
  induction l with
  | nil => intro _; exact ⟨[], [], rfl, fun x hx => (by cases hx), fun x hx => (by cases hx)⟩
  | cons h t ih =>
    intro hs
    by_cases hh : key h.from_ ≤ K
    · obtain ⟨p, r, e, hp, hr⟩ := ih hs.tail
      refine ⟨h :: p, r, by rw [e]; rfl, ?_, hr⟩
      intro x hx
      rcases List.mem_cons.mp hx with rfl | hx
      · exact hh
      · exact hp x hx
    · refine ⟨[], h :: t, rfl, fun x hx => (by cases hx), ?_⟩
      intro x hx
      have := (evLt_false_iff _ _).mp (hs.head_le x hx)
      omega

/-- appending events later than `K` to sorted sources gives a family that agrees up to `K` -/
theorem agree_append (K : Nat) : ∀ (ls ext : List (List Event)), ls.length = ext.length →
    (∀ l ∈ ls, Sorted l) → (∀ x ∈ ext, High K x) → Agree K ls (List.zipWith (· ++ ·) ls ext) := by
  intro ls
  induction ls with
  | nil => intro ext _ _ _; exact Agree.nil
  | cons l ls ih =>
    intro ext hlen hs hx
    cases ext with
    | nil => simp at hlen
    | cons x ext =>
      simp only [List.zipWith_cons_cons]
      refine Agree.cons ?_ (ih ext (by simpa using hlen) (fun l hl => hs l (List.mem_cons_of_mem _ hl))
        (fun y hy => hx y (List.mem_cons_of_mem _ hy)))
      obtain ⟨p, r, e, hp, hr⟩ := sorted_split K l (hs l List.mem_cons_self)
      refine ⟨p, r, r ++ x, e, by rw [e, List.append_assoc], hp, hr, ?_⟩
      intro y hy
      rcases List.mem_append.mp hy with hy | hy
      · exact hr y hy
      · exact hx x List.mem_cons_self y hy

end Echse.Stream
