/-
  Assembly of C16 / C09, part 3: the `reassess` loop of `shift()` in echse's own calendar (every fourth year a leap
  year, `getNdom`), for all years: it lands on the real date with the same day number (`eDay`), and a displacement
  of at most 365 days ends in the same or a neighbouring year.  (The C17 lemmas RuleExt10/15 say the same against
  the Gregorian calendar, hence only for 1902..2098.)
-/
import Echse.Lemmas.RuleExt10
namespace Echse.Lemmas.RrAsm
open Echse.Rrule Echse.Instant
open Echse.RuleExt (prevYM nextYM prev_if next_if getNdom_bounds)

/-- days before the first of month `m` in a common year -/
def eCum (m : Nat) : Nat := [0, 0, 31, 59, 90, 120, 151, 181, 212, 243, 273, 304, 334].getD m 0

/-- the number of days before `y-m-01` in echse's calendar, counted from 0000-01-01 -/
def eDay (y m : Nat) : Nat := 365 * y + (y + 3) / 4 + eCum m + (if y % 4 = 0 ∧ 3 ≤ m then 1 else 0)

theorem eDay_next (y m : Nat) (h1 : 1 ≤ m) (h2 : m ≤ 12) :
    eDay (nextYM y m).1 (nextYM y m).2 = eDay y m + getNdom y m := by
  unfold nextYM
  rcases month_cases m h1 h2 with e|e|e|e|e|e|e|e|e|e|e|e <;> subst e <;>
    simp [eDay, eCum, getNdom, mdays] <;> (try split) <;> omega

theorem eDay_prev (y m : Nat) (h1 : 1 ≤ m) (h2 : m ≤ 12) (hy : 1 ≤ y ∨ 2 ≤ m) :
    eDay y m = eDay (prevYM y m).1 (prevYM y m).2 + getNdom (prevYM y m).1 (prevYM y m).2 := by
  unfold prevYM
  rcases month_cases m h1 h2 with e|e|e|e|e|e|e|e|e|e|e|e <;> subst e <;>
    simp [eDay, eCum, getNdom, mdays] <;> (try split) <;> omega

/-- a month lies within its year -/
theorem eDay_year (y m : Nat) (h1 : 1 ≤ m) (h2 : m ≤ 12) :
    365 * y + (y + 3) / 4 ≤ eDay y m ∧ eDay y m + getNdom y m ≤ 365 * (y + 1) + (y + 4) / 4 := by
  rcases month_cases m h1 h2 with e|e|e|e|e|e|e|e|e|e|e|e <;> subst e <;>
    simp [eDay, eCum, getNdom, mdays] <;> (try split) <;> omega

theorem prevYM_m (y m : Nat) (h1 : 1 ≤ m) (h2 : m ≤ 12) : 1 ≤ (prevYM y m).2 ∧ (prevYM y m).2 ≤ 12 := by
  unfold prevYM; split <;> simp <;> omega
theorem nextYM_m (y m : Nat) (h1 : 1 ≤ m) (h2 : m ≤ 12) : 1 ≤ (nextYM y m).2 ∧ (nextYM y m).2 ≤ 12 := by
  unfold nextYM; split <;> simp <;> omega

/-- `reassess` lands on the real date with the same day number -- as long as that is not before 0000-01-01 -/
theorem reassess_eDay : ∀ (fuel y m : Nat) (d : Int), 1 ≤ m → m ≤ 12 →
    ((1 ≤ d ∧ d ≤ getNdom y m) ∨ (-28 * (fuel : Int) < d ∧ d ≤ 28 * (fuel : Int) + 28)) →
    1 ≤ (eDay y m : Int) + d →
    ∃ ny nm nd : Nat, reassess fuel y m d = ((ny : Int), (nm : Int), (nd : Int)) ∧
      1 ≤ nm ∧ nm ≤ 12 ∧ 1 ≤ nd ∧ nd ≤ getNdom ny nm ∧ (eDay ny nm : Int) + nd = eDay y m + d := by
  intro fuel
  induction fuel with
  | zero =>
    intro y m d h1 h2 hf _
    have hb := getNdom_bounds y m h1 h2
    exact ⟨y, m, d.toNat, by rw [reassess]; congr 2; omega, h1, h2, by omega, by omega, by omega⟩
  | succ f ih =>
    intro y m d h1 h2 hf hlo
    have hb := getNdom_bounds y m h1 h2
    rw [reassess]
    simp only [Int.toNat_natCast]
    by_cases hd0 : d ≤ 0
    · rw [if_pos hd0]
      have hy1 : 1 ≤ y ∨ 2 ≤ m := by
        by_cases hy : 1 ≤ y
        · exact Or.inl hy
        · right
          have : y = 0 := by omega
          subst this
          rcases month_cases m h1 h2 with e|e|e|e|e|e|e|e|e|e|e|e <;> subst e <;> simp [eDay, eCum] at hlo <;> omega
      have hm' := prevYM_m y m h1 h2
      have hb' := getNdom_bounds (prevYM y m).1 (prevYM y m).2 hm'.1 hm'.2
      have hE := eDay_prev y m h1 h2 hy1
      by_cases hy : 1 ≤ y
      · rw [prev_if y m h1 hy]
        simp only [Int.toNat_natCast]
        obtain ⟨ny, nm, nd, e, r⟩ := ih (prevYM y m).1 (prevYM y m).2 (d + getNdom (prevYM y m).1 (prevYM y m).2)
          hm'.1 hm'.2 (by omega) (by omega)
        exact ⟨ny, nm, nd, e, r.1, r.2.1, r.2.2.1, r.2.2.2.1, by omega⟩
      · -- year 0, not January: the year stays
        have hy0 : y = 0 := by omega
        have hm2 : 2 ≤ m := by omega
        have hp : prevYM y m = (y, m - 1) := by unfold prevYM; rw [if_neg (by omega)]
        simp only [hp] at hm' hb' hE
        have e1 : ¬ ((m : Int) - 1 ≤ 0) := by omega
        rw [if_neg e1]
        have e2 : ((m : Int) - 1) = ((m - 1 : Nat) : Int) := by omega
        simp only [e2, Int.toNat_natCast]
        obtain ⟨ny, nm, nd, e, r⟩ := ih y (m - 1) (d + getNdom y (m - 1)) hm'.1 hm'.2 (by omega) (by omega)
        exact ⟨ny, nm, nd, e, r.1, r.2.1, r.2.2.1, r.2.2.2.1, by omega⟩
    · rw [if_neg hd0]
      by_cases hbig : d > getNdom y m
      · rw [if_pos hbig]
        rw [next_if y m h2]
        have hm' := nextYM_m y m h1 h2
        have hE := eDay_next y m h1 h2
        obtain ⟨ny, nm, nd, e, r⟩ := ih (nextYM y m).1 (nextYM y m).2 (d - getNdom y m) hm'.1 hm'.2
          (by omega) (by omega)
        exact ⟨ny, nm, nd, e, r.1, r.2.1, r.2.2.1, r.2.2.2.1, by omega⟩
      · rw [if_neg hbig]
        exact ⟨y, m, d.toNat, by congr 2; omega, h1, h2, by omega, by omega, by omega⟩

end Echse.Lemmas.RrAsm
