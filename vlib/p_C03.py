"""C03 — merged event stream is chronological, complete and duplicate-free.

Real streams are built in harness hx_strm (evical.c's array stream, echs_evstrm_vmux, nesting) and driven by
random peek/pop scripts.  Oracle: order / multiset / peek-purity / end conditions on the implementation's
answers.  Correspondence: Echse.Model.Stream.muxNext on the same trees and scripts.
"""
import collections

from . import common
from .common import hex16
from . import p_C08
from . import p_strm


def gen_tree(rng, depth=0):
    """mux over 1..6 sources; sources are sorted lists, sometimes nested muxes"""
    k = rng.choice([1, 2, 2, 3, 3, 4, 6])
    pool_n = rng.choice([3, 6, 12, 40])
    pool = sorted({hex16(*p_C08.rand_inst(rng, rng.choice(["ms", "sec", "day"]), 2019, 2021)) for _ in range(pool_n)},
                  key=lambda h: p_C08.okey(common.unhex16(h)))
    if rng.random() < 0.3:        # same day, mixed kinds: all-day < all-second < ms
        d = common.unhex16(pool[0])
        pool = [hex16(*(d[:3] + t)) for t in ((255, 0, 0, 0), (0, 0, 0, 1023), (0, 0, 0, 0), (0, 0, 0, 1), (12, 0, 0, 1023))]
    noids = rng.choice([1, 2, 3])
    subs = []
    for _ in range(k):
        if depth < 2 and rng.random() < 0.2:
            subs.append(gen_tree(rng, depth + 1))
            continue
        n = rng.choice([0, 1, 2, 3, 5, 8, 15])
        evs = sorted((rng.choice(pool), rng.randint(1, noids), 0) for _ in range(n))
        if rng.random() < 0.8:    # a source is itself duplicate-free (what the property speaks about)
            evs = sorted(set(evs))
        evs.sort(key=lambda e: p_C08.okey(common.unhex16(e[0])))
        subs.append(("L", evs))
    return ("M", subs)


def check(tree, script, answer):
    """property-level judgement of the implementation's answers to a script"""
    if answer.startswith("<"):
        return "the stream functions: %s" % answer[:200]
    got = answer.split()
    if len(got) != len(script):
        return "answered %d of %d calls" % (len(got), len(script))
    srcs = p_strm.leaves(tree)
    total = collections.Counter()
    for s in srcs:                      # expected multiset: per (oid, from) the maximum multiplicity over the sources
        c = collections.Counter((e[0], e[1]) for e in s)
        for kk, v in c.items():
            total[kk] = max(total[kk], v)
    popped = []
    last_peek = None
    ended = False
    for c, g in zip(script, got):
        if ended and g != "-":
            return "an event is delivered after end-of-stream was reported"
        if last_peek is not None and g != last_peek:
            return "peek returned %s but the following call returned %s" % (last_peek, g)
        if g == "-":
            ended = True
            last_peek = "-"
            continue
        h, oid = g.split(":")
        if c == "p":
            popped.append((h, int(oid)))
            last_peek = None
        else:
            last_peek = g
    keys = [p_C08.okey(common.unhex16(h)) for h, _ in popped]
    if any(a > b for a, b in zip(keys, keys[1:])):
        return "popped occurrences are not in non-decreasing start order"
    pc = collections.Counter(popped)
    if any(pc[kk] > total[kk] for kk in pc):
        return "an occurrence is delivered more often than any source holds it (or is not in any source)"
    if ended:
        # every (uid, start) of every source at least once; identical ones collapse (to one when the sources
        # are duplicate-free, never to more than the largest number any single source holds)
        miss = [kk for kk in total if pc[kk] == 0]
        if miss:
            return "stream ended although %d occurrence(s) were never delivered, e.g. %s" % (len(miss), miss[0])
    return None


def d42_class(tree):
    """class predicate of known finding D42: some mux node has two sources holding the same (uid, start)
    while one of its sources holds occurrences of two different uids at that very start
    (then the duplicate can hide behind the other uid and is not at the head when its twin is delivered)."""
    if tree[0] == "L":
        return False
    if tree[0] == "F":
        return d42_class(tree[1]) or d42_class(tree[2])
    outs = [p_strm.ref_list(s) for s in tree[1]]
    seen = {}
    for i, o in enumerate(outs):
        for e in o:
            seen.setdefault((e[0], e[1]), set()).add(i)
    for (h, oid), srcs in seen.items():
        if len(srcs) >= 2:
            for o in outs:
                if len({e[1] for e in o if e[0] == h}) >= 2:
                    return True
    return any(d42_class(s) for s in tree[1])


def parse_tree(toks):
    t = toks.pop(0)
    if t == "L":
        n = int(toks.pop(0))
        evs = []
        for _ in range(n):
            h, o, d = toks.pop(0).split(":")
            evs.append((h, int(o), int(d)))
        return ("L", evs)
    if t == "M":
        k = int(toks.pop(0))
        return ("M", [parse_tree(toks) for _ in range(k)])
    return ("F", parse_tree(toks), parse_tree(toks))


def parse_op(op):
    toks = op.split()
    assert toks[0] == "m.run"
    i = toks.index("#")
    return parse_tree(toks[1:i]), "".join(toks[i + 1:])


def run(ctx):
    exe = p_strm.build(ctx)
    rng = ctx.rng
    n = 20000 if ctx.tier == "thorough" else 2500
    cases = []
    for _ in range(n):
        tree = gen_tree(rng)
        tot = sum(len(l) for l in p_strm.leaves(tree))
        script = "".join(rng.choice("pppn") for _ in range(tot + rng.randint(0, 4)))
        if rng.random() < 0.2:
            script = "n" * rng.randint(1, 3) + script
        cases.append((tree, script))
    for l in common.load_corpus("C03"):
        cases.append(parse_op(l))
    known = [k for k in common.load_known("C03") if k.get("status") == "known" and k.get("witness", "").startswith("m.run")]
    for k in known:
        cases.append(parse_op(k["witness"]))
    # a stream goes on as its clone at any point (evfilt and evmrul clone their constituents; `c' in the script), or is the
    # clone of a stream nobody has looked at (`C' before the tree): the calls and answers are those of the stream itself
    ops = []
    nclones = 0
    plain = ["m.run %s # %s" % (p_strm.render(t), s) for t, s in cases]
    for ci, (t, s) in enumerate(cases):
        z = rng.random() if ci < n else 1.0        # (corpus lines and recorded witnesses as they are)
        if z < 0.25:
            k = rng.randint(0, len(s))
            s = s[:k] + "c" + s[k:]
            if rng.random() < 0.3:
                k = rng.randint(0, len(s))
                s = s[:k] + "c" + s[k:]
            nclones += 1
        rend = p_strm.render(t)
        if 0.35 <= z < 0.5 and 2 <= len(t[1]) <= 6 and all(x[0] == "L" and x[1] for x in t[1]):
            # the same sources through one of the other constructors (argument lists end at the first NULL, so no empty source)
            rend = rng.choice(["MX", "MC", "VC"]) + rend[1:]
        ops.append("m.run %s%s # %s" % ("C " if 0.25 <= z < 0.35 else "", rend, s))
        nclones += 0.25 <= z < 0.35
    impl, st, err = ctx.impl(exe, ops)
    model = ctx.model(ops)
    fails = []
    in_class = []
    shape = collections.Counter()
    nclass = 0
    for i, (tree, script) in enumerate(cases):
        shape["k=%d%s" % (len(tree[1]), "+nested" if any(s[0] == "M" for s in tree[1]) else "")] += 1
        why = check(tree, script, impl[i] if i < len(impl) else "")
        cls = d42_class(tree)
        nclass += cls
        if why and cls and "more often" in why:
            in_class.append((i, why))          # attributed to the recorded finding D42
        elif why:
            fails.append((i, why))
    for k in known:
        # the witness is replayed on every run; the finding is reported while it still fails
        j = plain.index("m.run %s # %s" % (p_strm.render(parse_op(k["witness"])[0]), parse_op(k["witness"])[1]))
        if any(i == j for i, _ in in_class):
            ctx.known(k["what"])
    ctx.cov["in_known_finding_class"] = nclass
    ctx.cov["failures_attributed_to_known_findings"] = len(in_class)
    corr = common.diff_lines(ops, impl, model)
    # merged streams as the parser builds them: events with several RRULEs and RDATE lines (the rule streams are muxed, cloned
    # and muxed again with the dates), the first 60 occurrences against the sorted duplicate-free union of the single rules'
    # reference expansions
    from . import p_algebra
    an, afails, ahist, aocc, ast = p_algebra.run(ctx, exe, rng, 2500 if ctx.tier == "thorough" else 350, False)
    alg = {}
    for op, why in afails:
        alg[len(alg)] = op
        fails.append((-len(alg), why))
    # files in two output scales merged by the command line tool (recorded finding, class mixed-calscale)
    import os, subprocess, tempfile
    objs, log = ctx.lib_objects()
    cli, log = ctx.cc("echse_hx", [os.path.join(common.HARNESS, "hx_echse.c"), os.path.join(ctx.src, "version.c")] + (objs or []),
                      extra=["-DHAVE_VERSION_H", "-DSTANDALONE"])
    if cli:
        d = tempfile.mkdtemp(prefix="hxc03-", dir=ctx.scratch)
        open(os.path.join(d, "a.ics"), "w").write("BEGIN:VCALENDAR\nCALSCALE:HIJRI.IA\nBEGIN:VEVENT\nUID:h\nSUMMARY:h\nDTSTART;VALUE=DATE:20190101\n"
                                                "RRULE:FREQ=MONTHLY;COUNT=2\nEND:VEVENT\nEND:VCALENDAR\n")
        open(os.path.join(d, "b.ics"), "w").write("BEGIN:VCALENDAR\nBEGIN:VEVENT\nUID:g\nSUMMARY:g\nDTSTART;VALUE=DATE:20190415\nEND:VEVENT\nEND:VCALENDAR\n")
        r = subprocess.run([cli, "unroll", os.path.join(d, "a.ics"), os.path.join(d, "b.ics")], stdout=subprocess.PIPE, stderr=subprocess.PIPE,
                           env=dict(os.environ, ASAN_OPTIONS="detect_leaks=0"), timeout=60)
        names = [l.split("\t")[1] for l in r.stdout.decode().split("\n") if "\t" in l]
        ctx.cov["mixed_calscale_probe"] = names
        if names != ["h", "h", "g"]:       # 1440-04-23 = 2019-01-01 and 1440-05-25 come before 2019-04-15
            kn = [k for k in common.load_known("C03") if k.get("status") == "known" and k.get("class") == "mixed-calscale"]
            if kn:
                ctx.known(kn[0]["what"])
            else:
                fails.append((0, "`echse unroll' of a file with CALSCALE:HIJRI.IA (occurrences 2019-01-01, 2019-02-0x) and a Gregorian one (2019-04-15): order %s" % names))
    ctx.cov.update({
        "scripts_with_clones": int(nclones), "calendars_through_whole_parser": an, "occurrences_compared_with_union": aocc, "calendar_shapes": ahist,
        "evaluations": len(ops) + an,
        "distinct_nontrivial": len({o for o, (t, s) in zip(ops, cases) if sum(len(l) for l in p_strm.leaves(t)) >= 2}),
        "traces_validated_against_impl": len(ops) - len(corr),
        "rule": "(a) calendars with 0-3 RRULEs and RDATE lines through the whole parser against the sorted, duplicate-free union "
                "of the reference expansions; (b) mux trees over 1..6 sources (20% of the sources nested muxes, depth <= 3); sources are sorted event lists "
                "of 0..15 events drawn from a small pool of instants (ties, identical (uid, start) across sources, all-day / "
                "all-second / ms instants of one day), 80% duplicate-free per source; scripts of peek/pop calls slightly "
                "longer than the stream. non-trivial = at least 2 events in total; distinct = distinct op lines",
        "samples": [ops[i][:160] + "  =>  " + (impl[i][:100] if i < len(impl) else "?") for i in
                    sorted(rng.sample(range(len(ops)), min(5, len(ops))))],
        "shapes": dict(shape),
        "harness_status": st,
        "impl_vs_spec_failures": len(fails),
        "impl_vs_model_differences": len(corr),
        "exhaustive": False,
    })
    ctx.assumptions += ["sources deliver their events in non-decreasing start order (C16 for rule streams)"]
    if st != "ok" and not fails and not corr:
        ctx.violation("correspondence", "harness ended with %s: %s" % (st, err[-600:]), {"stderr": err}, found_input=False)
    if fails:
        i, why = fails[0]
        if i < 0:
            aop = alg[-i - 1]
            aout, _, _ = ctx.impl(exe, [aop])
            ctx.violation("property", why, {"op": aop, "impl": aout[0] if aout else None, "failures_total": len(fails)})
        else:
            ctx.violation("property", why, {"op": ops[i], "impl": impl[i] if i < len(impl) else None, "model": model[i],
                                            "failures_total": len(fails)})
    elif corr:
        i, op, a, b = corr[0]
        ctx.violation("correspondence", "implementation and model differ on %d scripts, order/multiset/peek conditions hold; first: %s"
                      % (len(corr), op[:200]), {"correspondence": "Echse.Model.Stream.muxNext vs evstrm.c", "op": op,
                                                 "impl": a, "model": b}, found_input=False)


def replay(ctx, rep):
    exe = p_strm.build(ctx)
    op = rep["data"].get("op")
    if not op:
        print("replay names no input: %s" % rep.get("what"))
        return 1
    out, st, _ = ctx.impl(exe, [op])
    print("op: %s\nimpl: %s\nmodel: %s\nwas: %s" % (op[:300], out[0] if out else st, "-" if op.startswith("p.occ") else ctx.model([op])[0], rep.get("what")))
    return 1 if (out and out[0] == rep["data"].get("impl")) else 0
