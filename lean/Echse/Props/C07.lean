import Echse.Model.Tz
namespace C07
open Echse.Tz

/-- smoke (general statements replace this): the last recorded transition itself is found (was finding D06) -/
theorem last_transition_found :
    findTrno { trs := [10, 20, 30], tys := [0, 1, 0], offs := [0, 3600] } 30 0 3 = some 2 := by decide

end C07
