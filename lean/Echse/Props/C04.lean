import Echse.Model.Daemon
namespace C04
open Echse.Daemon

/-- smoke (general statements replace this): three late occurrences collapse into one run -/
theorem late_occurrences_collapse :
    let t : DTask := { sid := 0, uid := "j", owner := 1001, occ := [10, 20, 30, 40], dur := 0, maxSimul := 63 }
    let (s, t) := startPeriodic { me := 0, now := 5 } t
    ((tick { s with tasks := [t] } 35).2).length = 1 := by decide

end C04
