import Echse.Model.Rrule
import Echse.Model.RrCand
import Driver.Util
open Echse.Rrule
namespace Driver

def showCand (l : List Nat) : String := if l.isEmpty then "-" else showList l

def parseIntList? (s : String) : Option (List Int) :=
  if s == "-" then some [] else (s.splitOn ",").mapM String.toInt?
def parseNatList? (s : String) : Option (List Nat) :=
  if s == "-" then some [] else (s.splitOn ",").mapM String.toNat?

/-- split the argument words at the `|` words -/
def splitBars (args : List String) : List (List String) :=
  args.foldr (fun w acc => if w == "|" then [] :: acc else match acc with
    | [] => [[w]]
    | a :: rest => (w :: a) :: rest) [[]]

/-- `y.cand FN Y …`: one of the candidate builders of Echse.Model.RrCand on an empty set (formats: hx_rrul.c) -/
def runCand (fn : String) (y : Nat) (rest : List String) : String :=
  let il := fun (s : List String) => parseIntList? (s.headD "-")
  let nl := fun (s : List String) => parseNatList? (s.headD "-")
  let wd := fun (s : List String) => (s.headD "").toNat?.map (· % 256)
  let out := fun (o : Option (List Nat)) => match o with | some c => showCand c | none => "bad-op"
  match fn, splitBars rest with
  | "ywd", [a, b] => out do fillYlyYwd [] y (← il a) (← il b)
  | "ymcw", [a, b] => out do fillYlyYmcw [] y (← il a) ((← nl b).take 12)
  | "mdall", [a, b] => out do fillYlyMdAll [] y ((← nl a).take 12) (← wd b)
  | "ycw", [a] => out do fillYlyYcw [] y (← il a)
  | "ydall", [a] => out do fillYlyYdAll [] y (← wd a)
  | "yd", [a, b, c, d] => out do fillYlyYd [] y (← il a) (← il b) (← wd c) ((d.headD "0") != "0")
  | "ymdallm", [a, b, c] => out do fillYlyYmdAllM [] y ((← il a).take 62) (← il b) (← wd c)
  | "lim", [a, b, c, d, e, f] => out do
      limCand ((← nl a).foldl assC []) y (← nl b) (← il c) (← il d) (← il e) (← il f)
  | "ymdalld", [a, b] => out do fillYlyYmdAllD [] y ((← nl a).take 12) (← wd b)
  | "ymd", [a, b, c, d] => out do fillYlyYmd [] y ((← nl a).take 12) ((← il b).take 62) (← il c) (← wd d)
  | _, _ => "bad-op"

def runRrule (op : String) (args : List String) : String :=
  match op, args with
  | "y.mcnt", [y, m, w] => match y.toNat?, m.toNat?, w.toNat? with
    | some y, some m, some w => toString (getMcnt y m w) | _, _, _ => "bad-op"
  | "y.ymcw", [y, m, c, w] => match y.toNat?, m.toNat?, c.toInt?, w.toNat? with
    | some y, some m, some c, some w => toString (ymcwGetDom y m c w) | _, _, _, _ => "bad-op"
  | "y.ycw", [y, c, w] => match y.toNat?, c.toInt?, w.toNat? with
    | some y, some c, some w => toString (ycwGetYday y c w) | _, _, _ => "bad-op"
  | "y.ywd", [y, w, d] => match y.toNat?, w.toInt?, d.toInt? with
    | some y, some w, some d => toString (ywdGetYday y w d) | _, _, _ => "bad-op"
  | "y.isowk", [y] => match y.toNat? with | some y => toString (getIsowk y) | none => "bad-op"
  | "y.cand", fn :: y :: rest => match y.toNat? with | some y => runCand fn y rest | none => "bad-op"
  | "y.easter", [y] => match y.toNat? with | some y => toString (easterGetYday y) | none => "bad-op"
  | "y.wday", [y, m, d] => match y.toNat?, m.toNat?, d.toNat? with
    | some y, some m, some d => toString (ymdGetWday y m d) | _, _, _ => "bad-op"
  | "y.ndom", [y, m] => match y.toNat?, m.toNat? with
    | some y, some m => toString (getNdom y m) | _, _ => "bad-op"
  | "y.ydmd", [y, doy] => match y.toNat?, doy.toInt? with
    | some y, some doy => let md := ydToMd y doy; s!"{md.m} {md.d}" | _, _ => "bad-op"
  | "y.shift", y :: sh :: rest => match y.toNat?, sh.toInt?, parseNatList? (rest.headD "-") with
    | some y, some sh, some c =>
      let r := shift { same := c.foldl assC [] } y sh
      s!"{showCand r.same}|{showCand r.prev}|{showCand r.next}"
    | _, _, _ => "bad-op"
  | "y.eastr", y :: rest => match y.toNat?, splitBars rest with
    | some y, [[offs], [mon], [dom], [wd]] =>
      match parseIntList? offs, parseNatList? mon, parseIntList? dom, wd.toNat? with
      | some offs, some mon, some dom, some wd => showCand (fillYlyEastr [] y offs mon dom (wd % 256))
      | _, _, _, _ => "bad-op"
    | _, _ => "bad-op"
  | "y.clrposs", rest => match splitBars rest with
    | [[cand], [poss]] => match parseNatList? cand, parseIntList? poss with
      | some c, some p => showCand (clrPoss (c.foldl assC []) p)
      | _, _ => "bad-op"
    | _ => "bad-op"
  | "y.snarfshift", [hex] =>
    -- the SHIFT text, hex-encoded
    let rec unhex : List Char → Option (List Char)
      | a :: b :: r => do
        let x ← hexDigit? a; let y ← hexDigit? b; let t ← unhex r
        pure (Char.ofNat (x * 16 + y) :: t)
      | [] => some []
      | _ => none
    match unhex hex.toList with
    | some cs => toString (snarfShift (String.ofList cs))
    | none => "bad-op"
  | _, _ => "bad-op"

end Driver
