/-
  Model of `rrul_fill_wly` (src/evrrul.c:1442-1643, FREQ=WEEKLY) with `pos_match_p` (1420-1436) and
  `WLY_DLY_MAX_YEAR` (1440).  Hand transcription, loop by loop; C `unsigned int` arithmetic that can wrap is written
  with explicit `% u32`.  Calendar: `echs_scale_ndim(SCALE_GREGORIAN, y, m)` = `__ndim_greg` = `getNdom`,
  `echs_scale_wday(SCALE_GREGORIAN, …)` = `__wday_greg` = `ymdGetWday` (same tables, same formulas).
  Tied to the C code by tools/rrfillprobe.py (vlib/p_rrfill.py).

  Every C loop is a recursive function with a `fuel` argument; a loop that runs out of fuel yields `none`
  ("not modelled"), never a wrong list.  Results are accumulated in reverse (`res`, newest first), so the
  C variable `res` is `res.length`.
-/
import Echse.Model.RrBase
namespace Echse.Rrule
open Echse.Instant

/-- `WLY_DLY_MAX_YEAR` -/
def wlyDlyMaxYear : Nat := 2099

/-- `pos_match_p(poss, i, n)` (1420-1436): is `i` or `i - n - 1` in BYSETPOS (`size_t` arithmetic, no wrap for
the small values that occur) -/
def posMatchP (poss : List Int) (i n : Nat) : Bool :=
  poss.any fun pos => (pos > 0 && pos.toNat == i) || (pos < 0 && (-pos).toNat + i == n + 1)

/-- the ENUM_INIT / ENUM_COND / ENUM_ITER loop (90-98) with its index variables: `((iH, iM, iS), (e.H[iH], e.M[iM], e.S[iS]))`
in visiting order (hours outermost); the value part is `Enum.times` -/
def Enum.timesIx (e : Enum) : List ((Nat × Nat × Nat) × (Nat × Nat × Nat)) :=
  e.H.zipIdx.flatMap fun (h, iH) => e.M.zipIdx.flatMap fun (m, iM) => e.S.zipIdx.map fun (s, iS) => ((iH, iM, iS), (h, m, s))

/-- the month carry that occurs three times (1540-1551, 1581-1593, 1746-1757):
`while (d > maxd) { if (!maxd) goto fin; d -= maxd; if (++m > 12U) { y++; m = 1U; } maxd = echs_scale_ndim(srcsca, y, m); }`
Result: `none` out of fuel, `some none` = `goto fin`, `some (some (y, m, d, maxd))` the state after the loop.
Fuel: a round needs `d > maxd ≥ 1` and lowers `d` by at least 1, so `d + 1` rounds suffice (callers pass `d + 1`). -/
def carryMon : Nat → Nat → Nat → Nat → Nat → Option (Option (Nat × Nat × Nat × Nat))
  | 0, _, _, _, _ => none
  | fuel+1, y, m, d, maxd =>
    if d > maxd then
      if maxd = 0 then some none
      else
        let d := d - maxd
        let (y, m) := if m + 1 > 12 then ((y + 1) % u32, 1) else (y, m + 1)
        carryMon fuel y m d (getNdom y m)
    else some (some (y, m, d, maxd))

/-- 1476-1487: the weekday mask of the weekly filler; counted weekdays (nMO …, negative ones arrive as huge unsigned
values) are ignored -/
def wlyWdMask (dow : List Int) : Nat :=
  dow.foldl (fun (m : Nat) (t : Int) => if 1 ≤ t ∧ t ≤ 7 then m ||| ((1 <<< t.toNat) % 256) else m) 0

/-- 1489-1501 (and 1705-1716): the month mask, `m_mask |= 1U << tmp`; all months when nothing is set -/
def monMask (mon : List Nat) : Nat :=
  let mm := mon.foldl (fun (m : Nat) (t : Nat) => m ||| ((1 <<< t) % u32)) 0
  if mm = 0 then 0b1111111111110 else mm

/-- 1526-1533: `for (i = 0, j = 0; wd_mask; wd_mask >>= 1U, i++) if (wd_mask & 1) { wd_incs |= (i & 15) << j; i = 0; j += 4; }`
(`i = 0` followed by the loop's `i++` gives 1).  Fuel: `wd_mask < 128` is halved every round, 8 rounds suffice. -/
def wdIncsLoop : Nat → Nat → Nat → Nat → Nat → Nat
  | 0, _, _, _, incs => incs
  | fuel+1, wdMask, i, j, incs =>
    if wdMask = 0 then incs
    else if wdMask % 2 = 1 then wdIncsLoop fuel (wdMask / 2) 1 (j + 4) (incs ||| (((i % 16) <<< j) % u32))
    else wdIncsLoop fuel (wdMask / 2) (i + 1) j incs

/-- what the loops of one call share -/
structure WlyCtx where
  r : Rule
  proto : Inst
  nti : Nat
  e : Enum
  mMask : Nat
  wdIncs : Nat
  posp : Bool

/-- 1568-1573: `do { k += incs & 15; if (m_mask & (1U << (d + k > maxd ? nxt_m : m))) nset++; } while ((incs >>= 4U));`
Fuel: `incs < 16^7` (at most seven weekdays), 8 rounds suffice. -/
def nsetLoop (c : WlyCtx) (m d maxd nxtM : Nat) : Nat → Nat → Nat → Nat → Nat
  | 0, _, _, nset => nset
  | fuel+1, incs, k, nset =>
    let k := (k + incs % 16) % u32
    let nset := if bit c.mMask (if (d + k) % u32 > maxd then nxtM else m) then nset + 1 else nset
    let incs := incs / 16
    if incs ≠ 0 then nsetLoop c m d maxd nxtM fuel incs k nset else nset

/-- 1602-1637: the ENUM loop of one day `this_y-this_m-this_d`; result `(res, fin)`, `fin` = `goto fin` was taken.
`break` and `res ≥ nti` end the loop without `fin`.  Recursion over the (finite) list of time triples. -/
def wlyEnum (c : WlyCtx) (nset nday ty tm td : Nat) :
    List ((Nat × Nat × Nat) × (Nat × Nat × Nat)) → List Inst → List Inst × Bool
  | [], res => (res, false)
  | ((iH, iM, iS), (h, mi, s)) :: rest, res =>
    if ¬ res.length < c.nti then (res, false) else
    let x := mkInst ty tm td h mi s c.proto.ms
    if ltP x c.proto then wlyEnum c nset nday ty tm td rest res            -- continue
    else if ltP c.r.untl x then (res, true)                                  -- goto fin
    else if !bit c.mMask tm then (res, false)                                -- break
    else if c.posp && !posMatchP c.r.pos
        ((((nday - 1) * c.e.H.length + iH) * c.e.M.length + iM) * c.e.S.length + iS + 1) nset then
      wlyEnum c nset nday ty tm td rest res                                  -- continue (here nday ≥ 1: the month is in m_mask)
    else
      -- echs_instant_attach_scale(x, GREGORIAN): the top four bits of y are cleared
      wlyEnum c nset nday ty tm td rest ({ x with y := x.y % 4096 } :: res)

/-- 1578-1638: `do { this_d += incs & 15; <month carry>; <year stop>; nday; <ENUM loop> } while ((incs >>= 4U) && res < nti);`
Result `(res, fin)`; `none` out of fuel.  Fuel: `incs < 16^7`, 8 rounds suffice. -/
def wlyWeek (c : WlyCtx) (nset : Nat) : Nat → Nat → Nat → Nat → Nat → Nat → Nat → List Inst → Option (List Inst × Bool)
  | 0, _, _, _, _, _, _, _ => none
  | fuel+1, incs, ty, tm, td, tmaxd, nday, res =>
    let td := (td + incs % 16) % u32
    match carryMon (td + 1) ty tm td tmaxd with
    | none => none
    | some none => some (res, true)                                          -- beyond the scale's range
    | some (some (ty, tm, td, tmaxd)) =>
      if ty > wlyDlyMaxYear then some (res, true) else                       -- nothing's going to match anymore
      let nday := if bit c.mMask tm then nday + 1 else nday
      let (res, fin) := wlyEnum c nset nday ty tm td c.e.timesIx res
      if fin then some (res, true) else
      let incs := incs / 16
      if incs ≠ 0 ∧ res.length < c.nti then wlyWeek c nset fuel incs ty tm td tmaxd nday res
      else some (res, false)

/-- 1537-1639: the outer `for (res = 0, maxd = ndim(y, m); res < nti; ({ d += rr->inter * 7U; <month carry> }))` loop over
the weeks.  `none` out of fuel. -/
def wlyLoop (c : WlyCtx) : Nat → Nat → Nat → Nat → Nat → List Inst → Option (List Inst)
  | 0, _, _, _, _, _ => none
  | fuel+1, y, m, d, maxd, res =>
    if ¬ res.length < c.nti then some res else
    -- 1563-1576: BYSETPOS needs the number of instances in this week
    let nset :=
      if c.posp then
        let nxtM := m % 12 + 1
        nsetLoop c m d maxd nxtM 8 c.wdIncs 0 0 * (c.e.H.length * c.e.M.length * c.e.S.length)
      else 0
    match wlyWeek c nset 8 c.wdIncs y m d maxd 0 res with
    | none => none
    | some (res, true) => some res
    | some (res, false) =>
      -- the loop's increment expression; `if (rr->inter > (UINT_MAX - 31U) / 7U) goto fin;` first
      if c.r.inter % u32 > (u32 - 1 - 31) / 7 then some res else
      let d := (d + (c.r.inter % u32 * 7) % u32) % u32
      match carryMon (d + 1) y m d maxd with
      | none => none
      | some none => some res
      | some (some (y, m, d, maxd)) => wlyLoop c fuel y m d maxd res

/-- fuel of the outer loops of the weekly and the daily filler, for a loop entered at year `y`.
With `k = rr->inter * 7U` (weekly) or `rr->inter` (daily), `k ≠ 0` as an `unsigned int`: as long as `d + k` does not wrap,
the candidate date moves forward by `k ≥ 1` days per round (the month carry keeps the day number), the year never
decreases, and a round entered with `y > 2099` leaves the loop; so there are at most `(2100 - y) * 366 + 1` such rounds.
`d + k` can wrap only for `k ≥ 2^32 - 31` (`d ≤ 31` at the loop head); then `d` shrinks by at least 1 per round, after at
most 31 rounds the sum no longer wraps, `d` becomes ≥ 2^32 - 31 days, the year is far beyond 2099 and the next round leaves.
`k = 0` (INTERVAL a multiple of 2^32): all rounds see the same date; either each yields an instant (≤ nti rounds) or the
C loop never ends — the model then runs out of fuel and says `none`. -/
def wlyDlyFuel (y nti : Nat) : Nat := (2100 - y) * 366 + nti + 100

/-- `rrul_fill_wly(tgt, nti, rr)` with `*tgt = proto`, SCALE=GREGORIAN -/
def fillWly (r : Rule) (proto : Inst) (nti : Nat) : Option (List Inst) :=
  -- echs_instant_rescale: only a proto without scale bits on a GREGORIAN rule is left as it is
  if r.scale ≠ 0 ∨ proto.y ≥ 4096 then none else
  let y := proto.y
  let m := proto.m
  let d := proto.d
  let posp := !r.pos.isEmpty
  -- 1462-1466
  match capNti r nti with
  | none => some []
  | some nti =>
  -- 1468-1471
  if m = 0 ∨ m > 12 ∨ d = 0 ∨ d > 31 then some [] else
  let e := makeEnum proto r
  let wdMask := wlyWdMask r.dow
  let mMask := monMask r.mon
  -- 1503-1534: zap to the monday of DTSTART's week; `some none` = `goto fin`
  let start : Option (Nat × Nat × Nat × Nat) :=
    if wdMask ≠ 0 then
      let w := ymdGetWday y m d
      let zap : Option (Nat × Nat × Nat) :=
        if d ≤ w - 1 then
          let (y, m) := if m - 1 = 0 then ((y + u32 - 1) % u32, 12) else (y, m - 1)
          let d := d + getNdom y m
          if d ≤ w - 1 then none else some (y, m, d)
        else some (y, m, d)
      zap.map fun (y, m, d) => (y, m, d - (w - 1), wdIncsLoop 8 (wdMask / 2) 0 0 0)
    else some (y, m, d, 0)
  match start with
  | none => some []
  | some (y, m, d, wdIncs) =>
    let c : WlyCtx := { r, proto, nti, e, mMask, wdIncs, posp }
    (wlyLoop c (wlyDlyFuel y nti) y m d (getNdom y m) []).map List.reverse

end Echse.Rrule
