/-
  C10 lemmas, part 4: what one round of `_ical_pull` does to buffer and progress measure
  (the stash is no longer bounded: it grows with the line).
-/
import Echse.Lemmas.Ical3
namespace Echse.Ical

/-- progress measure of `_ical_pull`: bytes left in the buffer, plus one for a marked stash -/
def mu (p : Parser) : Nat := (p.buf.length - p.bix) + (if Marked p then 1 else 0)

def PullRes.isNeed : PullRes → Bool
  | .need => true
  | _ => false

theorem doProc_stash (p : Parser) : (doProc p).1.stash = [] := rfl
theorem doProc_buf (p : Parser) : (doProc p).1.buf = p.buf := rfl
theorem doProc_bix (p : Parser) : (doProc p).1.bix = p.bix := rfl
theorem doProc_skip (p : Parser) : (doProc p).1.skip = p.skip := rfl

theorem procRes_fst (x : Parser × PRes) : (procRes x).1 = x.1 := by
  unfold procRes; rcases x with ⟨q, r⟩; cases r <;> rfl

theorem procRes_not_need (x : Parser × PRes) : (procRes x).2 ≠ some .need := by
  unfold procRes; rcases x with ⟨q, r⟩; cases r <;> simp

theorem procStep_buf (p : Parser) : (procStep p).1.buf = p.buf := by
  unfold procStep
  split
  · rfl
  · split
    · rw [procRes_fst, doProc_buf]
    · rfl

theorem procStep_bix (p : Parser) : (procStep p).1.bix = p.bix := by
  unfold procStep
  split
  · rfl
  · split
    · rw [procRes_fst, doProc_bix]
    · rfl

theorem procStep_eolp (p : Parser) : (procStep p).1.eolp = p.eolp := by
  unfold procStep
  split
  · rfl
  · split
    · rw [procRes_fst]; rfl
    · rfl

theorem procStep_not_need (p : Parser) : (procStep p).2 ≠ some .need := by
  unfold procStep
  split
  · simp
  · split
    · exact procRes_not_need _
    · simp

theorem copyRest_buf (p : Parser) : (copyRest p).buf = p.buf := by
  unfold copyRest
  split
  · rfl
  · split <;> rfl

theorem copyRest_eolp (p : Parser) : (copyRest p).eolp = p.eolp := by
  unfold copyRest
  split
  · rfl
  · split <;> rfl

theorem copyRest_log (p : Parser) : (copyRest p).log = p.log := by
  unfold copyRest
  split
  · rfl
  · split <;> rfl

theorem copyRest_comp (p : Parser) : (copyRest p).comp = p.comp := by
  unfold copyRest
  split
  · rfl
  · split <;> rfl

theorem stashRest_buf (p : Parser) (s : Bool) : (stashRest p s).1.buf = p.buf := copyRest_buf p

/-- the buffer is used up (`BI = p->bsz`) -/
theorem stashRest_bix (p : Parser) (s : Bool) : (stashRest p s).1.bix = p.buf.length := by
  show (copyRest p).buf.length = _; rw [copyRest_buf]

theorem takeLine_buf (p : Parser) (e : Nat) : (takeLine p e).buf = p.buf := by
  unfold takeLine
  split
  · rfl
  · split <;> rfl

theorem takeLine_bix (p : Parser) (e : Nat) : (takeLine p e).bix = p.bix + e := by
  unfold takeLine
  split
  · rfl
  · split <;> rfl

theorem takeLine_eolp (p : Parser) (e : Nat) : (takeLine p e).eolp = p.eolp := by
  unfold takeLine
  split
  · rfl
  · split <;> rfl

theorem takeLine_comp (p : Parser) (e : Nat) : (takeLine p e).comp = p.comp := by
  unfold takeLine
  split
  · rfl
  · split <;> rfl

theorem takeLine_log (p : Parser) (e : Nat) : (takeLine p e).log = p.log := by
  unfold takeLine
  split
  · rfl
  · split <;> rfl

theorem doProc_eolp (p : Parser) : (doProc p).1.eolp = p.eolp := rfl

theorem preChop_buf (p : Parser) : (preChop p).buf = p.buf := by
  unfold preChop; split <;> rfl

theorem preChop_stash (p : Parser) : (preChop p).stash = p.stash := by
  unfold preChop; split <;> rfl

theorem preChop_skip (p : Parser) : (preChop p).skip = p.skip := by
  unfold preChop; split <;> rfl

theorem preChop_eolp (p : Parser) : (preChop p).eolp = false := by
  unfold preChop
  split
  · rfl
  · rename_i h; unfold Marked at h; simpa using h

theorem preChop_bix_ge (p : Parser) : p.bix ≤ (preChop p).bix := by
  unfold preChop; split <;> simp

theorem chopR_buf (p : Parser) : (chopR p).1.buf = p.buf := by
  unfold chopR
  split
  · exact stashRest_buf p false
  · split
    · exact stashRest_buf p true
    · rw [procStep_buf, takeLine_buf]

theorem round_buf (p : Parser) : (round p).1.buf = p.buf := by
  unfold round
  split
  · rw [procStep_buf]; rfl
  · rw [chopR_buf, preChop_buf]

theorem mu_unmarked (p : Parser) (h : p.eolp = false) : mu p = p.buf.length - p.bix := by
  unfold mu Marked; simp [h]

theorem mu_le (p : Parser) : mu p ≤ p.buf.length - p.bix + 1 := by
  unfold mu; split <;> omega

theorem mu_ge (p : Parser) : p.buf.length - p.bix ≤ mu p := by
  unfold mu; omega

theorem chopR_mu (p : Parser) (hu : p.eolp = false) (h : (chopR p).2 ≠ some .need) :
    mu (chopR p).1 < p.buf.length - p.bix := by
  unfold chopR at h ⊢
  split at h
  · exact absurd rfl h
  · rename_i e he
    split at h
    · exact absurd rfl h
    · rename_i hlt
      have hb := eolR_bounds _ _ he
      simp only [ge_iff_le, List.length_drop, Nat.not_le] at hlt
      simp only [ge_iff_le, List.length_drop]
      rw [if_neg (by omega)]
      rw [mu_unmarked _ (by rw [procStep_eolp, takeLine_eolp]; exact hu), procStep_buf, procStep_bix,
        takeLine_buf, takeLine_bix]
      omega

theorem round_mu (p : Parser) (h : (round p).2 ≠ some .need) : mu (round p).1 < mu p := by
  unfold round at h ⊢
  split
  · rename_i hc
    have hmu : mu p = p.buf.length - p.bix + 1 := by unfold mu; rw [if_pos hc.1]
    rw [mu_unmarked _ (by rw [procStep_eolp]; rfl), procStep_buf, procStep_bix, hmu]
    show p.buf.length - p.bix < _; omega
  · rename_i hc
    rw [if_neg hc] at h
    have := chopR_mu _ (preChop_eolp p) h
    rw [preChop_buf] at this
    have h1 := preChop_bix_ge p
    have h2 := mu_ge p
    omega

end Echse.Ical
