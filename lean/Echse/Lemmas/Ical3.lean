/-
  C10 lemmas, part 3: one round of `_ical_pull` restated over `eolR` as a function `round`
  (`pull_round`): `(q, none)` = go round again with `q`, `(q, some r)` = return.
  The stash grows with the line (`esccpy` is handed one byte more than it reads); `skip` stays in the
  text for allocation failure, which the model does not have.
-/
import Echse.Lemmas.Ical2
namespace Echse.Ical

/-- the stash ends where a newline was (`eolp`): the bytes to come may turn that newline into a fold -/
def Marked (p : Parser) : Prop := p.eolp = true
instance (p : Parser) : Decidable (Marked p) := by unfold Marked; infer_instance

/-- the mark taken off -/
def unmark (p : Parser) : Parser := { p with eolp := false }

def Fold (c : Byte) : Prop := c = SP ∨ c = TAB
instance (c : Byte) : Decidable (Fold c) := by unfold Fold; infer_instance

def bpOf (p : Parser) : Byte := p.buf.getD p.bix 0

def procRes (q : Parser × PRes) : Parser × Option PullRes :=
  match q.2 with
  | .none => (q.1, none)
  | .eop => (q.1, some .eop)
  | .ve => (q.1, some (.ve q.1.comp.cur))

def cont (k : Parser → Parser × PullRes) (x : Parser × Option PullRes) : Parser × PullRes :=
  match x.2 with
  | none => k x.1
  | some r => (x.1, r)

/-- the label `proc:` — the line is complete: a line passed over is dropped, an empty line is no line,
any other goes to `_ical_proc` -/
def procStep (p : Parser) : Parser × Option PullRes :=
  if p.skip then ({ p with skip := false, stash := [] }, none)
  else if p.stash.length ≠ 0 then procRes (doProc p) else (p, none)

/-- copy to the stash (the `none` branch is the allocation failure of the C code: never taken, `esccpy_fits`) -/
def copyRest (p : Parser) : Parser :=
  if p.skip then p else
    match (esccpy ((p.buf.drop p.bix).length + 1) (p.buf.drop p.bix)).1 with
    | some o => { p with stash := p.stash ++ o, sentinel := 0 }
    | none => { p with skip := true, stash := [] }

/-- stash what is left of the buffer (no complete line in it); `s`: the buffer ends behind a newline -/
def stashRest (p : Parser) (s : Bool) : Parser × PullRes :=
  ({ copyRest p with eolp := (copyRest p).eolp || s, bix := (copyRest p).buf.length }, .need)

/-- the parser after copying the complete line of raw length `e` to the stash -/
def takeLine (p : Parser) (e : Nat) : Parser :=
  if p.skip then { p with bix := p.bix + e } else
    match (esccpy (((p.buf.drop p.bix).take e).length + 1) ((p.buf.drop p.bix).take e)).1 with
    | some o => { p with bix := p.bix + e, stash := p.stash ++ o, sentinel := 0 }
    | none => { p with bix := p.bix + e, skip := true, sentinel := 0 }

/-- the parser entering `chop_more` -/
def preChop (p : Parser) : Parser :=
  if Marked p then { p with eolp := false, bix := p.bix + 1 } else p

/-- the `chop_more` part of one round -/
def chopR (p : Parser) : Parser × Option PullRes :=
  match eolR (p.buf.drop p.bix) with
  | none => ((stashRest p false).1, some .need)
  | some e =>
    if e ≥ (p.buf.drop p.bix).length then ((stashRest p true).1, some .need)
    else procStep (takeLine p e)

def round (p : Parser) : Parser × Option PullRes :=
  if Marked p ∧ ¬ Fold (bpOf p) then procStep (unmark p) else chopR (preChop p)

theorem pull_zero (p : Parser) : pull 0 p = (p, .need) := by rw [pull]

theorem proc_eq (f : Nat) (p : Parser) :
    (if p.skip = true then pull f { p with skip := false, stash := [] }
     else if p.stash.length ≠ 0 then
       match doProc p with
       | (p, r) =>
         match r with
         | PRes.none => pull f p
         | PRes.eop => (p, PullRes.eop)
         | PRes.ve => (p, PullRes.ve p.comp.cur)
     else pull f p) = cont (pull f) (procStep p) := by
  unfold procStep
  by_cases hs : p.skip = true
  · rw [if_pos hs, if_pos hs]; rfl
  · rw [if_neg hs, if_neg hs]
    by_cases hl : p.stash.length ≠ 0
    · rw [if_pos hl, if_pos hl]
      unfold procRes cont
      rcases hd : doProc p with ⟨q, r⟩
      cases r <;> rfl
    · rw [if_neg hl, if_neg hl]; rfl

theorem chop_eq (f : Nat) (p : Parser) (k : Parser → Parser × PullRes)
    (hk : ∀ q, k q = cont (pull f) (procStep q)) :
    (have b := List.drop p.bix p.buf;
      have bz := b.length;
      have eol := findEol b (bz + 1) 0;
      have noEol :=
        match eol with
        | none => true
        | some e => decide (e ≥ bz);
      if noEol = true then
        have p : Parser :=
          if p.skip = true then p
          else
            match esccpy (b.length + 1) b with
            | (some o, _) => { p with stash := p.stash ++ o, sentinel := 0 }
            | (none, _) => { p with skip := true, stash := [] };
        (({ p with eolp := p.eolp || eol.isSome, bix := p.buf.length } : Parser), PullRes.need)
      else
        have llen := eol.getD 0;
        have p : Parser := { p with bix := p.bix + llen };
        have p : Parser :=
          if p.skip = true then p
          else
            match esccpy ((List.take llen b).length + 1) (List.take llen b) with
            | (some o, _) => { p with stash := p.stash ++ o, sentinel := 0 }
            | (none, sent) => { p with skip := true, sentinel := sent };
        k p) = cont (pull f) (chopR p) := by
  dsimp only
  rw [hk]
  rw [findEol_pull]
  unfold chopR
  have hcopy : (if p.skip = true then p
      else
        match esccpy ((List.drop p.bix p.buf).length + 1) (List.drop p.bix p.buf) with
        | (some o, _) => { p with stash := p.stash ++ o, sentinel := 0 }
        | (none, _) => { p with skip := true, stash := [] }) = copyRest p := by
    unfold copyRest
    by_cases hs : p.skip = true
    · rw [if_pos hs, if_pos hs]
    · rw [if_neg hs, if_neg hs]
      rcases hx : esccpy ((List.drop p.bix p.buf).length + 1) (List.drop p.bix p.buf) with ⟨r, sent⟩
      cases r <;> rfl
  cases he : eolR (List.drop p.bix p.buf) with
  | none =>
    simp only [if_true, Option.isSome_none]
    rw [hcopy]; rfl
  | some e =>
    simp only [Option.isSome_some, Option.getD_some]
    by_cases hge : e ≥ (List.drop p.bix p.buf).length
    · simp only [hge, decide_true, if_true]
      rw [hcopy]; rfl
    · simp only [hge, decide_false, Bool.false_eq_true, if_false]
      have ht : (if p.skip = true then ({ p with bix := p.bix + e } : Parser)
          else
            match esccpy ((List.take e (List.drop p.bix p.buf)).length + 1) (List.take e (List.drop p.bix p.buf)) with
            | (some o, _) => { p with bix := p.bix + e, stash := p.stash ++ o, sentinel := 0 }
            | (none, sent) => { p with bix := p.bix + e, skip := true, sentinel := sent }) = takeLine p e := by
        unfold takeLine
        by_cases hs : p.skip = true
        · rw [if_pos hs, if_pos hs]
        · rw [if_neg hs, if_neg hs]
          have hz := esccpy_snd ((List.take e (List.drop p.bix p.buf)).length + 1) (List.take e (List.drop p.bix p.buf))
          rcases hx : esccpy ((List.take e (List.drop p.bix p.buf)).length + 1) (List.take e (List.drop p.bix p.buf)) with ⟨r, sent⟩
          rw [hx] at hz; simp only at hz; subst hz
          cases r <;> rfl
      rw [ht]

/-- one round of `_ical_pull` -/
theorem pull_round (f : Nat) (p : Parser) : pull (f+1) p = cont (pull f) (round p) := by
  rw [pull.eq_2]
  have hfold : (p.buf.getD p.bix 0 ≠ SP ∧ p.buf.getD p.bix 0 ≠ TAB) ↔ ¬ Fold (bpOf p) := by
    unfold Fold bpOf
    constructor
    · intro h1 h2; cases h2 with
      | inl h => exact h1.1 h
      | inr h => exact h1.2 h
    · intro h; exact ⟨fun h' => h (Or.inl h'), fun h' => h (Or.inr h')⟩
  simp only [hfold]
  unfold round
  by_cases hc : Marked p ∧ ¬ Fold (bpOf p)
  · have hc' : p.eolp = true ∧ ¬ Fold (bpOf p) := hc
    rw [if_pos hc, if_pos hc', if_pos hc'.1]
    exact proc_eq f (unmark p)
  · have hc' : ¬ (p.eolp = true ∧ ¬ Fold (bpOf p)) := hc
    rw [if_neg hc, if_neg hc']
    by_cases hm : Marked p
    · have hm' : p.eolp = true := hm
      have e : preChop p = { p with eolp := false, bix := p.bix + 1 } := by
        unfold preChop; rw [if_pos hm]
      rw [e]
      simp -zeta only [hm', if_true]
      exact chop_eq f { p with eolp := false, bix := p.bix + 1 } _ (proc_eq f)
    · have hm' : ¬ (p.eolp = true) := hm
      have e : preChop p = p := by
        unfold preChop; rw [if_neg hm]
      rw [e]
      simp -zeta only [hm']
      exact chop_eq f p _ (proc_eq f)

end Echse.Ical
