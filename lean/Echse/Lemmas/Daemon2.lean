/-
  Daemon model: the well-formedness invariant `Inv` of reachable states and its preservation by
  every operation (`Inv_step`, `Inv_run`).
-/
import Echse.Lemmas.Daemon
namespace Echse.Daemon

/-- number of live children of the task `sid` -/
def liveCount (l : List Child) (sid : Nat) : Nat := (l.filter (fun c => c.live && c.sid == sid)).length

/-- per-task well-formedness; `s` supplies the clock, the counters and the user list -/
structure TInv (s : St) (t : DTask) : Prop where
  sid_lt : t.sid < s.nextSid
  seq_lt : t.seq < s.perseq
  owner_ok : t.owner ≠ notAUid ∧ s.users.contains t.owner = true
  sorted : t.occ.Pairwise (· ≤ ·)
  /-- an armed watcher waits for the head of the stream, which is not in the past -/
  armed : t.resched = true → t.inTable = true ∧ t.active = true ∧ t.cbUnsched = false ∧
    t.due = some t.cur ∧ t.occ.head? = some t.cur ∧ s.now ≤ t.cur ∧ 1 ≤ t.nrun
  done : t.resched = false → t.inTable = true → t.occ = [] ∧ t.cur = 0
  act_tab : t.active = true → t.inTable = true
  drain : t.active = true → t.resched = false → t.cbUnsched = false → t.due = none
  /-- loaded without a future occurrence: `unsched` is queued for the next iteration -/
  pend : t.active = true → t.cbUnsched = true → t.nrun = 0 ∧ ∃ a, t.due = some a ∧ a ≤ s.now
  /-- a task without a watcher to wait for is waiting for its children -/
  wait : (t.active = false ∨ (t.resched = false ∧ t.cbUnsched = false)) → t.nsim ≠ 0

/-- well-formedness of a daemon state -/
structure Inv (s : St) : Prop where
  sidU : SidU s.tasks
  uidU : ∀ a ∈ s.tasks, ∀ b ∈ s.tasks, a.inTable = true → b.inTable = true → a.uid = b.uid → a = b
  seqU : ∀ a ∈ s.tasks, ∀ b ∈ s.tasks, a.seq = b.seq → a = b
  tinv : ∀ t ∈ s.tasks, TInv s t
  kids : ∀ c ∈ s.children, c.live = true → ∃ t ∈ s.tasks, t.sid = c.sid
  count : ∀ t ∈ s.tasks, t.nsim = liveCount s.children t.sid

theorem TInv.mono {s s' : St} {t : DTask} (h : TInv s t) (h1 : s.nextSid ≤ s'.nextSid)
    (h2 : s.perseq ≤ s'.perseq) (h3 : s'.users = s.users) (h4 : s'.now = s.now) : TInv s' t where
  sid_lt := Nat.lt_of_lt_of_le h.sid_lt h1
  seq_lt := Nat.lt_of_lt_of_le h.seq_lt h2
  owner_ok := by rw [h3]; exact h.owner_ok
  sorted := h.sorted
  armed := by rw [h4]; exact h.armed
  done := h.done
  act_tab := h.act_tab
  drain := h.drain
  pend := by rw [h4]; exact h.pend
  wait := h.wait

theorem Inv_init (m : Nat) : Inv { me := m } where
  sidU := by simp [SidU]
  uidU := by intro a h; cases h
  seqU := by intro a h; cases h
  tinv := by intro a h; cases h
  kids := by intro a h; cases h
  count := by intro a h; cases h

/-- same table and children, counters not smaller, same clock and users -/
theorem Inv_frame {s s' : St} (h : Inv s) (ht : s'.tasks = s.tasks) (hc : s'.children = s.children)
    (h1 : s.nextSid ≤ s'.nextSid) (h2 : s.perseq ≤ s'.perseq) (h3 : s'.users = s.users)
    (h4 : s'.now = s.now) : Inv s' where
  sidU := by rw [ht]; exact h.sidU
  uidU := by rw [ht]; exact h.uidU
  seqU := by rw [ht]; exact h.seqU
  tinv := by rw [ht]; intro t hm; exact (h.tinv t hm).mono h1 h2 h3 h4
  kids := by rw [ht, hc]; exact h.kids
  count := by rw [ht, hc]; exact h.count

/-! ### uniqueness under `filterMap` -/

theorem uniq_filterMap {κ} (key : DTask → κ) (P : DTask → Prop) {l : List DTask} (g : DTask → Option DTask)
    (hg : ∀ x ∈ l, ∀ y, g x = some y → key y = key x ∧ (P y → P x))
    (h : ∀ a ∈ l, ∀ b ∈ l, P a → P b → key a = key b → a = b) :
    ∀ a ∈ l.filterMap g, ∀ b ∈ l.filterMap g, P a → P b → key a = key b → a = b := by
  intro a ha b hb pa pb hk
  rw [List.mem_filterMap] at ha hb
  obtain ⟨x, hx, hgx⟩ := ha
  obtain ⟨y, hy, hgy⟩ := hb
  have h1 := hg x hx a hgx
  have h2 := hg y hy b hgy
  have : x = y := h x hx y hy (h1.2 pa) (h2.2 pb) (by rw [← h1.1, ← h2.1, hk])
  subst this
  rw [hgx] at hgy
  exact Option.some.inj hgy

/-! ### children -/

theorem kill_eq_set (l : List Child) (k : Nat) (c : Child) (h : l[k]? = some c) :
    kill l k = l.set k { c with live := false } := by
  apply List.ext_getElem?
  intro i
  unfold kill
  rw [List.getElem?_map, List.getElem?_zipIdx, List.getElem?_set]
  have hk : k < l.length := by
    rcases List.getElem?_eq_some_iff.mp h with ⟨hk, _⟩; exact hk
  by_cases hik : k = i
  · subst hik
    obtain ⟨_, hc⟩ := List.getElem?_eq_some_iff.mp h
    simp [hk, hc]
  · have : ¬ i = k := fun e => hik e.symm
    cases hi : l[i]? <;> simp [hik, this]

theorem kill_split (l : List Child) (k : Nat) (c : Child) (h : l[k]? = some c) :
    l = l.take k ++ c :: l.drop (k+1) ∧ kill l k = l.take k ++ { c with live := false } :: l.drop (k+1) := by
  obtain ⟨hk, hc⟩ := List.getElem?_eq_some_iff.mp h
  refine ⟨?_, ?_⟩
  · conv => lhs; rw [← List.take_append_drop k l, List.drop_eq_getElem_cons hk, hc]
  · rw [kill_eq_set l k c h, List.set_eq_take_append_cons_drop]
    simp [hk]

theorem liveCount_kill (l : List Child) (k : Nat) (c : Child) (h : l[k]? = some c) (hl : c.live = true)
    (x : Nat) : liveCount l x = liveCount (kill l k) x + (if c.sid = x then 1 else 0) := by
  obtain ⟨h1, h2⟩ := kill_split l k c h
  rw [h2]
  conv => lhs; rw [h1]
  unfold liveCount
  simp only [List.filter_append, List.filter_cons, List.length_append, hl, Bool.true_and, Bool.false_and,
    Bool.false_eq_true, if_false]
  by_cases hx : c.sid = x
  · simp [hx]; omega
  · simp [hx]

theorem mem_kill_live {l : List Child} {k : Nat} {c' : Child} (hm : c' ∈ kill l k) (hl : c'.live = true) :
    c' ∈ l := by
  unfold kill at hm
  rw [List.mem_map] at hm
  obtain ⟨⟨c, i⟩, hci, he⟩ := hm
  have hc : c ∈ l := by
    have := List.mem_zipIdx hci
    simp at this
    rw [this.2]; exact List.getElem_mem _
  simp only at he
  split at he
  · rw [← he] at hl; cases hl
  · rw [← he]; exact hc

theorem liveCount_pos {l : List Child} {c : Child} (hm : c ∈ l) (hl : c.live = true) :
    1 ≤ liveCount l c.sid := by
  unfold liveCount
  apply List.length_pos_of_mem (a := c)
  rw [List.mem_filter]
  exact ⟨hm, by simp [hl]⟩

theorem liveCount_zero {l : List Child} {x : Nat} (h : liveCount l x = 0) :
    ∀ c ∈ l, c.live = true → c.sid ≠ x := by
  intro c hc hl he
  have := liveCount_pos hc hl
  rw [he] at this; omega

theorem liveCount_append (l l' : List Child) (x : Nat) :
    liveCount (l ++ l') x = liveCount l x + liveCount l' x := by
  simp [liveCount, List.filter_append]

end Echse.Daemon
