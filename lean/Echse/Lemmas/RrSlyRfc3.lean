/-
  C01, `fillSly` (FREQ=SECONDLY) against RFC 5545, part 3: the time-of-day search, BYSETPOS and the theorems
  `fillSly_sound_*`, `fillSly_complete_*` against `Echse.Spec.Rfc.SecondlyInst`.
-/
import Echse.Lemmas.RrSlyRfc2
namespace Echse.Lemmas.RrSlyRfc
open Echse.Rrule Echse.Instant Echse.Spec.RrOk Echse.Lemmas.RrSubOk Echse.Spec.Rfc Echse.Spec.Cal Echse.Spec.RuleExt
open Echse.Lemmas.RrSlyOk Echse.Lemmas.RrSubRfc

/-- if some phase `start + n * inter` of the first 86400 passes the masks, the search finds one -/
theorem slyReach_true (c : SubCtx) : ∀ (fuel k0 tmp n : Nat),
    ((c.HMask &&& shl1 ((tmp + n * (c.inter % 86400)) % 86400 / 3600)) ≠ 0 ∧
     (c.MMask &&& shl1q ((tmp + n * (c.inter % 86400)) % 86400 / 60 % 60)) ≠ 0 ∧
     (c.SMask &&& shl1q ((tmp + n * (c.inter % 86400)) % 86400 % 60)) ≠ 0) →
    k0 + n < 86400 → n < fuel → tmp < 86400 → slyReach c fuel k0 tmp = some true := by
  intro fuel
  induction fuel with
  | zero => intro k0 tmp n _ _ h; omega
  | succ f ih =>
    intro k0 tmp n hp hk hn htmp
    unfold slyReach
    by_cases hA : (c.HMask &&& shl1 (tmp / 3600)) ≠ 0 ∧ (c.MMask &&& shl1q (tmp / 60 % 60)) ≠ 0 ∧
        (c.SMask &&& shl1q (tmp % 60)) ≠ 0
    · rw [if_pos hA]
    · rw [if_neg hA]
      have hn0 : n ≠ 0 := by
        intro h0
        rw [h0, Nat.zero_mul, Nat.add_zero, Nat.mod_eq_of_lt htmp] at hp
        exact hA hp
      rw [if_neg (by omega)]
      apply ih (k0 + 1) _ (n - 1) ?_ (by omega) (by omega) (Nat.mod_lt _ (by omega))
      rw [phase_step tmp (c.inter % 86400) n 86400 hn0]
      exact hp

/-- `fillSly` past its entry checks -/
theorem fillSly_eq (r : Rule) (p : Inst) (n k : Nat) (hr : WfRule r) (hp : WfInst p) (hcap : capNti r n = some k) :
    fillSly r p n =
      if !posPickAnyP r.pos 1 then some [] else
      match slyReach (mkSubCtx r p k) 86400 0 (((seedT p).H * 60 + (seedT p).M) * 60 + (seedT p).S) with
      | none => none
      | some false => some []
      | some true =>
        (slyLoop (mkSubCtx r p k) (slyFuel p.y) p.y p.m p.d (seedT p).H (seedT p).M (seedT p).S
          (ymdGetWday p.y p.m p.d) (getNdom p.y p.m) 0 []).map List.reverse := by
  obtain ⟨hy1, hy2⟩ := hp.year
  obtain ⟨hm1, hm2⟩ := hp.month
  obtain ⟨hd1, hd2⟩ := hp.day
  have hnb := getNdom_bounds p.y p.m hm1 hm2
  unfold fillSly
  rw [hcap]
  simp only []
  rw [if_neg (by simp [hr.scale])]
  have e2 : r.inter % u32 = r.inter := by
    have := hr.inter
    simp only [u32]; omega
  have hs : (if p.H = allDay then ((0 : Nat), (0 : Nat), (0 : Nat)) else (p.H, p.M, p.S)) =
      ((seedT p).H, (seedT p).M, (seedT p).S) := by
    unfold seedT
    by_cases h : p.H = allDay
    · simp only [if_pos h]
    · simp only [if_neg h]
  rw [hs]
  simp only []
  rw [if_neg (by omega), if_neg (by rw [e2]; have := hr.inter; omega)]
  rfl

theorem good_inst (r : Rule) (p : Inst) (hp : WfInst p) (z : Inst) (h : SlyGood r p (absOf (seedT p)) z) :
    SecondlyInst r (seedT p) z := by
  obtain ⟨hv, hms, ⟨l1, l2, l3, l4, l5⟩, j, hj⟩ := h
  obtain ⟨t1, _, _, tms, _⟩ := seedT_time p hp
  obtain ⟨a1, a2, a3, a4, aH, aM, aS, _⟩ := hv
  have hne : (seedT p).H ≠ allDay := by simp only [allDay]; omega
  refine ⟨⟨a1, a2, a3, a4, by rw [hms, tms], Or.inr ⟨hne, aH, aM, aS⟩⟩, by simp only [allDay]; omega,
    ⟨j, ?_⟩, l1, l2, l3, l4, l5⟩
  rw [hj, Int.natCast_mul]

theorem fillSly_sound_gen (r : Rule) (p : Inst) (n : Nat) (l : List Inst) (hr : WfRule r) (hp : WfInst p)
    (hy : 1901 ≤ p.y) (h : fillSly r p n = some l) : ∀ x ∈ l, SecondlyInst r (seedT p) x := by
  cases hcap : capNti r n with
  | none =>
    unfold fillSly at h
    rw [hcap] at h
    cases h
    intro x hx; cases hx
  | some k =>
    rw [fillSly_eq r p n k hr hp hcap] at h
    split at h
    · cases h; intro x hx; cases hx
    split at h
    · cases h
    · cases h; intro x hx; cases hx
    · cases hloop : slyLoop (mkSubCtx r p k) (slyFuel p.y) p.y p.m p.d (seedT p).H (seedT p).M (seedT p).S
          (ymdGetWday p.y p.m p.d) (getNdom p.y p.m) 0 [] with
      | none => rw [hloop] at h; cases h
      | some acc' =>
        rw [hloop] at h
        simp only [Option.map_some, Option.some.injEq] at h
        subst h
        obtain ⟨t1, t2, t3, _⟩ := seedT_time p hp
        obtain ⟨hm1, hm2⟩ := hp.month
        obtain ⟨hd1, hd2⟩ := hp.day
        have hnb := getNdom_bounds p.y p.m hm1 hm2
        intro x hx
        have := slyLoop_sound r p k hr hp.ms (absOf (seedT p)) _ p.y p.m p.d _ _ _ _ 0 [] acc' hy hm1 hm2 hd1 hd2
          t1 t2 t3 (fun _ => ⟨wday_start p.y p.m p.d hy hp.year.2 hm1 hm2 (by omega), 0, by
            rw [absOf_seedT p hp]; simp⟩) hloop x (List.mem_reverse.mp hx)
        rcases this with h0 | hg
        · cases h0
        · exact good_inst r p hp x hg

/-- an instance is a real, timed instant with the seed's sub-second part -/
theorem inst_vt (r : Rule) (ds x : Inst) (h : SecondlyInst r ds x) (hy : x.y ≤ 2099) : VT x ∧ x.ms = ds.ms := by
  obtain ⟨⟨a1, a2, a3, a4, a5, a6⟩, hne, _⟩ := h
  rcases a6 with ⟨_, h2, _⟩ | ⟨_, b1, b2, b3⟩
  · exact absurd h2 hne
  · exact ⟨⟨a1, a2, a3, a4, b1, b2, b3, by omega⟩, a5⟩

theorem fillSly_complete_gen (r : Rule) (p : Inst) (n cap : Nat) (l : List Inst) (hr : WfRule r) (hp : WfInst p)
    (hy : 1901 ≤ p.y) (hcap : capNti r n = some cap) (h : fillSly r p n = some l)
    (x : Inst) (hx : SecondlyInst r (seedT p) x) (hpos : posPickAnyP r.pos 1 = true)
    (hu : ltP r.untl x = false) (hxy : x.y ≤ 2099) :
    x ∈ l ∨ (l.length = cap ∧ ∀ z ∈ l, ltP z x = true) := by
  obtain ⟨hv, hxms⟩ := inst_vt r _ x hx hxy
  obtain ⟨t1, t2, t3, tms, _⟩ := seedT_time p hp
  obtain ⟨hm1, hm2⟩ := hp.month
  obtain ⟨hd1, hd2⟩ := hp.day
  have hnb := getNdom_bounds p.y p.m hm1 hm2
  obtain ⟨_, _, ⟨kk, hk⟩, l1, l2, l3, l4, l5⟩ := hx
  have hk' : absOf x = absOf (seedT p) + ((kk * r.inter : Nat) : Int) := by rw [hk, Int.natCast_mul]
  have hlt := abs_lt_2100 x hv hxy
  rw [absOf_seedT p hp] at hk'
  -- the seed lies before 2100
  have hy2 : p.y ≤ 2099 := by
    by_cases c : p.y ≤ 2099
    · exact c
    · exfalso
      have h1 := days_year_mono 2100 p.y (by omega)
      have h2 := days_month_mono p.y 1 p.m (by omega) hm1 hm2
      have h3 := days_d p.y p.m p.d
      simp only [cabs] at hk'
      omega
  have hci := ctx_inter r p cap hr
  -- the search for a time of day succeeds
  have hreach : slyReach (mkSubCtx r p cap) 86400 0 (((seedT p).H * 60 + (seedT p).M) * 60 + (seedT p).S) =
      some true := by
    have hvx := absOf_vt x hv
    have hv' := hv
    obtain ⟨_, _, _, _, bH, bM, bS, _⟩ := hv'
    have e0 : (((seedT p).H * 60 + (seedT p).M) * 60 + (seedT p).S + kk * r.inter) % 86400 =
        x.H * 3600 + x.M * 60 + x.S := by
      simp only [cabs] at hk'
      generalize kk * r.inter = T at hk'
      omega
    apply slyReach_true _ 86400 0 _ (kk % 86400) ?_ (by omega) (by omega) (by omega)
    rw [hci, ← phase_mod, e0]
    have e1 : (x.H * 3600 + x.M * 60 + x.S) / 3600 = x.H := by omega
    have e2 : (x.H * 3600 + x.M * 60 + x.S) / 60 % 60 = x.M := by omega
    have e3 : (x.H * 3600 + x.M * 60 + x.S) % 60 = x.S := by omega
    rw [e1, e2, e3]
    exact ⟨fun h0 => (t_hour r p cap hr x hv).mp h0 l3, fun h0 => (t_min r p cap hr x hv).mp h0 l4,
      fun h0 => (t_sec r p cap hr x hv).mp h0 l5⟩
  rw [fillSly_eq r p n cap hr hp hcap, hpos, hreach] at h
  simp only [Bool.not_true, Bool.false_eq_true, if_false] at h
  cases hloop : slyLoop (mkSubCtx r p cap) (slyFuel p.y) p.y p.m p.d (seedT p).H (seedT p).M (seedT p).S
      (ymdGetWday p.y p.m p.d) (getNdom p.y p.m) 0 [] with
  | none => rw [hloop] at h; cases h
  | some acc' =>
    rw [hloop] at h
    simp only [Option.map_some, Option.some.injEq] at h
    subst h
    have := slyLoop_complete r p cap hr hp.ms x hv (by rw [hxms, tms]) ⟨l1, l2, l3, l4, l5⟩ hu hxy _
      p.y p.m p.d _ _ _ _ 0 [] acc' hy hy2 hm1 hm2 hd1 hd2 t1 t2 t3
      (wday_start p.y p.m p.d hy hp.year.2 hm1 hm2 (by omega)) ⟨kk, hk'⟩ rfl (Nat.zero_le _)
      (by intro z hz; cases hz) hloop
    rcases this with h1 | ⟨h1, h2⟩
    · exact Or.inl (List.mem_reverse.mpr h1)
    · exact Or.inr ⟨by rw [List.length_reverse]; exact h1, fun z hz => h2 z (List.mem_reverse.mp hz)⟩

/-! ### BYSETPOS: a second holds one instance, its first and its last -/

theorem posAny_one (poss : List Int) :
    posPickAnyP poss 1 = true ↔ (poss = [] ∨ ∃ n ∈ poss, n = 1 ∨ n = -1) := by
  have e : posPickAnyP poss 1 = posPickP poss 0 1 := by
    unfold posPickAnyP
    simp [List.range_succ]
  rw [e]
  unfold posPickP
  rw [Bool.or_eq_true, List.isEmpty_iff, List.any_eq_true]
  constructor
  · rintro (h | ⟨n, hn, hb⟩)
    · exact Or.inl h
    · refine Or.inr ⟨n, hn, ?_⟩
      simp only [Bool.or_eq_true, Bool.and_eq_true, decide_eq_true_eq, beq_iff_eq] at hb
      omega
  · rintro (h | ⟨n, hn, hb⟩)
    · exact Or.inl h
    · refine Or.inr ⟨n, hn, ?_⟩
      simp only [Bool.or_eq_true, Bool.and_eq_true, decide_eq_true_eq, beq_iff_eq]
      omega

theorem setpos_sly (r : Rule) (ds x : Inst) (hf : r.freq = 7) :
    SetposOk r ds x ↔ posPickAnyP r.pos 1 = true := by
  rw [posAny_one]
  unfold SetposOk
  have hper : ∀ y, periodOf r.freq y = absOf y := by intro y; rw [hf]; rfl
  constructor
  · rintro (h | ⟨n, hn, before, after, hb, _, ha, _, hc⟩)
    · exact Or.inl h
    · refine Or.inr ⟨n, hn, ?_⟩
      have hb0 : before = [] := by
        cases before with
        | nil => rfl
        | cons a t =>
          have := (hb a).mp (by simp)
          rw [hper, hper] at this
          omega
      have ha0 : after = [] := by
        cases after with
        | nil => rfl
        | cons a t =>
          have := (ha a).mp (by simp)
          rw [hper, hper] at this
          omega
      rw [hb0, ha0] at hc
      simp only [List.length_nil] at hc
      omega
  · rintro (h | ⟨n, hn, hc⟩)
    · exact Or.inl h
    · refine Or.inr ⟨n, hn, [], [], ?_, List.nodup_nil, ?_, List.nodup_nil, ?_⟩
      · intro y
        constructor
        · intro h; cases h
        · rintro ⟨_, h1, h2⟩; rw [hper, hper] at h1; omega
      · intro y
        constructor
        · intro h; cases h
        · rintro ⟨_, h1, h2⟩; rw [hper, hper] at h1; omega
      · simp only [List.length_nil]; omega

/-- nothing is written unless position 1 or -1 is asked for -/
theorem fillSly_pos (r : Rule) (p : Inst) (n : Nat) (l : List Inst) (hr : WfRule r) (hp : WfInst p)
    (h : fillSly r p n = some l) (x : Inst) (hx : x ∈ l) : posPickAnyP r.pos 1 = true := by
  cases hcap : capNti r n with
  | none =>
    unfold fillSly at h
    rw [hcap] at h
    cases h
    cases hx
  | some k =>
    rw [fillSly_eq r p n k hr hp hcap] at h
    cases hpp : posPickAnyP r.pos 1 with
    | true => rfl
    | false =>
      rw [hpp] at h
      simp only [Bool.not_false, if_true] at h
      cases h
      cases hx

/-! ### the theorems -/

/-- BYSETPOS, general seed: what is written is one of the chosen positions of its second -/
theorem fillSly_setpos_gen (r : Rule) (p : Inst) (n : Nat) (l : List Inst) (hr : WfRule r) (hp : WfInst p)
    (hf : r.freq = 7) (h : fillSly r p n = some l) : ∀ x ∈ l, SetposOk r (seedT p) x :=
  fun x hx => (setpos_sly r _ x hf).mpr (fillSly_pos r p n l hr hp h x hx)

/-- none missing, general seed, with BYSETPOS -/
theorem fillSly_complete_pos_gen (r : Rule) (p : Inst) (n cap : Nat) (l : List Inst) (hr : WfRule r) (hp : WfInst p)
    (hy : 1901 ≤ p.y) (hf : r.freq = 7) (hcap : capNti r n = some cap) (h : fillSly r p n = some l)
    (x : Inst) (hx : SecondlyInst r (seedT p) x) (hsp : SetposOk r (seedT p) x)
    (hu : ltP r.untl x = false) (hxy : x.y ≤ 2099) :
    x ∈ l ∨ (l.length = cap ∧ ∀ z ∈ l, ltP z x = true) :=
  fillSly_complete_gen r p n cap l hr hp hy hcap h x hx ((setpos_sly r _ x hf).mp hsp) hu hxy

/-- none extra (timed seed): every instant written is an instance of the rule anchored at the seed, at one of the
positions BYSETPOS asks for -/
theorem fillSly_sound_partial (r : Rule) (p : Inst) (n : Nat) (l : List Inst) (hr : WfRule r) (hp : WfInst p)
    (hy : 1901 ≤ p.y) (hH : p.H ≠ allDay) (hf : r.freq = 7) (h : fillSly r p n = some l) :
    ∀ x ∈ l, SecondlyInst r p x ∧ SetposOk r p x := by
  intro x hx
  have h1 := fillSly_sound_gen r p n l hr hp hy h x hx
  have h2 := fillSly_setpos_gen r p n l hr hp hf h x hx
  rw [seedT_timed p hH] at h1 h2
  exact ⟨h1, h2⟩

/-- none missing (timed seed): an instance at one of the chosen positions, not after UNTIL and not after 2099, is in the
list, or the list is full (`cap` = what `capNti` allows: `n`, or COUNT if smaller) and ends before it -/
theorem fillSly_complete_partial (r : Rule) (p : Inst) (n cap : Nat) (l : List Inst) (hr : WfRule r) (hp : WfInst p)
    (hy : 1901 ≤ p.y) (hH : p.H ≠ allDay) (hf : r.freq = 7) (hcap : capNti r n = some cap)
    (h : fillSly r p n = some l) (x : Inst) (hx : SecondlyInst r p x) (hsp : SetposOk r p x)
    (hu : ltP r.untl x = false) (hxy : x.y ≤ 2099) :
    x ∈ l ∨ (l.length = cap ∧ ∀ z ∈ l, ltP z x = true) := by
  have := fillSly_complete_pos_gen r p n cap l hr hp hy hf hcap h x
  rw [seedT_timed p hH] at this
  exact this hx hsp hu hxy

end Echse.Lemmas.RrSlyRfc
