/-
  Candidate sets of the YEARLY / MONTHLY filler models, continued: BYSETPOS (`clr_poss`) keeps a subset, and what a
  period can write is a sane instant when the candidates are real dates (SHIFT: as far as `shift` keeps dates real).
-/
import Echse.Lemmas.RrCandOk3
namespace Echse.Lemmas.RrCandOk
open Echse.Rrule Echse.Instant Echse.Spec.RrOk

theorem getD_pos_mem (l : List Nat) (i : Nat) (h : l.getD i 0 > 0) : l.getD i 0 ∈ l := by
  by_cases hi : i < l.length
  · rw [List.getD_eq_getElem?_getD, List.getElem?_eq_getElem hi]
    exact List.getElem_mem hi
  · rw [List.getD_eq_getElem?_getD, List.getElem?_eq_none (by omega)] at h
    simp at h

/-- the step of `clrPoss` -/
def clrStep (cand : List Nat) (st : List Nat × Nat × Int) (pos0 : Int) : List Nat × Nat × Int :=
    let nbits : Int := cand.length
    let (res, ci, prev) := st
    let pos : Int := if pos0 < 0 then nbits + pos0 + 1 else pos0
    if pos ≤ 0 ∨ pos > nbits then (res, ci, prev) else
    let (ci, prev) := if prev > pos then (0, (0 : Int)) else (ci, prev)
    let n : Nat := (pos - prev).toNat
    let avail := cand.length - ci
    let (c, ci') : Nat × Nat :=
      if n = 0 then (0, ci)
      else if n ≤ avail then (cand.getD (ci + n - 1) 0, ci + n)
      else (0, 0)
    let res := if c > 0 then assC res c else res
    (res, ci', pos)

theorem clrPoss_eq (cand : List Nat) (poss : List Int) :
    clrPoss cand poss = if poss.isEmpty then cand else (poss.foldl (clrStep cand) ([], 0, 0)).1 := rfl

theorem clrStep_fst (cand : List Nat) (st : List Nat × Nat × Int) (pos0 : Int) :
    (clrStep cand st pos0).1 = st.1 ∨
      ∃ i, cand.getD i 0 > 0 ∧ (clrStep cand st pos0).1 = assC st.1 (cand.getD i 0) := by
  obtain ⟨res, ci, prev⟩ := st
  unfold clrStep
  dsimp only
  generalize (if pos0 < 0 then (cand.length : Int) + pos0 + 1 else pos0) = pos
  by_cases g : pos ≤ 0 ∨ pos > (cand.length : Int)
  · rw [if_pos g]; exact Or.inl rfl
  rw [if_neg g]
  generalize (if prev > pos then ((0 : Nat), (0 : Int)) else (ci, prev)) = cp
  obtain ⟨ci2, prev2⟩ := cp
  dsimp only
  generalize (pos - prev2).toNat = n
  by_cases g1 : n = 0
  · simp only [if_pos g1]; exact Or.inl (by simp)
  simp only [if_neg g1]
  by_cases g2 : n ≤ cand.length - ci2
  · simp only [if_pos g2]
    by_cases g3 : cand.getD (ci2 + n - 1) 0 > 0
    · rw [if_pos g3]; exact Or.inr ⟨_, g3, rfl⟩
    · rw [if_neg g3]; exact Or.inl rfl
  · simp only [if_neg g2]; exact Or.inl (by simp)

/-- what BYSETPOS keeps is strictly ascending (it is built by ordered inserts) -/
theorem clrPoss_asc (cand : List Nat) (poss : List Int) (hc : Asc cand) : Asc (clrPoss cand poss) := by
  rw [clrPoss_eq]
  split
  · exact hc
  refine foldl_inv (fun (st : List Nat × Nat × Int) => Asc st.1) _ poss ([], 0, 0) List.Pairwise.nil ?_
  intro st pos0 _ hst
  rcases clrStep_fst cand st pos0 with h | ⟨i, _, h⟩
  · rw [h]; exact hst
  · rw [h]; exact assC_asc _ _ hst

/-- BYSETPOS selects among the candidates -/
theorem clrPoss_subset (cand : List Nat) (poss : List Int) : ∀ c ∈ clrPoss cand poss, c ∈ cand := by
  rw [clrPoss_eq]
  split
  · exact fun c h => h
  refine foldl_inv (fun (st : List Nat × Nat × Int) => ∀ c ∈ st.1, c ∈ cand) _ poss ([], 0, 0)
    (fun c h => nomatch h) ?_
  intro st pos0 _ hst
  rcases clrStep_fst cand st pos0 with h | ⟨i, hi, h⟩
  · rw [h]; exact hst
  · rw [h]
    intro c hc
    rcases mem_assC _ _ _ hc with h | h
    · exact hst c h
    · rw [h]; exact getD_pos_mem cand i hi
/-- a time of day the ENUM loop may form: all-day or a proper time -/
def TimeOk (t : Nat × Nat × Nat) : Prop :=
  (t.1 = allDay ∧ t.2.1 = 0 ∧ t.2.2 = 0) ∨ (t.1 < 24 ∧ t.2.1 < 60 ∧ t.2.2 < 60)

theorem mkX_wf (k : FillCtx) (yy yd : Nat) (t : Nat × Nat × Nat) (hy : 1601 ≤ yy ∧ yy ≤ 2100) (hv : VC yy yd)
    (ht : TimeOk t) : WfInst (mkX k yy yd t) := by
  unfold VC at hv
  have hl := getNdom_le yy (yd / 32 + 1)
  have e1 : yy % 65536 = yy := by omega
  have e2 : (yd / 32 + 1) % 256 = yd / 32 + 1 := by omega
  have e3 : yd % 32 % 256 = yd % 32 := by omega
  unfold TimeOk allDay at ht
  unfold mkX mkInst
  refine ⟨?_, ?_, ?_, ?_, ?_⟩ <;> dsimp only
  · omega
  · omega
  · rw [e1, e2, e3]; omega
  · unfold allDay; omega
  · omega

theorem year_ge_of_not_lt (x p : Inst) (h : ltP x p = false) : p.y % 65536 ≤ x.y % 65536 := by
  unfold ltP bump Inst.pack at h
  simp only [decide_eq_false_iff_not, Nat.reducePow] at h
  omega
/-- what the fillers need of `shift()`: real dates of year `y` go to real dates of the year their set stands for -/
def ShiftKeepsDates (sh : Int) : Prop :=
  ∀ y cs, y ≤ 2099 → AllVC y cs →
    (∀ c ∈ (shift { same := cs } y sh).same, VC y c) ∧
    (∀ c ∈ (shift { same := cs } y sh).prev, 1 ≤ y ∧ VC (y - 1) c) ∧
    (∀ c ∈ (shift { same := cs } y sh).next, VC (y + 1) c)

theorem shiftKeepsDates_zero : ShiftKeepsDates 0 := by
  intro y cs _ h
  have e : shift { same := cs } y 0 = { same := cs } := by unfold shift; simp
  rw [e]
  exact ⟨h.1, fun c hc => (nomatch hc), fun c hc => (nomatch hc)⟩

theorem mem_setE (k : FillCtx) (yy : Nat) (cs : List Nat) (x : Inst) (h : x ∈ setE k yy cs) :
    ∃ yd ∈ cs, ∃ t ∈ k.times, x = mkX k yy yd t := by
  unfold setE dayE at h
  obtain ⟨yd, hyd, hx⟩ := List.mem_flatMap.mp h
  obtain ⟨t, ht, hx⟩ := List.mem_map.mp hx
  exact ⟨yd, hyd, t, ht, hx.symm⟩

theorem mem_periodE (k : FillCtx) (y : Nat) (c3 : Cand3) (x : Inst) (h : x ∈ periodE k y c3) :
    x ∈ setE k ((y + u32 - 1) % u32) c3.prev ∨ x ∈ setE k y c3.same ∨ x ∈ setE k ((y + 1) % u32) c3.next := by
  unfold periodE at h
  simp only [List.flatMap_cons, List.flatMap_nil, List.append_nil, List.mem_append] at h
  exact h

/-- every instant a period can write that is not before the seed is a sane instant -/
theorem finE_wf (k : FillCtx) (y : Nat) (cand : List Nat) (hy : y ≤ 2099) (hc : AllVC y cand)
    (hs : ShiftKeepsDates k.sh) (ht : ∀ t ∈ k.times, TimeOk t) (hp : 1601 ≤ k.proto.y ∧ k.proto.y ≤ 2100) :
    ∀ x ∈ finE k y cand, ltP x k.proto = false → WfInst x := by
  intro x hx hge
  unfold finE at hx
  have hc0 : AllVC y (if !k.tposp then clrPoss cand k.pos else cand) := by
    split
    · exact ⟨fun c h => hc.1 c (clrPoss_subset cand k.pos c h), clrPoss_asc cand k.pos hc.2⟩
    · exact hc
  obtain ⟨h1, h2, h3⟩ := hs y _ hy hc0
  generalize shift { same := if !k.tposp then clrPoss cand k.pos else cand } y k.sh = c3 at *
  have hu : u32 = 4294967296 := rfl
  have hyr := year_ge_of_not_lt x k.proto hge
  rcases mem_periodE k y c3 x hx with h | h | h
  · obtain ⟨yd, hyd, t, htt, rfl⟩ := mem_setE k _ _ x h
    have := h2 yd hyd
    have e : (y + u32 - 1) % u32 = y - 1 := by rw [hu]; omega
    rw [e] at hyr ⊢
    have hyy : (mkX k (y - 1) yd t).y = (y - 1) % 65536 := rfl
    rw [hyy] at hyr
    exact mkX_wf k (y - 1) yd t (by omega) this.2 (ht t htt)
  · obtain ⟨yd, hyd, t, htt, rfl⟩ := mem_setE k _ _ x h
    have hyy : (mkX k y yd t).y = y % 65536 := rfl
    rw [hyy] at hyr
    exact mkX_wf k y yd t (by omega) (h1 yd hyd) (ht t htt)
  · obtain ⟨yd, hyd, t, htt, rfl⟩ := mem_setE k _ _ x h
    have e : (y + 1) % u32 = y + 1 := by rw [hu]; omega
    rw [e] at hyr ⊢
    have hyy : (mkX k (y + 1) yd t).y = (y + 1) % 65536 := rfl
    rw [hyy] at hyr
    exact mkX_wf k (y + 1) yd t (by omega) (h3 yd hyd) (ht t htt)
theorem mem_times (e : Enum) (t : Nat × Nat × Nat) (h : t ∈ e.times) : t.1 ∈ e.H ∧ t.2.1 ∈ e.M ∧ t.2.2 ∈ e.S := by
  unfold Enum.times at h
  obtain ⟨hh, h1, h⟩ := List.mem_flatMap.mp h
  obtain ⟨mm, h2, h⟩ := List.mem_flatMap.mp h
  obtain ⟨ss, h3, h⟩ := List.mem_map.mp h
  subst h
  exact ⟨h1, h2, h3⟩

/-- every time of day the ENUM loop visits is a proper one: next to an all-day seed `make_enum` ignores BYHOUR /
BYMINUTE / BYSECOND and hands back the seed's own (ALL_DAY, 0, 0) -/
theorem times_ok (r : Rule) (p : Inst) (hr : WfRule r) (hp : WfInst p) :
    ∀ t ∈ (makeEnum p r).times, TimeOk t := by
  intro t ht
  obtain ⟨h1, h2, h3⟩ := mem_times _ t ht
  have hpt := hp.time
  unfold TimeOk
  unfold makeEnum at h1 h2 h3
  by_cases had : p.H = allDay
  · rw [if_pos had] at h1 h2 h3
    simp only [List.mem_singleton] at h1 h2 h3
    rcases hpt with hpt | hpt
    · left
      rw [h1, h2, h3, hpt.1, hpt.2.1, hpt.2.2]
      exact ⟨by decide, rfl, rfl⟩
    · unfold allDay at had; omega
  rw [if_neg had] at h1 h2 h3
  dsimp only at h1 h2 h3
  have hpt : p.H < 24 ∧ p.M < 60 ∧ p.S < 60 := by
    rcases hpt with hpt | hpt
    · exact absurd hpt.1 had
    · exact hpt
  right
  refine ⟨?_, ?_, ?_⟩
  · split at h1
    · simp only [List.mem_singleton] at h1; omega
    · obtain ⟨h, hh, hht⟩ := List.mem_map.mp h1
      have := hr.hours.2 h hh; omega
  · split at h2
    · simp only [List.mem_singleton] at h2; omega
    · obtain ⟨m, hm, hmt⟩ := List.mem_map.mp h2
      have := hr.mins.2 m hm; omega
  · split at h3
    · simp only [List.mem_singleton] at h3; omega
    · obtain ⟨s, hs, hst⟩ := List.mem_map.mp h3
      have := hr.secs.2 s hs; omega

theorem mkFillCtx_times (r : Rule) (p : Inst) (nti : Nat) : (mkFillCtx r p nti).times = (makeEnum p r).times := rfl
end Echse.Lemmas.RrCandOk
