/-
  Sorting, part 1: the specification sort (`stableSort` = `insertionSort`) is a stable sort and
  is the only one; `insertionSortBinary` and `mergeExternal` agree with it.

  The comparison is induced by a key: `lt a b = decide (key a < key b)`.
-/
import Echse.Model.Sort
namespace Echse.Sort

variable {α : Type}

/-- ascending by key -/
def SortedK (key : α → Nat) (l : List α) : Prop := l.Pairwise (fun a b => key a ≤ key b)

/-- the elements with key `k`, in list order -/
abbrev fk (key : α → Nat) (k : Nat) (l : List α) : List α := l.filter (fun a => key a == k)

theorem SortedK.nil (key : α → Nat) : SortedK key [] := List.Pairwise.nil

theorem sortedK_cons {key : α → Nat} {x : α} {l : List α} :
    SortedK key (x :: l) ↔ (∀ y ∈ l, key x ≤ key y) ∧ SortedK key l := List.pairwise_cons

theorem sortedK_append {key : α → Nat} {a b : List α} :
    SortedK key (a ++ b) ↔ SortedK key a ∧ SortedK key b ∧ ∀ x ∈ a, ∀ y ∈ b, key x ≤ key y :=
  List.pairwise_append

theorem mem_of_fk_eq {key : α → Nat} {l1 l2 : List α} (h : ∀ k, fk key k l1 = fk key k l2)
    {y : α} (hy : y ∈ l2) : y ∈ l1 := by
  have : y ∈ fk key (key y) l2 := by simp [fk, hy]
  rw [← h] at this
  exact (List.mem_filter.mp this).1

/-- S(iv): a key-sorted list is determined by its per-key subsequences. -/
theorem sortedK_unique (key : α → Nat) : ∀ (l1 l2 : List α), SortedK key l1 → SortedK key l2 →
    (∀ k, fk key k l1 = fk key k l2) → l1 = l2 := by
  intro l1
  induction l1 with
  | nil =>
    intro l2 _ _ h
    cases l2 with
    | nil => rfl
    | cons y l2 =>
      have := mem_of_fk_eq h (List.mem_cons_self (a := y) (l := l2))
      simp at this
  | cons x l1 ih =>
    intro l2 h1 h2 h
    cases l2 with
    | nil =>
      have := mem_of_fk_eq (fun k => (h k).symm) (List.mem_cons_self (a := x) (l := l1))
      simp at this
    | cons y l2 =>
      rw [sortedK_cons] at h1 h2
      have hxy : key x ≤ key y := by
        have := mem_of_fk_eq h (List.mem_cons_self (a := y) (l := l2))
        rcases List.mem_cons.mp this with e | m
        · rw [e]; exact Nat.le_refl _
        · exact h1.1 y m
      have hyx : key y ≤ key x := by
        have := mem_of_fk_eq (fun k => (h k).symm) (List.mem_cons_self (a := x) (l := l1))
        rcases List.mem_cons.mp this with e | m
        · rw [e]; exact Nat.le_refl _
        · exact h2.1 x m
      have hk : key y = key x := Nat.le_antisymm hyx hxy
      have hh := h (key x)
      simp only [fk, List.filter_cons, beq_self_eq_true, if_true, hk] at hh
      have hxe : x = y := (List.cons.inj hh).1
      subst hxe
      congr 1
      apply ih l2 h1.2 h2.2
      intro k
      have hk' := h k
      simp only [fk, List.filter_cons] at hk'
      by_cases c : (key x == k) = true
      · simp only [c, if_true] at hk'
        exact (List.cons.inj hk').2
      · simp only [c] at hk'
        exact hk'

section
variable (lt : α → α → Bool) (key : α → Nat) (hlt : ∀ a b, lt a b = decide (key a < key b))
include hlt

/-! ### S: the specification sort -/

theorem fk_insertRight (k : Nat) (t : α) (l : List α) :
    fk key k (insertRight lt t l) = if key t == k then t :: fk key k l else fk key k l := by
  induction l with
  | nil => simp [insertRight, fk, List.filter_cons]
  | cons x l ih =>
    unfold insertRight
    by_cases c : key t < key x
    · have hne : key t = k → ¬ key x = k := by omega
      simp only [hlt, c, decide_true, if_true]
      simp only [fk, List.filter_cons] at ih ⊢
      rw [ih]
      by_cases e : key t = k
      · have := hne e
        simp [e, this]
      · simp [e]
    · simp only [hlt, c, decide_false, Bool.false_eq_true, if_false]
      simp only [fk, List.filter_cons]

omit hlt in
theorem insertRight_perm (t : α) (l : List α) : (insertRight lt t l).Perm (t :: l) := by
  induction l with
  | nil => exact List.Perm.refl _
  | cons x l ih =>
    unfold insertRight
    split
    · exact (List.Perm.cons x ih).trans (List.Perm.swap t x l)
    · exact List.Perm.refl _

/-- `insertRight` keeps a descending list descending -/
theorem insertRight_desc (t : α) (l : List α) (h : l.Pairwise (fun a b => key b ≤ key a)) :
    (insertRight lt t l).Pairwise (fun a b => key b ≤ key a) := by
  induction l with
  | nil => simp [insertRight]
  | cons x l ih =>
    unfold insertRight
    rw [List.pairwise_cons] at h
    by_cases c : key t < key x
    · simp only [hlt, c, decide_true, if_true]
      rw [List.pairwise_cons]
      refine ⟨?_, ih h.2⟩
      intro y hy
      have := (insertRight_perm lt t l).mem_iff.mp hy
      rcases List.mem_cons.mp this with e | m
      · rw [e]; omega
      · exact h.1 y m
    · simp only [hlt, c, decide_false, Bool.false_eq_true, if_false]
      rw [List.pairwise_cons, List.pairwise_cons]
      refine ⟨?_, h⟩
      intro y hy
      rcases List.mem_cons.mp hy with e | m
      · rw [e]; omega
      · have := h.1 y m; omega

theorem foldl_insertRight_spec (xs : List α) : ∀ (acc : List α),
    acc.Pairwise (fun a b => key b ≤ key a) →
    let r := xs.foldl (fun revPre t => insertRight lt t revPre) acc
    r.Pairwise (fun a b => key b ≤ key a) ∧ r.Perm (xs.reverse ++ acc) ∧
      ∀ k, fk key k r = (fk key k xs).reverse ++ fk key k acc := by
  induction xs with
  | nil => intro acc h; simp [h]
  | cons x xs ih =>
    intro acc h
    have := ih (insertRight lt x acc) (insertRight_desc lt key hlt x acc h)
    simp only [List.foldl_cons]
    refine ⟨this.1, ?_, ?_⟩
    · refine this.2.1.trans ?_
      rw [List.reverse_cons, List.append_assoc]
      exact List.Perm.append_left _ (insertRight_perm lt x acc)
    · intro k
      rw [this.2.2 k, fk_insertRight lt key hlt]
      by_cases e : key x = k <;> simp [fk, e]

/-- S(i) -/
theorem stableSort_perm (xs : List α) : (stableSort lt xs).Perm xs := by
  have := (foldl_insertRight_spec lt key hlt xs [] List.Pairwise.nil).2.1
  unfold stableSort insertionSort
  refine (List.reverse_perm _).trans (this.trans ?_)
  simp

/-- S(ii) -/
theorem stableSort_sorted (xs : List α) : SortedK key (stableSort lt xs) := by
  have := (foldl_insertRight_spec lt key hlt xs [] List.Pairwise.nil).1
  unfold stableSort insertionSort SortedK
  rw [List.pairwise_reverse]
  exact this

/-- S(iii) -/
theorem stableSort_stable (xs : List α) (k : Nat) : fk key k (stableSort lt xs) = fk key k xs := by
  have := (foldl_insertRight_spec lt key hlt xs [] List.Pairwise.nil).2.2 k
  unfold stableSort insertionSort
  simp only [fk] at this ⊢
  rw [List.filter_reverse, this]
  simp

/-- S(iv) -/
theorem eq_stableSort (xs l : List α) (hs : SortedK key l) (hf : ∀ k, fk key k l = fk key k xs) :
    l = stableSort lt xs :=
  sortedK_unique key _ _ hs (stableSort_sorted lt key hlt xs)
    (fun k => (hf k).trans (stableSort_stable lt key hlt xs k).symm)

/-- concatenations of stably sorted pieces -/
theorem stableSort_append_of (xs ys l : List α) (hs : SortedK key l)
    (hf : ∀ k, fk key k l = fk key k (stableSort lt xs) ++ fk key k (stableSort lt ys)) :
    l = stableSort lt (xs ++ ys) := by
  apply eq_stableSort lt key hlt _ _ hs
  intro k
  rw [hf, stableSort_stable lt key hlt, stableSort_stable lt key hlt]
  simp [fk]

/-! ### A: binary insertion sort -/

omit hlt in
/-- inserting at a position that separates `≤ key t` from `> key t` -/
theorem insertAt_spec (pre : List α) (t : α) (n : Nat) (hs : SortedK key pre)
    (hlo : ∀ x ∈ pre.take n, key x ≤ key t) (hhi : ∀ x ∈ pre.drop n, key t < key x) :
    SortedK key (pre.take n ++ t :: pre.drop n) ∧
    ∀ k, fk key k (pre.take n ++ t :: pre.drop n) = fk key k pre ++ fk key k [t] := by
  have hs' : SortedK key (pre.take n ++ pre.drop n) := by rw [List.take_append_drop]; exact hs
  rw [sortedK_append] at hs'
  refine ⟨?_, ?_⟩
  · rw [sortedK_append, sortedK_cons]
    refine ⟨hs'.1, ⟨fun y hy => Nat.le_of_lt (hhi y hy), hs'.2.1⟩, ?_⟩
    intro x hx y hy
    rcases List.mem_cons.mp hy with e | m
    · rw [e]; exact hlo x hx
    · exact hs'.2.2 x hx y m
  · intro k
    conv => rhs; rw [← List.take_append_drop n pre]
    simp only [fk, List.filter_append, List.filter_cons, List.filter_nil]
    by_cases e : key t = k
    · have : List.filter (fun a => key a == k) (List.drop n pre) = [] := by
        rw [List.filter_eq_nil_iff]
        intro x hx
        have := hhi x hx
        simp; omega
      simp [e, this]
    · simp [e]

variable [Inhabited α]

theorem binaryLastLoop_spec (arr : List α) (t : α)
    (hs : ∀ i j, i ≤ j → j < arr.length → key (arr.getD i default) ≤ key (arr.getD j default)) :
    ∀ fuel start stop, stop - start < fuel → start ≤ stop → stop + 1 ≤ arr.length →
      (∀ i, i < start → key (arr.getD i default) ≤ key t) →
      (stop + 1 = arr.length ∨ ∀ i, stop ≤ i → i < arr.length → key t < key (arr.getD i default)) →
      let r := binaryLastLoop lt arr t fuel start stop
      r + 1 ≤ arr.length ∧ (∀ i, i < r → key (arr.getD i default) ≤ key t) ∧
      (r + 1 = arr.length ∨ ∀ i, r ≤ i → i < arr.length → key t < key (arr.getD i default)) := by
  intro fuel
  induction fuel with
  | zero => intro start stop h; omega
  | succ f ih =>
    intro start stop hf hss hstop hlo hhi
    unfold binaryLastLoop
    by_cases c : start < stop
    · simp only [c, if_true]
      by_cases m : key t < key (arr.getD (start + (stop - start) / 2) default)
      · simp only [hlt, m, decide_true, Bool.not_true, Bool.false_eq_true, if_false]
        apply ih _ _ (by omega) (by omega) (by omega) hlo
        right
        intro i hi hin
        have := hs _ _ hi hin
        omega
      · simp only [hlt, m, decide_false, Bool.not_false, if_true]
        apply ih _ _ (by omega) (by omega) (by omega) _ hhi
        intro i hi
        have := hs i (start + (stop - start) / 2) (by omega) (by omega)
        omega
    · simp only [c, if_false]
      have : start = stop := by omega
      subst this
      exact ⟨hstop, hlo, hhi⟩

omit hlt in
theorem sortedK_getD (l : List α) (hs : SortedK key l) :
    ∀ i j, i ≤ j → j < l.length → key (l.getD i default) ≤ key (l.getD j default) := by
  intro i j hij hj
  rcases Nat.lt_or_ge i j with h | h
  · have := (List.pairwise_iff_getElem.mp hs) i j (by omega) hj h
    simpa [List.getD_eq_getElem?_getD, List.getElem?_eq_getElem, hj, (by omega : i < l.length)] using this
  · have : i = j := by omega
    subst this; exact Nat.le_refl _

theorem binaryLast_spec (pre : List α) (t : α) (hs : SortedK key pre) :
    (∀ x ∈ pre.take (binaryLast lt pre t), key x ≤ key t) ∧
    (∀ x ∈ pre.drop (binaryLast lt pre t), key t < key x) := by
  have key1 : ∃ r, binaryLast lt pre t = r ∧ r ≤ pre.length ∧
      (∀ i, i < r → key (pre.getD i default) ≤ key t) ∧
      (∀ i, r ≤ i → i < pre.length → key t < key (pre.getD i default)) := by
    unfold binaryLast
    by_cases h0 : pre.length = 0
    · simp only [h0, if_true]
      exact ⟨0, rfl, by omega, by omega, by omega⟩
    · simp only [h0, if_false]
      have hg := sortedK_getD key pre hs
      obtain ⟨a1, a2, a3⟩ := binaryLastLoop_spec lt key hlt pre t hg (pre.length + 1) 0 (pre.length - 1)
        (by omega) (by omega) (by omega) (by omega) (Or.inl (by omega))
      generalize binaryLastLoop lt pre t (pre.length + 1) 0 (pre.length - 1) = r at a1 a2 a3
      by_cases c : r = pre.length - 1 ∧ (!lt t (pre.getD r default)) = true
      · rw [if_pos c]
        refine ⟨_, rfl, by omega, ?_, by omega⟩
        intro i hi
        rcases Nat.lt_or_ge i r with h | h
        · exact a2 i h
        · have : i = r := by omega
          subst this
          have := c.2
          simp only [hlt, Bool.not_eq_true', decide_eq_false_iff_not] at this
          omega
      · rw [if_neg c]
        refine ⟨_, rfl, by omega, a2, ?_⟩
        rcases a3 with a3 | a3
        · intro i hi hin
          have : i = r := by omega
          subst this
          have hc : ¬ ((!lt t (pre.getD i default)) = true) := fun x => c ⟨by omega, x⟩
          simp only [hlt, Bool.not_eq_true', decide_eq_false_iff_not, Decidable.not_not] at hc
          omega
        · exact a3
  obtain ⟨r, e, hr, lo, hi⟩ := key1
  rw [e]
  constructor
  · intro x hx
    obtain ⟨i, hi', rfl⟩ := List.mem_iff_getElem.mp hx
    rw [List.length_take] at hi'
    have := lo i (by omega)
    rw [List.getElem_take]
    simpa [List.getD_eq_getElem?_getD, List.getElem?_eq_getElem, (by omega : i < pre.length)] using this
  · intro x hx
    obtain ⟨i, hi', rfl⟩ := List.mem_iff_getElem.mp hx
    rw [List.length_drop] at hi'
    have := hi (r + i) (by omega) (by omega)
    rw [List.getElem_drop]
    simpa [List.getD_eq_getElem?_getD, List.getElem?_eq_getElem, (by omega : r + i < pre.length)] using this

theorem foldl_insertBinary_spec (xs : List α) : ∀ (acc : List α), SortedK key acc →
    let r := xs.foldl (fun pre t => let k := binaryLast lt pre t; pre.take k ++ t :: pre.drop k) acc
    SortedK key r ∧ ∀ k, fk key k r = fk key k acc ++ fk key k xs := by
  induction xs with
  | nil => intro acc h; simp [h]
  | cons x xs ih =>
    intro acc h
    obtain ⟨lo, hi⟩ := binaryLast_spec lt key hlt acc x h
    obtain ⟨s1, s2⟩ := insertAt_spec key acc x (binaryLast lt acc x) h lo hi
    have := ih _ s1
    simp only [List.foldl_cons]
    refine ⟨this.1, ?_⟩
    intro k
    rw [this.2 k, s2 k]
    by_cases e : key x = k <;> simp [fk, e]

/-- A -/
theorem insertionSortBinary_eq (xs : List α) : insertionSortBinary lt xs = stableSort lt xs := by
  have := foldl_insertBinary_spec lt key hlt xs [] (SortedK.nil key)
  apply eq_stableSort lt key hlt _ _ this.1
  intro k
  have h2 := this.2 k
  simpa [fk] using h2

/-! ### B: the external merge -/

omit hlt [Inhabited α] in
theorem mergeExternal_perm : ∀ (a b : List α), (mergeExternal lt a b).Perm (a ++ b) := by
  intro a b
  fun_induction mergeExternal lt a b with
  | case1 b => simp
  | case2 a h => simp
  | case3 x a y b h ih =>
    exact List.Perm.cons x ih
  | case4 x a y b h ih =>
    refine (List.Perm.cons y ih).trans ?_
    exact (List.perm_middle (a := y) (l₁ := x :: a) (l₂ := b)).symm

omit hlt [Inhabited α] in
theorem mergeExternal_length (a b : List α) : (mergeExternal lt a b).length = a.length + b.length := by
  rw [(mergeExternal_perm lt a b).length_eq, List.length_append]

omit [Inhabited α] in
theorem mergeExternal_sorted : ∀ (a b : List α), SortedK key a → SortedK key b →
    SortedK key (mergeExternal lt a b) := by
  intro a b
  fun_induction mergeExternal lt a b with
  | case1 b => intro _ h; exact h
  | case2 a h => intro h _; exact h
  | case3 x a y b h ih =>
    intro ha hb
    rw [sortedK_cons] at ha ⊢
    refine ⟨?_, ih ha.2 hb⟩
    intro z hz
    have := (mergeExternal_perm lt a (y :: b)).mem_iff.mp hz
    simp only [hlt, Bool.not_eq_true', decide_eq_false_iff_not] at h
    rcases List.mem_append.mp this with m | m
    · exact ha.1 z m
    · rcases List.mem_cons.mp m with e | m
      · rw [e]; omega
      · have := (sortedK_cons.mp hb).1 z m; omega
  | case4 x a y b h ih =>
    intro ha hb
    rw [sortedK_cons] at hb ⊢
    refine ⟨?_, ih ha hb.2⟩
    intro z hz
    have := (mergeExternal_perm lt (x :: a) b).mem_iff.mp hz
    simp only [hlt, Bool.not_eq_true', decide_eq_false_iff_not, Decidable.not_not] at h
    rcases List.mem_append.mp this with m | m
    · rcases List.mem_cons.mp m with e | m
      · rw [e]; omega
      · have := (sortedK_cons.mp ha).1 z m; omega
    · exact hb.1 z m

omit [Inhabited α] in
theorem mergeExternal_fk (k : Nat) : ∀ (a b : List α), SortedK key a →
    fk key k (mergeExternal lt a b) = fk key k a ++ fk key k b := by
  intro a b
  fun_induction mergeExternal lt a b with
  | case1 b => intro _; simp [fk]
  | case2 a h => intro _; simp [fk]
  | case3 x a y b h ih =>
    intro ha
    have := ih (sortedK_cons.mp ha).2
    simp only [fk, List.filter_cons] at this ⊢
    rw [this]
    by_cases e : key x = k <;> simp [e]
  | case4 x a y b h ih =>
    intro ha
    have := ih ha
    simp only [hlt, Bool.not_eq_true', decide_eq_false_iff_not, Decidable.not_not] at h
    simp only [fk] at this ⊢
    rw [List.filter_cons, this]
    by_cases e : key y = k
    · have hnil : List.filter (fun a => key a == k) (x :: a) = [] := by
        rw [List.filter_eq_nil_iff]
        intro z hz
        have : key x ≤ key z := by
          rcases List.mem_cons.mp hz with e | m
          · rw [e]; exact Nat.le_refl _
          · exact (sortedK_cons.mp ha).1 z m
        simp; omega
      rw [hnil]
      simp [e]
    · simp [e]

omit [Inhabited α] in
/-- B: merging two stably sorted runs gives the stably sorted concatenation -/
theorem mergeExternal_stableSort (xs ys : List α) :
    mergeExternal lt (stableSort lt xs) (stableSort lt ys) = stableSort lt (xs ++ ys) := by
  apply stableSort_append_of lt key hlt
  · exact mergeExternal_sorted lt key hlt _ _ (stableSort_sorted lt key hlt xs) (stableSort_sorted lt key hlt ys)
  · intro k
    exact mergeExternal_fk lt key hlt k _ _ (stableSort_sorted lt key hlt xs)

/-- one `mergeLevel` step on a pair of sorted runs, whichever branch is taken -/
theorem mergeStep_spec (a b : List α) (ha : SortedK key a) (hb : SortedK key b) :
    let m := if lt (b.headD default) (a.getLastD default) then mergeExternal lt a b else a ++ b
    SortedK key m ∧ m.length = a.length + b.length ∧ ∀ k, fk key k m = fk key k a ++ fk key k b := by
  intro m
  by_cases c : lt (b.headD default) (a.getLastD default) = true
  · have : m = mergeExternal lt a b := by simp only [m, c, if_true]
    rw [this]
    exact ⟨mergeExternal_sorted lt key hlt a b ha hb, mergeExternal_length lt a b,
      fun k => mergeExternal_fk lt key hlt k a b ha⟩
  · have : m = a ++ b := by simp only [m, c]; rfl
    rw [this]
    refine ⟨?_, List.length_append, fun k => by simp [fk]⟩
    rw [sortedK_append]
    refine ⟨ha, hb, ?_⟩
    intro x hx y hy
    simp only [hlt, decide_eq_true_eq, Nat.not_lt] at c
    obtain ⟨a', l, rfl⟩ : ∃ a' l, a = a' ++ [l] := by
      rcases List.eq_nil_or_concat a with h | ⟨a', l, h⟩
      · subst h; simp at hx
      · exact ⟨a', l, by simpa using h⟩
    cases b with
    | nil => simp at hy
    | cons y0 b =>
      simp only [List.getLastD_eq_getLast?, List.getLast?_append, List.getLast?_singleton,
        Option.some_or, Option.getD_some, List.headD_cons] at c
      have h1 : key x ≤ key l := by
        rcases List.mem_append.mp hx with m | m
        · exact (sortedK_append.mp ha).2.2 x m l (by simp)
        · simp at m; rw [m]; exact Nat.le_refl _
      have h2 : key y0 ≤ key y := by
        rcases List.mem_cons.mp hy with e | m
        · rw [e]; exact Nat.le_refl _
        · exact (sortedK_cons.mp hb).1 y m
      omega

/-- B, shortcut branch -/
theorem append_stableSort_of_not_lt (xs ys : List α)
    (h : lt ((stableSort lt ys).headD default) ((stableSort lt xs).getLastD default) = false) :
    stableSort lt xs ++ stableSort lt ys = stableSort lt (xs ++ ys) := by
  have := mergeStep_spec lt key hlt _ _ (stableSort_sorted lt key hlt xs) (stableSort_sorted lt key hlt ys)
  simp only [h, Bool.false_eq_true, if_false] at this
  exact stableSort_append_of lt key hlt xs ys _ this.1 this.2.2

end
end Echse.Sort
