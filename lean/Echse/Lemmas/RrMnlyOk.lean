/-
  `fillMnly` (FREQ=MINUTELY): the fuel never runs out and the results are what `FillOk` asks for.
-/
import Echse.Lemmas.RrSubOk
namespace Echse.Lemmas.RrMnlyOk
open Echse.Rrule Echse.Instant Echse.Spec.RrOk Echse.Lemmas.RrSubOk

/-! ### the reach loop -/

theorem mnlyReach_some (c : SubCtx) : ∀ (fuel k tmp : Nat), 1440 ≤ fuel + k → k < 1440 →
    (mnlyReach c fuel k tmp).isSome := by
  intro fuel
  induction fuel with
  | zero => intro k tmp h1 h2; omega
  | succ f ih =>
    intro k tmp h1 h2
    unfold mnlyReach
    by_cases hA : (c.HMask &&& shl1 (tmp / 60)) ≠ 0 ∧ (c.MMask &&& shl1q (tmp % 60)) ≠ 0
    · rw [if_pos hA]; rfl
    · rw [if_neg hA]
      by_cases hB : k + 1 ≥ 1440
      · rw [if_pos hB]; rfl
      · rw [if_neg hB]
        exact ih _ _ (by omega) (by omega)

/-! ### the ENUM loop of one minute -/

theorem mnlyEnum_spec (c : SubCtx) (y m d H M : Nat) (hy1 : 1601 ≤ y) (hy2 : y ≤ 2100) (hm1 : 1 ≤ m) (hm2 : m ≤ 12)
    (hd1 : 1 ≤ d) (hd2 : d ≤ getNdom y m) (hH : H < 24) (hM : M < 60) (hms : c.proto.ms < 1024) :
    ∀ (ts : List (Nat × Nat)) (cnt : Nat) (acc : List Inst) (k0 : Nat),
      ts.Pairwise (fun a b => a.1 < b.1) → (∀ t ∈ ts, k0 ≤ t.1 ∧ t.1 < 60) → k0 ≤ 64 →
      AccOk c.r c.proto c.nti cnt acc (ck y m d H M 0 + 1024 * k0) →
      AccOk c.r c.proto c.nti (mnlyEnum c y m d H M ts cnt acc).1 (mnlyEnum c y m d H M ts cnt acc).2.1
        (ck y m d H (M + 1) 0) := by
  have hb := getNdom_bounds y m hm1 hm2
  intro ts
  induction ts with
  | nil =>
    intro cnt acc k0 _ _ hk h
    simp only [mnlyEnum]
    refine h.mono ?_
    simp only [ck]; omega
  | cons t rest ih =>
    intro cnt acc k0 hp hr hk h
    obtain ⟨s, iS⟩ := t
    have hfin : ck y m d H M 0 + 1024 * k0 ≤ ck y m d H (M + 1) 0 := by simp only [ck]; omega
    have ht := hr (s, iS) (by simp)
    simp only at ht
    obtain ⟨ht0, hs⟩ := ht
    have hp' := List.pairwise_cons.mp hp
    have hrest : ∀ t ∈ rest, s + 1 ≤ t.1 ∧ t.1 < 60 := by
      intro t' ht'
      have h1 := hp'.1 t' ht'
      have h2 := hr t' (by simp [ht'])
      simp only at h1
      omega
    have hskip : AccOk c.r c.proto c.nti cnt acc (ck y m d H M 0 + 1024 * (s + 1)) := by
      refine h.mono ?_; omega
    simp only [mnlyEnum]
    by_cases h1 : ¬ cnt < c.nti
    · simp only [h1]; exact h.mono hfin
    · simp only [h1, if_false]
      by_cases h2 : ltP (mkInst y m d H M s c.proto.ms) c.proto = true
      · simp only [h2, if_true]
        exact ih cnt acc _ hp'.2 hrest (by omega) hskip
      · simp only [h2]
        by_cases h3 : ltP c.r.untl (mkInst y m d H M s c.proto.ms) = true
        · simp only [h3, if_true]; exact h.mono hfin
        · simp only [h3]
          by_cases h4 : (!posPickP c.r.pos iS c.e.S.length) = true
          · simp only [h4, if_true]
            exact ih cnt acc _ hp'.2 hrest (by omega) hskip
          · simp only [h4]
            refine ih (cnt + 1) _ _ hp'.2 hrest (by omega) ?_
            have hk := bk_mkInst y m d H M s c.proto.ms (by omega) hm2 (by omega) hH hM hs
            have hml := msk_lt c.proto.ms
            refine h.push (by omega) (wf_mkInst y m d H M s _ hy1 hy2 hm1 hm2 hd1 hd2 hH hM hs hms)
              (by simpa using h2) (by simpa using h3) ?_ ?_
            · rw [hk]; simp only [ck]; omega
            · rw [hk]; simp only [ck]; omega

/-! ### one round of the outer loop, cut into body and increment -/

/-- 2292-2352: the body proper, `(cnt, acc, fin, inc)` -/
def mnlyBody (c : SubCtx) (secs : List (Nat × Nat)) (y m d H M w maxd cnt : Nat) (acc : List Inst) :
    Nat × List Inst × Bool × Nat :=
  let pastD := interPast ((1440 + u32 - (H * 60 + M) % u32) % u32) c.inter
  if c.dayOut w m d maxd then (cnt, acc, false, pastD)
  else if (c.HMask &&& shl1 H) = 0 then (cnt, acc, false, interPast ((60 + u32 - M) % u32) c.inter)
  else if (c.MMask &&& shl1q M) = 0 then (cnt, acc, false, c.inter)
  else if !c.r.doy.isEmpty && !doyHit c.r.doy (ymdGetYd y m d) (maxyOf y) then (cnt, acc, false, pastD)
  else
    let (cnt, acc, fin) := mnlyEnum c y m d H M secs cnt acc
    (cnt, acc, fin, c.inter)

/-- 2251-2270: the loop's increment expression, entered with `M + inc` -/
def mnlyStep (c : SubCtx) (secs : List (Nat × Nat)) (fuel y m d H M w maxd cnt : Nat) (acc : List Inst) :
    Option (List Inst) :=
  if M ≥ 60 then
    let H := (H + M / 60) % u32
    let M := M % 60
    if H ≥ 24 then
      let q := H / 24
      let w := wrapWd ((w + q) % u32)
      match subCarry ((d + q) % u32 + 1) y m ((d + q) % u32) maxd with
      | none => none
      | some (y, m, d, maxd) => mnlyLoop c secs fuel y m d (H % 24) M w maxd cnt acc
    else mnlyLoop c secs fuel y m d H M w maxd cnt acc
  else mnlyLoop c secs fuel y m d H M w maxd cnt acc

theorem mnlyLoop_succ (c : SubCtx) (secs : List (Nat × Nat)) (fuel y m d H M w maxd cnt : Nat) (acc : List Inst) :
    mnlyLoop c secs (fuel + 1) y m d H M w maxd cnt acc =
      if ¬ cnt < c.nti then some acc else
      if y > subMaxYear then some acc
      else if ltP c.r.untl (mkInst y m d H M 0 c.proto.ms) then some acc
      else
        match mnlyBody c secs y m d H M w maxd cnt acc with
        | (cnt, acc, fin, inc) =>
          if fin then some acc else mnlyStep c secs fuel y m d H ((M + inc) % u32) w maxd cnt acc := by
  rfl

theorem mnlyBody_spec (c : SubCtx) (secs : List (Nat × Nat))
    (hts : secs.Pairwise (fun a b => a.1 < b.1) ∧ ∀ t ∈ secs, t.1 < 60)
    (hi1 : 1 ≤ c.inter) (hi2 : c.inter < 2147483648) (hms : c.proto.ms < 1024)
    (y m d H M w maxd cnt : Nat) (acc : List Inst)
    (hy1 : 1601 ≤ y) (hy2 : y ≤ 2100) (hm1 : 1 ≤ m) (hm2 : m ≤ 12)
    (hd1 : 1 ≤ d) (hd2 : d ≤ getNdom y m) (hH : H < 24) (hM : M < 60)
    (h : AccOk c.r c.proto c.nti cnt acc (ck y m d H M 0)) :
    AccOk c.r c.proto c.nti (mnlyBody c secs y m d H M w maxd cnt acc).1
        (mnlyBody c secs y m d H M w maxd cnt acc).2.1 (ck y m d H (M + 1) 0) ∧
      1 ≤ (mnlyBody c secs y m d H M w maxd cnt acc).2.2.2 ∧
      (mnlyBody c secs y m d H M w maxd cnt acc).2.2.2 < 2147483648 + 86400 := by
  have hpastD : 1 ≤ interPast ((1440 + u32 - (H * 60 + M) % u32) % u32) c.inter ∧
      interPast ((1440 + u32 - (H * 60 + M) % u32) % u32) c.inter < 2147483648 + 86400 := by
    have e : (1440 + u32 - (H * 60 + M) % u32) % u32 = 1440 - (H * 60 + M) := by simp only [u32]; omega
    rw [e]
    have := interPast_bounds (1440 - (H * 60 + M)) c.inter hi1 hi2 (by omega) (by omega)
    omega
  have hpastH : 1 ≤ interPast ((60 + u32 - M) % u32) c.inter ∧
      interPast ((60 + u32 - M) % u32) c.inter < 2147483648 + 86400 := by
    have e : (60 + u32 - M) % u32 = 60 - M := by simp only [u32]; omega
    rw [e]
    have := interPast_bounds (60 - M) c.inter hi1 hi2 (by omega) (by omega)
    omega
  have hmono : AccOk c.r c.proto c.nti cnt acc (ck y m d H (M + 1) 0) := by
    refine h.mono ?_; simp only [ck]; omega
  simp only [mnlyBody]
  by_cases h1 : c.dayOut w m d maxd = true
  · rw [if_pos h1]; exact ⟨hmono, hpastD⟩
  · rw [if_neg h1]
    by_cases h2 : (c.HMask &&& shl1 H) = 0
    · rw [if_pos h2]; exact ⟨hmono, hpastH⟩
    · rw [if_neg h2]
      by_cases h2' : (c.MMask &&& shl1q M) = 0
      · rw [if_pos h2']; exact ⟨hmono, hi1, (by omega : c.inter < 2147483648 + 86400)⟩
      · rw [if_neg h2']
        by_cases h3 : (!c.r.doy.isEmpty && !doyHit c.r.doy (ymdGetYd y m d) (maxyOf y)) = true
        · rw [if_pos h3]; exact ⟨hmono, hpastD⟩
        · rw [if_neg h3]
          have hE := mnlyEnum_spec c y m d H M hy1 hy2 hm1 hm2 hd1 hd2 hH hM hms secs cnt acc 0 hts.1
            (fun t ht => ⟨Nat.zero_le _, hts.2 t ht⟩) (by omega) (by simpa using h)
          generalize mnlyEnum c y m d H M secs cnt acc = e at hE ⊢
          obtain ⟨a, b, f⟩ := e
          exact ⟨hE, hi1, (by omega : c.inter < 2147483648 + 86400)⟩

/-! ### the outer loop -/

theorem mnlyLoop_spec (c : SubCtx) (secs : List (Nat × Nat))
    (hts : secs.Pairwise (fun a b => a.1 < b.1) ∧ ∀ t ∈ secs, t.1 < 60)
    (hi1 : 1 ≤ c.inter) (hi2 : c.inter < 2147483648) (hms : c.proto.ms < 1024) :
    ∀ (fuel y m d H M w cnt : Nat) (acc : List Inst), 1601 ≤ y → 1 ≤ m → m ≤ 12 → 1 ≤ d →
      d ≤ getNdom y m → H < 24 → M < 60 → AccOk c.r c.proto c.nti cnt acc (ck y m d H M 0) →
      1 ≤ fuel → 1106785441 ≤ fuel + 1440 * dn y m d + 60 * H + M →
      ∃ acc' cnt' b, mnlyLoop c secs fuel y m d H M w (getNdom y m) cnt acc = some acc' ∧
        AccOk c.r c.proto c.nti cnt' acc' b := by
  intro fuel
  induction fuel with
  | zero => intros; omega
  | succ f ih =>
    intro y m d H M w cnt acc hy1 hm1 hm2 hd1 hd2 hH hM h _ hfu
    have hnb := getNdom_bounds y m hm1 hm2
    rw [mnlyLoop_succ]
    by_cases hA : ¬ cnt < c.nti
    · rw [if_pos hA]; exact ⟨acc, cnt, _, rfl, h⟩
    rw [if_neg hA]
    by_cases hY : y > subMaxYear
    · rw [if_pos hY]; exact ⟨acc, cnt, _, rfl, h⟩
    rw [if_neg hY]
    by_cases hU : ltP c.r.untl (mkInst y m d H M 0 c.proto.ms) = true
    · rw [if_pos hU]; exact ⟨acc, cnt, _, rfl, h⟩
    rw [if_neg hU]
    have hy2 : y ≤ 2099 := by simp only [subMaxYear] at hY; omega
    have hB := mnlyBody_spec c secs hts hi1 hi2 hms y m d H M w (getNdom y m) cnt acc hy1 (by omega)
      hm1 hm2 hd1 hd2 hH hM h
    generalize mnlyBody c secs y m d H M w (getNdom y m) cnt acc = bd at hB ⊢
    obtain ⟨cnt1, acc1, fin, inc⟩ := bd
    obtain ⟨hB1, hB2, hB3⟩ := hB
    simp only at hB1 hB2 hB3 ⊢
    by_cases hF : fin = true
    · rw [if_pos hF]; exact ⟨acc1, cnt1, _, rfl, hB1⟩
    rw [if_neg hF]
    have e : (M + inc) % u32 = M + inc := by simp only [u32]; omega
    rw [e]
    clear e
    have eH : (H + (M + inc) / 60) % u32 = H + (M + inc) / 60 := by simp only [u32]; omega
    have hP : 1440 * dn y m d + 60 * H + M ≤ 1106785439 := by
      have hcum := cum_le y m hm2
      unfold dn; omega
    simp only [mnlyStep, eH]
    clear eH
    by_cases hC : M + inc ≥ 60
    · rw [if_pos hC]
      by_cases hD : H + (M + inc) / 60 ≥ 24
      · rw [if_pos hD]
        obtain ⟨y', m', d', he, h1, h2, h3, h4, h5, h6, h7⟩ :=
          dayAdv y m d ((H + (M + inc) / 60) / 24) hy2 hm1 hm2 hd1 hd2 (by omega)
        simp only [he]
        have hnb' := getNdom_bounds y' m' h1 h2
        refine ih y' m' d' ((H + (M + inc) / 60) % 24) ((M + inc) % 60) _ cnt1 acc1 (by omega) h1 h2 h3 h4
          (by omega) (by omega) ?_ (by omega) (by omega)
        refine hB1.mono ?_
        simp only [ck]
        omega
      · rw [if_neg hD]
        refine ih y m d (H + (M + inc) / 60) ((M + inc) % 60) w cnt1 acc1 hy1 hm1 hm2 hd1 hd2 (by omega)
          (by omega) ?_ (by omega) (by omega)
        refine hB1.mono ?_
        simp only [ck]
        omega
    · rw [if_neg hC]
      refine ih y m d H (M + inc) w cnt1 acc1 hy1 hm1 hm2 hd1 hd2 hH (by omega) ?_ (by omega) (by omega)
      refine hB1.mono ?_
      simp only [ck]
      omega

/-! ### the filler -/

theorem fillMnly_spec (r : Rule) (p : Inst) (n : Nat) (hr : WfRule r) (hp : WfInst p) (hn : n ≤ 64) :
    ∃ l, fillMnly r p n = some l ∧ FillOk r p n l := by
  have hnil : ∃ l, some ([] : List Inst) = some l ∧ FillOk r p n l := ⟨[], rfl, fillOk_nil r p n⟩
  obtain ⟨hy1, hy2⟩ := hp.year
  obtain ⟨hm1, hm2⟩ := hp.month
  obtain ⟨hd1, hd2⟩ := hp.day
  have hnb := getNdom_bounds p.y p.m hm1 hm2
  unfold fillMnly
  cases hcap : capNti r n with
  | none => exact hnil
  | some k =>
    obtain ⟨hk1, hk2⟩ := capNti_le r n k hr.count hn hcap
    simp only []
    rw [if_neg (by simp [hr.scale])]
    have hHM : ∃ H0 M0, (if p.H = allDay then (0, 0) else (p.H, p.M)) = (H0, M0) ∧ H0 < 24 ∧ M0 < 60 := by
      rcases hp.time with ⟨h, _, _⟩ | ⟨h, h', _⟩
      · rw [if_pos h]; exact ⟨0, 0, rfl, by omega, by omega⟩
      · have : ¬ p.H = allDay := by simp only [allDay]; omega
        rw [if_neg this]; exact ⟨p.H, p.M, rfl, h, h'⟩
    obtain ⟨H0, M0, hHM, hH, hM⟩ := hHM
    rw [hHM]
    simp only []
    rw [if_neg (by omega)]
    have hi := mkSubCtx_inter r p k hr
    have e2 : r.inter % u32 = r.inter := by
      have := hr.inter
      simp only [u32]; omega
    rw [if_neg (by rw [e2]; have := hr.inter; omega)]
    split
    · exact hnil
    · have hsome := mnlyReach_some (mkSubCtx r p k) 1440 0 (H0 * 60 + M0) (by omega) (by omega)
      cases hre : mnlyReach (mkSubCtx r p k) 1440 0 (H0 * 60 + M0) with
      | none => rw [hre] at hsome; simp at hsome
      | some b =>
        cases b with
        | false => exact hnil
        | true =>
          simp only []
          have hS := subEnum_S r p hr hp
          have hts : (mkSubCtx r p k).e.S.zipIdx.Pairwise (fun a b => a.1 < b.1) ∧
              ∀ t ∈ (mkSubCtx r p k).e.S.zipIdx, t.1 < 60 :=
            ⟨zipIdx_asc _ hS.1, fun t ht => hS.2 t.1 (List.fst_mem_of_mem_zipIdx ht)⟩
          obtain ⟨acc', cnt', b, he, hacc⟩ := mnlyLoop_spec (mkSubCtx r p k) (mkSubCtx r p k).e.S.zipIdx hts
            hi.1 hi.2 hp.ms (mnlyFuel p.y) p.y p.m p.d H0 M0 (ymdGetWday p.y p.m p.d) 0 []
            hy1 hm1 hm2 hd1 hd2 hH hM (AccOk.nil _ _ _ _) (by unfold mnlyFuel; omega)
            (by unfold mnlyFuel dn; omega)
          rw [he]
          exact ⟨acc'.reverse, rfl, hacc.fill hk1 hk2⟩

theorem fillMnly_total (r : Rule) (p : Inst) (n : Nat) (hr : WfRule r) (hp : WfInst p) (hn : n ≤ 64) :
    (fillMnly r p n).isSome := by
  obtain ⟨l, h, _⟩ := fillMnly_spec r p n hr hp hn
  rw [h]; rfl

theorem fillMnly_ok (r : Rule) (p : Inst) (n : Nat) (l : List Inst) (hr : WfRule r) (hp : WfInst p) (hn : n ≤ 64)
    (h : fillMnly r p n = some l) : FillOk r p n l := by
  obtain ⟨l', h', hok⟩ := fillMnly_spec r p n hr hp hn
  rw [h] at h'
  cases h'
  exact hok

/-! ### the pieces of `FillOk`, one by one -/

section pieces
variable (r : Rule) (p : Inst) (n : Nat) (l : List Inst) (hr : WfRule r) (hp : WfInst p) (hn : n ≤ 64)
  (h : fillMnly r p n = some l)
include hr hp hn h

theorem fillMnly_len_nti : l.length ≤ n := (fillMnly_ok r p n l hr hp hn h).len_nti
theorem fillMnly_len_count : 0 ≤ r.count → (l.length : Int) ≤ r.count := (fillMnly_ok r p n l hr hp hn h).len_count
theorem fillMnly_le_until : ∀ x ∈ l, ltP r.untl x = false := (fillMnly_ok r p n l hr hp hn h).le_until
theorem fillMnly_ge_proto : ∀ x ∈ l, ltP x p = false := (fillMnly_ok r p n l hr hp hn h).ge_proto
theorem fillMnly_wf : ∀ x ∈ l, WfInst x := (fillMnly_ok r p n l hr hp hn h).wf
theorem fillMnly_ascending : l.Pairwise (fun a b => ltP a b = true) := (fillMnly_ok r p n l hr hp hn h).ascending

end pieces

end Echse.Lemmas.RrMnlyOk
