/-
  Daemon model: the per-user map `absMap` (uid ↦ owner of the in-table task), the effect of `inject` /
  `eject` on it, isolation of requests, who a request may act for, replies of `cmd_ical`, the HTTP
  listing gate.  Used by C11.
-/
import Echse.Lemmas.Daemon4
namespace Echse.Daemon

/-! ### the per-user map -/

/-- the abstract map: uid ↦ owner of the in-table task -/
def absMap (s : St) (uid : String) : Option Nat := (s.find uid).map (·.owner)

theorem absMap_eq_some_iff {s : St} (h : Inv s) {k : String} {o : Nat} :
    absMap s k = some o ↔ ∃ t ∈ s.tasks, t.inTable = true ∧ t.uid = k ∧ t.owner = o := by
  unfold absMap
  constructor
  · intro hm
    cases hf : s.find k with
    | none => rw [hf] at hm; cases hm
    | some t =>
      rw [hf] at hm
      obtain ⟨h1, h2, h3⟩ := find_some hf
      exact ⟨t, h1, h2, h3, by simpa using hm⟩
  · rintro ⟨t, h1, h2, h3, h4⟩
    rw [(find_eq_some_iff h).mpr ⟨h1, h2, h3⟩]
    simp [h4]

theorem absMap_eq_none_iff {s : St} {k : String} : absMap s k = none ↔ s.find k = none := by
  unfold absMap; cases s.find k <;> simp

/-- two states whose in-table records agree on (uid, owner) have the same map -/
theorem absMap_congr {s s' : St} (h : Inv s) (h' : Inv s') {k : String}
    (hiff : ∀ o, (∃ t ∈ s'.tasks, t.inTable = true ∧ t.uid = k ∧ t.owner = o) ↔
      (∃ t ∈ s.tasks, t.inTable = true ∧ t.uid = k ∧ t.owner = o)) : absMap s' k = absMap s k := by
  apply Option.ext
  intro o
  rw [absMap_eq_some_iff h, absMap_eq_some_iff h', hiff]

/-! ### effect of `inject` -/

theorem inject_ok_iff {s : St} (uid : String) (owner : Option Nat) (ms dur : Nat) (occ : List Nat)
    (isTask : Bool) (peer : Nat) :
    (inject s uid owner ms dur occ isTask peer).2 = true ↔
      isTask = true ∧ uid ≠ "" ∧
        ∃ e, effOwner s owner peer = some e ∧ (absMap s uid = none ∨ absMap s uid = some e) := by
  rw [inject_eq]
  unfold injectSpec
  cases he : effOwner s owner peer with
  | none => simp
  | some e =>
    simp only [injectAs, absMap]
    cases isTask with
    | false => simp
    | true =>
      by_cases hu : uid = ""
      · simp [hu]
      have hue : (uid == "") = false := by simpa using hu
      simp only [hue, Bool.not_true, Bool.or_false, Bool.false_eq_true, if_false, true_and, Option.some.injEq,
        exists_eq_left', ne_eq, hu, not_false_eq_true]
      cases hf : s.find uid with
      | none => simp
      | some old =>
        simp only [Option.map_some, Option.some.injEq, reduceCtorEq, false_or]
        by_cases ho : old.owner = e
        · simp [ho]
        · simp [ho]

/-- a failed `inject` changes nothing -/
theorem inject_fail {s : St} (uid : String) (owner : Option Nat) (ms dur : Nat) (occ : List Nat)
    (isTask : Bool) (peer : Nat) (hf : (inject s uid owner ms dur occ isTask peer).2 = false) :
    (inject s uid owner ms dur occ isTask peer).1 = s := by
  rw [inject_eq] at hf ⊢
  unfold injectSpec at hf ⊢
  cases he : effOwner s owner peer with
  | none => rfl
  | some e =>
    rw [he] at hf
    simp only [injectAs] at hf ⊢
    split
    · rfl
    · rename_i hit
      rw [if_neg hit] at hf
      cases hfd : s.find uid with
      | none => rw [hfd] at hf; cases hf
      | some old =>
        rw [hfd] at hf
        simp only [] at hf ⊢
        split
        · rfl
        · rename_i ho; rw [if_neg ho] at hf; cases hf

/-- `add_new`: a successful `inject` of a uid not in the map adds exactly that key, owned by the effective
owner -/
theorem inject_add_new {s : St} (h : Inv s) (uid : String) (owner : Option Nat) (ms dur : Nat) (occ : List Nat)
    (peer e : Nat) (hs : occ.Pairwise (· ≤ ·)) (he : effOwner s owner peer = some e)
    (hnew : absMap s uid = none) (hu : uid ≠ "") :
    (inject s uid owner ms dur occ true peer).2 = true ∧
    ∀ k, absMap (inject s uid owner ms dur occ true peer).1 k = if k = uid then some e else absMap s k := by
  have hue : (uid == "") = false := by simpa using hu
  have hok : (inject s uid owner ms dur occ true peer).2 = true :=
    (inject_ok_iff uid owner ms dur occ true peer).mpr ⟨rfl, hu, e, he, Or.inl hnew⟩
  refine ⟨hok, ?_⟩
  have hinv' := Inv_inject h uid owner ms dur occ true peer hs
  have hfn : s.find uid = none := absMap_eq_none_iff.mp hnew
  have hmem : ∀ t, t ∈ (inject s uid owner ms dur occ true peer).1.tasks ↔
      t ∈ s.tasks ∨ t = loaded s (fresh s.nextSid uid e ms dur occ) := by
    intro t
    rw [inject_eq]
    simp only [injectSpec, he, injectAs, hue, Bool.or_false, Bool.not_true, Bool.false_eq_true, if_false, hfn,
      List.mem_append, List.mem_singleton]
  have hk := loaded_keeps s (fresh s.nextSid uid e ms dur occ)
  intro k
  apply Option.ext
  intro o
  rw [absMap_eq_some_iff hinv']
  by_cases hku : k = uid
  · subst hku
    simp only [if_true, Option.some.injEq]
    constructor
    · rintro ⟨t, ht, hi, hu, ho⟩
      rcases (hmem t).mp ht with ht | rfl
      · exact absurd hu (find_eq_none_iff.mp hfn t ht hi)
      · rw [← ho, hk.2.2.2.2.1]; rfl
    · intro heo
      exact ⟨_, (hmem _).mpr (Or.inr rfl), hk.2.2.1, hk.2.1, by rw [hk.2.2.2.2.1, ← heo]; rfl⟩
  · rw [if_neg hku, absMap_eq_some_iff h]
    constructor
    · rintro ⟨t, ht, hi, hu, ho⟩
      rcases (hmem t).mp ht with ht | rfl
      · exact ⟨t, ht, hi, hu, ho⟩
      · rw [hk.2.1] at hu; exact absurd hu.symm hku
    · rintro ⟨t, ht, hi, hu, ho⟩
      exact ⟨t, (hmem t).mpr (Or.inl ht), hi, hu, ho⟩

/-- `replace_own`: a successful `inject` of a uid in the map (necessarily owned by the effective owner)
leaves the map as it is; the entry carries the new stream and limit -/
theorem inject_replace_own {s : St} (h : Inv s) (uid : String) (owner : Option Nat) (ms dur : Nat)
    (occ : List Nat) (peer e : Nat) (hs : occ.Pairwise (· ≤ ·)) (he : effOwner s owner peer = some e)
    (hown : absMap s uid = some e) :
    (inject s uid owner ms dur occ true peer).2 = true ∧
    (∀ k, absMap (inject s uid owner ms dur occ true peer).1 k = absMap s k) ∧
    ∃ t', (inject s uid owner ms dur occ true peer).1.find uid = some t' ∧ t'.maxSimul = ms ∧
      t'.occ = occ.dropWhile (· < s.now) := by
  obtain ⟨old, hom, hoi, hou, hoo⟩ := (absMap_eq_some_iff h).mp hown
  -- a uid the table holds is a usable one
  have hu : uid ≠ "" := by rw [← hou]; exact h.uidNe old hom
  have hok : (inject s uid owner ms dur occ true peer).2 = true :=
    (inject_ok_iff uid owner ms dur occ true peer).mpr ⟨rfl, hu, e, he, Or.inr hown⟩
  have hue : (uid == "") = false := by simpa using hu
  have hinv' := Inv_inject h uid owner ms dur occ true peer hs
  have hfo : s.find uid = some old := (find_eq_some_iff h).mpr ⟨hom, hoi, hou⟩
  have hk := loaded_keeps s (replaced old e ms dur occ)
  have hmem : ∀ t, t ∈ (inject s uid owner ms dur occ true peer).1.tasks ↔
      (t ∈ s.tasks ∧ t.sid ≠ old.sid) ∨ t = loaded s (replaced old e ms dur occ) := by
    intro t
    rw [inject_eq]
    simp only [injectSpec, he, injectAs, hue, Bool.or_false, Bool.not_true, Bool.false_eq_true, if_false, hfo, hoo,
      ne_eq, not_true_eq_false]
    rw [mem_upd, hk.1]
    constructor
    · rintro (h1 | ⟨h1, _⟩)
      · exact Or.inl h1
      · exact Or.inr h1
    · rintro (h1 | h1)
      · exact Or.inl h1
      · exact Or.inr ⟨h1, old, hom, rfl⟩
  refine ⟨hok, ?_, ?_⟩
  · intro k
    apply absMap_congr h hinv'
    intro o
    constructor
    · rintro ⟨t, ht, hi, hu, ho⟩
      rcases (hmem t).mp ht with ⟨ht, _⟩ | rfl
      · exact ⟨t, ht, hi, hu, ho⟩
      · exact ⟨old, hom, hoi, by rw [← hu, hk.2.1]; rfl, by rw [← ho, hk.2.2.2.2.1]; exact hoo⟩
    · rintro ⟨t, ht, hi, hu, ho⟩
      by_cases hts : t.sid = old.sid
      · have : t = old := h.sidU.inj ht hom hts
        subst this
        exact ⟨_, (hmem _).mpr (Or.inr rfl), hk.2.2.1.trans hoi, by rw [hk.2.1]; exact hu,
          by rw [hk.2.2.2.2.1, ← ho]; exact hoo.symm⟩
      · exact ⟨t, (hmem t).mpr (Or.inl ⟨ht, hts⟩), hi, hu, ho⟩
  · refine ⟨loaded s (replaced old e ms dur occ), ?_, hk.2.2.2.2.2.1, loaded_occ _ _⟩
    rw [find_eq_some_iff hinv']
    exact ⟨(hmem _).mpr (Or.inr rfl), hk.2.2.1.trans hoi, hk.2.1.trans hou⟩

/-! ### effect of `eject` -/

theorem eject_ok_iff {s : St} (uid : String) (peer : Nat) :
    (eject s uid peer).2 = true ↔ absMap s uid = some peer := by
  unfold eject absMap
  cases hf : s.find uid with
  | none => simp
  | some t =>
    simp only [Option.map_some, Option.some.injEq]
    by_cases ho : t.owner = peer
    · simp only [ho, ne_eq, not_true_eq_false, if_false, iff_true]
      split <;> rfl
    · simp [ho]

theorem eject_fail {s : St} (uid : String) (peer : Nat) (hf : (eject s uid peer).2 = false) :
    (eject s uid peer).1 = s := by
  unfold eject at hf ⊢
  cases hfd : s.find uid with
  | none => rfl
  | some t =>
    rw [hfd] at hf
    simp only [] at hf ⊢
    split
    · rfl
    · rename_i ho
      rw [if_neg ho] at hf
      split at hf <;> cases hf

/-- `cancel_own`: a successful `eject` removes exactly that key -/
theorem eject_cancel_own {s : St} (h : Inv s) (uid : String) (peer : Nat) (hown : absMap s uid = some peer) :
    (eject s uid peer).2 = true ∧
    ∀ k, absMap (eject s uid peer).1 k = if k = uid then none else absMap s k := by
  refine ⟨(eject_ok_iff uid peer).mpr hown, ?_⟩
  have hinv' := Inv_eject h uid peer
  obtain ⟨t, htm, hti, htu, hto⟩ := (absMap_eq_some_iff h).mp hown
  have hft : s.find uid = some t := (find_eq_some_iff h).mpr ⟨htm, hti, htu⟩
  have hmem : ∀ x, x.inTable = true → (x ∈ (eject s uid peer).1.tasks ↔ x ∈ s.tasks ∧ x.sid ≠ t.sid) := by
    intro x hxi
    unfold eject
    simp only [hft, hto, ne_eq, not_true_eq_false, if_false]
    split
    · rw [mem_upd]
      constructor
      · rintro (h1 | ⟨h1, _⟩)
        · exact h1
        · rw [h1] at hxi; cases hxi
      · intro h1; exact Or.inl h1
    · exact mem_del
  intro k
  apply Option.ext
  intro o
  rw [absMap_eq_some_iff hinv']
  by_cases hku : k = uid
  · subst hku
    simp only [if_true, reduceCtorEq, iff_false]
    rintro ⟨x, hx, hxi, hxu, _⟩
    obtain ⟨hx', hne⟩ := (hmem x hxi).mp hx
    exact hne (by rw [h.uidU x hx' t htm hxi hti (hxu.trans htu.symm)])
  · rw [if_neg hku, absMap_eq_some_iff h]
    constructor
    · rintro ⟨x, hx, hxi, hxu, hxo⟩
      exact ⟨x, ((hmem x hxi).mp hx).1, hxi, hxu, hxo⟩
    · rintro ⟨x, hx, hxi, hxu, hxo⟩
      refine ⟨x, (hmem x hxi).mpr ⟨hx, ?_⟩, hxi, hxu, hxo⟩
      intro hs
      have : x = t := h.sidU.inj hx htm hs
      rw [this, htu] at hxu
      exact hku hxu.symm

/-! ### isolation -/

/-- the owner an instruction acts for -/
def actOwner (s : St) (peer : Nat) : Instr → Option Nat
  | .sched _ owner _ _ _ _ => effOwner s owner peer
  | .cancel _ => some peer

/-- an instruction touches only records of the owner it acts for -/
theorem applyInstr_others {s : St} (h : Inv s) (peer : Nat) (i : Instr) {t : DTask}
    (hne : ∀ e, actOwner s peer i = some e → t.owner ≠ e) :
    t ∈ (applyInstr s peer i).1.tasks ↔ t ∈ s.tasks := by
  cases i with
  | sched uid owner ms dur occ isTask =>
    simp only [applyInstr]
    rw [inject_eq]
    unfold injectSpec
    cases he : effOwner s owner peer with
    | none => rfl
    | some e =>
      have hte : t.owner ≠ e := hne e he
      simp only [injectAs]
      split
      · rfl
      cases hf : s.find uid with
      | none =>
        simp only [List.mem_append, List.mem_singleton]
        constructor
        · rintro (h1 | h1)
          · exact h1
          · exfalso; apply hte; rw [h1, (loaded_keeps _ _).2.2.2.2.1]; rfl
        · exact Or.inl
      | some old =>
        obtain ⟨hom, _, _⟩ := find_some hf
        simp only []
        split
        · rfl
        · rename_i ho
          have ho' : old.owner = e := by simpa using ho
          rw [mem_upd, (loaded_keeps _ _).1]
          constructor
          · rintro (⟨h1, _⟩ | ⟨h1, _⟩)
            · exact h1
            · exfalso; apply hte; rw [h1, (loaded_keeps _ _).2.2.2.2.1]; rfl
          · intro h1
            left
            refine ⟨h1, ?_⟩
            intro hs
            have : t = old := h.sidU.inj h1 hom hs
            exact hte (by rw [this]; exact ho')
  | cancel uid =>
    have hte : t.owner ≠ peer := hne peer rfl
    simp only [applyInstr, eject]
    cases hf : s.find uid with
    | none => rfl
    | some x =>
      obtain ⟨hxm, _, _⟩ := find_some hf
      simp only []
      split
      · rfl
      · rename_i ho
        have ho' : x.owner = peer := by simpa using ho
        have hsid : ∀ y, y ∈ s.tasks → y.owner ≠ peer → y.sid ≠ x.sid := by
          intro y hy hyo hs
          have : y = x := h.sidU.inj hy hxm hs
          exact hyo (by rw [this]; exact ho')
        split
        · rw [mem_upd]
          constructor
          · rintro (⟨h1, _⟩ | ⟨h1, _⟩)
            · exact h1
            · exfalso; apply hte; rw [h1]; exact ho'
          · intro h1; exact Or.inl ⟨h1, hsid t h1 hte⟩
        · rw [mem_del]
          exact ⟨fun h1 => h1.1, fun h1 => ⟨h1, hsid t h1 hte⟩⟩

/-- a known user: `compl_uid` accepts it -/
def Known (s : St) (p : Nat) : Prop := p ≠ notAUid ∧ s.users.contains p = true

theorem complUid_known {s : St} {p : Nat} (h : Known s p) : complUid s p = p := by
  unfold complUid; exact if_pos h

theorem complUid_unknown {s : St} {p : Nat} (h : ¬ Known s p) : complUid s p = notAUid := by
  unfold complUid; exact if_neg h

/-- a socket peer (any `p` other than "no peer") can only act for itself -/
theorem effOwner_peer {s : St} {p : Nat} (hp : p ≠ notAUid) {owner : Option Nat} {e : Nat}
    (he : effOwner s owner p = some e) : e = p := by
  obtain ⟨hg, hc⟩ := effOwner_some he
  have hcu : complUid s p ≠ notAUid := by
    rcases hg with hg | hg
    · exact absurd hg hp
    · exact hg
  obtain ⟨_, _, _, h4⟩ := effCore_some hc
  rw [(complUid_ne hcu).1] at h4
  rcases h4 with h4 | h4
  · exact absurd h4 hp
  · exact h4.symm

/-- a known peer can only act for itself -/
theorem effOwner_known_peer {s : St} {p : Nat} (hk : Known s p) {owner : Option Nat} {e : Nat}
    (he : effOwner s owner p = some e) : e = p := effOwner_peer hk.1 he

theorem actOwner_peer {s : St} {p : Nat} (hp : p ≠ notAUid) {i : Instr} {e : Nat}
    (he : actOwner s p i = some e) : e = p := by
  cases i with
  | sched uid owner ms dur occ isTask => exact effOwner_peer hp he
  | cancel uid => cases he; rfl

theorem actOwner_known_peer {s : St} {p : Nat} (hk : Known s p) {i : Instr} {e : Nat}
    (he : actOwner s p i = some e) : e = p := actOwner_peer hk.1 he

/-- a given peer the password database does not know is refused -/
theorem inject_unknown_peer {s : St} {p : Nat} (hp : p ≠ notAUid) (hk : ¬ Known s p) (uid : String)
    (owner : Option Nat) (ms dur : Nat) (occ : List Nat) (isTask : Bool) :
    inject s uid owner ms dur occ isTask p = (s, false) := by
  rw [inject_eq]
  unfold injectSpec
  rw [effOwner_refused ⟨hp, complUid_unknown hk⟩]

/-- a whole request of a socket peer: records of other owners are neither added, removed nor changed -/
theorem applyAll_others (p : Nat) : ∀ (ins : List Instr) (s : St), Inv s → p ≠ notAUid →
    (∀ i ∈ ins, instrSorted i) → ∀ t : DTask, t.owner ≠ p →
    (t ∈ (applyAll s p ins).1.tasks ↔ t ∈ s.tasks) := by
  intro ins
  induction ins with
  | nil => intro s _ _ _ t _; rfl
  | cons i r ih =>
    intro s h hk hs t hne
    simp only [applyAll]
    rw [ih _ (Inv_applyInstr h p i (hs i List.mem_cons_self)) hk (fun j hj => hs j (List.mem_cons_of_mem _ hj)) t hne]
    exact applyInstr_others h p i (fun e he => by rw [actOwner_peer hk he]; exact hne)

theorem cmdIcal_tasks (s : St) (p : Nat) (ins : List Instr) :
    (cmdIcal s p ins).1.tasks = (applyAll s p ins).1.tasks := by
  rw [cmdIcal_eq]
  simp only []
  split
  · exact addChkpnt_tasks _ _
  · rfl

/-- `isolation`: a request of the socket peer `p` leaves every record owned by somebody else as it is -/
theorem cmdIcal_others {s : St} (h : Inv s) {p : Nat} (hk : p ≠ notAUid) (ins : List Instr)
    (hs : ∀ i ∈ ins, instrSorted i) (t : DTask) (hne : t.owner ≠ p) :
    t ∈ (cmdIcal s p ins).1.tasks ↔ t ∈ s.tasks := by
  rw [cmdIcal_tasks]; exact applyAll_others p ins s h hk hs t hne

/-- … hence the map at every key owned by somebody else -/
theorem cmdIcal_absMap_others {s : St} (h : Inv s) {p : Nat} (hk : p ≠ notAUid) (ins : List Instr)
    (hs : ∀ i ∈ ins, instrSorted i) (k : String) (o : Nat) (hne : o ≠ p) :
    absMap (cmdIcal s p ins).1 k = some o ↔ absMap s k = some o := by
  rw [absMap_eq_some_iff h, absMap_eq_some_iff (Inv_cmdIcal h p ins hs)]
  constructor
  · rintro ⟨t, ht, hi, hu, ho⟩
    exact ⟨t, (cmdIcal_others h hk ins hs t (by rw [ho]; exact hne)).mp ht, hi, hu, ho⟩
  · rintro ⟨t, ht, hi, hu, ho⟩
    exact ⟨t, (cmdIcal_others h hk ins hs t (by rw [ho]; exact hne)).mpr ht, hi, hu, ho⟩

/-- owners in the table are known users; an unknown peer can cancel nothing -/
theorem eject_unknown_fails {s : St} (h : Inv s) {p : Nat} (hk : ¬ Known s p) (uid : String) :
    (eject s uid p).2 = false := by
  cases hok : (eject s uid p).2 with
  | false => rfl
  | true =>
    rw [eject_ok_iff, absMap_eq_some_iff h] at hok
    obtain ⟨t, ht, _, _, ho⟩ := hok
    have := (h.tinv' ht).owner_ok
    rw [ho] at this
    exact absurd this hk

/-! ### who a request may act for -/

theorem effCore_root {s : St} (hme : s.me = 0) (oc uc e : Nat) :
    effCore s oc uc = some e ↔
      e ≠ notAUid ∧ ((uc = e ∧ (oc = notAUid ∨ oc = e)) ∨ (uc = notAUid ∧ oc = e)) := by
  unfold effCore
  by_cases h1 : uc = notAUid <;> by_cases h2 : oc = notAUid <;> by_cases h3 : oc = uc <;>
    simp_all <;> grind

theorem effCore_user {s : St} (hme : s.me ≠ 0) (oc uc e : Nat) :
    effCore s oc uc = some e ↔
      e ≠ notAUid ∧ ((uc = e ∧ oc = e) ∨ (uc = e ∧ oc = notAUid ∧ e = s.me) ∨
        (uc = notAUid ∧ oc = e ∧ e = s.me)) := by
  unfold effCore
  by_cases h1 : uc = notAUid <;> by_cases h2 : oc = notAUid <;> by_cases h3 : oc = uc <;>
    by_cases h4 : oc = s.me <;> by_cases h5 : uc = s.me <;> simp_all <;> grind

theorem effOwner_gate {s : St} (owner : Option Nat) (peer : Nat) (e : Nat) :
    effOwner s owner peer = some e ↔
      (peer = notAUid ∨ complUid s peer ≠ notAUid) ∧ effCore s (ownerC s owner) (complUid s peer) = some e := by
  constructor
  · exact effOwner_some
  · rintro ⟨hg, hc⟩
    rw [effOwner_core (fun c => by rcases hg with hg | hg; exact c.1 hg; exact hg c.2)]
    exact hc

theorem complUid_notAUid (s : St) : complUid s notAUid = notAUid := by
  unfold complUid; exact if_neg (fun c => c.1 rfl)

theorem effOwner_root' {s : St} (hme : s.me = 0) (owner : Option Nat) (peer e : Nat) :
    effOwner s owner peer = some e ↔
      e ≠ notAUid ∧ ((complUid s peer = e ∧ (ownerC s owner = notAUid ∨ ownerC s owner = e)) ∨
        (peer = notAUid ∧ ownerC s owner = e)) := by
  rw [effOwner_gate, effCore_root hme]
  constructor
  · rintro ⟨hg, he, h1 | ⟨h1, h2⟩⟩
    · exact ⟨he, Or.inl h1⟩
    · rcases hg with hg | hg
      · exact ⟨he, Or.inr ⟨hg, h2⟩⟩
      · exact absurd h1 hg
  · rintro ⟨he, ⟨h1, h2⟩ | ⟨h1, h2⟩⟩
    · exact ⟨Or.inr (by rw [h1]; exact he), he, Or.inl ⟨h1, h2⟩⟩
    · exact ⟨Or.inl h1, he, Or.inr ⟨by rw [h1]; exact complUid_notAUid s, h2⟩⟩

theorem effOwner_user' {s : St} (hme : s.me ≠ 0) (owner : Option Nat) (peer e : Nat) :
    effOwner s owner peer = some e ↔
      e ≠ notAUid ∧ ((complUid s peer = e ∧ ownerC s owner = e) ∨
        (complUid s peer = e ∧ ownerC s owner = notAUid ∧ e = s.me) ∨
        (peer = notAUid ∧ ownerC s owner = e ∧ e = s.me)) := by
  rw [effOwner_gate, effCore_user hme]
  constructor
  · rintro ⟨hg, he, h1 | h1 | ⟨h1, h2⟩⟩
    · exact ⟨he, Or.inl h1⟩
    · exact ⟨he, Or.inr (Or.inl h1)⟩
    · rcases hg with hg | hg
      · exact ⟨he, Or.inr (Or.inr ⟨hg, h2⟩)⟩
      · exact absurd h1 hg
  · rintro ⟨he, ⟨h1, h2⟩ | ⟨h1, h2⟩ | ⟨h1, h2⟩⟩
    · exact ⟨Or.inr (by rw [h1]; exact he), he, Or.inl ⟨h1, h2⟩⟩
    · exact ⟨Or.inr (by rw [h1]; exact he), he, Or.inr (Or.inl ⟨h1, h2⟩)⟩
    · exact ⟨Or.inl h1, he, Or.inr (Or.inr ⟨by rw [h1]; exact complUid_notAUid s, h2⟩)⟩

/-! ### replies -/

theorem applyAll_cons (s : St) (p : Nat) (i : Instr) (r : List Instr) :
    applyAll s p (i :: r) = ((applyAll (applyInstr s p i).1 p r).1,
      (instrUid i, (applyInstr s p i).2) :: (applyAll (applyInstr s p i).1 p r).2) := rfl

theorem cmdIcal_replies (s : St) (p : Nat) (ins : List Instr) : (cmdIcal s p ins).2 = (applyAll s p ins).2 := by
  rw [cmdIcal_eq]

theorem applyAll_length (p : Nat) : ∀ (ins : List Instr) (s : St), (applyAll s p ins).2.length = ins.length := by
  intro ins
  induction ins with
  | nil => intro s; rfl
  | cons i r ih => intro s; rw [applyAll_cons]; simp [ih]

/-- the `n`-th reply answers the `n`-th instruction, applied to the state the first `n` instructions left -/
theorem applyAll_nth (p : Nat) : ∀ (ins : List Instr) (s : St) (n : Nat) (hn : n < ins.length),
    (applyAll s p ins).2[n]? =
      some (instrUid ins[n], (applyInstr (applyAll s p (ins.take n)).1 p ins[n]).2) := by
  intro ins
  induction ins with
  | nil => intro s n hn; cases hn
  | cons i r ih =>
    intro s n hn
    rw [applyAll_cons]
    cases n with
    | zero => simp [applyAll]
    | succ n =>
      simp only [List.getElem?_cons_succ, List.take_succ_cons, List.getElem_cons_succ]
      rw [ih (applyInstr s p i).1 n (by simpa using hn), applyAll_cons]

theorem applyInstr_ok_iff (s : St) (p : Nat) (i : Instr) :
    (applyInstr s p i).2 = true ↔
      match i with
      | .sched uid owner _ _ _ isTask =>
        isTask = true ∧ uid ≠ "" ∧
          ∃ e, effOwner s owner p = some e ∧ (absMap s uid = none ∨ absMap s uid = some e)
      | .cancel uid => absMap s uid = some p := by
  cases i with
  | sched uid owner ms dur occ isTask => exact inject_ok_iff uid owner ms dur occ isTask p
  | cancel uid => exact eject_ok_iff uid p

theorem applyInstr_fail (s : St) (p : Nat) (i : Instr) (hf : (applyInstr s p i).2 = false) :
    (applyInstr s p i).1 = s := by
  cases i with
  | sched uid owner ms dur occ isTask => exact inject_fail uid owner ms dur occ isTask p hf
  | cancel uid => exact eject_fail uid p hf

/-! ### loop iterations, child exits and checkpoints only retire entries -/

theorem absMap_step_nonreq {s : St} (h : Inv s) (op : Op) (hop : OpOk s op) (hnr : op.isReq = false)
    {k : String} {o : Nat} (hm : absMap (step s op).1 k = some o) : absMap s k = some o := by
  unfold absMap at hm ⊢
  cases hf' : (step s op).1.find k with
  | none => rw [hf'] at hm; cases hm
  | some t' =>
    rw [hf'] at hm
    obtain ⟨t, hf, _, ho, _⟩ := find_step_nonreq h op hop hnr hf'
    rw [hf]
    simp only [Option.map_some, Option.some.injEq] at hm ⊢
    rw [← ho]; exact hm

/-- every spawn runs as the owner recorded in the map -/
theorem spawn_asUid {s : St} {now : Nat} {ko : Option Nat} (h : Inv s) {sp : Spawn}
    (hsp : sp ∈ (iter s now ko).2) : absMap s sp.uid = some sp.asUid := by
  obtain ⟨t, htm, hit, _, _, _, _, _, he⟩ := spawn_char h hsp
  rw [absMap_eq_some_iff h]
  exact ⟨t, htm, hit, by rw [he], by rw [he]⟩

/-! ### the HTTP listing -/

/-- a known peer other than root is either refused (403) or shown tasks of its own only, whatever uid the
URL names -/
theorem httpSched_own {s : St} {p : Nat} (hk : Known s p) (hp : p ≠ 0) (urlUid : Option Nat) (tuids : List String) :
    httpSched s p urlUid tuids = (403, []) ∨
    ((httpSched s p urlUid tuids).1 = 200 ∧
      ∀ uid ∈ (httpSched s p urlUid tuids).2, ∃ t ∈ s.tasks, t.inTable = true ∧ t.owner = p ∧ t.uid = uid) := by
  unfold httpSched
  simp only [complUid_known hk, if_neg hk.1]
  split
  · exact Or.inl rfl
  · rename_i hu
    right
    have hu' : p &&& urlUid.getD notAUid = p := by simpa using hu
    refine ⟨rfl, ?_⟩
    simp only [hu', ne_eq, hp, not_false_eq_true, if_true]
    have hmine : ∀ uid ∈ (s.tasks.filter fun t => t.inTable && t.owner == p).map (·.uid),
        ∃ t ∈ s.tasks, t.inTable = true ∧ t.owner = p ∧ t.uid = uid := by
      intro uid hm
      rw [List.mem_map] at hm
      obtain ⟨t, ht, rfl⟩ := hm
      rw [List.mem_filter] at ht
      simp only [Bool.and_eq_true, beq_iff_eq] at ht
      exact ⟨t, ht.1, ht.2.1, ht.2.2, rfl⟩
    intro uid hm
    split at hm
    · exact hmine uid hm
    · rw [List.mem_filter] at hm
      exact hmine uid (by simpa using hm.2)

end Echse.Daemon
