"""C05 — tasks are read as written and survive serialisation unchanged.

Two oracles on the real code (harness hx_strm, ops p.parse and p.rt):
  * field mapping: generated events with random subsets of the README's properties (and calendar-level X-ECHS-* defaults)
    must parse into exactly the attributes the text assigns, whatever else is present;
  * round trip: the task is read, k occurrences are consumed, the task is written out with echs_task_icalify() (what echsq,
    the daemon's checkpoint and `echse merge' use) and read back: same attributes, and the re-read stream yields exactly the
    occurrences (and durations) the original stream still had to give.
The rule text layer (send_rrul / snarf_rrule) is additionally compared with the Lean model Echse.Model.RrText.
"""
import collections
import datetime as dt
import re

from . import common, p_strm, p_rr, p_rrtext, rrgen, rfc5545
from .p_C16 import gen_ext

FIELDS = {
    # text property -> (dump key, value generator)
    "SUMMARY": ("cmd", lambda r: r.choice(["echo hello", "/usr/bin/true", "sh -c 'a;b'", "x" * r.choice([1, 100, 600])])),
    "DESCRIPTION": ("desc", lambda r: r.choice(["nightly job", "d"])),
    "LOCATION": ("wd", lambda r: r.choice(["/tmp", "/var/tmp/x y", "/"])),
    "X-ECHS-SHELL": ("sh", lambda r: r.choice(["/bin/sh", "/bin/bash"])),
    "X-ECHS-IFILE": ("in", lambda r: r.choice(["/dev/null", "/tmp/in"])),
    "X-ECHS-OFILE": ("out", lambda r: r.choice(["/tmp/out", "/dev/null"])),
    "X-ECHS-EFILE": ("err", lambda r: r.choice(["/tmp/err"])),
    "ORGANIZER": ("org", lambda r: r.choice(["echse@example.com", "mailto:boss@example.com"])),
}


def esc(v):
    out = ""
    for ch in v:
        if ch in "|}\n \\" or ord(ch) < 32:
            out += "\\x%02x" % ord(ch)
        else:
            out += ch
    return out


def gen_event(rng, uid, with_rule=True, zoned=None):
    """-> (lines of the VEVENT, expected field dict, meta)"""
    exp = {"uid": uid, "cmd": "~", "desc": "~", "wd": "~", "sh": "~", "in": "~", "out": "~", "err": "~", "org": "~", "att": [],
           "mail": [0, 0, 0, 0, 0, 0], "umsk": None, "maxsim": None, "owner": None, "u": None, "g": None}
    lines = ["UID:%s" % uid]
    props = []
    big = rng.random() < 0.04
    for k in (sorted(FIELDS) if big else rng.sample(sorted(FIELDS), rng.randint(0, len(FIELDS)))):
        key, g = FIELDS[k]
        v = g(rng)
        if big and not v.startswith("mailto:") and key not in ("org",):
            # values near the parser's line limit: the task takes more than one 4 KiB buffer to write out
            v = (v + "/" + "".join(rng.choice("abcdefghijklmnopqrstuvwxyz0123456789._-") for _ in range(rng.randint(600, 880))))[:940]
        props.append("%s:%s" % (k, v))
        exp[key] = esc(v[7:] if v.startswith("mailto:") else v)
    for _ in range(rng.choice([0, 0, 1, 2, 3])):
        a = rng.choice(["root", "ops@example.com", "mailto:a@b.c"])
        props.append("ATTENDEE:" + a)
        exp["att"].append(a[7:] if a.startswith("mailto:") else a)
    for k, i in (("X-ECHS-MAIL-OUT", 0), ("X-ECHS-MAIL-ERR", 2), ("X-ECHS-MAIL-RUN", 4)):
        if rng.random() < 0.3:
            v = rng.choice(["0", "1", "false", "true"])
            props.append("%s:%s" % (k, v))
            exp["mail"][i] = 0 if v[0] in "0fF" else 1
            exp["mail"][i + 1] = 1
    if rng.random() < 0.3:
        v = rng.choice([0, 0o22, 0o27, 0o77, 0o777])
        props.append("X-ECHS-UMASK:0%o" % v)
        exp["umsk"] = v
    if rng.random() < 0.3:
        v = rng.choice([0, 1, 2, 5, 61, 8, 10])
        # (a decimal count: a leading zero does not make it octal)
        props.append("X-ECHS-MAX-SIMUL:%s%d" % ("0" if rng.random() < 0.3 else "", v))
        exp["maxsim"] = v
    if rng.random() < 0.25:
        v = rng.choice(["1001", "nobody", "0"])
        props.append("X-ECHS-SETUID:" + v)
        exp["u"] = v
    if rng.random() < 0.2:
        v = rng.choice(["100", "users"])
        props.append("X-ECHS-SETGID:" + v)
        exp["g"] = v
    if rng.random() < 0.15:
        v = rng.choice(["1001", "alice"])
        props.append("X-ECHS-OWNER:" + v)
        exp["owner"] = v
    if rng.random() < 0.4:
        props.append(rng.choice(["STATUS:CONFIRMED", "CATEGORIES:a,b", "X-UNKNOWN;P=1:v", "CLASS:PUBLIC", "SEQUENCE:3", "PRIORITY:5"]))
    # the schedule
    ds = rrgen.gen_dtstart(rng, allday=False if zoned else None, lo=1975 if zoned else 1950, hi=2030 if zoned else 2080)
    dstxt = rrgen.dtstart_text(ds)
    if zoned:
        sched = ["DTSTART;TZID=%s:%s" % (zoned, dstxt)]
    elif ds[3] is None:
        sched = ["DTSTART;VALUE=DATE:%s" % dstxt]
    else:
        sched = ["DTSTART:%sZ" % dstxt]
    z = rng.random()
    dur = None
    if ds[3] is not None and z < 0.4:
        dur = rng.choice([60, 300, 3600, 5400, 86400])
        d, rem = divmod(dur, 86400)
        h, rem = divmod(rem, 3600)
        mi, s = divmod(rem, 60)
        sched.append("DURATION:P%s%s" % ("%dD" % d if d else "", ("T" + ("%dH" % h if h else "") + ("%dM" % mi if mi else "") + ("%dS" % s if s else "")) if rem or h else ""))
    meta = {"ds": ds, "rules": [], "cls": set(), "zoned": zoned}
    shape = rng.random() if with_rule else 1.0
    if shape < 0.12 and ds[3] is not None:
        # combinations whose written form is recorded as wanting (findings D161..D165): kept apart from the rest
        R = rfc5545.Rule
        wd = dt.date(*ds[:3]).weekday()
        kind = rng.choice(["count-shared", "exrule-count", "rdate-exrule", "dst-gap-writeout"] if not zoned else ["dst-gap-writeout"])
        if kind == "count-shared":
            # every rule begins with DTSTART: the rules share that instant
            a, b = R(rng.choice(["YEARLY", "MONTHLY", "WEEKLY"])), R(rng.choice(["DAILY", "HOURLY"]))
            a.count, b.count = rng.choice([2, 3, 7]), rng.choice([3, 5, 9])
            sched += ["RRULE:" + a.text(), "RRULE:" + b.text()]
            meta["rules"] += [a, b]
        elif kind == "exrule-count":
            a, x = R("DAILY"), R("DAILY")
            a.count = rng.choice([20, 30])
            x.byday, x.count = [(0, (wd + 1) % 7), (0, (wd + 3) % 7)], rng.choice([2, 3, 4])
            sched += ["RRULE:" + a.text(), "EXRULE:" + x.text()]
            meta["rules"].append(a); meta["xrule"] = x
        elif kind == "rdate-exrule":
            a, x = R("YEARLY"), R("WEEKLY")
            x.byday = [(0, (wd + 2) % 7)]
            d0 = dt.date(*ds[:3])
            rd = [d0 + dt.timedelta(days=k) for k in sorted(rng.sample(range(1, 40), 5))] + [d0 + dt.timedelta(days=2), d0 + dt.timedelta(days=9)]
            sched += ["RRULE:" + a.text(), "EXRULE:" + x.text(),
                      "RDATE:" + ",".join("%04d%02d%02d" % (d.year, d.month, d.day) + dstxt[8:] + "Z" for d in sorted(set(rd)) if d.year <= 2098)]
            meta["rules"].append(a); meta["xrule"] = x
        else:
            # a rule in local time written out on the eve of the night the clocks go forward
            zoned = "Europe/Berlin"
            k = rng.choice([1, 2, 5])
            d0 = dt.date(2020, 3, 29) - dt.timedelta(days=k)
            a = R(rng.choice(["DAILY", "DAILY", "HOURLY"]))
            if a.freq == "HOURLY":
                d0, k = dt.date(2020, 3, 28), rng.choice([0, 1, 2])
                sched[0] = "DTSTART;TZID=%s:%04d%02d%02dT223000" % (zoned, d0.year, d0.month, d0.day)
            else:
                sched[0] = "DTSTART;TZID=%s:%04d%02d%02dT023000" % (zoned, d0.year, d0.month, d0.day)
            a.count = 10
            sched.append("RRULE:" + a.text())
            meta["rules"].append(a); meta["zoned"] = zoned; meta["ks"] = [k]
        meta["cls"].add(kind)
    elif with_rule:
        for _ in range(rng.choice([1, 1, 1, 2])):
            r = rrgen.gen_rule(rng, ds)
            ext, cls = gen_ext(rng, r, ds)
            if "hijri" in cls:
                ext = ext.replace(";SCALE=HIJRI", "").replace("SCALE=HIJRI;", "").replace("SCALE=HIJRI", "")
                cls.discard("hijri")
            sched.append("RRULE:" + r.text() + (ext if ext not in (";", "") else ""))
            meta["rules"].append(r)
            meta["cls"] |= cls
        if rng.random() < 0.15:
            # (an exception rule of seconds, minutes or hours makes the filter walk every one of them: finding D167, C09's matter)
            x = rrgen.gen_rule(rng, ds, freq=rng.choice(["YEARLY", "MONTHLY", "WEEKLY", "DAILY"]))
            x.count = None
            sched.append("EXRULE:" + x.text())
            meta["cls"].add("exrule")
            meta["xrule"] = x
        if rng.random() < 0.15:
            sched.append("EXDATE:" + dstxt + ("" if ds[3] is None else "Z"))
            meta["cls"].add("exdate")
        if rng.random() < 0.25 and not zoned:
            # dates next to the rules: one event, one DTSTART
            yrs = list(range(ds[0], min(2098, ds[0] + 30) + 1))
            ys = sorted(rng.sample(yrs, min(len(yrs), rng.randint(1, 5))))
            tail = "%02d%02d" % (rng.randint(1, 12), rng.randint(1, 28)) + dstxt[8:]
            sched.append("RDATE%s:" % (";VALUE=DATE" if ds[3] is None else "") +
                         ",".join("%04d%s" % (y, tail) + ("" if ds[3] is None else "Z") for y in ys))
            meta["cls"].add("rule+rdate")
            if ys[0] == ds[0] and tail[:4] < dstxt[4:8]:
                meta["cls"].add("rdate-before-dtstart")       # recorded shape D208
    elif rng.random() < 0.5:
        n = rng.randint(1, 70)
        ys = sorted(rng.sample(range(ds[0] + 1, ds[0] + 90), min(n, 80)))
        sched.append("RDATE:" + ",".join("%04d%s" % (y, dstxt[4:]) + ("" if ds[3] is None else "Z") for y in ys if y <= 2098))
        meta["cls"].add("rdate")
    body = props + sched
    rng.shuffle(body)
    exp["att"] = [(l[9:][7:] if l[9:].startswith("mailto:") else l[9:]) for l in body if l.startswith("ATTENDEE:")]
    return lines + body, exp, meta


def gen_calendar(rng, i):
    glob = {}
    pro = []
    if rng.random() < 0.3:
        v = rng.choice(["1001", "alice"]); pro.append("X-ECHS-OWNER:" + v); glob["owner"] = v
    if rng.random() < 0.3:
        v = rng.choice([0o22, 0o77]); pro.append("X-ECHS-UMASK:0%o" % v); glob["umsk"] = v
    if rng.random() < 0.3:
        v = rng.choice([1, 3]); pro.append("X-ECHS-MAX-SIMUL:%d" % v); glob["maxsim"] = v
    if rng.random() < 0.3:
        v = rng.choice(["1002", "daemon"]); pro.append("X-ECHS-SETUID:" + v); glob["u"] = v
    if rng.random() < 0.2:
        v = rng.choice(["100", "staff"]); pro.append("X-ECHS-SETGID:" + v); glob["g"] = v
    zoned = rng.choice(["Europe/Berlin", "America/New_York", "Asia/Kolkata"]) if rng.random() < 0.15 else None
    ev, exp, meta = gen_event(rng, "u%d" % i, with_rule=rng.random() < 0.8, zoned=zoned)
    for k, v in glob.items():
        if exp[k] is None:
            exp[k] = v
    text = "\n".join(["BEGIN:VCALENDAR", "VERSION:2.0"] + pro + ["BEGIN:VEVENT"] + ev + ["END:VEVENT", "END:VCALENDAR", ""])
    return text, exp, meta


def nms(v):
    if v is None:
        return ""
    return ("n:%d" % int(v)) if v.isdigit() else "s:" + v


def expect_dump(exp):
    return ("uid=%s|cmd=%s|owner=%s|u=%s|g=%s|wd=%s|sh=%s|in=%s|out=%s|err=%s|mail=%s|umsk=%d|maxsim=%d|org=%s|att=%s|desc=%s" % (
        exp["uid"], exp["cmd"], nms(exp["owner"]), nms(exp["u"]), nms(exp["g"]), exp["wd"], exp["sh"], exp["in"], exp["out"], exp["err"],
        "".join(map(str, exp["mail"])), 1023 if exp["umsk"] is None else exp["umsk"], 63 if exp["maxsim"] is None else exp["maxsim"],
        exp["org"], ",".join("|a=" + esc(a) for a in exp["att"]), exp["desc"]))


def split_rt(ans):
    m = re.match(r"A\{(.*?)\|occ=([^}]*)\} B\{(.*?)(?:\|occ=([^}]*))?\} T\{([0-9a-f]*)\}$", ans)
    if not m:
        return None
    return m.group(1), m.group(2), m.group(3), m.group(4) or "", bytes.fromhex(m.group(5)).decode("latin-1")


def run(ctx):
    rng = ctx.rng
    thorough = ctx.tier == "thorough"
    exe = p_strm.build(ctx)
    n = 1500 if thorough else 350
    cals = [gen_calendar(rng, i) for i in range(n)]
    fails = []
    known = collections.Counter()
    known_classes = {k.get("class") for k in common.load_known("C05") if k.get("status") == "known"}
    # 1. field mapping
    ops = ["p.parse " + t.encode("latin-1").hex() for t, _, _ in cals]
    import time as _time
    _t0 = _time.time(); phases = {}
    impl, st, err = ctx.impl(exe, ops, timeout=300)
    phases["fields"] = round(_time.time() - _t0, 1)
    for i, (t, exp, meta) in enumerate(cals):
        a = impl[i] if i < len(impl) else "<no answer>"
        m = re.match(r"S\{(.*?)\|vtod=", a)
        if not m:
            fails.append((ops[i], "the event is not read as a task: %s\n%s" % (a[:200], t)))
            continue
        want = expect_dump(exp)
        if m.group(1) != want:
            fails.append((ops[i], "attributes read\n   %s\nthe text assigns\n   %s\n%s" % (m.group(1), want, t)))
    # 1b. several events in one text, looked at after all of them have been read (UIDs of every length: they are interned
    #     side by side)
    batches = []
    for b in range(120 if thorough else 40):
        evs = []
        for j in range(rng.randint(2, 6)):
            ln = rng.choice([3, 4, 4, 5, 7, 8, 8, 11, 12, 12, 13, 16, 16, 20, 24, 31, 32])
            uid = ("b%dx%d" % (b, j) + "abcdefghijklmnopqrstuvwxyz-0123456789@example")[:ln]
            evs.append(gen_event(rng, uid, with_rule=False, zoned=None))
        text = "\n".join(["BEGIN:VCALENDAR", "VERSION:2.0"] + sum((["BEGIN:VEVENT"] + e[0] + ["END:VEVENT"] for e in evs), []) + ["END:VCALENDAR", ""])
        batches.append((text, evs))
    bops = ["p.all " + t.encode("latin-1").hex() for t, _ in batches]
    _t0 = _time.time()
    bimpl, bst, berr = ctx.impl(exe, bops, timeout=300)
    phases["batches"] = round(_time.time() - _t0, 1)
    for i, (t, evs) in enumerate(batches):
        a = bimpl[i] if i < len(bimpl) else "<no answer>"
        got = re.findall(r"S\{(.*?)\|vtod=[^}]*\}", a)
        want = [expect_dump(e[1]) for e in evs]
        if got != want:
            k = next((k for k in range(min(len(got), len(want))) if got[k] != want[k]), min(len(got), len(want)))
            fails.append((bops[i], "of %d events read from one text, event %d has the attributes\n   %s\nthe text assigns\n   %s" % (
                len(evs), k, got[k] if k < len(got) else "(missing)", want[k] if k < len(want) else "(none)")))
    # 2. round trip at several consumption points
    nocc = 12
    ks = [0, 1, 5, 63, 64, 65, 130, 200]
    rops, rmeta = [], []
    for i, (t, exp, meta) in enumerate(cals):
        for k in meta.get("ks") or (rng.sample(ks, 3 if thorough else 2) + [0]):
            rops.append("p.rt %s %d %d" % (t.encode("latin-1").hex(), k, nocc))
            rmeta.append((i, k))
    _t0 = _time.time()
    rimpl, st2, err2 = ctx.impl(exe, rops, timeout=600)
    phases["round_trips"] = round(_time.time() - _t0, 1)
    kcnt = collections.Counter()
    for j, (i, k) in enumerate(rmeta):
        a = rimpl[j] if j < len(rimpl) else "<no answer>"
        t, exp, meta = cals[i]
        if a == "none":
            continue
        sp = split_rt(a)
        if sp is None:
            fails.append((rops[j], "round trip after %d occurrences: %s\n%s" % (k, a[:300], t)))
            continue
        fa, oa, fb, ob, text = sp
        kcnt[k] += 1
        if oa in ("-", "~", ""):
            # nothing left to serialise: echs_task_icalify writes nothing for an exhausted stream
            continue
        why = None
        if fb == "none":
            why = "the text written cannot be read back as a task"
        elif fa != fb:
            da = dict(x.partition("=")[::2] for x in fa.split("|") if "=" in x)
            db = dict(x.partition("=")[::2] for x in fb.split("|") if "=" in x)
            diffk = sorted(k_ for k_ in set(da) | set(db) if da.get(k_) != db.get(k_))
            why = "attributes %s differ after the round trip:\n   before %s\n   after  %s" % (",".join(diffk), fa, fb)
        elif oa != ob:
            la, lb = oa.split(","), ob.split(",")
            d = next((x for x in range(min(len(la), len(lb))) if la[x] != lb[x]), min(len(la), len(lb)))
            why = "remaining occurrences differ at position %d after consuming %d: the stream goes on %s, the re-read task gives %s" % (
                d, k, la[d:d + 2], lb[d:d + 2])
        if why:
            cls = set(meta["cls"])
            if len(meta["rules"]) > 1:
                cls.add("multi-rule")
                if any(r_.count is not None for r_ in meta["rules"]):
                    cls.add("count-shared")          # D161's shape, also where the general generator arrives at it
            if meta["zoned"]:
                cls.add("zoned")
            if not meta["rules"]:
                cls.add("no-rule")
            allr = meta["rules"] + ([meta["xrule"]] if meta.get("xrule") else [])
            if (len(allr) > 1 or "shift" in cls or "rule+rdate" in cls) and any(r_.interval > 1 for r_ in allr):
                cls.add("phase")
            if "phase" in cls:
                known["phase"] += 1          # finding D15: INTERVAL phase of secondary / shifted rules is not kept
                continue
            if "easter" in cls and any(r_.byweekno for r_ in allr):
                cls.add("weekno-easter")
            special = cls & {"count-shared", "exrule-count", "rdate-exrule", "dst-gap-writeout", "weekno-easter", "rdate-before-dtstart"}
            if special and special <= known_classes:
                known[min(special)] += 1     # findings D161..D164: one shape each
                continue
            fails.append((rops[j], "%s [%s]\n--- input\n%s--- written\n%s" % (why, ",".join(sorted(cls)) or "plain", t, text)))
    # 3. the rule text layer against the Lean model (what C05.rule_text_roundtrip is about)
    _t0 = _time.time()
    tl = p_rrtext.run_layer(ctx, exe, rng, 4000 if thorough else 700)
    phases["rule_text_layer"] = round(_time.time() - _t0, 1)
    ctx.cov["phase_seconds"] = phases
    corr = tl["diffs"]
    for st_, txt, back in tl["changed"]:
        fails.append(("r.parse " + txt.encode("latin-1").hex(), "a rule the parser produced is not read back from its own text:\n   rule %s\n   text %s\n   back %s" % (st_, txt, back)))
    for x in tl["ub"]:
        fails.append((x[1], "the rule parser: %s" % x[2][:200]))
    kl = common.load_known("C05")
    for kf in kl:
        if kf.get("status") == "known" and known.get(kf.get("class"), 0):
            ctx.known(kf["what"])
    ctx.cov.update({
        "evaluations": len(ops) + len(rops),
        "distinct_nontrivial": len(set(ops)) + len(set(rops)),
        "traces_validated_against_impl": tl["parse_ops"] + tl["print_ops"] - len(corr),
        "rule_texts_parsed_by_both": tl["parse_ops"],
        "rules_printed_by_both": tl["print_ops"],
        "rule": "generated calendars: one VEVENT with a random subset of SUMMARY, DESCRIPTION, LOCATION, X-ECHS-SHELL/IFILE/OFILE/EFILE, "
                "ORGANIZER, 0-3 ATTENDEEs, the three mail flags, umask, max-simul, set-uid/gid, owner, unrelated properties, in random order, "
                "under calendar-level X-ECHS-OWNER/UMASK/MAX-SIMUL/SETUID/SETGID defaults; schedules: DATE and DATE-TIME DTSTART, TZID, "
                "DURATION, one or two RRULEs of every frequency incl. SHIFT/BYEASTER, EXRULE, EXDATE, RDATE lists up to 70; round trip "
                "(read, consume k, write with echs_task_icalify, read back) at k in {0,1,5,63,64,65,130,200}, %d occurrences compared; "
                "rule text layer: well-formed, hostile and mutated RRULE texts parsed by the real parser and by the model, the "
                "resulting rules printed by both (RRULE and EXRULE, with and without cached count), real print-then-parse must be "
                "the identity; non-trivial = all" % nocc,
        "samples": [cals[i][0][:200] for i in sorted(rng.sample(range(len(cals)), 2))],
        "round_trips_per_k": dict(kcnt),
        "known_class_hits": dict(known),
        "impl_vs_spec_failures": len(fails),
        "impl_vs_model_differences": len(corr),
        "exhaustive": False,
    })
    ctx.assumptions += ["README field mapping as written in expect_dump(); `mailto:' is stripped from ORGANIZER/ATTENDEE",
                        "an exhausted stream is not written at all (echs_task_icalify returns early), so nothing is compared there"]
    if fails:
        op, why = fails[0]
        ctx.violation("property", why, {"op": op, "failures_total": len(fails), "more": [w[:400] for _, w in fails[1:5]]})
    elif corr:
        i, op, a, b = corr[0]
        ctx.violation("correspondence", "rule text layer: implementation and model differ in %d ops; first: %s -> impl %s, model %s" % (
            len(corr), op[:200], a[:200], b[:200]), {"correspondence": "Echse.Model.RrText vs evical.c send_rrul / snarf_rrule", "op": op,
                                                      "impl": a, "model": b}, found_input=False)


def replay(ctx, rep):
    exe = p_strm.build(ctx)
    op = rep["data"].get("op")
    out, st, _ = ctx.impl(exe, [op], timeout=120)
    print((out[0] if out else st)[:1500])
    return 1
