/-
  C01, `fillHly` (FREQ=HOURLY) against RFC 5545, part 2: the loop.  Soundness: whatever is written lies in an hour of
  the grid `seed + j * INTERVAL` that passes the limits, at an enumerated minute and second.  Completeness: an instance
  not yet passed is written, unless the list fills up before it.
-/
import Echse.Lemmas.RrHlyRfc
namespace Echse.Lemmas.RrHlyRfc
open Echse.Rrule Echse.Instant Echse.Spec.RrOk Echse.Lemmas.RrSubOk Echse.Spec.Rfc Echse.Spec.Cal Echse.Spec.RuleExt
open Echse.Lemmas.RrHlyOk Echse.Lemmas.RrSubRfc

theorem cand_h (p : Inst) (y m d H mi s : Nat) (hy1 : 1901 ≤ y) (hy2 : y ≤ 2099) (hm1 : 1 ≤ m) (hm2 : m ≤ 12)
    (hd1 : 1 ≤ d) (hd2 : d ≤ getNdom y m) (hH : H < 24) (hM : mi < 60) (hs : s < 60) (hms : p.ms < 1024) :
    VT (cand p y m d H mi s) ∧ habsOf (cand p y m d H mi s) = hcabs y m d H ∧
    absOf (cand p y m d H mi s) = hcabs y m d H * 3600 + (mi : Int) * 60 + s ∧
    mkInst y m d H mi s p.ms = cand p y m d H mi s := by
  obtain ⟨hv, ha⟩ := cand_vt p y m d H mi s hy1 hy2 hm1 hm2 hd1 hd2 hH hM hs
  have hb := getNdom_bounds y m hm1 hm2
  refine ⟨hv, rfl, ?_, mkInst_id y m d H mi s p.ms (by omega) hm2 (by omega) hH hM hs hms⟩
  rw [ha]; simp only [cabs, hcabs]; omega

theorem lim_cand (r : Rule) (p : Inst) (y m d H mi s mi' s' : Nat) :
    HlyLim r (cand p y m d H mi s) ↔ HlyLim r (cand p y m d H mi' s') := Iff.rfl

/-- the BYSETPOS test of the entry `t` of `timesMS` -/
def pickH (r : Rule) (p : Inst) (t : Nat × Nat × Nat × Nat) : Bool :=
  posPickP r.pos (t.1 * (subEnum p r).S.length + t.2.1) ((subEnum p r).M.length * (subEnum p r).S.length)

/-- what the loop has written: an instant whose hour lies on the grid `A0 + j * inter` and passes the limits, whose
minute and second are among the enumerated ones, not before the seed -/
def HlyGood (r : Rule) (p : Inst) (A0 : Int) (z : Inst) : Prop :=
  VT z ∧ z.ms = p.ms ∧ HlyLim r z ∧ (∃ j : Nat, habsOf z = A0 + ((j * r.inter : Nat) : Int)) ∧
  (∃ t ∈ (subEnum p r).timesMS, t.2.2.1 = z.M ∧ t.2.2.2 = z.S ∧ pickH r p t = true) ∧ ltP z p = false

theorem hlyLoop_sound (r : Rule) (p : Inst) (k : Nat) (hr : WfRule r) (hp : WfInst p) (A0 : Int) :
    ∀ (fuel y m d H w yd maxy cnt : Nat) (acc acc' : List Inst), 1901 ≤ y → 1 ≤ m → m ≤ 12 → 1 ≤ d →
      d ≤ getNdom y m → H < 24 →
      (y ≤ 2099 → w = wdayOf (days y m d) ∧ yd = ymdGetYd y m d ∧ maxy = maxyOf y ∧
        ∃ j : Nat, hcabs y m d H = A0 + ((j * r.inter : Nat) : Int)) →
      hlyLoop (mkSubCtx r p k) (subEnum p r).timesMS fuel y m d H w yd (getNdom y m) maxy cnt acc = some acc' →
      ∀ z ∈ acc', z ∈ acc ∨ HlyGood r p A0 z := by
  have hT := (timesMS_sorted (subEnum p r) (subEnum_M r p hr hp) (subEnum_S r p hr hp)).2
  have hms := hp.ms
  intro fuel
  induction fuel with
  | zero => intro y m d H w yd maxy cnt acc acc' _ _ _ _ _ _ _ h; simp [hlyLoop] at h
  | succ f ih =>
    intro y m d H w yd maxy cnt acc acc' hy1 hm1 hm2 hd1 hd2 hH hinv h z hz
    rw [hlyLoop_succ] at h
    split at h
    · cases h; exact Or.inl hz
    split at h
    · cases h; exact Or.inl hz
    split at h
    · cases h; exact Or.inl hz
    rename_i _ hY _
    have hy2 : y ≤ 2099 := by simp only [subMaxYear] at hY; omega
    obtain ⟨hw, hyd, hmaxy, j, hj⟩ := hinv hy2
    subst hyd hmaxy
    obtain ⟨hi1, hi2⟩ := mkSubCtx_inter r p k hr
    have hci := ctx_inter r p k hr
    obtain ⟨hX, hXm, _, _⟩ := cand_h p y m d H 0 0 hy1 hy2 hm1 hm2 hd1 hd2 hH (by omega) (by omega) hms
    have hsem := hlyBody_sem r p k hr (cand p y m d H 0 0) hX hy1 hy2 w hw (subEnum p r).timesMS cnt acc
    simp only [cand] at hsem
    -- the two shapes of the body
    have hbody : ∃ cnt1 acc1 fin inc, hlyBody (mkSubCtx r p k) (subEnum p r).timesMS y m d H w (ymdGetYd y m d)
        (getNdom y m) (maxyOf y) cnt acc = (cnt1, acc1, fin, inc) ∧ 1 ≤ inc ∧ inc < 2147483648 + 86400 ∧
        (∃ j2, inc = j2 * (mkSubCtx r p k).inter) ∧ ∀ z ∈ acc1, z ∈ acc ∨ HlyGood r p A0 z := by
      rcases hsem with ⟨hlim, he⟩ | ⟨inc, he, b1, b2, b3, _⟩
      · refine ⟨_, _, _, _, he, hi1, by omega, ⟨1, by rw [Nat.one_mul]⟩, ?_⟩
        intro z hz
        rw [hlyEnum_eq] at hz
        rcases gEnum_sound _ _ _ _ _ _ _ _ z hz with h0 | ⟨t, ht, e, hge, hpk⟩
        · exact Or.inl h0
        · right
          obtain ⟨hmi, hs⟩ := hT t ht
          obtain ⟨hv, hzm, _, hmk⟩ := cand_h p y m d H t.2.2.1 t.2.2.2 hy1 hy2 hm1 hm2 hd1 hd2 hH hmi hs hms
          have e' : z = cand p y m d H t.2.2.1 t.2.2.2 := by rw [e]; exact hmk
          rw [e'] at hge ⊢
          exact ⟨hv, rfl, (lim_cand r p y m d H _ _ 0 0).mpr hlim, ⟨j, by rw [hzm, hj]⟩,
            ⟨t, ht, rfl, rfl, hpk⟩, hge⟩
      · exact ⟨_, _, _, _, he, b1, b2, b3, fun z hz => Or.inl hz⟩
    obtain ⟨cnt1, acc1, fin, inc, he, b1, b2, ⟨j2, hmul⟩, hacc1⟩ := hbody
    rw [he] at h
    simp only at h
    split at h
    · cases h; exact hacc1 z hz
    obtain ⟨y', m', d', H', w', yd', maxy', hst, g1, g2, g3, g4, g5, g6, g9, g10⟩ :=
      hlyStep_adv (mkSubCtx r p k) (subEnum p r).timesMS f y m d H w cnt1 acc1 inc hy1 hy2 hm1 hm2 hd1 hd2
        hH b1 b2 hw
    rw [hst] at h
    have hnext : y' ≤ 2099 → w' = wdayOf (days y' m' d') ∧ yd' = ymdGetYd y' m' d' ∧ maxy' = maxyOf y' ∧
        ∃ j : Nat, hcabs y' m' d' H' = A0 + ((j * r.inter : Nat) : Int) := by
      intro hy'
      have hlt : hcabs y m d H + inc < days 2100 1 1 * 24 := by
        by_cases c : hcabs y m d H + inc < days 2100 1 1 * 24
        · exact c
        · have := g10 (by omega); omega
      obtain ⟨_, e2, e3, e4, e5⟩ := g9 hlt
      refine ⟨e3, e4, e5, j + j2, ?_⟩
      rw [e2, hj, hmul, hci, Nat.add_mul]
      omega
    rcases ih y' m' d' H' w' yd' maxy' _ _ acc' g1 g2 g3 g4 g5 g6 hnext h z hz with hin | hgood
    · exact hacc1 z hin
    · exact Or.inr hgood

theorem absOf_h (x : Inst) (hx : VT x) : absOf x = habsOf x * 3600 + (x.M : Int) * 60 + x.S := by
  rw [absOf_vt x hx]; simp only [habsOf, dayOf]; omega

theorem hlyLoop_complete (r : Rule) (p : Inst) (k : Nat) (hr : WfRule r) (hp : WfInst p)
    (x : Inst) (hx : VT x) (hxms : x.ms = p.ms) (hxl : HlyLim r x) (hxu : ltP r.untl x = false)
    (hxp : ltP x p = false) (hxy : x.y ≤ 2099)
    (hxs : ∃ t ∈ (subEnum p r).timesMS, t.2.2.1 = x.M ∧ t.2.2.2 = x.S)
    (hpk : ∀ t ∈ (subEnum p r).timesMS, t.2.2.1 = x.M → t.2.2.2 = x.S → pickH r p t = true) :
    ∀ (fuel y m d H w cnt : Nat) (acc acc' : List Inst), 1901 ≤ y → y ≤ 2099 → 1 ≤ m → m ≤ 12 → 1 ≤ d →
      d ≤ getNdom y m → H < 24 → w = wdayOf (days y m d) →
      (∃ t : Nat, habsOf x = hcabs y m d H + ((t * r.inter : Nat) : Int)) →
      acc.length = cnt → cnt ≤ k → (∀ z ∈ acc, ltP z x = true) →
      hlyLoop (mkSubCtx r p k) (subEnum p r).timesMS fuel y m d H w (ymdGetYd y m d) (getNdom y m) (maxyOf y)
        cnt acc = some acc' →
      x ∈ acc' ∨ (acc'.length = k ∧ ∀ z ∈ acc', ltP z x = true) := by
  have hT := timesMS_sorted (subEnum p r) (subEnum_M r p hr hp) (subEnum_S r p hr hp)
  have hms := hp.ms
  intro fuel
  induction fuel with
  | zero => intro y m d H w cnt acc acc' _ _ _ _ _ _ _ _ _ _ _ _ h; simp [hlyLoop] at h
  | succ f ih =>
    intro y m d H w cnt acc acc' hy1 hy2 hm1 hm2 hd1 hd2 hH hw ht hlen hcnt hbef h
    obtain ⟨t, ht⟩ := ht
    obtain ⟨hX, hXm, hXa, hmk⟩ := cand_h p y m d H 0 0 hy1 hy2 hm1 hm2 hd1 hd2 hH (by omega) (by omega) hms
    have hxa := absOf_h x hx
    have hk : (mkSubCtx r p k).nti = k := rfl
    have hmk' : mkInst y m d H 0 0 (mkSubCtx r p k).proto.ms = cand p y m d H 0 0 := hmk
    rw [hlyLoop_succ, hmk', hk] at h
    split at h
    · cases h; exact Or.inr ⟨by omega, hbef⟩
    rename_i hA
    split at h
    · rename_i hY; simp only [subMaxYear] at hY; omega
    split at h
    · rename_i hU
      exfalso
      have hle := abs_le_bk (cand p y m d H 0 0) x hX hx hxms.symm (by rw [hXa, hxa, ht]; omega)
      have hU' : ltP r.untl (cand p y m d H 0 0) = true := hU
      rw [ltP_eq] at hU' hxu
      have h1 := of_decide_eq_true hU'
      have h2 := of_decide_eq_false hxu
      omega
    obtain ⟨hi1, hi2⟩ := mkSubCtx_inter r p k hr
    have hci := ctx_inter r p k hr
    have hsem := hlyBody_sem r p k hr (cand p y m d H 0 0) hX hy1 hy2 w hw (subEnum p r).timesMS cnt acc
    simp only [cand] at hsem
    have hlt := abs_lt_2100 x hx hxy
    have hxM : x.M < 60 := hx.2.2.2.2.2.1
    have hxS : x.S < 60 := hx.2.2.2.2.2.2.1
    -- moving on to the next candidate with the instant still ahead
    have hgo : ∀ (cnt1 : Nat) (acc1 : List Inst) (inc : Nat), 1 ≤ inc → inc < 2147483648 + 86400 →
        (∃ t', t * r.inter = inc + t' * r.inter) → acc1.length = cnt1 → cnt1 ≤ k →
        (∀ z ∈ acc1, ltP z x = true) →
        hlyStep (mkSubCtx r p k) (subEnum p r).timesMS f y m d ((H + inc) % u32) w (ymdGetYd y m d) (getNdom y m)
          (maxyOf y) cnt1 acc1 = some acc' → x ∈ acc' ∨ (acc'.length = k ∧ ∀ z ∈ acc', ltP z x = true) := by
      intro cnt1 acc1 inc b1 b2 ⟨t', ht'⟩ hl1 hc1 hb1 h
      obtain ⟨y', m', d', H', w', yd', maxy', hst, g1, g2, g3, g4, g5, g6, g9, g10⟩ :=
        hlyStep_adv (mkSubCtx r p k) (subEnum p r).timesMS f y m d H w cnt1 acc1 inc hy1 hy2 hm1 hm2 hd1 hd2
          hH b1 b2 hw
      rw [hst] at h
      have hxm : habsOf x = hcabs y m d H + inc + ((t' * r.inter : Nat) : Int) := by rw [ht, ht']; omega
      obtain ⟨e1, e2, e3, e4, e5⟩ := g9 (by omega)
      subst e4 e5
      exact ih y' m' d' H' w' cnt1 acc1 acc' g1 e1 g2 g3 g4 g5 g6 e3 ⟨t', by rw [e2]; exact hxm⟩ hl1 hc1 hb1 h
    rcases hsem with ⟨hlim, he⟩ | ⟨inc, he, b1, b2, _, hskip⟩
    · -- the hour is enumerated
      rw [he] at h
      simp only at h
      rw [hlyEnum_eq] at h
      have hcm : ∀ u ∈ (subEnum p r).timesMS, u.2.2.1 < 60 ∧ u.2.2.2 < 60 ∧
          VT (cand p y m d H u.2.2.1 u.2.2.2) ∧
          absOf (cand p y m d H u.2.2.1 u.2.2.2) = hcabs y m d H * 3600 + (u.2.2.1 : Int) * 60 + (u.2.2.2 : Nat) ∧
          mkInst y m d H u.2.2.1 u.2.2.2 (mkSubCtx r p k).proto.ms = cand p y m d H u.2.2.1 u.2.2.2 := by
        intro u hu
        obtain ⟨h1, h2⟩ := hT.2 u hu
        obtain ⟨a1, _, a3, a4⟩ := cand_h p y m d H u.2.2.1 u.2.2.2 hy1 hy2 hm1 hm2 hd1 hd2 hH h1 h2 hms
        exact ⟨h1, h2, a1, a3, a4⟩
      have hkey : ∃ sx : Nat, (t = 0 → sx = 64 * x.M + x.S) ∧ (t ≠ 0 → sx = 3840) := by
        by_cases h0 : t = 0
        · exact ⟨64 * x.M + x.S, fun _ => rfl, fun h => absurd h0 h⟩
        · exact ⟨3840, fun h => absurd h h0, fun _ => rfl⟩
      obtain ⟨sx, hsx0, hsx1⟩ := hkey
      have htpos : t ≠ 0 → 1 ≤ t * r.inter := by
        intro h0
        have := Nat.mul_le_mul (Nat.one_le_iff_ne_zero.mpr h0) hr.inter.1
        omega
      have hcomp := gEnum_complete (mkSubCtx r p k).nti (mkSubCtx r p k).proto (mkSubCtx r p k).r.untl
        (fun u => mkInst y m d H u.2.2.1 u.2.2.2 (mkSubCtx r p k).proto.ms)
        (fun u => posPickP (mkSubCtx r p k).r.pos (u.1 * (mkSubCtx r p k).e.S.length + u.2.1)
          ((mkSubCtx r p k).e.M.length * (mkSubCtx r p k).e.S.length)) tk 3840 sx x hxu hxp
        (subEnum p r).timesMS cnt acc hT.1
        (fun u hu => by have := hcm u hu; simp only [tk]; omega) ?_ ?_ ?_ hlen hcnt hbef
      · generalize gEnum (mkSubCtx r p k).nti (mkSubCtx r p k).proto (mkSubCtx r p k).r.untl
          (fun u => mkInst y m d H u.2.2.1 u.2.2.2 (mkSubCtx r p k).proto.ms)
          (fun u => posPickP (mkSubCtx r p k).r.pos (u.1 * (mkSubCtx r p k).e.S.length + u.2.1)
            ((mkSubCtx r p k).e.M.length * (mkSubCtx r p k).e.S.length))
          (subEnum p r).timesMS cnt acc = g at h hcomp
        obtain ⟨cnt1, acc1, fin⟩ := g
        simp only at h hcomp
        rcases hcomp with hin | ⟨hfin, hl1, hc1, hb1, hor⟩
        · left
          split at h
          · cases h; exact hin
          · obtain ⟨y', m', d', H', w', yd', maxy', hst, _⟩ :=
              hlyStep_adv (mkSubCtx r p k) (subEnum p r).timesMS f y m d H w cnt1 acc1 (mkSubCtx r p k).inter
                hy1 hy2 hm1 hm2 hd1 hd2 hH hi1 (by omega) hw
            rw [hst] at h
            exact hlyLoop_mono _ _ _ _ _ _ _ _ _ _ _ _ _ _ h x hin
        · rw [hfin] at h
          simp only [Bool.false_eq_true, if_false] at h
          rcases hor with hfull | hbeyond
          · obtain ⟨y', m', d', H', w', yd', maxy', hst, _⟩ :=
              hlyStep_adv (mkSubCtx r p k) (subEnum p r).timesMS f y m d H w cnt1 acc1 (mkSubCtx r p k).inter
                hy1 hy2 hm1 hm2 hd1 hd2 hH hi1 (by omega) hw
            rw [hst] at h
            have := hlyLoop_full _ _ _ _ _ _ _ _ _ _ _ _ _ _ (by rw [hk]; omega) h
            rw [this]
            exact Or.inr ⟨by omega, hb1⟩
          · have h0 : t ≠ 0 := by
              intro h0
              have := hsx0 h0
              omega
            rw [hci] at h
            refine hgo cnt1 acc1 r.inter hr.inter.1 (by have := hr.inter.2; omega) ⟨t - 1, ?_⟩ hl1 hc1 hb1 h
            have : t = (t - 1) + 1 := by omega
            rw [this, Nat.add_mul, Nat.one_mul, Nat.add_comm]
            simp
      · -- entries before the instant
        intro u hu hlt'
        obtain ⟨c0, c1, c2, c3, c4⟩ := hcm u hu
        show bk (mkInst y m d H u.2.2.1 u.2.2.2 (mkSubCtx r p k).proto.ms) < bk x
        rw [c4]
        apply abs_lt_bk _ x c2 hx hxms.symm
        rw [c3, hxa, ht]
        simp only [tk] at hlt'
        by_cases h0 : t = 0
        · have := hsx0 h0; rw [h0]; simp only [Nat.zero_mul]; omega
        · have := htpos h0; omega
      · -- the entry of the instant
        intro u hu he
        obtain ⟨c0, c1, c2, c3, c4⟩ := hcm u hu
        simp only [tk] at he
        have h0 : t = 0 := by
          by_cases h0 : t = 0
          · exact h0
          · have := hsx1 h0; omega
        have hsx := hsx0 h0
        have eM : u.2.2.1 = x.M := by omega
        have eS : u.2.2.2 = x.S := by omega
        refine ⟨?_, hpk u hu eM eS⟩
        show mkInst y m d H u.2.2.1 u.2.2.2 (mkSubCtx r p k).proto.ms = x
        rw [c4]
        apply abs_inj _ x c2 hx hxms.symm
        rw [c3, hxa, ht, h0, eM, eS]; simp only [Nat.zero_mul]; omega
      · by_cases h0 : t = 0
        · right
          obtain ⟨u, hu, e1, e2⟩ := hxs
          exact ⟨u, hu, by simp only [tk]; rw [e1, e2]; exact (hsx0 h0).symm⟩
        · left; have := hsx1 h0; omega
    · rw [he] at h
      simp only [Bool.false_eq_true, if_false] at h
      obtain ⟨t', ht'⟩ := hskip x t hx hxl (by show habsOf x = habsOf (cand p y m d H 0 0) + _; rw [hXm, hci, ht])
      rw [hci] at ht'
      exact hgo cnt acc inc b1 b2 ⟨t', ht'⟩ hlen hcnt hbef h

end Echse.Lemmas.RrHlyRfc
