import Echse.Model.Strpf
namespace C18
open Echse.Instant Echse.Strpf

/-- smoke (replaced by the general statements as they are proved) -/
theorem dt_roundtrip_leapday :
    dtStrp (dtStrf ⟨2020, 2, 29, 10, 30, 15, 250⟩) 0 = some (⟨2020, 2, 29, 10, 30, 15, 250⟩, 23) := by decide

end C18
