"""Shared machinery of the echse verification checks (see DESIGN.md §3).

One run of a check:
  1. scratch copy of /repo's *working tree* sources, generated files re-generated,
     C harness compiled from it (ASan/UBSan);
  2. translator tools/gen.py -> lean/Echse/Gen (only rewritten when changed);
     `lake build` of the property's theorem module and of the model driver;
  3. audit: no sorry/admit/axiom/native_decide..., `#print axioms` of every theorem;
  4. correspondence (implementation vs model) and oracle (implementation vs spec);
  5. evidence file; VIOLATION / KNOWN-FINDING lines; exit code.
"""
import fcntl
import hashlib
import json
import os
import random
import re
import shutil
import subprocess
import sys
import tempfile
import time

VERIF = os.path.dirname(os.path.dirname(os.path.abspath(__file__)))
REPO = os.environ.get("ECHSE_REPO", "/repo")
LEAN = os.path.join(VERIF, "lean")
HARNESS = os.path.join(VERIF, "harness")
# VERIF_OUT redirects evidence and replays (used when the checks are pointed at a deliberately broken tree, tools/seed_sweep.sh)
_OUT = os.environ.get("VERIF_OUT", VERIF)
EVIDENCE = os.path.join(_OUT, "evidence")
REPLAYS = os.path.join(_OUT, "replays")
CORPUS = os.path.join(VERIF, "corpus")
MODEL_EXE = os.path.join(LEAN, ".lake", "build", "bin", "echsemodel")
NCPU = os.cpu_count() or 4

ALLOWED_AXIOMS = {"propext", "Classical.choice", "Quot.sound"}
FORBIDDEN = re.compile(
    r"\bsorry\b|\badmit\b|^\s*axiom\s|native_decide|bv_decide|implemented_by|\bunsafe\s|maxHeartbeats\s+0\b",
    re.M)

CFLAGS = ["-std=gnu11", "-DHAVE_CONFIG_H", "-D_POSIX_C_SOURCE=200809L", "-D_XOPEN_SOURCE=700",
          "-D_DEFAULT_SOURCE", "-D_GNU_SOURCE", "-w", "-g", "-O1"]
HOOKS = ["-DECHSE_VERIF"]      # only the harness that provides echse_verif_line() enables the guarded hook
# left shifts of negative ints (pack_cd, unpack_cd) are defined by gcc ("GCC does not use the latitude given in C99 and
# C11 only to treat certain aspects of signed << as undefined"); the shift-base check would abort on every BYDAY=-1SU; shift counts out of range (shift-exponent) are checked
SAN = ["-fsanitize=address,undefined", "-fno-sanitize=shift-base", "-fno-sanitize-recover=all", "-fno-omit-frame-pointer"]

LIB_SOURCES = ["instant.c", "range.c", "dt-strpf.c", "hash.c", "intern.c", "state.c",
               "task.c", "strlst.c", "bufpool.c", "event.c", "evstrm.c", "evical.c", "evrrul.c",
               "evmrul.c", "evfilt.c", "tzob.c", "scale.c", "shift.c", "tzraw.c", "bitint.c",
               "echse-genuid.c"]


class Broken(Exception):
    """The machinery itself could not run (not a verdict about the property)."""


def sh(cmd, **kw):
    kw.setdefault("stdout", subprocess.PIPE)
    kw.setdefault("stderr", subprocess.STDOUT)
    kw.setdefault("text", True)
    return subprocess.run(cmd, **kw)


def strip_lean_comments(src):
    """remove -- line comments and /- -/ block comments (nesting respected), keep strings."""
    out = []
    i, n, depth = 0, len(src), 0
    in_str = False
    while i < n:
        c = src[i]
        if depth == 0 and not in_str and c == '"':
            in_str = True; out.append(c); i += 1; continue
        if in_str:
            if c == '\\' and i + 1 < n:
                out.append(src[i:i + 2]); i += 2; continue
            if c == '"':
                in_str = False
            out.append(c); i += 1; continue
        if src.startswith("/-", i):
            depth += 1; i += 2; continue
        if depth and src.startswith("-/", i):
            depth -= 1; i += 2; continue
        if depth:
            if c == "\n":
                out.append(c)
            i += 1; continue
        if src.startswith("--", i):
            while i < n and src[i] != "\n":
                i += 1
            continue
        out.append(c); i += 1
    return "".join(out)


class Ctx:
    def __init__(self, prop, tier, seed):
        self.prop = prop
        self.tier = tier
        self.seed = seed
        self.rng = random.Random(seed * 1000003 + int(prop[1:]))
        self.t0 = time.time()
        self.scratch = None
        self.src = None
        self.violations = []      # list of dict(kind, what, replay, found_input)
        self.known_lines = []
        self.proof = {"obligations": 0, "discharged": 0, "theorems": [], "axioms": {}, "errors": []}
        self.cov = {}
        self.assumptions = []
        self.notes = []
        self._replay_n = 0

    # ------------------------------------------------------------------ scratch + sources
    def prepare(self):
        # a sandbox run as root can lose its /dev/null (a tool renaming a file onto it): put the device back, the
        # code generators (yuck, m4 through shell wrappers) misbehave without it
        try:
            import stat
            st = os.stat("/dev/null")
            if not stat.S_ISCHR(st.st_mode):
                os.unlink("/dev/null")
                os.mknod("/dev/null", 0o666 | stat.S_IFCHR, os.makedev(1, 3))
                os.chmod("/dev/null", 0o666)
                self.notes.append("/dev/null was not a character device and has been restored")
        except OSError:
            pass
        base = os.environ.get("TMPDIR", "/tmp")
        self.scratch = tempfile.mkdtemp(prefix="echse-verif-%s-" % self.prop, dir=base)
        self.src = os.path.join(self.scratch, "src")
        os.makedirs(self.src)
        rsrc = os.path.join(REPO, "src")
        for f in os.listdir(rsrc):
            if f.endswith((".c", ".h", ".erf", ".yuck", ".yucc", ".in")):
                shutil.copy2(os.path.join(rsrc, f), os.path.join(self.src, f))
        # generated files are re-made from their sources in the working tree
        for f in os.listdir(self.src):
            if f.endswith(".erf"):
                out = os.path.join(self.src, f[:-4] + ".c")
                r = sh(["gperf", "-L", "ANSI-C", os.path.join(self.src, f), "--output-file", out])
                if r.returncode:
                    raise Broken("gperf failed on %s: %s" % (f, r.stdout))
        yuck = os.path.join(REPO, "build-aux", "yuck")
        if os.path.exists(yuck):
            for f in os.listdir(self.src):
                if f.endswith(".yuck"):
                    out = os.path.join(self.src, f[:-5] + ".yucc")
                    r = sh([yuck, "gen", "-o", out, os.path.join(self.src, f)],
                           env=dict(os.environ, PATH=os.path.dirname(yuck) + ":" + os.environ["PATH"]))
                    if r.returncode and not os.path.exists(out):
                        raise Broken("yuck failed on %s: %s" % (f, r.stdout))

    def cleanup(self):
        if os.environ.get("VERIF_GCOV") and self.scratch:
            # development aid (tools/coverage.sh): line coverage of the C sources under this check's generators
            out = os.path.join(os.environ["VERIF_GCOV"], self.prop)
            os.makedirs(out, exist_ok=True)
            sh("cd %s && gcov -o . *.gcda > /dev/null 2>&1; cp *.gcov %s/ 2>/dev/null" % (self.scratch, out), shell=True)
        if self.scratch and os.path.isdir(self.scratch):
            shutil.rmtree(self.scratch, ignore_errors=True)

    def cc(self, out, sources, extra=(), san=True, libs=("-lm", "-ldl"), inc=()):
        """compile harness `sources` (paths) against the scratch copy; returns binary path."""
        exe = os.path.join(self.scratch, out)
        cmd = ["gcc"] + CFLAGS + (SAN if san else []) + list(extra) + (["--coverage", "-DVERIF_GCOV"] if os.environ.get("VERIF_GCOV") else [])
        for i in inc:
            cmd += ["-I", i]
        cmd += ["-I", self.src, "-I", HARNESS] + list(sources) + ["-o", exe] + list(libs)
        r = sh(cmd)
        if r.returncode:
            return None, r.stdout
        return exe, r.stdout

    def lib_objects(self, exclude=(), san=True, extra=()):
        """compile the library sources (except `exclude`) to objects in parallel."""
        objs = []
        procs = []
        tag = hashlib.sha1((" ".join(extra) + str(san)).encode()).hexdigest()[:6]
        for f in LIB_SOURCES:
            if f in exclude:
                continue
            o = os.path.join(self.scratch, "%s-%s.o" % (f[:-2], tag))
            objs.append(o)
            if os.path.exists(o):
                continue
            cmd = ["gcc"] + CFLAGS + (SAN if san else []) + list(extra) + (["--coverage"] if os.environ.get("VERIF_GCOV") else []) + \
                  ["-I", self.src, "-c", os.path.join(self.src, f), "-o", o]
            procs.append((f, subprocess.Popen(cmd, stdout=subprocess.PIPE, stderr=subprocess.STDOUT, text=True)))
        errs = []
        for f, p in procs:
            o, _ = p.communicate()
            if p.returncode:
                errs.append("%s: %s" % (f, o[-2000:]))
        if errs:
            return None, "\n".join(errs)
        return objs, ""

    # ------------------------------------------------------------------ Lean side
    def lake(self, targets, timeout=3600):
        os.makedirs(os.path.join(LEAN, ".lake"), exist_ok=True)
        with open(os.path.join(LEAN, ".lake", "verif.lock"), "w") as lk:
            fcntl.flock(lk, fcntl.LOCK_EX)
            r = sh(["lake", "build"] + list(targets), cwd=LEAN, timeout=timeout)
            fcntl.flock(lk, fcntl.LOCK_UN)
        return r.returncode == 0, r.stdout

    def lean_eval(self, text, timeout=600):
        fn = os.path.join(self.scratch, "eval_%d.lean" % (int(time.time() * 1e6) % 10**9))
        with open(fn, "w") as f:
            f.write(text)
        r = sh(["lake", "env", "lean", fn], cwd=LEAN, timeout=timeout)
        return r.returncode, r.stdout

    def prop_theorems(self, module_path):
        src = strip_lean_comments(open(module_path).read())
        names = []
        ns = []
        for line in src.splitlines():
            m = re.match(r"\s*namespace\s+(\S+)", line)
            if m:
                ns.append(m.group(1)); continue
            m = re.match(r"\s*end\s+(\S+)", line)
            if m and ns and ns[-1] == m.group(1):
                ns.pop(); continue
            m = re.match(r"\s*(?:@\[[^\]]*\]\s*)?(?:protected\s+|private\s+)?theorem\s+(\S+)", line)
            if m:
                names.append(".".join(ns + [m.group(1)]))
        return names

    def imports_closure(self, module):
        """files under lean/ reachable from `module` through `import Echse.…`/`Driver.…`."""
        seen, todo = set(), [module]
        while todo:
            m = todo.pop()
            if m in seen:
                continue
            p = os.path.join(LEAN, m.replace(".", "/") + ".lean")
            if not os.path.exists(p):
                continue
            seen.add(m)
            for mm in re.findall(r"^\s*import\s+((?:Echse|Driver)\.\S+)", open(p).read(), re.M):
                todo.append(mm)
        return sorted(seen)

    def proofs(self, gen=True):
        """regenerate, build, audit.  Fills self.proof; returns True when every obligation is discharged."""
        pr = self.proof
        module = "Echse.Props.%s" % self.prop
        mpath = os.path.join(LEAN, "Echse", "Props", "%s.lean" % self.prop)
        if gen:
            from tools import gen as gen_mod
            try:
                changed = gen_mod.generate(self.src, os.path.join(LEAN, "Echse", "Gen"))
                pr["gen_changed"] = changed
            except Exception as e:  # the translator could not read the source any more
                pr["errors"].append("translator: %s" % e)
        names = self.prop_theorems(mpath)
        pr["theorems"] = names
        pr["obligations"] = len(names)
        # textual audit over everything the property module imports
        for m in self.imports_closure(module):
            p = os.path.join(LEAN, m.replace(".", "/") + ".lean")
            bad = FORBIDDEN.findall(strip_lean_comments(open(p).read()))
            if bad:
                pr["errors"].append("forbidden token(s) %s in %s" % (sorted(set(b.strip() for b in bad)), m))
        t = time.time()
        ok, out = self.lake([module, "echsemodel"])
        pr["build_s"] = round(time.time() - t, 1)
        if not ok:
            errs = [l for l in out.splitlines() if l.startswith("error")]
            pr["errors"].append("lake build failed: " + " | ".join(errs[:6]))
            pr["build_log_tail"] = out[-3000:]
            # which theorems still stand?  build what can be built is not attempted: all open
            pr["discharged"] = 0
            return False
        # axiom audit
        text = "import %s\n" % module + "".join("#print axioms %s\n" % n for n in names)
        rc, out = self.lean_eval(text)
        cur = None
        axioms = {}
        for line in out.replace("\n  ", " ").splitlines():
            m = re.match(r"'(.+?)' depends on axioms: \[(.*)\]", line)
            if m:
                axioms[m.group(1)] = [a.strip() for a in m.group(2).split(",") if a.strip()]
                continue
            m = re.match(r"'(.+?)' does not depend on any axioms", line)
            if m:
                axioms[m.group(1)] = []
        pr["axioms"] = axioms
        disc = 0
        for n in names:
            if n not in axioms:
                pr["errors"].append("no axiom report for %s" % n)
            elif set(axioms[n]) - ALLOWED_AXIOMS:
                pr["errors"].append("theorem %s uses axioms %s" % (n, sorted(set(axioms[n]) - ALLOWED_AXIOMS)))
            else:
                disc += 1
        pr["discharged"] = disc
        if self.tier == "thorough" and not pr["errors"]:
            t = time.time()
            r = sh(["lake", "env", "leanchecker", module], cwd=LEAN, timeout=3600)
            pr["leanchecker_s"] = round(time.time() - t, 1)
            if r.returncode:
                pr["errors"].append("leanchecker rejected %s: %s" % (module, r.stdout[-500:]))
        return not pr["errors"] and disc == len(names) and len(names) > 0

    def model(self, lines, timeout=1800):
        if not os.path.exists(MODEL_EXE):
            raise Broken("model driver not built")
        r = subprocess.run([MODEL_EXE], input="\n".join(lines) + "\n", stdout=subprocess.PIPE,
                           stderr=subprocess.PIPE, text=True, timeout=timeout)
        if r.returncode:
            raise Broken("model driver failed: %s" % r.stderr[-500:])
        out = r.stdout.splitlines()
        if len(out) != len(lines):
            raise Broken("model driver answered %d lines for %d ops" % (len(out), len(lines)))
        return out

    def _impl_once(self, exe, lines, timeout, env):
        e = dict(os.environ, ASAN_OPTIONS="detect_leaks=0:abort_on_error=0", UBSAN_OPTIONS="print_stacktrace=1")
        if env:
            e.update(env)
        try:
            r = subprocess.run([exe], input="\n".join(lines) + "\n", stdout=subprocess.PIPE,
                               stderr=subprocess.PIPE, text=True, timeout=timeout, env=e, errors="replace")
        except subprocess.TimeoutExpired as ex:
            out = (ex.stdout or b"")
            if isinstance(out, bytes):
                out = out.decode("utf-8", "replace")
            return out.splitlines(), "timeout", ""
        status = "ok" if r.returncode == 0 else "crash(%d)" % r.returncode
        return r.stdout.splitlines(), status, r.stderr[-3000:]

    def impl(self, exe, lines, timeout=1800, env=None, max_restarts=40):
        """run a line-protocol harness.  When it dies (sanitizer report, signal, timeout) the op that got
        no answer is answered `<crash …>` / `<timeout>` and the harness is restarted on the remaining ops,
        so one bad op does not hide the others.  Returns (answers, status, stderr of the first death)."""
        out, first_status, first_err = [], "ok", ""
        rest = list(lines)
        restarts = 0
        while rest:
            o, st, err = self._impl_once(exe, rest, timeout, env)
            o = o[:len(rest)]
            out += o
            if st == "ok" and len(o) == len(rest):
                break
            if first_status == "ok":
                first_status, first_err = (st if st != "ok" else "short-output"), err
            if restarts >= max_restarts or len(o) >= len(rest):
                break
            why = "timeout" if st == "timeout" else "crash"
            m = re.search(r"(runtime error: [^\n]*|ERROR: AddressSanitizer: [^\n]*|SEGV[^\n]*)", err)
            out.append("<%s%s>" % (why, ": " + m.group(1)[:160] if m else ""))
            rest = rest[len(o) + 1:]
            restarts += 1
        return out, first_status, first_err

    # ------------------------------------------------------------------ verdicts
    def replay_path(self):
        os.makedirs(REPLAYS, exist_ok=True)
        self._replay_n += 1
        return os.path.join(REPLAYS, "%s-%s-s%d-%d.json" % (self.prop, self.tier, self.seed, self._replay_n))

    def violation(self, kind, what, data, found_input=True):
        """kind: 'property' (failing input shown on the implementation) |
                 'correspondence' | 'proof' (no failing input found)"""
        path = self.replay_path()
        with open(path, "w") as f:
            json.dump({"property": self.prop, "kind": kind, "what": what, "seed": self.seed,
                       "tier": self.tier, "failing_input_found": found_input, "data": data}, f, indent=1)
        self.violations.append({"kind": kind, "what": what, "replay": path, "found": found_input})
        return path

    def known(self, what):
        self.known_lines.append(what)

    def finish(self):
        wall = time.time() - self.t0
        self.known_lines = list(dict.fromkeys(self.known_lines))
        pr = self.proof
        cov = dict(self.cov)
        cov.setdefault("evaluations", 0)
        cov.setdefault("distinct_nontrivial", 0)
        cov.setdefault("samples", [])
        cov["obligations"] = pr["obligations"]
        cov["discharged"] = pr["discharged"]
        cov["checker_cmd"] = ("cd /verif/lean && lake build Echse.Props.%s && lake env lean <#print axioms of every theorem>"
                              % self.prop) + (" && lake env leanchecker Echse.Props.%s" % self.prop
                                              if self.tier == "thorough" else "")
        cov["trusted_base"] = [
            "Lean 4.33.0 kernel" + (" + leanchecker re-check" if self.tier == "thorough" else ""),
            "axioms used by the theorems of Echse.Props.%s: %s" % (
                self.prop, sorted({a for v in pr["axioms"].values() for a in v}) or "none"),
            "no native_decide / bv_decide / sorry / own axioms (grep + #print axioms on every run)",
            "hand-written Lean model tied to the C code by the correspondence run counted in traces_validated_against_impl",
            "C harness compiled from /repo's working tree with gcc -O1 ASan/UBSan",
        ] + cov.get("trusted_base_extra", [])
        cov.pop("trusted_base_extra", None)
        cov["theorems"] = pr["theorems"]
        cov["proof_errors"] = pr["errors"]
        cov["lean_build_s"] = pr.get("build_s")
        ev = {"property_id": self.prop, "tier": self.tier, "seed": self.seed, "level": "proof",
              "coverage": cov, "assumptions": self.assumptions, "wall_s": round(wall, 1),
              "violations": len(self.violations), "known_findings_reported": self.known_lines,
              "notes": self.notes}
        os.makedirs(EVIDENCE, exist_ok=True)
        tmp = os.path.join(EVIDENCE, ".%s.json.tmp" % self.prop)
        with open(tmp, "w") as f:
            json.dump(ev, f, indent=1, default=str)
        os.replace(tmp, os.path.join(EVIDENCE, "%s.json" % self.prop))
        self.known_lines = list(dict.fromkeys(self.known_lines))
        for k in self.known_lines:
            print("KNOWN-FINDING: property=%s %s" % (self.prop, k))
        for v in self.violations:
            tail = "" if v["found"] else " no-failing-input-found"
            print("# %s: %s" % (v["kind"], v["what"]))
            print("VIOLATION property=%s replay=%s%s" % (self.prop, v["replay"], tail))
        sys.stdout.flush()
        return 1 if self.violations else 0


def load_known(prop):
    p = os.path.join(VERIF, "known_findings.jsonl")
    out = []
    if os.path.exists(p):
        for line in open(p):
            line = line.strip()
            if line and not line.startswith("#"):
                e = json.loads(line)
                if e.get("property") == prop:
                    out.append(e)
    return out


def load_corpus(prop):
    p = os.path.join(CORPUS, "%s.txt" % prop)
    if not os.path.exists(p):
        return []
    return [l.rstrip("\n") for l in open(p) if l.strip() and not l.startswith("#")]


def diff_lines(ops, a, b):
    """indices where two answer lists differ (shorter list = missing answers)."""
    out = []
    for i, op in enumerate(ops):
        x = a[i] if i < len(a) else "<no answer>"
        y = b[i] if i < len(b) else "<no answer>"
        if x != y:
            out.append((i, op, x, y))
    return out


def extract_c_function(path, name):
    """source text of function `name` in a C file: from the line that starts its
    declaration specifiers up to the closing brace in column 0."""
    src = open(path).read()
    m = re.search(r"^%s\s*\(" % re.escape(name), src, re.M)
    if not m:
        raise Broken("function %s not found in %s" % (name, path))
    # declaration specifiers are on the preceding line(s) up to a blank line / closing brace
    start = m.start()
    while True:
        prev = src.rfind("\n", 0, start - 1)
        line = src[prev + 1:start - 1]
        if not line.strip() or line.startswith("}") or line.startswith("#") or line.rstrip().endswith(";"):
            break
        start = prev + 1
    end = src.index("\n}", m.start()) + 2
    return src[start:end] + "\n"


def hex16(y, m, d, H, M, S, ms):
    return "%016x" % (ms | S << 10 | M << 16 | H << 24 | d << 32 | m << 40 | y << 48)


def unhex16(s):
    u = int(s, 16)
    return (u >> 48 & 0xffff, u >> 40 & 0xff, u >> 32 & 0xff, u >> 24 & 0xff, u >> 16 & 0xff,
            u >> 10 & 0x3f, u & 0x3ff)
