/-
  Properties C16 / C09 at the level of one call of the weekly filler `rrul_fill_wly` (model `fillWly`).

  The statements asked for were

    theorem fillWly_ok (r p n l) (hr : WfRule r) (hp : WfInst p) (hn : n ≤ 64) (h : fillWly r p n = some l) : FillOk r p n l
    theorem fillWly_total (r p n) (hr : WfRule r) (hp : WfInst p) (hn : n ≤ 64) : (fillWly r p n).isSome

  Both are proved as they stand.  History: before `make_enum` was made to ignore BYHOUR / BYMINUTE / BYSECOND next to a
  DATE seed (RFC 5545, 3.3.10), `fillWly_ok` was false: an all-day seed (H = ALL_DAY) with BYMINUTE or BYSECOND but no
  BYHOUR got instants with H = ALL_DAY and a non-zero minute / second, which are not `WfInst`, e.g.
    r = { freq := 3, M := [30] }, p = 2020-01-01 (all day):  fillWly r p 3 = 2020-01-01 H=255 M=30, 01-08 …, 01-15 …
  (now: the plain all-day instants, `fillWly_allDay_byminute`).

  History: before the guard `if (rr->inter > (UINT_MAX - 31U) / 7U) goto fin;` was put in front of the loop increment
  `d += rr->inter * 7U` (`unsigned int` arithmetic), `fillWly_ok` was false for a second reason: for INTERVAL ≥ 613566753
  (still an `int`, so `WfRule` holds) `d + inter * 7` could wrap and the candidate date moved BACKWARDS, e.g.
    r = { freq := 3, inter := 613566756, dow := [1,2,3,4,5,6,7] }   (inter * 7 = 2^32 - 4),
    p = 2020-01-15T10:00:00:  fillWly r p 12 = 15th 16th 17th 18th 19th, 15th (again) …: not ascending
  (likewise inter := 1227133513, inter * 7 = 2^33 - 1, a step of -1 day).  With the guard the loop ends after the first
  week for such an INTERVAL, and `r.inter * 7 + 31 < 2^32` holds whenever the increment is computed.
  `hn : n ≤ 64` is not needed.
-/
import Echse.Lemmas.RrWlyLoop
namespace Echse.Lemmas.RrWlyOk
open Echse.Rrule Echse.Instant Echse.Spec.RrOk
open Echse.Lemmas.RrOkBase

theorem fillWly_total (r : Rule) (p : Inst) (n : Nat) (hr : WfRule r) (hp : WfInst p) (_hn : n ≤ 64) :
    (fillWly r p n).isSome := by
  obtain ⟨l, hl, -⟩ := fillWly_spec r p n hr hp
  rw [hl]; rfl

theorem fillWly_ok (r : Rule) (p : Inst) (n : Nat) (l : List Inst) (hr : WfRule r) (hp : WfInst p)
    (_hn : n ≤ 64) (h : fillWly r p n = some l) : FillOk r p n l := by
  obtain ⟨l', hl, hok⟩ := fillWly_spec r p n hr hp
  rw [hl] at h
  cases h
  exact hok

/-- FREQ=WEEKLY;BYMINUTE=30 on the all-day seed 2020-01-01: BYMINUTE is ignored next to a DATE value, the plain all-day
instants come out (before the repair of `make_enum`: hour ALL_DAY with minute 30) -/
theorem fillWly_allDay_byminute :
    fillWly { freq := 3, M := [30] } { y := 2020, m := 1, d := 1, H := 255, M := 0, S := 0, ms := 0 } 2 =
    some [{ y := 2020, m := 1, d := 1, H := 255, M := 0, S := 0, ms := 0 },
          { y := 2020, m := 1, d := 8, H := 255, M := 0, S := 0, ms := 0 }] := by decide +kernel

end Echse.Lemmas.RrWlyOk
