/-
  Calendar helpers and candidate builders shared by the YEARLY and MONTHLY filler models
  (src/evrrul.c `rrul_fill_yly`, `rrul_fill_mly` and what they call), SCALE=GREGORIAN only:
  `__get_mcnt`, `ymcw_get_dom`, `get_jan01_wday`, `ywd_get_jan01_hang`, `get_isowk`, `ywd_get_yday`, `ywd_to_md`,
  `ycw_get_yday`, `yd_get_wday`, `ymd_get_yd`, `inc_md`, `inc_wd`, `unpack_cd`, the `fill_yly_*` / `fill_mly_*`
  candidate builders, `poss_sel_p`, `cnt_cand` and the common "now check the bitset" emission loop.

  Candidate sets are the strictly ascending lists of `Echse.Model.Rrule` (`assC` = `ass_bi383`); rule parts are the
  lists their bitint iterators yield.  `unsigned int` arithmetic that can wrap carries an explicit `% u32`
  (or goes through `toU32` / `toS32` where C converts between `int` and `unsigned int`).
  Hand transcription; tied to the C code by the harness ops `y.mcnt`, `y.ymcw`, `y.ycw`, `y.ywd`, `y.isowk`,
  `y.cand …` (harness/hx_rrul.c) and by tools/rrfillprobe.py (op `r.fill`).
-/
import Echse.Model.RrBase
namespace Echse.Rrule
open Echse.Instant

/-- `MAX_YEAR`: last year of the supported range -/
def maxYear : Nat := 2099

/-- `!(y % 4U)` as 0 / 1 -/
def leapN (y : Nat) : Nat := if y % 4 = 0 then 1 else 0

/-- `__get_mcnt(y, m, w)`: the number of weekdays `w` in month `y-m` (a C `int`) -/
def getMcnt (y m w : Nat) : Int :=
  let wd1 := ymdGetWday y m 1
  let md := getNdom y m
  let mdm1 := (md + u32 - 1) % u32                 -- md - 1U
  let wd01cnt := (mdm1 / 7 + 1) % u32
  let wd01mod := mdm1 % 7
  let w := if w = 7 then 0 else w                  -- SUN -> MIR
  if (w ≥ wd1 ∧ w ≤ wd1 + wd01mod) ∨ w + 7 ≤ wd1 + wd01mod then toS32 wd01cnt
  else toS32 ((wd01cnt + u32 - 1) % u32)

/-- `ymcw_get_dom(y, m, c, w)`: day of month of the `c`-th weekday `w` in `y-m`, 0 if there is none -/
def ymcwGetDom (y m : Nat) (c : Int) (w : Nat) : Nat :=
  let wd1 := ymdGetWday y m 1
  let max : Nat := toU32 (getMcnt y m w)
  if c > toS32 max then 0 else
  -- `c < 0 && (c += max + 1) <= 0`
  let c' : Int := if c < 0 then toS32 (toU32 c + max + 1) else c
  if c < 0 ∧ c' ≤ 0 then 0 else
  let add := (w + 7 + u32 - wd1) % u32 % 7
  let tgtd := (1 + add + toU32 (c' - 1) * 7) % u32
  if tgtd > mdays m then
    if tgtd = 29 ∧ y % 4 = 0 then tgtd else (tgtd + u32 - 7) % u32
  else tgtd

/-- `get_jan01_wday(year)`: the 28-year table `__jan01_28y_wday[year % 28]` -/
def getJan01Wday (year : Nat) : Nat :=
  [5, 7, 1, 2, 3, 5, 6,  7, 1, 3, 4, 5, 6, 1,  2, 3, 4, 6, 7, 1, 2,  4, 5, 6, 7, 2, 3, 4].getD (year % 28) 0

/-- `ywd_get_jan01_hang(j01)` -/
def ywdGetJan01Hang (j01 : Nat) : Int :=
  let res : Int := 1 - (j01 : Int)
  if res < -3 then toS32 (toU32 (7 + res)) else res

/-- `get_isowk(y)`: number of ISO weeks of year `y` -/
def getIsowk (y : Nat) : Nat :=
  if [16, 21, 27, 4, 10].contains (y % 28) then 53 else 52

/-- `ywd_get_yday(y, w, d)`: the sum is formed in `unsigned int` -/
def ywdGetYday (y : Nat) (w d : Int) : Nat :=
  let hang := ywdGetJan01Hang (getJan01Wday y)
  let w : Int := if w < 0 then toS32 (toU32 (w + 1 + (getIsowk y : Int))) else w
  toU32 (7 * (w - 1) + d + hang)

/-- `ywd_to_md(y, of, w, d)`: weekday `d` of week `w` of the ISO year `y + of` (`of` one of -1, 0, 1) if that day lies
in the calendar year `y`; month 0 = no such day in `y`.  (`iy = y + of` is `unsigned int` in C; the years in range
are far from 0.) -/
def ywdToMd (y : Nat) (of : Int) (w : Int) (d : Nat) : Md :=
  let iy : Nat := ((y : Int) + of).toNat
  let nwk : Int := getIsowk iy
  if w = 0 ∨ w > nwk ∨ w < -nwk then ⟨0, 0⟩ else
  let yday0 : Int := toS32 (ywdGetYday iy w d)
  -- counted from `y`'s first day
  let yday : Int := if of > 0 then yday0 + (365 + (leapN y : Int))
                    else if of < 0 then yday0 - (365 + (leapN iy : Int)) else yday0
  if yday ≤ 0 ∨ yday > 365 + (leapN y : Int) then ⟨0, 0⟩ else
  ydToMd y yday

/-- `ycw_get_yday(y, c, w)`: day of the year of the `c`-th weekday `w` of year `y`, 0 if there is none -/
def ycwGetYday (y : Nat) (c : Int) (w : Nat) : Nat :=
  let j01w := ymdGetWday y 1 1
  let diff := if j01w ≤ w then w - j01w else (7 + w + u32 - j01w) % u32
  if c > 0 then
    let res := (toU32 (c - 1) * 7 + diff + 1) % u32
    if res > 365 + leapN y then 0 else res
  else if c < 0 then
    let res := (toU32 (53 + c) * 7 + diff + 1) % u32
    if diff = 0 then res
    else if diff = 1 ∧ y % 4 = 0 then res
    else if res ≤ 7 then 0
    else res - 7
  else 0

/-- `yd_get_wday(y, yd)`; `yd` is the `unsigned int` parameter -/
def ydGetWday (y yd : Nat) : Nat :=
  let j01 := ymdGetWday y 1 1
  let r := (j01 + (yd + u32 - 1) % u32) % u32 % 7
  if r = 0 then 7 else r

/-- `ymd_get_yd(y, m, d)` -/
def ymdGetYd (y m d : Nat) : Nat :=
  ([65528, 0, 31, 59, 90, 120, 151, 181, 212, 243, 273, 304, 334, 365].getD m 0 + d
    + (if y % 4 = 0 ∧ m ≥ 3 then 1 else 0)) % u32

/-- `inc_md(md, y)` -/
def incMd (md : Md) (y : Nat) : Md :=
  if md.d + 1 > getNdom y md.m then ⟨md.m + 1, 1⟩ else ⟨md.m, md.d + 1⟩

/-- `inc_wd(wd)` -/
def incWd (wd : Nat) : Nat := if (wd + 1) % 8 = 0 then 1 else wd + 1

/-- `unpack_cd(cd)` (evrrul.h): `cd >> 3` (arithmetic) and `cd & 0b111` -/
def unpackCd (cd : Int) : Int × Nat := (cd / 8, (cd % 8).toNat)

/-! ### candidate builders -/

/-- `fill_yly_ywd(cand, y, woy, dow)`: BYWEEKNO × plain weekdays -/
def fillYlyYwd (cand : List Nat) (y : Nat) (woy dow : List Int) : List Nat :=
  woy.foldl (fun cand wk =>
    dow.foldl (fun cand dc =>
      if dc ≤ 0 ∨ dc > 7 then cand else
      -- week `wk` of `y` and of the years next to it
      ([-1, 0, 1] : List Int).foldl (fun cand of =>
        let md := ywdToMd y of wk dc.toNat
        if md.m = 0 then cand else assC cand (packCand md.m md.d)) cand) cand) cand

/-- `fill_mly_ymcw(cand, y, m, dow)`: the counted weekdays of BYDAY within month `m` -/
def fillMlyYmcw (cand : List Nat) (y m : Nat) (dow : List Int) : List Nat :=
  dow.foldl (fun cand tmp =>
    let (cnt, wd) := unpackCd tmp
    if cnt = 0 then cand else
    let dom := ymcwGetDom y m cnt wd
    if dom = 0 then cand else assC cand (packCand m dom)) cand

/-- `fill_yly_ymcw(cand, y, dow, m, nm)` -/
def fillYlyYmcw (cand : List Nat) (y : Nat) (dow : List Int) (ms : List Nat) : List Nat :=
  ms.foldl (fun cand m => fillMlyYmcw cand y m dow) cand

/-- `fill_yly_ycw(cand, y, dow)`: the counted weekdays of BYDAY within the year -/
def fillYlyYcw (cand : List Nat) (y : Nat) (dow : List Int) : List Nat :=
  dow.foldl (fun cand tmp =>
    let (cnt, wd) := unpackCd tmp
    if cnt = 0 then cand else
    let yd := ycwGetYday y cnt wd
    if yd = 0 then cand else
    let md := ydToMd y (toS32 yd)
    if md.m = 0 then cand else assC cand (packCand md.m md.d)) cand

/-- `dow_limit_p(dow, wd_mask, y, m, d, w, mp)`: does `m`/`d` of `y`, a `w`, pass BYDAY as a limit: a plain weekday
admits every such day, a numbered one the n-th such day of the month (`mp`) or of the year -/
def dowLimitP (dow : List Int) (wdMask : Nat) (y m d w : Nat) (mp : Bool) : Bool :=
  if bit wdMask w then true
  else if wdMask % 2 = 0 then false
  else dow.any (fun tmp =>
    let (cnt, wd) := unpackCd tmp
    if cnt = 0 ∨ wd ≠ w then false
    else if mp then ymcwGetDom y m cnt wd == d
    else
      let md := ydToMd y (toS32 (ycwGetYday y cnt wd))
      md.m == m && md.d == d)

/-- `fill_yly_yd(cand, y, doy, dow, wd_mask, mp)`: BYYEARDAY, limited by BYDAY -/
def fillYlyYd (cand : List Nat) (y : Nat) (doy : List Int) (dow : List Int) (wdMask : Nat) (mp : Bool) : List Nat :=
  doy.foldl (fun cand yd0 =>
    let yd : Int := if yd0 < 0 then yd0 + 366 + (leapN y : Int) else yd0
    if yd > 365 + (leapN y : Int) then cand
    else
      let md := ydToMd y yd
      if md.m = 0 then cand
      else if wdMask ≠ 0 ∧ !dowLimitP dow wdMask y md.m md.d (ydGetWday y (toU32 yd)) mp then cand
      else assC cand (packCand md.m md.d)) cand

/-- `fill_yly_yd_all(c, y, wd_mask)`: every day of the year on one of the plain weekdays -/
def fillYlyYdAll (c : List Nat) (y : Nat) (wdMask : Nat) : List Nat :=
  if wdMask >>> 1 = 0 then c else
  let nyd := if y % 4 ≠ 0 then 365 else 366
  -- `for (yd = 1, w = wday(y,1,1); yd <= nyd; yd++, w = inc_wd(w), md = inc_md(md, y))`
  ((List.range nyd).foldl (fun (st : List Nat × Nat × Md) _ =>
    let (c, w, md) := st
    ((if bit wdMask w then assC c (packCand md.m md.d) else c), incWd w, incMd md y))
    (c, ymdGetWday y 1 1, (⟨1, 1⟩ : Md))).1

/-- `fill_yly_md_all(c, s, y, m, nm, wd_mask)`: every day of the months `ms` on one of the plain weekdays -/
def fillYlyMdAll (c : List Nat) (y : Nat) (ms : List Nat) (wdMask : Nat) : List Nat :=
  if wdMask >>> 1 = 0 then c else
  ms.foldl (fun c m =>
    let nmd := getNdom y m
    ((List.range nmd).foldl (fun (st : List Nat × Nat) i =>
      let (c, w) := st
      ((if bit wdMask w then assC c (packCand m (i + 1)) else c), incWd w))
      (c, ymdGetWday y m 1)).1) c

/-- the day selection shared by `fill_mly_ymd` and `fill_yly_ymd_all_m`: a BYMONTHDAY value `dd` (C `int`) in a
month of `ndim` days; negative values count from the end; `none` = no such day -/
def pickDom (dd : Int) (ndim : Nat) : Option Nat :=
  if dd > 0 ∧ toU32 dd ≤ ndim then some dd.toNat
  else if dd < 0 ∧ toU32 (-dd) ≤ ndim then some (toS32 (toU32 dd + ndim + 1)).toNat   -- `dd += ndim + 1U`
  else none

/-- `fill_mly_ymd(cand, s, y, mo, d, nd, dow, wd_mask)`, Gregorian: BYMONTHDAY in month `mo`, limited by BYDAY (numbered
entries count within the month) -/
def fillMlyYmd (cand : List Nat) (y mo : Nat) (ds : List Int) (dow : List Int) (wdMask : Nat) : List Nat :=
  ds.foldl (fun cand dd0 =>
    match pickDom dd0 (getNdom y mo) with
    | none => cand
    | some dd =>
      if wdMask ≠ 0 ∧ !dowLimitP dow wdMask y mo dd (ymdGetWday y mo dd) true then cand
      else assC cand (packCand mo dd)) cand

/-- `fill_yly_ymd(cand, s, y, m, nm, d, nd, dow, wd_mask)` -/
def fillYlyYmd (cand : List Nat) (y : Nat) (ms : List Nat) (ds : List Int) (dow : List Int) (wdMask : Nat) : List Nat :=
  ms.foldl (fun cand m => fillMlyYmd cand y m ds dow wdMask) cand

/-- `fill_yly_ymd_all_m(cand, s, y, d, nd, dow, wd_mask)`, Gregorian: BYMONTHDAY in all twelve months, limited by BYDAY
(numbered entries count within the year) -/
def fillYlyYmdAllM (cand : List Nat) (y : Nat) (ds : List Int) (dow : List Int) (wdMask : Nat) : List Nat :=
  (List.range 12).foldl (fun cand i =>
    let m := i + 1
    ds.foldl (fun cand dd0 =>
      match pickDom dd0 (getNdom y m) with
      | none => cand
      | some dd =>
        let wd := ymdGetWday y m dd
        if wdMask ≠ 0 ∧ !dowLimitP dow wdMask y m dd wd false then cand
        else assC cand (packCand m dd)) cand) cand

/-- `fill_mly_ymd_all_d(cand, s, y, mo, wd_mask)`: all days of month `mo`, limited by `wd_mask` (if non-zero) -/
def fillMlyYmdAllD (cand : List Nat) (y mo : Nat) (wdMask : Nat) : List Nat :=
  let ndim := getNdom y mo
  ((List.range ndim).foldl (fun (st : List Nat × Nat) i =>
    let (cand, w) := st
    ((if wdMask ≠ 0 ∧ !bit wdMask w then cand else assC cand (packCand mo (i + 1))), incWd w))
    (cand, ymdGetWday y mo 1)).1

/-- `fill_yly_ymd_all_d(cand, s, y, m, nm, wd_mask)` -/
def fillYlyYmdAllD (cand : List Nat) (y : Nat) (ms : List Nat) (wdMask : Nat) : List Nat :=
  ms.foldl (fun cand m => fillMlyYmdAllD cand y m wdMask) cand

/-- `lim_cand(cand, y, mon, dom, wk, doy, pdow)`: keep the candidates that pass every one of BYMONTH, BYMONTHDAY,
BYWEEKNO (with DTSTART's weekday `pdow` if that is what picks the day) and BYYEARDAY -/
def limCand (cand : List Nat) (y : Nat) (mon : List Nat) (dom wk doy pdow : List Int) : List Nat :=
  cand.filter (fun c =>
    let md := unpackCand c
    let ndim : Int := getNdom y md.m
    let nyd : Int := 365 + (leapN y : Int)
    let yd : Int := ymdGetYd y md.m md.d
    let w := ymdGetWday y md.m md.d
    (mon.isEmpty || mon.contains md.m) &&
    (dom.isEmpty || dom.contains (md.d : Int) || dom.contains ((md.d : Int) - ndim - 1)) &&
    (doy.isEmpty || doy.any (fun k => k == yd || k == yd - nyd - 1)) &&
    (wk.isEmpty ||
      ((match pdow with
        | [] => true
        | k :: _ => k == (w : Int)) &&
       wk.any (fun k => ([-1, 0, 1] : List Int).any fun of =>
         let x := ywdToMd y of k w; x.m == md.m && x.d == md.d))))

/-! ### BYSETPOS on instances, the emission loop -/

/-- `poss_sel_p(poss, lo, hi, n)`: does BYSETPOS select one of the instances `lo..hi` (from 1) of `n` -/
def possSelP (poss : List Int) (lo hi n : Nat) : Bool :=
  poss.any fun pos0 =>
    let pos : Int := if pos0 < 0 then pos0 + toS32 n + 1 else pos0
    pos > 0 ∧ pos.toNat ≥ lo ∧ pos.toNat ≤ hi

/-- `cnt_cand(cand)` -/
def cntCand (cand : List Nat) : Nat := cand.length

/-- what a filler call keeps fixed while it walks the periods -/
structure FillCtx where
  nti : Nat                        -- after the COUNT cap
  tposp : Bool                     -- BYSETPOS numbers the instances of a period
  pos : List Int
  nT : Nat                         -- instances per day
  times : List (Nat × Nat × Nat)   -- the ENUM loop
  untl : Inst
  proto : Inst
  sh : Int                         -- `rr->shift`

/-- the variables the fill loops carry -/
structure FillSt where
  out : List Inst := []            -- tgt[0 .. res), latest first
  res : Nat := 0
  inst : Nat := 0
  hit : Bool := false              -- `tries` was set back in the current period (since the shift-collision test
                                   -- this can happen without anything being written)
  fin : Bool := false              -- `goto fin`
deriving Repr

/-- the ENUM loop for one candidate day `yd` of year `yy` (already `y + iy`); each round is guarded by `res < nti`,
`goto fin` ends everything -/
def emitDay (k : FillCtx) (ninst : Nat) (yy yd : Nat) (st : FillSt) : FillSt :=
  k.times.foldl (fun st (t : Nat × Nat × Nat) =>
    if st.fin ∨ !(st.res < k.nti) then st else
    let x := mkInst yy (yd / 32 + 1) (yd % 32) t.1 t.2.1 t.2.2 k.proto.ms
    -- `tposp && (inst++, !poss_sel_p(pos, inst, inst, ninst))`
    let st := if k.tposp then { st with inst := st.inst + 1 } else st
    if k.tposp ∧ !possSelP k.pos st.inst st.inst ninst then st
    else if ltP k.untl x then { st with fin := true }
    else if ltP x k.proto then st
    else
      let st := { st with hit := true }            -- `tries = 64U` / `tries = MLY_TRIES`
      -- `res && rr->shift && !echs_instant_lt_p(tgt[res - 1U], x)`: shifted onto one we've got already
      match st.out with
      | prev :: _ =>
        if st.res ≠ 0 ∧ k.sh ≠ 0 ∧ !ltP prev x then st
        else { st with out := x :: st.out, res := st.res + 1 }
      | [] => { st with out := x :: st.out, res := st.res + 1 }) st

/-- "now check the bitset": the sets of the previous, the same and the next year in turn, every candidate day
expanded by the ENUM loop; `y` is the period's year -/
def emitPeriod (k : FillCtx) (ninst : Nat) (y : Nat) (cand : Cand3) (st : FillSt) : FillSt :=
  [((y + u32 - 1) % u32, cand.prev), (y, cand.same), ((y + 1) % u32, cand.next)].foldl
    (fun st (p : Nat × List Nat) =>
      p.2.foldl (fun st yd =>
        if st.fin ∨ !(st.res < k.nti) then st
        else if k.tposp ∧ !possSelP k.pos (st.inst + 1) (st.inst + k.nT) ninst then
          { st with inst := st.inst + k.nT }       -- none of this day's instances is wanted
        else emitDay k ninst p.1 yd st) st) st

/-- limit by setpos, shift, emit: the tail every period of both fillers shares -/
def finishPeriod (k : FillCtx) (y : Nat) (cand : List Nat) (st : FillSt) : FillSt :=
  -- `if (!tposp) clr_poss(cand, &rr->pos); else { ninst = cnt_cand(cand) * nT; inst = 0; }`
  let cand0 := if !k.tposp then clrPoss cand k.pos else cand
  let ninst := if k.tposp then cntCand cand * k.nT else 0
  let st := if k.tposp then { st with inst := 0 } else st
  let c3 := shift { same := cand0 } y k.sh
  emitPeriod k ninst y c3 { st with hit := false }

/-- the parts of the setup both fillers share: the COUNT cap, `make_enum`, `nT`, `tposp` -/
def mkFillCtx (r : Rule) (proto : Inst) (nti : Nat) : FillCtx :=
  let e := makeEnum proto r
  let nT := e.H.length * e.M.length * e.S.length
  { nti := nti, tposp := nT > 1 ∧ r.shift = 0 ∧ !r.pos.isEmpty, pos := r.pos, nT := nT, times := e.times,
    untl := r.untl, proto := proto, sh := r.shift }

end Echse.Rrule
