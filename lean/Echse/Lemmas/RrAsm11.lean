/-
  Assembly of C16 / C09, part 11: the minutely and the secondly filler write only instants with an hour below 24
  (see part 10).
-/
import Echse.Lemmas.RrAsm10
import Echse.Lemmas.RrMnlyOk
import Echse.Lemmas.RrSlyOk
namespace Echse.Lemmas.RrAsm
open Echse.Rrule Echse.Instant Echse.Spec.RrOk
open Echse.Lemmas.RrMnlyOk Echse.Lemmas.RrSlyOk

theorem mnlyEnum_hlt (c : SubCtx) (y m d H M : Nat) (hH : H < 24) :
    ∀ (ts : List (Nat × Nat)) (cnt : Nat) (acc : List Inst), HLt acc →
      HLt (mnlyEnum c y m d H M ts cnt acc).2.1 := by
  intro ts
  induction ts with
  | nil => intro cnt acc h; exact h
  | cons t rest ih =>
    obtain ⟨s, iS⟩ := t
    intro cnt acc h
    simp only [mnlyEnum]
    by_cases c0 : ¬ cnt < c.nti
    · simp only [c0]; exact h
    simp only [c0, if_false]
    by_cases c1 : ltP (mkInst y m d H M s c.proto.ms) c.proto = true
    · simp only [c1, if_true]; exact ih cnt acc h
    simp only [c1]
    by_cases c2 : ltP c.r.untl (mkInst y m d H M s c.proto.ms) = true
    · simp only [c2, if_true]; exact h
    simp only [c2]
    by_cases c3 : (!posPickP c.r.pos iS c.e.S.length) = true
    · simp only [c3, if_true]; exact ih cnt acc h
    · simp only [c3]; exact ih _ _ (h.cons hH)

theorem mnlyBody_hlt (c : SubCtx) (secs : List (Nat × Nat)) (y m d H M w maxd cnt : Nat)
    (acc : List Inst) (hH : H < 24) (h : HLt acc) : HLt (mnlyBody c secs y m d H M w maxd cnt acc).2.1 := by
  simp only [mnlyBody]
  by_cases c1 : c.dayOut w m d maxd = true
  · simp only [c1, if_true]; exact h
  simp only [c1]
  by_cases c2 : (c.HMask &&& shl1 H) = 0
  · simp only [c2, if_true]; exact h
  simp only [c2, if_false]
  by_cases c3 : (c.MMask &&& shl1q M) = 0
  · simp only [c3, if_true]; exact h
  simp only [c3, if_false]
  by_cases c4 : (!c.r.doy.isEmpty && !doyHit c.r.doy (ymdGetYd y m d) (maxyOf y)) = true
  · simp only [c4, if_true]; exact h
  · simp only [c4]; exact mnlyEnum_hlt c y m d H M hH secs cnt acc h

theorem mnlyLoop_hlt (c : SubCtx) (secs : List (Nat × Nat)) :
    ∀ (fuel y m d H M w maxd cnt : Nat) (acc acc' : List Inst), H < 24 → HLt acc →
      mnlyLoop c secs fuel y m d H M w maxd cnt acc = some acc' → HLt acc' := by
  intro fuel
  induction fuel with
  | zero => intro _ _ _ _ _ _ _ _ _ _ _ _ h; cases h
  | succ f ih =>
    intro y m d H M w maxd cnt acc acc' hH hacc h
    rw [mnlyLoop_succ] at h
    by_cases c0 : ¬ cnt < c.nti
    · rw [if_pos c0] at h; cases h; exact hacc
    rw [if_neg c0] at h
    by_cases c1 : y > subMaxYear
    · rw [if_pos c1] at h; cases h; exact hacc
    rw [if_neg c1] at h
    by_cases c2 : ltP c.r.untl (mkInst y m d H M 0 c.proto.ms) = true
    · rw [if_pos c2] at h; cases h; exact hacc
    rw [if_neg c2] at h
    have hb := mnlyBody_hlt c secs y m d H M w maxd cnt acc hH hacc
    generalize mnlyBody c secs y m d H M w maxd cnt acc = bd at hb h
    obtain ⟨cnt1, acc1, fin, inc⟩ := bd
    simp only [] at h hb
    by_cases c3 : fin = true
    · rw [if_pos c3] at h; cases h; exact hb
    rw [if_neg c3] at h
    simp only [mnlyStep] at h
    by_cases c4 : (M + inc) % u32 ≥ 60
    · rw [if_pos c4] at h
      by_cases c5 : (H + (M + inc) % u32 / 60) % u32 ≥ 24
      · rw [if_pos c5] at h
        cases hc : subCarry ((d + (H + (M + inc) % u32 / 60) % u32 / 24) % u32 + 1) y m
            ((d + (H + (M + inc) % u32 / 60) % u32 / 24) % u32) maxd with
        | none => rw [hc] at h; cases h
        | some st =>
          obtain ⟨y2, m2, d2, maxd2⟩ := st
          rw [hc] at h
          exact ih _ _ _ _ _ _ _ _ _ _ (Nat.mod_lt _ (by decide)) hb h
      · rw [if_neg c5] at h
        exact ih _ _ _ _ _ _ _ _ _ _ (by omega) hb h
    · rw [if_neg c4] at h
      exact ih _ _ _ _ _ _ _ _ _ _ hH hb h

theorem slyLoop_hlt (c : SubCtx) :
    ∀ (fuel y m d H M S w maxd cnt : Nat) (acc acc' : List Inst), H < 24 → HLt acc →
      slyLoop c fuel y m d H M S w maxd cnt acc = some acc' → HLt acc' := by
  intro fuel
  induction fuel with
  | zero => intro _ _ _ _ _ _ _ _ _ _ _ _ _ h; cases h
  | succ f ih =>
    intro y m d H M S w maxd cnt acc acc' hH hacc h
    rw [slyLoop_succ] at h
    by_cases c0 : ¬ cnt < c.nti
    · rw [if_pos c0] at h; cases h; exact hacc
    rw [if_neg c0] at h
    by_cases c1 : y > subMaxYear
    · rw [if_pos c1] at h; cases h; exact hacc
    rw [if_neg c1] at h
    by_cases c2 : ltP c.r.untl (mkInst y m d H M S c.proto.ms) = true
    · rw [if_pos c2] at h; cases h; exact hacc
    rw [if_neg c2] at h
    generalize slyBody c y m d H M S w maxd = bd at h
    obtain ⟨hit, inc⟩ := bd
    simp only [] at h
    have hb : HLt (if hit = true then mkInst y m d H M S c.proto.ms :: acc else acc) := by
      cases hit
      · exact hacc
      · exact hacc.cons hH
    generalize (if hit = true then mkInst y m d H M S c.proto.ms :: acc else acc) = acc1 at hb h
    generalize (if hit = true then cnt + 1 else cnt) = cnt1 at h
    simp only [slyStep] at h
    by_cases c3 : (S + inc) % u32 ≥ 60
    · rw [if_pos c3] at h
      by_cases c4 : (M + (S + inc) % u32 / 60) % u32 ≥ 60
      · rw [if_pos c4] at h
        by_cases c5 : (H + (M + (S + inc) % u32 / 60) % u32 / 60) % u32 ≥ 24
        · rw [if_pos c5] at h
          cases hc : subCarry ((d + (H + (M + (S + inc) % u32 / 60) % u32 / 60) % u32 / 24) % u32 + 1) y m
              ((d + (H + (M + (S + inc) % u32 / 60) % u32 / 60) % u32 / 24) % u32) maxd with
          | none => rw [hc] at h; cases h
          | some st =>
            obtain ⟨y2, m2, d2, maxd2⟩ := st
            rw [hc] at h
            exact ih _ _ _ _ _ _ _ _ _ _ _ (Nat.mod_lt _ (by decide)) hb h
        · rw [if_neg c5] at h
          exact ih _ _ _ _ _ _ _ _ _ _ _ (by omega) hb h
      · rw [if_neg c4] at h
        exact ih _ _ _ _ _ _ _ _ _ _ _ hH hb h
    · rw [if_neg c3] at h
      exact ih _ _ _ _ _ _ _ _ _ _ _ hH hb h

end Echse.Lemmas.RrAsm
