/-
  C10 lemmas, part 14: `chop_more` when a complete line is in the buffer, in terms of the automaton.
-/
import Echse.Lemmas.Ical13
namespace Echse.Ical

theorem chopR_line (p : Parser) (e : Nat) (he : eolR (rest p) = some e) (hlt : e < (rest p).length) :
    chopR p = if (takeLine p e).stash.length ≠ 0 then procRes (doProc (takeLine p e))
              else (takeLine p e, none) := by
  unfold rest at he hlt
  unfold chopR
  rw [he]
  dsimp only
  rw [if_neg (by omega)]

theorem chopR_stash0 (p : Parser) (he : eolR (rest p) = none) :
    chopR p = ((stashRest p false).1, some .need) := by
  unfold rest at he
  unfold chopR
  rw [he]

theorem chopR_stash1 (p : Parser) (e : Nat) (he : eolR (rest p) = some e) (hge : e ≥ (rest p).length) :
    chopR p = ((stashRest p true).1, some .need) := by
  unfold rest at he hge
  unfold chopR
  rw [he]
  dsimp only
  rw [if_pos hge]

theorem rest_takeLine (p : Parser) (e : Nat) : rest (takeLine p e) = (rest p).drop e := by
  unfold rest
  rw [takeLine_buf, takeLine_bix, List.drop_drop]

/-- a complete line in the buffer: it is processed, the automaton's pending line is flushed -/
theorem line_spec (p : Parser) (A : Abs) (h : Pre p A) (hp : A.sc.pend = false) (e : Nat)
    (he : eolR (rest p) = some e) (hlt : e < (rest p).length) :
    ∃ q acc' A', book (chopR p) A.ins = some (q, acc') ∧ Pre q A' ∧ rest q ≠ [] ∧ acc' = A'.ins ∧
      runA A (rest p) = runA A' (rest q) := by
  have hs := eolR_some _ _ _ (Nat.le_refl _) he
  have hsplit : (rest p).take e ++ (rest p).drop e = rest p := List.take_append_drop e (rest p)
  cases hd : (rest p).drop e with
  | nil =>
    have : ((rest p).drop e).length = 0 := by rw [hd]; rfl
    simp at this; omega
  | cons d r' =>
    have hfd : isFold d = false := hs.2 d r' hd
    rw [hd] at hsplit
    have hseglen : ((rest p).take e).length = e := by simp; omega
    have hnb : ∀ c ∈ (rest p).take e, c ≠ BSL := fun c hc => h.nobsl c (List.mem_of_mem_take hc)
    have hrun := seg_runA _ ((rest p).take e) A true (Nat.le_refl _) hs.1 hnb hp
    have hsc := seg_runSc _ ((rest p).take e) A.sc true (Nat.le_refl _) hs.1 hp
    have hgood2 : Good (runSc A.sc ((rest p).take e)) (d :: r') := by
      apply good_append; rw [hsplit]; exact h.good
    have hraw : A.sc.raw + e < 1000 := by
      have := good_head _ _ hgood2
      unfold okAt at this
      simp at this
      rw [hsc.2.1, hseglen] at this; exact this
    have hlen : p.stash.length + e < stashSize := by
      have := h.inv.2.1; rw [← h.rel.stash] at this
      unfold stashSize; omega
    have hq := takeLine_eq p e hlen
    have hu : (takeLine p e).eolp = false := by
      rw [takeLine_eolp]; exact rel_unmarked p A h.rel hp
    have hmk : (takeLine p e).eolp = true ↔ ({} : Sc).pend = true := by rw [hu]
    have hrq : rest (takeLine p e) = d :: r' := by rw [rest_takeLine, hd]
    have hpend2 : (runA A ((rest p).take e)).sc.pend = true := by rw [runA_sc]; exact hsc.1
    have hstash2 : (takeLine p e).stash = (runA A ((rest p).take e)).cur := by
      rw [hq, hrun]; show p.stash ++ _ = A.cur ++ _; rw [h.rel.stash]
    have hcomp2 : (takeLine p e).comp = (runA A ((rest p).take e)).comp := by
      rw [hq, hrun]; exact h.rel.comp
    have hlog2 : (takeLine p e).log = (runA A ((rest p).take e)).log := by
      rw [hq, hrun]; exact h.rel.log
    have hins2 : (runA A ((rest p).take e)).ins = A.ins := by rw [hrun]
    have hrunall : runA A (rest p) = runA (flushA (runA A ((rest p).take e))) (d :: r') := by
      have : runA A (rest p) = runA A ((rest p).take e ++ d :: r') := by rw [hsplit]
      rw [this, runA_append]; exact runA_flush _ d r' hpend2 hfd
    have hgood3 : Good (flushA (runA A ((rest p).take e))).sc (d :: r') := by
      rw [flushA_sc]
      exact good_restart _ d r' hsc.1 hfd hgood2
    have hnb3 : ∀ c ∈ d :: r', c ≠ BSL := fun c hc => h.nobsl c (by rw [← hsplit]; simp [hc])
    rw [chopR_line p e he hlt]
    by_cases hne : (takeLine p e).stash.length ≠ 0
    · rw [if_pos hne, book_proc]
      have hcur : (runA A ((rest p).take e)).cur ≠ [] := by
        rw [← hstash2]; intro hx; rw [hx] at hne; exact hne rfl
      have hb := bookProc_spec (takeLine p e) _ hstash2 hcomp2 hlog2 hcur hu
      rw [hins2] at hb
      have hrest : rest (bookProc (takeLine p e) A.ins).1 = d :: r' := by
        unfold rest; rw [hb.2.2.1, hb.2.2.2]; exact hrq
      refine ⟨(bookProc (takeLine p e) A.ins).1, (bookProc (takeLine p e) A.ins).2, _, rfl,
        ⟨hb.1, flushA_inv _, ?_, ?_⟩, ?_, hb.2.1, ?_⟩
      · rw [hrest]; exact hgood3
      · rw [hrest]; exact hnb3
      · rw [hrest]; simp
      · rw [hrest]; exact hrunall
    · rw [if_neg hne]
      have hcur : (runA A ((rest p).take e)).cur = [] := by
        rw [← hstash2]; exact List.eq_nil_of_length_eq_zero (by omega)
      have hfl := flushA_of_nil _ hcur
      refine ⟨takeLine p e, A.ins, flushA (runA A ((rest p).take e)), rfl, ⟨?_, flushA_inv _, ?_, ?_⟩,
        ?_, ?_, ?_⟩
      · rw [hfl]
        exact ⟨hstash2, hcomp2, hlog2, hmk⟩
      · rw [hrq]; exact hgood3
      · rw [hrq]; exact hnb3
      · rw [hrq]; simp
      · rw [hfl]; exact hins2.symm
      · rw [hrq]; exact hrunall

end Echse.Ical
