/-
  Helper lemmas for C18, part 4: the duration parser `idiffStrp` on every spelling
  `[+-]P[nW][nD][T[nH][nM][nS]]` (digit strings with leading zeros allowed, values below 2^32),
  the explicit form of what `idiffStrf` prints, and the round trip.
-/
import Echse.Lemmas.Strpf3
namespace Echse.Strpf
open Echse.Instant Echse.Spec.Cal

/-! ### G. durations -/

theorem idiffTime_succ (s : List Char) (len f i step : Nat) (msd : Int) :
    idiffTime s len (f+1) i step msd =
      (let r := numLoop s len (len + 1) i 0
       let c := if (chr s r.1).toNat < 128 then (chr s r.1).toNat ||| step else 0
       if c = 72 then idiffTime s len f (r.1 + 1) (step ||| 0x1) (msd + (r.2 : Int) * 3600000)
       else if c = 77 then idiffTime s len f (r.1 + 1) (step ||| 0x11) (msd + (r.2 : Int) * 60000)
       else if c = 83 then idiffTime s len f (r.1 + 1) (step ||| 0x21) (msd + (r.2 : Int) * 1000)
       else (r.1 + 1, msd)) := by
  rw [idiffTime]

theorem idiffDate_succ (s : List Char) (len f i : Nat) (sw sd : Bool) (dd : Int) :
    idiffDate s len (f+1) i sw sd dd =
      (let r := numLoop s len (len + 1) i 0
       let c := chr s r.1
       if c = 'T' then (let t := idiffTime s len 5 (r.1 + 1) 0 0; (t.1, dd, t.2))
       else if c = 'W' then
         (if sw then (r.1 + 1, dd, 0) else idiffDate s len f (r.1 + 1) true sd (dd + (r.2 : Int) * 7))
       else if c = 'D' then
         (if sd then (r.1 + 1, dd, 0) else idiffDate s len f (r.1 + 1) sw true (dd + (r.2 : Int)))
       else (r.1 + 1, dd, 0)) := by
  rw [idiffDate]

theorem chr_length (s : List Char) : chr s s.length = '\x00' := by simp [chr]

theorem idiffTime_end (s : List Char) (i : Nat) (hi : i = s.length) (f step : Nat) (msd : Int)
    (h : step ≠ 72 ∧ step ≠ 77 ∧ step ≠ 83) :
    idiffTime s s.length (f+1) i step msd = (i + 1, msd) := by
  subst hi
  rw [idiffTime_succ, numLoop_end]
  simp [chr_length, h]

theorem idiffDate_end (s : List Char) (i : Nat) (hi : i = s.length) (f : Nat) (sw sd : Bool) (dd : Int) :
    idiffDate s s.length (f+1) i sw sd dd = (i + 1, dd, 0) := by
  subst hi
  rw [idiffDate_succ, numLoop_end]
  simp [chr_length]

theorem tok_facts (s pre ds : List Char) (ch : Char) (rest : List Char) (hs : s = pre ++ ds ++ ch :: rest)
    (hd : ∀ x ∈ ds, isDig x) (hv : digitsVal ds < 2^32) (hc : ¬ isDig ch) :
    numLoop s s.length (s.length + 1) pre.length 0 = (pre.length + ds.length, digitsVal ds) ∧
    chr s (pre.length + ds.length) = ch := by
  subst hs
  refine ⟨numLoop_token pre ds ch rest _ _ hd hv hc (by simp; omega) (by simp), ?_⟩
  rw [← List.length_append, chr_append_right0]; rfl

theorem idiffTime_step (s pre ds : List Char) (ch : Char) (rest : List Char) (hs : s = pre ++ ds ++ ch :: rest)
    (f step : Nat) (msd : Int)
    (hd : ∀ x ∈ ds, isDig x) (hv : digitsVal ds < 2^32) (hc : ¬ isDig ch) (h128 : ch.toNat < 128) :
    idiffTime s s.length (f+1) pre.length step msd =
      if ch.toNat ||| step = 72 then
        idiffTime s s.length f (pre.length + ds.length + 1) (step ||| 0x1) (msd + (digitsVal ds : Int) * 3600000)
      else if ch.toNat ||| step = 77 then
        idiffTime s s.length f (pre.length + ds.length + 1) (step ||| 0x11) (msd + (digitsVal ds : Int) * 60000)
      else if ch.toNat ||| step = 83 then
        idiffTime s s.length f (pre.length + ds.length + 1) (step ||| 0x21) (msd + (digitsVal ds : Int) * 1000)
      else (pre.length + ds.length + 1, msd) := by
  obtain ⟨h1, h2⟩ := tok_facts s pre ds ch rest hs hd hv hc
  rw [idiffTime_succ, h1]
  simp only [h2, h128, if_true]

theorem idiffDate_step (s pre ds : List Char) (ch : Char) (rest : List Char) (hs : s = pre ++ ds ++ ch :: rest)
    (f : Nat) (sw sd : Bool) (dd : Int)
    (hd : ∀ x ∈ ds, isDig x) (hv : digitsVal ds < 2^32) (hc : ¬ isDig ch) :
    idiffDate s s.length (f+1) pre.length sw sd dd =
      if ch = 'T' then
        (let t := idiffTime s s.length 5 (pre.length + ds.length + 1) 0 0; (t.1, dd, t.2))
      else if ch = 'W' then
        (if sw then (pre.length + ds.length + 1, dd, 0)
         else idiffDate s s.length f (pre.length + ds.length + 1) true sd (dd + (digitsVal ds : Int) * 7))
      else if ch = 'D' then
        (if sd then (pre.length + ds.length + 1, dd, 0)
         else idiffDate s s.length f (pre.length + ds.length + 1) sw true (dd + (digitsVal ds : Int)))
      else (pre.length + ds.length + 1, dd, 0) := by
  obtain ⟨h1, h2⟩ := tok_facts s pre ds ch rest hs hd hv hc
  rw [idiffDate_succ, h1]
  simp only [h2]


/-- an optional part: digits and the designator -/
def part (o : Option (List Char)) (c : Char) : List Char :=
  match o with | none => [] | some ds => ds ++ [c]
def pval (o : Option (List Char)) : Int :=
  match o with | none => 0 | some ds => (digitsVal ds : Int)
/-- the digits of a part are ASCII digits denoting a value below 2^32 -/
def POk (o : Option (List Char)) : Prop := ∀ ds, o = some ds → (∀ c ∈ ds, isDig c) ∧ digitsVal ds < 2^32

theorem timeS (s pre : List Char) (os : Option (List Char)) (hs : s = pre ++ part os 'S')
    (i : Nat) (hi : i = pre.length) (hok : POk os) (f step : Nat) (msd : Int)
    (hstep : step = 0 ∨ step = 1 ∨ step = 0x11) :
    (idiffTime s s.length (f+2) i step msd).2 = msd + pval os * 1000 := by
  subst hi
  cases os with
  | none =>
    have : s = pre := by simpa [part] using hs
    subst this
    rw [idiffTime_end _ _ rfl _ _ _ (by rcases hstep with rfl | rfl | rfl <;> decide)]
    simp [pval]
  | some ds =>
    obtain ⟨hd, hv⟩ := hok ds rfl
    have hs' : s = pre ++ ds ++ 'S' :: [] := by simpa [part] using hs
    rw [idiffTime_step s pre ds 'S' [] hs' (f+1) step msd hd hv (by decide) (by decide)]
    have e : 'S'.toNat ||| step = 83 := by rcases hstep with rfl | rfl | rfl <;> decide
    rw [e, if_neg (by decide), if_neg (by decide), if_pos rfl]
    rw [idiffTime_end s _ (by rw [hs']; simp [Nat.add_assoc]) f _ _ (by rcases hstep with rfl | rfl | rfl <;> decide)]
    simp [pval]

theorem timeMS (s pre : List Char) (om os : Option (List Char)) (hs : s = pre ++ part om 'M' ++ part os 'S')
    (i : Nat) (hi : i = pre.length) (hokm : POk om) (hoks : POk os) (f step : Nat) (msd : Int)
    (hstep : step = 0 ∨ step = 1) :
    (idiffTime s s.length (f+3) i step msd).2 = msd + pval om * 60000 + pval os * 1000 := by
  subst hi
  cases om with
  | none =>
    rw [timeS s pre os (by simpa [part] using hs) _ rfl hoks (f+1) step msd (by omega)]
    simp [pval]
  | some ds =>
    obtain ⟨hd, hv⟩ := hokm ds rfl
    have hs' : s = pre ++ ds ++ 'M' :: part os 'S' := by simpa [part] using hs
    rw [idiffTime_step s pre ds 'M' _ hs' (f+2) step msd hd hv (by decide) (by decide)]
    have e : 'M'.toNat ||| step = 77 := by rcases hstep with rfl | rfl <;> decide
    rw [e, if_neg (by decide), if_pos rfl]
    rw [timeS s (pre ++ ds ++ ['M']) os (by rw [hs']; simp) _ (by simp [Nat.add_assoc]) hoks f _ _
      (by rcases hstep with rfl | rfl <;> decide)]
    simp [pval]

theorem timeHMS (s pre : List Char) (oh om os : Option (List Char))
    (hs : s = pre ++ part oh 'H' ++ part om 'M' ++ part os 'S')
    (i : Nat) (hi : i = pre.length) (hokh : POk oh) (hokm : POk om) (hoks : POk os) (f : Nat) (msd : Int) :
    (idiffTime s s.length (f+4) i 0 msd).2 = msd + pval oh * 3600000 + pval om * 60000 + pval os * 1000 := by
  subst hi
  cases oh with
  | none =>
    rw [timeMS s pre om os (by simpa [part] using hs) _ rfl hokm hoks (f+1) 0 msd (by omega)]
    simp [pval]
  | some ds =>
    obtain ⟨hd, hv⟩ := hokh ds rfl
    have hs' : s = pre ++ ds ++ 'H' :: (part om 'M' ++ part os 'S') := by simpa [part] using hs
    rw [idiffTime_step s pre ds 'H' _ hs' (f+3) 0 msd hd hv (by decide) (by decide)]
    rw [if_pos (by decide)]
    rw [timeMS s (pre ++ ds ++ ['H']) om os (by rw [hs']; simp) _ (by simp [Nat.add_assoc]) hokm hoks f _ _ (by decide)]
    simp [pval]

/-- the time section: present iff one of its parts is -/
def tpart (oh om os : Option (List Char)) : List Char :=
  if oh.isSome ∨ om.isSome ∨ os.isSome then 'T' :: (part oh 'H' ++ part om 'M' ++ part os 'S') else []

def msdVal (oh om os : Option (List Char)) : Int := pval oh * 3600000 + pval om * 60000 + pval os * 1000

theorem dateT (s pre : List Char) (oh om os : Option (List Char)) (hs : s = pre ++ tpart oh om os)
    (i : Nat) (hi : i = pre.length) (hokh : POk oh) (hokm : POk om) (hoks : POk os)
    (f : Nat) (sw sd : Bool) (dd : Int) :
    (idiffDate s s.length (f+1) i sw sd dd).2 = (dd, msdVal oh om os) := by
  subst hi
  by_cases hany : oh.isSome ∨ om.isSome ∨ os.isSome
  · have hs' : s = pre ++ [] ++ 'T' :: (part oh 'H' ++ part om 'M' ++ part os 'S') := by
      simpa [tpart, hany] using hs
    rw [idiffDate_step s pre [] 'T' _ hs' f sw sd dd (by simp) (by decide) (by decide)]
    rw [if_pos rfl]
    simp only [List.length_nil, Nat.add_zero]
    rw [timeHMS s (pre ++ ['T']) oh om os (by rw [hs']; simp) _ (by simp) hokh hokm hoks 1 0]
    simp [msdVal]
  · have hs' : s = pre := by simpa [tpart, hany] using hs
    subst hs'
    rw [idiffDate_end _ _ rfl]
    have : oh = none ∧ om = none ∧ os = none := by
      cases oh <;> cases om <;> cases os <;> simp at hany ⊢
    obtain ⟨rfl, rfl, rfl⟩ := this
    simp [msdVal, pval]

theorem dateD (s pre : List Char) (od oh om os : Option (List Char))
    (hs : s = pre ++ part od 'D' ++ tpart oh om os)
    (i : Nat) (hi : i = pre.length) (hokd : POk od) (hokh : POk oh) (hokm : POk om) (hoks : POk os)
    (f : Nat) (sw : Bool) (dd : Int) :
    (idiffDate s s.length (f+2) i sw false dd).2 = (dd + pval od, msdVal oh om os) := by
  subst hi
  cases od with
  | none =>
    rw [dateT s pre oh om os (by simpa [part] using hs) _ rfl hokh hokm hoks (f+1)]
    simp [pval]
  | some ds =>
    obtain ⟨hd, hv⟩ := hokd ds rfl
    have hs' : s = pre ++ ds ++ 'D' :: tpart oh om os := by simpa [part] using hs
    rw [idiffDate_step s pre ds 'D' _ hs' (f+1) sw false dd hd hv (by decide)]
    rw [if_neg (by decide), if_neg (by decide), if_pos rfl]
    simp only [Bool.false_eq_true, if_false]
    rw [dateT s (pre ++ ds ++ ['D']) oh om os (by rw [hs']; simp) _ (by simp [Nat.add_assoc]) hokh hokm hoks f]
    simp [pval]

theorem dateWD (s pre : List Char) (ow od oh om os : Option (List Char))
    (hs : s = pre ++ part ow 'W' ++ part od 'D' ++ tpart oh om os)
    (i : Nat) (hi : i = pre.length) (hokw : POk ow) (hokd : POk od) (hokh : POk oh) (hokm : POk om)
    (hoks : POk os) (f : Nat) (dd : Int) :
    (idiffDate s s.length (f+3) i false false dd).2 = (dd + pval ow * 7 + pval od, msdVal oh om os) := by
  subst hi
  cases ow with
  | none =>
    rw [dateD s pre od oh om os (by simpa [part] using hs) _ rfl hokd hokh hokm hoks (f+1)]
    simp [pval]
  | some ds =>
    obtain ⟨hd, hv⟩ := hokw ds rfl
    have hs' : s = pre ++ ds ++ 'W' :: (part od 'D' ++ tpart oh om os) := by simpa [part] using hs
    rw [idiffDate_step s pre ds 'W' _ hs' (f+2) false false dd hd hv (by decide)]
    rw [if_neg (by decide), if_pos rfl]
    simp only [Bool.false_eq_true, if_false]
    rw [dateD s (pre ++ ds ++ ['W']) od oh om os (by rw [hs']; simp) _ (by simp [Nat.add_assoc]) hokd hokh hokm hoks f]
    simp [pval]


/-! ### the whole duration text -/

def durBody (ow od oh om os : Option (List Char)) : List Char :=
  part ow 'W' ++ part od 'D' ++ tpart oh om os

def durVal (ow od oh om os : Option (List Char)) : Int :=
  (pval ow * 7 + pval od) * 86400000 + pval oh * 3600000 + pval om * 60000 + pval os * 1000

theorem idiffStrp_P (t : List Char) (len : Nat) (h : 3 ≤ len) :
    idiffStrp ('P' :: t) len =
      (let r := idiffDate ('P' :: t) len 4 1 false false 0; (r.2.1 * 86400000 + r.2.2, r.1)) := by
  unfold idiffStrp
  rw [if_neg (by omega)]
  simp [chr_cons_zero]

theorem idiffStrp_plusP (t : List Char) (len : Nat) (h : 3 ≤ len) :
    idiffStrp ('+' :: 'P' :: t) len =
      (let r := idiffDate ('+' :: 'P' :: t) len 4 2 false false 0; (r.2.1 * 86400000 + r.2.2, r.1)) := by
  unfold idiffStrp
  rw [if_neg (by omega)]
  simp [chr_cons_zero, chr_cons_succ]

theorem idiffStrp_minusP (t : List Char) (len : Nat) (h : 3 ≤ len) :
    idiffStrp ('-' :: 'P' :: t) len =
      (let r := idiffDate ('-' :: 'P' :: t) len 4 2 false false 0; (-(r.2.1 * 86400000 + r.2.2), r.1)) := by
  unfold idiffStrp
  rw [if_neg (by omega)]
  simp [chr_cons_zero, chr_cons_succ]

theorem idiffStrp_dur (sign : List Char) (ow od oh om os : Option (List Char))
    (hw : POk ow) (hd : POk od) (hh : POk oh) (hm : POk om) (hs : POk os)
    (hsign : sign = [] ∨ sign = ['+'] ∨ sign = ['-'])
    (hlen : 3 ≤ (sign ++ 'P' :: durBody ow od oh om os).length) :
    (idiffStrp (sign ++ 'P' :: durBody ow od oh om os) (sign ++ 'P' :: durBody ow od oh om os).length).1 =
      if sign = ['-'] then - durVal ow od oh om os else durVal ow od oh om os := by
  have key := fun pre i hi hs' => dateWD (sign ++ 'P' :: durBody ow od oh om os) pre ow od oh om os hs' i hi
      hw hd hh hm hs 1 0
  rcases hsign with rfl | rfl | rfl
  · have := key ['P'] 1 rfl (by simp [durBody])
    simp only [List.nil_append] at this hlen ⊢
    rw [idiffStrp_P _ _ hlen]
    simp only [this, msdVal, durVal]
    simp
    omega
  · have := key ['+', 'P'] 2 rfl (by simp [durBody])
    simp only [List.cons_append, List.nil_append] at this hlen ⊢
    rw [idiffStrp_plusP _ _ hlen]
    simp only [this, msdVal, durVal]
    simp
    omega
  · have := key ['-', 'P'] 2 rfl (by simp [durBody])
    simp only [List.cons_append, List.nil_append] at this hlen ⊢
    rw [idiffStrp_minusP _ _ hlen]
    simp only [this, msdVal, durVal]
    simp
    omega


/-! ### F. what `idiffStrf` prints -/

/-- a part is printed iff its value is not zero -/
def nz (v : Nat) : Option (List Char) := if v ≠ 0 then some (tostr v) else none

theorem ilog10Ceil_pos (v : Nat) : 1 ≤ ilog10Ceil v := by
  unfold ilog10Ceil
  have : 4 ≤ max 4 (bitLen 32 v) := Nat.le_max_left _ _
  simp only []
  omega

theorem tostr_length_pos (v : Nat) : 1 ≤ (tostr v).length := by
  unfold tostr; rw [tpstr_length]; exact ilog10Ceil_pos v

theorem POk_nz (v : Nat) (h : v < 2^32) : POk (nz v) := by
  intro ds hds
  unfold nz at hds
  split at hds
  · cases hds; exact ⟨tostr_isDig v, by rw [tostr_val v h]; exact h⟩
  · cases hds

theorem pval_nz (v : Nat) (h : v < 2^32) : pval (nz v) = (v : Int) := by
  unfold nz
  split
  · simp [pval, tostr_val v h]
  · rename_i h0; simp at h0; simp [pval, h0]

theorem pval_none : pval none = 0 := rfl
theorem POk_none : POk none := by intro ds h; cases h

theorem idiffStrf_body (n : Nat) (hn : n ≠ 0) (h1000 : n % 1000 = 0) (hd : n / 86400000 < 2^32) :
    idiffStrf (n : Int) = 'P' :: durBody none (nz (n / 86400000)) (nz (n % 86400000 / 3600000))
        (nz (n % 86400000 % 3600000 / 60000)) (nz (n % 86400000 % 3600000 % 60000 / 1000)) ∧
    idiffStrf (-(n : Int)) = '-' :: 'P' :: durBody none (nz (n / 86400000)) (nz (n % 86400000 / 3600000))
        (nz (n % 86400000 % 3600000 / 60000)) (nz (n % 86400000 % 3600000 % 60000 / 1000)) := by
  have e1 : ¬ ((n : Int) < 0) := by omega
  have e2 : (-(n : Int) < 0) := by omega
  have e3 : (n : Int).natAbs = n := by omega
  have e4 : (-(n : Int)).natAbs = n := by omega
  have e5 : n / 86400000 % 2^32 = n / 86400000 := Nat.mod_eq_of_lt hd
  unfold idiffStrf
  simp only [e1, e2, e3, e4, e5, hn, if_true, if_false]
  have k1 : n % 86400000 = 0 → n % 86400000 / 3600000 = 0 ∧ n % 86400000 % 3600000 / 60000 = 0 ∧
      n % 86400000 % 3600000 % 60000 / 1000 = 0 := by omega
  have k2 : n % 86400000 ≠ 0 → n % 86400000 / 3600000 ≠ 0 ∨ n % 86400000 % 3600000 / 60000 ≠ 0 ∨
      n % 86400000 % 3600000 % 60000 / 1000 ≠ 0 := by omega
  generalize n % 86400000 % 3600000 % 60000 / 1000 = sec at *
  generalize n % 86400000 % 3600000 / 60000 = mi at *
  generalize n % 86400000 / 3600000 = h at *
  generalize n % 86400000 = r at *
  generalize n / 86400000 = D at *
  by_cases hr : r = 0
  · obtain ⟨rfl, rfl, rfl⟩ := k1 hr
    by_cases a : D = 0 <;> simp [durBody, tpart, part, nz, a, hr]
  · have k := k2 hr
    by_cases a : D = 0 <;> by_cases b : h = 0 <;> by_cases c : mi = 0 <;> by_cases d : sec = 0 <;>
      (try omega) <;> simp [durBody, tpart, part, nz, a, b, c, d, hr]

theorem durBody_nz_length (D h mi sec : Nat) (hnz : D ≠ 0 ∨ h ≠ 0 ∨ mi ≠ 0 ∨ sec ≠ 0) :
    2 ≤ (durBody none (nz D) (nz h) (nz mi) (nz sec)).length := by
  have l1 := tostr_length_pos D
  have l2 := tostr_length_pos h
  have l3 := tostr_length_pos mi
  have l4 := tostr_length_pos sec
  by_cases a : D = 0 <;> by_cases b : h = 0 <;> by_cases c : mi = 0 <;> by_cases d : sec = 0 <;>
    (try omega) <;> simp [durBody, tpart, part, nz, a, b, c, d] <;> omega

/-- the duration round trip, positive and negative -/
theorem idiff_roundtrip (n : Nat) (h1000 : n % 1000 = 0) (hd : n / 86400000 < 2^32) :
    (idiffStrp (idiffStrf (n : Int)) (idiffStrf (n : Int)).length).1 = (n : Int) ∧
    (idiffStrp (idiffStrf (-(n : Int))) (idiffStrf (-(n : Int))).length).1 = -(n : Int) := by
  by_cases hn : n = 0
  · subst hn; decide
  · obtain ⟨f1, f2⟩ := idiffStrf_body n hn h1000 hd
    rw [f1, f2]
    have hl := durBody_nz_length (n / 86400000) (n % 86400000 / 3600000) (n % 86400000 % 3600000 / 60000)
      (n % 86400000 % 3600000 % 60000 / 1000) (by omega)
    have b1 : n % 86400000 / 3600000 < 2^32 := by omega
    have b2 : n % 86400000 % 3600000 / 60000 < 2^32 := by omega
    have b3 : n % 86400000 % 3600000 % 60000 / 1000 < 2^32 := by omega
    have p := idiffStrp_dur [] none _ _ _ _ POk_none (POk_nz _ hd) (POk_nz _ b1) (POk_nz _ b2) (POk_nz _ b3)
      (Or.inl rfl) (by simp only [List.nil_append, List.length_cons]; omega)
    have q := idiffStrp_dur ['-'] none _ _ _ _ POk_none (POk_nz _ hd) (POk_nz _ b1) (POk_nz _ b2) (POk_nz _ b3)
      (Or.inr (Or.inr rfl)) (by simp only [List.cons_append, List.nil_append, List.length_cons]; omega)
    simp only [List.nil_append, List.cons_append, if_true, durVal, pval_nz _ hd, pval_nz _ b1, pval_nz _ b2,
      pval_nz _ b3, pval_none] at p q
    rw [if_neg (by decide)] at p
    rw [p, q]
    constructor <;> omega

/-! ### parts given as numbers, printed canonically -/

theorem POk_map_tostr (o : Option Nat) (h : ∀ v, o = some v → v < 2^32) : POk (o.map tostr) := by
  intro ds hds
  cases o with
  | none => cases hds
  | some v =>
    simp only [Option.map_some, Option.some.injEq] at hds
    subst hds
    have hv := h v rfl
    exact ⟨tostr_isDig v, by rw [tostr_val v hv]; exact hv⟩

theorem pval_map_tostr (o : Option Nat) (h : ∀ v, o = some v → v < 2^32) :
    pval (o.map tostr) = ((o.getD 0 : Nat) : Int) := by
  cases o with
  | none => rfl
  | some v => simp [pval, tostr_val v (h v rfl)]

theorem part_map_length (o : Option Nat) (c : Char) :
    (o = none ∧ part (o.map tostr) c = []) ∨ (o ≠ none ∧ 2 ≤ (part (o.map tostr) c).length) := by
  cases o with
  | none => left; exact ⟨rfl, rfl⟩
  | some v => right; have := tostr_length_pos v; simp [part]; omega

theorem tpart_length_ge (oh om os : Option (List Char)) :
    (part oh 'H').length + (part om 'M').length + (part os 'S').length ≤ (tpart oh om os).length := by
  unfold tpart
  split
  · simp; omega
  · rename_i h
    have : oh = none ∧ om = none ∧ os = none := by
      cases oh <;> cases om <;> cases os <;> simp at h ⊢
    obtain ⟨rfl, rfl, rfl⟩ := this
    simp [part]

end Echse.Strpf
