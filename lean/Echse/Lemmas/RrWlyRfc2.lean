/-
  C01 for the weekly filler, part 2: one week cannot miss an instant (`wlyWeek_complete`), and why a week says `fin`
  (`wlyWeek_fin`).
-/
import Echse.Lemmas.RrWlyRfc1
namespace Echse.Lemmas.RrRfc
open Echse.Rrule Echse.Instant Echse.Spec.RrOk Echse.Spec.Cal Echse.Spec.RuleExt Echse.Spec.Rfc
open Echse.Lemmas.RrOkBase

theorem dkey_year' {y m d y' m' d' : Nat} (hv : VD y m d) (hv' : VD y' m' d') (h : dkey y m d ≤ dkey y' m' d') :
    y ≤ y' := by
  have := hv.d31; have := hv'.d31; have := hv.2.1; have := hv'.2.1
  unfold dkey at h; omega

/-- one week cannot miss an instant `x` of one of its days `Dx` whose month is in BYMONTH and whose time is enumerated
and not skipped -/
theorem wlyWeek_complete (c : WlyCtx) (hp : WfInst c.proto) (he : EnumOk c.e) (nset : Nat) {y m d : Nat}
    (hv : VD y m d) (hy : y ≤ 13000000) (x : Inst) (Dx : Nat) (hxc : Carry y m Dx x.y x.m x.d) (hxy : x.y ≤ 2099)
    (hxms : x.ms = c.proto.ms) (ix : Nat × Nat × Nat) (hxt : (ix, x.H, x.M, x.S) ∈ c.e.timesIx)
    (hmon : bit c.mMask x.m = true)
    (hge : ltP x c.proto = false) (hle : ltP c.r.untl x = false) :
    ∀ (fuel incs D ty tm td nday : Nat) (res : List Inst) (b : Nat) (out : List Inst × Bool),
      nibOk fuel incs b = true → D + b ≤ d + 6 → d ≤ D → Carry y m D ty tm td → Dx ∈ offs fuel incs D →
      wlySkip c nset (nday + ndAt c y m (offs fuel incs D) Dx) ix = false →
      Acc c.r c.proto c.nti res → Below res y m (D + incs % 16) →
      wlyWeek c nset fuel incs ty tm td (getNdom ty tm) nday res = some out →
      x ∈ out.1 ∨ (out.1.length = c.nti ∧ ∀ z ∈ out.1, ikey z < ikey x) := by
  have hd31 := hv.d31
  have hm12 := hv.2.1
  have hd1 := hv.2.2.1
  intro fuel
  induction fuel with
  | zero => intro incs D ty tm td nday res b out h; simp [nibOk] at h
  | succ f ih =>
    intro incs D ty tm td nday res b out hnib hDb hdD hc hmem hxs hacc hbel h
    obtain ⟨hn1, hn2⟩ := nibOk_succ hnib
    obtain ⟨hvt, hpot, -, -⟩ := hc.props hv.1 hv.2.1 (by omega)
    have ht31 := hvt.d31
    have htm := hvt.2.1
    have hDx := offs_ge _ _ _ _ hmem
    obtain ⟨hxv, -, -, -⟩ := hxc.props hv.1 hv.2.1 (by omega)
    have htg : TimeGood x.H x.M x.S := timesIx_good he hxt
    have hxeq : x = ⟨x.y, x.m, x.d, x.H, x.M, x.S, c.proto.ms⟩ := by
      cases x; simp only at hxms; subst hxms; rfl
    have hxin : InR x := by rw [hxeq]; exact inR_mk hxv hxy htg hp.ms
    have hxk : dkey x.y x.m x.d * 4194304 ≤ ikey x := by unfold ikey; omega
    rw [wlyWeek_succ] at h
    have e1 : (td + incs % 16) % u32 = td + incs % 16 := by unfold u32; omega
    rw [e1] at h
    obtain ⟨y2, m2, d2, hcm, hc2⟩ := carryMon_spec (td + incs % 16 + 1) ty tm (td + incs % 16) hvt.1 hvt.2.1
      (by omega) (by unfold pot at hpot ⊢; omega)
    rw [hcm] at h
    simp only at h
    have hc3 := hc.comp (incs % 16) y2 m2 d2 hc2
    obtain ⟨hv2, -, -, -⟩ := hc3.props hv.1 hv.2.1 (by omega)
    obtain ⟨hnd1, hnd2⟩ := ndAt_offs c hv f incs D b nday y2 m2 d2 hnib hDb hc3
    have hle' : dkey y2 m2 d2 ≤ dkey x.y x.m x.d := by
      by_cases e : D + incs % 16 = Dx
      · rw [e] at hc3; obtain ⟨e1, e2, e3⟩ := carry_det hc3 hxc; rw [e1, e2, e3]; exact Nat.le_refl _
      · exact Nat.le_of_lt (hc3.mono _ _ _ _ hxc (by omega) hv.1 hv.2.1 (by omega))
    have hyx : y2 ≤ x.y := dkey_year' hv2 hxv hle'
    rw [if_neg (by unfold wlyDlyMaxYear; omega)] at h
    have hy99 : y2 ≤ 2099 := by omega
    by_cases e : D + incs % 16 = Dx
    · -- the day of `x`
      rw [e] at hc3 hnd1
      rw [← hnd1] at hxs
      obtain ⟨e1, e2, e3⟩ := carry_det hc3 hxc
      subst e1 e2 e3
      have hcomp : x ∈ (wlyDay c nset nday x.y x.m x.d res).1 ∨
          ((wlyDay c nset nday x.y x.m x.d res).1.length = c.nti ∧
            ∀ z ∈ (wlyDay c nset nday x.y x.m x.d res).1, ikey z < ikey x) := by
        unfold wlyDay
        refine genEnum_complete c.r c.proto c.nti _ _ hp hv2 hy99 ix x.H x.M x.S x hxeq (by rw [hmon]; rfl) hxs hge hle
          c.e.timesIx res (fun t ht => timesIx_good he ht) (timesIx_asc he) hxt ?_ hacc.len
        intro z hz
        have := hbel z hz Dx x.y x.m x.d (by omega) hxc
        omega
      generalize wlyDay c nset nday x.y x.m x.d res = o at h hcomp
      split at h
      · cases h; exact hcomp
      · split at h
        · rename_i c3
          rcases hcomp with a | ⟨b1, b2⟩
          · exact Or.inl (wlyWeek_subset c nset _ _ _ _ _ _ _ _ _ h x a)
          · omega
        · cases h; exact hcomp
    · -- an earlier day
      unfold offs at hmem
      have hmem' : incs / 16 ≠ 0 ∧ Dx ∈ offs f (incs / 16) (D + incs % 16) := by
        rcases List.mem_cons.1 hmem with a | a
        · omega
        · split at a
          · rename_i c0; exact ⟨c0, a⟩
          · cases a
      obtain ⟨hn3, hn4⟩ := hn2 hmem'.1
      have hDx2 := offs_ge _ _ _ _ hmem'.2
      have hdk : dkey y2 m2 d2 < dkey x.y x.m x.d := hc3.mono _ _ _ _ hxc (by omega) hv.1 hv.2.1 (by omega)
      have hday : Acc c.r c.proto c.nti (wlyDay c nset nday y2 m2 d2 res).1 ∧
          Below (wlyDay c nset nday y2 m2 d2 res).1 y m (D + incs % 16 + 1) :=
        day_step c.r c.proto c.nti _ _ hp he hc3 hv.1 hv.2.1 (by omega) hy99 hacc hbel
      have hfin : (wlyDay c nset nday y2 m2 d2 res).2 = true → False := by
        intro hf
        obtain ⟨t, ht, hu⟩ := genEnum_fin c.r c.proto c.nti _ _ hp hv2 hy99 c.e.timesIx res
          (fun t ht => timesIx_good he ht) hf
        have htg' := timesIx_good he ht
        have := ltP_mono_right c.r.untl _ x (inR_mk hv2 hy99 htg' hp.ms) hxin hxms.symm hu
          (Nat.le_of_lt (ikey_day_lt hdk (tkey_lt htg')))
        rw [hle] at this; cases this
      generalize wlyDay c nset nday y2 m2 d2 res = o at h hday hfin
      split at h
      · rename_i hf; exact absurd hf hfin
      · split at h
        · exact ih (incs / 16) (D + incs % 16) y2 m2 d2 _ _ (b - incs % 16) out hn4 (by omega) (by omega) hc3 hmem'.2
            (by rw [hnd2 hmem'.1 Dx hmem'.2]; exact hxs) hday.1 (hday.2.mono (by omega)) h
        · rename_i c3
          cases h
          refine Or.inr ⟨by show o.1.length = c.nti; have := hday.1.len; omega, ?_⟩
          intro z hz
          have := hday.2 z hz Dx x.y x.m x.d (by omega) hxc
          omega

/-- a week says `fin` only on reaching a year beyond 2099 or a time after UNTIL -/
theorem wlyWeek_fin (c : WlyCtx) (hp : WfInst c.proto) (he : EnumOk c.e) (nset : Nat) {y m d : Nat}
    (hv : VD y m d) (hy : y ≤ 13000000) :
    ∀ (fuel incs D ty tm td nday : Nat) (res : List Inst) (b : Nat) (res' : List Inst),
      nibOk fuel incs b = true → D + b ≤ d + 6 → d ≤ D → Carry y m D ty tm td →
      wlyWeek c nset fuel incs ty tm td (getNdom ty tm) nday res = some (res', true) →
      ∃ D' ty' tm' td', D ≤ D' ∧ D' ≤ d + 6 ∧ Carry y m D' ty' tm' td' ∧
        (ty' > 2099 ∨ ∃ t ∈ c.e.timesIx, ltP c.r.untl ⟨ty', tm', td', t.2.1, t.2.2.1, t.2.2.2, c.proto.ms⟩ = true) := by
  have hd31 := hv.d31
  have hm12 := hv.2.1
  have hd1 := hv.2.2.1
  intro fuel
  induction fuel with
  | zero => intro incs D ty tm td nday res b res' h; simp [nibOk] at h
  | succ f ih =>
    intro incs D ty tm td nday res b res' hnib hDb hdD hc h
    obtain ⟨hn1, hn2⟩ := nibOk_succ hnib
    obtain ⟨hvt, hpot, -, -⟩ := hc.props hv.1 hv.2.1 (by omega)
    have ht31 := hvt.d31
    have htm := hvt.2.1
    rw [wlyWeek_succ] at h
    have e1 : (td + incs % 16) % u32 = td + incs % 16 := by unfold u32; omega
    rw [e1] at h
    obtain ⟨y2, m2, d2, hcm, hc2⟩ := carryMon_spec (td + incs % 16 + 1) ty tm (td + incs % 16) hvt.1 hvt.2.1
      (by omega) (by unfold pot at hpot ⊢; omega)
    rw [hcm] at h
    simp only at h
    have hc3 := hc.comp (incs % 16) y2 m2 d2 hc2
    obtain ⟨hv2, -, -, -⟩ := hc3.props hv.1 hv.2.1 (by omega)
    split at h
    · rename_i c1
      exact ⟨D + incs % 16, y2, m2, d2, by omega, by omega, hc3, Or.inl (by unfold wlyDlyMaxYear at c1; omega)⟩
    · rename_i c1
      have hy99 : y2 ≤ 2099 := by unfold wlyDlyMaxYear at c1; omega
      split at h
      · rename_i hf
        obtain ⟨t, ht, hu⟩ := genEnum_fin c.r c.proto c.nti _ _ hp hv2 hy99 c.e.timesIx res
          (fun t ht => timesIx_good he ht) hf
        exact ⟨D + incs % 16, y2, m2, d2, by omega, by omega, hc3, Or.inr ⟨t, ht, hu⟩⟩
      · split at h
        · rename_i c3
          obtain ⟨hn3, hn4⟩ := hn2 c3.1
          obtain ⟨D', ty', tm', td', g1, g2⟩ :=
            ih (incs / 16) (D + incs % 16) y2 m2 d2 _ _ (b - incs % 16) res' hn4 (by omega) (by omega) hc3 h
          exact ⟨D', ty', tm', td', by omega, g2⟩
        · cases h

/-- a carry over `D + b` days goes through the date `D` days on -/
theorem carry_split {y m D b y1 m1 d1 y2 m2 d2 : Nat} (h1 : Carry y m D y1 m1 d1) (h2 : Carry y m (D + b) y2 m2 d2)
    (hm : 1 ≤ m ∧ m ≤ 12) (hD : 1 ≤ D) (hpot : pot y m (D + b) < 1000000000000) : Carry y1 m1 (d1 + b) y2 m2 d2 := by
  obtain ⟨hv1, hp1, -, -⟩ := h1.props hm.1 hm.2 hD
  obtain ⟨y3, m3, d3, -, hc⟩ := carryMon_spec (d1 + b + 1) y1 m1 (d1 + b) hv1.1 hv1.2.1 (by omega)
    (by unfold pot at hp1 hpot ⊢; omega)
  obtain ⟨e1, e2, e3⟩ := carry_det (h1.comp b y3 m3 d3 hc) h2
  rw [← e1, ← e2, ← e3]; exact hc

end Echse.Lemmas.RrRfc
