/-
  C03 — the merged event stream (`next_evmux`) is chronological, complete and, under a guard,
  duplicate-free; a peek is pure.

  Setting.  The sources are arbitrary sub-streams `ops : Ops σ` that *refine lists*
  (`Refines ops abs I`: on the states satisfying `I`, `peek`/`pop` answer the head of `abs s`,
  `pop` removes it, `peek` leaves it) of non-nul events in non-decreasing start order.  `listOps`
  (the array stream) is such a source (`lists_are_sources`), and so is a mux (`collapse_refines`),
  which covers nesting.  `m : Mux σ` is any state satisfying the representation invariant
  `MuxInv` (a fresh `Mux.make subs` does: `fresh`), `rem abs m` the lists its sources still stand
  for, a *script* a list of calls (`true` = pop, `false` = peek), `popped` the answers to its pops,
  `nn` drops the nul answers.  "Identical" is `evEq` (same uid, same start; the duration is not
  looked at by the C code), "twin" a second identical event.
  Statements only; the proofs are in Echse/Lemmas/Stream*.lean.
-/
import Echse.Lemmas.Stream6
import Echse.Lemmas.Stream7
namespace C03
open Echse.Stream

/-! ### the order underneath -/

/-- `evLt` is the strict part of the total preorder given by `key` … -/
theorem lt_is_key (a b : Event) : evLt a b = true ↔ key a.from_ < key b.from_ := evLt_iff a b
theorem lt_irrefl (a : Event) : evLt a a = false := evLt_irrefl a
theorem lt_trans {a b c : Event} (h1 : evLt a b = true) (h2 : evLt b c = true) : evLt a c = true :=
  evLt_trans h1 h2
theorem incomparable_iff (a b : Event) :
    (evLt a b = false ∧ evLt b a = false) ↔ key a.from_ = key b.from_ := evLt_incomp_iff a b
/-- … and on 64-bit words simultaneous means same start. -/
theorem key_injective {u v : Nat} (hu : u < 2^64) (hv : v < 2^64) (h : key u = key v) : u = v :=
  key_inj hu hv h

section
variable {σ : Type} {ops : Ops σ} {abs : σ → List Event} {I : σ → Prop}

/-! ### sources and states -/

/-- the array stream over nul-free sorted lists is a source -/
theorem lists_are_sources :
    Refines listOps id (fun l => NonNul l ∧ Sorted l) ∧
    ∀ l, (NonNul l ∧ Sorted l) → NonNul (id l) ∧ Sorted (id l) :=
  ⟨listOps_refines _ (fun _ h => ⟨h.1.tail, h.2.tail⟩), fun _ h => h⟩

/-- a freshly made mux satisfies the invariant and stands for the lists of its sources -/
theorem fresh {subs : List σ} (h : ∀ s ∈ subs, I s) :
    MuxInv abs I (Mux.make subs) ∧ rem abs (Mux.make subs) = subs.map abs :=
  ⟨MuxInv.make h, rfl⟩

/-- the invariant holds after any script, and the sources then stand for suffixes of their lists -/
theorem invariant (R : Refines ops abs I) (hsrc : ∀ s, I s → NonNul (abs s) ∧ Sorted (abs s))
    (m : Mux σ) (hm : MuxInv abs I m) (sc : List Bool) :
    MuxInv abs I (after (muxOps ops) m sc) :=
  (mux_script R (fun s hs => (hsrc s hs).1) sc m hm).2.2.1

/-! ### 1. order -/

/-- every answer is at most every event the sources still hold -/
theorem best_le_remaining (R : Refines ops abs I) (hsrc : ∀ s, I s → NonNul (abs s) ∧ Sorted (abs s))
    (m : Mux σ) (hm : MuxInv abs I m) (b : Bool) :
    ∀ l ∈ rem abs m, ∀ x ∈ l, evLt x (muxNext ops m b).1 = false := by
  rw [(mux_sim R (fun s hs => (hsrc s hs).1) m hm b).1]
  exact lstep_min (rem_valid hsrc hm) b

/-- the events returned by the pops of any script are in non-decreasing start order -/
theorem order (R : Refines ops abs I) (hsrc : ∀ s, I s → NonNul (abs s) ∧ Sorted (abs s))
    (m : Mux σ) (hm : MuxInv abs I m) (sc : List Bool) :
    ((popped (muxOps ops) m sc).filter nn).Pairwise (fun a b => evLt b a = false) := by
  rw [(mux_script R (fun s hs => (hsrc s hs).1) sc m hm).2.1]
  exact lpopped_sorted sc _ (rem_valid hsrc hm)

/-! ### 2. peek is pure -/

/-- a peek and a pop answer the same event -/
theorem peek_eq_pop (R : Refines ops abs I) (hsrc : ∀ s, I s → NonNul (abs s) ∧ Sorted (abs s))
    (m : Mux σ) (hm : MuxInv abs I m) : (muxNext ops m false).1 = (muxNext ops m true).1 := by
  rw [(mux_sim R (fun s hs => (hsrc s hs).1) m hm false).1,
    (mux_sim R (fun s hs => (hsrc s hs).1) m hm true).1]
  exact lstep_val _

/-- (no guard) a peek answers what the next call, peek or pop, answers -/
theorem peek_then_next (R : Refines ops abs I) (hsrc : ∀ s, I s → NonNul (abs s) ∧ Sorted (abs s))
    (m : Mux σ) (hm : MuxInv abs I m) (b : Bool) :
    (muxNext ops (muxNext ops m false).2 b).1 = (muxNext ops m false).1 := by
  have hnn : ∀ s, I s → NonNul (abs s) := fun s hs => (hsrc s hs).1
  obtain ⟨h1, h2, h3⟩ := mux_sim R hnn m hm false
  rw [(mux_sim R hnn _ h2 b).1, h3, h1]
  exact lstep_again_val (rem_valid hsrc hm) b

/-- if no source lists an occurrence twice, the mux refines the reference merge `muxAbs` of
what its sources still hold: in particular a peek changes nothing any later call returns -/
theorem peek_pure (R : Refines ops abs I) (hsrc : ∀ s, I s → NonNul (abs s) ∧ Sorted (abs s)) :
    Refines (muxOps ops) (muxAbs abs) (fun m => MuxInv abs I m ∧ ∀ l ∈ rem abs m, NoTwin l) :=
  mux_refines_of R hsrc (fun ls => ∀ l ∈ ls, NoTwin l) (fun _ p => p)
    (fun _ _ h p l' hl' => by
      obtain ⟨l, hl, hs⟩ := h.mem l' hl'
      exact (p l hl).suffix hs)

/-- … so the pops of any script deliver that merge in order, then nul -/
theorem popped_is_merge (R : Refines ops abs I) (hsrc : ∀ s, I s → NonNul (abs s) ∧ Sorted (abs s))
    (m : Mux σ) (hm : MuxInv abs I m) (hn : ∀ l ∈ rem abs m, NoTwin l) (sc : List Bool) :
    popped (muxOps ops) m sc = deliver (muxAbs abs m) (pops sc) :=
  (peek_pure R hsrc).popped_eq sc m ⟨hm, hn⟩

/-! ### 3. completeness, no invention, end of stream -/

/-- a script with at least as many pops as the sources hold events delivers every event of
every source — itself or an identical one -/
theorem complete_no_loss (R : Refines ops abs I) (hsrc : ∀ s, I s → NonNul (abs s) ∧ Sorted (abs s))
    (m : Mux σ) (hm : MuxInv abs I m) (sc : List Bool) (hsc : total (rem abs m) ≤ pops sc) :
    ∀ l ∈ rem abs m, ∀ x ∈ l, ∃ e ∈ popped (muxOps ops) m sc, evEq e x = true := by
  rw [(mux_script R (fun s hs => (hsrc s hs).1) sc m hm).2.1]
  exact lpopped_complete sc _ hsc

/-- every popped event is an event of some source -/
theorem no_invention (R : Refines ops abs I) (hsrc : ∀ s, I s → NonNul (abs s) ∧ Sorted (abs s))
    (m : Mux σ) (hm : MuxInv abs I m) (sc : List Bool) :
    ∀ e ∈ popped (muxOps ops) m sc, e.isNul = false → ∃ l ∈ rem abs m, e ∈ l := by
  rw [(mux_script R (fun s hs => (hsrc s hs).1) sc m hm).2.1]
  exact lpopped_mem sc _

/-- nul is answered exactly when all sources are exhausted -/
theorem end_iff (R : Refines ops abs I) (hsrc : ∀ s, I s → NonNul (abs s) ∧ Sorted (abs s))
    (m : Mux σ) (hm : MuxInv abs I m) (b : Bool) :
    (muxNext ops m b).1.isNul = true ↔ ∀ l ∈ rem abs m, l = [] := by
  rw [(mux_sim R (fun s hs => (hsrc s hs).1) m hm b).1]
  exact lstep_nul_iff (rem_valid hsrc hm) b

/-- once all sources are exhausted every call answers nul -/
theorem dead (R : Refines ops abs I) (hsrc : ∀ s, I s → NonNul (abs s) ∧ Sorted (abs s))
    (m : Mux σ) (hm : MuxInv abs I m) (h : ∀ l ∈ rem abs m, l = []) (sc : List Bool) :
    answers (muxOps ops) m sc = List.replicate sc.length Event.nul := by
  rw [(mux_script R (fun s hs => (hsrc s hs).1) sc m hm).1]
  exact lanswers_dead sc _ h

/-- after a nul answer every later call answers nul -/
theorem dead_after (R : Refines ops abs I) (hsrc : ∀ s, I s → NonNul (abs s) ∧ Sorted (abs s))
    (m : Mux σ) (hm : MuxInv abs I m) (b : Bool) (h : (muxNext ops m b).1.isNul = true) (sc : List Bool) :
    answers (muxOps ops) (muxNext ops m b).2 sc = List.replicate sc.length Event.nul := by
  have hnn : ∀ s, I s → NonNul (abs s) := fun s hs => (hsrc s hs).1
  obtain ⟨_, h2, h3⟩ := mux_sim R hnn m hm b
  refine dead R hsrc _ h2 ?_ sc
  rw [h3, lstep_empty ((end_iff R hsrc m hm b).mp h)]
  intro l hl; cases hl

/-! ### 4. collapse -/

/-- the guard: no source lists an occurrence twice, and an occurrence listed by two sources
is in both of them the only event at its instant (`Lone`, by key) -/
theorem guard_def (ls : List (List Event)) :
    Guard ls ↔ (∀ l ∈ ls, NoTwin l) ∧
      ls.Pairwise (fun l1 l2 => ∀ x ∈ l1, ∀ y ∈ l2, evEq x y = true →
        (∀ z ∈ l1, key z.from_ = key x.from_ → z = x) ∧ (∀ z ∈ l2, key z.from_ = key y.from_ → z = y)) :=
  Iff.rfl

/-- it holds if every source holds one UID per instant and no twins (every rule / rdate stream
of one event), starts being 64-bit words … -/
theorem guard_of_one_uid_per_instant {ls : List (List Event)} (hw : ∀ l ∈ ls, ∀ e ∈ l, e.from_ < 2^64)
    (h : ∀ l ∈ ls, NoTwin l ∧ ∀ a ∈ l, ∀ b ∈ l, a.from_ = b.from_ → a.oid = b.oid) : Guard ls :=
  guard_of_oneUid hw h

/-- … in the form with `Nodup`: if moreover no source lists one occurrence with two durations -/
theorem guard_of_nodup_one_uid {ls : List (List Event)} (hw : ∀ l ∈ ls, ∀ e ∈ l, e.from_ < 2^64)
    (h : ∀ l ∈ ls, l.Nodup ∧ ∀ a ∈ l, ∀ b ∈ l, a.from_ = b.from_ → a.oid = b.oid)
    (hd : ∀ l ∈ ls, ∀ a ∈ l, ∀ b ∈ l, evEq a b = true → a = b) : Guard ls :=
  guard_of_oneUid hw (oneUid_of_nodup h hd)

/-- … and it holds if no occurrence is listed by two different sources and none twice by one
(the condition that suffices at an outer level, where simultaneous UIDs do occur) -/
theorem guard_of_disjoint_sources {ls : List (List Event)}
    (h : (∀ l ∈ ls, NoTwin l) ∧ ls.Pairwise (fun l1 l2 => ∀ x ∈ l1, ∀ y ∈ l2, evEq x y = false)) :
    Guard ls :=
  guard_of_disjoint h

/-- under the guard no occurrence is popped twice, whatever the script -/
theorem collapse (R : Refines ops abs I) (hsrc : ∀ s, I s → NonNul (abs s) ∧ Sorted (abs s))
    (m : Mux σ) (hm : MuxInv abs I m) (hg : Guard (rem abs m)) (sc : List Bool) :
    ((popped (muxOps ops) m sc).filter nn).Pairwise (fun a b => evEq a b = false) ∧
    ((popped (muxOps ops) m sc).filter nn).Nodup := by
  rw [(mux_script R (fun s hs => (hsrc s hs).1) sc m hm).2.1]
  have := lpopped_notwin sc _ (rem_valid hsrc hm) hg
  exact ⟨this, this.nodup⟩

/-- the reference merge: duplicate-free (even up to duration), sorted, nul-free, and its events
are exactly the events of the sources with identical ones collapsed to one -/
theorem merge_spec {ls : List (List Event)} (hv : ∀ l ∈ ls, NonNul l ∧ Sorted l) (hg : Guard ls) :
    NoTwin (mergeRef ls) ∧ (mergeRef ls).Nodup ∧ Sorted (mergeRef ls) ∧ NonNul (mergeRef ls) ∧
    (∀ e ∈ mergeRef ls, ∃ l ∈ ls, e ∈ l) ∧
    (∀ l ∈ ls, ∀ x ∈ l, ∃ e ∈ mergeRef ls, evEq e x = true) :=
  ⟨mergeRef_notwin hv hg, (mergeRef_notwin hv hg).nodup, mergeRef_sorted hv, mergeRef_nonnul hv,
   mergeRef_sub hv, mergeRef_complete hv⟩

/-- if an occurrence determines its event (durations agree), membership is plain set union -/
theorem merge_mem_iff {ls : List (List Event)} (hv : ∀ l ∈ ls, NonNul l ∧ Sorted l)
    (hd : ∀ l ∈ ls, ∀ l' ∈ ls, ∀ a ∈ l, ∀ b ∈ l', evEq a b = true → a = b) (e : Event) :
    e ∈ mergeRef ls ↔ ∃ l ∈ ls, e ∈ l := by
  constructor
  · exact mergeRef_sub hv e
  · intro ⟨l, hl, he⟩
    obtain ⟨e', he', hq⟩ := mergeRef_complete hv l hl e he
    obtain ⟨l', hl', hm'⟩ := mergeRef_sub hv e' he'
    rw [← hd l' hl' l hl e' hm' e he hq]; exact he'

/-- the compositional statement: under the guard the mux refines the reference merge, and this
merge is again a nul-free, sorted, twin-free list — a source for the next level -/
theorem collapse_refines (R : Refines ops abs I) (hsrc : ∀ s, I s → NonNul (abs s) ∧ Sorted (abs s)) :
    Refines (muxOps ops) (muxAbs abs) (fun m => MuxInv abs I m ∧ Guard (rem abs m)) ∧
    ∀ m, (MuxInv abs I m ∧ Guard (rem abs m)) →
      NonNul (muxAbs abs m) ∧ Sorted (muxAbs abs m) ∧ NoTwin (muxAbs abs m) :=
  ⟨mux_refines_of R hsrc Guard (fun _ g => g.1) (fun _ _ h g => Guard.suf h g),
   fun _ h => ⟨mergeRef_nonnul (rem_valid hsrc h.1), mergeRef_sorted (rem_valid hsrc h.1),
     mergeRef_notwin (rem_valid hsrc h.1) h.2⟩⟩

/-- a mux of muxes: the theorem applied twice.  The outer guard speaks about the inner merges
(`rem (muxAbs abs) M`); these need not hold one UID per instant, `guard_of_disjoint_sources`
gives a condition that fits them. -/
theorem mux_of_mux (R : Refines ops abs I) (hsrc : ∀ s, I s → NonNul (abs s) ∧ Sorted (abs s)) :
    Refines (muxOps (muxOps ops)) (muxAbs (muxAbs abs))
      (fun M => MuxInv (muxAbs abs) (fun m => MuxInv abs I m ∧ Guard (rem abs m)) M ∧
        Guard (rem (muxAbs abs) M)) :=
  (collapse_refines (collapse_refines R hsrc).1
    (fun m h => ⟨((collapse_refines R hsrc).2 m h).1, ((collapse_refines R hsrc).2 m h).2.1⟩)).1

end

/-! ### unbounded sources: the prefix lemma -/

/-- The answers up to an instant depend only on the parts of the sources up to that instant.
Two muxes — possibly over different kinds of sub-streams, e.g. an unbounded rule stream and the
array of its first occurrences — whose source lists agree on the events with key ≤ `K`
(`Agree K`: pointwise a common part with keys ≤ `K`, then events later than `K` or nothing) give
the same first `n` answers to any script, as long as these answers are events with key ≤ `K`. -/
theorem prefix_determines {σ₁ σ₂ : Type} {ops₁ : Ops σ₁} {ops₂ : Ops σ₂}
    {abs₁ : σ₁ → List Event} {abs₂ : σ₂ → List Event} {I₁ : σ₁ → Prop} {I₂ : σ₂ → Prop}
    (R₁ : Refines ops₁ abs₁ I₁) (h₁ : ∀ s, I₁ s → NonNul (abs₁ s) ∧ Sorted (abs₁ s))
    (R₂ : Refines ops₂ abs₂ I₂) (h₂ : ∀ s, I₂ s → NonNul (abs₂ s) ∧ Sorted (abs₂ s))
    (m₁ : Mux σ₁) (hm₁ : MuxInv abs₁ I₁ m₁) (m₂ : Mux σ₂) (hm₂ : MuxInv abs₂ I₂ m₂)
    (K : Nat) (ha : Agree K (rem abs₁ m₁) (rem abs₂ m₂)) (sc : List Bool) (n : Nat)
    (h : ∀ e ∈ (answers (muxOps ops₁) m₁ sc).take n, e.isNul = false ∧ key e.from_ ≤ K) :
    (answers (muxOps ops₂) m₂ sc).take n = (answers (muxOps ops₁) m₁ sc).take n := by
  rw [(mux_script R₁ (fun s hs => (h₁ s hs).1) sc m₁ hm₁).1] at h ⊢
  rw [(mux_script R₂ (fun s hs => (h₂ s hs).1) sc m₂ hm₂).1]
  exact lanswers_prefix sc _ _ n ha h

/-- in particular, for array sources: appending to any of them events later than `K` does not
change the answers that are events with key ≤ `K` -/
theorem append_later_events (ls ext : List (List Event)) (hlen : ls.length = ext.length)
    (hv : ∀ l ∈ ls, NonNul l ∧ Sorted l) (hv' : ∀ l ∈ List.zipWith (· ++ ·) ls ext, NonNul l ∧ Sorted l)
    (K : Nat) (hx : ∀ x ∈ ext, ∀ e ∈ x, K < key e.from_) (sc : List Bool) (n : Nat)
    (h : ∀ e ∈ (answers (muxOps listOps) (Mux.make ls) sc).take n, e.isNul = false ∧ key e.from_ ≤ K) :
    (answers (muxOps listOps) (Mux.make (List.zipWith (· ++ ·) ls ext)) sc).take n
      = (answers (muxOps listOps) (Mux.make ls) sc).take n := by
  have R := (lists_are_sources).1
  refine prefix_determines R (fun _ h => h) R (fun _ h => h) (Mux.make ls) (MuxInv.make hv)
    (Mux.make (List.zipWith (· ++ ·) ls ext)) (MuxInv.make hv') K ?_ sc n h
  rw [rem_make, rem_make, List.map_id, List.map_id]
  exact agree_append K ls ext hlen (fun l hl => (hv l hl).2) hx

/-! ### 5. the guard is necessary (finding D42), and `Nodup` alone is not the right guard -/

/-- packed 2020-01-01T09:00:00.000 -/
def t0 : Nat := 0x07e4010109000000

/-- D42: two sources listing the same two simultaneous events in different order — all sources
sorted and duplicate-free — and `⟨t0,0,1⟩` is delivered twice: four pops answer three events
and then nul. -/
theorem D42_witness :
    popped (muxOps listOps) (Mux.make [[⟨t0,0,1⟩, ⟨t0,0,2⟩], [⟨t0,0,2⟩, ⟨t0,0,1⟩]]) [true, true, true, true]
      = [⟨t0,0,1⟩, ⟨t0,0,2⟩, ⟨t0,0,1⟩, Event.nul] := by decide

/-- the class of D42 as a predicate: the guard of the collapse; the witness violates it -/
def NoHiddenTwin (ls : List (List Event)) : Prop := Guard ls

theorem D42_is_unguarded :
    ¬ NoHiddenTwin [[⟨t0,0,1⟩, ⟨t0,0,2⟩], [⟨t0,0,2⟩, ⟨t0,0,1⟩]] := by
  unfold NoHiddenTwin Guard Shared Lone NoTwin; decide

/-- with plain `Nodup` in the guard (events compared with their duration) the collapse fails:
one UID, one instant, two durations -/
theorem nodup_guard_insufficient :
    popped (muxOps listOps) (Mux.make [[⟨t0,0,1⟩], [⟨t0,5,1⟩, ⟨t0,0,1⟩]]) [true, true, true]
      = [⟨t0,0,1⟩, ⟨t0,0,1⟩, Event.nul] := by decide

/-- an event may be lost as such when its twin has another duration: completeness holds up to
identity of (uid, start) only -/
theorem complete_only_up_to_duration :
    popped (muxOps listOps) (Mux.make [[⟨t0,0,1⟩], [⟨t0,5,1⟩]]) [true, true]
      = [⟨t0,0,1⟩, Event.nul] := by decide

/-- without the twin-freeness of the sources a peek is not pure: here the second answer is
`⟨t0,0,1⟩` again if the first call is a pop, but `⟨t0+1,0,1⟩` if a peek came first -/
theorem peek_impure_with_twins :
    answers (muxOps listOps) (Mux.make [[⟨t0,0,1⟩], [⟨t0,0,1⟩, ⟨t0,0,1⟩, ⟨t0+1,0,1⟩]]) [true, true]
      = [⟨t0,0,1⟩, ⟨t0,0,1⟩] ∧
    answers (muxOps listOps) (Mux.make [[⟨t0,0,1⟩], [⟨t0,0,1⟩, ⟨t0,0,1⟩, ⟨t0+1,0,1⟩]]) [false, true, true]
      = [⟨t0,0,1⟩, ⟨t0,0,1⟩, ⟨t0+1,0,1⟩] := by decide

-- the hypotheses are inhabited by a non-trivial instance (a shared occurrence, a simultaneous
-- other UID in another source, a collapse), and the reference merge is what one expects
example : (∀ l ∈ [[(⟨t0,0,1⟩ : Event), ⟨t0+1,0,1⟩], [⟨t0,0,1⟩, ⟨t0+1,0,2⟩]], NonNul l ∧ Sorted l) := by
  unfold NonNul Sorted; decide
example : Guard [[(⟨t0,0,1⟩ : Event), ⟨t0+1,0,1⟩], [⟨t0,0,1⟩, ⟨t0+1,0,2⟩]] := by
  unfold Guard Shared Lone NoTwin; decide
example : mergeRef [[⟨t0,0,1⟩, ⟨t0+1,0,1⟩], [⟨t0,0,1⟩, ⟨t0+1,0,2⟩]]
    = [⟨t0,0,1⟩, ⟨t0+1,0,1⟩, ⟨t0+1,0,2⟩] := by decide

end C03
