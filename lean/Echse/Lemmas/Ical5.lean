/-
  C10 lemmas, part 5: the model's fuelled loops (`pull`, `pullIns`, `pullEv`) as instances of one scheme
  `L (f+1) p = cont (L f) (step p)`: buffer untouched, progress, and more fuel than
  the progress measure changes nothing.
-/
import Echse.Lemmas.Ical4
namespace Echse.Ical

theorem cont_none (k : Parser → Parser × PullRes) (x : Parser × Option PullRes) (h : x.2 = none) :
    cont k x = k x.1 := by
  unfold cont; rw [h]

theorem cont_some (k : Parser → Parser × PullRes) (x : Parser × Option PullRes) (r : PullRes)
    (h : x.2 = some r) : cont k x = (x.1, r) := by
  unfold cont; rw [h]

structure IsLoop (L : Nat → Parser → Parser × PullRes) (step : Parser → Parser × Option PullRes) : Prop where
  zero : ∀ p, L 0 p = (p, .need)
  succ : ∀ f p, L (f+1) p = cont (L f) (step p)

/-- what a step must satisfy -/
structure GoodStep (step : Parser → Parser × Option PullRes) : Prop where
  buf : ∀ p, (step p).1.buf = p.buf
  mu : ∀ p, (step p).2 ≠ some .need → mu (step p).1 < mu p

section
variable {L : Nat → Parser → Parser × PullRes} {step : Parser → Parser × Option PullRes}

theorem loop_buf (hl : IsLoop L step) (hs : GoodStep step) : ∀ (f : Nat) (p : Parser), (L f p).1.buf = p.buf
  | 0, p => by rw [hl.zero]
  | f+1, p => by
    rw [hl.succ]
    cases h : (step p).2 with
    | none => rw [cont_none _ _ h, loop_buf hl hs f, hs.buf]
    | some r => rw [cont_some _ _ r h, hs.buf]

/-- whenever the loop reports something it has made progress -/
theorem loop_mu (hl : IsLoop L step) (hs : GoodStep step) : ∀ (f : Nat) (p : Parser),
    (L f p).2.isNeed = false → mu (L f p).1 < mu p
  | 0, p, hn => by rw [hl.zero] at hn; simp [PullRes.isNeed] at hn
  | f+1, p, hn => by
    rw [hl.succ] at hn ⊢
    cases h : (step p).2 with
    | none =>
      rw [cont_none _ _ h] at hn ⊢
      have h1 := loop_mu hl hs f _ hn
      have h2 := hs.mu p (by rw [h]; simp)
      omega
    | some r =>
      rw [cont_some _ _ r h] at hn ⊢
      refine hs.mu p ?_
      rw [h]; intro hr; cases hr; simp [PullRes.isNeed] at hn

/-- more fuel than the measure changes nothing -/
theorem loop_fuel (hl : IsLoop L step) (hs : GoodStep step) : ∀ (f k : Nat) (p : Parser),
    mu p < f → L (f + k) p = L f p
  | 0, k, p, h => by omega
  | f+1, k, p, h => by
    have e : f + 1 + k = (f + k) + 1 := by omega
    rw [e, hl.succ, hl.succ]
    cases hr : (step p).2 with
    | none =>
      rw [cont_none _ _ hr, cont_none _ _ hr]
      have h2 := hs.mu p (by rw [hr]; simp)
      exact loop_fuel hl hs f k _ (by omega)
    | some r => rw [cont_some _ _ r hr, cont_some _ _ r hr]

theorem loop_fuel' (hl : IsLoop L step) (hs : GoodStep step) (f g : Nat) (p : Parser)
    (hf : mu p < f) (hg : mu p < g) : L f p = L g p := by
  have h1 := loop_fuel hl hs (mu p + 1) (f - (mu p + 1)) p (by omega)
  have h2 := loop_fuel hl hs (mu p + 1) (g - (mu p + 1)) p (by omega)
  have e1 : mu p + 1 + (f - (mu p + 1)) = f := by omega
  have e2 : mu p + 1 + (g - (mu p + 1)) = g := by omega
  rw [e1] at h1; rw [e2] at h2
  rw [h1, h2]

end

theorem pull_isLoop : IsLoop pull round := ⟨pull_zero, pull_round⟩
theorem round_good : GoodStep round := ⟨round_buf, round_mu⟩

/-! ### `echs_evical_pull`, first loop -/

def resetMeth (p : Parser) : Parser := { p with comp := { p.comp with meth := none } }

def insStep (p : Parser) : Parser × Option PullRes :=
  match (pull (p.buf.length + 2) p).2 with
  | .eop => (resetMeth (pull (p.buf.length + 2) p).1, none)
  | r => ((pull (p.buf.length + 2) p).1, some r)

theorem pullIns_zero (p : Parser) : pullIns 0 p = (p, .need) := by rw [pullIns]

theorem pullIns_step (f : Nat) (p : Parser) : pullIns (f+1) p = cont (pullIns f) (insStep p) := by
  rw [pullIns]
  unfold insStep cont
  rcases pull (p.buf.length + 2) p with ⟨q, r⟩
  cases r <;> rfl

theorem pullIns_isLoop : IsLoop pullIns insStep := ⟨pullIns_zero, pullIns_step⟩

theorem mu_resetMeth (p : Parser) : mu (resetMeth p) = mu p := rfl

theorem insStep_good : GoodStep insStep := by
  refine ⟨?_, ?_⟩
  · intro p
    have := loop_buf pull_isLoop round_good (p.buf.length + 2) p
    unfold insStep
    split
    · exact this
    · exact this
  · intro p hn
    have := loop_mu pull_isLoop round_good (p.buf.length + 2) p
    unfold insStep at hn ⊢
    split
    · rename_i he
      rw [mu_resetMeth]; exact this (by rw [he]; rfl)
    · rename_i r hr
      split at hn
      · rename_i he; exact absurd he (hr)
      · refine this ?_
        cases hx : (pull (p.buf.length + 2) p).2 with
        | need => rw [hx] at hn; exact absurd rfl hn
        | eop => rfl
        | ve ls => rfl

/-! ### `echs_evical_pull`, second loop -/

def evStep (p : Parser) : Parser × Option PullRes :=
  match (pullIns (p.buf.length + 2) p).2 with
  | .ve ls =>
    if verbOf (pullIns (p.buf.length + 2) p).1.comp.meth ls == "X" then
      ((pullIns (p.buf.length + 2) p).1, none)
    else ((pullIns (p.buf.length + 2) p).1, some (.ve ls))
  | r => ((pullIns (p.buf.length + 2) p).1, some r)

theorem pullEv_zero (p : Parser) : pullEv 0 p = (p, .need) := by rw [pullEv]

theorem pullEv_step (f : Nat) (p : Parser) : pullEv (f+1) p = cont (pullEv f) (evStep p) := by
  rw [pullEv]
  unfold evStep cont
  rcases pullIns (p.buf.length + 2) p with ⟨q, r⟩
  cases r with
  | need => rfl
  | eop => rfl
  | ve ls =>
    dsimp only
    split <;> rfl

theorem pullEv_isLoop : IsLoop pullEv evStep := ⟨pullEv_zero, pullEv_step⟩

theorem evStep_fst (p : Parser) : (evStep p).1 = (pullIns (p.buf.length + 2) p).1 := by
  unfold evStep
  split
  · split <;> rfl
  · rfl

theorem evStep_good : GoodStep evStep := by
  refine ⟨?_, ?_⟩
  · intro p
    rw [evStep_fst]; exact loop_buf pullIns_isLoop insStep_good _ p
  · intro p hn
    rw [evStep_fst]
    refine loop_mu pullIns_isLoop insStep_good _ p ?_
    cases hx : (pullIns (p.buf.length + 2) p).2 with
    | need =>
      unfold evStep at hn
      rw [hx] at hn
      exact absurd rfl hn
    | eop => rfl
    | ve ls => rfl

end Echse.Ical
