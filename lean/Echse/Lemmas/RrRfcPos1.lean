/-
  BYSETPOS for the daily and the weekly filler, part 1 (lists): indexing a `flatMap` of blocks of equal length, the
  position of a triple in the time enumeration, and cutting an ascending list at one of its members.
-/
import Echse.Lemmas.RrRfcBase5
namespace Echse.Lemmas.RrRfc
open Echse.Rrule Echse.Instant Echse.Spec.RrOk Echse.Spec.Cal Echse.Spec.RuleExt Echse.Spec.Rfc
open Echse.Lemmas.RrOkBase

theorem flatMap_length_const {α β : Type} (l : List α) (f : α → List β) (n : Nat) (hn : ∀ a ∈ l, (f a).length = n) :
    (l.flatMap f).length = l.length * n := by
  induction l with
  | nil => simp
  | cons a as ih =>
    rw [List.flatMap_cons, List.length_append, hn a List.mem_cons_self,
      ih (fun b hb => hn b (List.mem_cons_of_mem _ hb)), List.length_cons, Nat.succ_mul]
    omega

theorem flatMap_getElem? {α β : Type} (l : List α) (f : α → List β) (n : Nat) (hn : ∀ a ∈ l, (f a).length = n)
    (i j : Nat) (hj : j < n) : (l.flatMap f)[i * n + j]? = (l[i]?).bind (fun a => (f a)[j]?) := by
  induction l generalizing i with
  | nil => simp
  | cons a as ih =>
    have ha := hn a List.mem_cons_self
    rw [List.flatMap_cons]
    cases i with
    | zero =>
      rw [Nat.zero_mul, Nat.zero_add, List.getElem?_append_left (by omega)]
      simp
    | succ i' =>
      rw [List.getElem?_append_right (by rw [ha, Nat.succ_mul]; omega)]
      have e : (i' + 1) * n + j - (f a).length = i' * n + j := by rw [ha, Nat.succ_mul]; omega
      rw [e, ih (fun b hb => hn b (List.mem_cons_of_mem _ hb))]
      simp

/-- cutting an ascending list before one of its members -/
theorem sorted_take {α : Type} (L : List α) (key : α → Int) (hpw : L.Pairwise (fun a b => key a < key b)) (i : Nat)
    (hi : i < L.length) (a : α) : a ∈ L.take i ↔ a ∈ L ∧ key a < key L[i] := by
  rw [List.pairwise_iff_getElem] at hpw
  constructor
  · intro h
    obtain ⟨k, hk, e⟩ := List.mem_take_iff_getElem.1 h
    have hk' : k < i := by omega
    refine ⟨List.mem_of_mem_take h, ?_⟩
    rw [← e]
    exact hpw k i (by omega) hi hk'
  · rintro ⟨h1, h2⟩
    obtain ⟨k, hk, e⟩ := List.mem_iff_getElem.1 h1
    have hki : k < i := by
      by_cases c : k < i
      · exact c
      · exfalso
        by_cases c2 : k = i
        · subst c2; rw [← e] at h2; omega
        · have := hpw i k hi hk (by omega)
          rw [← e] at h2; omega
    exact List.mem_take_iff_getElem.2 ⟨k, by omega, e⟩

/-- … and after it -/
theorem sorted_drop {α : Type} (L : List α) (key : α → Int) (hpw : L.Pairwise (fun a b => key a < key b)) (i : Nat)
    (hi : i < L.length) (a : α) : a ∈ L.drop (i + 1) ↔ a ∈ L ∧ key L[i] < key a := by
  rw [List.pairwise_iff_getElem] at hpw
  constructor
  · intro h
    obtain ⟨k, hk, e⟩ := List.mem_drop_iff_getElem.1 h
    refine ⟨List.mem_of_mem_drop h, ?_⟩
    rw [← e]
    exact hpw i (i + 1 + k) hi (by omega) (by omega)
  · rintro ⟨h1, h2⟩
    obtain ⟨k, hk, e⟩ := List.mem_iff_getElem.1 h1
    have hki : i < k := by
      by_cases c : i < k
      · exact c
      · exfalso
        by_cases c2 : k = i
        · subst c2; rw [← e] at h2; omega
        · have := hpw k i hk hi (by omega)
          rw [← e] at h2; omega
    refine List.mem_drop_iff_getElem.2 ⟨k - (i + 1), by omega, ?_⟩
    have e2 : i + 1 + (k - (i + 1)) = k := by omega
    simp only [e2]; exact e

theorem nodup_of_sorted {α : Type} (L : List α) (key : α → Int) (hpw : L.Pairwise (fun a b => key a < key b)) :
    L.Nodup := by
  refine hpw.imp ?_
  intro a b h e; rw [e] at h; omega

theorem lt_of_getElem? {l : List Nat} {i a : Nat} (h : l[i]? = some a) : i < l.length := by
  obtain ⟨hi, _⟩ := List.getElem?_eq_some_iff.1 h
  exact hi

theorem timesIx_inner_len (e : Enum) (p : Nat × Nat) :
    (e.M.zipIdx.flatMap fun (m, iM) => e.S.zipIdx.map fun (s, iS) => ((p.2, iM, iS), (p.1, m, s))).length =
      e.M.length * e.S.length := by
  have := flatMap_length_const e.M.zipIdx
    (fun (q : Nat × Nat) => e.S.zipIdx.map fun (s, iS) => ((p.2, q.2, iS), (p.1, q.1, s))) e.S.length
    (fun a _ => by simp)
  rw [List.length_zipIdx] at this
  exact this

theorem timesIx_length (e : Enum) : e.timesIx.length = e.H.length * (e.M.length * e.S.length) := by
  unfold Enum.timesIx
  have := flatMap_length_const e.H.zipIdx
    (fun (p : Nat × Nat) => e.M.zipIdx.flatMap fun (m, iM) => e.S.zipIdx.map fun (s, iS) => ((p.2, iM, iS), (p.1, m, s)))
    (e.M.length * e.S.length) (fun a _ => timesIx_inner_len e a)
  rw [List.length_zipIdx] at this
  exact this

theorem timesIx_get (e : Enum) (iH iM iS h mi s : Nat) (h1 : e.H[iH]? = some h) (h2 : e.M[iM]? = some mi)
    (h3 : e.S[iS]? = some s) :
    e.timesIx[iH * (e.M.length * e.S.length) + (iM * e.S.length + iS)]? = some ((iH, iM, iS), (h, mi, s)) := by
  have l1 := lt_of_getElem? h1
  have l2 := lt_of_getElem? h2
  have l3 := lt_of_getElem? h3
  have hlt : iM * e.S.length + iS < e.M.length * e.S.length := by
    have : (iM + 1) * e.S.length ≤ e.M.length * e.S.length := Nat.mul_le_mul_right _ l2
    rw [Nat.succ_mul] at this; omega
  unfold Enum.timesIx
  have a := flatMap_getElem? e.H.zipIdx
    (fun (p : Nat × Nat) => e.M.zipIdx.flatMap fun (m, iM) => e.S.zipIdx.map fun (s, iS) => ((p.2, iM, iS), (p.1, m, s)))
    (e.M.length * e.S.length) (fun a _ => timesIx_inner_len e a) iH (iM * e.S.length + iS) hlt
  have b := flatMap_getElem? e.M.zipIdx
    (fun (q : Nat × Nat) => e.S.zipIdx.map fun (s, iS) => ((iH, q.2, iS), (h, q.1, s))) e.S.length
    (fun a _ => by simp) iM iS l3
  rw [List.getElem?_zipIdx, h1] at a
  rw [List.getElem?_zipIdx, h2] at b
  simp only [Option.map_some, Option.bind_some, Nat.zero_add] at a b
  rw [List.getElem?_map, List.getElem?_zipIdx, h3] at b
  simp only [Option.map_some, Nat.zero_add] at b
  rw [← b, ← a]

end Echse.Lemmas.RrRfc
