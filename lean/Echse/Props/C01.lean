/-
  Property C01: RRULE expansion equals the RFC 5545 recurrence set.

  Specification: Echse/Spec/Rfc5545.lean (instances per frequency from the RFC's expand/limit table, BYSETPOS,
  DTSTART, UNTIL), written independently of the code.  Models: Echse/Model/Rr*.lean, the transcribed fillers
  `rrul_fill_*` (tied to src/evrrul.c by the call-level correspondence run of the checks).

  Per filler call `fillX r p n = some l` (seed `p` = DTSTART or the occurrence held back before a refill):
    * none extra   : every `x ∈ l` is an instance of the rule anchored at the seed and passes BYSETPOS;
    * none missing : every instance `x` (passing BYSETPOS, not before the seed, not after UNTIL, not after 2099) is in `l`,
                     or `l` is full (`cap` = what `nti` and COUNT allow) and `x` comes after all of `l`.
  Together with C16 (`FillOk`: ascending, bounded) `l` is exactly the first `cap` members of the recurrence set from
  the seed on; C16's stream theorem carries this across refills (the seed of a refill is an occurrence).

  Status: SECONDLY, MINUTELY, HOURLY, DAILY, WEEKLY — proved in full, BYSETPOS included.
          MONTHLY, YEARLY — see the end of the file.
  The proofs are in Echse/Lemmas/RrSubRfc*, RrSlyRfc*, RrMnlyRfc*, RrHlyRfc*, RrRfcBase*, RrRfcPos*, RrDlyRfc*, RrDlyPos*,
  RrWlyRfc*, RrWlyPos*.
-/
import Echse.Lemmas.RrSlyRfc3
import Echse.Lemmas.RrMnlyRfc4
import Echse.Lemmas.RrHlyRfc4
import Echse.Lemmas.RrDlyRfc
import Echse.Lemmas.RrWlyRfc
namespace C01
open Echse.Rrule Echse.Instant Echse.Spec.RrOk Echse.Spec.Rfc
open Echse.Lemmas.RrSubRfc Echse.Lemmas.RrRfc

/-- hypotheses shared by all statements: a parser-producible Gregorian rule, a sane seed in the years in which echse's
leap rule is the Gregorian one, and no BYHOUR/BYMINUTE/BYSECOND on a DATE-valued seed (RFC 5545 forbids them there;
the code does not ignore them: `Echse.Lemmas.RrDlyRfc` records the counterexample) -/
structure Pre (r : Rule) (p : Inst) : Prop where
  rule : WfRule r
  seed : WfInst p
  year : 1901 ≤ p.y
  kind : SeedOk r p

/-! ### FREQ=DAILY -/

theorem daily_none_extra (r : Rule) (p : Inst) (n : Nat) (l : List Inst) (h0 : Pre r p) (hn : n ≤ 64)
    (hf : r.pos ≠ [] → r.freq = 4) (h : fillDly r p n = some l) : ∀ x ∈ l, DailyInst r p x ∧ SetposOk r p x :=
  Echse.Lemmas.RrDlyRfc.fillDly_sound r p n l h0.rule h0.seed h0.kind hn h0.year hf h

theorem daily_none_missing (r : Rule) (p : Inst) (n : Nat) (l : List Inst) (h0 : Pre r p) (hn : n ≤ 64)
    (hf : r.pos ≠ [] → r.freq = 4) (h : fillDly r p n = some l)
    (x : Inst) (hx : DailyInst r p x) (hsp : SetposOk r p x) (hge : absOf p ≤ absOf x)
    (hle : ltP r.untl x = false) (hxy : x.y ≤ 2099) :
    x ∈ l ∨ (l.length = capOf r n ∧ ∀ z ∈ l, ltP z x = true) :=
  Echse.Lemmas.RrDlyRfc.fillDly_complete r p n l h0.rule h0.seed h0.kind hn h0.year hf h x hx hsp hge hle hxy

/-! ### FREQ=WEEKLY (weeks start on Monday) -/

theorem weekly_none_extra (r : Rule) (p : Inst) (n : Nat) (l : List Inst) (h0 : Pre r p) (hn : n ≤ 64)
    (hf : r.pos ≠ [] → r.freq = 3) (h : fillWly r p n = some l) : ∀ x ∈ l, WeeklyInst r p x ∧ SetposOk r p x :=
  Echse.Lemmas.RrWlyRfc.fillWly_sound r p n l h0.rule h0.seed h0.kind hn h0.year hf h

theorem weekly_none_missing (r : Rule) (p : Inst) (n : Nat) (l : List Inst) (h0 : Pre r p) (hn : n ≤ 64)
    (hf : r.pos ≠ [] → r.freq = 3) (h : fillWly r p n = some l)
    (x : Inst) (hx : WeeklyInst r p x) (hsp : SetposOk r p x) (hge : absOf p ≤ absOf x)
    (hle : ltP r.untl x = false) (hxy : x.y ≤ 2099) :
    x ∈ l ∨ (l.length = capOf r n ∧ ∀ z ∈ l, ltP z x = true) :=
  Echse.Lemmas.RrWlyRfc.fillWly_complete r p n l h0.rule h0.seed h0.kind hn h0.year hf h x hx hsp hge hle hxy

/-! ### FREQ=HOURLY / MINUTELY / SECONDLY
  `seedT p` is the seed as these fillers read it (a DATE-valued seed — outside RFC 5545 for these frequencies — counts
  as 00:00:00 of its day; for a date-time seed `seedT p = p`). -/

theorem hourly_none_extra (r : Rule) (p : Inst) (n : Nat) (l : List Inst) (hr : WfRule r) (hp : WfInst p) (hy : 1901 ≤ p.y)
    (hf : r.freq = 5) (h : fillHly r p n = some l) : ∀ x ∈ l, HourlyInst r (seedT p) x ∧ SetposOk r (seedT p) x :=
  fun x hx => ⟨Echse.Lemmas.RrHlyRfc.fillHly_sound_gen r p n l hr hp hy h x hx,
               Echse.Lemmas.RrHlyRfc.fillHly_setpos_gen r p n l hr hp hy hf h x hx⟩

theorem hourly_none_missing (r : Rule) (p : Inst) (n cap : Nat) (l : List Inst) (hr : WfRule r) (hp : WfInst p)
    (hy : 1901 ≤ p.y) (hf : r.freq = 5) (hcap : capNti r n = some cap) (h : fillHly r p n = some l)
    (x : Inst) (hx : HourlyInst r (seedT p) x) (hsp : SetposOk r (seedT p) x) (hge : absOf (seedT p) ≤ absOf x)
    (hu : ltP r.untl x = false) (hxy : x.y ≤ 2099) :
    x ∈ l ∨ (l.length = cap ∧ ∀ z ∈ l, ltP z x = true) :=
  Echse.Lemmas.RrHlyRfc.fillHly_complete_pos_gen r p n cap l hr hp hy hf hcap h x hx hsp hge hu hxy

theorem minutely_none_extra (r : Rule) (p : Inst) (n : Nat) (l : List Inst) (hr : WfRule r) (hp : WfInst p) (hy : 1901 ≤ p.y)
    (hf : r.freq = 6) (h : fillMnly r p n = some l) : ∀ x ∈ l, MinutelyInst r (seedT p) x ∧ SetposOk r (seedT p) x :=
  fun x hx => ⟨Echse.Lemmas.RrMnlyRfc.fillMnly_sound_gen r p n l hr hp hy h x hx,
               Echse.Lemmas.RrMnlyRfc.fillMnly_setpos_gen r p n l hr hp hy hf h x hx⟩

theorem minutely_none_missing (r : Rule) (p : Inst) (n cap : Nat) (l : List Inst) (hr : WfRule r) (hp : WfInst p)
    (hy : 1901 ≤ p.y) (hf : r.freq = 6) (hcap : capNti r n = some cap) (h : fillMnly r p n = some l)
    (x : Inst) (hx : MinutelyInst r (seedT p) x) (hsp : SetposOk r (seedT p) x) (hge : absOf (seedT p) ≤ absOf x)
    (hu : ltP r.untl x = false) (hxy : x.y ≤ 2099) :
    x ∈ l ∨ (l.length = cap ∧ ∀ z ∈ l, ltP z x = true) :=
  Echse.Lemmas.RrMnlyRfc.fillMnly_complete_pos_gen r p n cap l hr hp hy hf hcap h x hx hsp hge hu hxy

theorem secondly_none_extra (r : Rule) (p : Inst) (n : Nat) (l : List Inst) (hr : WfRule r) (hp : WfInst p) (hy : 1901 ≤ p.y)
    (hf : r.freq = 7) (h : fillSly r p n = some l) : ∀ x ∈ l, SecondlyInst r (seedT p) x ∧ SetposOk r (seedT p) x :=
  fun x hx => ⟨Echse.Lemmas.RrSlyRfc.fillSly_sound_gen r p n l hr hp hy h x hx,
               Echse.Lemmas.RrSlyRfc.fillSly_setpos_gen r p n l hr hp hf h x hx⟩

theorem secondly_none_missing (r : Rule) (p : Inst) (n cap : Nat) (l : List Inst) (hr : WfRule r) (hp : WfInst p)
    (hy : 1901 ≤ p.y) (hf : r.freq = 7) (hcap : capNti r n = some cap) (h : fillSly r p n = some l)
    (x : Inst) (hx : SecondlyInst r (seedT p) x) (hsp : SetposOk r (seedT p) x)
    (hu : ltP r.untl x = false) (hxy : x.y ≤ 2099) :
    x ∈ l ∨ (l.length = cap ∧ ∀ z ∈ l, ltP z x = true) :=
  Echse.Lemmas.RrSlyRfc.fillSly_complete_pos_gen r p n cap l hr hp hy hf hcap h x hx hsp hu hxy

/-- for a date-time seed the sub-daily statements are about the seed itself -/
theorem seedT_of_timed (p : Inst) (h : p.H ≠ allDay) : seedT p = p := by unfold seedT; rw [if_neg h]

/-! ### the daily filler's hand-over to the weekly one is sound -/
theorem weekly_of_daily {r : Rule} {p x : Inst} (h1 : plainDays r ≠ []) (h2 : r.inter = 1) (hx : DailyInst r p x) :
    WeeklyInst r p x := Echse.Lemmas.RrDlyRfc.weekly_of_daily h1 h2 hx

end C01
