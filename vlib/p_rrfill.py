"""Correspondence of the filler models (Echse.Model.Rr*) with rrul_fill_* in src/evrrul.c: the same
`r.fill RULE | proto=… nti=…` lines go to the harness (real fillers on a cache pre-filled with proto) and to the Lean
model; a chain of fills imitates refill(): the last instant of a full cache seeds the next call, COUNT is decremented."""
import re

from . import rrgen, p_strm
from .common import hex16, diff_lines

FREQNO = {"YEARLY": 1, "MONTHLY": 2, "WEEKLY": 3, "DAILY": 4, "HOURLY": 5, "MINUTELY": 6, "SECONDLY": 7}


def proto_hex(ds):
    if ds[3] is None:
        return hex16(ds[0], ds[1], ds[2], 255, 0, 0, 0)       # what dt_strp gives for a DATE (checked against r.strm ds=)
    return hex16(ds[0], ds[1], ds[2], ds[3], ds[4], ds[5], 1023)


def with_count(struct, cnt):
    return re.sub(r"count=-?\d+", "count=%d" % cnt, struct)


def chains(ctx, exe, cases, rng, nfills=3, extra=None):
    """cases: (dtstart, Rule).  Returns (ops, impl answers, model answers).  `extra`: text appended to the rule (extensions)."""
    texts = [r.text() + (extra(rng) if extra else "") for _, r in cases]
    structs, st, err = ctx.impl(exe, ["r.parse " + t.encode().hex() for t in texts])
    # DATE protos: let the implementation say what dt_strp makes of the text
    ops_all, impl_all, model_all = [], [], []
    state = []
    for i, (ds, r) in enumerate(cases):
        s = structs[i]
        m = re.search(r"count=(-?\d+)", s)
        state.append({"struct": s, "count": int(m.group(1)), "proto": proto_hex(ds), "done": False})
    for rnd in range(nfills):
        ops, idx = [], []
        for i, stt in enumerate(state):
            if stt["done"]:
                continue
            nti = 64 if rng.random() < 0.7 else rng.choice([1, 2, 3, 5, 17, 63])
            stt["nti"] = nti
            ops.append("r.fill %s | proto=%s nti=%d" % (with_count(stt["struct"], stt["count"]), stt["proto"], nti))
            idx.append(i)
        if not ops:
            break
        impl, st, err = ctx.impl(exe, ops, timeout=30)
        model = ctx.model(ops)
        ops_all += ops
        impl_all += impl + ["<no answer>"] * (len(ops) - len(impl))
        model_all += model + ["<no answer>"] * (len(ops) - len(model))
        for k, i in enumerate(idx):
            a = impl[k] if k < len(impl) else "<"
            stt = state[i]
            if a.startswith("<") or " " not in a:
                stt["done"] = True
                continue
            vals = a.split(" ", 1)[1].split(",")
            n = len(vals)
            # refill(): a full cache keeps its last entry as the next seed
            if n >= stt["nti"] and stt["nti"] == 64:
                stt["proto"] = vals[-1]
                n -= 1
            else:
                stt["done"] = True
            if stt["count"] > 0:
                stt["count"] = max(0, stt["count"] - n)
                if stt["count"] == 0:
                    stt["done"] = True
    return ops_all, impl_all, model_all


def compare(ops, impl, model):
    unm = sum(1 for m in model if m == "unmodelled")
    d = [x for x in diff_lines(ops, impl, model) if x[3] != "unmodelled"]
    return d, unm
