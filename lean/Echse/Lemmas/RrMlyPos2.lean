/-
  BYSETPOS for the monthly filler, part 2 (specification side): a month's list is ascending in the specification's
  order and holds exactly the instances of the month's period, so `SetposOk` for its entry `i` is `PosSel` on `i`
  (`mE_setpos`).
-/
import Echse.Lemmas.RrMlyPos1
import Echse.Lemmas.RrRfcPos2
import Echse.Lemmas.RrCandPos1
namespace Echse.Lemmas.RrMlyRfc
open Echse.Rrule Echse.Instant Echse.Spec.RrOk Echse.Lemmas.RrCandOk Echse.Spec.Rfc Echse.Lemmas.RrRfc
open Echse.Lemmas.RrCandRfc Echse.Lemmas.RrMlyOk Echse.Spec.Cal Echse.Spec.RuleExt Echse.Lemmas.RrOkBase

/-- instants of the seed's kind are ordered by `absOf` as the code's comparison orders them -/
theorem abs_lt_of_ltP {p a b : Inst} (hp : WfInst p) (ha : SameKind p a) (hb : SameKind p b)
    (hay : a.y ≤ 2099) (hby : b.y ≤ 2099) (h : ltP a b = true) : absOf a < absOf b := by
  have hva : VDs a.y a.m a.d := ⟨ha.1, ha.2.1, ha.2.2.1, ha.2.2.2.1⟩
  have hvb : VDs b.y b.m b.d := ⟨hb.1, hb.2.1, hb.2.2.1, hb.2.2.2.1⟩
  have hpt := hp.time
  have hpms := hp.ms
  have ka := kindOk_of_same ha
  have kb := kindOk_of_same hb
  have a31 := hva.d31
  have b31 := hvb.d31
  have hia : InR a := by
    unfold KindOk allDay at ka; unfold allDay at hpt
    exact ⟨by omega, by have := hva.2.1; omega, by omega, by omega, by omega, by omega, by rw [ha.2.2.2.2.1]; exact hpms⟩
  have hib : InR b := by
    unfold KindOk allDay at kb; unfold allDay at hpt
    exact ⟨by omega, by have := hvb.2.1; omega, by omega, by omega, by omega, by omega, by rw [hb.2.2.2.2.1]; exact hpms⟩
  have hk := (ltP_key a b hia hib (by rw [ha.2.2.2.2.1, hb.2.2.2.2.1])).1 h
  have hkt : KindT b a := by
    unfold KindT; unfold KindOk at ka kb; unfold allDay at hpt ka kb ⊢
    rcases ka with ⟨k1, k2, k3, k4⟩ | ⟨k1, k2, k3, k4⟩
    · rcases kb with ⟨l1, l2, l3, l4⟩ | ⟨l1, l2, l3, l4⟩
      · left; exact ⟨l2, k2, by omega, by omega, by omega, by omega⟩
      · exact absurd k1 l1
    · rcases kb with ⟨l1, l2, l3, l4⟩ | ⟨l1, l2, l3, l4⟩
      · exact absurd l1 k1
      · right; exact ⟨l2, l3, l4, k2, k3, k4⟩
  by_cases c : absOf a < absOf b
  · exact c
  · have := ikey_le_of_abs hvb hva hkt (by omega)
    omega

theorem mE_abs_sorted (r : Rule) (p : Inst) (nti : Nat) (hr : WfRule r) (hp : WfInst p)
    (hsup : MlySup r) (hy : 1901 ≤ p.y) (q : Nat × Int) (hq : mReach r p q) (hq2 : q.1 ≤ 2099) :
    (mE r p nti q).Pairwise (fun a b => absOf a < absOf b) := by
  have hsorted := (mly_loopHyp r p nti hr hp hsup hy).sorted q hq hq2
  refine List.Pairwise.imp_of_mem ?_ hsorted
  intro a b ha hb hab
  have ia := mE_inst r p nti hr hp hsup hy q hq hq2 a ha
  have ib := mE_inst r p nti hr hp hsup hy q hq hq2 b hb
  have fa := mE_fields r p nti hr hp hsup hy q hq hq2 a ha
  have fb := mE_fields r p nti hr hp hsup hy q hq hq2 b hb
  exact abs_lt_of_ltP hp ia.1 ib.1 (by rw [fa.1]; exact hq2) (by rw [fb.1]; exact hq2) hab

/-- the month's list holds exactly the instances of the month's period -/
theorem mE_hchar (r : Rule) (p : Inst) (nti : Nat) (hr : WfRule r) (hp : WfInst p)
    (hsup : MlySup r) (hy : 1901 ≤ p.y) (hf : r.freq = 2) (q : Nat × Int) (hq : mReach r p q) (hq2 : q.1 ≤ 2099)
    (x : Inst) (hx : x ∈ mE r p nti q) (u : Inst) :
    u ∈ mE r p nti q ↔ Instance r p u ∧ periodOf r.freq u = periodOf r.freq x := by
  have fx := mE_fields r p nti hr hp hsup hy q hq hq2 x hx
  have h1 := hq.1
  have h2 := hq.2.1
  have h3 := hq.2.2.1
  rw [instance_mly r p u hf, period_mly r u hf, period_mly r x hf]
  constructor
  · intro hu
    have fu := mE_fields r p nti hr hp hsup hy q hq hq2 u hu
    exact ⟨mE_inst r p nti hr hp hsup hy q hq hq2 u hu, by rw [fu.1, fu.2, fx.1, fx.2]⟩
  · rintro ⟨hi, hpe⟩
    obtain ⟨b1, _, _, b4, b5⟩ := (mlyInst_iff r p u).1 hi
    have hxm : 1 ≤ x.m ∧ x.m ≤ 12 := by rw [fx.2]; omega
    obtain ⟨e1, e2⟩ := pIdx_of_period ⟨b1.1, b1.2.1⟩ hxm hpe
    obtain ⟨t1, t2, t3⟩ := enum_of_exp hp (kindOk_of_same b1) b5
    exact (mem_mE_iff r p nti hr hp hsup q.1 q.2 ⟨by omega, hq2⟩ ⟨h1, h2⟩ u).2
      ⟨by rw [e1, fx.1], by rw [e2, fx.2], b1.2.2.1, b1.2.2.2.1, b4, b1.2.2.2.2.1, t1, t2, t3⟩

theorem posSel_iff_match (pos : List Int) (i n : Nat) (hi : i < n) :
    posMatchP pos (i + 1) n = true ↔ PosSel pos i n := by
  rw [posMatchP_iff]
  unfold PosSel
  apply exists_congr; intro q
  apply and_congr Iff.rfl
  constructor
  · rintro (⟨a, b⟩ | ⟨a, b⟩)
    · left; exact ⟨a, by omega⟩
    · right; exact ⟨a, by omega⟩
  · rintro (⟨a, b⟩ | ⟨a, b⟩)
    · left; exact ⟨a, by omega⟩
    · right; exact ⟨a, by omega⟩

/-- BYSETPOS for entry `i` of a month's list -/
theorem mE_setpos (r : Rule) (p : Inst) (nti : Nat) (hr : WfRule r) (hp : WfInst p)
    (hsup : MlySup r) (hy : 1901 ≤ p.y) (hf : r.freq = 2) (hpos : r.pos ≠ []) (q : Nat × Int) (hq : mReach r p q)
    (hq2 : q.1 ≤ 2099) (x : Inst) (i : Nat) (hi : (mE r p nti q)[i]? = some x) :
    SetposOk r p x ↔ PosSel r.pos i (mE r p nti q).length := by
  have hx : x ∈ mE r p nti q := List.mem_of_getElem? hi
  have hil : i < (mE r p nti q).length := (List.getElem?_eq_some_iff.1 hi).1
  rw [setpos_iff r p x hpos (mE r p nti q) (mE_abs_sorted r p nti hr hp hsup hy q hq hq2) i hi
    (mE_hchar r p nti hr hp hsup hy hf q hq hq2 x hx), posSel_iff_match r.pos i _ hil]

end Echse.Lemmas.RrMlyRfc
