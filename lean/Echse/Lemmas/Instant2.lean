import Echse.Lemmas.Instant1
/-
  The month loops of `echs_instant_add` (`addUp`, `addDown`) reach their exit and keep
  `days y m 1 + d` invariant; `addDays`.
-/
namespace Echse.Instant
open Echse.Gen Echse.Spec.Cal

theorem year_ge_of_days (y m d : Nat) (h1 : 1 ≤ m) (h2 : m ≤ 12) (hd : d ≤ monthLen y m)
    (h : days 1901 1 1 ≤ days y m d) : 1901 ≤ y := by
  by_cases c : y < 1901
  · have := days_lt_of_lex y m d 1901 1 1 h1 h2 hd (by omega) (by omega) (by omega) (Or.inl c)
    omega
  · omega

theorem year_le_of_days (y m d : Nat) (h1 : 1 ≤ m) (h2 : m ≤ 12) (hd : 1 ≤ d)
    (h : days y m d < days 2100 1 1) : y ≤ 2099 := by
  by_cases c : 2099 < y
  · have := days_year_mono 2100 y (by omega)
    have := days_month_mono y 1 m (by omega) h1 h2
    have := days_d y m d
    omega
  · omega

theorem days_ge_1901 (y m d : Nat) (hy : 1901 ≤ y) (h1 : 1 ≤ m) (h2 : m ≤ 12) (hd : 1 ≤ d) :
    days 1901 1 1 ≤ days y m d := by
  have := days_year_mono 1901 y hy
  have := days_month_mono y 1 m (by omega) h1 h2
  have := days_d y m d
  omega

theorem days_lt_2100 (y m d : Nat) (hy : y ≤ 2099) (h1 : 1 ≤ m) (h2 : m ≤ 12) (hd : d ≤ monthLen y m) :
    days y m d < days 2100 1 1 :=
  days_lt_of_lex y m d 2100 1 1 h1 h2 hd (by omega) (by omega) (by omega) (Or.inl (by omega))

theorem addUp_spec : ∀ (fuel y m : Nat) (d : Int), 1901 ≤ y → y ≤ 2099 → 1 ≤ m → m ≤ 12 → 1 ≤ d →
    d ≤ 28 * fuel → days y m 1 + d - 1 < days 2100 1 1 →
    ∃ y' m' d' : Nat, addUp fuel y m d = ((y' : Int), (m' : Int), (d' : Int)) ∧ 1901 ≤ y' ∧ y' ≤ 2099 ∧
      1 ≤ m' ∧ m' ≤ 12 ∧ 1 ≤ d' ∧ d' ≤ monthLen y' m' ∧ days y' m' d' = days y m 1 + d - 1 := by
  intro fuel
  induction fuel with
  | zero => intro y m d _ _ _ _ h1 h2; omega
  | succ f ih =>
    intro y m d hy1 hy2 hm1 hm2 hd1 hf hT
    unfold addUp
    simp only [Int.toNat_natCast]
    rw [getMdays_eq y m hy1 hy2 hm1 hm2]
    have ml := monthLen_pos y m hm1 hm2
    by_cases hgt : d > (monthLen y m : Int)
    · rw [if_pos hgt]
      by_cases h12 : m = 12
      · subst h12
        have hn := days_next_year y
        have h31 : monthLen y 12 = 31 := rfl
        have hy' : y + 1 ≤ 2099 := year_le_of_days (y+1) 1 1 (by omega) (by omega) (by omega) (by omega)
        obtain ⟨y', m', d', e, r⟩ := ih (y+1) 1 (d - monthLen y 12) (by omega) hy' (by omega) (by omega) (by omega) (by omega) (by omega)
        refine ⟨y', m', d', ?_, ?_⟩
        · simpa using e
        · omega
      · have hn := days_next_month y m hm1 (by omega)
        obtain ⟨y', m', d', e, r⟩ := ih y (m+1) (d - monthLen y m) hy1 hy2 (by omega) (by omega) (by omega) (by omega) (by omega)
        refine ⟨y', m', d', ?_, ?_⟩
        · have : ¬ ((m : Int) + 1 > 12) := by omega
          simpa [this] using e
        · omega
    · rw [if_neg hgt]
      refine ⟨y, m, d.toNat, ?_, hy1, hy2, hm1, hm2, by omega, by omega, ?_⟩
      · rw [Int.toNat_of_nonneg (by omega)]
      · rw [days_d y m d.toNat]; omega

theorem addDown_spec : ∀ (fuel y m : Nat) (d : Int), 1901 ≤ y → y ≤ 2099 → 1 ≤ m → m ≤ 12 → d < 1 →
    1 - d ≤ 28 * fuel → days 1901 1 1 ≤ days y m 1 + d - 1 →
    ∃ y' m' d' : Nat, addDown fuel y m d = ((y' : Int), (m' : Int), (d' : Int)) ∧ 1901 ≤ y' ∧ y' ≤ 2099 ∧
      1 ≤ m' ∧ m' ≤ 12 ∧ 1 ≤ d' ∧ d' ≤ monthLen y' m' ∧ days y' m' d' = days y m 1 + d - 1 := by
  intro fuel
  induction fuel with
  | zero => intro y m d _ _ _ _ h1 h2; omega
  | succ f ih =>
    intro y m d hy1 hy2 hm1 hm2 hd1 hf hT
    unfold addDown
    by_cases h1 : m = 1
    · subst h1
      have hy : 1902 ≤ y := by
        have := days_year_mono y 1901
        omega
      have hn := days_next_year (y - 1)
      rw [show y - 1 + 1 = y by omega] at hn
      have h31 : monthLen (y - 1) 12 = 31 := rfl
      have hg := getMdays_eq (y - 1) 12 (by omega) (by omega) (by omega) (by omega)
      have e1 : ((1 : Nat) : Int) - 1 < 1 := by omega
      simp only [e1, if_true]
      rw [show ((y : Int) - 1) = ((y - 1 : Nat) : Int) by omega, show (12 : Int) = ((12 : Nat) : Int) by rfl]
      simp only [Int.toNat_natCast]
      rw [hg, h31]
      by_cases hlt : d + ((31 : Nat) : Int) < 1
      · rw [if_pos hlt]
        obtain ⟨y', m', d', e, r⟩ := ih (y - 1) 12 (d + ((31 : Nat) : Int)) (by omega) (by omega) (by omega) (by omega) hlt (by omega) (by omega)
        exact ⟨y', m', d', e, by omega⟩
      · rw [if_neg hlt]
        refine ⟨y - 1, 12, (d + 31).toNat, ?_, by omega, by omega, by omega, by omega, by omega, by omega, ?_⟩
        · rw [Int.toNat_of_nonneg (by omega)]; rfl
        · rw [days_d (y - 1) 12]; omega
    · have hn := days_next_month y (m - 1) (by omega) (by omega)
      rw [show m - 1 + 1 = m by omega] at hn
      have ml := monthLen_pos y (m - 1) (by omega) (by omega)
      have hg := getMdays_eq y (m - 1) hy1 hy2 (by omega) (by omega)
      have e1 : ¬ ((m : Int) - 1 < 1) := by omega
      simp only [e1, if_false]
      rw [show ((m : Int) - 1) = ((m - 1 : Nat) : Int) by omega]
      simp only [Int.toNat_natCast]
      rw [hg]
      by_cases hlt : d + (monthLen y (m - 1) : Int) < 1
      · rw [if_pos hlt]
        obtain ⟨y', m', d', e, r⟩ := ih y (m - 1) (d + (monthLen y (m - 1) : Int)) hy1 hy2 (by omega) (by omega) hlt (by omega) (by omega)
        exact ⟨y', m', d', e, by omega⟩
      · rw [if_neg hlt]
        refine ⟨y, m - 1, (d + (monthLen y (m - 1) : Int)).toNat, ?_, by omega, by omega, by omega, by omega, by omega, by omega, ?_⟩
        · rw [Int.toNat_of_nonneg (by omega)]
        · rw [days_d y (m - 1)]; omega
theorem addDays_spec (bas res : Inst) (dd : Int) (hv : ValidDate bas) (hr : InRange bas)
    (hlo : days 1901 1 1 ≤ days bas.y bas.m bas.d + dd) (hhi : days bas.y bas.m bas.d + dd < days 2100 1 1) :
    ∃ y' m' d' : Nat, addDays bas res dd = { res with y := y', m := m', d := d' } ∧ 1901 ≤ y' ∧ y' ≤ 2099 ∧
      1 ≤ m' ∧ m' ≤ 12 ∧ 1 ≤ d' ∧ d' ≤ monthLen y' m' ∧ days y' m' d' = days bas.y bas.m bas.d + dd := by
  obtain ⟨hm1, hm2, hd1, hd2⟩ := hv
  obtain ⟨hy1, hy2⟩ := hr
  have ml := monthLen_pos bas.y bas.m hm1 hm2
  have hdd := days_d bas.y bas.m bas.d
  have fin : ∀ y' m' d' : Nat, y' ≤ 2099 → m' ≤ 12 → d' ≤ 31 →
      ({ res with d := (((d' : Int)) % 256).toNat, m := ((m' : Int) % 256).toNat, y := ((y' : Int) % 65536).toNat } : Inst)
        = { res with y := y', m := m', d := d' } := by
    intro y' m' d' h1 h2 h3
    rw [show ((d' : Int) % 256).toNat = d' by omega, show ((m' : Int) % 256).toNat = m' by omega,
      show ((y' : Int) % 65536).toNat = y' by omega]
  unfold addDays
  by_cases c1 : 1 ≤ (bas.d : Int) + dd ∧ (bas.d : Int) + dd ≤ 28
  · simp only [c1, and_self, if_true]
    refine ⟨bas.y, bas.m, ((bas.d : Int) + dd).toNat, ?_, hy1, hy2, hm1, hm2, by omega, by omega, ?_⟩
    · rw [← fin bas.y bas.m _ hy2 hm2 (by omega), Int.toNat_of_nonneg (by omega)]
    · rw [days_d bas.y bas.m (_ : Int).toNat]; omega
  · by_cases c2 : (bas.d : Int) + dd < 1
    · obtain ⟨y', m', d', e, r⟩ := addDown_spec (((bas.d : Int) + dd).natAbs / 28 + 2) bas.y bas.m ((bas.d : Int) + dd)
        hy1 hy2 hm1 hm2 c2 (by omega) (by omega)
      have ml' := monthLen_pos y' m' r.2.2.1 r.2.2.2.1
      refine ⟨y', m', d', ?_, by omega⟩
      simp only [c1, c2, if_true, if_false, e]
      exact fin y' m' d' (by omega) (by omega) (by omega)
    · obtain ⟨y', m', d', e, r⟩ := addUp_spec (((bas.d : Int) + dd).natAbs / 28 + 2) bas.y bas.m ((bas.d : Int) + dd)
        hy1 hy2 hm1 hm2 (by omega) (by omega) (by omega)
      have ml' := monthLen_pos y' m' r.2.2.1 r.2.2.2.1
      refine ⟨y', m', d', ?_, by omega⟩
      simp only [c1, c2, if_false, e]
      exact fin y' m' d' (by omega) (by omega) (by omega)
/-- C's truncating division followed by the sign fix-up is floor division. -/
theorem carry_eq (f : Nat) (msd n : Int) (hn : 0 < n) :
    carry f msd n = ((((f : Int) + msd) % n).toNat, ((f : Int) + msd) / n) := by
  unfold carry
  generalize (f : Int) + msd = x
  have h0 := Int.emod_nonneg x (Int.ne_of_gt hn)
  have h1 := Int.emod_lt_of_pos x hn
  have hs : n.sign = 1 := Int.sign_eq_one_of_pos hn
  have ha : (n.natAbs : Int) = n := Int.natAbs_of_nonneg (Int.le_of_lt hn)
  simp only [Int.tmod_eq_emod, Int.tdiv_eq_ediv, hs]
  by_cases h : 0 ≤ x ∨ n ∣ x
  · simp only [h, if_true]
    simp [h0]
  · simp only [h, if_false, ha]
    have : ¬ (x % n - n ≥ 0) := by omega
    simp only [this, if_false]
    congr 1
    · congr 1; omega
    · omega

theorem tdivmod_day (a : Int) :
    a = a.tdiv 86400000 * 86400000 + a.tmod 86400000 ∧
    (0 ≤ a → 0 ≤ a.tmod 86400000) ∧ (a ≤ 0 → a.tmod 86400000 ≤ 0) ∧
    -86400000 < a.tmod 86400000 ∧ a.tmod 86400000 < 86400000 := by
  simp only [Int.tmod_eq_emod, Int.tdiv_eq_ediv]
  have : (86400000 : Int).sign = 1 := rfl
  rw [this]
  by_cases h : 0 ≤ a ∨ (86400000 : Int) ∣ a
  · simp only [h, if_true]; omega
  · simp only [h, if_false]; omega


end Echse.Instant
