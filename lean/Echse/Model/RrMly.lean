/- stub: transcription of rrul_fill_Mly pending -/
import Echse.Model.RrBase
namespace Echse.Rrule
open Echse.Instant

/-- `none` = not modelled yet -/
def fillMly (_r : Rule) (_proto : Inst) (_nti : Nat) : Option (List Inst) := none

end Echse.Rrule
