/-
  C01 for the YEARLY filler model, part 13: `lim_cand` read for a date — a candidate stays iff it passes every one of
  BYMONTH, BYMONTHDAY, BYYEARDAY and BYWEEKNO that is present (`limCand_mem`).
-/
import Echse.Lemmas.RrCandRfc12
import Echse.Lemmas.RrCandRfc7
import Echse.Lemmas.RrSubRfc2
namespace Echse.Lemmas.RrCandRfc
open Echse.Rrule Echse.Instant Echse.Spec.RrOk Echse.Lemmas.RrCandOk Echse.Spec.Rfc Echse.Lemmas.RrRfc
open Echse.Spec.Cal Echse.Spec.RuleExt Echse.Lemmas.RrMlyRfc Echse.Lemmas.RrOkBase

/-- the weekday DTSTART lends to BYWEEKNO, if any -/
def PdowOk (pdow : List Int) (x : Inst) : Prop := ∀ k, pdow.head? = some k → k = (wdayOf (dayOf x) : Int)

theorem lim_mon (mon : List Nat) (m : Nat) : (mon.isEmpty || mon.contains m) = true ↔ (mon = [] ∨ m ∈ mon) := by
  simp [List.isEmpty_iff]

theorem lim_dom (dom : List Int) (x : Inst) (hx : DateIn x) :
    (dom.isEmpty || dom.contains (x.d : Int) || dom.contains ((x.d : Int) - (monthLen x.y x.m : Int) - 1)) = true ↔
      (dom = [] ∨ MdaySel dom x) := by
  have hv := hx.v
  have h1 := hv.2.2.1
  have h2 := hv.2.2.2
  unfold MdaySel
  simp only [Bool.or_eq_true, List.isEmpty_iff, List.contains_iff_mem]
  constructor
  · rintro ((h | h) | h)
    · exact Or.inl h
    · exact Or.inr ⟨_, h, Or.inl ⟨by omega, rfl⟩⟩
    · exact Or.inr ⟨_, h, Or.inr ⟨by omega, by omega⟩⟩
  · rintro (h | ⟨n, hn, h | h⟩)
    · exact Or.inl (Or.inl h)
    · left; right; rw [← h.2]; exact hn
    · right
      have : (x.d : Int) - (monthLen x.y x.m : Int) - 1 = n := by omega
      rw [this]; exact hn

theorem lim_doy (doy : List Int) (x : Inst) (hx : DateIn x) :
    (doy.isEmpty || doy.any (fun k => k == ((ymdGetYd x.y x.m x.d : Nat) : Int) ||
        k == ((ymdGetYd x.y x.m x.d : Nat) : Int) - (365 + (leapN x.y : Int)) - 1)) = true ↔
      (doy = [] ∨ YdaySel doy x) := by
  have hv := hx.v
  have hyd := dateIn_yday hx
  have hyl := leapN_isLeap x.y hx.lo hx.hi
  have e : ((ymdGetYd x.y x.m x.d : Nat) : Int) = ydayOf x := by
    rw [Echse.Lemmas.RrSubRfc.yd_eq x.y x.m x.d hx.lo hx.hi hv.1 hv.2.1 hv.d31]; rfl
  rw [e]
  unfold YdaySel
  simp only [Bool.or_eq_true, List.isEmpty_iff, List.any_eq_true, beq_iff_eq]
  apply or_congr Iff.rfl
  apply exists_congr; intro n
  apply and_congr Iff.rfl
  constructor
  · rintro (h | h)
    · left; omega
    · right; omega
  · rintro (h | h)
    · left; omega
    · right; omega

theorem md_eq (a : Md) (m d : Nat) : ((a.m == m && a.d == d) = true) ↔ a = ⟨m, d⟩ := by
  cases a with
  | mk am ad =>
    simp only [Bool.and_eq_true, beq_iff_eq, Md.mk.injEq]

theorem lim_wk (wk pdow : List Int) (x : Inst) (hx : DateIn x) (hwk : ∀ w ∈ wk, w ≠ 0 ∧ -53 ≤ w ∧ w ≤ 53) :
    (wk.isEmpty || ((match pdow with
        | [] => true
        | k :: _ => k == ((wdayOf (dayOf x) : Nat) : Int)) &&
      wk.any (fun k => ([-1, 0, 1] : List Int).any fun of =>
        (ywdToMd x.y of k (wdayOf (dayOf x))).m == x.m && (ywdToMd x.y of k (wdayOf (dayOf x))).d == x.d))) = true ↔
      (wk = [] ∨ (PdowOk pdow x ∧ weeknoOk { wk := wk } x)) := by
  have hwdr := wdayOf_range (dayOf x)
  rw [weeknoOk_of _ x (by have := hx.lo; omega)]
  simp only [Bool.or_eq_true, Bool.and_eq_true, List.isEmpty_iff, List.any_eq_true]
  apply or_congr Iff.rfl
  apply and_congr
  · unfold PdowOk
    cases pdow with
    | nil => simp
    | cons k ks => simp
  · apply exists_congr; intro n
    constructor
    · rintro ⟨hn, of, hof, h⟩
      have := (ywdToMd_spec x hx of (of_mem hof) n (hwk n hn) _ hwdr).1 ((md_eq _ _ _).1 (Bool.and_eq_true _ _ ▸ h))
      exact ⟨hn, of, hof, this.2⟩
    · rintro ⟨hn, of, hof, h⟩
      have := (md_eq _ _ _).2 ((ywdToMd_spec x hx of (of_mem hof) n (hwk n hn) _ hwdr).2 ⟨rfl, h⟩)
      rw [Bool.and_eq_true] at this
      exact ⟨hn, of, hof, this⟩

/-- `lim_cand` for a date -/
theorem limCand_mem (cand : List Nat) (mon : List Nat) (dom wk doy pdow : List Int) (x : Inst) (hx : DateIn x)
    (hwk : ∀ w ∈ wk, w ≠ 0 ∧ -53 ≤ w ∧ w ≤ 53) :
    packCand x.m x.d ∈ limCand cand x.y mon dom wk doy pdow ↔
      packCand x.m x.d ∈ cand ∧ (mon = [] ∨ x.m ∈ mon) ∧ (dom = [] ∨ MdaySel dom x) ∧ (doy = [] ∨ YdaySel doy x) ∧
      (wk = [] ∨ (PdowOk pdow x ∧ weeknoOk { wk := wk } x)) := by
  have hv := hx.v
  have hu : unpackCand (packCand x.m x.d) = ⟨x.m, x.d⟩ := by
    have := packCand_unpack x.m x.d ⟨hv.1, hv.2.1⟩ hv.d31
    unfold unpackCand; rw [this.1, this.2]
  unfold limCand
  rw [List.mem_filter]
  apply and_congr Iff.rfl
  dsimp only
  rw [hu]
  dsimp only
  rw [hx.ndom, hx.wd x.d hv.d31]
  rw [Bool.and_eq_true, Bool.and_eq_true, Bool.and_eq_true]
  rw [lim_mon, lim_dom dom x hx, lim_doy doy x hx]
  have e : days x.y x.m x.d = dayOf x := rfl
  rw [e]
  have hw := lim_wk wk pdow x hx hwk
  constructor
  · rintro ⟨⟨⟨a, b⟩, c⟩, d⟩; exact ⟨a, b, c, hw.1 d⟩
  · rintro ⟨a, b, c, d⟩; exact ⟨⟨⟨a, b⟩, c⟩, hw.2 d⟩

end Echse.Lemmas.RrCandRfc
