/-
  Helper lemmas for C08 (calendar-instant arithmetic), split by topic:
    Instant1  day numbers (`days`), month lengths, `jan00`/`doy`/`getMdays` against the spec
    Instant2  the month loops of `add` (`addUp`/`addDown`/`addDays`), `carry`
    Instant3  `add` and `diff` on normal instants, injectivity of `absMs`/`absSec`
    Instant4  `fixup`
    Instant5  epoch conversions: `__inst_to_epoch`, the year/month steps of `__epoch_to_inst` (1900-03-01 … 2100-02-28)
    Instant6  `__epoch_to_inst` (signed), the years 1901..2099, the daemon timestamp
  Core Lean only.
-/
import Echse.Lemmas.Instant1
import Echse.Lemmas.Instant2
import Echse.Lemmas.Instant3
import Echse.Lemmas.Instant4
import Echse.Lemmas.Instant5
import Echse.Lemmas.Instant6
