/-
  C15 enumeration part (written once by a loop, then static): Gregorian scale, per day number,
  chunks 24..47 of 1024 points.
  One theorem per chunk: each is checked by the kernel on its own (bounded memory and heartbeats).
-/
import Echse.Lemmas.C15Enum
namespace Echse.Scale

theorem gregB_c0 : allFrom (chkG) (dLo + 1024 * (24 + 0)) 1024 = true := by decide +kernel
theorem gregB_c1 : allFrom (chkG) (dLo + 1024 * (24 + 1)) 1024 = true := by decide +kernel
theorem gregB_c2 : allFrom (chkG) (dLo + 1024 * (24 + 2)) 1024 = true := by decide +kernel
theorem gregB_c3 : allFrom (chkG) (dLo + 1024 * (24 + 3)) 1024 = true := by decide +kernel
theorem gregB_c4 : allFrom (chkG) (dLo + 1024 * (24 + 4)) 1024 = true := by decide +kernel
theorem gregB_c5 : allFrom (chkG) (dLo + 1024 * (24 + 5)) 1024 = true := by decide +kernel
theorem gregB_c6 : allFrom (chkG) (dLo + 1024 * (24 + 6)) 1024 = true := by decide +kernel
theorem gregB_c7 : allFrom (chkG) (dLo + 1024 * (24 + 7)) 1024 = true := by decide +kernel
theorem gregB_c8 : allFrom (chkG) (dLo + 1024 * (24 + 8)) 1024 = true := by decide +kernel
theorem gregB_c9 : allFrom (chkG) (dLo + 1024 * (24 + 9)) 1024 = true := by decide +kernel
theorem gregB_c10 : allFrom (chkG) (dLo + 1024 * (24 + 10)) 1024 = true := by decide +kernel
theorem gregB_c11 : allFrom (chkG) (dLo + 1024 * (24 + 11)) 1024 = true := by decide +kernel
theorem gregB_c12 : allFrom (chkG) (dLo + 1024 * (24 + 12)) 1024 = true := by decide +kernel
theorem gregB_c13 : allFrom (chkG) (dLo + 1024 * (24 + 13)) 1024 = true := by decide +kernel
theorem gregB_c14 : allFrom (chkG) (dLo + 1024 * (24 + 14)) 1024 = true := by decide +kernel
theorem gregB_c15 : allFrom (chkG) (dLo + 1024 * (24 + 15)) 1024 = true := by decide +kernel
theorem gregB_c16 : allFrom (chkG) (dLo + 1024 * (24 + 16)) 1024 = true := by decide +kernel
theorem gregB_c17 : allFrom (chkG) (dLo + 1024 * (24 + 17)) 1024 = true := by decide +kernel
theorem gregB_c18 : allFrom (chkG) (dLo + 1024 * (24 + 18)) 1024 = true := by decide +kernel
theorem gregB_c19 : allFrom (chkG) (dLo + 1024 * (24 + 19)) 1024 = true := by decide +kernel
theorem gregB_c20 : allFrom (chkG) (dLo + 1024 * (24 + 20)) 1024 = true := by decide +kernel
theorem gregB_c21 : allFrom (chkG) (dLo + 1024 * (24 + 21)) 1024 = true := by decide +kernel
theorem gregB_c22 : allFrom (chkG) (dLo + 1024 * (24 + 22)) 1024 = true := by decide +kernel
theorem gregB_c23 : allFrom (chkG) (dLo + 1024 * (24 + 23)) 1024 = true := by decide +kernel

theorem gregB_chunks : ∀ c, c < 24 → allFrom (chkG) (dLo + 1024 * (24 + c)) 1024 = true
  | 0, _ => gregB_c0
  | 1, _ => gregB_c1
  | 2, _ => gregB_c2
  | 3, _ => gregB_c3
  | 4, _ => gregB_c4
  | 5, _ => gregB_c5
  | 6, _ => gregB_c6
  | 7, _ => gregB_c7
  | 8, _ => gregB_c8
  | 9, _ => gregB_c9
  | 10, _ => gregB_c10
  | 11, _ => gregB_c11
  | 12, _ => gregB_c12
  | 13, _ => gregB_c13
  | 14, _ => gregB_c14
  | 15, _ => gregB_c15
  | 16, _ => gregB_c16
  | 17, _ => gregB_c17
  | 18, _ => gregB_c18
  | 19, _ => gregB_c19
  | 20, _ => gregB_c20
  | 21, _ => gregB_c21
  | 22, _ => gregB_c22
  | 23, _ => gregB_c23
  | n + 24, h => absurd h (by omega)

theorem gregB : ∀ k, dLo + 1024 * 24 ≤ k → k < dLo + 1024 * (24 + 24) → chkG k = true :=
  allFrom_chunks _ _ _ _ _ gregB_chunks

end Echse.Scale
