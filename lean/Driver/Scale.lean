import Echse.Model.Scale
import Driver.Util
open Echse.Scale
namespace Driver

def runScale (op : String) (args : List String) : String :=
  match op, parseNats args with
  | "c.conv", some [s, y, m, d, t] =>
    match rescale s t ⟨y, m, d⟩ with
    | none => "nul"
    | some r =>
      -- the instant's fields: y 12 bits below the scale bits, m and d 8 bits
      if r.y % 65536 = 0 ∧ r.m % 256 = 0 ∧ r.d % 256 = 0 ∧ t = 0 then "nul"
      else s!"{r.y % 4096} {r.m % 256} {r.d % 256} s{t}"
  | "c.ndim", some [s, y, m] => toString (scaleNdim s y m)
  | "c.wday", some [s, y, m, d] => toString (scaleWday s y m d)
  | _, _ => "bad-op"

end Driver
