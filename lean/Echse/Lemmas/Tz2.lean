/-
  Lemmas for C07, part 2: the enclosing range `findZrng`, the one-entry cache `offsC`,
  sequences of look-ups, `utcTime` / `localTime`.
-/
import Echse.Lemmas.Tz
namespace Echse.Tz

/-! ### the enclosing range -/

theorem zifType_lt (z : Zone) (n : Int) (h0 : 0 ≤ n) (h1 : n < z.ntr) : zifType z n = z.tys.getD n.toNat 0 := by
  unfold zifType
  have : ¬ (z.ntr = 0 ∨ n < 0) := by omega
  rw [if_neg this, if_neg (by omega)]

theorem I32_iff (t : Int) : I32 t ↔ -2147483648 ≤ t ∧ t ≤ 2147483647 := by
  unfold I32 intMin intMax; exact Iff.rfl

theorem rngAt_neg (z : Zone) (k : Int) (h : k < 0) : rngAt z k =
    { trno := 0, prev := intMin, next := if z.ntr ≠ 0 then tr z 0 else intMax, offs := z.offs.getD 0 0 } := by
  unfold rngAt; rw [if_pos h]

theorem rngAt_nonneg (z : Zone) (k : Int) (h : 0 ≤ k) : rngAt z k =
    { trno := k.toNat, prev := tr z k.toNat,
      next := if k + 1 < z.ntr then tr z (k + 1).toNat else intMax,
      offs := z.offs.getD (z.tys.getD k.toNat 0) 0 } := by
  unfold rngAt; rw [if_neg (show ¬ k < 0 by omega)]

theorem findZrng_eq (z : Zone) (wf : WF z) (t : Int) (ht : I32 t) :
    findZrng z t = some (rngAt z (trIdx z t)) := by
  unfold findZrng
  rw [findTrno_eq z wf t]
  simp only []
  have hI := isIdx_trIdx z wf t
  generalize trIdx z t = k at hI
  have ht' := (I32_iff t).1 ht
  rcases hI with ⟨rfl, h⟩ | ⟨h0, h1, h2, h3⟩
  · have e : zifTrans z (-1) = intMin := by unfold zifTrans; simp
    have : ¬ ((-1 : Int) ≤ 0 ∧ t < zifTrans z (-1)) := by rw [e]; unfold intMin; omega
    rw [if_neg this, if_pos (show (-1 : Int) < 0 by omega), rngAt_neg z (-1) (by omega)]
    by_cases hz : z.ntr = 0
    · by_cases ho : z.offs.length = 0
      · have : z.offs = [] := List.eq_nil_of_length_eq_zero ho
        simp [hz, this]
      · simp [hz, ho]
    · have e0 : zifTrans z 0 = tr z 0 := zifTrans_lt z 0 (by omega) (by omega)
      by_cases ho : z.offs.length = 0
      · have : z.offs = [] := List.eq_nil_of_length_eq_zero ho
        simp [hz, this, e0]
      · simp [hz, ho, e0]
  · have e : zifTrans z k = tr z k.toNat := zifTrans_lt z k h0 h1
    have : ¬ (k ≤ 0 ∧ t < zifTrans z k) := by rw [e]; omega
    rw [if_neg this, if_neg (show ¬ k < 0 by omega), rngAt_nonneg z k h0]
    have hn := wf.2.2.2.2.1
    have e8 : k.toNat % 256 = k.toNat := by unfold Zone.ntr at h1; omega
    have eo : zifTroffs z (k.toNat : Int) = z.offs.getD (z.tys.getD k.toNat 0) 0 := by
      unfold zifTroffs
      rw [zifType_lt z _ (by omega) (by omega), Int.toNat_natCast]
    rw [e8, e, eo]
    by_cases hk : k + 1 < z.ntr
    · rw [if_pos hk, if_pos hk, zifTrans_lt z (k + 1) (by omega) hk]
    · rw [if_neg hk, if_neg hk]

theorem rngAt_offs (z : Zone) (k : Int) : (rngAt z k).offs = offAt z k := by
  unfold rngAt offAt; split <;> rfl

/-- every time inside the reported range has the same index -/
theorem isIdx_of_in_rng (z : Zone) (t t' k : Int) (h : IsIdx z t k)
    (h1 : (rngAt z k).prev ≤ t') (h2 : t' < (rngAt z k).next) : IsIdx z t' k := by
  rcases h with ⟨rfl, h⟩ | ⟨a, b, c, d⟩
  · refine Or.inl ⟨rfl, ?_⟩
    rw [rngAt_neg z (-1) (by omega)] at h2
    by_cases hz : z.ntr = 0
    · exact Or.inl hz
    · simp only [ne_eq, hz, not_false_eq_true, if_true] at h2; exact Or.inr h2
  · rw [rngAt_nonneg z k a] at h1 h2
    refine Or.inr ⟨a, b, h1, ?_⟩
    intro hk
    simp only [hk, if_true] at h2
    exact h2

theorem rngAt_bounds (z : Zone) (wf : WF z) (t : Int) (ht : I32 t) :
    (rngAt z (trIdx z t)).prev ≤ t ∧
    (t < (rngAt z (trIdx z t)).next ∨ (t = intMax ∧ (rngAt z (trIdx z t)).next = intMax)) ∧
    intMin ≤ (rngAt z (trIdx z t)).prev ∧ (rngAt z (trIdx z t)).next ≤ intMax := by
  have hI := isIdx_trIdx z wf t
  generalize trIdx z t = k at hI
  rw [I32_iff] at ht
  have fin : ∀ p n : Int, p ≤ t → (t < n ∨ (t = 2147483647 ∧ n = 2147483647)) → -2147483648 ≤ p → n ≤ 2147483647 →
      p ≤ t ∧ (t < n ∨ (t = intMax ∧ n = intMax)) ∧ intMin ≤ p ∧ n ≤ intMax :=
    fun p n h1 h2 h3 h4 => ⟨h1, h2, h3, h4⟩
  rcases hI with ⟨rfl, h⟩ | ⟨a, b, c, d⟩
  · rw [rngAt_neg z (-1) (by omega)]
    by_cases hz : z.ntr = 0
    · rw [if_neg (show ¬ z.ntr ≠ 0 by omega)]
      refine fin _ _ ?_ ?_ ?_ ?_ <;> dsimp only [intMin, intMax] <;> omega
    · have := (I32_iff _).1 (tr_I32 z wf 0 (by omega))
      rw [if_pos (show z.ntr ≠ 0 by omega)]
      refine fin _ _ ?_ ?_ ?_ ?_ <;> dsimp only [intMin, intMax] <;> omega
  · rw [rngAt_nonneg z k a]
    have p := (I32_iff _).1 (tr_I32 z wf k.toNat (by omega))
    by_cases hk : k + 1 < z.ntr
    · have q := (I32_iff _).1 (tr_I32 z wf (k + 1).toNat (by omega))
      have := d hk
      rw [if_pos hk]
      refine fin _ _ ?_ ?_ ?_ ?_ <;> dsimp only [intMin, intMax] <;> omega
    · rw [if_neg hk]
      refine fin _ _ ?_ ?_ ?_ ?_ <;> dsimp only [intMin, intMax] <;> omega

/-- the range is homogeneous: any time in it yields the very same range -/
theorem findZrng_homog (z : Zone) (wf : WF z) (t : Int) (t' : Int)
    (h1 : (rngAt z (trIdx z t)).prev ≤ t') (h2 : t' < (rngAt z (trIdx z t)).next) :
    trIdx z t' = trIdx z t :=
  isIdx_unique z wf t' _ (isIdx_of_in_rng z t t' _ (isIdx_trIdx z wf t) h1 h2)

theorem cacheOK_rngAt (z : Zone) (wf : WF z) (t : Int) : CacheOK z (rngAt z (trIdx z t)) := by
  refine Or.inr ?_
  intro t' h1 h2
  unfold off
  rw [findZrng_homog z wf t t' h1 h2, rngAt_offs]

/-! ### the cache -/

theorem offsC_spec (z : Zone) (wf : WF z) (c : ZRng) (hc : CacheOK z c) (t : Int) (ht : I32 t) :
    ∃ c', offsC z c t = some (off z t, c') ∧ CacheOK z c' := by
  unfold offsC
  simp only []
  rw [clamp32_of_I32 t ht, wf.2.2.2.2.2.2]
  simp only [Bool.false_eq_true, if_false]
  by_cases hit : t ≥ c.prev ∧ t < c.next
  · rw [if_pos hit]
    refine ⟨c, ?_, hc⟩
    rcases hc with rfl | hc
    · exfalso; unfold ZRng.fresh at hit; simp at hit; omega
    · rw [hc t hit.1 hit.2]
  · rw [if_neg hit, findZrng_eq z wf t ht]
    simp only []
    refine ⟨_, ?_, cacheOK_rngAt z wf t⟩
    rw [rngAt_offs]; rfl

/-- a sequence of look-ups through the cache -/
def offsSeq (z : Zone) : ZRng → List Int → Option (List Int × ZRng)
  | c, [] => some ([], c)
  | c, t :: ts =>
    match offsC z c t with
    | none => none
    | some (o, c') =>
      match offsSeq z c' ts with
      | none => none
      | some (os, c'') => some (o :: os, c'')

theorem offsSeq_spec (z : Zone) (wf : WF z) (ts : List Int) :
    ∀ c, CacheOK z c → (∀ t ∈ ts, I32 t) →
      ∃ c', offsSeq z c ts = some (ts.map (off z), c') ∧ CacheOK z c' := by
  induction ts with
  | nil => intro c hc _; exact ⟨c, rfl, hc⟩
  | cons t ts ih =>
    intro c hc h
    obtain ⟨c1, e1, h1⟩ := offsC_spec z wf c hc t (h t (by simp))
    obtain ⟨c2, e2, h2⟩ := ih c1 h1 (fun x hx => h x (by simp [hx]))
    refine ⟨c2, ?_, h2⟩
    unfold offsSeq
    rw [e1]; simp only []; rw [e2]; rfl

/-! ### bounds of the offset, windows without transition -/

theorem off_bound (z : Zone) (wf : WF z) (t : Int) : -86400 ≤ off z t ∧ off z t ≤ 86400 := by
  have hb := wf.2.2.2.2.2.1
  have key : ∀ i, -86400 ≤ z.offs.getD i 0 ∧ z.offs.getD i 0 ≤ 86400 := by
    intro i
    by_cases hi : i < z.offs.length
    · rw [getD_of_lt _ _ _ hi]; exact hb _ (List.getElem_mem hi)
    · rw [List.getD_eq_getElem?_getD, List.getElem?_eq_none (by omega)]; simp
  unfold off offAt; split <;> exact key _

/-- `M` bounds the magnitude of every offset of the table -/
def OffsLe (z : Zone) (M : Int) : Prop := 0 ≤ M ∧ ∀ o ∈ z.offs, -M ≤ o ∧ o ≤ M

theorem off_bound' (z : Zone) (M : Int) (hM : OffsLe z M) (t : Int) : -M ≤ off z t ∧ off z t ≤ M := by
  have key : ∀ i, -M ≤ z.offs.getD i 0 ∧ z.offs.getD i 0 ≤ M := by
    intro i
    by_cases hi : i < z.offs.length
    · rw [getD_of_lt _ _ _ hi]; exact hM.2 _ (List.getElem_mem hi)
    · rw [List.getD_eq_getElem?_getD, List.getElem?_eq_none (by omega)]
      have := hM.1
      simp; omega
  unfold off offAt; split <;> exact key _

/-- no transition in the half-open window `(min a b, max a b]` -/
def NoTrBetween (z : Zone) (a b : Int) : Prop :=
  ∀ x ∈ z.trs, ¬ ((a < x ∧ x ≤ b) ∨ (b < x ∧ x ≤ a))

theorem off_eq_of_noTr (z : Zone) (a b : Int) (h : NoTrBetween z a b) : off z a = off z b := by
  have : trIdx z a = trIdx z b := by
    unfold trIdx
    rw [List.countP_congr (q := (· ≤ b))]
    intro x hx
    have := h x hx
    simp only [decide_eq_true_eq]
    omega
  unfold off; rw [this]

/-! ### local ↔ UTC -/

theorem localTime_spec (z : Zone) (wf : WF z) (c : ZRng) (hc : CacheOK z c) (u : Int) (hu : I32 u) :
    ∃ c', localTime z c u = some (u + off z u, c') ∧ CacheOK z c' := by
  obtain ⟨c1, e1, h1⟩ := offsC_spec z wf c hc u hu
  exact ⟨c1, by unfold localTime; rw [e1], h1⟩

/-- the result is `u` exactly when the second look-up finds the offset in force at `u` -/
theorem utcTime_hit_iff (z : Zone) (u : Int) :
    (u + off z u) - off z ((u + off z u) - off z (u + off z u)) = u ↔
      off z ((u + off z u) - off z (u + off z u)) = off z u := by
  omega

/-- `u` is at least `2·M` away from every transition -/
def Far (z : Zone) (M u : Int) : Prop := ∀ x ∈ z.trs, x ≤ u - 2 * M ∨ u + 2 * M < x

theorem far_noTr (z : Zone) (M u d : Int) (hf : Far z M u) (h1 : -(2 * M) ≤ d) (h2 : d ≤ 2 * M) :
    NoTrBetween z (u + d) u := by
  intro x hx
  have := hf x hx
  omega

/-- far from every transition the two steps reach the right answer … -/
theorem far_firstGuess (z : Zone) (M u : Int) (hM : OffsLe z M) (hf : Far z M u) :
    off z ((u + off z u) - off z (u + off z u)) = off z u := by
  have a := off_bound' z M hM u
  have b := off_bound' z M hM (u + off z u)
  have e : (u + off z u) - off z (u + off z u) = u + (off z u - off z (u + off z u)) := by omega
  rw [e]
  exact off_eq_of_noTr z _ _ (far_noTr z M u _ hf (by omega) (by omega))

/-- … and the wall-clock value is unambiguous -/
theorem far_unambiguous (z : Zone) (M u : Int) (hM : OffsLe z M) (hf : Far z M u) (u' : Int)
    (h : u' + off z u' = u + off z u) : u' = u := by
  have a := off_bound' z M hM u
  have b := off_bound' z M hM u'
  have e : u' = u + (off z u - off z u') := by omega
  have : off z u' = off z u := by
    conv => lhs; rw [e]
    exact off_eq_of_noTr z _ _ (far_noTr z M u _ hf (by omega) (by omega))
  omega

theorem offsLe_of_wf (z : Zone) (wf : WF z) : OffsLe z 86400 :=
  ⟨by omega, fun o ho => by have := wf.2.2.2.2.2.1 o ho; omega⟩

end Echse.Tz
