#!/usr/bin/env python3
"""tools/rrfillprobe.py [--freq F] [--seed N] [--cases N] [--fills N] [--ext]
Differential probe: real rrul_fill_* (harness, $ECHSE_REPO or /repo) vs the Lean filler models (echsemodel must be built:
/verif/tools/lk build echsemodel).  --ext adds SHIFT / BYEASTER parts to yearly and monthly rules."""
import argparse
import os
import random
import sys

sys.path.insert(0, os.path.dirname(os.path.dirname(os.path.abspath(__file__))))
from vlib import common, p_strm, p_rrfill, rrgen   # noqa: E402


def ext(rng):
    z = rng.random()
    if z < 0.35:
        return ""
    if z < 0.6:
        return ";SHIFT=%d" % rng.choice([1, -1, 7, -16, 30, 70, -200, rng.randint(-366, 366)])
    if z < 0.8:
        return ";SHIFT=%s" % rng.choice(["1B", "-1B", "0B", "-0B", "1B+", "-1B-", "5B", "-4B", "-16,0B", "2,1B", "%dB" % rng.randint(-30, 30)])
    return ";BYEASTER=%s" % ",".join(str(rng.choice([0, 1, -2, 39, 49, rng.randint(-120, 250)])) for _ in range(rng.randint(1, 3)))


def main():
    ap = argparse.ArgumentParser()
    ap.add_argument("--freq")
    ap.add_argument("--seed", type=int, default=1)
    ap.add_argument("--cases", type=int, default=200)
    ap.add_argument("--fills", type=int, default=3)
    ap.add_argument("--ext", action="store_true")
    ap.add_argument("--big-times", action="store_true")
    a = ap.parse_args()
    ctx = common.Ctx("C01", "quick", a.seed)
    ctx.prepare()
    try:
        exe = p_strm.build(ctx)
        rng = random.Random(a.seed)
        cases = []
        for _ in range(a.cases):
            ds = rrgen.gen_dtstart(rng)
            cases.append((ds, rrgen.gen_rule(rng, ds, freq=a.freq, big_times=a.big_times)))
        ops, impl, model = p_rrfill.chains(ctx, exe, cases, rng, a.fills, ext if a.ext else None)
        d, unm = p_rrfill.compare(ops, impl, model)
        print("%d fill calls, %d differ, %d unmodelled" % (len(ops), len(d), unm))
        for i, op, x, y in d[:8]:
            print("OP   ", op[:400])
            print(" impl", x[:300])
            print(" modl", y[:300])
        return 1 if d else 0
    finally:
        ctx.cleanup()


if __name__ == "__main__":
    sys.exit(main())
