import Echse.Lemmas.Instant4
/-
  Epoch conversions: tzob.c `__inst_to_epoch` / `__epoch_to_inst`, echsd.c `instant_to_tstamp`.
-/
namespace Echse.Instant
open Echse.Gen Echse.Spec.Cal

theorem epochDays_eq : epochDays = 719468 := by decide

/-- tzob.c's March-based day count against the spec's `days` -/
theorem tz_days (y m d : Nat) (hy1 : 1949 ≤ y) (hy2 : y ≤ 2099) (h1 : 1 ≤ m) (h2 : m ≤ 12) :
    (((y - 1948 - (if m < 3 then 1 else 0)) * 365 + (y - 1948 - (if m < 3 then 1 else 0)) / 4
      + tzobMonYday.getD m 0 + d : Nat) : Int) + 711491 = days y m d := by
  have c1 := cent y (by omega) (by omega)
  have c2 := cent ((y : Int) - 1) (by omega) (by omega)
  rcases month_cases m h1 h2 with h|h|h|h|h|h|h|h|h|h|h|h <;> subst h
  all_goals simp [days, tzobMonYday]
  all_goals omega

theorem days_ge_1970 (y m d : Nat) (hy : 1970 ≤ y) (h1 : 1 ≤ m) (h2 : m ≤ 12) (hd : 1 ≤ d) :
    days 1970 1 1 ≤ days y m d := by
  have := days_year_mono 1970 y hy
  have := days_month_mono y 1 m (by omega) h1 h2
  have := days_d y m d
  omega

theorem days_2100 : days 2100 1 1 = 719468 + 47482 := by decide

theorem hms_nowrap (n H M S : Nat) (hn : n ≤ 47481) (hH : H < 24) (hM : M < 60) (hS : S < 60) :
    ((((n * 24 + H) % 4294967296 * 60 + M) % 4294967296 * 60) % 4294967296 + S) % 4294967296
      = ((n * 24 + H) * 60 + M) * 60 + S := by
  rw [Nat.mod_eq_of_lt (a := n * 24 + H) (by omega)]
  rw [Nat.mod_eq_of_lt (a := (n * 24 + H) * 60 + M) (by omega)]
  rw [Nat.mod_eq_of_lt (a := ((n * 24 + H) * 60 + M) * 60) (by omega)]
  rw [Nat.mod_eq_of_lt (by omega)]

theorem instToEpoch_eq (i : Inst) (hv : ValidDate i) (hy1 : 1970 ≤ i.y) (hy2 : i.y ≤ 2099)
    (hH : i.H < 24) (hM : i.M < 60) (hS : i.S < 60) :
    (instToEpoch i : Int) =
      (days i.y i.m i.d - epochDays) * 86400 + (((i.H : Int) * 60 + i.M) * 60 + i.S) := by
  obtain ⟨h1, h2, h3, h4⟩ := hv
  have k := tz_days i.y i.m i.d (by omega) hy2 h1 h2
  have l := days_ge_1970 i.y i.m i.d hy1 h1 h2 h3
  have u := days_lt_2100 i.y i.m i.d hy2 h1 h2 h4
  rw [days_2100] at u
  have e70 : days 1970 1 1 = 719468 := by decide
  rw [e70] at l
  rw [epochDays_eq]
  have c1 : i.m ≤ 12 := h2
  have c2 : i.H ≤ 24 := by omega
  unfold instToEpoch
  simp only [daisyBaseYear, daisyUnixBase, c1, c2, if_true, Nat.reducePow]
  generalize tzobMonYday.getD i.m 0 = t at *
  generalize days i.y i.m i.d = D at *
  generalize hc : (if i.m < 3 then 1 else 0) = c at *
  have hc' : c ≤ 1 := by subst hc; split <;> omega
  have s1 : (i.y + 4294967296 - 1948 - c) % 4294967296 = i.y - 1948 - c := by omega
  rw [s1]
  have s2 : ((i.y - 1948 - c) * 365 + (i.y - 1948 - c) / 4) % 4294967296
      = (i.y - 1948 - c) * 365 + (i.y - 1948 - c) / 4 := by omega
  rw [s2]
  have s3 : ((i.y - 1948 - c) * 365 + (i.y - 1948 - c) / 4 + (t + i.d) + 4294967296 - 7977) % 4294967296
      = (i.y - 1948 - c) * 365 + (i.y - 1948 - c) / 4 + (t + i.d) - 7977 := by omega
  rw [s3]
  have hn : (i.y - 1948 - c) * 365 + (i.y - 1948 - c) / 4 + (t + i.d) - 7977 + 719468 = D := by omega
  rw [hms_nowrap _ _ _ _ (by omega) hH hM hS]
  omega
/-- the year step of `__epoch_to_inst`: (years since the base year, day number of its 1 March − 1) -/
def yearStep (d : Nat) : Nat × Nat :=
  let w : Nat := 2^32
  let u32 (z : Int) : Nat := (z % (w : Int)).toNat
  let by0 := d / 365
  let f0 := (by0 * 365 + by0 / 4) % w
  if f0 ≥ d then
    let b := u32 ((by0 : Int) - 1)
    (b, (b * 365 + b / 4) % w)
  else (by0, f0)

/-- the month/day-of-month step of `__epoch_to_inst`, as a function of the March-based day of year -/
def monStep (doy : Nat) : Nat × Nat :=
  let w : Nat := 2^32
  let u32 (z : Int) : Nat := (z % (w : Int)).toNat
  let mon : Nat := ((doy + 19) % w) / 32
  let dom : Nat := ((doy + 19) % w) % 32
  let beef : Int := tzobRem.getD mon 0
  let cake : Int := tzobRem.getD (mon + 1) 0
  if (dom : Int) ≤ cake then (mon, u32 ((doy : Int) - (((mon : Int) - 1) * 32 - 19 + beef)))
  else (mon + 1, u32 ((doy : Int) - ((mon : Int) * 32 - 19 + cake)))

theorem epochToInst_eq (t : Nat) :
    epochToInst t =
      (let w : Nat := 2^32
       let d := (t / 86400 + daisyUnixBase) % w
       let s := t % 86400
       let p := yearStep d
       let q := monStep (((d : Int) - p.2) % (w : Int)).toNat
       { y := (p.1 + daisyBaseYear + (if q.1 > 10 then 1 else 0)) % 65536, m := tzobRm.getD q.1 0, d := q.2 % 256,
         S := s % 60, M := s / 60 % 60, H := (s / 3600) % 256, ms := allSec }) := by
  unfold epochToInst yearStep monStep
  with_reducible rfl
set_option maxRecDepth 4000 in
theorem yearStep_spec (d : Nat) (h1 : 7977 ≤ d) (h2 : d < 55459) :
    ∃ b : Nat, yearStep d = (b, b * 365 + b / 4) ∧ 21 ≤ b ∧ b ≤ 151 ∧ b * 365 + b / 4 < d ∧
      d ≤ b * 365 + b / 4 + 365 + (if b % 4 = 3 then 1 else 0) := by
  unfold yearStep
  simp only []
  have s1 : (d / 365 * 365 + d / 365 / 4) % 2 ^ 32 = d / 365 * 365 + d / 365 / 4 := by omega
  rw [s1]
  by_cases c : d / 365 * 365 + d / 365 / 4 ≥ d
  · rw [if_pos c]
    have hw : ((2 ^ 32 : Nat) : Int) = 4294967296 := by decide
    rw [hw]
    clear hw
    have s2 : (((d / 365 : Nat) : Int) - 1) % 4294967296 = ((d / 365 - 1 : Nat) : Int) := by omega
    rw [s2, Int.toNat_natCast]
    refine ⟨d / 365 - 1, ?_, by omega, by omega, by omega, ?_⟩
    · rw [Nat.mod_eq_of_lt (by omega)]
    · clear s1 s2
      by_cases c4 : (d / 365 - 1) % 4 = 3
      · rw [if_pos c4]; omega
      · rw [if_neg c4]; omega
  · rw [if_neg c]
    refine ⟨d / 365, rfl, by omega, by omega, by omega, ?_⟩
    by_cases c4 : (d / 365) % 4 = 3
    · rw [if_pos c4]; omega
    · rw [if_neg c4]; omega

/-- month lengths of a common year -/
def mlen (m : Nat) : Nat := instMdays.getD m 0

theorem monStep_spec : ∀ doy, doy < 367 → 1 ≤ doy →
    let q := monStep doy
    let m := tzobRm.getD q.1 0
    1 ≤ m ∧ m ≤ 12 ∧ 1 ≤ q.2 ∧ (q.2 ≤ mlen m ∨ (doy = 366 ∧ m = 2 ∧ q.2 = 29)) ∧
    tzobMonYday.getD m 0 + q.2 = doy ∧ (q.1 > 10 ↔ m < 3) := by
  decide +kernel

theorem mlen_le (y m : Nat) (h1 : 1 ≤ m) (h2 : m ≤ 12) : mlen m ≤ monthLen y m := by
  rcases month_cases m h1 h2 with h|h|h|h|h|h|h|h|h|h|h|h <;> subst h
  all_goals simp [mlen, instMdays, monthLen]
  split <;> omega

theorem mlen_le31 (m : Nat) (h1 : 1 ≤ m) (h2 : m ≤ 12) : mlen m ≤ 31 := by
  rcases month_cases m h1 h2 with h|h|h|h|h|h|h|h|h|h|h|h <;> subst h <;> decide

theorem tzyday_janfeb (m : Nat) (h1 : 1 ≤ m) (h2 : m < 3) : 306 ≤ tzobMonYday.getD m 0 := by
  have : m = 1 ∨ m = 2 := by omega
  rcases this with h | h <;> subst h <;> decide

theorem tzyday_other (m : Nat) (h1 : 3 ≤ m) (h2 : m ≤ 12) : tzobMonYday.getD m 0 + mlen m ≤ 306 := by
  rcases month_cases m (by omega) h2 with h|h|h|h|h|h|h|h|h|h|h|h <;> subst h <;> first | omega | decide

theorem feb29 (y : Nat) (h1 : 1901 ≤ y) (h2 : y ≤ 2099) (h4 : y % 4 = 0) : monthLen y 2 = 29 := by
  have : isLeap y = true := by simp [isLeap]; omega
  simp [monthLen, this]

set_option maxRecDepth 4000 in
/-- the date computed by `__epoch_to_inst` for day number `n` since the epoch -/
theorem epochDate (n : Nat) (hn : n < 47482) :
    ∃ b q1 q2 : Nat, yearStep (n + 7977) = (b, b * 365 + b / 4) ∧
      monStep (n + 7977 - (b * 365 + b / 4)) = (q1, q2) ∧ b * 365 + b / 4 < n + 7977 ∧
      (let m := tzobRm.getD q1 0
       let y := b + 1948 + (if q1 > 10 then 1 else 0)
       1 ≤ m ∧ m ≤ 12 ∧ 1 ≤ q2 ∧ q2 ≤ monthLen y m ∧ 1970 ≤ y ∧ y ≤ 2099 ∧ days y m q2 = 719468 + n) := by
  obtain ⟨b, hb, b1, b2, b3, b4⟩ := yearStep_spec (n + 7977) (by omega) (by omega)
  have ms := monStep_spec (n + 7977 - (b * 365 + b / 4)) (by split at b4 <;> omega) (by omega)
  refine ⟨b, (monStep (n + 7977 - (b * 365 + b / 4))).1, (monStep (n + 7977 - (b * 365 + b / 4))).2, hb, rfl, b3, ?_⟩
  generalize monStep (n + 7977 - (b * 365 + b / 4)) = q at *
  simp only [] at ms ⊢
  obtain ⟨m1, m2, m3, m4, m5, m6⟩ := ms
  generalize hm : tzobRm.getD q.1 0 = m at *
  have hjf := tzyday_janfeb m m1
  have hc : (if q.1 > 10 then 1 else 0) = (if m < 3 then 1 else 0) := by
    by_cases c : q.1 > 10
    · rw [if_pos c, if_pos (m6.1 c)]
    · rw [if_neg c, if_neg (fun h => c (m6.2 h))]
  rw [hc]
  have hy1 : 1970 ≤ b + 1948 + (if m < 3 then 1 else 0) := by
    split
    · omega
    · have := tzyday_other m (by omega) m2
      rcases m4 with h | ⟨_, h, _⟩ <;> omega
  have hy2 : b + 1948 + (if m < 3 then 1 else 0) ≤ 2099 := by
    split
    · next h => have := hjf h; split at b4 <;> omega
    · omega
  have hd := tz_days (b + 1948 + (if m < 3 then 1 else 0)) m q.2 (by omega) hy2 m1 m2
  have hbb : b + 1948 + (if m < 3 then 1 else 0) - 1948 - (if m < 3 then 1 else 0) = b := by split <;> omega
  rw [hbb] at hd
  refine ⟨m1, m2, m3, ?_, hy1, hy2, by omega⟩
  rcases m4 with h | ⟨h1, h2, h3⟩
  · exact Nat.le_trans h (mlen_le _ m m1 m2)
  · subst h2
    have hb4 : b % 4 = 3 := by
      by_cases c : b % 4 = 3
      · exact c
      · rw [if_neg c] at b4; omega
    rw [h3, show (if 2 < 3 then 1 else 0) = 1 from rfl, feb29 _ (by omega) (by omega) (by omega)]
    exact Nat.le_refl _
set_option maxRecDepth 10000 in
theorem frEpoch (t : Nat) (h : t < 4102444800) :
    NormalSec (epochToInst t) ∧ 1970 ≤ (epochToInst t).y ∧ (epochToInst t).y ≤ 2099 ∧
    absSec (epochToInst t) = epochDays * 86400 + t := by
  obtain ⟨b, q1, q2, hy, hq, hlt, m1, m2, d1, d2, y1, y2, hd⟩ := epochDate (t / 86400) (by omega)
  rw [epochToInst_eq, epochDays_eq]
  simp only [daisyUnixBase, daisyBaseYear, Nat.reducePow, Int.cast_ofNat_Int]

  have e1 : (t / 86400 + 7977) % 4294967296 = t / 86400 + 7977 := by omega
  simp only [e1, hy]
  have s1 : ((((t / 86400 + 7977 : Nat) : Int) - ((b * 365 + b / 4 : Nat) : Int)) % 4294967296).toNat
      = t / 86400 + 7977 - (b * 365 + b / 4) := by omega
  simp only [s1, hq]
  generalize hY : (b + 1948 + if q1 > 10 then 1 else 0) = Y at *
  generalize hm : tzobRm.getD q1 0 = m at *
  have ml := monthLen_pos Y m m1 m2
  have e2 : Y % 65536 = Y := by omega
  have e3 : q2 % 256 = q2 := by omega
  simp only [e2, e3]
  refine ⟨⟨⟨m1, m2, d1, d2⟩, ?_, ?_, ?_, rfl⟩, y1, y2, ?_⟩
  · show t % 86400 / 3600 % 256 < 24; omega
  · show t % 86400 / 60 % 60 < 60; omega
  · show t % 86400 % 60 < 60; omega
  · simp only [absSec]
    rw [hd]
    omega
/-- echsd.c's January-based day count (days since 2001-01-00, Gregorian leap rule, floor division)
against the spec's `days`; every year, before and after 2001 -/
theorem ts_days (y m d : Nat) (h1 : 1 ≤ m) (h2 : m ≤ 12) :
    365 * ((y : Int) - 2001) + ((y : Int) - 2001) / 4 - ((y : Int) - 2001) / 100 + ((y : Int) - 2001) / 400
      + (echsdMonYday.getD m 0 : Nat) + (d : Nat)
      + (if (y % 4 == 0 && (y % 100 != 0 || y % 400 == 0)) && decide (m ≥ 3) then 1 else 0) + 730790
      = days y m d := by
  rcases month_cases m h1 h2 with h|h|h|h|h|h|h|h|h|h|h|h <;> subst h
  all_goals simp [days, echsdMonYday]
  all_goals try split
  all_goals omega

/-- echsd.c `instant_to_tstamp` on every instant with a month 1..12, whatever the year and the other fields -/
theorem instToTstamp_eq (i : Inst) (h1 : 1 ≤ i.m) (h2 : i.m ≤ 12) :
    instToTstamp i = (days i.y i.m i.d - epochDays) * 86400 +
      (if i.isAllDay then 0 else (((i.H : Int) * 60 + i.M) * 60 + i.S)) := by
  have k := ts_days i.y i.m i.d h1 h2
  unfold instToTstamp
  simp only [echsdEpochDays, epochDays_eq]
  rw [← k]
  split <;> omega
end Echse.Instant
