/-
  C15 enumeration part (written once by a loop, then static): Gregorian scale, per day number,
  chunks 0..23 of 1024 points.
  One theorem per chunk: each is checked by the kernel on its own (bounded memory and heartbeats).
-/
import Echse.Lemmas.C15Enum
namespace Echse.Scale

theorem gregA_c0 : allFrom (chkG) (dLo + 1024 * (0 + 0)) 1024 = true := by decide +kernel
theorem gregA_c1 : allFrom (chkG) (dLo + 1024 * (0 + 1)) 1024 = true := by decide +kernel
theorem gregA_c2 : allFrom (chkG) (dLo + 1024 * (0 + 2)) 1024 = true := by decide +kernel
theorem gregA_c3 : allFrom (chkG) (dLo + 1024 * (0 + 3)) 1024 = true := by decide +kernel
theorem gregA_c4 : allFrom (chkG) (dLo + 1024 * (0 + 4)) 1024 = true := by decide +kernel
theorem gregA_c5 : allFrom (chkG) (dLo + 1024 * (0 + 5)) 1024 = true := by decide +kernel
theorem gregA_c6 : allFrom (chkG) (dLo + 1024 * (0 + 6)) 1024 = true := by decide +kernel
theorem gregA_c7 : allFrom (chkG) (dLo + 1024 * (0 + 7)) 1024 = true := by decide +kernel
theorem gregA_c8 : allFrom (chkG) (dLo + 1024 * (0 + 8)) 1024 = true := by decide +kernel
theorem gregA_c9 : allFrom (chkG) (dLo + 1024 * (0 + 9)) 1024 = true := by decide +kernel
theorem gregA_c10 : allFrom (chkG) (dLo + 1024 * (0 + 10)) 1024 = true := by decide +kernel
theorem gregA_c11 : allFrom (chkG) (dLo + 1024 * (0 + 11)) 1024 = true := by decide +kernel
theorem gregA_c12 : allFrom (chkG) (dLo + 1024 * (0 + 12)) 1024 = true := by decide +kernel
theorem gregA_c13 : allFrom (chkG) (dLo + 1024 * (0 + 13)) 1024 = true := by decide +kernel
theorem gregA_c14 : allFrom (chkG) (dLo + 1024 * (0 + 14)) 1024 = true := by decide +kernel
theorem gregA_c15 : allFrom (chkG) (dLo + 1024 * (0 + 15)) 1024 = true := by decide +kernel
theorem gregA_c16 : allFrom (chkG) (dLo + 1024 * (0 + 16)) 1024 = true := by decide +kernel
theorem gregA_c17 : allFrom (chkG) (dLo + 1024 * (0 + 17)) 1024 = true := by decide +kernel
theorem gregA_c18 : allFrom (chkG) (dLo + 1024 * (0 + 18)) 1024 = true := by decide +kernel
theorem gregA_c19 : allFrom (chkG) (dLo + 1024 * (0 + 19)) 1024 = true := by decide +kernel
theorem gregA_c20 : allFrom (chkG) (dLo + 1024 * (0 + 20)) 1024 = true := by decide +kernel
theorem gregA_c21 : allFrom (chkG) (dLo + 1024 * (0 + 21)) 1024 = true := by decide +kernel
theorem gregA_c22 : allFrom (chkG) (dLo + 1024 * (0 + 22)) 1024 = true := by decide +kernel
theorem gregA_c23 : allFrom (chkG) (dLo + 1024 * (0 + 23)) 1024 = true := by decide +kernel

theorem gregA_chunks : ∀ c, c < 24 → allFrom (chkG) (dLo + 1024 * (0 + c)) 1024 = true
  | 0, _ => gregA_c0
  | 1, _ => gregA_c1
  | 2, _ => gregA_c2
  | 3, _ => gregA_c3
  | 4, _ => gregA_c4
  | 5, _ => gregA_c5
  | 6, _ => gregA_c6
  | 7, _ => gregA_c7
  | 8, _ => gregA_c8
  | 9, _ => gregA_c9
  | 10, _ => gregA_c10
  | 11, _ => gregA_c11
  | 12, _ => gregA_c12
  | 13, _ => gregA_c13
  | 14, _ => gregA_c14
  | 15, _ => gregA_c15
  | 16, _ => gregA_c16
  | 17, _ => gregA_c17
  | 18, _ => gregA_c18
  | 19, _ => gregA_c19
  | 20, _ => gregA_c20
  | 21, _ => gregA_c21
  | 22, _ => gregA_c22
  | 23, _ => gregA_c23
  | n + 24, h => absurd h (by omega)

theorem gregA : ∀ k, dLo + 1024 * 0 ≤ k → k < dLo + 1024 * (0 + 24) → chkG k = true :=
  allFrom_chunks _ _ _ _ _ gregA_chunks

end Echse.Scale
