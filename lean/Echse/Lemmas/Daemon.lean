/-
  Daemon model (Echse/Model/Daemon.lean): histories, the closed form of one event-loop
  iteration.

  * `Op`, `step`, `run`, `Mono` — finite histories of loop iterations, client requests,
    child exits and checkpoints;
  * `St.get`, `SidU` — look-up by `sid` and uniqueness of `sid`s;
  * `reify_spec` — `periodics_reify` re-arms exactly the due watchers;
  * `cbStep_spec` / `cbFold_spec` — the pending periodic callbacks (`runPending`);
  * `exit_spec` — `chld_cb` (`childExitPending`);
  * `iter` / `iter_spec` — one loop iteration, optionally with a child reaped in it (`tick`, `tickExit`):
    the task table and the spawns afterwards as functions of the table before it (`iterTask`, `iterSpawns`).
-/
import Echse.Model.Daemon
namespace Echse.Daemon

/-! ### small list facts -/

theorem dropWhile_head_not {α} (p : α → Bool) : ∀ (l : List α) (e : α) (r : List α),
    l.dropWhile p = e :: r → p e = false := by
  intro l
  induction l with
  | nil => intro e r h; simp at h
  | cons a l ih =>
    intro e r h
    rw [List.dropWhile_cons] at h
    split at h
    · exact ih e r h
    · cases h; simpa using ‹¬ p a = true›

theorem dropWhile_suffix_mem {α} (p : α → Bool) (l : List α) : ∀ x ∈ l.dropWhile p, x ∈ l := by
  intro x hx
  have := (List.dropWhile_sublist p (l := l)).subset
  exact this hx

theorem dropWhile_eq_filter_of_sorted (now : Nat) : ∀ (l : List Nat), l.Pairwise (· ≤ ·) →
    l.dropWhile (· < now) = l.filter (fun o => decide (now ≤ o)) := by
  intro l
  induction l with
  | nil => intro _; rfl
  | cons a l ih =>
    intro h
    rw [List.pairwise_cons] at h
    rw [List.dropWhile_cons]
    by_cases ha : a < now
    · simp only [ha, decide_true, if_true]
      rw [ih h.2, List.filter_cons]
      have : ¬ now ≤ a := by omega
      simp [this]
    · simp only [ha, decide_false, Bool.false_eq_true, if_false]
      symm
      rw [List.filter_eq_self]
      intro x hx
      rcases List.mem_cons.mp hx with rfl | hx
      · simp; omega
      · have := h.1 x hx; simp; omega

theorem filter_length_lt {α} (p q : α → Bool) : ∀ (l : List α) (a : α),
    (∀ x ∈ l, q x = true → p x = true) → a ∈ l → p a = true → q a = false →
    (l.filter q).length < (l.filter p).length := by
  intro l
  induction l with
  | nil => intro a _ h; cases h
  | cons b l ih =>
    intro a hqp ha hpa hqa
    have hle : (l.filter q).length ≤ (l.filter p).length := by
      have : ∀ (m : List α), (∀ x ∈ m, q x = true → p x = true) → (m.filter q).length ≤ (m.filter p).length := by
        intro m
        induction m with
        | nil => intro _; simp
        | cons c m ihm =>
          intro h
          have h1 := ihm (fun x hx => h x (List.mem_cons_of_mem _ hx))
          have h2 := h c (List.mem_cons_self)
          simp only [List.filter_cons]
          cases hq : q c <;> cases hp : p c <;> simp_all <;> omega
      exact this l (fun x hx => hqp x (List.mem_cons_of_mem _ hx))
    rcases List.mem_cons.mp ha with rfl | ha'
    · simp only [List.filter_cons, hpa, hqa, if_true, Bool.false_eq_true, if_false, List.length_cons]
      omega
    · have h1 := ih a (fun x hx => hqp x (List.mem_cons_of_mem _ hx)) ha' hpa hqa
      have h2 := hqp b (List.mem_cons_self)
      simp only [List.filter_cons]
      cases hq : q b <;> cases hp : p b <;> simp_all <;> omega

/-- a list without repetitions in which only `a` contributes -/
theorem flatMap_single {α β} [DecidableEq α] (f : α → List β) (a : α) : ∀ (l : List α), l.Nodup →
    (∀ x ∈ l, x ≠ a → f x = []) → l.flatMap f = if a ∈ l then f a else [] := by
  intro l
  induction l with
  | nil => intro _ _; simp
  | cons b l ih =>
    intro hn h
    rw [List.nodup_cons] at hn
    rw [List.flatMap_cons, ih hn.2 (fun x hx => h x (List.mem_cons_of_mem _ hx))]
    by_cases hb : b = a
    · subst hb
      simp [hn.1]
    · have := h b List.mem_cons_self hb
      rw [this]
      have hne : ¬ a = b := fun e => hb e.symm
      simp [hne]

theorem map_inj_of_nodup {α β} (f : α → β) : ∀ (l : List α), (l.map f).Nodup →
    ∀ a ∈ l, ∀ b ∈ l, f a = f b → a = b := by
  intro l
  induction l with
  | nil => intro _ a h; cases h
  | cons c l ih =>
    intro hn a ha b hb hab
    rw [List.map_cons, List.nodup_cons] at hn
    rcases List.mem_cons.mp ha with rfl | ha' <;> rcases List.mem_cons.mp hb with rfl | hb'
    · rfl
    · exact absurd (hab ▸ List.mem_map_of_mem hb') hn.1
    · exact absurd (hab ▸ List.mem_map_of_mem ha') hn.1
    · exact ih hn.2 a ha' b hb' hab

theorem filterMap_congr' {α β} {f g : α → Option β} : ∀ {l : List α}, (∀ x ∈ l, f x = g x) →
    l.filterMap f = l.filterMap g := by
  intro l
  induction l with
  | nil => intro _; rfl
  | cons a l ih =>
    intro h
    rw [List.filterMap_cons, List.filterMap_cons, h a List.mem_cons_self,
      ih (fun x hx => h x (List.mem_cons_of_mem _ hx))]

/-! ### look-up by `sid` -/

def St.get (s : St) (sid : Nat) : Option DTask := s.tasks.find? (·.sid == sid)

/-- every `sid` names at most one record -/
def SidU (l : List DTask) : Prop := (l.map (·.sid)).Nodup

theorem SidU.inj {l : List DTask} (h : SidU l) {a b : DTask} (ha : a ∈ l) (hb : b ∈ l)
    (hab : a.sid = b.sid) : a = b := map_inj_of_nodup _ l h a ha b hb hab

theorem get_some_mem {s : St} {sid : Nat} {t : DTask} (h : s.get sid = some t) :
    t ∈ s.tasks ∧ t.sid = sid := by
  unfold St.get at h
  exact ⟨List.mem_of_find?_eq_some h, by simpa using List.find?_some h⟩

theorem get_of_mem {s : St} (hu : SidU s.tasks) {t : DTask} (ht : t ∈ s.tasks) :
    s.get t.sid = some t := by
  cases hg : s.get t.sid with
  | none =>
    unfold St.get at hg
    rw [List.find?_eq_none] at hg
    exact absurd (by simp) (hg t ht)
  | some x =>
    obtain ⟨hx, hs⟩ := get_some_mem hg
    rw [hu.inj hx ht hs]

theorem get_eq_some_iff {s : St} (hu : SidU s.tasks) {sid : Nat} {t : DTask} :
    s.get sid = some t ↔ t ∈ s.tasks ∧ t.sid = sid :=
  ⟨get_some_mem, fun ⟨h1, h2⟩ => h2 ▸ get_of_mem hu h1⟩

theorem get_eq_none_iff {s : St} {sid : Nat} : s.get sid = none ↔ ∀ t ∈ s.tasks, t.sid ≠ sid := by
  unfold St.get
  rw [List.find?_eq_none]
  simp

theorem mem_upd {s : St} {t x : DTask} :
    x ∈ (s.upd t).tasks ↔ (x ∈ s.tasks ∧ x.sid ≠ t.sid) ∨ (x = t ∧ ∃ y ∈ s.tasks, y.sid = t.sid) := by
  simp only [St.upd, List.mem_map]
  constructor
  · rintro ⟨y, hy, rfl⟩
    by_cases h : y.sid = t.sid
    · right; simp only [h, beq_self_eq_true, if_true, true_and]; exact ⟨y, hy, h⟩
    · left; simp [h, hy]
  · rintro (⟨hx, hne⟩ | ⟨rfl, y, hy, hs⟩)
    · exact ⟨x, hx, by simp [hne]⟩
    · exact ⟨y, hy, by simp [hs]⟩

theorem mem_del {s : St} {d : Nat} {x : DTask} : x ∈ (s.del d).tasks ↔ x ∈ s.tasks ∧ x.sid ≠ d := by
  simp [St.del]

theorem upd_tasks_filterMap (s : St) (t : DTask) :
    (s.upd t).tasks = s.tasks.filterMap (fun x => if x.sid == t.sid then some t else some x) := by
  simp only [St.upd]
  rw [← List.filterMap_eq_map]
  apply filterMap_congr'
  intro x _
  by_cases h : x.sid = t.sid <;> simp [h]

theorem del_tasks_filterMap (s : St) (d : Nat) :
    (s.del d).tasks = s.tasks.filterMap (fun x => if x.sid == d then none else some x) := by
  simp only [St.del]
  induction s.tasks with
  | nil => rfl
  | cons a l ih =>
    by_cases h : a.sid = d <;> simp [h, ih]

theorem sidU_filterMap {l : List DTask} (g : DTask → Option DTask)
    (hg : ∀ x y, g x = some y → y.sid = x.sid) (h : SidU l) : SidU (l.filterMap g) := by
  unfold SidU at *
  induction l with
  | nil => simp
  | cons a l ih =>
    rw [List.map_cons, List.nodup_cons] at h
    rw [List.filterMap_cons]
    cases hga : g a with
    | none => exact ih h.2
    | some y =>
      simp only [List.map_cons, List.nodup_cons]
      refine ⟨?_, ih h.2⟩
      intro hm
      rw [List.mem_map] at hm
      obtain ⟨z, hz, hzs⟩ := hm
      rw [List.mem_filterMap] at hz
      obtain ⟨w, hw, hgw⟩ := hz
      apply h.1
      rw [List.mem_map]
      exact ⟨w, hw, by rw [← hg w z hgw, hzs, hg a y hga]⟩

/-! ### `periodics_reify` -/

def isDue (now : Nat) (t : DTask) : Bool :=
  t.active && (match t.due with | some a => decide (a < now) | none => false)

/-- what the loop does to a due watcher before its callback runs -/
def rearm (now : Nat) (t : DTask) : DTask :=
  if t.resched then resched t now else { t with active := false }

def pick (b t : DTask) : DTask :=
  if t.due.getD 0 < b.due.getD 0 || (t.due.getD 0 == b.due.getD 0 && t.seq < b.seq) then t else b

theorem reify_succ (now fuel : Nat) (s : St) (pend : List Nat) :
    reify now (fuel+1) s pend =
      match s.tasks.filter (fun t => t.active && !(pend.contains t.sid) &&
          (match t.due with | some a => decide (a < now) | none => false)) with
      | [] => (s, pend)
      | d :: ds => reify now fuel (s.upd (rearm now (ds.foldl pick d))) (pend ++ [(ds.foldl pick d).sid]) := rfl

theorem foldl_pick_mem : ∀ (ds : List DTask) (d : DTask), ds.foldl pick d ∈ d :: ds := by
  intro ds
  induction ds with
  | nil => intro d; simp
  | cons a l ih =>
    intro d
    rw [List.foldl_cons]
    have := ih (pick d a)
    rcases List.mem_cons.mp this with h | h
    · rw [h]; unfold pick; split <;> simp
    · exact List.mem_cons_of_mem _ (List.mem_cons_of_mem _ h)

theorem resched_nil {t : DTask} {now : Nat} (h : t.occ.dropWhile (· < now) = []) :
    resched t now = if t.nrun = 0
      then { t with occ := [], resched := false, cbUnsched := true, cur := 0, due := some now }
      else { t with occ := [], resched := false, cur := 0, due := none } := by
  simp only [resched, h]

theorem resched_cons {t : DTask} {now e : Nat} {r : List Nat} (h : t.occ.dropWhile (· < now) = e :: r) :
    resched t now = { t with occ := e :: r, cur := e, nrun := t.nrun + 1, due := some e } := by
  simp only [resched, h]

theorem resched_sid (t : DTask) (now : Nat) : (resched t now).sid = t.sid := by
  cases h : t.occ.dropWhile (· < now) with
  | nil => rw [resched_nil h]; split <;> rfl
  | cons e r => rw [resched_cons h]

theorem rearm_sid (now : Nat) (t : DTask) : (rearm now t).sid = t.sid := by
  unfold rearm; split
  · exact resched_sid t now
  · rfl

theorem isDue_resched (now : Nat) (t : DTask) : isDue now (resched t now) = false := by
  cases h : t.occ.dropWhile (· < now) with
  | nil => rw [resched_nil h]; split <;> simp [isDue]
  | cons e r =>
    rw [resched_cons h]
    have := dropWhile_head_not _ _ _ _ h
    simp at this
    simp [isDue]; intro _; omega

theorem isDue_rearm (now : Nat) (t : DTask) : isDue now (rearm now t) = false := by
  unfold rearm; split
  · exact isDue_resched now t
  · simp [isDue]

/-- the loop re-arms exactly the due watchers and queues them, each once -/
theorem reify_spec (now : Nat) : ∀ (fuel : Nat) (s : St) (pend : List Nat),
    SidU s.tasks →
    (∀ t ∈ s.tasks, t.sid ∈ pend → isDue now t = false) →
    (s.tasks.filter (isDue now)).length < fuel →
    ∃ L, reify now fuel s pend =
        ({ s with tasks := s.tasks.map (fun t => if isDue now t then rearm now t else t) }, pend ++ L)
      ∧ L.Nodup ∧ (∀ x, x ∈ L ↔ ∃ t ∈ s.tasks, isDue now t = true ∧ t.sid = x) := by
  intro fuel
  induction fuel with
  | zero => intro s pend _ _ h; omega
  | succ fuel ih =>
    intro s pend hu hp hf
    rw [reify_succ]
    have hfil : s.tasks.filter (fun t => t.active && !(pend.contains t.sid) &&
          (match t.due with | some a => decide (a < now) | none => false)) = s.tasks.filter (isDue now) := by
      apply List.filter_congr
      intro t ht
      by_cases hm : t.sid ∈ pend
      · have := hp t ht hm
        simp only [isDue] at this ⊢
        simp [hm]
        simpa using this
      · simp [isDue, hm]
    rw [hfil]
    cases hd : s.tasks.filter (isDue now) with
    | nil =>
      refine ⟨[], ?_, List.nodup_nil, ?_⟩
      · simp only [List.append_nil]
        have : s.tasks.map (fun t => if isDue now t then rearm now t else t) = s.tasks := by
          rw [List.filter_eq_nil_iff] at hd
          conv => rhs; rw [← List.map_id s.tasks]
          apply List.map_congr_left
          intro t ht
          simp [hd t ht]
        rw [this]
      · intro x
        rw [List.filter_eq_nil_iff] at hd
        simp only [List.not_mem_nil, false_iff]
        rintro ⟨t, ht, hdue, _⟩
        exact hd t ht hdue
    | cons d ds =>
      simp only []
      have htop := foldl_pick_mem ds d
      rw [← hd, List.mem_filter] at htop
      generalize ds.foldl pick d = top at htop
      obtain ⟨htm, htd⟩ := htop
      -- the updated table
      have htasks : (s.upd (rearm now top)).tasks
          = s.tasks.map (fun x => if x.sid == top.sid then rearm now top else x) := by
        simp [St.upd, rearm_sid]
      have hu' : SidU (s.upd (rearm now top)).tasks := by
        rw [htasks]
        unfold SidU at hu ⊢
        rw [List.map_map]
        have : ((fun x : DTask => x.sid) ∘ fun x => if x.sid == top.sid then rearm now top else x)
            = fun x : DTask => x.sid := by
          funext x
          simp only [Function.comp]
          by_cases h : x.sid = top.sid <;> simp [h, rearm_sid]
        rw [this]; exact hu
      have hp' : ∀ t ∈ (s.upd (rearm now top)).tasks, t.sid ∈ pend ++ [top.sid] → isDue now t = false := by
        intro t ht hm
        rw [mem_upd] at ht
        rcases ht with ⟨ht, hne⟩ | ⟨rfl, _⟩
        · rw [rearm_sid] at hne
          simp only [List.mem_append, List.mem_singleton] at hm
          rcases hm with hm | hm
          · exact hp t ht hm
          · exact absurd hm hne
        · exact isDue_rearm now top
      have hnp : top.sid ∉ pend := by
        intro hm
        have := hp top htm hm
        rw [this] at htd; cases htd
      have hf' : ((s.upd (rearm now top)).tasks.filter (isDue now)).length < fuel := by
        rw [htasks, List.filter_map, List.length_map]
        have := filter_length_lt (isDue now) (isDue now ∘ fun x => if x.sid == top.sid then rearm now top else x)
          s.tasks top ?_ htm htd ?_
        · omega
        · intro x hx
          simp only [Function.comp]
          by_cases h : x.sid = top.sid
          · simp [h, isDue_rearm]
          · simp [h]
        · simp [isDue_rearm]
      obtain ⟨L, hL, hnd, hmem⟩ := ih (s.upd (rearm now top)) (pend ++ [top.sid]) hu' hp' hf'
      refine ⟨top.sid :: L, ?_, ?_, ?_⟩
      · rw [hL]
        congr 1
        · rw [htasks, List.map_map]
          simp only [St.upd]
          congr 1
          apply List.map_congr_left
          intro x hx
          simp only [Function.comp]
          by_cases h : x.sid = top.sid
          · have := hu.inj hx htm h
            subst this
            simp [isDue_rearm, htd]
          · simp [h]
        · simp
      · rw [List.nodup_cons]
        refine ⟨?_, hnd⟩
        intro hm
        obtain ⟨t, ht, hdue, hs⟩ := (hmem _).mp hm
        rw [mem_upd] at ht
        rcases ht with ⟨_, hne⟩ | ⟨rfl, _⟩
        · rw [rearm_sid] at hne; exact hne hs
        · rw [isDue_rearm] at hdue; cases hdue
      · intro x
        rw [List.mem_cons, hmem]
        constructor
        · rintro (rfl | ⟨t, ht, hdue, hs⟩)
          · exact ⟨top, htm, htd, rfl⟩
          · rw [mem_upd] at ht
            rcases ht with ⟨ht, _⟩ | ⟨rfl, _⟩
            · exact ⟨t, ht, hdue, hs⟩
            · rw [isDue_rearm] at hdue; cases hdue
        · rintro ⟨t, ht, hdue, hs⟩
          by_cases h : t.sid = top.sid
          · left; rw [← hs, h]
          · right
            refine ⟨t, ?_, hdue, hs⟩
            rw [mem_upd]; left; exact ⟨ht, by rw [rearm_sid]; exact h⟩

/-! ### the callbacks of one iteration -/

def cbStep (acc : St × List Spawn) (sid : Nat) : St × List Spawn :=
  let (s, sps) := acc
  match s.tasks.find? (·.sid == sid) with
  | none => (s, sps)
  | some t =>
    if !t.inTable then (s, sps)
    else if t.cbUnsched then
      (if t.nsim ≠ 0 then s.upd { t with active := false } else unsched s { t with active := false }, sps)
    else
      let (s', sp) := taskCb s t
      (s', sps ++ sp)

theorem runPending_eq (s : St) (pend : List Nat) : runPending s pend = pend.foldl cbStep (s, []) := rfl

theorem tick_eq (s : St) (now : Nat) :
    tick s now = runPending (reify now (s.tasks.length + 1) { s with now := now } []).1
      (reify now (s.tasks.length + 1) { s with now := now } []).2 := rfl

/-- the spawn a watcher's callback makes -/
def spawnsOf (fail : Bool) (t : DTask) : List Spawn :=
  if !t.inTable || t.cbUnsched || fail then []
  else [{ uid := t.uid, nd := !mayRun t, durS := durSecs t.dur, asUid := t.owner }]

/-- the callback starts a real child -/
def runs (fail : Bool) (t : DTask) : Bool := t.inTable && !t.cbUnsched && mayRun t && !fail

/-- the record after its callback; `none`: the task was unscheduled -/
def cbTask (fail : Bool) (t : DTask) : Option DTask :=
  if !t.inTable then some t
  else if t.cbUnsched then (if t.nsim ≠ 0 then some { t with active := false } else none)
  else if runs fail t then some { t with nsim := t.nsim + 1 }
  else if !t.resched && t.nsim == 0 then none else some t

def cbKids (fail : Bool) (t : DTask) : List Child :=
  if runs fail t then [{ sid := t.sid, live := true }] else []

/-- apply `f` to the record named `sid`, if there is one -/
def onGet {β : Type} (s : St) (sid : Nat) (f : DTask → List β) : List β :=
  match s.get sid with
  | some t => f t
  | none => []

theorem onGet_some {β : Type} {s : St} {sid : Nat} {t : DTask} (f : DTask → List β) (h : s.get sid = some t) :
    onGet s sid f = f t := by
  simp only [onGet, h]

theorem onGet_none {β : Type} {s : St} {sid : Nat} (f : DTask → List β) (h : s.get sid = none) :
    onGet s sid f = [] := by
  simp only [onGet, h]

/-- the fields no loop iteration touches -/
structure Frame (s s' : St) : Prop where
  me : s'.me = s.me
  users : s'.users = s.users
  now : s'.now = s.now
  nextSid : s'.nextSid = s.nextSid
  perseq : s'.perseq = s.perseq
  files : s'.files = s.files
  spawnFail : s'.spawnFail = s.spawnFail

theorem Frame.refl (s : St) : Frame s s := ⟨rfl, rfl, rfl, rfl, rfl, rfl, rfl⟩

theorem Frame.trans {a b c : St} (h1 : Frame a b) (h2 : Frame b c) : Frame a c :=
  ⟨h2.me.trans h1.me, h2.users.trans h1.users, h2.now.trans h1.now, h2.nextSid.trans h1.nextSid,
   h2.perseq.trans h1.perseq, h2.files.trans h1.files, h2.spawnFail.trans h1.spawnFail⟩

theorem addChkpnt_tasks (s : St) (u : Nat) : (addChkpnt s u).tasks = s.tasks := by
  unfold addChkpnt; split <;> rfl

theorem addChkpnt_children (s : St) (u : Nat) : (addChkpnt s u).children = s.children := by
  unfold addChkpnt; split <;> rfl

theorem addChkpnt_frame (s : St) (u : Nat) : Frame s (addChkpnt s u) := by
  unfold addChkpnt; split <;> exact ⟨rfl, rfl, rfl, rfl, rfl, rfl, rfl⟩

theorem unsched_tasks (s : St) (t : DTask) :
    (unsched s t).tasks = s.tasks.filterMap (fun x => if x.sid == t.sid then none else some x) := by
  unfold unsched
  rw [del_tasks_filterMap, addChkpnt_tasks]

theorem unsched_children (s : St) (t : DTask) : (unsched s t).children = s.children := by
  simp [unsched, St.del, addChkpnt_children]

theorem unsched_frame (s : St) (t : DTask) : Frame s (unsched s t) := by
  have := addChkpnt_frame s t.owner
  exact ⟨this.me, this.users, this.now, this.nextSid, this.perseq, this.files, this.spawnFail⟩

theorem cbTask_sid {fail : Bool} {t y : DTask} (h : cbTask fail t = some y) : y.sid = t.sid := by
  unfold cbTask at h
  split at h
  · cases h; rfl
  split at h
  · split at h
    · cases h; rfl
    · cases h
  · split at h
    · cases h; rfl
    · split at h
      · cases h
      · cases h; rfl

theorem cbStep_spec (s : St) (sps : List Spawn) (sid : Nat) (hu : SidU s.tasks) :
    ∃ s', cbStep (s, sps) sid
        = (s', sps ++ (onGet s sid (spawnsOf s.spawnFail)))
      ∧ s'.tasks = s.tasks.filterMap (fun x => if x.sid == sid then cbTask s.spawnFail x else some x)
      ∧ s'.children = s.children ++ (onGet s sid (cbKids s.spawnFail))
      ∧ Frame s s' := by
  cases hg : s.get sid with
  | none =>
    have hg' : s.tasks.find? (·.sid == sid) = none := hg
    rw [onGet_none _ hg, onGet_none _ hg]
    refine ⟨s, by simp [cbStep, hg'], ?_, by simp, Frame.refl s⟩
    rw [get_eq_none_iff] at hg
    conv => lhs; rw [← List.filterMap_some (l := s.tasks)]
    apply filterMap_congr'
    intro x hx
    simp [hg x hx]
  | some t =>
    have hg' : s.tasks.find? (·.sid == sid) = some t := hg
    rw [onGet_some _ hg, onGet_some _ hg]
    obtain ⟨htm, hts⟩ := get_some_mem hg
    have keyc : ∀ (f : DTask → Option DTask), (∀ x ∈ s.tasks, x.sid = sid → f x = cbTask s.spawnFail x) →
        (∀ x, x.sid ≠ sid → f x = some x) →
        s.tasks.filterMap f = s.tasks.filterMap (fun x => if x.sid == sid then cbTask s.spawnFail x else some x) := by
      intro f h1 h2
      apply filterMap_congr'
      intro x hx
      by_cases h : x.sid = sid
      · simp [h, h1 x hx h]
      · simp [h, h2 x h]
    by_cases hit : t.inTable = false
    · refine ⟨s, ?_, ?_, ?_, Frame.refl s⟩
      · simp [cbStep, hg', hit, spawnsOf]
      · conv => lhs; rw [← List.filterMap_some (l := s.tasks)]
        apply keyc
        · intro x hx h
          have : x = t := hu.inj hx htm (h.trans hts.symm)
          subst this
          simp [cbTask, hit]
        · intro x h; rfl
      · simp [cbKids, runs, hit]
    have hit : t.inTable = true := by simpa using hit
    by_cases hcb : t.cbUnsched = true
    · by_cases hn : t.nsim = 0
      · refine ⟨unsched s { t with active := false }, ?_, ?_, ?_, unsched_frame _ _⟩
        · simp [cbStep, hg', hit, hcb, hn, spawnsOf]
        · rw [unsched_tasks]
          apply keyc
          · intro x hx h
            have : x = t := hu.inj hx htm (h.trans hts.symm)
            subst this
            simp [cbTask, hit, hcb, hn, hts]
          · intro x h; simp [hts, h]
        · simp [unsched_children, cbKids, runs, hit, hcb]
      · refine ⟨s.upd { t with active := false }, ?_, ?_, ?_, ⟨rfl, rfl, rfl, rfl, rfl, rfl, rfl⟩⟩
        · simp [cbStep, hg', hit, hcb, hn, spawnsOf]
        · rw [upd_tasks_filterMap]
          apply keyc
          · intro x hx h
            have : x = t := hu.inj hx htm (h.trans hts.symm)
            subst this
            simp [cbTask, hit, hcb, hn, hts]
          · intro x h; simp [hts, h]
        · simp [St.upd, cbKids, runs, hit, hcb]
    · have hcb' : t.cbUnsched = false := by simpa using hcb
      by_cases hm : mayRun t = true
      · by_cases hf : s.spawnFail = true
        · by_cases hz : (!t.resched && t.nsim == 0) = true
          · refine ⟨unsched s t, ?_, ?_, ?_, unsched_frame _ _⟩
            · simp [cbStep, hg', hit, hcb', taskCb, hm, hf, hz, spawnsOf]
            · rw [unsched_tasks]
              apply keyc
              · intro x hx h
                have : x = t := hu.inj hx htm (h.trans hts.symm)
                subst this
                simp [cbTask, hit, hcb', runs, hf, hz, hts]
              · intro x h; simp [hts, h]
            · simp [unsched_children, cbKids, runs, hit, hf]
          · refine ⟨s, ?_, ?_, ?_, Frame.refl s⟩
            · simp [cbStep, hg', hit, hcb', taskCb, hm, hf, hz, spawnsOf]
            · conv => lhs; rw [← List.filterMap_some (l := s.tasks)]
              apply keyc
              · intro x hx h
                have : x = t := hu.inj hx htm (h.trans hts.symm)
                subst this
                simp [cbTask, hit, hcb', runs, hf, hz]
              · intro x h; rfl
            · simp [cbKids, runs, hit, hf]
        · have hf' : s.spawnFail = false := by simpa using hf
          refine ⟨({ s with children := s.children ++ [({ sid := t.sid, live := true } : Child)] } : St).upd
              { t with nsim := t.nsim + 1 }, ?_, ?_, ?_, ⟨rfl, rfl, rfl, rfl, rfl, rfl, rfl⟩⟩
          · simp [cbStep, hg', hit, hcb', taskCb, hm, hf', spawnsOf]
          · rw [upd_tasks_filterMap]
            apply keyc
            · intro x hx h
              have : x = t := hu.inj hx htm (h.trans hts.symm)
              subst this
              simp [cbTask, hit, hcb', runs, hf', hm, hts]
            · intro x h; simp [hts, h]
          · simp [St.upd, cbKids, runs, hit, hcb', hm, hf']
      · have hm' : mayRun t = false := by simpa using hm
        by_cases hz : (!t.resched && t.nsim == 0) = true
        · refine ⟨unsched s t, ?_, ?_, ?_, unsched_frame _ _⟩
          · by_cases hf : s.spawnFail = true <;> simp [cbStep, hg', hit, hcb', taskCb, hm', hf, hz, spawnsOf]
          · rw [unsched_tasks]
            apply keyc
            · intro x hx h
              have : x = t := hu.inj hx htm (h.trans hts.symm)
              subst this
              simp [cbTask, hit, hcb', runs, hm', hz, hts]
            · intro x h; simp [hts, h]
          · simp [unsched_children, cbKids, runs, hit, hm']
        · refine ⟨s, ?_, ?_, ?_, Frame.refl s⟩
          · by_cases hf : s.spawnFail = true <;> simp [cbStep, hg', hit, hcb', taskCb, hm', hf, hz, spawnsOf]
          · conv => lhs; rw [← List.filterMap_some (l := s.tasks)]
            apply keyc
            · intro x hx h
              have : x = t := hu.inj hx htm (h.trans hts.symm)
              subst this
              simp [cbTask, hit, hcb', runs, hm', hz]
            · intro x h; rfl
          · simp [cbKids, runs, hit, hm']

theorem flatMap_congr' {α β} {f g : α → List β} : ∀ {l : List α}, (∀ x ∈ l, f x = g x) →
    l.flatMap f = l.flatMap g := by
  intro l
  induction l with
  | nil => intro _; rfl
  | cons a l ih =>
    intro h
    rw [List.flatMap_cons, List.flatMap_cons, h a List.mem_cons_self,
      ih (fun x hx => h x (List.mem_cons_of_mem _ hx))]

theorem get_congr_of_tasks {s s1 : St} {sid x : Nat} (hx : x ≠ sid)
    (ht : s1.tasks = s.tasks.filterMap (fun y => if y.sid == sid then cbTask s.spawnFail y else some y)) :
    s1.get x = s.get x := by
  unfold St.get
  rw [ht]
  induction s.tasks with
  | nil => rfl
  | cons a l ih =>
    rw [List.filterMap_cons]
    by_cases h : a.sid = sid
    · have hax : (a.sid == x) = false := by
        simp only [beq_eq_false_iff_ne, ne_eq]; exact fun e => hx (e.symm.trans h)
      have hb : (a.sid == sid) = true := by simpa using h
      simp only [hb, if_true]
      cases hc : cbTask s.spawnFail a with
      | none => simp only []; rw [ih, List.find?_cons, hax]
      | some y =>
        have hy := cbTask_sid hc
        simp only []
        rw [List.find?_cons, List.find?_cons, ih, hy, hax]
    · have hb : (a.sid == sid) = false := by simpa using h
      simp only [hb, Bool.false_eq_true, if_false]
      rw [List.find?_cons, List.find?_cons, ih]

/-- all callbacks of one iteration -/
theorem cbFold_spec : ∀ (pend : List Nat) (s : St) (sps : List Spawn), SidU s.tasks → pend.Nodup →
    ∃ s', pend.foldl cbStep (s, sps)
        = (s', sps ++ pend.flatMap (fun sid => onGet s sid (spawnsOf s.spawnFail)))
      ∧ s'.tasks = s.tasks.filterMap (fun x => if pend.contains x.sid then cbTask s.spawnFail x else some x)
      ∧ s'.children = s.children
          ++ pend.flatMap (fun sid => onGet s sid (cbKids s.spawnFail))
      ∧ Frame s s' := by
  intro pend
  induction pend with
  | nil =>
    intro s sps _ _
    exact ⟨s, by simp, by simp, by simp, Frame.refl s⟩
  | cons sid rest ih =>
    intro s sps hu hnd
    rw [List.nodup_cons] at hnd
    obtain ⟨s1, h1, ht1, hc1, hf1⟩ := cbStep_spec s sps sid hu
    have hu1 : SidU s1.tasks := by
      rw [ht1]
      apply sidU_filterMap _ _ hu
      intro x y h
      split at h
      · exact cbTask_sid h
      · cases h; rfl
    obtain ⟨s2, h2, ht2, hc2, hf2⟩ := ih s1 (sps ++ (onGet s sid (spawnsOf s.spawnFail))) hu1 hnd.2
    have hget : ∀ x ∈ rest, s1.get x = s.get x := by
      intro x hx
      exact get_congr_of_tasks (fun e => hnd.1 (by rw [← e]; exact hx)) ht1
    refine ⟨s2, ?_, ?_, ?_, hf1.trans hf2⟩
    · rw [List.foldl_cons, h1, h2, List.flatMap_cons, List.append_assoc]
      have : ∀ x ∈ rest, (onGet s1 x (spawnsOf s1.spawnFail))
          = (onGet s x (spawnsOf s.spawnFail)) := by
        intro x hx
        simp only [onGet, hget x hx, hf1.spawnFail]
      rw [flatMap_congr' this]
    · rw [ht2, ht1, List.filterMap_filterMap, hf1.spawnFail]
      apply filterMap_congr'
      intro x hx
      by_cases h : x.sid = sid
      · simp only [h, beq_self_eq_true, if_true, List.contains_cons, Bool.true_or]
        cases hc : cbTask s.spawnFail x with
        | none => rfl
        | some y =>
          have hy := cbTask_sid hc
          have : y.sid ∉ rest := by
            rw [hy, h]; exact hnd.1
          simp [this]
      · have h' : (x.sid == sid) = false := by simpa using h
        simp only [h', Bool.false_eq_true, if_false, Option.bind_some, List.contains_cons, Bool.false_or]
    · rw [hc2, hc1, List.flatMap_cons, List.append_assoc]
      have : ∀ x ∈ rest, (onGet s1 x (cbKids s1.spawnFail))
          = (onGet s x (cbKids s.spawnFail)) := by
        intro x hx
        simp only [onGet, hget x hx, hf1.spawnFail]
      rw [flatMap_congr' this]


/-! ### `chld_cb` in closed form -/

/-- the children after the `k`-th has been reaped -/
def kill (l : List Child) (k : Nat) : List Child :=
  l.zipIdx.map fun ((c : Child), (i : Nat)) => if i == k then ({ c with live := false } : Child) else c

/-- `chld_cb` on the record `x`: `ex` is the `sid` of the reaped child, `p`: the record's periodic callback
is pending in this iteration -/
def exitTask (ex : Nat) (p : Bool) (x : DTask) : Option DTask :=
  if x.sid == ex then
    (if !x.inTable then (if x.nsim - 1 == 0 then none else some { x with nsim := x.nsim - 1 })
     else if !x.resched && x.nsim - 1 == 0 && !p then none else some { x with nsim := x.nsim - 1 })
  else some x

theorem exitTask_sid {ex : Nat} {p : Bool} {x y : DTask} (h : exitTask ex p x = some y) : y.sid = x.sid := by
  unfold exitTask at h
  split at h
  · split at h
    · split at h
      · cases h
      · cases h; rfl
    · split at h
      · cases h
      · cases h; rfl
  · cases h; rfl

theorem upd_del_tasks (s : St) (t : DTask) : ((s.upd t).del t.sid).tasks = (s.del t.sid).tasks := by
  rw [del_tasks_filterMap, upd_tasks_filterMap, List.filterMap_filterMap, del_tasks_filterMap]
  apply filterMap_congr'
  intro x _
  by_cases h : x.sid = t.sid <;> simp [h]

/-- the `k`-th child is not there or has been reaped already -/
theorem exit_none (s : St) (k : Nat) (pend : List Nat)
    (h : ∀ c, s.children[k]? = some c → c.live = false) : childExitPending s k pend = (s, false) := by
  unfold childExitPending
  cases hc : s.children[k]? with
  | none => rfl
  | some c => simp [h c hc]

theorem exit_spec (s : St) (k : Nat) (pend : List Nat) (hu : SidU s.tasks) (c : Child)
    (hc : s.children[k]? = some c) (hl : c.live = true) :
    (childExitPending s k pend).1.tasks = s.tasks.filterMap (fun x => exitTask c.sid (pend.contains x.sid) x)
    ∧ (childExitPending s k pend).1.children = kill s.children k
    ∧ Frame s (childExitPending s k pend).1 := by
  unfold childExitPending
  simp only [hc, hl, Bool.not_true, Bool.false_eq_true, if_false]
  have hk : (s.children.zipIdx.map fun ((c : Child), (i : Nat)) =>
      if i == k then ({ c with live := false } : Child) else c) = kill s.children k := rfl
  rw [hk]
  cases hg : s.get c.sid with
  | none =>
    have hg' : s.tasks.find? (·.sid == c.sid) = none := hg
    simp only [hg']
    refine ⟨?_, by simp only [], ⟨rfl, rfl, rfl, rfl, rfl, rfl, rfl⟩⟩
    rw [get_eq_none_iff] at hg
    conv => lhs; rw [← List.filterMap_some (l := s.tasks)]
    apply filterMap_congr'
    intro x hx
    simp [exitTask, hg x hx]
  | some t =>
    have hg' : s.tasks.find? (·.sid == c.sid) = some t := hg
    obtain ⟨htm, hts⟩ := get_some_mem hg
    simp only [hg']
    have keyc : ∀ (f : DTask → Option DTask),
        (f t = exitTask c.sid (pend.contains t.sid) t) →
        (∀ x, x.sid ≠ c.sid → f x = some x) →
        s.tasks.filterMap f = s.tasks.filterMap (fun x => exitTask c.sid (pend.contains x.sid) x) := by
      intro f h1 h2
      apply filterMap_congr'
      intro x hx
      by_cases h : x.sid = c.sid
      · have : x = t := hu.inj hx htm (h.trans hts.symm)
        subst this; exact h1
      · rw [h2 x h]; simp [exitTask, h]
    have hfr : ∀ (tt : DTask), Frame s (unsched (({ s with children := kill s.children k } : St).upd tt) tt) := by
      intro tt
      have := unsched_frame (({ s with children := kill s.children k } : St).upd tt) tt
      exact ⟨this.me, this.users, this.now, this.nextSid, this.perseq, this.files, this.spawnFail⟩
    split
    · rename_i hit
      have hit' : t.inTable = false := by simpa using hit
      split
      · rename_i hz
        have hz' : (t.nsim - 1 == 0) = true := hz
        refine ⟨?_, rfl, ⟨rfl, rfl, rfl, rfl, rfl, rfl, rfl⟩⟩
        simp only []
        rw [del_tasks_filterMap]
        apply keyc
        · simp [exitTask, hts, hit', hz']
        · intro x h; simp [hts, h]
      · rename_i hz
        have hz' : (t.nsim - 1 == 0) = false := by simpa using hz
        refine ⟨?_, rfl, ⟨rfl, rfl, rfl, rfl, rfl, rfl, rfl⟩⟩
        simp only []
        rw [upd_tasks_filterMap]
        apply keyc
        · simp [exitTask, hts, hit', hz']
        · intro x h; simp [hts, h]
    · rename_i hit
      have hit' : t.inTable = true := by simpa using hit
      split
      · rename_i hz
        have hz' : (!t.resched && t.nsim - 1 == 0 && !(pend.contains t.sid)) = true := hz
        refine ⟨?_, ?_, hfr _⟩
        · simp only [unsched]
          rw [del_tasks_filterMap, addChkpnt_tasks, upd_tasks_filterMap, List.filterMap_filterMap]
          apply keyc
          · simp [exitTask, hts, hit']; simpa [hts, and_assoc] using hz'
          · intro x h; simp [hts, h]
        · simp [unsched, St.del, addChkpnt_children, St.upd]
      · rename_i hz
        have hz' : (!t.resched && t.nsim - 1 == 0 && !(pend.contains t.sid)) = false := by simpa using hz
        refine ⟨?_, rfl, ⟨rfl, rfl, rfl, rfl, rfl, rfl, rfl⟩⟩
        simp only []
        rw [upd_tasks_filterMap]
        apply keyc
        · simp [exitTask, hts, hit']; simpa [hts] using hz'
        · intro x h; simp [hts, h]

/-! ### one iteration in closed form -/

/-- one loop iteration at time `now`; with `ko = some k` the `k`-th child is reaped in the same iteration
(after `periodics_reify`, before the pending periodic callbacks run) -/
def iter (s : St) (now : Nat) (ko : Option Nat) : St × List Spawn :=
  let r := reify now (s.tasks.length + 1) { s with now := now } []
  runPending (match ko with | some k => (childExitPending r.1 k r.2).1 | none => r.1) r.2

theorem tick_eq_iter (s : St) (now : Nat) : tick s now = iter s now none := rfl

/-- the combined iteration as an operation of its own -/
def tickExit (s : St) (now k : Nat) : St × List Spawn := iter s now (some k)

/-- the `sid` of the child reaped in the iteration, if any -/
def exitSid (s : St) : Option Nat → Option Nat
  | none => none
  | some k => match s.children[k]? with
    | some c => if c.live then some c.sid else none
    | none => none

def exitO (ex : Option Nat) (p : Bool) (x : DTask) : Option DTask :=
  match ex with
  | some e => exitTask e p x
  | none => some x

theorem exitO_sid {ex : Option Nat} {p : Bool} {x y : DTask} (h : exitO ex p x = some y) : y.sid = x.sid := by
  cases ex with
  | none => cases h; rfl
  | some e => exact exitTask_sid h

/-- what one iteration does to a task record; `none`: it leaves the table -/
def iterTask (now : Nat) (fail : Bool) (ex : Option Nat) (t : DTask) : Option DTask :=
  if isDue now t then (exitO ex true (rearm now t)).bind (cbTask fail) else exitO ex false t

/-- the spawns one iteration makes for a record -/
def iterSpawns (now : Nat) (fail : Bool) (ex : Option Nat) (t : DTask) : List Spawn :=
  if isDue now t then
    (match exitO ex true (rearm now t) with | some t2 => spawnsOf fail t2 | none => [])
  else []

theorem get_filterMap {l : List DTask} (g : DTask → Option DTask) (hu : SidU l)
    (hg : ∀ x y, g x = some y → y.sid = x.sid) (sid : Nat) :
    (l.filterMap g).find? (·.sid == sid) = (l.find? (·.sid == sid)).bind g := by
  induction l with
  | nil => rfl
  | cons a l ih =>
    unfold SidU at hu
    rw [List.map_cons, List.nodup_cons] at hu
    rw [List.filterMap_cons, List.find?_cons]
    by_cases h : a.sid = sid
    · have hb : (a.sid == sid) = true := by simpa using h
      simp only [hb, Option.bind_some]
      cases hga : g a with
      | none =>
        simp only []
        rw [List.find?_eq_none]
        intro y hy
        rw [List.mem_filterMap] at hy
        obtain ⟨x, hx, hgx⟩ := hy
        have := hg x y hgx
        intro hys
        apply hu.1
        rw [List.mem_map]
        refine ⟨x, hx, ?_⟩
        have : y.sid = sid := by simpa using hys
        omega
      | some y =>
        simp only []
        rw [List.find?_cons]
        have : (y.sid == sid) = true := by rw [hg a y hga]; exact hb
        simp [this]
    · have hb : (a.sid == sid) = false := by simpa using h
      simp only [hb]
      cases hga : g a with
      | none => simp only []; exact ih hu.2
      | some y =>
        simp only []
        rw [List.find?_cons]
        have : (y.sid == sid) = false := by rw [hg a y hga]; exact hb
        simp only [this]; exact ih hu.2

theorem iter_spec (s : St) (now : Nat) (ko : Option Nat) (hu : SidU s.tasks) :
    ∃ L : List Nat, L.Nodup ∧ (∀ x, x ∈ L ↔ ∃ t ∈ s.tasks, isDue now t = true ∧ t.sid = x)
      ∧ (iter s now ko).2 = L.flatMap (fun sid =>
          onGet s sid (iterSpawns now s.spawnFail (exitSid s ko)))
      ∧ (iter s now ko).1.tasks = s.tasks.filterMap (iterTask now s.spawnFail (exitSid s ko))
      ∧ Frame { s with now := now } (iter s now ko).1 := by
  have hu0 : SidU ({ s with now := now } : St).tasks := hu
  obtain ⟨L, hr, hnd, hmem⟩ := reify_spec now (s.tasks.length + 1) { s with now := now } [] hu0
    (by intro t _ h; cases h)
    (by have := List.length_filter_le (isDue now) s.tasks; simp only []; omega)
  unfold iter
  rw [hr]
  simp only [List.nil_append]
  have hu1 : SidU (s.tasks.map (fun t => if isDue now t then rearm now t else t)) := by
    unfold SidU at hu ⊢
    rw [List.map_map]
    have : ((fun x : DTask => x.sid) ∘ fun t => if isDue now t then rearm now t else t)
        = fun x : DTask => x.sid := by
      funext x
      simp only [Function.comp]
      split <;> simp [rearm_sid]
    rw [this]; exact hu
  generalize hs1 : ({ s with now := now, tasks := s.tasks.map (fun t => if isDue now t then rearm now t else t) } : St) = s1
  have hs1t : s1.tasks = s.tasks.map (fun t => if isDue now t then rearm now t else t) := by rw [← hs1]
  have hs1c : s1.children = s.children := by rw [← hs1]
  have hs1f : s1.spawnFail = s.spawnFail := by rw [← hs1]
  have hfr1 : Frame { s with now := now } s1 := by rw [← hs1]; exact ⟨rfl, rfl, rfl, rfl, rfl, rfl, rfl⟩
  rw [← hs1t] at hu1
  -- the reaping step
  obtain ⟨s2, hs2, hs2t, hfr2⟩ : ∃ s2, (match ko with | some k => (childExitPending s1 k L).1 | none => s1) = s2
      ∧ s2.tasks = s1.tasks.filterMap (fun x => exitO (exitSid s ko) (L.contains x.sid) x) ∧ Frame s1 s2 := by
    refine ⟨_, rfl, ?_⟩
    cases ko with
    | none =>
      refine ⟨?_, Frame.refl _⟩
      simp only [exitSid, exitO]
      exact (List.filterMap_some).symm
    | some k =>
      simp only [exitSid]
      cases hc : s.children[k]? with
      | none =>
        have := exit_none s1 k L (by intro c h; rw [hs1c, hc] at h; cases h)
        rw [this]
        simp only [exitO]
        exact ⟨(List.filterMap_some).symm, Frame.refl _⟩
      | some c =>
        by_cases hl : c.live = true
        · obtain ⟨h1, _, h3⟩ := exit_spec s1 k L hu1 c (by rw [hs1c]; exact hc) hl
          simp only [hl, if_true, exitO]
          exact ⟨h1, h3⟩
        · have hl' : c.live = false := by simpa using hl
          have := exit_none s1 k L (by intro c' h; rw [hs1c, hc] at h; cases h; exact hl')
          rw [this]
          simp only [hl', Bool.false_eq_true, if_false, exitO]
          exact ⟨(List.filterMap_some).symm, Frame.refl _⟩
  rw [hs2]
  have hu2 : SidU s2.tasks := by
    rw [hs2t]
    exact sidU_filterMap _ (fun x y h => exitO_sid h) hu1
  rw [runPending_eq]
  obtain ⟨s', h2, ht2, _, hf2⟩ := cbFold_spec L s2 [] hu2 hnd
  rw [h2]
  have hsf : s2.spawnFail = s.spawnFail := hfr2.spawnFail.trans hs1f
  -- look-up after re-arming and reaping
  have hget : ∀ x ∈ L, ∃ t, s.get x = some t ∧ isDue now t = true ∧
      s2.get x = exitO (exitSid s ko) true (rearm now t) := by
    intro x hx
    obtain ⟨t, ht, hd, hs⟩ := (hmem x).mp hx
    refine ⟨t, hs ▸ get_of_mem hu ht, hd, ?_⟩
    have h1 : s1.get x = some (rearm now t) := by
      rw [get_eq_some_iff hu1]
      refine ⟨?_, by rw [rearm_sid]; exact hs⟩
      rw [hs1t, List.mem_map]
      exact ⟨t, ht, by simp [hd]⟩
    unfold St.get at h1 ⊢
    rw [hs2t, get_filterMap _ hu1 (fun x y h => exitO_sid h), h1]
    simp only [Option.bind_some, rearm_sid, hs]
    have : L.contains x = true := by simpa using hx
    rw [this]
  refine ⟨L, hnd, hmem, ?_, ?_, hfr1.trans (hfr2.trans hf2)⟩
  · simp only [List.nil_append]
    apply flatMap_congr'
    intro x hx
    obtain ⟨t, h1, hd, h3⟩ := hget x hx
    rw [onGet_some _ h1]
    simp only [onGet, h3, hsf, iterSpawns, hd, if_true]
  · simp only []
    rw [ht2, hs2t, hs1t, List.filterMap_map, List.filterMap_filterMap, hsf]
    apply filterMap_congr'
    intro x hx
    simp only [Function.comp, iterTask]
    by_cases hd : isDue now x = true
    · have hxl : L.contains x.sid = true := by
        simpa using (hmem _).mpr ⟨x, hx, hd, rfl⟩
      simp only [hd, if_true, rearm_sid, hxl]
      cases he : exitO (exitSid s ko) true (rearm now x) with
      | none => rfl
      | some y =>
        have := exitO_sid he
        rw [rearm_sid] at this
        simp only [Option.bind_some, this, hxl, if_true]
    · have hd' : isDue now x = false := by simpa using hd
      have hxl : L.contains x.sid = false := by
        have : x.sid ∉ L := by
          intro hm
          obtain ⟨t, ht, hdt, hs⟩ := (hmem _).mp hm
          rw [hu.inj ht hx hs] at hdt
          rw [hdt] at hd'; cases hd'
        simpa using this
      simp only [hd', Bool.false_eq_true, if_false, hxl]
      cases he : exitO (exitSid s ko) false x with
      | none => rfl
      | some y =>
        have := exitO_sid he
        simp only [Option.bind_some, this, hxl, Bool.false_eq_true, if_false]

/-! ### histories -/

inductive Op where
  | tick (now : Nat)
  | req (peer : Nat) (ins : List Instr)
  | exit (k : Nat)
  | chk
  /-- the combined iteration: the `k`-th child is reaped while periodic callbacks are pending -/
  | tickExit (now : Nat) (k : Nat)
deriving Repr

/-- one operation: new state, spawns made, replies given -/
def step (s : St) : Op → St × List Spawn × List (String × Bool)
  | .tick now => ((tick s now).1, (tick s now).2, [])
  | .req p ins => ((cmdIcal s p ins).1, [], (cmdIcal s p ins).2)
  | .exit k => ((childExit s k).1, [], [])
  | .chk => (chkpnt s, [], [])
  | .tickExit now k => ((tickExit s now k).1, (tickExit s now k).2, [])

/-- the clock value a spawn of this operation is tagged with -/
def Op.clock (s : St) : Op → Nat
  | .tick now => now
  | .tickExit now _ => now
  | _ => s.now

/-- a whole history: final state, the spawns tagged with the clock value of their `tick`,
all replies -/
def run (s : St) : List Op → St × List (Nat × Spawn) × List (String × Bool)
  | [] => (s, [], [])
  | op :: ops =>
    let r := step s op
    let r' := run r.1 ops
    (r'.1, r.2.1.map (fun sp => (op.clock s, sp)) ++ r'.2.1, r.2.2 ++ r'.2.2)

/-- the final state only -/
def runSt (s : St) (ops : List Op) : St := (run s ops).1

def instrSorted : Instr → Prop
  | .sched _ _ _ _ occ _ => occ.Pairwise (· ≤ ·)
  | .cancel _ => True

/-- what is assumed of one operation in state `s`: the clock does not run backwards, submitted
occurrence lists are ascending -/
def OpOk (s : St) : Op → Prop
  | .tick now => s.now ≤ now
  | .tickExit now _ => s.now ≤ now
  | .req _ ins => ∀ i ∈ ins, instrSorted i
  | _ => True

/-- the assumption on a history started with clock value `c` -/
def Mono (c : Nat) : List Op → Prop
  | [] => True
  | .tick now :: ops => c ≤ now ∧ Mono now ops
  | .tickExit now _ :: ops => c ≤ now ∧ Mono now ops
  | .req _ ins :: ops => (∀ i ∈ ins, instrSorted i) ∧ Mono c ops
  | _ :: ops => Mono c ops

end Echse.Daemon
