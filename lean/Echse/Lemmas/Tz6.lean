/-
  Lemmas for C07, part 6: what `zif_utc_time` answers.  `Room`, `guessIdx`, `Near`; the candidates are the
  stretches next to the guess; a local time with a preimage there goes to the smallest one (`utcVal_first`).
-/
import Echse.Lemmas.Tz5
namespace Echse.Tz

/-- room of one day (the largest offset of a `WF` table) at both ends of int32 -/
def Room (w : Int) : Prop := intMin + 86400 ≤ w ∧ w + 86400 < intMax

instance (w : Int) : Decidable (Room w) := by unfold Room; infer_instance

/-- the index of the stretch the first guess `w − o(w)` lands in -/
def guessIdx (z : Zone) (w : Int) : Int := trIdx z (w - off z w)

/-- `u` lies in the stretch of the first guess or in one next to it -/
def Near (z : Zone) (w u : Int) : Prop := guessIdx z w - 1 ≤ trIdx z u ∧ trIdx z u ≤ guessIdx z w + 1

instance (z : Zone) (w u : Int) : Decidable (Near z w u) := by unfold Near; infer_instance

theorem room_I32 (z : Zone) (wf : WF z) (w : Int) (hr : Room w) : I32 w ∧ I32 (w - off z w) := by
  have := off_bound z wf w
  unfold Room at hr; unfold I32; unfold intMin intMax at *; omega

theorem rngAt_prev_gt (z : Zone) (k : Int) (h : (rngAt z k).prev > intMin) : 0 ≤ k := by
  apply Int.not_lt.1; intro hn; rw [rngAt_neg z k hn] at h; simp at h

theorem rngAt_next_lt (z : Zone) (k : Int) (h : (rngAt z k).next < intMax) : k + 1 < z.ntr := by
  apply Int.not_le.1; intro hn
  by_cases hneg : k < 0
  · rw [rngAt_neg z k hneg] at h
    have : z.ntr = 0 := by omega
    simp [this] at h
  · rw [rngAt_nonneg z k (by omega), if_neg (by omega)] at h; simp at h

theorem rngAt_prev_eq (z : Zone) (k : Int) (k0 : 0 ≤ k) : (rngAt z k).prev = tr z k.toNat := by
  rw [rngAt_nonneg z k k0]

theorem rngAt_next_eq (z : Zone) (k : Int) (h0 : -1 ≤ k) (k1 : k + 1 < z.ntr) :
    (rngAt z k).next = tr z (k + 1).toNat := by
  by_cases hneg : k < 0
  · have : k = -1 := by omega
    subst this
    rw [rngAt_neg z _ hneg, if_pos (by omega)]; rfl
  · rw [rngAt_nonneg z k (by omega), if_pos k1]

/-- every candidate is a stretch next to the guess -/
theorem of_mem_candsAt (z : Zone) (k : Int) (h0 : -1 ≤ k) (h1 : k < z.ntr) (q : ZRng) (hq : q ∈ candsAt z k) :
    ∃ j, q = rngAt z j ∧ -1 ≤ j ∧ j < z.ntr ∧ k - 1 ≤ j ∧ j ≤ k + 1 := by
  unfold candsAt at hq
  simp only [List.mem_append, List.mem_singleton] at hq
  rcases hq with (hq | hq) | hq
  · by_cases h : (rngAt z k).prev > intMin
    · rw [if_pos h] at hq
      have := rngAt_prev_gt z k h
      simp at hq
      exact ⟨k - 1, hq, by omega, by omega, by omega, by omega⟩
    · rw [if_neg h] at hq; simp at hq
  · exact ⟨k, hq, h0, h1, by omega, by omega⟩
  · by_cases h : (rngAt z k).next < intMax
    · rw [if_pos h] at hq
      have := rngAt_next_lt z k h
      simp at hq
      exact ⟨k + 1, hq, by omega, by omega, by omega, by omega⟩
    · rw [if_neg h] at hq; simp at hq

/-- a stretch next to the guess that contains a time with room is a candidate -/
theorem mem_candsAt (z : Zone) (wf : WF z) (k : Int) (h0 : -1 ≤ k) (h1 : k < z.ntr) (u : Int)
    (hu1 : intMin ≤ u) (hu2 : u < intMax) (hl : k - 1 ≤ trIdx z u) (hh : trIdx z u ≤ k + 1) :
    rngAt z (trIdx z u) ∈ candsAt z k := by
  obtain ⟨r0, r1⟩ := trIdx_range z u
  obtain ⟨a, b⟩ := (trIdx_eq_iff z wf u _ hu1 hu2 r0 r1).1 rfl
  unfold candsAt
  simp only [List.mem_append, List.mem_singleton]
  by_cases e1 : trIdx z u = k
  · rw [e1]; exact Or.inl (Or.inr rfl)
  by_cases e2 : trIdx z u = k - 1
  · refine Or.inl (Or.inl ?_)
    rw [e2] at a b ⊢
    have k0 : 0 ≤ k := by omega
    have : (rngAt z k).prev > intMin := by
      rw [rngAt_prev_eq z k k0]
      rw [rngAt_next_eq z (k - 1) (by omega) (by omega)] at b
      have : (k - 1 + 1).toNat = k.toNat := by congr 1; omega
      rw [this] at b; omega
    rw [if_pos this]; simp
  · have e3 : trIdx z u = k + 1 := by omega
    refine Or.inr ?_
    rw [e3] at a b r1 ⊢
    have : (rngAt z k).next < intMax := by
      rw [rngAt_next_eq z k h0 r1]
      rw [rngAt_prev_eq z (k + 1) (by omega)] at a
      omega
    rw [if_pos this]; simp


/-- a valid candidate is a preimage of `w` in its stretch, and conversely -/
theorem cand_valid_iff (z : Zone) (wf : WF z) (w : Int) (hr : Room w) (j : Int) (hj : -1 ≤ j) (hj' : j < z.ntr) :
    (rngAt z j).holds (w - (rngAt z j).offs) = true ↔ trIdx z (w - offAt z j) = j := by
  have := offAt_bound z wf j
  rw [rngAt_offs]
  unfold Room at hr
  exact holds_rngAt_iff z wf _ j (by omega) (by omega) hj hj'

/-- (a) a local time with a preimage next to the guess: the answer is the smallest such preimage -/
theorem utcVal_first (z : Zone) (wf : WF z) (w : Int) (hr : Room w) (u : Int) (hu : u + off z u = w)
    (hn : Near z w u) :
    utcVal z w + off z (utcVal z w) = w ∧ Near z w (utcVal z w) ∧
    ∀ u', u' + off z u' = w → Near z w u' → utcVal z w ≤ u' := by
  obtain ⟨k0, k1⟩ := trIdx_range z (w - off z w)
  have key : ∀ u', u' + off z u' = w → Near z w u' →
      rngAt z (trIdx z u') ∈ candsAt z (guessIdx z w) ∧
      (rngAt z (trIdx z u')).holds (w - (rngAt z (trIdx z u')).offs) = true ∧
      w - (rngAt z (trIdx z u')).offs = u' := by
    intro u' hu' hn'
    have hb := off_bound z wf u'
    obtain ⟨r0, r1⟩ := trIdx_range z u'
    have e : w - offAt z (trIdx z u') = u' := by unfold off at hu'; omega
    unfold Room at hr
    refine ⟨mem_candsAt z wf _ k0 k1 u' (by omega) (by omega) hn'.1 hn'.2, ?_, ?_⟩
    · rw [cand_valid_iff z wf w hr _ r0 r1, e]
    · rw [rngAt_offs]; exact e
  obtain ⟨c0, v0, _⟩ := key u hu hn
  obtain ⟨⟨q, hq, hv, e⟩, hmin⟩ := pick_valid w (rngAt z (guessIdx z w)) (candsAt z (guessIdx z w)) _ c0 v0
  have eu : utcVal z w = pick w (rngAt z (guessIdx z w)) (candsAt z (guessIdx z w)) := rfl
  obtain ⟨j, rfl, j0, j1, j2, j3⟩ := of_mem_candsAt z _ k0 k1 q hq
  rw [cand_valid_iff z wf w hr j j0 j1] at hv
  rw [rngAt_offs] at e
  refine ⟨?_, ?_, ?_⟩
  · rw [eu, e]; unfold off; rw [hv]; omega
  · rw [eu, e]; unfold Near; rw [hv]; exact ⟨j2, j3⟩
  · intro u' hu' hn'
    obtain ⟨c', v', e'⟩ := key u' hu' hn'
    have := hmin _ c' v'
    rw [eu]; omega

/-- in any case the answer is `w` less the offset of some stretch, hence within a day of `w` -/
theorem utcVal_bound (z : Zone) (wf : WF z) (w : Int) : w - 86400 ≤ utcVal z w ∧ utcVal z w ≤ w + 86400 := by
  obtain ⟨k0, k1⟩ := trIdx_range z (w - off z w)
  obtain ⟨q, hq, e⟩ := pick_off w (rngAt z (guessIdx z w)) (candsAt z (guessIdx z w))
    (by unfold candsAt; simp)
  obtain ⟨j, rfl, _⟩ := of_mem_candsAt z _ k0 k1 q hq
  have := offAt_bound z wf j
  have eu : utcVal z w = pick w (rngAt z (guessIdx z w)) (candsAt z (guessIdx z w)) := rfl
  rw [eu, e, rngAt_offs]; omega


/-! ### corollaries -/

theorem localTime_rng (z : Zone) (wf : WF z) (c : ZRng) (hc : CacheRng z c) (u : Int) (hu : I32 u) :
    localTime z c u = some (u + off z u, rngAt z (trIdx z u)) := by
  unfold localTime; rw [offsC_rng z wf c hc u hu]

theorem trIdx_eq_of_noTr (z : Zone) (a b : Int) (h : NoTrBetween z a b) : trIdx z a = trIdx z b := by
  unfold trIdx
  rw [List.countP_congr (q := (· ≤ b))]
  intro x hx
  have := h x hx
  simp only [decide_eq_true_eq]
  omega

/-- no transition between the first guess and `u`: the guess lands in the stretch of `u` -/
theorem near_of_noTr (z : Zone) (u : Int) (h : NoTrBetween z (u + off z u - off z (u + off z u)) u) :
    Near z (u + off z u) u := by
  have := trIdx_eq_of_noTr z _ _ h
  unfold Near guessIdx; omega

theorem near_of_far (z : Zone) (M u : Int) (hM : OffsLe z M) (hf : Far z M u) : Near z (u + off z u) u := by
  have a := off_bound' z M hM u
  have b := off_bound' z M hM (u + off z u)
  apply near_of_noTr
  have e : (u + off z u) - off z (u + off z u) = u + (off z u - off z (u + off z u)) := by omega
  rw [e]
  exact far_noTr z M u _ hf (by omega) (by omega)

/-- the answer is `u` exactly when `u` is the first of the preimages next to the guess -/
theorem utcVal_eq_iff (z : Zone) (wf : WF z) (u : Int) (hr : Room (u + off z u)) (hn : Near z (u + off z u) u) :
    utcVal z (u + off z u) = u ↔ ∀ u', u' + off z u' = u + off z u → Near z (u + off z u) u' → u ≤ u' := by
  obtain ⟨a, b, c⟩ := utcVal_first z wf _ hr u rfl hn
  constructor
  · intro e u' h1 h2; rw [← e]; exact c u' h1 h2
  · intro h
    have := h _ a b
    have := c u rfl hn
    omega

end Echse.Tz
