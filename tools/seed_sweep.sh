#!/bin/bash
# tools/seed_sweep.sh [-d "dir…"] [seed…] : run every property's check against its seeded defects (seeded/<id>[.rN]/patch.diff
# applied to a scratch copy of /repo's working tree) at the given VERIF_SEED values; prints one line per run.  Nothing in
# /repo or in /verif/evidence is touched; scratch copies live under $TMPDIR and are removed.
DIRS=$(ls /verif/seeded)
if [ "$1" = "-d" ]; then DIRS=$2; shift 2; fi
SEEDS=${*:-1}
T=${TMPDIR:-/tmp}/seed_sweep.$$
mkdir -p $T
one() {
  D0=$1; S=$2; P=${D0%%.*}; D=$T/$D0
  if [ ! -d $D ]; then
    mkdir -p $D/build-aux
    cp -r /repo/src $D/src
    cp /repo/build-aux/yuck* $D/build-aux/ 2>/dev/null
    (cd $D && patch -s -p1 < /verif/seeded/$D0/patch.diff) || { echo "$D0 seed=$S patch does not apply"; rm -rf $D; return; }
  fi
  O=$T/out_${D0}_$S; mkdir -p $O
  (cd /verif && ECHSE_REPO=$D VERIF_OUT=$O VERIF_SEED=$S python3 check.py $P > $O/log 2>&1); rc=$?
  echo "$D0 seed=$S rc=$rc $(grep -m1 '^# ' $O/log | cut -c1-230)"
}
for D0 in $DIRS; do
  for S in $SEEDS; do one $D0 $S; done &
  while [ $(jobs -r | wc -l) -ge 4 ]; do sleep 2; done
done
wait
rm -rf $T
