/-
  Assembly of C16 / C09, part 12: no sub-daily filler ever writes an all-day instant, so whatever the frequency an
  all-day instant comes from an all-day seed only (`fill_allDay_of_seed`), and what is written satisfies
  `KindOk` if the seed does (`fill_kind_all`; `KindOk` is no proviso of the filler or stream theorems any more).
-/
import Echse.Lemmas.RrAsm11
import Echse.Lemmas.RrAsm7
namespace Echse.Lemmas.RrAsm
open Echse.Rrule Echse.Instant Echse.Spec.RrOk

theorem fillMnly_hlt (r : Rule) (p : Inst) (n : Nat) (l : List Inst) (hp : WfInst p) (h : fillMnly r p n = some l) :
    ∀ x ∈ l, x.H < 24 := by
  have hnil : ∀ x ∈ ([] : List Inst), x.H < 24 := fun x hx => nomatch hx
  simp only [fillMnly] at h
  cases hcap : capNti r n with
  | none => rw [hcap] at h; cases h; exact hnil
  | some nti =>
    rw [hcap] at h
    simp only [] at h
    by_cases c1 : r.scale ≠ 0
    · rw [if_pos c1] at h; cases h; exact hnil
    rw [if_neg c1] at h
    by_cases c2 : p.y < 1600 ∨ p.m = 0 ∨ p.m > 12 ∨ p.d = 0 ∨ p.d > 31
    · rw [if_pos c2] at h; cases h; exact hnil
    rw [if_neg c2] at h
    by_cases c3 : r.inter % u32 = 0
    · rw [if_pos c3] at h; cases h; exact hnil
    rw [if_neg c3] at h
    by_cases c4 : (!posPickAnyP r.pos (mkSubCtx r p nti).e.S.length) = true
    · rw [if_pos c4] at h; cases h; exact hnil
    rw [if_neg c4] at h
    have hH : (if p.H = allDay then ((0 : Nat), (0 : Nat)) else (p.H, p.M)).1 < 24 := by
      have := hp.time
      unfold allDay at *
      split <;> simp only [] <;> omega
    generalize (if p.H = allDay then ((0 : Nat), (0 : Nat)) else (p.H, p.M)) = hm at hH h
    obtain ⟨H0, M0⟩ := hm
    simp only [] at hH h
    cases hre : mnlyReach (mkSubCtx r p nti) 1440 0 (H0 * 60 + M0) with
    | none => rw [hre] at h; cases h
    | some b =>
      rw [hre] at h
      cases b with
      | false => cases h; exact hnil
      | true =>
        simp only [] at h
        obtain ⟨res, hw, rfl⟩ := Option.map_eq_some_iff.mp h
        have := mnlyLoop_hlt _ _ _ _ _ _ _ _ _ _ _ _ _ hH (AllH.nil _) hw
        exact fun x hx => this x (List.mem_reverse.mp hx)

theorem fillSly_hlt (r : Rule) (p : Inst) (n : Nat) (l : List Inst) (hp : WfInst p) (h : fillSly r p n = some l) :
    ∀ x ∈ l, x.H < 24 := by
  have hnil : ∀ x ∈ ([] : List Inst), x.H < 24 := fun x hx => nomatch hx
  simp only [fillSly] at h
  cases hcap : capNti r n with
  | none => rw [hcap] at h; cases h; exact hnil
  | some nti =>
    rw [hcap] at h
    simp only [] at h
    by_cases c1 : r.scale ≠ 0
    · rw [if_pos c1] at h; cases h; exact hnil
    rw [if_neg c1] at h
    by_cases c2 : p.y < 1600 ∨ p.m = 0 ∨ p.m > 12 ∨ p.d = 0 ∨ p.d > 31
    · rw [if_pos c2] at h; cases h; exact hnil
    rw [if_neg c2] at h
    by_cases c3 : r.inter % u32 = 0
    · rw [if_pos c3] at h; cases h; exact hnil
    rw [if_neg c3] at h
    by_cases c4 : (!posPickAnyP r.pos 1) = true
    · rw [if_pos c4] at h; cases h; exact hnil
    rw [if_neg c4] at h
    have hH : (if p.H = allDay then ((0 : Nat), (0 : Nat), (0 : Nat)) else (p.H, p.M, p.S)).1 < 24 := by
      have := hp.time
      unfold allDay at *
      split <;> simp only [] <;> omega
    generalize (if p.H = allDay then ((0 : Nat), (0 : Nat), (0 : Nat)) else (p.H, p.M, p.S)) = hm at hH h
    obtain ⟨H0, M0, S0⟩ := hm
    simp only [] at hH h
    cases hre : slyReach (mkSubCtx r p nti) 86400 0 ((H0 * 60 + M0) * 60 + S0) with
    | none => rw [hre] at h; cases h
    | some b =>
      rw [hre] at h
      cases b with
      | false => cases h; exact hnil
      | true =>
        simp only [] at h
        obtain ⟨res, hw, rfl⟩ := Option.map_eq_some_iff.mp h
        have := slyLoop_hlt _ _ _ _ _ _ _ _ _ _ _ _ _ hH (AllH.nil _) hw
        exact fun x hx => this x (List.mem_reverse.mp hx)

theorem kindOk_of_hlt (r : Rule) (x : Inst) (h : x.H < 24) : KindOk r x :=
  KindOk.of_timed r x (by unfold allDay; omega)

/-- whatever the frequency, a filler writes an all-day instant only when its seed is one -/
theorem fill_allDay_of_seed (r : Rule) (p : Inst) (n : Nat) (l : List Inst) (hr : WfRule r) (hp : WfInst p)
    (h : fill r p n = some l) : ∀ x ∈ l, x.H = allDay → p.H = allDay := by
  intro x hx hall
  by_cases hf : r.freq ≤ 4
  · exact (fill_same_kind r p n l hr hp hf h x hx).1 hall
  · have hlt : x.H < 24 := by
      unfold fill at h
      split at h
      · omega
      · omega
      · omega
      · omega
      · exact fillHly_hlt r p n l hp h x hx
      · exact fillMnly_hlt r p n l hp h x hx
      · exact fillSly_hlt r p n l hp h x hx
      · cases h; cases hx
    unfold allDay at hall; omega

/-- whatever the frequency, what a filler writes has the kind of its seed: `KindOk` goes from seed to seed -/
theorem fill_kind_all (r : Rule) (p : Inst) (n : Nat) (l : List Inst) (hr : WfRule r) (hp : WfInst p) (hk : KindOk r p)
    (h : fill r p n = some l) : ∀ x ∈ l, KindOk r x := by
  by_cases hf : r.freq ≤ 4
  · exact fill_kind r p n l hr hp hk hf h
  · intro x hx
    unfold fill at h
    split at h
    · omega
    · omega
    · omega
    · omega
    · exact kindOk_of_hlt r x (fillHly_hlt r p n l hp h x hx)
    · exact kindOk_of_hlt r x (fillMnly_hlt r p n l hp h x hx)
    · exact kindOk_of_hlt r x (fillSly_hlt r p n l hp h x hx)
    · cases h; cases hx

end Echse.Lemmas.RrAsm
