/-
  C01, sub-daily fillers: the model's calendar (`getNdom`, the month carry, the weekday and day-of-year it carries
  along) against the spec's day numbers for 1901..2099; the comparison `ltP` against `absOf`; `inter_past`;
  the BYYEARDAY test and the day tests against `ydayOk` and `DateOk`.
-/
import Echse.Lemmas.RrSubRfc
import Echse.Lemmas.RuleExt11
import Echse.Lemmas.RuleExt9
namespace Echse.Lemmas.RrSubRfc
open Echse.Rrule Echse.Instant Echse.Spec.RrOk Echse.Lemmas.RrSubOk Echse.Spec.Rfc Echse.Spec.Cal Echse.Spec.RuleExt

/-! ### the calendar of the model against the spec's, 1901..2099 -/

theorem ndom_eq (y m : Nat) (hy1 : 1901 ≤ y) (hy2 : y ≤ 2099) (h1 : 1 ≤ m) (h2 : m ≤ 12) :
    getNdom y m = monthLen y m :=
  Echse.RuleExt.getNdom_eq y m ⟨h1, h2, Or.inl (by omega), Or.inl (by omega)⟩ (by omega)

theorem days_2100 : days 2100 1 1 = 766950 := by decide

/-- the month carry lands on the date with the day number aimed at, as long as that lies before 2100 -/
theorem carry_days : ∀ (fuel y m d : Nat), 1901 ≤ y → y ≤ 2099 → 1 ≤ m → m ≤ 12 → 1 ≤ d → d < fuel →
    days y m 1 + d - 1 < days 2100 1 1 →
    ∃ y' m' d', subCarry fuel y m d (getNdom y m) = some (y', m', d', getNdom y' m') ∧
      y ≤ y' ∧ y' ≤ 2099 ∧ 1 ≤ m' ∧ m' ≤ 12 ∧ 1 ≤ d' ∧ d' ≤ getNdom y' m' ∧
      days y' m' d' = days y m 1 + d - 1 := by
  intro fuel
  induction fuel with
  | zero => intro y m d _ _ _ _ _ h; omega
  | succ f ih =>
    intro y m d hy1 hy2 hm1 hm2 hd hf hlt
    have hb := getNdom_bounds y m hm1 hm2
    have hnd := ndom_eq y m hy1 hy2 hm1 hm2
    unfold subCarry
    by_cases hgt : d > getNdom y m
    · simp only [hgt, if_true]
      by_cases hm : m + 1 > 12
      · have hm12 : m = 12 := by omega
        subst hm12
        have hy1' : (y + 1) % u32 = y + 1 := by simp only [u32]; omega
        simp only [hm, if_true, hy1']
        have hn : getNdom y 12 = 31 := by simp [getNdom, mdays]
        have hny := days_next_year y
        have hmono := days_year_mono 2100 (y + 1)
        obtain ⟨y', m', d', he, h0, h1, h2, h3, h4, h5, h6⟩ :=
          ih (y + 1) 1 (d - getNdom y 12) (by omega) (by omega) (by omega) (by omega) (by omega) (by omega)
            (by omega)
        exact ⟨y', m', d', he, by omega, h1, h2, h3, h4, h5, by omega⟩
      · simp only [hm, if_false]
        have hnm := days_next_month y m hm1 (by omega)
        obtain ⟨y', m', d', he, h0, h1, h2, h3, h4, h5, h6⟩ :=
          ih y (m + 1) (d - getNdom y m) hy1 hy2 (by omega) (by omega) (by omega) (by omega) (by omega)
        exact ⟨y', m', d', he, h0, h1, h2, h3, h4, h5, by omega⟩
    · simp only [hgt, if_false]
      refine ⟨y, m, d, rfl, Nat.le_refl _, hy2, hm1, hm2, hd, by omega, ?_⟩
      rw [days_d y m d]

/-- moving on by `q` days -/
theorem carry_adv (y m d q : Nat) (hy1 : 1901 ≤ y) (hy2 : y ≤ 2099) (hm1 : 1 ≤ m) (hm2 : m ≤ 12) (hd1 : 1 ≤ d)
    (hd2 : d ≤ getNdom y m) (hq : q < 2147583648) (hlt : days y m d + q < days 2100 1 1) :
    ∃ y' m' d', subCarry ((d + q) % u32 + 1) y m ((d + q) % u32) (getNdom y m) = some (y', m', d', getNdom y' m') ∧
      y ≤ y' ∧ y' ≤ 2099 ∧ 1 ≤ m' ∧ m' ≤ 12 ∧ 1 ≤ d' ∧ d' ≤ getNdom y' m' ∧ days y' m' d' = days y m d + q := by
  have hb := getNdom_bounds y m hm1 hm2
  have e : (d + q) % u32 = d + q := by simp only [u32]; omega
  rw [e]
  have hdd := days_d y m d
  obtain ⟨y', m', d', he, h0, h1, h2, h3, h4, h5, h6⟩ :=
    carry_days (d + q + 1) y m (d + q) hy1 hy2 hm1 hm2 (by omega) (by omega) (by omega)
  exact ⟨y', m', d', he, h0, h1, h2, h3, h4, h5, by omega⟩

/-- the weekday the loops carry along -/
theorem wday_adv (D : Int) (w q : Nat) (hw : w = wdayOf D) (hq : q < 2147583648) :
    wrapWd ((w + q) % u32) = wdayOf (D + q) := by
  have e : (w + q) % u32 = w + q := by subst hw; simp only [u32, wdayOf]; omega
  rw [e]
  subst hw
  unfold wrapWd wdayOf
  split
  · split <;> omega
  · omega

theorem wday_start (y m d : Nat) (hy1 : 1901 ≤ y) (hy2 : y ≤ 2100) (h1 : 1 ≤ m) (h2 : m ≤ 12) (hd : d ≤ 31) :
    ymdGetWday y m d = wdayOf (days y m d) :=
  Echse.RuleExt.wday_eq y m d (by omega) hy2 h1 h2 hd

/-! ### order and identity of timed instants -/

/-- a real date with a real time of day -/
def VT (x : Inst) : Prop :=
  1 ≤ x.m ∧ x.m ≤ 12 ∧ 1 ≤ x.d ∧ x.d ≤ monthLen x.y x.m ∧ x.H < 24 ∧ x.M < 60 ∧ x.S < 60 ∧ x.y < 65536

theorem absOf_vt (x : Inst) (h : VT x) :
    absOf x = days x.y x.m x.d * 86400 + (x.H : Int) * 3600 + (x.M : Int) * 60 + x.S := by
  obtain ⟨_, _, _, _, hH, _⟩ := h
  have : x.H ≠ allDay := by simp only [allDay]; omega
  simp only [absOf, dayOf, secOf, if_neg this]
  omega

theorem bk_vt (x : Inst) (h : VT x) : bk x = msk x.ms + ck x.y x.m x.d x.H x.M x.S := by
  obtain ⟨h1, h2, h3, h4, hH, hM, hS, hy⟩ := h
  have := monthLen_pos x.y x.m h1 h2
  simp only [bk, bump, Inst.pack, msk, ck, Nat.reducePow]
  omega

theorem lex_of_days (a b : Inst) (ha : VT a) (hb : VT b) (h : days a.y a.m a.d < days b.y b.m b.d) :
    a.y < b.y ∨ (a.y = b.y ∧ (a.m < b.m ∨ (a.m = b.m ∧ a.d < b.d))) := by
  obtain ⟨a1, a2, a3, a4, _⟩ := ha
  obtain ⟨b1, b2, b3, b4, _⟩ := hb
  by_cases c : b.y < a.y ∨ (b.y = a.y ∧ (b.m < a.m ∨ (b.m = a.m ∧ b.d < a.d)))
  · have := days_lt_of_lex b.y b.m b.d a.y a.m a.d b1 b2 b4 a1 a2 a3 c
    omega
  · by_cases e : a.y = b.y ∧ a.m = b.m ∧ a.d = b.d
    · obtain ⟨e1, e2, e3⟩ := e
      rw [e1, e2, e3] at h; omega
    · omega

theorem abs_lt_bk (a b : Inst) (ha : VT a) (hb : VT b) (hms : a.ms = b.ms) (h : absOf a < absOf b) :
    bk a < bk b := by
  rw [bk_vt a ha, bk_vt b hb, hms]
  rw [absOf_vt a ha, absOf_vt b hb] at h
  have ha' := ha
  have hb' := hb
  obtain ⟨a1, a2, a3, a4, aH, aM, aS, ay⟩ := ha
  obtain ⟨b1, b2, b3, b4, bH, bM, bS, b_y⟩ := hb
  have hla := monthLen_pos a.y a.m a1 a2
  have hlb := monthLen_pos b.y b.m b1 b2
  by_cases hd : days a.y a.m a.d < days b.y b.m b.d
  · have := lex_of_days a b ha' hb' hd
    simp only [ck]; omega
  · have he : days a.y a.m a.d = days b.y b.m b.d := by omega
    obtain ⟨e1, e2, e3⟩ := days_inj _ _ _ _ _ _ a1 a2 a3 a4 b1 b2 b3 b4 he
    rw [e1, e2, e3]
    rw [he] at h
    simp only [ck]; omega

theorem abs_inj (a b : Inst) (ha : VT a) (hb : VT b) (hms : a.ms = b.ms) (h : absOf a = absOf b) : a = b := by
  rw [absOf_vt a ha, absOf_vt b hb] at h
  obtain ⟨a1, a2, a3, a4, aH, aM, aS, ay⟩ := ha
  obtain ⟨b1, b2, b3, b4, bH, bM, bS, b_y⟩ := hb
  have he : days a.y a.m a.d = days b.y b.m b.d := by omega
  obtain ⟨e1, e2, e3⟩ := days_inj _ _ _ _ _ _ a1 a2 a3 a4 b1 b2 b3 b4 he
  rw [he] at h
  have e4 : a.H = b.H := by omega
  have e5 : a.M = b.M := by omega
  have e6 : a.S = b.S := by omega
  cases a; cases b; simp_all

theorem abs_lt_ltP (a b : Inst) (ha : VT a) (hb : VT b) (hms : a.ms = b.ms) (h : absOf a < absOf b) :
    ltP a b = true := by
  rw [ltP_eq]; exact decide_eq_true (abs_lt_bk a b ha hb hms h)

/-- an instant at or after `a` is not before it -/
theorem abs_le_bk (a b : Inst) (ha : VT a) (hb : VT b) (hms : a.ms = b.ms) (h : absOf a ≤ absOf b) :
    bk a ≤ bk b := by
  by_cases e : absOf a = absOf b
  · rw [abs_inj a b ha hb hms e]; exact Nat.le_refl _
  · exact Nat.le_of_lt (abs_lt_bk a b ha hb hms (by omega))

/-- an instant within the day `y-m-d` has that date -/
theorem same_day (x : Inst) (hx : VT x) (y m d : Nat) (h1 : 1 ≤ m) (h2 : m ≤ 12) (h3 : 1 ≤ d) (h4 : d ≤ monthLen y m)
    (lo : days y m d * 86400 ≤ absOf x) (hi : absOf x < days y m d * 86400 + 86400) :
    x.y = y ∧ x.m = m ∧ x.d = d := by
  rw [absOf_vt x hx] at lo hi
  obtain ⟨a1, a2, a3, a4, aH, aM, aS, ay⟩ := hx
  have he : days x.y x.m x.d = days y m d := by omega
  exact days_inj _ _ _ _ _ _ a1 a2 a3 a4 h1 h2 h3 h4 he

/-! ### `inter_past` skips no multiple of the interval beyond the remainder -/

theorem interPast_eq (rem inter : Nat) (hi : 1 ≤ inter) (hi2 : inter < 2147483648) (hr1 : 1 ≤ rem)
    (hr2 : rem ≤ 86400) : interPast rem inter = ((rem - 1) / inter + 1) * inter := by
  unfold interPast
  simp only [u32]
  have h1 : (rem + 4294967296 - 1) % 4294967296 = rem - 1 := by omega
  rw [h1]
  have hq : (rem - 1) / inter ≤ rem - 1 := Nat.div_le_self _ _
  have h2 : ((rem - 1) / inter + 1) % 4294967296 = (rem - 1) / inter + 1 := by
    apply Nat.mod_eq_of_lt; omega
  rw [h2]
  have hdm := Nat.div_add_mod (rem - 1) inter
  have hmul : ((rem - 1) / inter + 1) * inter = inter * ((rem - 1) / inter) + inter := by
    rw [Nat.add_mul, Nat.one_mul, Nat.mul_comm]
  rw [hmul]
  apply Nat.mod_eq_of_lt; omega

theorem past_skip (rem inter t : Nat) (hi : 1 ≤ inter) (hi2 : inter < 2147483648) (hr1 : 1 ≤ rem)
    (hr2 : rem ≤ 86400) (h : rem ≤ t * inter) : interPast rem inter ≤ t * inter := by
  rw [interPast_eq rem inter hi hi2 hr1 hr2]
  apply Nat.mul_le_mul_right
  by_cases c : t ≤ (rem - 1) / inter
  · have h1 := Nat.mul_le_mul_right inter c
    have h2 := Nat.div_mul_le_self (rem - 1) inter
    omega
  · omega

/-! ### BYYEARDAY -/

theorem yd_eq (y m d : Nat) (hy1 : 1901 ≤ y) (hy2 : y ≤ 2099) (h1 : 1 ≤ m) (h2 : m ≤ 12) (hd : d ≤ 31) :
    (ymdGetYd y m d : Int) = days y m d - days y 1 1 + 1 := by
  have c1 := cent y (by omega) (by omega)
  have c2 := cent ((y : Int) - 1) (by omega) (by omega)
  unfold ymdGetYd
  rcases month_cases m h1 h2 with h|h|h|h|h|h|h|h|h|h|h|h <;> subst h
  all_goals simp [days, u32]
  all_goals try split
  all_goals omega

theorem maxy_eq (y : Nat) (hy1 : 1901 ≤ y) (hy2 : y ≤ 2099) : maxyOf y = yearLen y := by
  unfold maxyOf yearLen isLeap
  by_cases h : y % 4 = 0
  · have : y % 100 ≠ 0 ∨ y % 400 = 0 := by omega
    simp [h, this]
  · simp [h]

/-- the BYYEARDAY test of the loops: not filtered iff the spec's `ydayOk` -/
theorem doy_ok (r : Rule) (x : Inst) (yd maxy : Nat) (hdoy : ∀ t ∈ r.doy, t ≠ 0 ∧ -366 ≤ t ∧ t ≤ 366)
    (hyd : (yd : Int) = ydayOf x) (hmaxy : maxy = yearLen x.y) (hm : 365 ≤ maxy ∧ maxy ≤ 366) :
    (!r.doy.isEmpty && !doyHit r.doy yd maxy) = false ↔ ydayOk r x := by
  unfold ydayOk
  by_cases he : r.doy = []
  · simp [he]
  · have : r.doy.isEmpty = false := by simpa using he
    rw [this]
    simp only [Bool.not_false, Bool.true_and, Bool.not_eq_false', he, false_or]
    unfold doyHit
    rw [List.any_eq_true]
    constructor
    · rintro ⟨t, ht, hb⟩
      refine ⟨t, ht, ?_⟩
      have hr := hdoy t ht
      simp only [Bool.or_eq_true, Bool.and_eq_true, decide_eq_true_eq, beq_iff_eq] at hb
      rcases hb with ⟨h0, e⟩ | ⟨h0, e⟩
      · left; exact ⟨h0, by omega⟩
      · right
        refine ⟨h0, ?_⟩
        have e2 : ((maxy : Int) + (t + 1)) % (u32 : Int) = (maxy : Int) + (t + 1) := by
          simp only [u32]; omega
        rw [e2] at e
        omega
    · rintro ⟨n, hn, h | h⟩
      · refine ⟨n, hn, ?_⟩
        simp only [Bool.or_eq_true, Bool.and_eq_true, decide_eq_true_eq, beq_iff_eq]
        left; exact ⟨h.1, by omega⟩
      · refine ⟨n, hn, ?_⟩
        have hr := hdoy n hn
        simp only [Bool.or_eq_true, Bool.and_eq_true, decide_eq_true_eq, beq_iff_eq]
        right
        refine ⟨h.1, ?_⟩
        have e2 : ((maxy : Int) + (n + 1)) % (u32 : Int) = (maxy : Int) + (n + 1) := by
          simp only [u32]; omega
        rw [e2]
        omega

/-! ### the day tests -/

theorem mkSubCtx_fields (r : Rule) (p : Inst) (k : Nat) :
    (mkSubCtx r p k).wdMask = subWdMask r ∧ (mkSubCtx r p k).mMask = monMask r.mon ∧
    (mkSubCtx r p k).posdMask = (domMasks r.dom).1 ∧ (mkSubCtx r p k).negdMask = (domMasks r.dom).2 ∧
    (mkSubCtx r p k).HMask = hourMask r.H ∧ (mkSubCtx r p k).MMask = min64Mask r.M ∧
    (mkSubCtx r p k).SMask = min64Mask r.S ∧ (mkSubCtx r p k).r = r ∧ (mkSubCtx r p k).proto = p ∧
    (mkSubCtx r p k).nti = k ∧ (mkSubCtx r p k).e = subEnum p r :=
  ⟨rfl, rfl, rfl, rfl, rfl, rfl, rfl, rfl, rfl, rfl, rfl⟩

/-- the weekday, month and day-of-month tests pass exactly on the dates the spec's `DateOk` admits -/
theorem dayOut_ok (r : Rule) (p : Inst) (k : Nat) (hr : WfRule r) (x : Inst) (w maxd : Nat)
    (h1 : 1 ≤ x.m) (h2 : x.m ≤ 12) (h3 : 1 ≤ x.d) (h4 : x.d ≤ monthLen x.y x.m)
    (hw : w = wdayOf (dayOf x)) (hmx : maxd = monthLen x.y x.m) :
    (mkSubCtx r p k).dayOut w x.m x.d maxd = false ↔ DateOk r x := by
  obtain ⟨f1, f2, f3, f4, _⟩ := mkSubCtx_fields r p k
  unfold SubCtx.dayOut DateOk
  rw [f1, f2, f3, f4]
  have hml := monthLen_pos x.y x.m h1 h2
  have hw1 : 1 ≤ w ∧ w ≤ 7 := by rw [hw]; unfold wdayOf; omega
  have hA := subWdMask_ok r w hw1.1 hw1.2
  have hB := monMask_ok r.mon x.m hr.mon.2 h1 h2
  have hC := domMasks_ok r.dom x.d maxd hr.dom h3 (by omega) (by omega)
  have hwd : wdayOk r x ↔ (plainDays r = [] ∨ (w : Int) ∈ plainDays r) := by unfold wdayOk; rw [hw]
  have hmd : mdayOk r x ↔ (r.dom = [] ∨ ∃ n ∈ r.dom, (0 < n ∧ n = (x.d : Int)) ∨
      (n < 0 ∧ (maxd : Int) + 1 + n = x.d)) := by unfold mdayOk; rw [hmx]
  unfold monthOk
  rw [hwd, hmd, ← hA, ← hB, ← hC]
  cases bit (subWdMask r) w <;> cases bit (monMask r.mon) x.m <;> simp

end Echse.Lemmas.RrSubRfc
