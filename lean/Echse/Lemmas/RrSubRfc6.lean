/-
  C01, sub-daily fillers: BYSETPOS.  `SetposOk` of the spec against `pos_pick_p` of the code, for a period whose
  instances are the images of an ascending enumeration.
-/
import Echse.Lemmas.RrSubRfc5
namespace Echse.Lemmas.RrSubRfc
open Echse.Rrule Echse.Instant Echse.Spec.RrOk Echse.Lemmas.RrSubOk Echse.Spec.Rfc Echse.Spec.Cal Echse.Spec.RuleExt

/-! ### BYSETPOS: positions in an ascending enumeration -/

theorem sorted_split {α : Type} (key : α → Nat) : ∀ (L : List α) (i : Nat) (a0 : α),
    L.Pairwise (fun a b => key a < key b) → L[i]? = some a0 →
    (∀ a, a ∈ L.take i ↔ a ∈ L ∧ key a < key a0) ∧ (∀ a, a ∈ L.drop (i + 1) ↔ a ∈ L ∧ key a0 < key a) := by
  intro L
  induction L with
  | nil => intro i a0 _ h; simp at h
  | cons a' L' ih =>
    intro i a0 hpw hi
    have hpw' := List.pairwise_cons.mp hpw
    cases i with
    | zero =>
      simp only [List.getElem?_cons_zero, Option.some.injEq] at hi
      subst hi
      constructor
      · intro a
        simp only [List.take_zero, List.not_mem_nil, false_iff, List.mem_cons]
        rintro ⟨h | h, hk⟩
        · rw [h] at hk; omega
        · have := hpw'.1 a h; omega
      · intro a
        simp only [Nat.zero_add, List.drop_succ_cons, List.drop_zero, List.mem_cons]
        constructor
        · intro h; exact ⟨Or.inr h, hpw'.1 a h⟩
        · rintro ⟨h | h, hk⟩
          · rw [h] at hk; omega
          · exact h
    | succ i =>
      simp only [List.getElem?_cons_succ] at hi
      obtain ⟨h1, h2⟩ := ih i a0 hpw'.2 hi
      have hmem : a0 ∈ L' := List.mem_of_getElem? hi
      have hk0 := hpw'.1 a0 hmem
      constructor
      · intro a
        simp only [List.take_succ_cons, List.mem_cons, h1]
        constructor
        · rintro (h | ⟨h, hk⟩)
          · rw [h]; exact ⟨Or.inl rfl, hk0⟩
          · exact ⟨Or.inr h, hk⟩
        · rintro ⟨h | h, hk⟩
          · exact Or.inl h
          · exact Or.inr ⟨h, hk⟩
      · intro a
        simp only [List.drop_succ_cons, List.mem_cons, h2]
        constructor
        · rintro ⟨h, hk⟩; exact ⟨Or.inr h, hk⟩
        · rintro ⟨h | h, hk⟩
          · rw [h] at hk; omega
          · exact ⟨h, hk⟩

theorem posPick_iff (poss : List Int) (i n : Nat) (hi : i < n) :
    posPickP poss i n = true ↔ (poss = [] ∨ ∃ q ∈ poss, (0 < q ∧ ((i : Int) + 1 = q)) ∨
      (q < 0 ∧ ((n - (i + 1) : Nat) : Int) + 1 = -q)) := by
  unfold posPickP
  rw [Bool.or_eq_true, List.isEmpty_iff, List.any_eq_true]
  constructor
  · rintro (h | ⟨q, hq, hb⟩)
    · exact Or.inl h
    · refine Or.inr ⟨q, hq, ?_⟩
      simp only [Bool.or_eq_true, Bool.and_eq_true, decide_eq_true_eq, beq_iff_eq] at hb
      omega
  · rintro (h | ⟨q, hq, hb⟩)
    · exact Or.inl h
    · refine Or.inr ⟨q, hq, ?_⟩
      simp only [Bool.or_eq_true, Bool.and_eq_true, decide_eq_true_eq, beq_iff_eq]
      omega

/-- BYSETPOS against `pos_pick_p`: if the instances of `x`'s period are the images `f a` of an ascending list `L`,
ordered as `L` is, and `x` is the image of entry `i`, then `SetposOk` is the code's test on position `i` of `L.length` -/
theorem setpos_generic {α : Type} (r : Rule) (ds x : Inst) (L : List α) (key : α → Nat) (f : α → Inst) (i : Nat) (a0 : α)
    (hasc : L.Pairwise (fun a b => key a < key b)) (hi : L[i]? = some a0) (hx : f a0 = x)
    (hchar : ∀ y, (Instance r ds y ∧ periodOf r.freq y = periodOf r.freq x) ↔ ∃ a ∈ L, y = f a)
    (hord : ∀ a b, absOf (f a) < absOf (f b) ↔ key a < key b) :
    SetposOk r ds x ↔ posPickP r.pos i L.length = true := by
  have hil : i < L.length := by
    by_cases c : i < L.length
    · exact c
    · rw [List.getElem?_eq_none (by omega)] at hi; cases hi
  obtain ⟨hT, hD⟩ := sorted_split key L i a0 hasc hi
  have hne : ∀ a b, key a < key b → f a ≠ f b := by
    intro a b hk he
    have := (hord a b).mpr hk
    rw [he] at this; omega
  -- the instances of the period before and after `x`
  have hB : ∀ y, y ∈ (L.take i).map f ↔
      Instance r ds y ∧ periodOf r.freq y = periodOf r.freq x ∧ absOf y < absOf x := by
    intro y
    rw [List.mem_map]
    constructor
    · rintro ⟨a, ha, rfl⟩
      obtain ⟨h1, h2⟩ := (hT a).mp ha
      obtain ⟨g1, g2⟩ := (hchar (f a)).mpr ⟨a, h1, rfl⟩
      exact ⟨g1, g2, by rw [← hx]; exact (hord a a0).mpr h2⟩
    · rintro ⟨g1, g2, g3⟩
      obtain ⟨a, ha, rfl⟩ := (hchar y).mp ⟨g1, g2⟩
      rw [← hx] at g3
      exact ⟨a, (hT a).mpr ⟨ha, (hord a a0).mp g3⟩, rfl⟩
  have hA : ∀ y, y ∈ (L.drop (i + 1)).map f ↔
      Instance r ds y ∧ periodOf r.freq y = periodOf r.freq x ∧ absOf x < absOf y := by
    intro y
    rw [List.mem_map]
    constructor
    · rintro ⟨a, ha, rfl⟩
      obtain ⟨h1, h2⟩ := (hD a).mp ha
      obtain ⟨g1, g2⟩ := (hchar (f a)).mpr ⟨a, h1, rfl⟩
      exact ⟨g1, g2, by rw [← hx]; exact (hord a0 a).mpr h2⟩
    · rintro ⟨g1, g2, g3⟩
      obtain ⟨a, ha, rfl⟩ := (hchar y).mp ⟨g1, g2⟩
      rw [← hx] at g3
      exact ⟨a, (hD a).mpr ⟨ha, (hord a0 a).mp g3⟩, rfl⟩
  have hnd : ∀ M : List α, M.Pairwise (fun a b => key a < key b) → (M.map f).Nodup := by
    intro M hM
    unfold List.Nodup
    rw [List.pairwise_map]
    exact hM.imp (fun h => hne _ _ h)
  have hBn : ((L.take i).map f).Nodup := hnd _ (hasc.sublist (List.take_sublist _ _))
  have hAn : ((L.drop (i + 1)).map f).Nodup := hnd _ (hasc.sublist (List.drop_sublist _ _))
  have hBl : ((L.take i).map f).length = i := by rw [List.length_map, List.length_take]; omega
  have hAl : ((L.drop (i + 1)).map f).length = L.length - (i + 1) := by rw [List.length_map, List.length_drop]
  rw [posPick_iff r.pos i L.length hil]
  unfold SetposOk
  constructor
  · rintro (h | ⟨q, hq, before, after, b1, b2, a1, a2, hc⟩)
    · exact Or.inl h
    · refine Or.inr ⟨q, hq, ?_⟩
      have e1 : before.length = i := by
        rw [← hBl]
        exact ((List.perm_ext_iff_of_nodup b2 hBn).mpr (fun y => by rw [b1, hB])).length_eq
      have e2 : after.length = L.length - (i + 1) := by
        rw [← hAl]
        exact ((List.perm_ext_iff_of_nodup a2 hAn).mpr (fun y => by rw [a1, hA])).length_eq
      rw [e1, e2] at hc
      exact hc
  · rintro (h | ⟨q, hq, hc⟩)
    · exact Or.inl h
    · refine Or.inr ⟨q, hq, _, _, hB, hBn, hA, hAn, ?_⟩
      rw [hBl, hAl]
      exact hc

end Echse.Lemmas.RrSubRfc
