/-
  Day-level lemmas for C08: the spec's day number `days`, month lengths, and the
  model's `jan00`/`doy`/`getMdays`.  Core Lean only.
-/
import Echse.Spec.Cal
namespace Echse.Instant
open Echse.Gen Echse.Spec.Cal

theorem month_cases (m : Nat) (h1 : 1 ≤ m) (h2 : m ≤ 12) :
    m = 1 ∨ m = 2 ∨ m = 3 ∨ m = 4 ∨ m = 5 ∨ m = 6 ∨ m = 7 ∨ m = 8 ∨ m = 9 ∨ m = 10 ∨ m = 11 ∨ m = 12 := by
  omega
theorem monthLen_pos (y m : Nat) (h1 : 1 ≤ m) (h2 : m ≤ 12) : 28 ≤ monthLen y m ∧ monthLen y m ≤ 31 := by
  rcases month_cases m h1 h2 with h|h|h|h|h|h|h|h|h|h|h|h <;> subst h <;> simp [monthLen] <;> split <;> omega

/-- constant between the spec's `days` and the model's day count (`jan00 + doy`) -/
def dayC : Int := 584693

theorem cent (z : Int) (h1 : 1900 ≤ z) (h2 : z ≤ 2099) : z / 100 = z / 400 + 15 := by omega

theorem jan00_eq (y : Nat) (hy1 : 1901 ≤ y) (hy2 : y ≤ 2099) :
    (jan00 y : Int) = 365 * (y - 1601) + ((y : Int) - 1) / 4 - 403 := by
  unfold jan00
  have : (y - 1601) / 100 = (y - 1601) / 400 + 3 := by omega
  simp only []
  omega

theorem jan00_doy (y m d : Nat) (hy1 : 1901 ≤ y) (hy2 : y ≤ 2099) (h1 : 1 ≤ m) (h2 : m ≤ 12) :
    (jan00 y : Int) + (instDoy.getD m 0 + d + (if y % 4 = 0 ∧ m ≥ 3 then 1 else 0) : Nat) + dayC = days y m d := by
  rw [jan00_eq y hy1 hy2]
  have c1 := cent y (by omega) (by omega)
  have c2 := cent ((y : Int) - 1) (by omega) (by omega)
  rcases month_cases m h1 h2 with h|h|h|h|h|h|h|h|h|h|h|h <;> subst h
  all_goals simp [days, instDoy, dayC]
  all_goals try split
  all_goals omega

theorem getMdays_eq (y m : Nat) (hy1 : 1901 ≤ y) (hy2 : y ≤ 2099) (h1 : 1 ≤ m) (h2 : m ≤ 12) :
    getMdays y m = monthLen y m := by
  rcases month_cases m h1 h2 with h|h|h|h|h|h|h|h|h|h|h|h <;> subst h
  all_goals simp [getMdays, monthLen, instMdays, isLeap]
  all_goals (try split) <;> (try split)
  all_goals omega

/-- the model's month length is never smaller than the calendar's (any year) -/
theorem monthLen_le_getMdays (y m : Nat) (h1 : 1 ≤ m) (h2 : m ≤ 12) : monthLen y m ≤ getMdays y m := by
  rcases month_cases m h1 h2 with h|h|h|h|h|h|h|h|h|h|h|h <;> subst h
  all_goals simp [getMdays, monthLen, instMdays, isLeap]
  all_goals (try split) <;> (try split)
  all_goals omega

theorem days_d (y m d : Nat) : days y m d = days y m 1 + d - 1 := by
  simp only [days]; omega
theorem days_next_month (y m : Nat) (h1 : 1 ≤ m) (h2 : m < 12) :
    days y (m+1) 1 = days y m 1 + monthLen y m := by
  rcases month_cases m h1 (by omega) with h|h|h|h|h|h|h|h|h|h|h|h <;> subst h
  all_goals simp [days, monthLen, isLeap]
  all_goals try split
  all_goals omega
theorem days_next_year (y : Nat) : days (y+1) 1 1 = days y 12 1 + 31 := by
  simp [days]; omega
theorem days_year_mono (a b : Nat) (h : a ≤ b) : days a 1 1 ≤ days b 1 1 := by
  simp [days]; omega

theorem days_month_mono (y a b : Nat) (h1 : 1 ≤ a) (h : a ≤ b) (h2 : b ≤ 12) : days y a 1 ≤ days y b 1 := by
  simp only [days]
  split <;> split <;> omega

/-- a valid date lies before the first of the following month -/
theorem days_lt_next (y m d : Nat) (h1 : 1 ≤ m) (h2 : m ≤ 12) (hd : d ≤ monthLen y m) :
    days y m d < (if m = 12 then days (y+1) 1 1 else days y (m+1) 1) := by
  rw [days_d]
  split
  · next h => subst h; rw [days_next_year]; simp [monthLen] at hd; omega
  · rw [days_next_month y m h1 (by omega)]; omega

theorem days_lt_of_lex (y m d y' m' d' : Nat) (h1 : 1 ≤ m) (h2 : m ≤ 12) (hd : d ≤ monthLen y m)
    (h1' : 1 ≤ m') (h2' : m' ≤ 12) (hd' : 1 ≤ d')
    (h : y < y' ∨ (y = y' ∧ (m < m' ∨ (m = m' ∧ d < d')))) : days y m d < days y' m' d' := by
  have a := days_lt_next y m d h1 h2 hd
  have b : days y' m' 1 ≤ days y' m' d' := by rw [days_d y' m' d']; omega
  rcases h with h | ⟨rfl, h | ⟨rfl, h⟩⟩
  · have c := days_year_mono (y+1) y' h
    have e := days_month_mono y' 1 m' (by omega) h1' h2'
    have f := days_month_mono y (m+1) 12
    have g := days_next_year y
    split at a <;> omega
  · have e := days_month_mono y (m+1) m' (by omega) h h2'
    split at a <;> omega
  · rw [days_d y m d, days_d y m d']; omega

theorem days_inj (y m d y' m' d' : Nat) (h1 : 1 ≤ m) (h2 : m ≤ 12) (hd1 : 1 ≤ d) (hd : d ≤ monthLen y m)
    (h1' : 1 ≤ m') (h2' : m' ≤ 12) (hd1' : 1 ≤ d') (hd' : d' ≤ monthLen y' m')
    (h : days y m d = days y' m' d') : y = y' ∧ m = m' ∧ d = d' := by
  have a := days_lt_of_lex y m d y' m' d' h1 h2 hd h1' h2' hd1'
  have b := days_lt_of_lex y' m' d' y m d h1' h2' hd' h1 h2 hd1
  by_cases c : y < y' ∨ (y = y' ∧ (m < m' ∨ (m = m' ∧ d < d')))
  · have := a c; omega
  · by_cases c' : y' < y ∨ (y' = y ∧ (m' < m ∨ (m' = m ∧ d' < d)))
    · have := b c'; omega
    · omega

end Echse.Instant
