/-
  BYSETPOS for the monthly filler, part 1 (specification side): instances 336 q periods back and forth
  (`mly_back`, `mly_fwd`), and `SetposOk` is the same for the instant 336 q periods back (`mly_setpos_back`).
-/
import Echse.Lemmas.RrMlyRfc
import Echse.Lemmas.RrCandPos3
namespace Echse.Lemmas.RrMlyRfc
open Echse.Rrule Echse.Instant Echse.Spec.RrOk Echse.Lemmas.RrCandOk Echse.Spec.Rfc Echse.Lemmas.RrRfc
open Echse.Lemmas.RrCandRfc Echse.Lemmas.RrMlyOk Echse.Spec.Cal Echse.Spec.RuleExt Echse.Lemmas.RrOkBase

theorem instance_mly (r : Rule) (p y : Inst) (hf : r.freq = 2) : Instance r p y ↔ MonthlyInst r p y := by
  unfold Instance; rw [hf]; exact Iff.rfl

theorem period_mly (r : Rule) (y : Inst) (hf : r.freq = 2) : periodOf r.freq y = (y.y : Int) * 12 + y.m := by
  rw [hf]; rfl

/-- an instance `28 q INTERVAL` years earlier (`336 q` periods back) -/
theorem mly_back (r : Rule) (p y : Inst) (hp : WfInst p) (hy : 1901 ≤ p.y) (hx : MonthlyInst r p y) (hx2 : y.y ≤ 2099)
    (k s q : Nat) (hk : pIdx y = pIdx p + k * r.inter) (hq : k = s + 336 * q) :
    MonthlyInst r p (back28 y (q * r.inter)) ∧ pIdx (back28 y (q * r.inter)) = pIdx p + s * r.inter ∧
      28 * (q * r.inter) ≤ y.y ∧ p.y ≤ (back28 y (q * r.inter)).y := by
  obtain ⟨a1, _, a3, a4, a5⟩ := (mlyInst_iff r p y).1 hx
  have hxm : 1 ≤ y.m ∧ y.m ≤ 12 := ⟨a1.1, a1.2.1⟩
  have hpm := hp.month
  have e1 : k * r.inter = s * r.inter + 336 * (q * r.inter) := by
    rw [hq, Nat.add_mul, Nat.mul_assoc]
  generalize q * r.inter = N at *
  generalize hS : s * r.inter = S at *
  have hN : 28 * N ≤ y.y := by unfold pIdx at hk; omega
  have hback := sh28_back28 y N hN
  generalize hx' : back28 y N = x' at hback ⊢
  have fy : x'.y = y.y - 28 * N := by rw [← hx']; rfl
  have fm : x'.m = y.m := by rw [← hx']; rfl
  have hidx : pIdx x' = pIdx p + S := by unfold pIdx at hk ⊢; rw [fy, fm]; omega
  have hpy : p.y ≤ x'.y := by unfold pIdx at hidx; omega
  have h1 : 1901 ≤ x'.y := by omega
  have h2 : x'.y + 28 * N ≤ 2099 := by omega
  refine ⟨(mlyInst_iff r p x').2 ⟨?_, ⟨s, by rw [hS]; exact hidx⟩, ?_, ?_, ?_⟩, hidx, hN, hpy⟩
  · rw [← hback] at a1; exact (sameKind_sh28 p x' N h1 h2).1 a1
  · unfold monthOk at a3 ⊢; rw [fm]; exact a3
  · rw [← hback] at a4; exact (mlyDate_sh28 r p x' N h1 h2).1 a4
  · rw [← hback] at a5; exact a5

/-- … and later -/
theorem mly_fwd (r : Rule) (p y : Inst) (hx : MonthlyInst r p y) (h1 : 1901 ≤ y.y) (s q : Nat)
    (hk : pIdx y = pIdx p + s * r.inter) (h2 : y.y + 28 * (q * r.inter) ≤ 2099) :
    MonthlyInst r p (sh28 y (q * r.inter)) ∧ pIdx (sh28 y (q * r.inter)) = pIdx p + (s + 336 * q) * r.inter := by
  obtain ⟨a1, _, a3, a4, a5⟩ := (mlyInst_iff r p y).1 hx
  have e1 : (s + 336 * q) * r.inter = s * r.inter + 336 * (q * r.inter) := by
    rw [Nat.add_mul, Nat.mul_assoc]
  rw [e1]
  generalize q * r.inter = N at *
  have hidx : pIdx (sh28 y N) = pIdx p + (s * r.inter + 336 * N) := by
    unfold pIdx sh28 at *; dsimp only; omega
  refine ⟨(mlyInst_iff r p _).2 ⟨(sameKind_sh28 p y N h1 h2).2 a1, ⟨s + 336 * q, by rw [hidx, e1]⟩, ?_,
    (mlyDate_sh28 r p y N h1 h2).2 a4, a5⟩, hidx⟩
  exact a3

theorem pIdx_of_period {a b : Inst} (ha : 1 ≤ a.m ∧ a.m ≤ 12) (hb : 1 ≤ b.m ∧ b.m ≤ 12)
    (h : (a.y : Int) * 12 + a.m = (b.y : Int) * 12 + b.m) : a.y = b.y ∧ a.m = b.m := by omega

/-- BYSETPOS is the same for the instant `336 q` periods back -/
theorem mly_setpos_back (r : Rule) (p x : Inst) (hp : WfInst p) (hy : 1901 ≤ p.y) (hf : r.freq = 2)
    (hx : MonthlyInst r p x) (hx2 : x.y ≤ 2099) (k s q : Nat) (hk : pIdx x = pIdx p + k * r.inter)
    (hq : k = s + 336 * q) (hsp : SetposOk r p x) : SetposOk r p (back28 x (q * r.inter)) := by
  obtain ⟨x1, x2, x3, x4⟩ := mly_back r p x hp hy hx hx2 k s q hk hq
  have hxm : 1 ≤ x.m ∧ x.m ≤ 12 := ⟨hx.1.1, hx.1.2.1⟩
  generalize hN : q * r.inter = N at *
  have hxb : sh28 (back28 x N) N = x := sh28_back28 x N x3
  have habs : absOf x = absOf (back28 x N) + 10227 * N * 86400 := by
    rw [← absOf_sh28 (back28 x N) N (by omega) (by show x.y - 28 * N + 28 * N ≤ 2099; omega), hxb]
  refine setpos_transfer r p x (back28 x N) (fun y => back28 y N) (fun y => sh28 y N) (10227 * N * 86400)
    ?_ ?_ (by omega) hsp
  · intro y hy1 hy2
    rw [instance_mly r p y hf] at hy1
    rw [period_mly r y hf, period_mly r x hf] at hy2
    have hym : 1 ≤ y.m ∧ y.m ≤ 12 := ⟨hy1.1.1, hy1.1.2.1⟩
    obtain ⟨e1, e2⟩ := pIdx_of_period hym hxm hy2
    have hky : pIdx y = pIdx p + k * r.inter := by rw [← hk]; unfold pIdx; rw [e1, e2]
    obtain ⟨y1, y2, y3, y4⟩ := mly_back r p y hp hy hy1 (by omega) k s q hky hq
    rw [hN] at y1 y2 y3 y4
    have hyb : sh28 (back28 y N) N = y := sh28_back28 y N y3
    refine ⟨(instance_mly r p _ hf).2 y1, ?_, hyb, ?_⟩
    · rw [period_mly r _ hf, period_mly r _ hf]
      show ((y.y - 28 * N : Nat) : Int) * 12 + y.m = ((x.y - 28 * N : Nat) : Int) * 12 + x.m
      rw [e1, e2]
    · have := absOf_sh28 (back28 y N) N (by omega) (by show y.y - 28 * N + 28 * N ≤ 2099; omega)
      rw [hyb] at this; omega
  · intro y' hy1 hy2
    rw [instance_mly r p y' hf] at hy1
    rw [period_mly r y' hf, period_mly r _ hf] at hy2
    have hym : 1 ≤ y'.m ∧ y'.m ≤ 12 := ⟨hy1.1.1, hy1.1.2.1⟩
    have hbm : 1 ≤ (back28 x N).m ∧ (back28 x N).m ≤ 12 := hxm
    obtain ⟨e1, e2⟩ := pIdx_of_period hym hbm hy2
    have e1' : y'.y = x.y - 28 * N := e1
    have hky : pIdx y' = pIdx p + s * r.inter := by rw [← x2]; unfold pIdx; rw [e1, e2]
    have hfw := mly_fwd r p y' hy1 (by have : p.y ≤ x.y - 28 * N := x4; omega) s q hky (by rw [hN]; omega)
    rw [hN] at hfw
    refine ⟨(instance_mly r p _ hf).2 hfw.1, ?_, back28_sh28 y' N, ?_⟩
    · rw [period_mly r _ hf, period_mly r _ hf]
      show ((y'.y + 28 * N : Nat) : Int) * 12 + y'.m = (x.y : Int) * 12 + x.m
      have e2' : y'.m = x.m := e2
      rw [e1', e2']
      have : x.y - 28 * N + 28 * N = x.y := by omega
      rw [this]
    · exact absOf_sh28 y' N (by have : p.y ≤ x.y - 28 * N := x4; omega) (by omega)

end Echse.Lemmas.RrMlyRfc
