/-
  C17 lemmas, part 3: `strtol` on the text of an integer -366..366 (`toString`), followed by a non-digit.
-/
import Echse.Lemmas.RuleExt2
namespace Echse.RuleExt
open Echse.Rrule

theorem nat_toList (n : Nat) : (toString n).toList = Nat.toDigits 10 n := Nat.toList_repr
theorem int_toList (d : Int) :
    (toString d).toList = if d < 0 then '-' :: Nat.toDigits 10 d.natAbs else Nat.toDigits 10 d.natAbs := by
  cases d with
  | ofNat m =>
    have : ¬ (Int.ofNat m < 0) := by simp
    rw [if_neg this]
    exact Nat.toList_repr
  | negSucc m =>
    have : (Int.negSucc m < 0) := Int.negSucc_lt_zero m
    rw [if_pos this]
    show ("-" ++ (m+1).repr).toList = _
    rw [String.toList_append, Nat.toList_repr]
    rfl

def natChk (n : Nat) : Bool :=
  match Nat.toDigits 10 n with
  | c :: ds => c.isDigit && ds.all Char.isDigit && decide (numVal (c :: ds) = n)
  | [] => false

theorem natChk_all : (List.range 367).all natChk = true := by decide +kernel

theorem natChk_of (n : Nat) (h : n ≤ 366) : natChk n = true :=
  List.all_eq_true.mp natChk_all n (by simp; omega)

theorem digits_shape (n : Nat) (h : n ≤ 366) :
    ∃ c ds, Nat.toDigits 10 n = c :: ds ∧ c.isDigit = true ∧ ds.all Char.isDigit = true ∧ numVal (c :: ds) = n := by
  have := natChk_of n h
  unfold natChk at this
  split at this
  · next c ds e =>
    simp only [Bool.and_eq_true, decide_eq_true_eq] at this
    exact ⟨c, ds, e, this.1.1, this.1.2, this.2⟩
  · exact absurd this (by simp)

theorem strtol_nat (n : Nat) (h : n ≤ 366) (rest : List Char) (hr : ∀ x ∈ rest.head?, Char.isDigit x = false) :
    strtol (Nat.toDigits 10 n ++ rest) = ((n : Int), rest) ∧
    decide ((Nat.toDigits 10 n ++ rest).head? = some '-') = false := by
  obtain ⟨c, ds, e, hc, hds, hv⟩ := digits_shape n h
  rw [e, strtol_pos c ds rest hc hds hr, hv]
  refine ⟨rfl, ?_⟩
  simp
  exact (digit_not c hc).1

theorem strtol_negnat (n : Nat) (h : n ≤ 366) (rest : List Char) (hr : ∀ x ∈ rest.head?, Char.isDigit x = false) :
    strtol ('-' :: Nat.toDigits 10 n ++ rest) = (-(n : Int), rest) := by
  obtain ⟨c, ds, e, hc, hds, hv⟩ := digits_shape n h
  rw [e, strtol_neg c ds rest hc hds hr, hv]

theorem strtol_int (d : Int) (h : -366 ≤ d ∧ d ≤ 366) (rest : List Char) (hr : ∀ x ∈ rest.head?, Char.isDigit x = false) :
    strtol ((toString d).toList ++ rest) = (d, rest) ∧
    decide (((toString d).toList ++ rest).head? = some '-') = decide (d < 0) := by
  rw [int_toList]
  by_cases hd : d < 0
  · rw [if_pos hd]
    have := strtol_negnat d.natAbs (by omega) rest hr
    rw [this]
    refine ⟨?_, by simp [hd]⟩
    congr 1; omega
  · rw [if_neg hd]
    have := strtol_nat d.natAbs (by omega) rest hr
    rw [this.1, this.2]
    refine ⟨?_, by simp [hd]⟩
    congr 1; omega
end Echse.RuleExt
