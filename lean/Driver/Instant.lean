import Echse.Model.Instant
import Driver.Util
open Echse.Instant
namespace Driver

def inst? (s : String) : Option Inst := (parseHex? s).map Inst.unpack
def showInst (i : Inst) : String := toHex16 i.pack
def b01 (b : Bool) : String := if b then "1" else "0"

def runInstant (op : String) (args : List String) : String :=
  match op, args with
  | "i.fixup", [a] => match inst? a with
    | some i => showInst (fixup i) | none => "bad-op"
  | "i.diff", [e, b] => match inst? e, inst? b with
    | some e, some b => toString (diff e b) | _, _ => "bad-op"
  | "i.add", [a, d] => match inst? a, d.toInt? with
    | some i, some d => showInst (add i d) | _, _ => "bad-op"
  | "i.lt", [a, b] => match inst? a, inst? b with
    | some a, some b => b01 (ltP a b) | _, _ => "bad-op"
  | "i.le", [a, b] => match inst? a, inst? b with
    | some a, some b => b01 (leP a b) | _, _ => "bad-op"
  | "i.toepoch", [a] => match inst? a with
    | some i => toString (instToEpoch i) | none => "bad-op"
  | "i.frepoch", [t] => match t.toInt? with
    | some t => showInst (epochToInstI t) | none => "bad-op"
  | "i.tstamp", [a] => match inst? a with
    | some i => toString (instToTstamp i) | none => "bad-op"
  | _, _ => "bad-op"

end Driver
