/-
  C15 enumeration part (written once by a loop, then static): arithmetic Hijri scale 3, per day number,
  chunks 54..69 of 1024 points and the final 1004 points.
  One theorem per chunk: each is checked by the kernel on its own (bounded memory and heartbeats).
-/
import Echse.Lemmas.C15Enum
namespace Echse.Scale

theorem hij3D_c0 : allFrom (chkH 3) (dLo + 1024 * (54 + 0)) 1024 = true := by decide +kernel
theorem hij3D_c1 : allFrom (chkH 3) (dLo + 1024 * (54 + 1)) 1024 = true := by decide +kernel
theorem hij3D_c2 : allFrom (chkH 3) (dLo + 1024 * (54 + 2)) 1024 = true := by decide +kernel
theorem hij3D_c3 : allFrom (chkH 3) (dLo + 1024 * (54 + 3)) 1024 = true := by decide +kernel
theorem hij3D_c4 : allFrom (chkH 3) (dLo + 1024 * (54 + 4)) 1024 = true := by decide +kernel
theorem hij3D_c5 : allFrom (chkH 3) (dLo + 1024 * (54 + 5)) 1024 = true := by decide +kernel
theorem hij3D_c6 : allFrom (chkH 3) (dLo + 1024 * (54 + 6)) 1024 = true := by decide +kernel
theorem hij3D_c7 : allFrom (chkH 3) (dLo + 1024 * (54 + 7)) 1024 = true := by decide +kernel
theorem hij3D_c8 : allFrom (chkH 3) (dLo + 1024 * (54 + 8)) 1024 = true := by decide +kernel
theorem hij3D_c9 : allFrom (chkH 3) (dLo + 1024 * (54 + 9)) 1024 = true := by decide +kernel
theorem hij3D_c10 : allFrom (chkH 3) (dLo + 1024 * (54 + 10)) 1024 = true := by decide +kernel
theorem hij3D_c11 : allFrom (chkH 3) (dLo + 1024 * (54 + 11)) 1024 = true := by decide +kernel
theorem hij3D_c12 : allFrom (chkH 3) (dLo + 1024 * (54 + 12)) 1024 = true := by decide +kernel
theorem hij3D_c13 : allFrom (chkH 3) (dLo + 1024 * (54 + 13)) 1024 = true := by decide +kernel
theorem hij3D_c14 : allFrom (chkH 3) (dLo + 1024 * (54 + 14)) 1024 = true := by decide +kernel
theorem hij3D_c15 : allFrom (chkH 3) (dLo + 1024 * (54 + 15)) 1024 = true := by decide +kernel

theorem hij3D_chunks : ∀ c, c < 16 → allFrom (chkH 3) (dLo + 1024 * (54 + c)) 1024 = true
  | 0, _ => hij3D_c0
  | 1, _ => hij3D_c1
  | 2, _ => hij3D_c2
  | 3, _ => hij3D_c3
  | 4, _ => hij3D_c4
  | 5, _ => hij3D_c5
  | 6, _ => hij3D_c6
  | 7, _ => hij3D_c7
  | 8, _ => hij3D_c8
  | 9, _ => hij3D_c9
  | 10, _ => hij3D_c10
  | 11, _ => hij3D_c11
  | 12, _ => hij3D_c12
  | 13, _ => hij3D_c13
  | 14, _ => hij3D_c14
  | 15, _ => hij3D_c15
  | n + 16, h => absurd h (by omega)

theorem hij3D : ∀ k, dLo + 1024 * 54 ≤ k → k < dLo + 1024 * (54 + 16) → chkH 3 k = true :=
  allFrom_chunks _ _ _ _ _ hij3D_chunks

theorem hij3D_tail : allFrom (chkH 3) (dLo + 1024 * 70) 1004 = true := by decide +kernel

end Echse.Scale
