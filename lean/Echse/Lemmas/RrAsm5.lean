/-
  Assembly of C16 / C09, part 5: the yearly and the monthly filler under a SHIFT that keeps dates real in the years
  the fill loop visits (`KeepsAt`, RrAsm4) -- the per-filler theorems `fillYly_ok_partial` / `fillMly_ok_partial` ask
  for `ShiftKeepsDates` (all years 0..2099), which no backward SHIFT satisfies.  Here `finE_wf`, `fillYly_wf`,
  `fillMly_wf` are redone with the year of the period at hand, and the loops are shown never to go below the year
  they start in.
-/
import Echse.Lemmas.RrAsm4
import Echse.Lemmas.RrYlyOk
import Echse.Lemmas.RrMlyOk
namespace Echse.Lemmas.RrAsm
open Echse.Rrule Echse.Instant Echse.Spec.RrOk
open Echse.Lemmas.RrCandOk Echse.Lemmas.RrYlyOk Echse.Lemmas.RrMlyOk

/-- `finE_wf` (RrCandOk4) with the proviso on `shift()` for the year at hand only -/
theorem finE_wf_at (k : FillCtx) (y : Nat) (cand : List Nat) (hy : y ≤ 2099) (hc : AllVC y cand)
    (hs : KeepsAt k.sh y) (ht : ∀ t ∈ k.times, TimeOk t) (hp : 1601 ≤ k.proto.y ∧ k.proto.y ≤ 2100) :
    ∀ x ∈ finE k y cand, ltP x k.proto = false → WfInst x := by
  intro x hx hge
  unfold finE at hx
  have hc0 : AllVC y (if !k.tposp then clrPoss cand k.pos else cand) := by
    split
    · exact ⟨fun c h => hc.1 c (clrPoss_subset cand k.pos c h), clrPoss_asc cand k.pos hc.2⟩
    · exact hc
  obtain ⟨h1, h2, h3⟩ := hs _ hc0
  generalize shift { same := if !k.tposp then clrPoss cand k.pos else cand } y k.sh = c3 at *
  have hu : u32 = 4294967296 := rfl
  have hyr := year_ge_of_not_lt x k.proto hge
  rcases mem_periodE k y c3 x hx with h | h | h
  · obtain ⟨yd, hyd, t, htt, rfl⟩ := mem_setE k _ _ x h
    have := h2 yd hyd
    have e : (y + u32 - 1) % u32 = y - 1 := by rw [hu]; omega
    rw [e] at hyr ⊢
    have hyy : (mkX k (y - 1) yd t).y = (y - 1) % 65536 := rfl
    rw [hyy] at hyr
    exact mkX_wf k (y - 1) yd t (by omega) this.2 (ht t htt)
  · obtain ⟨yd, hyd, t, htt, rfl⟩ := mem_setE k _ _ x h
    have hyy : (mkX k y yd t).y = y % 65536 := rfl
    rw [hyy] at hyr
    exact mkX_wf k y yd t (by omega) (h1 yd hyd) (ht t htt)
  · obtain ⟨yd, hyd, t, htt, rfl⟩ := mem_setE k _ _ x h
    have e : (y + 1) % u32 = y + 1 := by rw [hu]; omega
    rw [e] at hyr ⊢
    have hyy : (mkX k (y + 1) yd t).y = (y + 1) % 65536 := rfl
    rw [hyy] at hyr
    exact mkX_wf k (y + 1) yd t (by omega) (h3 yd hyd) (ht t htt)

/-- `fillYly_wf` with the proviso on `shift()` for the years from the loop's first on -/
theorem fillYly_wf_at (r : Rule) (p : Inst) (n : Nat) (l : List Inst) (hr : WfRule r) (hp : WfInst p)
    (hs : ∀ y, ylyStart r p ≤ y → y ≤ 2099 → KeepsAt r.shift y) (h : fillYly r p n = some l) :
    ∀ x ∈ l, WfInst x := by
  rcases fillYly_some r p n l h with rfl | ⟨nti, _, rfl⟩
  · exact fun x hx => (nomatch hx)
  · have hc : ∀ y, AllVC y (ylyCand (ylyCtxOf r p nti) y) := fun y =>
      ylyCand_ok _ y (ylyCtxOf_ms r p nti hr hp) (ylyCtxOf_ds r p nti hr hp)
        (fun t ht => by have := hr.dow t ht; exact ⟨this.2.1, this.2.2.1, this.2.2.2⟩)
        (fun d hd => (hr.doy d hd).2.1)
    obtain ⟨_, hJ⟩ := ylyLoop_ind (ylyCtxOf r p nti) (fun y st => ylyStart r p ≤ y ∧ ∀ x ∈ st.out, WfInst x)
      (fun y st hy hJ => by
        have he := finishPeriod_emits (ylyCtxOf r p nti).k y (ylyCand (ylyCtxOf r p nti) y) st
        unfold maxYear at hy
        refine ⟨?_, he.inv (fun x hx _ h2 => ?_) hJ.2⟩
        · have hu : u32 = 4294967296 := rfl
          have hi := hr.inter
          rw [ylyCtxOf_r, hu]; omega
        · exact finE_wf_at _ y _ hy (hc y) (hs y hJ.1 hy) (times_ok r p hr hp) hp.year x hx h2)
      (64 * (nti + 1) + 2101) (ylyStart r p) 64 {} ⟨Nat.le_refl _, fun x hx => nomatch hx⟩
    exact fun x hx => hJ.2 x (List.mem_reverse.mp hx)

theorem fillYly_ok_at (r : Rule) (p : Inst) (n : Nat) (l : List Inst) (hr : WfRule r) (hp : WfInst p)
    (hs : ∀ y, ylyStart r p ≤ y → y ≤ 2099 → KeepsAt r.shift y) (h : fillYly r p n = some l) :
    FillOk r p n l :=
  { len_nti := (fillYly_len r p n l hr h).1
    len_count := (fillYly_len r p n l hr h).2
    wf := fillYly_wf_at r p n l hr hp hs h
    ge_proto := (fillYly_bounds r p n l h).1
    le_until := (fillYly_bounds r p n l h).2
    ascending := fillYly_asc r p n l hr hp h }

/-- "get m on track" never goes back -/
theorem mlyTrack_y (mon : List Nat) (inter : Nat) (hi : 1 ≤ inter ∧ inter < 2147483648) :
    ∀ fuel i y m y' m', 1 ≤ m ∧ m ≤ 12 → mlyTrack mon inter fuel i y m = some (y', m') → y ≤ y' := by
  intro fuel
  induction fuel with
  | zero => intro i y m y' m' _ h; cases h
  | succ fuel ih =>
    intro i y m y' m' hm h
    unfold mlyTrack at h
    split at h
    · injection h with h; injection h with h1 h2; omega
    split at h
    · cases h
    · rename_i hc
      unfold maxYear at hc
      have hs := mlyStep_spec inter y m hi (by omega) hm
      generalize mlyStep inter y m = ym at hs h
      obtain ⟨y1, m1⟩ := ym
      dsimp only at hs h
      have := ih _ _ _ _ _ ⟨hs.1, hs.2.1⟩ h
      omega

/-- `fillMly_wf` with the proviso on `shift()` for the years from the loop's first on -/
theorem fillMly_wf_at (r : Rule) (p : Inst) (n : Nat) (l : List Inst) (hr : WfRule r) (hp : WfInst p)
    (hs : ∀ y0 m0 y, mlyStart r p = some (y0, m0) → y0 ≤ y → y ≤ 2099 → KeepsAt r.shift y)
    (h : fillMly r p n = some l) : ∀ x ∈ l, WfInst x := by
  rcases fillMly_some r p n l h with rfl | ⟨nti, y0, m0, _, hst, hpm1, hpm2, rfl⟩
  · exact fun x hx => (nomatch hx)
  · have hc : ∀ y (m : Int), 1 ≤ m ∧ m ≤ 12 → AllVC y (mlyCand (mlyCtxOf r p nti) y (toU32 m)) := fun y m hm =>
      mlyCand_ok _ y _ (toU32_month m hm) (mlyCtxOf_ds r p nti hr hp)
        (fun t ht => by have := hr.dow t ht; exact ⟨this.2.1, this.2.2.1, this.2.2.2⟩)
    obtain ⟨_, _, hJ⟩ := mlyLoop_ind (mlyCtxOf r p nti)
      (fun y m st => (1 ≤ m ∧ m ≤ 12) ∧ y0 ≤ y ∧ ∀ x ∈ st.out, WfInst x)
      (fun y m st hy hJ => by
        have he := finishPeriod_emits (mlyCtxOf r p nti).k y (mlyCand (mlyCtxOf r p nti) y (toU32 m)) st
        have hn := mlyNext_spec r.mon r.inter hr.inter 12 y m (by omega) (by unfold maxYear at hy; omega) hJ.1
        refine ⟨⟨hn.1, hn.2.1⟩, ?_, he.inv (fun x hx _ h2 => ?_) hJ.2.2⟩
        · rw [mlyCtxOf_r]; omega
        · exact finE_wf_at _ y _ hy (hc y m hJ.1) (hs y0 m0 y hst hJ.2.1 hy) (times_ok r p hr hp) hp.year x hx h2)
      (mlyTries * (nti + 1) + 12 * 2100 + 1) y0 m0 mlyTries {}
      ⟨mlyStart_m r p hr ⟨hpm1, hpm2⟩ y0 m0 hst, Nat.le_refl _, fun x hx => nomatch hx⟩
    exact fun x hx => hJ.2.2 x (List.mem_reverse.mp hx)

end Echse.Lemmas.RrAsm
