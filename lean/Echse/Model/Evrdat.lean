/-
  Model of `__make_evrdat()` (src/evical.c) for events without a time zone: the instants of the RDATE (or EXDATE)
  lines of an event become one stream — each takes the time of day of DTSTART if it is a DATE (`instant_soup`), they
  are sorted (`echs_instant_sort`, i.e. WikiSort: Echse.Model.Sort) and an instant listed more than once is kept once.
  Tied to the C code by the `e.rdat` operation of harness/hx_strm.c.
-/
import Echse.Model.Sort
import Echse.Model.Instant
namespace Echse.Evrdat
open Echse.Instant Echse.Sort

/-- `instant_soup(broth, water, z = 0, eof = 0)`: a DATE among the instants takes the proto event's time of day -/
def soup (broth water : Inst) : Inst :=
  if water.H = allDay then { water with H := broth.H, M := broth.M, S := broth.S, ms := broth.ms } else water

/-- `for (i = 1; i < nd; i++) if (!eq(rd[i], rd[nu - 1])) rd[nu++] = rd[i];` -/
def dedupGo (last : Inst) : List Inst → List Inst
  | [] => []
  | x :: r => if x = last then dedupGo last r else x :: dedupGo x r

def dedupAdj : List Inst → List Inst
  | [] => []
  | x :: r => x :: dedupGo x r

/-- the instants `__make_evrdat(e, d, nd, exc)` spreads out as events, `e.from` = `dtstart` (Gregorian, no zone) -/
def makeEvrdat (dtstart : Inst) (ds : List Inst) : List Inst :=
  match ds with
  | [] => []
  | [d] => [soup dtstart d]
  | _ => dedupAdj (wikiSort ltP (ds.map (soup dtstart)))

end Echse.Evrdat
