/-
  C05, rule text round trip — part 12: the chain.  Reading the serialised rule field by field rebuilds the rule.
-/
import Echse.Lemmas.RrText11
namespace Echse.RrText
open Echse.Rrule Echse.Strpf Echse.Instant

theorem body_roundtrip (r : Rule) (ccnt : Nat)
    (hfreq : 1 ≤ r.freq ∧ r.freq ≤ 7)
    (hscale : r.scale = 0 ∨ (1 ≤ r.scale ∧ r.scale ≤ 10))
    (hinter : 1 ≤ r.inter ∧ r.inter < 2^31)
    (hcount : r.count = -1 ∨ (1 ≤ r.count ∧ r.count + ccnt < 2^31))
    (huntil : r.untl = Inst.unpack (2^64 - 1) ∨ UntilOk r.untl)
    (hshift : ShiftOk r.shift)
    (hmon : r.mon.Pairwise (· < ·) ∧ ∀ m ∈ r.mon, 1 ≤ m ∧ m ≤ 12)
    (hwk : r.wk.Pairwise iterLt ∧ ∀ w ∈ r.wk, w ≠ 0 ∧ -53 ≤ w ∧ w ≤ 53)
    (hdoy : r.doy.Pairwise iterLt ∧ ∀ d ∈ r.doy, d ≠ 0 ∧ -366 ≤ d ∧ d ≤ 366)
    (hdom : r.dom.Pairwise iterLt ∧ ∀ d ∈ r.dom, d ≠ 0 ∧ -31 ≤ d ∧ d ≤ 31)
    (heaster : r.easter.Pairwise iterLt ∧ ∀ e ∈ r.easter, -366 ≤ e ∧ e ≤ 366)
    (hdow : r.dow.Pairwise iterLt ∧ ∀ v ∈ r.dow, CdOk v)
    (hH : r.H.Pairwise (· < ·) ∧ ∀ h ∈ r.H, h < 24)
    (hM : r.M.Pairwise (· < ·) ∧ ∀ m ∈ r.M, m < 60)
    (hS : r.S.Pairwise (· < ·) ∧ ∀ s ∈ r.S, s < 60)
    (hpos : r.pos.Pairwise iterLt ∧ ∀ p ∈ r.pos, p ≠ 0 ∧ -366 ≤ p ∧ p ≤ 366) :
    snarfRruleL (body r ccnt) = { r with count := if r.count ≥ 0 then r.count + ccnt else r.count } := by
  have hnul := avoid_nul_body r ccnt
  unfold body at hnul ⊢
  rw [snarfRruleL_head ("FREQ=".toList ++ freqName r.freq) (tInter r ccnt) (by simp)
    (avoid_append (by decide) (avoid_freqName ';' (by decide) _)) hnul]
  rw [head_freq r.freq _ (term_tInter r ccnt) hfreq]
  simp only [Option.bind_some]
  unfold tInter
  rw [part_inter' _ _ _ (term_tScale r ccnt) hinter]
  unfold tScale
  rw [part_scale _ _ _ (term_tMon r ccnt) hscale]
  unfold tMon
  rw [part_mon _ _ _ (term_tWk r ccnt) hmon.2]
  unfold tWk
  rw [part_week _ _ _ (term_tDoy r ccnt) hwk.2]
  unfold tDoy
  rw [part_yday _ _ _ (term_tDom r ccnt) hdoy.2]
  unfold tDom
  rw [part_mday _ _ _ (term_tEaster r ccnt) hdom.2]
  unfold tEaster
  rw [part_easter _ _ _ (term_tDow r ccnt) heaster.2]
  unfold tDow
  rw [part_wday _ _ _ (term_tH r ccnt) (skips_tH r ccnt) hdow.2]
  unfold tH
  rw [part_hour _ _ _ (term_tM r ccnt) hH.2]
  unfold tM
  rw [part_min _ _ _ (term_tS r ccnt) hM.2]
  unfold tS
  rw [part_sec _ _ _ (term_tPos r ccnt) hS.2]
  unfold tPos
  rw [part_pos _ _ _ (term_tShift r ccnt) hpos.2]
  unfold tShift
  rw [part_shift _ _ _ (term_tCount r ccnt) hshift]
  unfold tCount
  rw [part_count' _ _ _ _ (term_tUntil r) hcount]
  rw [part_until' _ r huntil]
  simp only
  -- the rebuilt members are the rule's
  have e1 := foldl_assU r.mon [] (by simpa using hmon.1)
  have e2 := foldl_assI r.wk [] (by simpa using hwk.1)
  have e3 := foldl_assI r.doy [] (by simpa using hdoy.1)
  have e4 := foldl_assI r.dom [] (by simpa using hdom.1)
  have e5 := foldl_assI r.easter [] (by simpa using heaster.1)
  have e6 := foldl_assI r.dow [] (by simpa using hdow.1)
  have e7 := foldl_assU r.H [] (by simpa using hH.1)
  have e8 := foldl_assU r.M [] (by simpa using hM.1)
  have e9 := foldl_assU r.S [] (by simpa using hS.1)
  have e10 := foldl_assI r.pos [] (by simpa using hpos.1)
  simp only [List.nil_append] at e1 e2 e3 e4 e5 e6 e7 e8 e9 e10
  simp only [e1, e2, e3, e4, e5, e6, e7, e8, e9, e10]
  have i1 : (if r.inter > 1 then r.inter else 1) = r.inter := by split <;> omega
  have i2 : (if r.scale = 0 then 0 else r.scale) = r.scale := by split <;> omega
  have i3 : (if r.shift = 0 then 0 else r.shift) = r.shift := by split <;> omega
  have i4 : (if r.count ≥ 0 then r.count + (ccnt : Int) else -1) = (if r.count ≥ 0 then r.count + ccnt else r.count) := by
    rcases hcount with h | h
    · simp [h]
    · have : r.count ≥ 0 := by omega
      simp [this]
  have i5 : (if r.untl.pack < 2^64 - 1 then r.untl else Inst.unpack (2^64 - 1)) = r.untl := by
    rcases huntil with h | h
    · have : ¬ (r.untl.pack < 2^64 - 1) := by rw [h]; decide
      simp only [this, if_false]; exact h.symm
    · simp only [pack_lt_of_untilOk _ h, if_true]
  simp only [i1, i2, i3, i4, i5]

end Echse.RrText
