"""Shared machinery of the recurrence-rule checks (C01, C09, C16, C17): run generated (DTSTART, rule) cases through
the real parser (`r.parse`: snarf_rrule) and the real rule stream (`r.strm`: echs_make_evstrm_rrul / refill /
rrul_fill_*), decode, and compare with the RFC 5545 reference expander."""
import collections

from . import rfc5545, rrgen
from .common import unhex16

HORIZON = 2099


def decode(ans):
    """answer of r.strm -> (list of (y,m,d,H,M,S) with H None for dates, ended?) or the error marker string"""
    if ans.startswith("<"):
        return ans, None
    got, ended = [], False
    for x in ans.split(","):
        if x == "-":
            ended = True
        elif len(x) == 16:
            t = unhex16(x)
            got.append((t[0], t[1], t[2]) + ((None, None, None) if t[3] == 255 else (t[3], t[4], t[5])))
    return got, ended


def expected_struct(r):
    """the rrulsp_s print_rule() shows for a rule text, from the README / evrrul.h encoding"""
    dow = []
    for o, w in r.byday:
        v = (w + 1) + 7 * abs(o) if o >= 0 else -((w + 1) + 7 * (abs(o) - 1))
        dow.append(v if o >= 0 else v)
    return dow


def run_cases(ctx, exe, cases, npop, timeout=20):
    """cases: list of (dtstart, Rule).  Returns list of dicts with the implementation's and the reference's answers."""
    out, st, err = ctx.impl(exe, ["r.parse " + r.text().encode().hex() for _, r in cases])
    structs = out
    ops = ["r.strm %s | ds=%s n=%d" % (structs[i], rrgen.dtstart_text(ds), npop) for i, (ds, r) in enumerate(cases)]
    out, st, err = ctx.impl(exe, ops, timeout=timeout)
    res = []
    for i, (ds, r) in enumerate(cases):
        a = out[i] if i < len(out) else "<no answer>"
        got, gend = decode(a)
        exp, why = rfc5545.expand(ds, r, npop, HORIZON)
        verdict = judge(got, gend, exp, why, npop)
        res.append({"ds": ds, "rule": r, "op": ops[i], "struct": structs[i], "got": got, "gend": gend, "exp": exp, "why": why,
                    "verdict": verdict})
    return res, st, err


def judge(got, gend, exp, why, npop):
    """None if the implementation's stream is the reference's; else a short description of the first difference"""
    if isinstance(got, str):
        return got
    k = next((j for j, t in enumerate(got) if t[0] > HORIZON), None)
    if k is not None and why == "horizon":
        got, gend = got[:k], True                      # what lies beyond the supported range is not judged
    if why == "budget":
        got = got[:len(exp)]
    if got != exp:
        j = next((j for j in range(min(len(got), len(exp))) if got[j] != exp[j]), min(len(got), len(exp)))
        kind = "extra" if j >= len(exp) else "missing" if j >= len(got) else ("extra" if _key(got[j]) < _key(exp[j]) else "missing")
        return "%s occurrence at position %d: got %s, RFC 5545 gives %s (lengths %d/%d, end %s/%s)" % (
            kind, j, got[j:j + 2], exp[j:j + 2], len(got), len(exp), gend, why)
    if why in ("count", "until") and not gend and len(got) < npop:
        return "stream does not end after %s (%d occurrences)" % (why, len(exp))
    if why in ("count", "until") and not gend and len(got) == npop and len(exp) == npop:
        return None
    return None


def _key(t):
    return rfc5545._key(t)


def summarize(res, maxex=1):
    bad = collections.Counter()
    ex = {}
    for r in res:
        if r["verdict"]:
            sh = rrgen.shape_of(r["rule"], r["ds"])
            bad[sh] += 1
            ex.setdefault(sh, []).append(r)
    return bad, ex
