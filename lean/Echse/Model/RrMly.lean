/-
  Model of `rrul_fill_mly` (src/evrrul.c): FREQ=MONTHLY, SCALE=GREGORIAN.
  Branch-by-branch transcription; the candidate builders and the emission loop are in `Echse.Model.RrCand`.
  Tied to the C code by tools/rrfillprobe.py (`r.fill` lines through harness and model).
-/
import Echse.Model.RrCand
namespace Echse.Rrule
open Echse.Instant

/-- `MLY_TRIES` -/
def mlyTries : Nat := 28 * 12 + 1

/-- one step of the month counter: `y += inter / 12U; if ((m += inter % 12U) > 12) { m -= 12; y++; }`
(`m` is a C `int`, `y` an `unsigned int`) -/
def mlyStep (inter : Nat) (y : Nat) (m : Int) : Nat × Int :=
  let y := (y + inter / 12) % u32
  let m : Int := toS32 (toU32 m + inter % 12)
  if m > 12 then ((y + 1) % u32, m - 12) else (y, m)

/-- `bui31_has_bit_p(rr->mon, m)` for the `int` month -/
def monHas (mon : List Nat) (m : Int) : Bool := m ≥ 0 ∧ mon.contains m.toNat

/-- "get m on track": `for (i = 0; !has_bit(mon, m); i++) { if (i >= 12 || y > MAX_YEAR) goto fin; step; }`;
`none` = `goto fin`.  Fuel 13: the round with `i = 12` leaves at the latest. -/
def mlyTrack (mon : List Nat) (inter : Nat) : Nat → Nat → Nat → Int → Option (Nat × Int)
  | 0, _, _, _ => none
  | fuel+1, i, y, m =>
    if monHas mon m then some (y, m)
    else if i ≥ 12 ∨ y > maxYear then none
    else
      let (y, m) := mlyStep inter y m
      mlyTrack mon inter fuel (i + 1) y m

/-- the loop's increment: `do { step; } while (y <= MAX_YEAR && has_bits(mon) && !has_bit(mon, m));`
Fuel 12: `m` stays within 1..12 and moves by `inter % 12` modulo 12, so after at most 12 steps it is back at the
month it started from, which is in `mon` whenever `mon` has bits (the track loop saw to that, and this loop keeps
it so unless it ends with `y > MAX_YEAR`, which ends the fill loop as well). -/
def mlyNext (mon : List Nat) (inter : Nat) : Nat → Nat → Int → Nat × Int
  | 0, y, m => (y, m)
  | fuel+1, y, m =>
    let (y, m) := mlyStep inter y m
    if y ≤ maxYear ∧ !mon.isEmpty ∧ !monHas mon m then mlyNext mon inter fuel y m else (y, m)

structure MlyCtx where
  k : FillCtx
  r : Rule
  ds : List Int          -- `d[0 .. nd)`
  wdMask : Nat

/-- the candidates of month `y-m`: the body of the fill loop up to "limit by setpos" -/
def mlyCand (c : MlyCtx) (y m : Nat) : List Nat :=
  let nd := c.ds.length
  let cand : List Nat := []
  -- stick to note 1 on page 44, RFC 5545
  let cand :=
    if c.wdMask ≠ 0 ∧ nd ≠ 0 then cand                                     -- ymd, dealt with later
    else if c.wdMask ≠ 0 then
      let cand := if c.wdMask % 2 = 1 then fillMlyYmcw cand y m c.r.dow else cand
      fillMlyYmdAllD cand y m c.wdMask
    else cand
  -- extend by ymd
  if nd ≠ 0 then fillMlyYmd cand y m c.ds c.r.dow c.wdMask else cand

/-- `for (res = 0, tries = MLY_TRIES; res < nti && --tries; ({ … next month … })) { … }` -/
def mlyLoop (c : MlyCtx) : Nat → Nat → Int → Nat → FillSt → FillSt
  | 0, _, _, _, st => st
  | fuel+1, y, m, tries, st =>
    if !(st.res < c.k.nti) then st else
    let tries := tries - 1
    if tries = 0 then st else
    if y > maxYear then st else                    -- beyond the supported range: break
    let st := finishPeriod c.k y (mlyCand c y (toU32 m)) st
    if st.fin then st else
    let (y, m) := mlyNext c.r.mon c.r.inter 12 y m
    mlyLoop c fuel y m (if st.hit then mlyTries else tries) st

/-- `rrul_fill_mly(tgt, nti, rr)` with `*tgt = proto`: the instants written to `tgt[0 .. res)`.
`none`: not modelled (other scales; a proto carrying scale bits).

`none` also where the C code divides by zero (`inter = 0` with a forward SHIFT).

Fuel: the body runs only while `y ≤ 2099`; with `inter ≠ 0` the month count `12 * y + m` grows by at least `inter`
from round to round (no wrap: `y ≤ 2099` before, `inter / 12 < 2^32 / 12`), so there are at most `12 * 2100` rounds.
With `inter = 0` the month stands still; without a SHIFT a round either writes an instant (at most `nti` such
rounds) or uses up one of the `MLY_TRIES - 1` tries that only a write restores: `MLY_TRIES * (nti + 1)` rounds.
(`inter = 0` with a backward SHIFT: as in the yearly filler the C loop may never end.) -/
def fillMly (r : Rule) (proto : Inst) (nti : Nat) : Option (List Inst) :=
  if r.scale ≠ 0 ∨ proto.y ≥ 4096 then none else
  match capNti r nti with
  | none => some []                                -- COUNT used up: `goto fin`
  | some nti =>
    if proto.m = 0 ∨ proto.m > 12 then some [] else
    -- check if we're ymd only
    let ymdp := r.dow.isEmpty ∧ r.dom.isEmpty
    let k := mkFillCtx r proto nti
    let ds := r.dom.take 62
    let ds := if ds.isEmpty ∧ ymdp ∧ proto.d ≠ 0 then [(proto.d : Int)] else ds
    let wdMask := wdMaskOf r.dow
    -- candidates of earlier months might be shifted to here: go back a whole number of intervals
    let tmp : Int := shDvalue r.shift + tdiv (shBvalue r.shift * 7) 5
    let tmp := if shBdayP r.shift ∧ !shNegP r.shift then tmp + 3 else tmp      -- weekends on the way
    let y := proto.y
    let m : Int := proto.m
    if tmp > 0 ∧ r.inter ≤ (12 * y) % u32 ∧ r.inter = 0 then none else    -- `back % rr->inter` with inter = 0
    let (y, m) : Nat × Int :=
      if tmp > 0 ∧ r.inter ≤ (12 * y) % u32 then
        let back := toU32 (tdiv (tmp - 1) 28 + 1)
        let back := (back + r.inter + u32 - 1) % u32                 -- `back += rr->inter - 1U`
        let back := back - back % r.inter                            -- `back -= back % rr->inter`
        let y := (y + u32 - back / 12) % u32
        let m : Int := toS32 (toU32 m + u32 - back % 12)             -- `m -= back % 12U`
        if m ≤ 0 then ((y + u32 - 1) % u32, m + 12) else (y, m)
      else (y, m)
    -- get m on track
    let start : Option (Nat × Int) := if !r.mon.isEmpty then mlyTrack r.mon r.inter 13 0 y m else some (y, m)
    match start with
    | none => some []
    | some (y, m) =>
      let c : MlyCtx := { k := k, r := r, ds := ds, wdMask := wdMask }
      some (mlyLoop c (mlyTries * (nti + 1) + 12 * 2100 + 1) y m mlyTries {}).out.reverse

end Echse.Rrule
