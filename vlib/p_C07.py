"""C07 — TZID events occur at the stated local wall-clock time (library level: local<->UTC conversion).

Implementation: echs_instant_utc / echs_instant_loc / echs_tzob_offs on a fresh zone object per op line
(the range cache evolves inside a line).  Oracle: the system database through glibc (TZ=<zone>; localtime_r,
mktime with both isdst guesses) — asked in the same harness.  Correspondence: Echse.Model.Tz fed with the
zone's v1 table as parsed independently by vlib/tzif.py.
"""
import collections
import datetime
import re
import zoneinfo

from . import common
from .common import hex16, unhex16
from . import p_C08
from . import tzif

EPOCH = datetime.datetime(1970, 1, 1)
LO = int((datetime.datetime(1902, 1, 1) - EPOCH).total_seconds())
HI = int((datetime.datetime(2037, 12, 31) - EPOCH).total_seconds())

CLASS_ZONES = ["Europe/Berlin", "Europe/London", "America/New_York", "America/Sao_Paulo", "Australia/Sydney",
               "Australia/Lord_Howe", "Asia/Kolkata", "Asia/Kathmandu", "Pacific/Apia", "Pacific/Kiritimati",
               "America/St_Johns", "Africa/Abidjan", "Africa/Casablanca", "Asia/Tehran", "Europe/Moscow",
               "America/Caracas", "Antarctica/Troll", "Asia/Pyongyang", "Europe/Dublin", "America/Havana",
               "UTC", "Asia/Tokyo", "Pacific/Chatham", "America/Godthab", "Asia/Gaza"]


def build(ctx):
    return p_C08.build(ctx)


def inst_of_epoch(u):
    d = EPOCH + datetime.timedelta(seconds=u)
    return (d.year, d.month, d.day, d.hour, d.minute, d.second, 1023)


def offset_at(trs, tys, tda, u):
    """offset in force at UTC epoch u per the v1 table (time type 0 before the first transition)"""
    import bisect
    k = bisect.bisect_right(trs, u) - 1
    return tda[0][0] if k < 0 else tda[tys[k]][0]


def preimages(zone_tab, wnaive):
    """all UTC epochs whose local wall clock is wnaive (seconds of the naive local time since 1970)"""
    trs, tys, tda = zone_tab
    out = set()
    for o in {t[0] for t in tda}:
        u = wnaive - o
        if offset_at(trs, tys, tda, u) == o:
            out.add(u)
    return out


def table_str(zone):
    trs, tys, tda = tzif.read_v1(zone)
    return "%d %s %s %d %s" % (len(trs), " ".join(map(str, trs)), " ".join(map(str, tys)), len(tda),
                               " ".join(str(o) for o, _, _ in tda)), trs


def spaced(tab):
    trs_, tys_, tda_ = tab
    offs = [t[0] for t in tda_]
    if not offs:
        return True
    d = max(offs) - min(offs)
    return all(d < trs_[i + 1] - trs_[i] for i in range(len(trs_) - 1))


def run(ctx):
    exe = build(ctx)
    rng = ctx.rng
    thorough = ctx.tier == "thorough"
    zones_all = tzif.all_zones()
    if thorough:
        zones = zones_all
    else:
        zones = [z for z in CLASS_ZONES if z in zones_all]
        zones += rng.sample([z for z in zones_all if z not in zones], 20)
    per_zone = 400 if thorough else 240
    # ---- pass 1: pick UTC instants per zone, ask glibc for their local time
    U = {}
    ops1 = []
    ztab = {z: tzif.read_v1(z) for z in zones}
    for z in zones:
        tab, trs = table_str(z)
        inside = [t for t in trs if LO < t < HI]
        us = set()
        for t in inside:
            us.update((t - 1, t, t + 1))
        us = set(rng.sample(sorted(us), min(len(us), per_zone // 2)))
        if inside:
            t = max(inside)
            us.update((t - 1, t, t + 1))                      # the last recorded transition itself
            t = min(inside)
            us.update((t - 3600, t - 1, t, t + 1))            # around and before the first one
        if trs:
            us.update(x for x in (trs[0] - 86400, trs[0] - 1, trs[0], trs[-1], trs[-1] + 86400) if LO < x < HI)
        while len(us) < per_zone:
            r = rng.random()
            if r < 0.25:
                us.add(rng.randint(LO, -1))                   # before 1970
            elif r < 0.4:                                     # January / February of some year
                y = rng.randint(1902, 2037)
                us.add(int((datetime.datetime(y, rng.choice([1, 2]), rng.randint(1, 28), rng.randint(0, 23)) - EPOCH).total_seconds()))
            else:
                us.add(rng.randint(LO, HI))
        U[z] = sorted(us)
        ops1.append("z.glibc %s %s" % (z, " ".join("l:%d" % u for u in U[z])))
    out1, st1, err1 = ctx.impl(exe, ops1)
    # ---- pass 2: conversions on the implementation + mktime oracle for the wall-clock times
    ops2, meta2 = [], []
    for zi, z in enumerate(zones):
        tab, trs = table_str(z)
        ans = out1[zi].split() if zi < len(out1) else []
        items = []
        for u, a in zip(U[z], ans):
            f, gmtoff = a.split("/")
            w = tuple(int(x) for x in f.split("-")) + (1023,)
            items.append(("l", inst_of_epoch(u), u, w, int(gmtoff)))
            items.append(("u", w, u, w, int(gmtoff)))
            items.append(("o", inst_of_epoch(u), u, w, int(gmtoff)))
            if rng.random() < 0.1:                            # arbitrary wall clock (may not exist / be ambiguous)
                items.append(("u", inst_of_epoch(u), None, None, None))
        # wall clocks in the hours the clocks skipped or went through twice (RFC 5545 3.3.5 says which instant they mean)
        trs_, tys_, tda_ = ztab[z]
        edge = [k for k in range(1, len(trs_)) if LO + 90000 < trs_[k] < HI - 90000 and tda_[tys_[k]][0] != tda_[tys_[k - 1]][0]]
        for k in rng.sample(edge, min(len(edge), 12)):
            ob, oa = tda_[tys_[k - 1]][0], tda_[tys_[k]][0]
            lo_, hi_ = sorted((trs_[k] + ob, trs_[k] + oa))
            for wn in {lo_, hi_ - 1, (lo_ + hi_) // 2, rng.randint(lo_, hi_ - 1)}:
                items.append(("u", inst_of_epoch(wn), "edge", wn, None))
        # behind the end of the 32-bit table (2038 .. 2099): the offset stays what the last transition made it; judged where the
        # system database (64-bit data, POSIX rule) says the same, counted as the recorded limit D190 where it does not
        off_last = tda_[tys_[-1]][0] if trs_ else (tda_[0][0] if tda_ else 0)
        for _ in range(4):
            uf = rng.randint(2147483648, 4102444799)
            items.append(("l", inst_of_epoch(uf), "far", uf, off_last))
            items.append(("u", inst_of_epoch(uf + off_last), "far", uf + off_last, uf))
        rng.shuffle(items)
        for k in range(0, len(items), 100000):        # one line per zone: a zone object's cache lives as long as the process
            chunk = items[k:k + 100000]
            ops2.append("z.seq %s %s # %s" % (z, tab, " ".join("%s:%s" % (c[0], hex16(*c[1])) for c in chunk)))
            meta2.append(("seq", z, chunk))
            us = [c for c in chunk if c[0] == "u"]
            ops2.append("z.glibc %s %s" % (z, " ".join("u:%d-%d-%d-%d-%d-%d" % c[1][:6] for c in us)))
            meta2.append(("mk", z, us))
    ops2 += common.load_corpus("C07")
    # tzob.c interns at most 63 zones per process: run the harness in batches of 50 zones
    out2, st2, err2 = [], "ok", ""
    per = 100
    for k in range(0, len(ops2), per):
        o, s_, e_ = ctx.impl(exe, ops2[k:k + per])
        out2 += o
        if s_ != "ok":
            st2, err2 = s_, e_
    # ---- oracle
    fails = []
    nchk = 0
    nskip = 0
    nedge = 0
    nfar = nfar_rules = 0
    for i in range(0, len(meta2), 2):
        kind, z, chunk = meta2[i]
        got = out2[i].split() if i < len(out2) else []
        mk = out2[i + 1].split() if i + 1 < len(out2) else []
        mki = 0
        for j, c in enumerate(chunk):
            g = got[j] if j < len(got) else "<no answer>"
            if c[0] == "u":
                m = mk[mki] if mki < len(mk) else ""
                mki += 1
            if c[2] is None:
                continue
            if c[2] == "far":
                uf = c[3] if c[0] == "l" else c[4]
                try:
                    true_off = int(datetime.datetime.fromtimestamp(uf, zoneinfo.ZoneInfo(z)).utcoffset().total_seconds())
                except Exception:
                    continue
                off_last_ = (c[4] if c[0] == "l" else c[3] - c[4])
                if true_off != off_last_:
                    nfar_rules += 1              # a zone whose rules go on after 2037: recorded limit D190
                    continue
                nchk += 1
                nfar += 1
                want = hex16(*inst_of_epoch(uf + true_off)) if c[0] == "l" else hex16(*inst_of_epoch(uf))
                if g != want:
                    fails.append((ops2[i], j, "%s: %s %s (behind the last recorded transition, the offset is still %d s): should be %s, echse says %s"
                                  % (z, "UTC" if c[0] == "l" else "local", c[1][:6], true_off, unhex16(want)[:6], unhex16(g)[:6] if len(g) == 16 else g)))
                continue
            if c[2] == "edge":
                # a wall clock the zone has twice means its first occurrence, one it has not got is read with the offset from
                # before the gap (what Python's zoneinfo does with fold=0, too)
                wn = c[3]
                pre = sorted(preimages(ztab[z], wn))
                trs_, tys_, tda_ = ztab[z]
                if pre:
                    want_u = pre[0]
                else:
                    import bisect
                    cand = [k for k in range(1, len(trs_)) if trs_[k] + tda_[tys_[k - 1]][0] <= wn < trs_[k] + tda_[tys_[k]][0]]
                    if not cand:
                        continue
                    want_u = wn - tda_[tys_[cand[0] - 1]][0]
                nchk += 1
                nedge += 1
                want = hex16(*inst_of_epoch(want_u))
                if g != want:
                    fails.append((ops2[i], j, "%s: local %s %s: RFC 5545 3.3.5 makes it UTC %s, echse says %s"
                                  % (z, c[1][:6], "exists twice" if len(pre) > 1 else "does not exist" if not pre else "exists once",
                                     inst_of_epoch(want_u)[:6], unhex16(g)[:6] if len(g) == 16 else g)))
                continue
            nchk += 1
            if c[0] == "l":
                want = hex16(*c[3])
                if g != want:
                    fails.append((ops2[i], j, "%s: UTC %s is local %s per the system database, echse says %s"
                                  % (z, c[1][:6], c[3][:6], unhex16(g)[:6] if len(g) == 16 else g)))
            elif c[0] == "o":
                if g != str(c[4]):
                    fails.append((ops2[i], j, "%s: offset at UTC %s is %d s per the system database, echse says %s"
                                  % (z, c[1][:6], c[4], g)))
            else:
                # wall clock w exists (it is the image of u); unambiguous iff both isdst guesses of mktime agree
                try:
                    r0, r1 = (int(x) for x in m.split("/"))
                except ValueError:
                    continue
                wn = int((datetime.datetime(*c[1][:6]) - EPOCH).total_seconds())
                if r0 != r1 or r0 != c[2] or len(preimages(ztab[z], wn)) != 1:
                    nskip += 1          # ambiguous (fold) — the property speaks of unambiguous local times
                    continue
                want = hex16(*inst_of_epoch(c[2]))
                if g != want:
                    fails.append((ops2[i], j, "%s: local %s is UTC %s per the system database, echse says %s"
                                  % (z, c[1][:6], inst_of_epoch(c[2])[:6], unhex16(g)[:6] if len(g) == 16 else g)))
    # ---- the zone as events name it: DTSTART;TZID=...: and DTSTART;TZID="...": (a quoted parameter value, RFC 5545 3.2)
    from . import p_strm
    import zoneinfo as _zi
    sexe = p_strm.build(ctx)
    zs = rng.sample([z for z in zones_all if "/" in z and not z.startswith(("Etc/", "posix", "right"))], 24)
    evops, evwant = [], []
    for k, z in enumerate(zs):
        y, mo, d, h = rng.randint(1975, 2036), rng.randint(1, 12), rng.randint(1, 28), rng.randint(4, 20)
        try:
            u = datetime.datetime(y, mo, d, h, 30, 0, tzinfo=_zi.ZoneInfo(z)).astimezone(datetime.timezone.utc)
        except Exception:
            continue
        par = ('TZID="%s"' % z) if k % 2 else ("TZID=%s" % z)
        cal = "BEGIN:VCALENDAR\nBEGIN:VEVENT\nUID:z%d\nSUMMARY:x\nDTSTART;%s:%04d%02d%02dT%02d3000\nEND:VEVENT\nEND:VCALENDAR\n" % (k, par, y, mo, d, h)
        evops.append("p.occ %s 1" % cal.encode().hex())
        evwant.append((z, par, hex16(u.year, u.month, u.day, u.hour, u.minute, u.second, 1023)))
    evout, evst, _ = ctx.impl(sexe, evops)
    for k, (z, par, want) in enumerate(evwant):
        g = evout[k] if k < len(evout) else "<no answer>"
        m_ = re.search(r"occ=([0-9a-f]{16})", g)
        if not m_ or m_.group(1) != want:
            fails.append((evops[k], 0, "an event with DTSTART;%s at a local time that is UTC %s per the system database occurs at %s"
                          % (par, unhex16(want)[:6], unhex16(m_.group(1))[:6] if m_ else g[:80])))
    ctx.cov["events_with_tzid_parameter"] = len(evops)
    # ---- many zones in one process: the instant's zone field has six bits
    many = [z for z in zones_all if "/" in z and not z.startswith(("Etc/", "posix", "right"))]
    many = rng.sample(many, min(len(many), 70))
    w0 = (2024, 7, 1, 12, 0, 0, 1023)
    ops3 = ["z.seq %s - # u:%s" % (z, hex16(*w0)) for z in many]
    out3, st3, err3 = ctx.impl(exe, ops3)
    known = collections.Counter()
    for k, z in enumerate(many):
        try:
            u = datetime.datetime(*w0[:6], tzinfo=zoneinfo.ZoneInfo(z)).astimezone(datetime.timezone.utc)
        except Exception:
            continue
        want = hex16(u.year, u.month, u.day, u.hour, u.minute, u.second, 1023)
        g = out3[k] if k < len(out3) else "<no answer>"
        if g != want:
            if k >= 63:
                known["zone-limit"] += 1      # finding D147: the 64th and later zones of a process are taken for UTC
            else:
                fails.append((ops3[k], 0, "%s (zone number %d of this process): local noon of 2024-07-01 is UTC %s per the system "
                              "database, echse says %s" % (z, k + 1, (u.hour, u.minute), unhex16(g)[3:5] if len(g) == 16 else g)))
    for kf in common.load_known("C07"):
        if kf.get("status") == "known" and known.get(kf.get("class"), 0):
            ctx.known(kf["what"])
    if known and not any(kf.get("status") == "known" and kf.get("class") == "zone-limit" for kf in common.load_known("C07")):
        fails.append((ops3[63], 0, "the 64th and later zones of one process are converted as if they were UTC"))
    # ---- two recorded limits of the conversion, shown on events (a fresh harness process: the zone numbers above are used up)
    pcal = lambda z, v: "BEGIN:VCALENDAR\nBEGIN:VEVENT\nUID:p\nSUMMARY:x\nDTSTART;TZID=%s:%s\nEND:VEVENT\nEND:VCALENDAR\n" % (z, v)
    probes = [("gap-overlap", "America/New_York", "20070311T023000", (2007, 3, 11, 7, 30, 0), "a local time that does not exist is read with the offset before the gap (RFC 5545 3.3.5)"),
              ("gap-overlap", "Europe/Berlin", "20071028T023000", (2007, 10, 28, 0, 30, 0), "a local time that exists twice is its first occurrence (RFC 5545 3.3.5)"),
              ("after-2037", "Europe/Berlin", "20400615T120000", (2040, 6, 15, 10, 0, 0), "summer time in 2040"),
              ("after-2037-wrap", "Asia/Kolkata", "20400615T120000", (2040, 6, 15, 6, 30, 0), "a zone without changes, in 2040"),
              ("after-2037-wrap", "Asia/Kolkata", "20800526T125900", (2080, 5, 26, 7, 29, 0), "a zone without changes, in 2080")]
    pout, _, _ = ctx.impl(sexe, ["p.occ %s 1" % pcal(z, v).encode().hex() for _, z, v, _, _ in probes])
    seen = {}
    for k, (cls_, z, v, want, what) in enumerate(probes):
        m_ = re.search(r"occ=([0-9a-f]{16})", pout[k] if k < len(pout) else "")
        got = unhex16(m_.group(1))[:6] if m_ else None
        if got != want:
            seen.setdefault(cls_, "DTSTART;TZID=%s:%s (%s) is UTC %s, echse says %s" % (z, v, what, want, got))
    ctx.cov["conversion_probes"] = dict(seen) or "as demanded"
    knownc = {kf.get("class"): kf for kf in common.load_known("C07") if kf.get("status") == "known"}
    for c_, why_ in seen.items():
        if c_ in knownc:
            ctx.known(knownc[c_]["what"])
        else:
            fails.append(("p.occ", 0, why_))
    seq_ops = [o for o in ops2 if o.startswith("z.seq")]
    seq_impl = [a for o, a in zip(ops2, out2) if o.startswith("z.seq")]
    model = ctx.model(seq_ops)
    corr = common.diff_lines(seq_ops, seq_impl, model)
    ctx.cov.update({
        "evaluations": nchk,
        "distinct_nontrivial": nchk - nskip,
        "traces_validated_against_impl": len(seq_ops) - len(corr),
        "rule": ("all %d zones" % len(zones) if thorough else "%d zones (25 by class: northern/southern DST, half-hour and "
                 "45-minute offsets, date-line changes, LMT-only history, no transitions, + 20 seeded random)" % len(zones))
                + "; per zone %d UTC instants in 1902-2037: both sides of transitions, the first and the last recorded "
                  "transition, 25%% before 1970, 15%% in January/February, rest uniform; for each: UTC->local, offset, and the "
                  "resulting wall clock ->UTC; all conversions of a zone on one zone object in random order (evolving cache states). "
                  "non-trivial = conversions judged by the oracle (ambiguous wall-clock times are skipped)" % per_zone,
        "samples": [o[:60] + " … # " + o.split("#")[1][:100] for o in seq_ops[:3]],
        "zones": len(zones), "ambiguous_skipped": nskip,
        # the decidable side condition of utc_of_local_first_spaced / utc_of_local_gap (Lemmas/Tz8.lean `Spaced`): consecutive
        # transitions farther apart than any two offsets of the zone differ; the oracle does not depend on it
        "zones_meeting_Spaced": sum(1 for z_ in zones if z_ in ztab and spaced(ztab[z_])), "repeated_or_skipped_wall_clocks_judged_by_rfc": nedge,
        "conversions_2038_2099_judged": nfar, "conversions_2038_2099_in_zones_with_later_rules_not_judged": nfar_rules,
        "harness_status": [st1, st2],
        "impl_vs_spec_failures": len(fails),
        "impl_vs_model_differences": len(corr),
        "exhaustive": False,
    })
    ctx.assumptions += ["oracle = glibc's reading of the same /usr/share/zoneinfo files (64-bit data); range 1902-2037",
                        "TZif parsing itself (__conv_zif) is outside the Lean model; an independent Python reader feeds the model"]
    if (st1 != "ok" or st2 != "ok") and not fails and not corr:
        ctx.violation("correspondence", "harness ended with %s/%s: %s" % (st1, st2, (err1 + err2)[-600:]),
                      {"stderr": err1 + err2}, found_input=False)
    if fails:
        op, j, why = fails[0]
        ctx.violation("property", why, {"op": op, "position": j, "failures_total": len(fails),
                                        "more": [w for _, _, w in fails[1:8]]})
    elif corr:
        i, op, a, b = corr[0]
        ctx.violation("correspondence", "implementation and model differ on %d op lines while glibc agrees with the implementation; first: %s"
                      % (len(corr), op[:80]), {"correspondence": "Echse.Model.Tz vs tzraw.c/tzob.c", "op": op, "impl": a, "model": b},
                      found_input=False)


def replay(ctx, rep):
    exe = build(ctx)
    op = rep["data"].get("op")
    if not op:
        print("replay names no input: %s" % rep.get("what"))
        return 1
    out, st, _ = ctx.impl(exe, [op])
    m = ctx.model([op])[0]
    print("op: %s…\nimpl : %s\nmodel: %s\nwas: %s" % (op[:80], out[0][:300] if out else st, m[:300], rep.get("what")))
    return 0 if (out and out[0] == m) else 1
