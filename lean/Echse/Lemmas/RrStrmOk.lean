/-
  C16, stream part: the rule stream (`refill` / `pop` / `pops` of Echse.Model.RrStrm) hands out a strictly ascending
  list of instants, none before DTSTART, none after UNTIL, at most COUNT of them, and COUNT reached means end of
  stream -- provided every filler call keeps its contract `FillOk`.  The contract is a hypothesis here, in two forms:
  `Contract K` -- every filler call whose seed satisfies the proviso `K r p` yields `FillOk` and hands `K` on to
  what it writes (this is what the fillers satisfy, see RrAsm7 `fill_contract_seed`; the stream invariant carries `K`
  from refill to refill) -- and the unconditional `FillContract` (= `Contract` with the trivial proviso).
-/
import Echse.Spec.RrOk
import Echse.Props.C20
namespace Echse.Lemmas.RrStrmOk
open Echse.Rrule Echse.Instant Echse.Spec.RrOk

/-- the fillers' contract, as a hypothesis: the per-frequency files discharge it -/
def FillContract : Prop :=
  ∀ (r : Rule) (p : Inst) (n : Nat) (l : List Inst), WfRule r → WfInst p → n ≤ 64 → fill r p n = some l → FillOk r p n l

/-- the fillers' contract under a proviso `K` on rule and seed, which the fillers hand on to what they write and
which does not look at COUNT -/
structure Contract (K : Rule → Inst → Prop) : Prop where
  fill : ∀ (r : Rule) (p : Inst) (n : Nat) (l : List Inst), WfRule r → WfInst p → K r p → n ≤ 64 →
    fill r p n = some l → FillOk r p n l ∧ ∀ x ∈ l, K r x
  count : ∀ (r : Rule) (p : Inst) (c : Int), K r p → K { r with count := c } p

theorem FillContract.contract (hc : FillContract) : Contract (fun _ _ => True) :=
  ⟨fun r p n l hr hp _ hn h => ⟨hc r p n l hr hp hn h, fun _ _ => trivial⟩, fun _ _ _ _ => trivial⟩

/-! ### `ltP` is the order of a key -/

/-- the word `echs_instant_lt_p` compares -/
def key (i : Inst) : Nat := (bump i).pack

theorem ltP_key (a b : Inst) : ltP a b = decide (key a < key b) := rfl

theorem ltP_true {a b : Inst} : ltP a b = true ↔ key a < key b := by simp [ltP_key]

theorem ltP_false {a b : Inst} : ltP a b = false ↔ key b ≤ key a := by simp [ltP_key]

theorem ltP_irrefl (a : Inst) : ltP a a = false := ltP_false.mpr (Nat.le_refl _)

/-- sorting a strictly ascending cache changes nothing -/
theorem sortInst_asc (l : List Inst) (h : l.Pairwise (fun a b => ltP a b = true)) : sortInst l = l := by
  unfold sortInst
  symm
  apply C20.stableSort_unique ltP key ltP_key l l
  · exact h.imp (fun h => Nat.le_of_lt (ltP_true.mp h))
  · intro k; rfl

/-! ### `fixDflts` -/

theorem fixDflts_untl (r : Rule) (p : Inst) : (fixDflts r p).untl = r.untl := by
  unfold fixDflts
  repeat' split
  all_goals rfl

theorem fixDflts_count (r : Rule) (p : Inst) : (fixDflts r p).count = r.count := by
  unfold fixDflts
  repeat' split
  all_goals rfl

theorem ymdGetWday_range (y m d : Nat) : 1 ≤ ymdGetWday y m d ∧ ymdGetWday y m d ≤ 7 := by
  unfold ymdGetWday
  simp only []
  generalize (((if m < 3 then (y + u32 - 1) % u32 else y) + (if m < 3 then (y + u32 - 1) % u32 else y) / 4 + (u32 - (if m < 3 then (y + u32 - 1) % u32 else y) / 100) + (if m < 3 then (y + u32 - 1) % u32 else y) / 400 + [0, 3, 2, 5, 0, 3, 5, 1, 4, 6, 2, 4].getD (m - 1) 0 + d) % u32) = res
  split <;> omega

theorem wf_setDow (r : Rule) (w : Nat) (h : WfRule r) (hw : 1 ≤ w ∧ w ≤ 7) :
    WfRule { r with dow := [(w : Int)] } :=
  { h with dow := by intro x hx; simp at hx; subst hx; omega }

theorem wf_setDom (r : Rule) (d : Nat) (h : WfRule r) (hd : d ≠ 0 ∧ d ≤ 31) :
    WfRule { r with dom := [(d : Int)] } :=
  { h with dom := by intro x hx; simp at hx; subst hx; omega }

theorem wf_setMon (r : Rule) (m : Nat) (h : WfRule r) (hm : m ≠ 0 ∧ m ≤ 12) :
    WfRule { r with mon := [m] } :=
  { h with mon := ⟨by simp [Asc], by intro x hx; simp at hx; subst hx; omega⟩ }

theorem wf_setCount (r : Rule) (c : Int) (h : WfRule r) (hc : c = -1 ∨ (0 ≤ c ∧ c < 2147483648)) :
    WfRule { r with count := c } :=
  { h with count := hc }

theorem fixDflts_wf (r : Rule) (p : Inst) (h : WfRule r) : WfRule (fixDflts r p) := by
  unfold fixDflts
  by_cases h1 : r.shift = 0
  · rw [if_pos h1]; exact h
  rw [if_neg h1]
  by_cases h2 : p.m = 0 ∨ p.m > 12 ∨ p.d = 0 ∨ p.d > 31
  · rw [if_pos h2]; exact h
  rw [if_neg h2]
  have hm : p.m ≠ 0 ∧ p.m ≤ 12 := by omega
  have hd : p.d ≠ 0 ∧ p.d ≤ 31 := by omega
  split
  · exact wf_setDow r _ h (ymdGetWday_range p.y p.m p.d)
  split
  · exact h
  split
  · split
    · exact wf_setDom _ p.d (wf_setMon r p.m h hm) hd
    · exact wf_setDom r p.d h hd
  · exact wf_setDom r p.d h hd
  · exact h

/-! ### the stream invariant -/

/-- what is still in the cache -/
def rem (s : Strm) : List Inst := s.cch.drop s.rdi

/-- the stream invariant: `out` is what was handed out so far, `s` the state reached from `mkStrm r ds` -/
structure Inv (K : Rule → Inst → Prop) (r : Rule) (ds : Inst) (out : List Inst) (s : Strm) : Prop where
  rule : ∃ c, s.rule = { fixDflts r ds with count := c }
  cnt_neg : r.count < 0 → s.rule.count = r.count
  cnt_pos : 0 ≤ r.count → 0 ≤ s.rule.count ∧ ((out ++ rem s).length : Int) + s.rule.count = r.count
  asc : (out ++ rem s).Pairwise (fun a b => ltP a b = true)
  ge_start : ∀ x ∈ out ++ rem s, ltP x ds = false
  le_until : ∀ x ∈ out ++ rem s, ltP r.untl x = false
  seed : ∀ p, s.from_ = some p → WfInst p ∧ ltP p ds = false ∧ ∀ x ∈ out ++ rem s, ltP x p = true
  kind : ∀ p, s.from_ = some p → K s.rule p
  wf : ∀ x ∈ out ++ rem s, WfInst x

theorem inv_mk {K : Rule → Inst → Prop} (r : Rule) (ds : Inst) (hd : WfInst ds) (hk : K (fixDflts r ds) ds) :
    Inv K r ds [] (mkStrm r ds) where
  rule := ⟨r.count, by simp [mkStrm, ← fixDflts_count r ds]⟩
  cnt_neg := fun _ => fixDflts_count r ds
  cnt_pos := fun h => by simp [mkStrm, rem, fixDflts_count, h]
  asc := by simp [mkStrm, rem]
  ge_start := by simp [mkStrm, rem]
  le_until := by simp [mkStrm, rem]
  seed := by
    intro p hp
    simp [mkStrm] at hp
    subst hp
    exact ⟨hd, ltP_irrefl _, by simp [mkStrm, rem]⟩
  kind := by
    intro p hp
    simp [mkStrm] at hp
    subst hp
    exact hk
  wf := by simp [mkStrm, rem]

theorem inv_wfRule {K r ds out s} (hr : WfRule r) (hI : Inv K r ds out s) : WfRule s.rule := by
  obtain ⟨c, hc⟩ := hI.rule
  have hcnt : s.rule.count = c := by rw [hc]
  rw [hc]
  apply wf_setCount _ _ (fixDflts_wf r ds hr)
  rw [← hcnt]
  rcases hr.count with h | h
  · left; rw [hI.cnt_neg (by omega), h]
  · have := hI.cnt_pos h.1
    right; omega

theorem inv_streamOk {K r ds out s} (hI : Inv K r ds out s) : StreamOk r ds out where
  ascending := (List.pairwise_append.mp hI.asc).1
  ge_start := fun x hx => hI.ge_start x (List.mem_append_left _ hx)
  le_until := fun x hx => hI.le_until x (List.mem_append_left _ hx)
  len_count := fun h => by
    have := hI.cnt_pos h
    simp only [List.length_append] at this
    omega

/-- COUNT after caching `n` more instants -/
def cntNext (c : Int) (n : Nat) : Int := if c > 0 then (if (n : Int) < c then c - n else 0) else c

/-- a refill that called the filler: `l = cch ++ from'` is what the filler delivered -/
theorem inv_fill {K r ds out s} (hcK : Contract K) (hI : Inv K r ds out s) (hrem : rem s = []) (proto : Inst)
    (hp : s.from_ = some proto) (l : List Inst) (hF : FillOk s.rule proto 64 l) (hK : ∀ x ∈ l, K s.rule x)
    (cch : List Inst) (from' : Option Inst) (hl : l = cch ++ from'.toList) (s' : Strm)
    (h1 : s'.rule = { s.rule with count := cntNext s.rule.count cch.length })
    (h2 : s'.from_ = from') (h3 : s'.cch = sortInst cch) (h4 : s'.rdi = 0) : Inv K r ds out s' := by
  obtain ⟨hpw, hpd, hpo⟩ := hI.seed proto hp
  rw [hrem, List.append_nil] at hpo
  have hasc := hF.ascending
  rw [hl] at hasc
  have hcasc := (List.pairwise_append.mp hasc).1
  have hrem' : rem s' = cch := by simp [rem, h3, h4, sortInst_asc cch hcasc]
  have hoasc : out.Pairwise (fun a b => ltP a b = true) := by
    have := hI.asc; rw [hrem, List.append_nil] at this; exact this
  have hcl : ∀ x ∈ cch, x ∈ l := fun x hx => by rw [hl]; exact List.mem_append_left _ hx
  have hlen : cch.length ≤ l.length := by rw [hl]; simp
  obtain ⟨c, hc⟩ := hI.rule
  have huntl : s.rule.untl = r.untl := by rw [hc]; exact fixDflts_untl r ds
  have hcnt' : s'.rule.count = cntNext s.rule.count cch.length := by rw [h1]
  refine ⟨⟨cntNext s.rule.count cch.length, by rw [h1, hc]⟩, ?_, ?_, ?_, ?_, ?_, ?_, ?_, ?_⟩
  · intro hn
    have := hI.cnt_neg hn
    rw [hcnt', cntNext, if_neg (by omega)]; exact this
  · intro hn
    have h0 := hI.cnt_pos hn
    rw [hrem, List.append_nil] at h0
    have h5 := hF.len_count h0.1
    rw [hrem', hcnt', List.length_append, cntNext]
    split <;> (try split) <;> omega
  · rw [hrem']
    refine List.pairwise_append.mpr ⟨hoasc, hcasc, ?_⟩
    intro x hx y hy
    have a := ltP_true.mp (hpo x hx)
    have b := ltP_false.mp (hF.ge_proto y (hcl y hy))
    exact ltP_true.mpr (by omega)
  · rw [hrem']
    intro x hx
    rcases List.mem_append.mp hx with hx | hx
    · exact hI.ge_start x (List.mem_append_left _ hx)
    · have b := ltP_false.mp (hF.ge_proto x (hcl x hx))
      have a := ltP_false.mp hpd
      exact ltP_false.mpr (by omega)
  · rw [hrem']
    intro x hx
    rcases List.mem_append.mp hx with hx | hx
    · exact hI.le_until x (List.mem_append_left _ hx)
    · rw [← huntl]; exact hF.le_until x (hcl x hx)
  · intro p hp'
    rw [h2] at hp'
    subst hp'
    have hpl : p ∈ l := by rw [hl]; simp
    refine ⟨hF.wf p hpl, ?_, ?_⟩
    · have b := ltP_false.mp (hF.ge_proto p hpl)
      have a := ltP_false.mp hpd
      exact ltP_false.mpr (by omega)
    · rw [hrem']
      intro x hx
      rcases List.mem_append.mp hx with hx | hx
      · have a := ltP_true.mp (hpo x hx)
        have b := ltP_false.mp (hF.ge_proto p hpl)
        exact ltP_true.mpr (by omega)
      · exact (List.pairwise_append.mp hasc).2.2 x hx p (by simp)
  · intro p hp'
    rw [h2] at hp'
    subst hp'
    have hpl : p ∈ l := by rw [hl]; simp
    rw [h1]
    exact hcK.count _ _ _ (hK p hpl)
  · rw [hrem']
    intro x hx
    rcases List.mem_append.mp hx with hx | hx
    · exact hI.wf x (List.mem_append_left _ hx)
    · exact hF.wf x (hcl x hx)

/-- a refill that did not call the filler (end of stream noted, or COUNT used up) -/
theorem inv_idle {K r ds out s} (hI : Inv K r ds out s) (hrem : rem s = []) :
    Inv K r ds out { s with cch := [], rdi := 0 } := by
  have e : rem { s with cch := [], rdi := 0 } = rem s := by rw [hrem]; rfl
  exact ⟨hI.rule, hI.cnt_neg, by rw [e]; exact hI.cnt_pos, by rw [e]; exact hI.asc,
    by rw [e]; exact hI.ge_start, by rw [e]; exact hI.le_until, by rw [e]; exact hI.seed, hI.kind, by rw [e]; exact hI.wf⟩

theorem refill_idle {s s'} (h : refill s = some s') (h0 : s.from_ = none ∨ s.rule.count = 0) :
    s' = { s with cch := [], rdi := 0 } := by
  unfold refill at h
  split at h
  · exact (Option.some.inj h).symm
  · rcases h0 with h0 | h0
    · simp_all
    · rw [if_pos h0] at h; exact (Option.some.inj h).symm

theorem inv_refill {K} (hc : Contract K) {r ds out s} (hr : WfRule r) (hI : Inv K r ds out s) (hrem : rem s = [])
    (s' : Strm) (h : refill s = some s') : Inv K r ds out s' ∧ s'.rdi = 0 := by
  by_cases h0 : s.from_ = none ∨ s.rule.count = 0
  · rw [refill_idle h h0]; exact ⟨inv_idle hI hrem, rfl⟩
  · have hcnt : ¬ s.rule.count = 0 := fun e => h0 (Or.inr e)
    unfold refill at h
    split at h
    · next e => exact absurd (Or.inl e) h0
    next proto hp =>
    rw [if_neg hcnt] at h
    split at h
    · cases h
    next l hl =>
    obtain ⟨hF, hK⟩ := hc.fill s.rule proto 64 l (inv_wfRule hr hI) (hI.seed proto hp).1 (hI.kind proto hp)
      (Nat.le_refl _) hl
    by_cases hlen : l.length ≥ GRP_CCH_OFF
    · simp only [if_pos hlen] at h
      have hne : l ≠ [] := by intro e; rw [e] at hlen; simp [GRP_CCH_OFF] at hlen
      cases h
      refine ⟨inv_fill hc hI hrem proto hp l hF hK (l.take (l.length - 1)) l.getLast? ?_ _ rfl rfl rfl rfl, rfl⟩
      rw [← List.dropLast_eq_take, List.getLast?_eq_some_getLast hne]
      exact (List.dropLast_concat_getLast hne).symm
    · simp only [if_neg hlen] at h
      cases h
      exact ⟨inv_fill hc hI hrem proto hp l hF hK l none (by simp) _ rfl rfl rfl rfl, rfl⟩

/-- handing out the head of the cache -/
theorem inv_adv {K r ds out s} (hI : Inv K r ds out s) (x : Inst) (t : List Inst) (hrem : rem s = x :: t)
    (s' : Strm) (h1 : s'.rule = s.rule) (h2 : s'.from_ = s.from_) (h3 : rem s' = t) :
    Inv K r ds (out ++ [x]) s' := by
  have e : (out ++ [x]) ++ rem s' = out ++ rem s := by rw [h3, hrem]; simp
  exact ⟨by rw [h1]; exact hI.rule, by rw [h1]; exact hI.cnt_neg, by rw [e, h1]; exact hI.cnt_pos,
    by rw [e]; exact hI.asc, by rw [e]; exact hI.ge_start, by rw [e]; exact hI.le_until,
    by rw [e, h2]; exact hI.seed, by rw [h1, h2]; exact hI.kind, by rw [e]; exact hI.wf⟩

theorem inv_pop {K} (hc : Contract K) {r ds out s} (hr : WfRule r) (hI : Inv K r ds out s) (x : Inst) (s' : Strm)
    (h : pop s = some (some x, s')) : Inv K r ds (out ++ [x]) s' := by
  unfold pop at h
  split at h
  · next hge =>
    have hrem : rem s = [] := List.drop_eq_nil_of_le hge
    split at h
    · cases h
    next s1 hs1 =>
    obtain ⟨hI1, hrd⟩ := inv_refill hc hr hI hrem s1 hs1
    split at h
    · cases h
    next y t hy =>
    cases h
    exact inv_adv hI1 x t (by simp [rem, hrd, hy]) _ rfl rfl (by simp [rem, hy])
  · next hlt =>
    have hlt' : s.rdi < s.cch.length := by omega
    rw [List.getElem?_eq_getElem hlt'] at h
    cases h
    exact inv_adv hI _ (s.cch.drop (s.rdi + 1)) (by simp [rem]) _ rfl rfl rfl

/-- with COUNT used up the next pop yields nothing -/
theorem pop_end {K r ds out s} (hI : Inv K r ds out s) (hcnt : 0 < r.count) (hlen : (out.length : Int) = r.count)
    (o : Option Inst) (s' : Strm) (h : pop s = some (o, s')) : o = none := by
  have h0 := hI.cnt_pos (by omega)
  rw [List.length_append] at h0
  have hr0 : (rem s).length = 0 := by omega
  have hc0 : s.rule.count = 0 := by omega
  have hge : s.rdi ≥ s.cch.length := by
    have := List.drop_eq_nil_iff.mp (List.eq_nil_of_length_eq_zero hr0)
    exact this
  unfold pop at h
  rw [if_pos hge] at h
  split at h
  · cases h
  next s1 hs1 =>
  rw [refill_idle hs1 (Or.inr hc0)] at h
  simp at h
  exact h.1.symm

/-! ### the stream -/

theorem pops_inv {K} (hc : Contract K) {r ds} (hr : WfRule r) (n : Nat) :
    ∀ (out : List Inst) (s : Strm) (l : List Inst) (e : Bool), Inv K r ds out s → pops n s = some (l, e) →
      StreamOk r ds (out ++ l) ∧ ∀ x ∈ out ++ l, WfInst x := by
  induction n with
  | zero =>
    intro out s l e hI h
    simp [pops] at h
    rw [h.1, List.append_nil]; exact ⟨inv_streamOk hI, fun x hx => hI.wf x (List.mem_append_left _ hx)⟩
  | succ n ih =>
    intro out s l e hI h
    rw [pops] at h
    split at h
    · cases h
    · cases h
      rw [List.append_nil]; exact ⟨inv_streamOk hI, fun x hx => hI.wf x (List.mem_append_left _ hx)⟩
    next x s1 hp =>
    cases h1 : pops n s1 with
    | none => rw [h1] at h; cases h
    | some le =>
      obtain ⟨l1, e1⟩ := le
      rw [h1] at h
      cases h
      have := ih (out ++ [x]) s1 l1 e (inv_pop hc hr hI x s1 hp) h1
      rw [List.append_assoc] at this
      exact this

/-- C16 for the stream, under a contract with proviso `K` that holds of the rule (after `fix_rrul_dflts`) and DTSTART -/
theorem pops_ok_of {K} (hc : Contract K) (r : Rule) (ds : Inst) (hr : WfRule r) (hd : WfInst ds)
    (hk : K (fixDflts r ds) ds)
    (n : Nat) (l : List Inst) (ended : Bool) (h : pops n (mkStrm r ds) = some (l, ended)) : StreamOk r ds l := by
  have := (pops_inv hc hr n [] (mkStrm r ds) l ended (inv_mk r ds hd hk) h).1
  rw [List.nil_append] at this
  exact this

/-- every occurrence handed out is a sane instant -/
theorem pops_wf_of {K} (hc : Contract K) (r : Rule) (ds : Inst) (hr : WfRule r) (hd : WfInst ds)
    (hk : K (fixDflts r ds) ds)
    (n : Nat) (l : List Inst) (ended : Bool) (h : pops n (mkStrm r ds) = some (l, ended)) : ∀ x ∈ l, WfInst x := by
  have := (pops_inv hc hr n [] (mkStrm r ds) l ended (inv_mk r ds hd hk) h).2
  rw [List.nil_append] at this
  exact this

theorem pops_ok (hc : FillContract) (r : Rule) (ds : Inst) (hr : WfRule r) (hd : WfInst ds)
    (n : Nat) (l : List Inst) (ended : Bool) (h : pops n (mkStrm r ds) = some (l, ended)) : StreamOk r ds l :=
  pops_ok_of hc.contract r ds hr hd trivial n l ended h

theorem pops_end {K} (hc : Contract K) {r ds} (hr : WfRule r) (hcnt : 0 < r.count) (n : Nat) :
    ∀ (out : List Inst) (s : Strm) (l : List Inst) (e : Bool) (l' : List Inst) (e' : Bool), Inv K r ds out s →
      pops n s = some (l, e) → ((out ++ l).length : Int) = r.count → pops (n + 1) s = some (l', e') →
      l' = l ∧ e' = true := by
  induction n with
  | zero =>
    intro out s l e l' e' hI h hlen h'
    simp [pops] at h
    rw [h.1, List.append_nil] at hlen
    rw [pops] at h'
    split at h'
    · cases h'
    · cases h'; exact ⟨h.1.symm, rfl⟩
    next x s1 hp => cases pop_end hI hcnt hlen _ _ hp
  | succ n ih =>
    intro out s l e l' e' hI h hlen h'
    rw [pops] at h h'
    split at h
    · cases h
    · next hp =>
      rw [hp] at h'
      cases h; cases h'; exact ⟨rfl, rfl⟩
    next x s1 hp =>
    rw [hp] at h'
    dsimp only at h'
    cases h1 : pops n s1 with
    | none => rw [h1] at h; cases h
    | some le =>
    cases h2 : pops (n + 1) s1 with
    | none => rw [h2] at h'; cases h'
    | some le' =>
    obtain ⟨l1, e1⟩ := le
    obtain ⟨l2, e2⟩ := le'
    rw [h1] at h; rw [h2] at h'
    cases h; cases h'
    have := ih (out ++ [x]) s1 l1 e l2 e2 (inv_pop hc hr hI x s1 hp) h1
      (by rw [List.append_assoc]; exact hlen) h2
    exact ⟨by simp [this.1], this.2⟩

/-- COUNT reached means the stream has ended: after COUNT occurrences the next pop yields nothing -/
theorem pops_count_ends_of {K} (hc : Contract K) (r : Rule) (ds : Inst) (hr : WfRule r) (hd : WfInst ds)
    (hk : K (fixDflts r ds) ds)
    (hcnt : 0 < r.count) (n : Nat) (l : List Inst) (ended : Bool) (h : pops n (mkStrm r ds) = some (l, ended))
    (hlen : (l.length : Int) = r.count) (l' : List Inst) (e' : Bool)
    (h' : pops (n + 1) (mkStrm r ds) = some (l', e')) : l' = l ∧ e' = true :=
  pops_end hc hr hcnt n [] (mkStrm r ds) l ended l' e' (inv_mk r ds hd hk) h (by rw [List.nil_append]; exact hlen) h'

theorem pops_count_ends (hc : FillContract) (r : Rule) (ds : Inst) (hr : WfRule r) (hd : WfInst ds)
    (hcnt : 0 < r.count) (n : Nat) (l : List Inst) (ended : Bool) (h : pops n (mkStrm r ds) = some (l, ended))
    (hlen : (l.length : Int) = r.count) (l' : List Inst) (e' : Bool)
    (h' : pops (n + 1) (mkStrm r ds) = some (l', e')) : l' = l ∧ e' = true :=
  pops_count_ends_of hc.contract r ds hr hd trivial hcnt n l ended h hlen l' e' h'

/-! ### the premises are not vacuous: FREQ=DAILY;COUNT=3 from 2020-02-28T09:30:00 -/

def exR : Rule := { freq := 4, count := 3 }
def exD : Inst := { y := 2020, m := 2, d := 28, H := 9, M := 30, S := 0, ms := allSec }

theorem exR_wf : WfRule exR := by constructor <;> simp [exR, Asc]
theorem exD_wf : WfInst exD := by constructor <;> decide

def exL : List Inst :=
  [{ y := 2020, m := 2, d := 28, H := 9, M := 30, S := 0, ms := 1023 },
   { y := 2020, m := 2, d := 29, H := 9, M := 30, S := 0, ms := 1023 },
   { y := 2020, m := 3, d := 1, H := 9, M := 30, S := 0, ms := 1023 }]

/-- the stream of the example: three occurrences, then the end -/
theorem ex_pops : pops 3 (mkStrm exR exD) = some (exL, false) ∧ pops 5 (mkStrm exR exD) = some (exL, true) := by
  decide +kernel

example (hc : FillContract) : StreamOk exR exD exL :=
  pops_ok hc exR exD exR_wf exD_wf 3 exL false ex_pops.1

example (hc : FillContract) (l' : List Inst) (e' : Bool) (h' : pops 4 (mkStrm exR exD) = some (l', e')) :
    l' = exL ∧ e' = true :=
  pops_count_ends hc exR exD exR_wf exD_wf (by decide) 3 exL false ex_pops.1 (by decide) l' e' h'

/-- the one filler call of the example keeps the contract -/
theorem ex_fill : fill exR exD 64 = some exL ∧ FillOk exR exD 64 exL := by
  refine ⟨by decide +kernel, ?_⟩
  constructor
  · decide
  · intro _; decide
  · intro x hx
    simp only [exL, List.mem_cons, List.not_mem_nil, or_false] at hx
    rcases hx with rfl | rfl | rfl <;> constructor <;> decide
  · decide
  · decide +kernel
  · decide
end Echse.Lemmas.RrStrmOk
