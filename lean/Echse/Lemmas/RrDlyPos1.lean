/-
  BYSETPOS for the daily filler: the instances of one day are the day's time enumeration, in ascending order; hence
  the loop's test `pos_match_p` on the index of a time is the specification's `SetposOk`.
-/
import Echse.Lemmas.RrDlyRfc5
import Echse.Lemmas.RrRfcPos2
namespace Echse.Lemmas.RrRfc
open Echse.Rrule Echse.Instant Echse.Spec.RrOk Echse.Spec.Cal Echse.Spec.RuleExt Echse.Spec.Rfc
open Echse.Lemmas.RrOkBase

/-- the day's instances: exactly the times of the enumeration on that day -/
theorem dayL_char (r : Rule) (p : Inst) (nti : Nat) (hr : WfRule r) (hp : WfInst p)
    (hy : 1901 ≤ p.y) (hf : r.freq = 4) (j y m d : Nat) (hc : Carry p.y p.m (rnd (dctx r p nti) j) y m d)
    (hy2 : y ≤ 2099) (hsk : dlySkipDay (dctx r p nti) m d (rndW (dctx r p nti) j) (getNdom y m) = false)
    (x : Inst) (hx : dayOf x = days y m d) (u : Inst) :
    u ∈ (makeEnum p r).timesIx.map (mkz y m d p.ms) ↔ Instance r p u ∧ periodOf r.freq u = periodOf r.freq x := by
  have hI : Instance r p u = DailyInst r p u := by unfold Instance; rw [hf]; rfl
  have hP : ∀ v, periodOf r.freq v = dayOf v := by intro v; unfold periodOf; rw [hf]; rfl
  rw [hI, hP, hP, hx]
  obtain ⟨-, hvs⟩ := rnd_days r p nti j hp hy hc hy2
  constructor
  · intro h
    obtain ⟨t, ht, e⟩ := List.mem_map.1 h
    rw [← e]
    exact ⟨dly_inst r p nti hr hp hy j y m d hc hy2 hsk t ht, rfl⟩
  · rintro ⟨hu, hd⟩
    obtain ⟨s1, s2, s3, s4, s5, s6⟩ := hu.1
    obtain ⟨e1, e2, e3⟩ := days_inj u.y u.m u.d y m d s1 s2 s3 s4 hvs.1 hvs.2.1 hvs.2.2.1 hvs.2.2.2 hd
    obtain ⟨a, b, c⟩ := enum_of_exp hp s6 hu.2.2.2
    obtain ⟨iH, aH⟩ := mem_getElem? a
    obtain ⟨iM, aM⟩ := mem_getElem? b
    obtain ⟨iS, aS⟩ := mem_getElem? c
    refine List.mem_map.2 ⟨((iH, iM, iS), u.H, u.M, u.S), (mem_timesIx_iff _ _ _ _ _ _ _).2 ⟨aH, aM, aS⟩, ?_⟩
    unfold mkz
    cases u
    simp only at e1 e2 e3 s5
    subst e1 e2 e3 s5
    rfl

/-- the day loop's BYSETPOS test is `SetposOk` -/
theorem dlySkip_iff (r : Rule) (p : Inst) (nti : Nat) (hr : WfRule r) (hp : WfInst p)
    (hy : 1901 ≤ p.y) (hf : r.freq = 4) (hpos : r.pos ≠ []) (j y m d : Nat)
    (hc : Carry p.y p.m (rnd (dctx r p nti) j) y m d) (hy2 : y ≤ 2099)
    (hsk : dlySkipDay (dctx r p nti) m d (rndW (dctx r p nti) j) (getNdom y m) = false)
    (t : Tix) (ht : t ∈ (makeEnum p r).timesIx) :
    dlySkip (dctx r p nti) t.1 = false ↔ SetposOk r p (mkz y m d p.ms t) := by
  obtain ⟨⟨iH, iM, iS⟩, h, mi, s⟩ := t
  obtain ⟨g1, g2, g3⟩ := (mem_timesIx_iff _ _ _ _ _ _ _).1 ht
  have hget := timesIx_get (makeEnum p r) iH iM iS h mi s g1 g2 g3
  have hidx : ((makeEnum p r).timesIx.map (mkz y m d p.ms))[(iH * (makeEnum p r).M.length + iM) *
      (makeEnum p r).S.length + iS]? = some (mkz y m d p.ms ((iH, iM, iS), h, mi, s)) := by
    rw [dly_idx, List.getElem?_map, hget]; rfl
  have key := setpos_iff r p (mkz y m d p.ms ((iH, iM, iS), h, mi, s)) hpos _
    (dayL_sorted r p hr hp y m d) _ hidx
    (dayL_char r p nti hr hp hy hf j y m d hc hy2 hsk _ rfl)
  rw [key, List.length_map, timesIx_length]
  unfold dlySkip
  show ((!r.pos.isEmpty) && !posMatchP r.pos ((iH * (makeEnum p r).M.length + iM) * (makeEnum p r).S.length + iS + 1)
    ((makeEnum p r).H.length * (makeEnum p r).M.length * (makeEnum p r).S.length)) = false ↔ _
  have hne : r.pos.isEmpty = false := by
    cases hq : r.pos with
    | nil => exact absurd hq hpos
    | cons a as => rfl
  rw [hne, Nat.mul_assoc]
  simp

end Echse.Lemmas.RrRfc
