/-
  BYSETPOS (`clr_poss`) characterised: what `clrPoss` keeps of a candidate set is exactly the entries at the
  positions the BYSETPOS values name (positive: from the front, negative: from the end), whatever their order.
-/
import Echse.Lemmas.RrCandRfc4
namespace Echse.Lemmas.RrCandRfc
open Echse.Rrule Echse.Instant Echse.Spec.RrOk Echse.Lemmas.RrCandOk

/-- BYSETPOS selects entry `i` (0-based) of `n`: some value `q > 0` with `q = i + 1`, or `q < 0` with `n + q = i` -/
def PosSel (poss : List Int) (i n : Nat) : Prop :=
  ∃ q ∈ poss, (0 < q ∧ (i : Int) + 1 = q) ∨ (q < 0 ∧ (n : Int) + q = i)

/-- the 1-based position a BYSETPOS value resolves to -/
def clrPos (cand : List Nat) (q : Int) : Int := if q < 0 then (cand.length : Int) + q + 1 else q

/-- the BYSETPOS value `q` names a valid position, and `x` is the candidate there -/
def ClrSel (cand : List Nat) (q : Int) (x : Nat) : Prop :=
  0 < clrPos cand q ∧ clrPos cand q ≤ cand.length ∧ cand.getD ((clrPos cand q).toNat - 1) 0 = x

/-- the invariant of the `clrPoss` fold: the iterator stands at `prev`, and the entry at `prev` is in the result -/
def ClrInv (cand : List Nat) (st : List Nat × Nat × Int) : Prop :=
  st.2.1 = st.2.2.toNat ∧ 0 ≤ st.2.2 ∧ st.2.2 ≤ cand.length ∧
    (0 < st.2.2 → cand.getD (st.2.2.toNat - 1) 0 ∈ st.1)

theorem getD_pos_of (cand : List Nat) (hc : ∀ c ∈ cand, 0 < c) (j : Nat) (hj : j < cand.length) :
    0 < cand.getD j 0 := by
  rw [List.getD_eq_getElem?_getD, List.getElem?_eq_getElem hj]
  exact hc _ (List.getElem_mem hj)

theorem clrStep_inv (cand : List Nat) (hc : ∀ c ∈ cand, 0 < c) (st : List Nat × Nat × Int) (q : Int)
    (hst : ClrInv cand st) :
    ClrInv cand (clrStep cand st q) ∧
      ∀ x, x ∈ (clrStep cand st q).1 ↔ x ∈ st.1 ∨ ClrSel cand q x := by
  obtain ⟨res, ci, prev⟩ := st
  obtain ⟨h1, h2, h3, h4⟩ := hst
  dsimp only at h1 h2 h3 h4
  unfold ClrSel clrPos
  unfold clrStep
  dsimp only
  generalize (if q < 0 then (cand.length : Int) + q + 1 else q) = pos
  by_cases g : pos ≤ 0 ∨ pos > (cand.length : Int)
  · rw [if_pos g]
    refine ⟨⟨h1, h2, h3, h4⟩, fun x => ⟨fun h => Or.inl h, fun h => ?_⟩⟩
    rcases h with h | ⟨a, b, _⟩
    · exact h
    · omega
  rw [if_neg g]
  have gp : 0 < pos := by omega
  have gl : pos ≤ (cand.length : Int) := by omega
  have hj : pos.toNat - 1 < cand.length := by omega
  have hpos := getD_pos_of cand hc _ hj
  by_cases gr : prev > pos
  · -- the iterator is reset
    rw [if_pos gr]
    dsimp only
    have e1 : (pos - 0).toNat ≠ 0 := by omega
    have e2 : (pos - 0).toNat ≤ cand.length - 0 := by omega
    have e3 : 0 + (pos - 0).toNat - 1 = pos.toNat - 1 := by omega
    simp only [if_neg e1, if_pos e2, e3, if_pos hpos]
    refine ⟨⟨by dsimp only; omega, by dsimp only; omega, gl, fun _ => ?_⟩, fun x => ?_⟩
    · dsimp only; exact (mem_assC_iff _ _ _).2 (Or.inr rfl)
    · rw [mem_assC_iff]
      constructor
      · rintro (h | h)
        · exact Or.inl h
        · exact Or.inr ⟨gp, gl, h.symm⟩
      · rintro (h | ⟨_, _, h⟩)
        · exact Or.inl h
        · exact Or.inr h.symm
  rw [if_neg gr]
  dsimp only
  by_cases g1 : (pos - prev).toNat = 0
  · -- the same position again
    have e : pos = prev := by omega
    simp only [if_pos g1]
    have n0 : ¬ (0 : Nat) > 0 := by omega
    rw [if_neg n0]
    subst e
    refine ⟨⟨h1, h2, h3, fun _ => h4 gp⟩, fun x => ⟨fun h => Or.inl h, fun h => ?_⟩⟩
    rcases h with h | ⟨_, _, h⟩
    · exact h
    · rw [← h]; exact h4 gp
  · have e2 : (pos - prev).toNat ≤ cand.length - ci := by omega
    have e3 : ci + (pos - prev).toNat - 1 = pos.toNat - 1 := by omega
    simp only [if_neg g1, if_pos e2, e3, if_pos hpos]
    refine ⟨⟨by dsimp only; omega, by dsimp only; omega, gl, fun _ => ?_⟩, fun x => ?_⟩
    · dsimp only; exact (mem_assC_iff _ _ _).2 (Or.inr rfl)
    · rw [mem_assC_iff]
      constructor
      · rintro (h | h)
        · exact Or.inl h
        · exact Or.inr ⟨gp, gl, h.symm⟩
      · rintro (h | ⟨_, _, h⟩)
        · exact Or.inl h
        · exact Or.inr h.symm

theorem clrFold_mem (cand : List Nat) (hc : ∀ c ∈ cand, 0 < c) :
    ∀ (l : List Int) (st : List Nat × Nat × Int), ClrInv cand st →
      ∀ x, x ∈ (l.foldl (clrStep cand) st).1 ↔ x ∈ st.1 ∨ ∃ q ∈ l, ClrSel cand q x := by
  intro l
  induction l with
  | nil => intro st _ x; simp
  | cons q l ih =>
    intro st hst x
    obtain ⟨hi, hm⟩ := clrStep_inv cand hc st q hst
    rw [List.foldl_cons, ih _ hi x, hm x]
    constructor
    · rintro ((h | h) | ⟨q', hq', h⟩)
      · exact Or.inl h
      · exact Or.inr ⟨q, List.mem_cons_self, h⟩
      · exact Or.inr ⟨q', List.mem_cons_of_mem _ hq', h⟩
    · rintro (h | ⟨q', hq', h⟩)
      · exact Or.inl (Or.inl h)
      · rcases List.mem_cons.1 hq' with e | e
        · subst e; exact Or.inl (Or.inr h)
        · exact Or.inr ⟨q', e, h⟩

/-- a valid selection, said with 0-based indices -/
theorem clrSel_iff (cand : List Nat) (q : Int) (x : Nat) :
    ClrSel cand q x ↔ ∃ i : Nat, cand[i]? = some x ∧
      ((0 < q ∧ (i : Int) + 1 = q) ∨ (q < 0 ∧ (cand.length : Int) + q = i)) := by
  unfold ClrSel clrPos
  constructor
  · rintro ⟨h1, h2, h3⟩
    refine ⟨(if q < 0 then (cand.length : Int) + q + 1 else q).toNat - 1, ?_, ?_⟩
    · have hj : (if q < 0 then (cand.length : Int) + q + 1 else q).toNat - 1 < cand.length := by omega
      rw [List.getD_eq_getElem?_getD, List.getElem?_eq_getElem hj] at h3
      rw [List.getElem?_eq_getElem hj]
      exact congrArg some h3
    · by_cases g : q < 0
      · rw [if_pos g] at h1 h2 ⊢; right; omega
      · rw [if_neg g] at h1 h2 ⊢; left; omega
  · rintro ⟨i, hi, h⟩
    have hl : i < cand.length := by
      rcases Nat.lt_or_ge i cand.length with g | g
      · exact g
      · rw [List.getElem?_eq_none g] at hi; exact nomatch hi
    have e : (if q < 0 then (cand.length : Int) + q + 1 else q) = (i : Int) + 1 := by
      rcases h with ⟨a, b⟩ | ⟨a, b⟩
      · rw [if_neg (by omega)]; omega
      · rw [if_pos a]; omega
    rw [e]
    refine ⟨by omega, by omega, ?_⟩
    have e2 : ((i : Int) + 1).toNat - 1 = i := by omega
    rw [e2, List.getD_eq_getElem?_getD, hi]
    rfl

/-- BYSETPOS keeps exactly the candidates at the positions named, in whatever order the values come -/
theorem clrPoss_mem (cand : List Nat) (poss : List Int) (hpos : poss ≠ []) (hc : ∀ c ∈ cand, 0 < c) (c : Nat) :
    c ∈ clrPoss cand poss ↔ ∃ i, cand[i]? = some c ∧ PosSel poss i cand.length := by
  have he : poss.isEmpty = false := by
    cases poss with
    | nil => exact absurd rfl hpos
    | cons a l => rfl
  rw [clrPoss_eq, he]
  simp only [Bool.false_eq_true, if_false]
  have h0 : ClrInv cand ([], 0, 0) := ⟨rfl, Int.le_refl _, by dsimp only; omega, fun h => absurd h (by decide)⟩
  rw [clrFold_mem cand hc poss _ h0 c]
  unfold PosSel
  constructor
  · rintro (h | ⟨q, hq, h⟩)
    · exact nomatch h
    · obtain ⟨i, hi, h⟩ := (clrSel_iff cand q c).1 h
      exact ⟨i, hi, q, hq, h⟩
  · rintro ⟨i, hi, q, hq, h⟩
    exact Or.inr ⟨q, hq, (clrSel_iff cand q c).2 ⟨i, hi, h⟩⟩

end Echse.Lemmas.RrCandRfc
