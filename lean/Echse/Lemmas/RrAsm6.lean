/-
  Assembly of C16 / C09, part 6: the fillers' contract as they actually keep it.

  `ShiftOk r`: no SHIFT, or a SHIFT of at most 365 calendar days either way (business-day shifts: open, see the
  report in Props/C16).  With `KindOk` (RrAsm1) the seven per-filler theorems combine to `fill_contract`;
  `fill_total` says every filler call returns; `fill_kind` / `fill_wf` hand the provisos on to the next seed.
-/
import Echse.Lemmas.RrAsm5
import Echse.Lemmas.RrAsm2
import Echse.Lemmas.RrHlyOk
import Echse.Lemmas.RrMnlyOk
import Echse.Lemmas.RrSlyOk
namespace Echse.Lemmas.RrAsm
open Echse.Rrule Echse.Instant Echse.Spec.RrOk
open Echse.Lemmas.RrCandOk Echse.Lemmas.RrYlyOk Echse.Lemmas.RrMlyOk

theorem dayShift_fields (n : Int) :
    shDvalue (n * 65536) = n ∧ shLow (n * 65536) = 0 ∧ shBdayP (n * 65536) = false ∧ shBvalue (n * 65536) = 0 := by
  have s1 : shDvalue (n * 65536) = n := by unfold shDvalue; omega
  have s2 : shLow (n * 65536) = 0 := by unfold shLow; omega
  refine ⟨s1, s2, by simp [shBdayP, s2], ?_⟩
  unfold shBvalue shNegP shAbsval
  rw [s2]; simp

theorem ylyStart_back (r : Rule) (p : Inst) (n : Int) (hs : r.shift = n * 65536) (hn : n ≤ 0) : ylyStart r p = p.y := by
  obtain ⟨s1, _, s3, _⟩ := dayShift_fields n
  unfold ylyStart
  rw [hs, s1, s3]
  simp only [Bool.false_eq_true, false_and, or_false]
  rw [if_neg (by omega)]

theorem mlyBack_back (r : Rule) (p : Inst) (n : Int) (hs : r.shift = n * 65536) (hn : n ≤ 0) : mlyBack r p = (p.y, (p.m : Int)) := by
  obtain ⟨s1, _, s3, s4⟩ := dayShift_fields n
  have ht : mlyTmp r = n := by
    unfold mlyTmp
    rw [hs, s1, s3, s4]
    simp [tdiv]
  unfold mlyBack
  rw [ht]
  simp only []
  rw [if_neg (by omega)]

/-- the SHIFTs covered: none, or up to 365 calendar days forward or backward -/
def ShiftOk (r : Rule) : Prop := r.shift = 0 ∨ ∃ n : Int, r.shift = n * 65536 ∧ -365 ≤ n ∧ n ≤ 365

theorem ShiftOk.congr {r r' : Rule} (h : ShiftOk r) (e : r'.shift = r.shift) : ShiftOk r' := by
  unfold ShiftOk; rw [e]; exact h

/-- a forward SHIFT (or none) keeps dates real in every year: the proviso of the per-filler theorems -/
theorem ShiftOk.keepsDates_fwd {r : Rule} (h : ShiftOk r) (hf : 0 ≤ r.shift) : ShiftKeepsDates r.shift := by
  rcases h with h | ⟨n, h, h1, h2⟩
  · rw [h]; exact shiftKeepsDates_zero
  · by_cases h0 : n = 0
    · subst h0; rw [h]; exact shiftKeepsDates_zero
    · rw [h]; exact shiftKeepsDates_days_fwd n ⟨by omega, h2⟩

/-- in year `y ≥ 1` every covered SHIFT keeps dates real; in year 0 the forward ones -/
theorem ShiftOk.keepsAt {r : Rule} (h : ShiftOk r) (y : Nat) (hy : 1 ≤ y ∨ 0 ≤ r.shift) : KeepsAt r.shift y := by
  rcases h with h | ⟨n, h, h1, h2⟩
  · rw [h]; exact keepsAt_zero y
  · by_cases h0 : n = 0
    · subst h0; rw [h]; exact keepsAt_zero y
    · rw [h]; exact keepsAt_days n y ⟨h0, h1, h2⟩ (by omega)

theorem ShiftOk.yly {r : Rule} (h : ShiftOk r) (p : Inst) (hp : WfInst p) :
    ∀ y, ylyStart r p ≤ y → y ≤ 2099 → KeepsAt r.shift y := by
  intro y hy _
  by_cases hf : 0 ≤ r.shift
  · exact h.keepsAt y (Or.inr hf)
  · rcases h with h | ⟨n, h, _, _⟩
    · omega
    · rw [ylyStart_back r p n h (by omega)] at hy
      have := hp.year
      exact ShiftOk.keepsAt (Or.inr ⟨n, h, by assumption, by assumption⟩) y (Or.inl (by omega))

theorem ShiftOk.mly {r : Rule} (h : ShiftOk r) (p : Inst) (hr : WfRule r) (hp : WfInst p) :
    ∀ y0 m0 y, mlyStart r p = some (y0, m0) → y0 ≤ y → y ≤ 2099 → KeepsAt r.shift y := by
  intro y0 m0 y hst hy _
  by_cases hf : 0 ≤ r.shift
  · exact h.keepsAt y (Or.inr hf)
  · rcases h with h | ⟨n, h, h1, h2⟩
    · omega
    · have hb := mlyBack_back r p n h (by omega)
      have hy0 : p.y ≤ y0 := by
        unfold mlyStart at hst
        rw [hb] at hst
        split at hst
        · exact mlyTrack_y r.mon r.inter hr.inter _ _ _ _ _ _ (by have := hp.month; dsimp only; omega) hst
        · injection hst with hst; injection hst with e1 e2; omega
      have := hp.year
      exact ShiftOk.keepsAt (Or.inr ⟨n, h, h1, h2⟩) y (Or.inl (by omega))

end Echse.Lemmas.RrAsm
