/-
  BYSETPOS for the YEARLY / MONTHLY fillers, part 3 (specification side): `SetposOk` carries over along an order-keeping
  bijection between the instances of two periods (`setpos_transfer`); the same instant 28 n years earlier (`back28`).
-/
import Echse.Lemmas.RrCandRfc11
namespace Echse.Lemmas.RrCandRfc
open Echse.Rrule Echse.Instant Echse.Spec.RrOk Echse.Lemmas.RrCandOk Echse.Spec.Rfc Echse.Lemmas.RrRfc
open Echse.Spec.Cal Echse.Spec.RuleExt

/-- BYSETPOS carries over along a bijection between the instances of two periods that keeps their order
(`B` maps the period of `x` onto that of `x'`, `F` back; times differ by the constant `D`) -/
theorem setpos_transfer (r : Rule) (p x x' : Inst) (B F : Inst → Inst) (D : Int)
    (hB : ∀ y, Instance r p y → periodOf r.freq y = periodOf r.freq x →
      Instance r p (B y) ∧ periodOf r.freq (B y) = periodOf r.freq x' ∧ F (B y) = y ∧ absOf (B y) = absOf y - D)
    (hF : ∀ y', Instance r p y' → periodOf r.freq y' = periodOf r.freq x' →
      Instance r p (F y') ∧ periodOf r.freq (F y') = periodOf r.freq x ∧ B (F y') = y' ∧ absOf (F y') = absOf y' + D)
    (hx : absOf x' = absOf x - D) (h : SetposOk r p x) : SetposOk r p x' := by
  rcases h with h | ⟨n, hn, before, after, b1, b2, a1, a2, hc⟩
  · exact Or.inl h
  right
  have inj : ∀ (l : List Inst), (∀ y ∈ l, Instance r p y ∧ periodOf r.freq y = periodOf r.freq x) → l.Nodup →
      (l.map B).Nodup := by
    intro l hl hnd
    unfold List.Nodup at hnd ⊢
    rw [List.pairwise_map]
    refine List.Pairwise.imp_of_mem ?_ hnd
    intro y1 y2 h1 h2 hne e
    have e1 := (hB y1 (hl y1 h1).1 (hl y1 h1).2).2.2.1
    have e2 := (hB y2 (hl y2 h2).1 (hl y2 h2).2).2.2.1
    apply hne
    rw [← e1, ← e2, e]
  refine ⟨n, hn, before.map B, after.map B, ?_, ?_, ?_, ?_, ?_⟩
  · intro y'
    rw [List.mem_map]
    constructor
    · rintro ⟨y, hy, rfl⟩
      obtain ⟨c1, c2, c3⟩ := (b1 y).1 hy
      obtain ⟨d1, d2, _, d4⟩ := hB y c1 c2
      exact ⟨d1, d2, by omega⟩
    · rintro ⟨c1, c2, c3⟩
      obtain ⟨d1, d2, d3, d4⟩ := hF y' c1 c2
      exact ⟨F y', (b1 _).2 ⟨d1, d2, by omega⟩, d3⟩
  · exact inj before (fun y hy => ⟨((b1 y).1 hy).1, ((b1 y).1 hy).2.1⟩) b2
  · intro y'
    rw [List.mem_map]
    constructor
    · rintro ⟨y, hy, rfl⟩
      obtain ⟨c1, c2, c3⟩ := (a1 y).1 hy
      obtain ⟨d1, d2, _, d4⟩ := hB y c1 c2
      exact ⟨d1, d2, by omega⟩
    · rintro ⟨c1, c2, c3⟩
      obtain ⟨d1, d2, d3, d4⟩ := hF y' c1 c2
      exact ⟨F y', (a1 _).2 ⟨d1, d2, by omega⟩, d3⟩
  · exact inj after (fun y hy => ⟨((a1 y).1 hy).1, ((a1 y).1 hy).2.1⟩) a2
  · rw [List.length_map, List.length_map]; exact hc

/-- the same instant `28 n` years earlier -/
def back28 (x : Inst) (n : Nat) : Inst := { x with y := x.y - 28 * n }

theorem sh28_back28 (x : Inst) (n : Nat) (h : 28 * n ≤ x.y) : sh28 (back28 x n) n = x := by
  unfold sh28 back28
  cases x
  simp only [Inst.mk.injEq, and_self, and_true]
  simp only at h
  omega

theorem back28_sh28 (x : Inst) (n : Nat) : back28 (sh28 x n) n = x := by
  unfold sh28 back28
  cases x
  simp only [Inst.mk.injEq, and_self, and_true]
  omega

theorem absOf_sh28 (x : Inst) (n : Nat) (h1 : 1901 ≤ x.y) (h2 : x.y + 28 * n ≤ 2099) :
    absOf (sh28 x n) = absOf x + 10227 * n * 86400 := by
  unfold absOf
  rw [dayOf_sh28 x n h1 h2]
  have : secOf (sh28 x n) = secOf x := rfl
  rw [this]; omega

end Echse.Lemmas.RrCandRfc
