import Echse.Lemmas.Instant5
/-
  Epoch conversions, part 2: tzob.c `__epoch_to_inst` (signed argument) on 1900-03-01 … 2100-02-28, the year
  range 1901..2099 inside it, echsd.c `instant_to_tstamp`.
-/
namespace Echse.Instant
open Echse.Gen Echse.Spec.Cal

set_option maxRecDepth 10000 in
/-- `-2203891200` = 1900-03-01T00:00Z, `4107542400` = 2100-03-01T00:00Z -/
theorem frEpochI (t : Int) (h1 : -2203891200 ≤ t) (h2 : t < 4107542400) :
    NormalSec (epochToInstI t) ∧
    1900 ≤ myear (epochToInstI t).y (epochToInstI t).m ∧ myear (epochToInstI t).y (epochToInstI t).m ≤ 2099 ∧
    absSec (epochToInstI t) = epochDays * 86400 + t := by
  obtain ⟨b, q1, q2, hy, hq, hlt, m1, m2, d1, d2, y1, y2, hd⟩ :=
    epochDate (t / 86400 + 25509).toNat (by omega) (by omega)
  rw [epochToInstI_eq, epochDays_eq]
  simp only [daisyUnixBase, daisyBaseYear, Nat.reducePow, Int.cast_ofNat_Int]
  have e1 : ((t / 86400 + 7977 + 17532) % 4294967296).toNat = (t / 86400 + 25509).toNat := by omega
  simp only [e1, hy]
  generalize hD : (t / 86400 + 25509).toNat = D at *
  have s1 : (((D : Nat) : Int) - ((b * 365 + b / 4 : Nat) : Int)) % 4294967296 = ((D - (b * 365 + b / 4) : Nat) : Int) := by
    omega
  simp only [s1, Int.toNat_natCast, hq]
  generalize hY : (b + 1948 - 48 + if q1 > 10 then 1 else 0) = Y at *
  generalize hm : tzobRm.getD q1 0 = m at *
  have ml := monthLen_pos Y m m1 m2
  have yb : Y ≤ 2100 := by unfold myear at y2; split at y2 <;> omega
  have e2 : Y % 65536 = Y := by omega
  have e3 : q2 % 256 = q2 := by omega
  simp only [e2, e3]
  generalize hs : (t - t / 86400 * 86400).toNat = s
  have hs' : s < 86400 := by omega
  refine ⟨⟨⟨m1, m2, d1, d2⟩, ?_, ?_, ?_, rfl⟩, y1, y2, ?_⟩
  · show s / 3600 % 256 < 24; omega
  · show s / 60 % 60 < 60; omega
  · show s % 60 < 60; omega
  · simp only [absSec]
    rw [hd]
    omega

theorem epochToInst_eq_I (t : Nat) : epochToInst t = epochToInstI t := rfl

theorem days_2100 : days 2100 1 1 = 719468 + 47482 := by decide
theorem days_1901' : days 1901 1 1 = 719468 - 25202 := by decide

theorem days_ge_1970 (y m d : Nat) (hy : 1970 ≤ y) (h1 : 1 ≤ m) (h2 : m ≤ 12) (hd : 1 ≤ d) :
    days 1970 1 1 ≤ days y m d := by
  have := days_year_mono 1970 y hy
  have := days_month_mono y 1 m (by omega) h1 h2
  have := days_d y m d
  omega

theorem myear_of_inRange (y m : Nat) (h1 : 1901 ≤ y) (h2 : y ≤ 2099) : 1900 ≤ myear y m ∧ myear y m ≤ 2099 := by
  unfold myear; split <;> omega

/-- a valid date with a day number of 1901..2099 is a date of these years -/
theorem inRange_of_days (y m d : Nat) (h1 : 1 ≤ m) (h2 : m ≤ 12) (hd1 : 1 ≤ d) (hd : d ≤ monthLen y m)
    (l : days 1901 1 1 ≤ days y m d) (u : days y m d < days 2100 1 1) : 1901 ≤ y ∧ y ≤ 2099 := by
  refine ⟨?_, ?_⟩
  · by_cases c : 1901 ≤ y
    · exact c
    · have := days_lt_of_lex y m d 1901 1 1 h1 h2 hd (by omega) (by omega) (by omega) (Or.inl (by omega))
      omega
  · by_cases c : y ≤ 2099
    · exact c
    · have := days_year_mono 2100 y (by omega)
      have := days_month_mono y 1 m (by omega) h1 h2
      have := days_d y m d
      omega

/-- `__epoch_to_inst` on the years 1901..2099: `-2177452800` = 1901-01-01T00:00Z, `4102444800` = 2100-01-01T00:00Z -/
theorem frEpoch (t : Int) (h1 : -2177452800 ≤ t) (h2 : t < 4102444800) :
    NormalSec (epochToInstI t) ∧ 1901 ≤ (epochToInstI t).y ∧ (epochToInstI t).y ≤ 2099 ∧
    absSec (epochToInstI t) = epochDays * 86400 + t := by
  obtain ⟨n, -, -, a⟩ := frEpochI t (by omega) (by omega)
  obtain ⟨⟨a1, a2, a3, a4⟩, a5, a6, a7, a8⟩ := n
  have r := inRange_of_days _ _ _ a1 a2 a3 a4
    (by rw [days_1901']; rw [epochDays_eq] at a; simp only [absSec] at a; omega)
    (by rw [days_2100]; rw [epochDays_eq] at a; simp only [absSec] at a; omega)
  exact ⟨⟨⟨a1, a2, a3, a4⟩, a5, a6, a7, a8⟩, r.1, r.2, a⟩

/-- the stretch 1900-03-01 … 2100-02-28 spelled with calendar years -/
theorem myear_wide (y m : Nat) (hy1 : 1901 ≤ y ∨ (y = 1900 ∧ 3 ≤ m)) (hy2 : y ≤ 2099 ∨ (y = 2100 ∧ m ≤ 2)) :
    1900 ≤ myear y m ∧ myear y m ≤ 2099 := by
  unfold myear; split <;> omega

theorem wide_of_myear (y m : Nat) (h1 : 1900 ≤ myear y m) (h2 : myear y m ≤ 2099) :
    (1901 ≤ y ∨ (y = 1900 ∧ 3 ≤ m)) ∧ (y ≤ 2099 ∨ (y = 2100 ∧ m ≤ 2)) := by
  unfold myear at h1 h2; split at h1 <;> omega

theorem days_1900_3 : days 1900 3 1 = 719468 - 25508 := by decide
theorem days_2100_3 : days 2100 3 1 = 719468 + 47541 := by decide

theorem days_wide (y m d : Nat) (h1 : 1 ≤ m) (h2 : m ≤ 12) (hd1 : 1 ≤ d) (hd : d ≤ monthLen y m)
    (hy1 : 1901 ≤ y ∨ (y = 1900 ∧ 3 ≤ m)) (hy2 : y ≤ 2099 ∨ (y = 2100 ∧ m ≤ 2)) :
    days 1900 3 1 ≤ days y m d ∧ days y m d < days 2100 3 1 := by
  refine ⟨?_, days_lt_of_lex y m d 2100 3 1 h1 h2 hd (by omega) (by omega) (by omega) (by omega)⟩
  by_cases c : y = 1900 ∧ m = 3 ∧ d = 1
  · obtain ⟨rfl, rfl, rfl⟩ := c; exact Int.le_refl _
  · exact Int.le_of_lt (days_lt_of_lex 1900 3 1 y m d (by omega) (by omega) (by decide) h1 h2 hd1 (by omega))

/-- echsd.c's January-based day count (days since 2001-01-00, Gregorian leap rule, floor division)
against the spec's `days`; every year, before and after 2001 -/
theorem ts_days (y m d : Nat) (h1 : 1 ≤ m) (h2 : m ≤ 12) :
    365 * ((y : Int) - 2001) + ((y : Int) - 2001) / 4 - ((y : Int) - 2001) / 100 + ((y : Int) - 2001) / 400
      + (echsdMonYday.getD m 0 : Nat) + (d : Nat)
      + (if (y % 4 == 0 && (y % 100 != 0 || y % 400 == 0)) && decide (m ≥ 3) then 1 else 0) + 730790
      = days y m d := by
  rcases month_cases m h1 h2 with h|h|h|h|h|h|h|h|h|h|h|h <;> subst h
  all_goals simp [days, echsdMonYday]
  all_goals try split
  all_goals omega

/-- echsd.c `instant_to_tstamp` on every instant with a month 1..12, whatever the year and the other fields -/
theorem instToTstamp_eq (i : Inst) (h1 : 1 ≤ i.m) (h2 : i.m ≤ 12) :
    instToTstamp i = (days i.y i.m i.d - epochDays) * 86400 +
      (if i.isAllDay then 0 else (((i.H : Int) * 60 + i.M) * 60 + i.S)) := by
  have k := ts_days i.y i.m i.d h1 h2
  unfold instToTstamp
  simp only [echsdEpochDays, epochDays_eq]
  rw [← k]
  split <;> omega
end Echse.Instant
