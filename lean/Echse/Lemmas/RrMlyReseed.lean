/-
  Property C01 for the monthly filler, layer L4: the seed-anchored statements against DTSTART across a refill.  When the
  seed `p` of a call is itself an instance of (DTSTART `ds`, rule) — as the last occurrence handed out is — the instances
  and the BYSETPOS choice anchored at `p` are those anchored at `ds`, from the seed's month on (`mlyInst_reseed`,
  `mlySetpos_reseed`); hence `fillMly_sound_reseed`, `fillMly_complete_reseed`: what a refill writes are occurrences of
  (ds, rule), none from the seed on is missing.
-/
import Echse.Lemmas.RrMlyPos
namespace Echse.Lemmas.RrMlyRfc
open Echse.Rrule Echse.Instant Echse.Spec.RrOk Echse.Lemmas.RrCandOk Echse.Spec.Rfc Echse.Lemmas.RrRfc
open Echse.Lemmas.RrCandRfc Echse.Lemmas.RrMlyOk Echse.Spec.Cal Echse.Spec.RuleExt Echse.Lemmas.RrOkBase

/-- the kind of an instant is that of any instant of its kind -/
theorem sameKind_reseed {ds p x : Inst} (h : SameKind ds p) : SameKind p x ↔ SameKind ds x := by
  obtain ⟨_, _, _, _, hms, hk⟩ := h
  unfold SameKind
  rw [hms]
  apply and_congr Iff.rfl; apply and_congr Iff.rfl; apply and_congr Iff.rfl; apply and_congr Iff.rfl
  apply and_congr Iff.rfl
  unfold allDay at *
  rcases hk with ⟨k1, k2, k3, k4⟩ | ⟨k1, k2, k3, k4⟩
  · rw [k1, k2, k3, k4]
  · constructor
    · rintro (⟨a, _⟩ | ⟨_, b⟩)
      · omega
      · exact Or.inr ⟨k1, b⟩
    · rintro (⟨a, _⟩ | ⟨_, b⟩)
      · exact absurd a k1
      · exact Or.inr ⟨by omega, b⟩

/-- the time expansion anchored at an instance is that anchored at DTSTART -/
theorem timeExp_reseed {r : Rule} {ds p x : Inst} (hk : SameKind ds p) (ht : TimeExp r ds p) :
    TimeExp r p x ↔ TimeExp r ds x := by
  obtain ⟨_, _, _, _, _, hk⟩ := hk
  unfold TimeExp at *
  unfold allDay at *
  rcases hk with ⟨k1, k2, k3, k4⟩ | ⟨k1, k2, k3, k4⟩
  · constructor <;> intro _
    · exact Or.inl k1
    · exact Or.inl k2
  · rcases ht with ht | ⟨h1, h2, h3⟩
    · exact absurd ht k1
    · unfold hourExp minExp secExp at *
      constructor
      · rintro (a | ⟨a1, a2, a3⟩)
        · omega
        · right
          refine ⟨?_, ?_, ?_⟩
          · split at h1 <;> rename_i c
            · rw [if_pos c] at a1 ⊢; omega
            · rw [if_neg c] at a1 ⊢; exact a1
          · split at h2 <;> rename_i c
            · rw [if_pos c] at a2 ⊢; omega
            · rw [if_neg c] at a2 ⊢; exact a2
          · split at h3 <;> rename_i c
            · rw [if_pos c] at a3 ⊢; omega
            · rw [if_neg c] at a3 ⊢; exact a3
      · rintro (a | ⟨a1, a2, a3⟩)
        · exact absurd a k1
        · right
          refine ⟨?_, ?_, ?_⟩
          · split at h1 <;> rename_i c
            · rw [if_pos c] at a1 ⊢; omega
            · rw [if_neg c] at a1 ⊢; exact a1
          · split at h2 <;> rename_i c
            · rw [if_pos c] at a2 ⊢; omega
            · rw [if_neg c] at a2 ⊢; exact a2
          · split at h3 <;> rename_i c
            · rw [if_pos c] at a3 ⊢; omega
            · rw [if_neg c] at a3 ⊢; exact a3

/-- the grid anchored at a point of the grid is the grid, from that point on -/
theorem grid_reseed (a b x j n : Nat) (hn : 0 < n) (hb : b = a + j * n) (hx : b ≤ x) :
    (∃ k : Nat, x = b + k * n) ↔ (∃ k : Nat, x = a + k * n) := by
  constructor
  · rintro ⟨k, hk⟩; exact ⟨j + k, by rw [hk, hb, Nat.add_mul]; omega⟩
  · rintro ⟨k, hk⟩
    have hjk : j ≤ k := by
      by_cases c : j ≤ k
      · exact c
      · have := (grid_lt a k j n hn).2 (by omega); omega
    refine ⟨k - j, ?_⟩
    have : k * n = j * n + (k - j) * n := by rw [← Nat.add_mul]; congr 1; omega
    omega

/-- L4 (MONTHLY): for a seed that is itself an instance of (DTSTART `ds`, rule), the instances anchored at the seed are
those anchored at DTSTART, from the seed's month on -/
theorem mlyInst_reseed (r : Rule) (ds p x : Inst) (hr : WfRule r) (hp : MonthlyInst r ds p) (hx : pIdx p ≤ pIdx x) :
    MonthlyInst r p x ↔ MonthlyInst r ds x := by
  obtain ⟨a1, ⟨j, a2⟩, _, a4, a5⟩ := (mlyInst_iff r ds p).1 hp
  rw [mlyInst_iff, mlyInst_iff, sameKind_reseed a1, timeExp_reseed a1 a5,
    grid_reseed (pIdx ds) (pIdx p) (pIdx x) j r.inter (by have := hr.inter; omega) a2 hx]
  apply and_congr Iff.rfl; apply and_congr Iff.rfl; apply and_congr Iff.rfl
  apply and_congr ?_ Iff.rfl
  unfold MlyDate at *
  by_cases c1 : r.dom ≠ []
  · rw [if_pos c1, if_pos c1]
  · rw [if_neg c1] at a4; rw [if_neg c1, if_neg c1]
    by_cases c2 : r.dow ≠ []
    · rw [if_pos c2, if_pos c2]
    · rw [if_neg c2] at a4; rw [if_neg c2, if_neg c2, a4]

/-- BYSETPOS looks at the instances of one period only -/
theorem setpos_reseed (r : Rule) (ds p x : Inst)
    (h : ∀ y, periodOf r.freq y = periodOf r.freq x → (Instance r p y ↔ Instance r ds y)) :
    SetposOk r p x ↔ SetposOk r ds x := by
  have key : ∀ (C : Inst → Prop) (l : List Inst),
      (∀ y, y ∈ l ↔ Instance r p y ∧ periodOf r.freq y = periodOf r.freq x ∧ C y) ↔
      (∀ y, y ∈ l ↔ Instance r ds y ∧ periodOf r.freq y = periodOf r.freq x ∧ C y) := by
    intro C l
    apply forall_congr'; intro y
    apply iff_congr Iff.rfl
    constructor
    · rintro ⟨a, b, c⟩; exact ⟨(h y b).1 a, b, c⟩
    · rintro ⟨a, b, c⟩; exact ⟨(h y b).2 a, b, c⟩
  unfold SetposOk
  apply or_congr Iff.rfl
  apply exists_congr; intro n
  apply and_congr Iff.rfl
  apply exists_congr; intro before
  apply exists_congr; intro after
  rw [key (fun y => absOf y < absOf x) before, key (fun y => absOf x < absOf y) after]

/-- L4 (MONTHLY), BYSETPOS: the same for `SetposOk` (`hf`: the rule's frequency is MONTHLY) -/
theorem mlySetpos_reseed (r : Rule) (ds p x : Inst) (hr : WfRule r) (hf : r.freq = 2) (hp : MonthlyInst r ds p)
    (hxm : 1 ≤ x.m ∧ x.m ≤ 12) (hx : pIdx p ≤ pIdx x) : SetposOk r p x ↔ SetposOk r ds x := by
  apply setpos_reseed
  intro y hy
  rw [instance_mly r p y hf, instance_mly r ds y hf]
  rw [period_mly r y hf, period_mly r x hf] at hy
  by_cases hym : 1 ≤ y.m ∧ y.m ≤ 12
  · obtain ⟨e1, e2⟩ := pIdx_of_period hym hxm hy
    exact mlyInst_reseed r ds p y hr hp (by unfold pIdx at hx ⊢; rw [e1, e2]; exact hx)
  · constructor
    · intro hi; exact absurd ⟨hi.1.1, hi.1.2.1⟩ hym
    · intro hi; exact absurd ⟨hi.1.1, hi.1.2.1⟩ hym

/-- C01 across a refill, soundness: every instant written from a seed that is an instance of (ds, rule) is an instance
of (ds, rule) chosen by BYSETPOS -/
theorem fillMly_sound_reseed (r : Rule) (ds p : Inst) (n : Nat) (l : List Inst) (hr : WfRule r) (hp : WfInst p)
    (hn : n ≤ 64) (hy : 1901 ≤ p.y) (hsup : MlySup r) (hsh : r.shift = 0)
    (hf : r.pos ≠ [] → r.freq = 2) (hseed : MonthlyInst r ds p) (h : fillMly r p n = some l) :
    ∀ x ∈ l, MonthlyInst r ds x ∧ SetposOk r ds x := by
  intro x hx
  obtain ⟨h1, h2⟩ := fillMly_sound_all r p n l hr hp hn hy hsup hsh hf h x hx
  obtain ⟨b1, ⟨k, hk⟩, _⟩ := (mlyInst_iff r p x).1 h1
  have hidx : pIdx p ≤ pIdx x := by rw [hk]; omega
  refine ⟨(mlyInst_reseed r ds p x hr hseed hidx).1 h1, ?_⟩
  by_cases hpos : r.pos = []
  · exact Or.inl hpos
  · exact (mlySetpos_reseed r ds p x hr (hf hpos) hseed ⟨b1.1, b1.2.1⟩ hidx).1 h2

/-- C01 across a refill, completeness: an occurrence of (ds, rule) at or after the seed, not after UNTIL and not after
2099 is in the result, or the result is full and all of it comes before that occurrence -/
theorem fillMly_complete_reseed (r : Rule) (ds p : Inst) (n : Nat) (l : List Inst) (hr : WfRule r) (hp : WfInst p)
    (hn : n ≤ 64) (hy : 1901 ≤ p.y) (hsup : MlySup r) (hsh : r.shift = 0)
    (hf : r.pos ≠ [] → r.freq = 2) (hseed : MonthlyInst r ds p) (hfp : MlyFirstPos r p) (h : fillMly r p n = some l)
    (x : Inst) (hx : MonthlyInst r ds x) (hsp : SetposOk r ds x) (hge : absOf p ≤ absOf x)
    (hle : ltP r.untl x = false) (hxy : x.y ≤ 2099) :
    x ∈ l ∨ (l.length = capOf r n ∧ ∀ z ∈ l, ltP z x = true) := by
  obtain ⟨a1, _⟩ := (mlyInst_iff r ds p).1 hseed
  have hk : SameKind p x := (sameKind_reseed a1).2 hx.1
  obtain ⟨g1, _, g3⟩ := ge_seed hp hy hk hxy hge
  have hpm := hp.month
  have hidx : pIdx p ≤ pIdx x := by
    by_cases c : pIdx p ≤ pIdx x
    · exact c
    · have := ltP_of_idx x p ⟨hk.1, hk.2.1, hxy⟩ ⟨hpm.1, hpm.2, g3⟩ (by omega)
      rw [g1] at this; cases this
  have hx' := (mlyInst_reseed r ds p x hr hseed hidx).2 hx
  have hsp' : SetposOk r p x := by
    by_cases hpos : r.pos = []
    · exact Or.inl hpos
    · exact (mlySetpos_reseed r ds p x hr (hf hpos) hseed ⟨hk.1, hk.2.1⟩ hidx).2 hsp
  exact fillMly_complete_all r p n l hr hp hn hy hsup hsh hf hfp h x hx' hsp' hge hle hxy

end Echse.Lemmas.RrMlyRfc
