/-
  Shared base of the proofs about the daily and the weekly filler (RrDlyOk, RrWlyOk):
  order keys for instants (`ltP` is the order of `ikey` for instants with equal `ms`), calendar facts,
  the month carry `carryMon` as a relation `Carry` with its order / composition / measure lemmas.
-/
import Echse.Spec.RrOk
import Echse.Model.RrDly
namespace Echse.Lemmas.RrOkBase
open Echse.Rrule Echse.Instant Echse.Spec.RrOk

/- (A hypothesis `TimeOk r p` -- no BYMINUTE / BYSECOND without BYHOUR on an all-day seed -- used to be defined here
for the weekly and daily filler theorems.  Since `make_enum` ignores BYHOUR / BYMINUTE / BYSECOND next to a DATE seed
(RFC 5545, 3.3.10) it is not needed any more: `fillWly_ok`, `fillDly_ok`.) -/

/-! ### order keys -/

def dkey (y m d : Nat) : Nat := (y * 256 + m) * 256 + d
def tkey (h mi s : Nat) : Nat := (((h + 1) % 256) * 256 + mi) * 64 + s
def ikey (z : Inst) : Nat := dkey z.y z.m z.d * 4194304 + tkey z.H z.M z.S

/-- all fields within their bit widths -/
structure InR (z : Inst) : Prop where
  y : z.y < 65536
  m : z.m < 256
  d : z.d < 256
  H : z.H < 256
  M : z.M < 256
  S : z.S < 64
  ms : z.ms < 1024

theorem ltP_key (a b : Inst) (ha : InR a) (hb : InR b) (hms : a.ms = b.ms) :
    ltP a b = true ↔ ikey a < ikey b := by
  obtain ⟨h1, h2, h3, h4, h5, h6, h7⟩ := ha
  obtain ⟨g1, g2, g3, g4, g5, g6, g7⟩ := hb
  simp only [ltP, decide_eq_true_eq, bump, Inst.pack, ikey, dkey, tkey, hms]
  omega

theorem ltP_key_false (a b : Inst) (ha : InR a) (hb : InR b) (hms : a.ms = b.ms) :
    ltP a b = false ↔ ikey b ≤ ikey a := by
  have h := ltP_key a b ha hb hms
  cases hl : ltP a b
  · simp only [hl, Bool.false_eq_true, false_iff] at h; simp only [true_iff]; omega
  · simp only [hl, true_iff] at h; simp only [Bool.true_eq_false, false_iff]; omega

/-! ### calendar facts -/

theorem ndom_bounds (y m : Nat) (h1 : 1 ≤ m) (h2 : m ≤ 12) : 28 ≤ getNdom y m ∧ getNdom y m ≤ 31 := by
  have : m = 1 ∨ m = 2 ∨ m = 3 ∨ m = 4 ∨ m = 5 ∨ m = 6 ∨ m = 7 ∨ m = 8 ∨ m = 9 ∨ m = 10 ∨ m = 11 ∨ m = 12 := by omega
  rcases this with h | h | h | h | h | h | h | h | h | h | h | h <;> subst h <;>
    simp only [getNdom, mdays, List.getD_cons_succ, List.getD_cons_zero] <;> split <;> omega

/-- days before month `m` in a leap year: `dayNo` never decreases along the month carry -/
def cum (m : Nat) : Nat := [0, 0, 31, 60, 91, 121, 152, 182, 213, 244, 274, 305, 335].getD m 0
def dayNo (y m d : Nat) : Nat := y * 366 + cum m + d

theorem cum_step (y m : Nat) (h1 : 1 ≤ m) (h2 : m < 12) : cum m + getNdom y m ≤ cum (m + 1) := by
  have : m = 1 ∨ m = 2 ∨ m = 3 ∨ m = 4 ∨ m = 5 ∨ m = 6 ∨ m = 7 ∨ m = 8 ∨ m = 9 ∨ m = 10 ∨ m = 11 := by omega
  rcases this with h | h | h | h | h | h | h | h | h | h | h <;> subst h <;>
    simp only [cum, getNdom, mdays, List.getD_cons_succ, List.getD_cons_zero] <;> split <;> omega

theorem cum_le (m : Nat) (h1 : 1 ≤ m) (h2 : m ≤ 12) : cum m ≤ 335 ∧ (m = 12 → cum m = 335) ∧ (m = 1 → cum m = 0) := by
  have : m = 1 ∨ m = 2 ∨ m = 3 ∨ m = 4 ∨ m = 5 ∨ m = 6 ∨ m = 7 ∨ m = 8 ∨ m = 9 ∨ m = 10 ∨ m = 11 ∨ m = 12 := by omega
  rcases this with h | h | h | h | h | h | h | h | h | h | h | h <;> subst h <;> decide

theorem wday_range (y m d : Nat) : 1 ≤ ymdGetWday y m d ∧ ymdGetWday y m d ≤ 7 := by
  have key : ∀ r : Nat, 1 ≤ (if r % 7 = 0 then 7 else r % 7) ∧ (if r % 7 = 0 then 7 else r % 7) ≤ 7 := by
    intro r; split <;> omega
  unfold ymdGetWday
  exact key _

/-- a real day of a real month -/
def VD (y m d : Nat) : Prop := 1 ≤ m ∧ m ≤ 12 ∧ 1 ≤ d ∧ d ≤ getNdom y m

theorem VD.d31 {y m d : Nat} (h : VD y m d) : d ≤ 31 := by
  have := ndom_bounds y m h.1 h.2.1
  have := h.2.2.2
  omega

/-! ### the month carry as a relation -/

/-- the month carry without the `unsigned int` wrap of the year (which `pot` excludes) -/
def nxY (y m : Nat) : Nat := if m + 1 > 12 then y + 1 else y
def nxM (m : Nat) : Nat := if m + 1 > 12 then 1 else m + 1

inductive Carry : Nat → Nat → Nat → Nat → Nat → Nat → Prop
  | done {y m d : Nat} : d ≤ getNdom y m → Carry y m d y m d
  | step {y m d y2 m2 d2 : Nat} : d > getNdom y m →
      Carry (nxY y m) (nxM m) (d - getNdom y m) y2 m2 d2 → Carry y m d y2 m2 d2

theorem nxM_range (m : Nat) (h1 : 1 ≤ m) (h2 : m ≤ 12) : 1 ≤ nxM m ∧ nxM m ≤ 12 := by
  unfold nxM; split <;> omega

/-- potential that bounds the year reached by a carry (no wrap of the `unsigned int` year) -/
def pot (y m d : Nat) : Nat := (y * 12 + m) * 28 + d

theorem step_facts (y m d : Nat) (h1 : 1 ≤ m) (h2 : m ≤ 12) (hd : d > getNdom y m) :
    pot (nxY y m) (nxM m) (d - getNdom y m) ≤ pot y m d ∧
    dayNo y m d ≤ dayNo (nxY y m) (nxM m) (d - getNdom y m) ∧
    y * 12 + m < nxY y m * 12 + nxM m := by
  have hb := ndom_bounds y m h1 h2
  unfold pot dayNo nxY nxM
  by_cases hm : m + 1 > 12
  · have hm12 : m = 12 := by omega
    have hc1 := (cum_le m h1 h2).2.1 hm12
    have hc2 := (cum_le 1 (by omega) (by omega)).2.2 rfl
    simp only [hm, if_true]
    rw [hc1, hc2]
    omega
  · have hcs := cum_step y m h1 (by omega)
    simp only [hm, if_false]
    omega

/-- `carryMon` never runs out of the fuel its callers pass, never takes the `goto fin` exit from a real month, and
computes `Carry` (the year does not wrap) -/
theorem carryMon_spec : ∀ (fuel y m d : Nat), 1 ≤ m → m ≤ 12 → d < fuel → pot y m d < 1000000000000 →
    ∃ y2 m2 d2, carryMon fuel y m d (getNdom y m) = some (some (y2, m2, d2, getNdom y2 m2)) ∧ Carry y m d y2 m2 d2 := by
  intro fuel
  induction fuel with
  | zero => intro y m d _ _ h; omega
  | succ f ih =>
    intro y m d h1 h2 hf hp
    have hb := ndom_bounds y m h1 h2
    unfold carryMon
    by_cases hd : d > getNdom y m
    · have hm0 : ¬ getNdom y m = 0 := by omega
      simp only [hd, hm0, if_true, if_false]
      have hn := nxM_range m h1 h2
      have hs := step_facts y m d h1 h2 hd
      obtain ⟨y2, m2, d2, he, hc⟩ := ih (nxY y m) (nxM m) (d - getNdom y m) hn.1 hn.2 (by omega) (by omega)
      refine ⟨y2, m2, d2, ?_, Carry.step hd hc⟩
      rw [← he]
      have hw : (y + 1) % u32 = y + 1 := by
        unfold pot at hp; unfold u32; omega
      unfold nxY nxM
      rw [hw]
      split <;> rfl
    · simp only [hd, if_false]
      exact ⟨y, m, d, rfl, Carry.done (by omega)⟩

theorem Carry.props {y m d y2 m2 d2 : Nat} (hc : Carry y m d y2 m2 d2) :
    1 ≤ m → m ≤ 12 → 1 ≤ d →
    VD y2 m2 d2 ∧ pot y2 m2 d2 ≤ pot y m d ∧ dayNo y m d ≤ dayNo y2 m2 d2 ∧
    ((y2 = y ∧ m2 = m ∧ d2 = d) ∨ (getNdom y m < d ∧ y * 12 + m < y2 * 12 + m2)) := by
  induction hc with
  | done h =>
    intro h1 h2 h3
    exact ⟨⟨h1, h2, h3, h⟩, Nat.le_refl _, Nat.le_refl _, Or.inl ⟨rfl, rfl, rfl⟩⟩
  | @step y m d y2 m2 d2 hd _ ih =>
    intro h1 h2 h3
    have hb := ndom_bounds y m h1 h2
    have hn := nxM_range m h1 h2
    have hpot := step_facts y m d h1 h2 hd
    obtain ⟨hv, hp2, hdn, _⟩ := ih hn.1 hn.2 (by omega)
    exact ⟨hv, by omega, by omega, Or.inr ⟨hd, by omega⟩⟩

theorem Carry.comp {y m D y2 m2 d2 : Nat} (hc : Carry y m D y2 m2 d2) (b y3 m3 d3 : Nat)
    (h2 : Carry y2 m2 (d2 + b) y3 m3 d3) : Carry y m (D + b) y3 m3 d3 := by
  induction hc with
  | done h => exact h2
  | @step y m d y2 m2 d2 hd _ ih =>
    refine Carry.step (by omega) ?_
    have : d + b - getNdom y m = d - getNdom y m + b := by omega
    rw [this]
    exact ih h2

theorem dkey_lt_of_ym {y m d y3 m3 d3 : Nat} (hm : 1 ≤ m ∧ m ≤ 12) (hm3 : 1 ≤ m3 ∧ m3 ≤ 12) (hd : d ≤ 255)
    (h : y * 12 + m < y3 * 12 + m3) : dkey y m d < dkey y3 m3 d3 := by
  unfold dkey; omega

/-- the normalised date is strictly monotone in the day offset -/
theorem Carry.mono {y m D y2 m2 d2 : Nat} (hc : Carry y m D y2 m2 d2) :
    ∀ (D' y3 m3 d3 : Nat), Carry y m D' y3 m3 d3 → D < D' → 1 ≤ m → m ≤ 12 → 1 ≤ D →
    dkey y2 m2 d2 < dkey y3 m3 d3 := by
  induction hc with
  | @done y m d h =>
    intro D' y3 m3 d3 h2 hlt h1 h12 hD
    have hb := ndom_bounds y m h1 h12
    obtain ⟨hv, _, _, hor⟩ := h2.props h1 h12 (by omega)
    rcases hor with ⟨e1, e2, e3⟩ | ⟨_, hym⟩
    · subst e1 e2 e3; unfold dkey; omega
    · exact dkey_lt_of_ym ⟨h1, h12⟩ ⟨hv.1, hv.2.1⟩ (by omega) hym
  | @step y m d y2 m2 d2 hd _ ih =>
    intro D' y3 m3 d3 h2 hlt h1 h12 hD
    have hb := ndom_bounds y m h1 h12
    have hn := nxM_range m h1 h12
    cases h2 with
    | done h => omega
    | step hd' h2' => exact ih _ _ _ _ h2' (by omega) hn.1 hn.2 (by omega)

end Echse.Lemmas.RrOkBase
