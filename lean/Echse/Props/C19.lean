/-
  C19 — the small-integer containers behave as sets.

  For every insertion sequence over the documented range:
    * iteration (the callers' loop `for (i = 0; (v = next(&i, bi), i);)`) terminates
      within `range + 2` calls (signed containers: `2·range + 3`, i.e. the fuel given
      in each statement) and yields exactly the inserted values, each once,
      in the container's order;
    * the membership test agrees with "was inserted".
  Statements only; helper lemmas live in Echse/Lemmas.
-/
import Echse.Lemmas.Bui
import Echse.Lemmas.Bi
import Echse.Lemmas.Big
namespace C19
open Echse.Bitint

/-- `bituint31_t`: iteration after inserting `xs` (values 0..30). -/
theorem bui31_iterate (xs : List Nat) (h : ∀ v ∈ xs, v ≤ 30) :
    buiIterate 32 (xs.foldl (assBui 32) 0) 33 0 = some ((List.range 31).filter (fun j => decide (j ∈ xs))) :=
  buiIterate_of_R 32 (by omega) xs _ (fun v hv => by have := h v hv; omega)
    (BuiR_insertAll 32 (by omega) xs (fun v hv => by have := h v hv; omega))

/-- `bituint31_t`: membership. -/
theorem bui31_member (xs : List Nat) (x : Nat) (h : ∀ v ∈ xs, v ≤ 30) :
    buiHasBit (xs.foldl (assBui 32) 0) x = decide (x ∈ xs) :=
  buiHasBit_of_R 32 xs _ x (BuiR_insertAll 32 (by omega) xs (fun v hv => by have := h v hv; omega))

/-- `bituint63_t`: iteration after inserting `xs` (values 0..62). -/
theorem bui63_iterate (xs : List Nat) (h : ∀ v ∈ xs, v ≤ 62) :
    buiIterate 64 (xs.foldl (assBui 64) 0) 65 0 = some ((List.range 63).filter (fun j => decide (j ∈ xs))) :=
  buiIterate_of_R 64 (by omega) xs _ (fun v hv => by have := h v hv; omega)
    (BuiR_insertAll 64 (by omega) xs (fun v hv => by have := h v hv; omega))

/-- the result list really is "each inserted value exactly once and nothing else". -/
theorem canon_unsigned_set (n : Nat) (xs : List Nat) (h : ∀ v ∈ xs, v < n) :
    let r := (List.range n).filter (fun j => decide (j ∈ xs))
    r.Nodup ∧ ∀ x, x ∈ r ↔ x ∈ xs := by
  intro r
  refine ⟨List.Nodup.sublist List.filter_sublist List.nodup_range, ?_⟩
  intro x
  simp only [r, List.mem_filter, List.mem_range, decide_eq_true_eq]
  exact ⟨fun a => a.2, fun a => ⟨h x a, a⟩⟩

-- hypotheses are inhabited by non-trivial sequences (zero, duplicates, top of range)
example : (∀ v ∈ [0, 30, 5, 0], v ≤ 30) := by decide
example : buiIterate 32 ([0, 30, 5, 0].foldl (assBui 32) 0) 33 0 = some [0, 5, 30] := by decide

/-! ### signed containers -/

/-- `bitint31_t`: iteration after inserting `xs` (values -31..31) yields `canonS 31 xs`:
0, then the positives ascending, then the negatives by increasing magnitude. -/
theorem bi31_iterate (xs : List Int) (h : ∀ v ∈ xs, -31 ≤ v ∧ v ≤ 31) :
    biIterate 32 (xs.foldl (assBi 32) ⟨0, 0⟩) 65 0 = some (canonS 31 xs) :=
  biIterate_of_R 32 (by omega) xs _ (fun v hv => by have := h v hv; omega)
    (BiR_insertAll 32 (by omega) xs (fun v hv => by have := h v hv; omega)) 65 (by omega)

/-- `bitint31_t`: membership. -/
theorem bi31_member (xs : List Int) (x : Int) (h : ∀ v ∈ xs, -31 ≤ v ∧ v ≤ 31)
    (hx : -31 ≤ x ∧ x ≤ 31) :
    biHasBit 32 (xs.foldl (assBi 32) ⟨0, 0⟩) x = decide (x ∈ xs) :=
  biHasBit_of_R 32 (by omega) xs _ x (fun v hv => by have := h v hv; omega) (by omega)
    (BiR_insertAll 32 (by omega) xs (fun v hv => by have := h v hv; omega))

/-- `bitint63_t`: iteration after inserting `xs` (values -63..63). -/
theorem bi63_iterate (xs : List Int) (h : ∀ v ∈ xs, -63 ≤ v ∧ v ≤ 63) :
    biIterate 64 (xs.foldl (assBi 64) ⟨0, 0⟩) 129 0 = some (canonS 63 xs) :=
  biIterate_of_R 64 (by omega) xs _ (fun v hv => by have := h v hv; omega)
    (BiR_insertAll 64 (by omega) xs (fun v hv => by have := h v hv; omega)) 129 (by omega)

/-- `bitint63_t`: membership. -/
theorem bi63_member (xs : List Int) (x : Int) (h : ∀ v ∈ xs, -63 ≤ v ∧ v ≤ 63)
    (hx : -63 ≤ x ∧ x ≤ 63) :
    biHasBit 64 (xs.foldl (assBi 64) ⟨0, 0⟩) x = decide (x ∈ xs) :=
  biHasBit_of_R 64 (by omega) xs _ x (fun v hv => by have := h v hv; omega) (by omega)
    (BiR_insertAll 64 (by omega) xs (fun v hv => by have := h v hv; omega))

/-- `bitint383_t`: iteration after inserting `xs` (values -383..383), in native mode
(at most 12 distinct values before the 13th insertion) and in degraded bitset mode alike. -/
theorem bi383_iterate (xs : List Int) (h : ∀ v ∈ xs, -383 ≤ v ∧ v ≤ 383) :
    bigIterate 12 (xs.foldl (assBig 12) Big.empty) 770 0 = some (canonS 383 xs) :=
  bigIterate_of_R 12 (by omega) xs _ (fun v hv => by have := h v hv; omega)
    (BigR_insertAll 12 (by omega) xs (fun v hv => by have := h v hv; omega)) 770 (by omega)

/-- `bitint447_t`: iteration after inserting `xs` (values -447..447). -/
theorem bi447_iterate (xs : List Int) (h : ∀ v ∈ xs, -447 ≤ v ∧ v ≤ 447) :
    bigIterate 14 (xs.foldl (assBig 14) Big.empty) 900 0 = some (canonS 447 xs) :=
  bigIterate_of_R 14 (by omega) xs _ (fun v hv => by have := h v hv; omega)
    (BigR_insertAll 14 (by omega) xs (fun v hv => by have := h v hv; omega)) 900 (by omega)

/-- the signed result list really is "each inserted value exactly once and nothing else". -/
theorem canon_signed_set (m : Nat) (xs : List Int) (h : ∀ v ∈ xs, -(m:Int) ≤ v ∧ v ≤ m) :
    (canonS (m+1) xs).Nodup ∧ ∀ x, x ∈ canonS (m+1) xs ↔ x ∈ xs :=
  ⟨canonS_nodup (m+1) xs,
   mem_canonS (m+1) xs (fun v hv => by have := h v hv; omega)⟩

/-- same, at exactly the bound used in the iteration theorems (`canonS 31`, `canonS 383`, …). -/
theorem canon_signed_set' (m : Nat) (xs : List Int) (h : ∀ v ∈ xs, -(m:Int) ≤ v ∧ v ≤ m) :
    (canonS m xs).Nodup ∧ ∀ x, x ∈ canonS m xs ↔ x ∈ xs :=
  ⟨canonS_nodup m xs, mem_canonS m xs h⟩

-- non-trivial concrete instances (zero, duplicates, both ends of the range, degradation)
example : (∀ v ∈ [0, -5, 31, -31], (-31:Int) ≤ v ∧ v ≤ 31) := by decide
example : canonS 31 [0, -5, 31, -31] = [0, 31, -5, -31] := by decide
example : biIterate 32 ([0, -5, 31, -31].foldl (assBi 32) ⟨0, 0⟩) 65 0 = some [0, 31, -5, -31] := by decide
example : biIterate 32 ([-31, -1, -31, -7].foldl (assBi 32) ⟨0, 0⟩) 65 0 = some [-1, -7, -31] := by decide
example : biIterate 32 ([-31].foldl (assBi 32) ⟨0, 0⟩) 65 0 = some [-31] := by decide
example : biIterate 64 ([63, -63, 0, 1, -1].foldl (assBi 64) ⟨0, 0⟩) 129 0 = some [0, 1, 63, -1, -63] := by decide
example : biHasBit 32 ([0, -5, 31, -31].foldl (assBi 32) ⟨0, 0⟩) (-31) = true := by decide
example : biHasBit 32 ([0, -5, 31, -31].foldl (assBi 32) ⟨0, 0⟩) (-30) = false := by decide
-- native mode (8 values ≤ 12) …
example : bigIterate 12 ([1, 2, 3, -4, 5, 383, -383, -1].foldl (assBig 12) Big.empty) 770 0
    = some [1, 2, 3, 5, 383, -1, -4, -383] := by decide
-- … and degraded to bitset mode by the 13th insertion (16 values, 383 followed by negatives)
example : bigIterate 12 ([1, 2, 3, 4, 5, 6, 7, 8, 9, 10, 11, 383, -1, -383, 0, -200].foldl (assBig 12) Big.empty) 770 0
    = some [0, 1, 2, 3, 4, 5, 6, 7, 8, 9, 10, 11, 383, -1, -200, -383] := by decide +kernel
example : bigIterate 14 ([447, -447, 0, 5, -5, 5, 1, 2, 3, 4, 6, 7, 8, 9, 10, 11, 12].foldl (assBig 14) Big.empty) 900 0
    = some [0, 1, 2, 3, 4, 5, 6, 7, 8, 9, 10, 11, 12, 447, -5, -447] := by decide +kernel

end C19
