/-
  C01 for the YEARLY / MONTHLY filler models, part 2: what a fold of `pstep` over a list of instants does
  (`fold_mono`, `fold_mem`, `fold_hit`, `fold_fin`), and that over an ascending list it cannot miss an instant that
  passes the tests (`fold_complete`).
-/
import Echse.Lemmas.RrCandRfc1
namespace Echse.Lemmas.RrCandRfc
open Echse.Rrule Echse.Instant Echse.Spec.RrOk Echse.Lemmas.RrCandOk

def Stopped (k : FillCtx) (st : FillSt) : Prop := st.fin = true ∨ (!decide (st.res < k.nti)) = true

theorem pstep_cases (k : FillCtx) (st : FillSt) (x : Inst) :
    (pstep k st x = st ∧ (Stopped k st ∨ (ltP k.untl x = false ∧ ltP x k.proto = true))) ∨
    (pstep k st x = { st with fin := true } ∧ ¬ Stopped k st ∧ ltP k.untl x = true) ∨
    (pstep k st x = { st with hit := true, out := x :: st.out, res := st.res + 1 } ∧ ¬ Stopped k st ∧
      ltP k.untl x = false ∧ ltP x k.proto = false) := by
  unfold pstep Stopped
  by_cases c1 : st.fin = true ∨ (!decide (st.res < k.nti)) = true
  · rw [if_pos c1]; exact Or.inl ⟨rfl, Or.inl c1⟩
  · rw [if_neg c1]
    by_cases c2 : ltP k.untl x = true
    · rw [if_pos c2]; exact Or.inr (Or.inl ⟨rfl, c1, c2⟩)
    · rw [if_neg c2]
      have c2' : ltP k.untl x = false := by cases h : ltP k.untl x; rfl; exact absurd h c2
      by_cases c3 : ltP x k.proto = true
      · rw [if_pos c3]; exact Or.inl ⟨rfl, Or.inr ⟨c2', c3⟩⟩
      · rw [if_neg c3]
        have c3' : ltP x k.proto = false := by cases h : ltP x k.proto; rfl; exact absurd h c3
        exact Or.inr (Or.inr ⟨rfl, c1, c2', c3'⟩)

theorem fold_mono (k : FillCtx) (E : List Inst) (st : FillSt) (z : Inst) (hz : z ∈ st.out) :
    z ∈ (E.foldl (pstep k) st).out := by
  induction E generalizing st with
  | nil => exact hz
  | cons x E ih =>
    rw [List.foldl_cons]
    apply ih
    rcases pstep_cases k st x with ⟨e, _⟩ | ⟨e, _⟩ | ⟨e, _⟩ <;> rw [e]
    · exact hz
    · exact hz
    · exact List.mem_cons_of_mem _ hz

theorem fold_mem (k : FillCtx) (E : List Inst) (st : FillSt) (z : Inst) (hz : z ∈ (E.foldl (pstep k) st).out) :
    z ∈ st.out ∨ (z ∈ E ∧ ltP k.untl z = false ∧ ltP z k.proto = false) := by
  induction E generalizing st with
  | nil => exact Or.inl hz
  | cons x E ih =>
    rw [List.foldl_cons] at hz
    rcases ih _ hz with h | ⟨h1, h2⟩
    · rcases pstep_cases k st x with ⟨e, _⟩ | ⟨e, _⟩ | ⟨e, _, t1, t2⟩ <;> rw [e] at h
      · exact Or.inl h
      · exact Or.inl h
      · rcases List.mem_cons.mp h with h | h
        · subst h; exact Or.inr ⟨List.mem_cons_self, t1, t2⟩
        · exact Or.inl h
    · exact Or.inr ⟨List.mem_cons_of_mem _ h1, h2⟩

/-- `res` counts what is in the cache, and never goes beyond `nti` -/
theorem fold_base (k : FillCtx) (E : List Inst) (st : FillSt) (h1 : st.res = st.out.length) (h2 : st.res ≤ k.nti) :
    (E.foldl (pstep k) st).res = (E.foldl (pstep k) st).out.length ∧ (E.foldl (pstep k) st).res ≤ k.nti := by
  induction E generalizing st with
  | nil => exact ⟨h1, h2⟩
  | cons x E ih =>
    rw [List.foldl_cons]
    rcases pstep_cases k st x with ⟨e, _⟩ | ⟨e, _⟩ | ⟨e, ns, _⟩ <;> rw [e]
    · exact ih st h1 h2
    · exact ih _ h1 h2
    · apply ih
      · show st.res + 1 = (x :: st.out).length
        rw [List.length_cons, h1]
      · show st.res + 1 ≤ k.nti
        unfold Stopped at ns
        have : st.res < k.nti := by
          cases hd : decide (st.res < k.nti)
          · rw [hd] at ns; exact absurd (Or.inr rfl) ns
          · exact of_decide_eq_true hd
        omega

/-- a period either writes something and says so (`hit`), or changes nothing in the cache -/
theorem fold_hit (k : FillCtx) (E : List Inst) (st : FillSt) :
    ((E.foldl (pstep k) st).hit = true ∧ st.res ≤ (E.foldl (pstep k) st).res) ∨
      ((E.foldl (pstep k) st).hit = st.hit ∧ (E.foldl (pstep k) st).out = st.out ∧
        (E.foldl (pstep k) st).res = st.res) := by
  induction E generalizing st with
  | nil => exact Or.inr ⟨rfl, rfl, rfl⟩
  | cons x E ih =>
    rw [List.foldl_cons]
    rcases pstep_cases k st x with ⟨e, _⟩ | ⟨e, _⟩ | ⟨e, _⟩ <;> rw [e]
    · exact ih st
    · exact ih _
    · rcases ih { st with hit := true, out := x :: st.out, res := st.res + 1 } with ⟨h, h'⟩ | ⟨h, _, h'⟩
      · exact Or.inl ⟨h, by have : st.res + 1 ≤ _ := h'; omega⟩
      · exact Or.inl ⟨h, by rw [h']; show st.res ≤ st.res + 1; omega⟩

/-- a period says `fin` only for an instant after UNTIL -/
theorem fold_fin (k : FillCtx) (E : List Inst) (st : FillSt) (h : (E.foldl (pstep k) st).fin = true) :
    st.fin = true ∨ ∃ y ∈ E, ltP k.untl y = true := by
  induction E generalizing st with
  | nil => exact Or.inl h
  | cons x E ih =>
    rw [List.foldl_cons] at h
    rcases ih _ h with h | ⟨y, hy, hu⟩
    · rcases pstep_cases k st x with ⟨e, _⟩ | ⟨e, _, t⟩ | ⟨e, _⟩ <;> rw [e] at h
      · exact Or.inl h
      · exact Or.inr ⟨x, List.mem_cons_self, t⟩
      · exact Or.inl h
    · exact Or.inr ⟨y, List.mem_cons_of_mem _ hy, hu⟩

theorem ltP_irrefl (a : Inst) : ltP a a = false := by
  unfold ltP; exact decide_eq_false (Nat.lt_irrefl _)

/-- after UNTIL stays after UNTIL -/
theorem ltP_untl_trans {u a b : Inst} (h1 : ltP u a = true) (h2 : ltP a b = true) : ltP u b = true := ltP_trans h1 h2

/-- over an ascending list that comes after everything in the cache, an instant that passes the tests is written,
or the cache is full and all of it comes before that instant -/
theorem fold_complete (k : FillCtx) (E : List Inst) (st : FillSt) (hE : E.Pairwise (fun a b => ltP a b = true))
    (hprev : ∀ z ∈ st.out, ∀ y ∈ E, ltP z y = true) (hfin : st.fin = true → ∀ y ∈ E, ltP k.untl y = true)
    (x : Inst) (hx : x ∈ E) (hu : ltP k.untl x = false) (hp : ltP x k.proto = false) :
    x ∈ (E.foldl (pstep k) st).out ∨
      ((!decide ((E.foldl (pstep k) st).res < k.nti)) = true ∧ ∀ z ∈ (E.foldl (pstep k) st).out, ltP z x = true) := by
  induction E generalizing st with
  | nil => cases hx
  | cons y E ih =>
    rw [List.foldl_cons]
    obtain ⟨hy, hE'⟩ := List.pairwise_cons.mp hE
    rcases pstep_cases k st y with ⟨e, hs | ⟨t1, t2⟩⟩ | ⟨e, ns, t⟩ | ⟨e, ns, t1, t2⟩ <;> rw [e]
    · -- stopped
      rw [foldl_pstep_stop k E st hs]
      rcases hs with hs | hs
      · have := hfin hs x hx; rw [hu] at this; cases this
      · exact Or.inr ⟨hs, fun z hz => hprev z hz x hx⟩
    · -- y is before the seed
      rcases List.mem_cons.mp hx with h | h
      · subst h; rw [hp] at t2; cases t2
      · exact ih st hE' (fun z hz w hw => hprev z hz w (List.mem_cons_of_mem _ hw))
          (fun hf w hw => hfin hf w (List.mem_cons_of_mem _ hw)) h
    · -- y is after UNTIL
      rcases List.mem_cons.mp hx with h | h
      · subst h; rw [hu] at t; cases t
      · have := ltP_untl_trans t (hy x h); rw [hu] at this; cases this
    · -- y is written
      rcases List.mem_cons.mp hx with h | h
      · subst h; exact Or.inl (fold_mono k E _ x List.mem_cons_self)
      · refine ih _ hE' ?_ ?_ h
        · intro z hz w hw
          rcases List.mem_cons.mp hz with hz | hz
          · subst hz; exact hy w hw
          · exact hprev z hz w (List.mem_cons_of_mem _ hw)
        · intro hf w hw
          exact hfin hf w (List.mem_cons_of_mem _ hw)

end Echse.Lemmas.RrCandRfc
