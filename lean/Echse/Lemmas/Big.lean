/-
  `bitint383_t` / `bitint447_t`: the native sorted-list mode (`assInt`), the degraded
  bitset mode (`assBs`), representation invariant `BigR`, its preservation by `assBig`,
  and what iteration yields under it.
-/
import Echse.Lemmas.Bi
namespace Echse.Bitint

/-! ### the native (sorted list) mode -/

instance (a b : Int) : Decidable (sLt a b) :=
  inferInstanceAs (Decidable (if b ≥ 0 then a ≥ 0 ∧ a < b else a > b))

theorem sLt_total (a b : Int) : a ≠ b → ¬ sLt a b → sLt b a := by
  unfold sLt; split <;> split <;> omega

theorem assInt_cons (v : Int) (vs : List Int) (x : Int) :
    assInt (v :: vs) x = if sLt v x then v :: assInt vs x else if v = x then v :: vs else x :: v :: vs := rfl

theorem assInt_mem (x : Int) : ∀ (vals : List Int) (a : Int), a ∈ assInt vals x ↔ a ∈ vals ∨ a = x := by
  intro vals
  induction vals with
  | nil => intro a; simp [assInt]
  | cons v vs ih =>
    intro a
    rw [assInt_cons]
    split
    · simp only [List.mem_cons, ih a]
      constructor
      · rintro (h | h | h) <;> simp [h]
      · rintro ((h | h) | h) <;> simp [h]
    · split
      · rename_i e
        subst e
        simp only [List.mem_cons]
        constructor
        · intro h; exact Or.inl h
        · rintro (h | h)
          · exact h
          · exact Or.inl h
      · simp only [List.mem_cons]
        constructor
        · rintro (h | h | h) <;> simp [h]
        · rintro ((h | h) | h) <;> simp [h]

theorem assInt_sorted (x : Int) : ∀ (vals : List Int), vals.Pairwise sLt → (assInt vals x).Pairwise sLt := by
  intro vals
  induction vals with
  | nil => intro _; simp [assInt]
  | cons v vs ih =>
    intro h
    rw [List.pairwise_cons] at h
    rw [assInt_cons]
    split
    · rename_i hlt
      rw [List.pairwise_cons]
      refine ⟨?_, ih h.2⟩
      intro a ha
      rcases (assInt_mem x vs a).mp ha with e | e
      · exact h.1 a e
      · subst e; exact hlt
    · split
      · exact List.pairwise_cons.mpr h
      · rename_i hlt hne
        have hxv : sLt x v := sLt_total v x hne hlt
        rw [List.pairwise_cons]
        refine ⟨?_, List.pairwise_cons.mpr h⟩
        intro a ha
        rcases List.mem_cons.mp ha with e | e
        · subst e; exact hxv
        · exact sLt_trans _ _ _ hxv (h.1 a e)

theorem assInt_length (x : Int) : ∀ (vals : List Int), (assInt vals x).length ≤ vals.length + 1 := by
  intro vals
  induction vals with
  | nil => simp [assInt]
  | cons v vs ih =>
    rw [assInt_cons]
    split
    · simp only [List.length_cons]; omega
    · split <;> simp only [List.length_cons] <;> omega

theorem bigIterate_succ (n : Nat) (bi : Big) (f iter : Nat) :
    bigIterate n bi (f+1) iter =
      if (bigNext n iter bi).2 = 0 then some []
      else (bigIterate n bi f (bigNext n iter bi).2).map ((bigNext n iter bi).1 :: ·) := rfl

theorem bigNext_native (n iter : Nat) (vals : List Int) :
    bigNext n iter (.native vals) =
      if iter ≥ vals.length then (0, 0) else (vals.getD iter 0, iter + 1) := rfl

theorem bigIterate_native (n : Nat) (vals : List Int) :
    ∀ fuel iter, (vals.length - iter) + 1 ≤ fuel →
      bigIterate n (.native vals) fuel iter = some (vals.drop iter) := by
  intro fuel
  induction fuel with
  | zero => intro iter h; omega
  | succ f ih =>
    intro iter hf
    rw [bigIterate_succ, bigNext_native]
    by_cases hc : iter ≥ vals.length
    · rw [if_pos hc, List.drop_eq_nil_of_le hc]; rfl
    · rw [if_neg hc]
      simp only []
      have hlt : iter < vals.length := by omega
      rw [if_neg (by omega), ih _ (by omega), List.drop_eq_getElem_cons hlt,
        List.getD_eq_getElem?_getD, List.getElem?_eq_getElem hlt]
      rfl

/-! ### the degraded (bitset) mode -/

def BsR (m : Nat) (xs : List Int) (P N : Nat) : Prop :=
  P % 2 = 1 ∧ P < 2^m ∧ N < 2^m ∧
  (∀ j : Nat, 1 ≤ j → P.testBit j = decide ((j:Int) ∈ xs)) ∧
  (∀ j : Nat, N.testBit j = decide (-(j:Int) ∈ xs))

theorem or_odd (a b : Nat) (ha : a % 2 = 1) : (a ||| b) % 2 = 1 := by
  have := Nat.or_mod_two_pow (a := a) (b := b) (n := 1)
  rw [Nat.pow_one, ha] at this
  rw [this]
  rcases Nat.mod_two_eq_zero_or_one b with h | h <;> rw [h] <;> rfl

theorem BsR_init (m : Nat) (hm : 1 ≤ m) : BsR m [] 1 0 := by
  refine ⟨rfl, ?_, Nat.two_pow_pos m, ?_, by simp⟩
  · exact Nat.one_lt_two_pow (by omega)
  · intro j hj
    have := Nat.testBit_two_pow (n := 0) (m := j)
    rw [Nat.pow_zero] at this
    rw [this]; simp; omega

theorem BsR_congr (m : Nat) (xs ys : List Int) (P N : Nat) (h : ∀ v, v ∈ xs ↔ v ∈ ys)
    (hr : BsR m xs P N) : BsR m ys P N := by
  obtain ⟨h1, h2, h3, h4, h5⟩ := hr
  refine ⟨h1, h2, h3, ?_, ?_⟩
  · intro j hj; rw [h4 j hj]; exact decide_eq_decide.mpr (h _)
  · intro j; rw [h5 j]; exact decide_eq_decide.mpr (h _)

theorem assBs_ok (m : Nat) (xs : List Int) (P N : Nat) (x : Int)
    (hx : -(m:Int) < x ∧ x < (m:Int)) (h : BsR m xs P N) :
    BsR m (xs ++ [x]) (assBs P N x).1 (assBs P N x).2 := by
  obtain ⟨h1, h2, h3, h4, h5⟩ := h
  unfold assBs
  by_cases hp : x > 0
  · have hpx : 2^x.toNat < 2^m := two_pow_lt _ _ (by omega)
    simp only [hp, if_true, Nat.one_shiftLeft]
    refine ⟨or_odd _ _ h1, Nat.or_lt_two_pow h2 hpx, h3, ?_, ?_⟩
    · intro j hj
      simp only [Nat.testBit_or, Nat.testBit_two_pow, h4 j hj, List.mem_append, List.mem_singleton]
      by_cases a : (j:Int) ∈ xs <;> by_cases b : (j:Int) = x <;> simp [a, b] <;> omega
    · intro j
      simp only [h5 j, List.mem_append, List.mem_singleton]
      have b : ¬ (-(j:Int) = x) := by omega
      simp [b]
  · have hpx : 2^(-x).toNat < 2^m := two_pow_lt _ _ (by omega)
    simp only [hp, if_false, Nat.one_shiftLeft]
    refine ⟨h1, h2, Nat.or_lt_two_pow h3 hpx, ?_, ?_⟩
    · intro j hj
      simp only [h4 j hj, List.mem_append, List.mem_singleton]
      have b : ¬ ((j:Int) = x) := by omega
      simp [b]
    · intro j
      simp only [Nat.testBit_or, Nat.testBit_two_pow, h5 j, List.mem_append, List.mem_singleton]
      by_cases a : -(j:Int) ∈ xs <;> by_cases b : -(j:Int) = x <;> simp [a, b] <;> omega

theorem assBs_foldl (m : Nat) :
    ∀ (vals xs : List Int) (pn : Nat × Nat), (∀ v ∈ vals, -(m:Int) < v ∧ v < (m:Int)) →
      BsR m xs pn.1 pn.2 →
      BsR m (xs ++ vals) (vals.foldl (fun (pn : Nat × Nat) v => assBs pn.1 pn.2 v) pn).1
        (vals.foldl (fun (pn : Nat × Nat) v => assBs pn.1 pn.2 v) pn).2 := by
  intro vals
  induction vals with
  | nil => intro xs pn _ h; simpa using h
  | cons y ys ih =>
    intro xs pn hys h
    have := ih (xs ++ [y]) (assBs pn.1 pn.2 y) (fun v hv => hys v (by simp [hv]))
      (assBs_ok m xs pn.1 pn.2 y (hys y (by simp)) h)
    simpa using this

/-! ### representation invariant -/

def BigR (n : Nat) (xs : List Int) : Big → Prop
  | .native vals => vals.length ≤ n ∧ vals.Pairwise sLt ∧ ∀ v, v ∈ vals ↔ v ∈ xs
  | .bits P N => BsR (32 * n) xs P N

theorem assBig_native (n : Nat) (vals : List Int) (x : Int) :
    assBig n (.native vals) x =
      if vals.length < n then .native (assInt vals x)
      else .bits
        (assBs (vals.foldl (fun (pn : Nat × Nat) v => assBs pn.1 pn.2 v) (1, 0)).1
               (vals.foldl (fun (pn : Nat × Nat) v => assBs pn.1 pn.2 v) (1, 0)).2 x).1
        (assBs (vals.foldl (fun (pn : Nat × Nat) v => assBs pn.1 pn.2 v) (1, 0)).1
               (vals.foldl (fun (pn : Nat × Nat) v => assBs pn.1 pn.2 v) (1, 0)).2 x).2 := rfl

theorem assBig_bits (n P N : Nat) (x : Int) :
    assBig n (.bits P N) x = .bits (assBs P N x).1 (assBs P N x).2 := rfl

theorem BigR_step (n : Nat) (hn : 1 ≤ n) (xs : List Int) (bi : Big) (x : Int)
    (hx : -((32 * n : Nat) : Int) < x ∧ x < ((32 * n : Nat) : Int))
    (hxs : ∀ v ∈ xs, -((32 * n : Nat) : Int) < v ∧ v < ((32 * n : Nat) : Int)) (h : BigR n xs bi) :
    BigR n (xs ++ [x]) (assBig n bi x) := by
  cases bi with
  | bits P N =>
    rw [assBig_bits]
    exact assBs_ok (32 * n) xs P N x hx h
  | native vals =>
    obtain ⟨h1, h2, h3⟩ := h
    rw [assBig_native]
    by_cases hl : vals.length < n
    · rw [if_pos hl]
      refine ⟨?_, assInt_sorted x vals h2, ?_⟩
      · have := assInt_length x vals; omega
      · intro v
        rw [assInt_mem, List.mem_append, List.mem_singleton, h3 v]
    · rw [if_neg hl]
      have hf := assBs_foldl (32 * n) vals [] (1, 0) (fun v hv => hxs v ((h3 v).mp hv))
        (BsR_init (32 * n) (by omega))
      rw [List.nil_append] at hf
      exact assBs_ok (32 * n) xs _ _ x hx (BsR_congr _ _ _ _ _ h3 hf)

theorem BigR_foldl (n : Nat) (hn : 1 ≤ n) :
    ∀ (ys xs : List Int) (bi : Big),
      (∀ v ∈ xs, -((32 * n : Nat) : Int) < v ∧ v < ((32 * n : Nat) : Int)) →
      (∀ v ∈ ys, -((32 * n : Nat) : Int) < v ∧ v < ((32 * n : Nat) : Int)) → BigR n xs bi →
      BigR n (xs ++ ys) (ys.foldl (assBig n) bi) := by
  intro ys
  induction ys with
  | nil => intro xs bi _ _ h; simpa using h
  | cons y ys ih =>
    intro xs bi hxs hys h
    have := ih (xs ++ [y]) (assBig n bi y)
      (by intro v hv; rcases List.mem_append.mp hv with a | a
          · exact hxs v a
          · simp at a; subst a; exact hys _ (by simp))
      (fun v hv => hys v (by simp [hv]))
      (BigR_step n hn xs bi y (hys y (by simp)) hxs h)
    simpa using this

theorem BigR_insertAll (n : Nat) (hn : 1 ≤ n) (xs : List Int)
    (hxs : ∀ v ∈ xs, -((32 * n : Nat) : Int) < v ∧ v < ((32 * n : Nat) : Int)) :
    BigR n xs (xs.foldl (assBig n) Big.empty) := by
  have := BigR_foldl n hn xs [] Big.empty (by simp) hxs ⟨by simp, by simp, by simp⟩
  simpa using this

/-! ### one call of `bigNext` in bitset mode, case by case -/

theorem bigNegs_none (n s N : Nat) (h : N >>> s = 0) : bigNegs n s N = (0, 0) := by
  unfold bigNegs
  simp only []
  rw [if_neg (by simp [h])]

theorem bigNegs_some (n s N : Nat) (h : N >>> s ≠ 0) :
    bigNegs n s N = (-((s + ctz (32 * n) (N >>> s) : Nat) : Int), 32 * n + (s + ctz (32 * n) (N >>> s) + 1)) := by
  unfold bigNegs
  simp only []
  rw [if_pos h]
  congr 1
  omega

/-- `bigNext` in bitset mode once the `0` case and the `iter = 0` start are out of the way -/
def bigNextB (n it P N : Nat) : Int × Nat :=
  if it < 32 * n then
    let b := P >>> it
    if b ≠ 0 then
      let r := it + ctz (32 * n) b
      ((r : Int), if r + 1 = 32 * n then r + 2 else r + 1)
    else bigNegs n 1 N
  else if it > 32 * n ∧ it < 64 * n then bigNegs n (it - 32 * n) N
  else (0, 0)

theorem bigNext_bits (n iter P N : Nat) :
    bigNext n iter (.bits P N) =
      if iter = 0 ∧ N % 2 = 1 then (0, 1) else bigNextB n (if iter = 0 then 1 else iter) P N := rfl

theorem bigNext_zero (n P N : Nat) (h0 : N % 2 = 1) : bigNext n 0 (.bits P N) = (0, 1) := by
  rw [bigNext_bits, if_pos ⟨rfl, h0⟩]

theorem bigNext_zero' (n P N : Nat) (h0 : N % 2 = 0) :
    bigNext n 0 (.bits P N) = bigNext n 1 (.bits P N) := by
  have hA : ¬ (0 = 0 ∧ N % 2 = 1) := by omega
  have hB : ¬ (1 = 0 ∧ N % 2 = 1) := by omega
  rw [bigNext_bits, bigNext_bits, if_neg hA, if_neg hB, if_pos rfl, if_neg (by omega : ¬ (1 = 0))]

theorem bigNext_nz (n P N iter : Nat) (h : iter ≠ 0) :
    bigNext n iter (.bits P N) = bigNextB n iter P N := by
  rw [bigNext_bits, if_neg (fun hc => h hc.1), if_neg h]

theorem bigNext_neg (n P N s : Nat) (hs : 1 ≤ s) (hsn : s < 32 * n) :
    bigNext n (32 * n + s) (.bits P N) = bigNegs n s N := by
  rw [bigNext_nz n P N (32 * n + s) (by omega)]
  unfold bigNextB
  rw [if_neg (by omega), if_pos (by omega), show 32 * n + s - 32 * n = s by omega]

theorem bigNext_end (n P N s : Nat) (hn : 1 ≤ n) (hs : 32 * n ≤ s) :
    bigNext n (32 * n + s) (.bits P N) = (0, 0) := by
  rw [bigNext_nz n P N (32 * n + s) (by omega)]
  unfold bigNextB
  rw [if_neg (by omega), if_neg (by omega)]

theorem bigNext_pos_none (n P N iter : Nat) (h1 : 1 ≤ iter) (hi : iter < 32 * n) (h : P >>> iter = 0) :
    bigNext n iter (.bits P N) = bigNegs n 1 N := by
  rw [bigNext_nz n P N iter (by omega)]
  unfold bigNextB
  simp only []
  rw [if_pos hi, if_neg (by simp [h])]

theorem bigNext_pos_some (n P N iter : Nat) (h1 : 1 ≤ iter) (hi : iter < 32 * n) (h : P >>> iter ≠ 0) :
    bigNext n iter (.bits P N) =
      (((iter + ctz (32 * n) (P >>> iter) : Nat) : Int),
        if iter + ctz (32 * n) (P >>> iter) + 1 = 32 * n then 32 * n + 1
        else iter + ctz (32 * n) (P >>> iter) + 1) := by
  rw [bigNext_nz n P N iter (by omega)]
  unfold bigNextB
  simp only []
  rw [if_pos hi, if_pos h]
  congr 1
  split <;> omega

/-! ### iteration in bitset mode -/

theorem bigIterate_neg (n P N : Nat) (hn : 1 ≤ n) (hN : N < 2^(32 * n)) :
    ∀ fuel s, 1 ≤ s → s ≤ 32 * n → (32 * n - s) + 1 ≤ fuel →
      bigIterate n (.bits P N) fuel (32 * n + s) =
        some ((setBits N s (32 * n)).map (fun (j : Nat) => -(j:Int))) := by
  intro fuel
  induction fuel with
  | zero => intro s _ _ h; omega
  | succ f ih =>
    intro s hs hsn hf
    rw [bigIterate_succ]
    by_cases he : 32 * n ≤ s
    · rw [bigNext_end n P N s hn he, setBits_nil_of_ge _ _ _ he]; rfl
    · rw [bigNext_neg n P N s hs (by omega)]
      by_cases hz : N >>> s = 0
      · rw [bigNegs_none n s N hz, setBits_none _ _ _ ((shr_eq_zero_iff _ _).mp hz)]; rfl
      · obtain ⟨a1, a2, a3, a4⟩ := nsb_spec (32 * n) N s hN hz
        rw [bigNegs_some n s N hz]
        simp only []
        rw [if_neg (by omega), ih _ (by omega) (by omega) (by omega), setBits_next _ s _ _ a2 a3 a1 a4]
        rfl

theorem bigIterate_pos (n P N : Nat) (hP : P < 2^(32 * n)) (hN : N < 2^(32 * n)) :
    ∀ fuel iter, 1 ≤ iter → iter < 32 * n → (32 * n - iter) + 32 * n + 1 ≤ fuel →
      bigIterate n (.bits P N) fuel iter =
        some ((setBits P iter (32 * n)).map (fun (j : Nat) => (j:Int)) ++
          (setBits N 1 (32 * n)).map (fun (j : Nat) => -(j:Int))) := by
  intro fuel
  induction fuel with
  | zero => intro iter _ _ h; omega
  | succ f ih =>
    intro iter h1 hi hf
    by_cases hz : P >>> iter = 0
    · have : bigIterate n (.bits P N) (f+1) iter = bigIterate n (.bits P N) (f+1) (32 * n + 1) := by
        rw [bigIterate_succ, bigIterate_succ, bigNext_pos_none n P N iter h1 hi hz,
          bigNext_neg n P N 1 (by omega) (by omega)]
      rw [this, bigIterate_neg n P N (by omega) hN (f+1) 1 (by omega) (by omega) (by omega),
        setBits_none _ _ _ ((shr_eq_zero_iff _ _).mp hz)]
      rfl
    · obtain ⟨a1, a2, a3, a4⟩ := nsb_spec (32 * n) P iter hP hz
      rw [bigIterate_succ, bigNext_pos_some n P N iter h1 hi hz]
      simp only []
      rw [setBits_next _ iter _ _ a2 a3 a1 a4]
      by_cases he : iter + ctz (32 * n) (P >>> iter) + 1 = 32 * n
      · rw [if_pos he, if_neg (by omega),
          bigIterate_neg n P N (by omega) hN f 1 (by omega) (by omega) (by omega),
          setBits_nil_of_ge P (iter + ctz (32 * n) (P >>> iter) + 1) (32 * n) (by omega)]
        rfl
      · rw [if_neg he, if_neg (by omega), ih _ (by omega) (by omega) (by omega)]
        rfl

theorem bigIterate_bits (n : Nat) (hn : 1 ≤ n) (P N : Nat) (hP : P < 2^(32 * n)) (hN : N < 2^(32 * n))
    (fuel : Nat) (hf : 64 * n + 2 ≤ fuel) :
    bigIterate n (.bits P N) fuel 0 = some ((if N % 2 = 1 then [(0:Int)] else []) ++
      (setBits P 1 (32 * n)).map (fun (j : Nat) => (j:Int)) ++
      (setBits N 1 (32 * n)).map (fun (j : Nat) => -(j:Int))) := by
  obtain ⟨f, rfl⟩ : ∃ f, fuel = f + 1 := ⟨fuel - 1, by omega⟩
  by_cases h0 : N % 2 = 1
  · rw [bigIterate_succ, bigNext_zero n P N h0]
    simp only []
    rw [if_neg (by omega), bigIterate_pos n P N hP hN f 1 (by omega) (by omega) (by omega), if_pos h0]
    rfl
  · have : bigIterate n (.bits P N) (f+1) 0 = bigIterate n (.bits P N) (f+1) 1 := by
      rw [bigIterate_succ, bigIterate_succ, bigNext_zero' n P N (by omega)]
    rw [this, bigIterate_pos n P N hP hN (f+1) 1 (by omega) (by omega) (by omega), if_neg h0]
    rfl

/-! ### iteration under the invariant -/

theorem bigIterate_of_R (n : Nat) (hn : 1 ≤ n) (xs : List Int) (bi : Big)
    (hxs : ∀ v ∈ xs, -((32 * n : Nat) : Int) < v ∧ v < ((32 * n : Nat) : Int)) (h : BigR n xs bi)
    (fuel : Nat) (hf : 64 * n + 2 ≤ fuel) :
    bigIterate n bi fuel 0 = some (canonS (32 * n - 1) xs) := by
  cases bi with
  | native vals =>
    obtain ⟨h1, h2, h3⟩ := h
    rw [bigIterate_native n vals fuel 0 (by omega), List.drop_zero]
    congr 1
    exact eq_canonS (32 * n - 1) xs vals (fun v hv => by have := hxs v hv; omega) h2 h3
  | bits P N =>
    obtain ⟨_, h2, h3, h4, h5⟩ := h
    rw [bigIterate_bits n hn P N h2 h3 fuel hf]
    have := setBits_eq_canonS (32 * n - 1) P N xs h4 h5
    rw [show 32 * n - 1 + 1 = 32 * n by omega] at this
    rw [this]

end Echse.Bitint
