import Echse.Model.Evrdat
import Echse.Model.Sort
import Echse.Model.Instant
import Driver.Instant
open Echse.Sort Echse.Instant
namespace Driver

/-- `q.isort h1 h2 …` sorts instants; `q.esort h1 h2 …` sorts events (instant, index) by instant and
prints `hex:index`; answer suffix `!inplace` when the transcribed part of the model does not cover the length. -/
def runSort (op : String) (args : List String) : String :=
  match args.mapM inst? with
  | none => "bad-op"
  | some xs =>
    -- below 1024 elements the transcribed model runs; from 1024 on the model is the specification (the unique
    -- stable sort, C20.stableSort_unique), computed here with the library merge sort for speed
    let sortBy {α} [Inhabited α] (lt : α → α → Bool) (l : List α) : List α :=
      if l.length < 1024 then wikiSort lt l else l.mergeSort (fun a b => !lt b a)
    if op == "q.isort" then
      let r := sortBy ltP xs
      joinWith " " (r.map showInst)
    else if op == "q.esort" then
      let ev := xs.zipIdx
      let r := sortBy (fun (a b : Inst × Nat) => ltP a.1 b.1) ev
      joinWith " " (r.map fun (i, k) => s!"{showInst i}:{k}")
    else if op == "e.rdat" then
      -- e.rdat DTSTART d1 d2 … : `__make_evrdat` (below 1024 instants, where the sort is transcribed)
      match xs with
      | ds :: rest => if rest.length < 1024 then joinWith " " ((Echse.Evrdat.makeEvrdat ds rest).map showInst) else "unmodelled"
      | [] => "bad-op"
    else "bad-op"

end Driver
