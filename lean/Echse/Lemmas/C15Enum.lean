/-
  C15 helpers: complete enumeration of a `Bool` predicate over an interval of naturals by
  binary splitting (evaluated by the kernel with `decide +kernel`), the lifting lemma that
  turns the evaluated `true` into a `∀`, and the definitions shared by the enumeration modules.
-/
import Echse.Model.Scale
import Echse.Spec.Cal
namespace Echse.Scale

/-- `allFromF p f lo n` : `p lo && … && p (lo+n-1)`, halving `n`; `f` bounds the depth
(running out of fuel yields `false`, so the fuel never has to be justified). -/
def allFromF (p : Nat → Bool) : Nat → Nat → Nat → Bool
  | 0, _, n => n == 0
  | f + 1, lo, n =>
    if n = 0 then true
    else if n = 1 then p lo
    else allFromF p f lo (n / 2) && allFromF p f (lo + n / 2) (n - n / 2)

/-- `allFrom p lo n` : `p` holds on `lo, …, lo+n-1` -/
def allFrom (p : Nat → Bool) (lo n : Nat) : Bool := allFromF p 64 lo n

theorem allFromF_spec (p : Nat → Bool) :
    ∀ f lo n, allFromF p f lo n = true → ∀ k, lo ≤ k → k < lo + n → p k = true := by
  intro f
  induction f with
  | zero =>
    intro lo n h k h1 h2
    simp only [allFromF, beq_iff_eq] at h
    omega
  | succ f ih =>
    intro lo n h k h1 h2
    unfold allFromF at h
    by_cases h0 : n = 0
    · omega
    · by_cases h1' : n = 1
      · simp only [h1', if_true] at h
        have : k = lo := by omega
        rw [this]; simpa using h
      · simp only [h0, h1', if_false, Bool.and_eq_true] at h
        by_cases hk : k < lo + n / 2
        · exact ih lo (n / 2) h.1 k h1 hk
        · exact ih (lo + n / 2) (n - n / 2) h.2 k (by omega) (by omega)

theorem allFrom_spec (p : Nat → Bool) (lo n : Nat) (h : allFrom p lo n = true) :
    ∀ k, lo ≤ k → k < lo + n → p k = true :=
  allFromF_spec p 64 lo n h

/-- chunked enumeration: `b` chunks of `sz` points starting at chunk index `a` (each chunk is its
own kernel-checked lemma, so the kernel's caches are released between chunks) -/
theorem allFrom_chunks (p : Nat → Bool) (lo sz a b : Nat)
    (h : ∀ c, c < b → allFrom p (lo + sz * (a + c)) sz = true) :
    ∀ k, lo + sz * a ≤ k → k < lo + sz * (a + b) → p k = true := by
  intro k h1 h2
  have hsz : 0 < sz := by
    rcases Nat.eq_zero_or_pos sz with h0 | h0
    · subst h0; simp at h1 h2; omega
    · exact h0
  have e1 : sz * (a + b) = sz * a + sz * b := Nat.mul_add _ _ _
  have hq : (k - (lo + sz * a)) / sz < b := by
    apply Nat.div_lt_of_lt_mul; omega
  have hdm := Nat.div_add_mod (k - (lo + sz * a)) sz
  have hml := Nat.mod_lt (k - (lo + sz * a)) hsz
  have e2 : sz * (a + (k - (lo + sz * a)) / sz) = sz * a + sz * ((k - (lo + sz * a)) / sz) :=
    Nat.mul_add _ _ _
  exact allFrom_spec p _ sz (h _ hq) k (by omega) (by omega)

/-- first and last day number of the enumerated range: 1901-01-01 … 2099-12-31 -/
def dLo : Nat := 15386
def dHi : Nat := 88069
/-- `Spec.Cal.days` (days since 0000-03-01) minus the model's day number (JDN − 2400000) -/
def dayOff : Int := 678880

/-- the day after `h` in scale `s`, computed from the month lengths `scaleNdim` reports -/
def succDate (s : Nat) (h : Ymd) : Ymd :=
  if h.d < scaleNdim s h.y h.m then ⟨h.y, h.m, h.d + 1⟩
  else if h.m < 12 then ⟨h.y, h.m + 1, 1⟩
  else ⟨h.y + 1, 1, 1⟩

/-- a valid Gregorian date of the years 1901..2099 -/
def ValidG (g : Ymd) : Prop :=
  1901 ≤ g.y ∧ g.y ≤ 2099 ∧ 1 ≤ g.m ∧ g.m ≤ 12 ∧ 1 ≤ g.d ∧ g.d ≤ Echse.Spec.Cal.monthLen g.y g.m

instance (g : Ymd) : Decidable (ValidG g) := by unfold ValidG; infer_instance

theorem monthLen_le (y m : Nat) : Echse.Spec.Cal.monthLen y m ≤ 31 := by
  unfold Echse.Spec.Cal.monthLen; split <;> first | omega | (split <;> omega)

/-! ### the per-point checks -/
open Echse.Spec.Cal

/-- Gregorian, per day number -/
def chkG (j : Nat) : Bool :=
  let g := mjd2g j
  g2mjd g == j && decide (ValidG g) && decide (days g.y g.m g.d = (j : Int) + dayOff)
    && wdayOfMjd j == wdayGreg g.y g.m g.d

theorem chkG_spec (j : Nat) (h : chkG j = true) :
    g2mjd (mjd2g j) = j ∧ ValidG (mjd2g j) ∧
    days (mjd2g j).y (mjd2g j).m (mjd2g j).d = (j : Int) + dayOff ∧
    wdayOfMjd j = wdayGreg (mjd2g j).y (mjd2g j).m (mjd2g j).d := by
  simpa only [chkG, Bool.and_eq_true, beq_iff_eq, decide_eq_true_eq, and_assoc] using h

/-- number of (year, month, day-of-month ≤ 31) triples of 1901..2099 -/
def nDates : Nat := 74028

/-- Gregorian, per date: index `k` ↦ year `1901 + k / 372`, month `k % 372 / 31 + 1`, day `k % 31 + 1` -/
def chkD (k : Nat) : Bool :=
  let y := 1901 + k / 372
  let m := k % 372 / 31 + 1
  let d := k % 31 + 1
  !decide (d ≤ monthLen y m) ||
    (decide (dLo ≤ g2mjd ⟨y, m, d⟩) && decide (g2mjd ⟨y, m, d⟩ ≤ dHi) && mjd2g (g2mjd ⟨y, m, d⟩) == ⟨y, m, d⟩)

theorem chkD_spec (g : Ymd) (hg : ValidG g)
    (h : chkD ((g.y - 1901) * 372 + (g.m - 1) * 31 + (g.d - 1)) = true) :
    dLo ≤ g2mjd g ∧ g2mjd g ≤ dHi ∧ mjd2g (g2mjd g) = g := by
  obtain ⟨h1, h2, h3, h4, h5, h6⟩ := hg
  have h7 := monthLen_le g.y g.m
  have ey : 1901 + ((g.y - 1901) * 372 + (g.m - 1) * 31 + (g.d - 1)) / 372 = g.y := by omega
  have em : ((g.y - 1901) * 372 + (g.m - 1) * 31 + (g.d - 1)) % 372 / 31 + 1 = g.m := by omega
  have ed : ((g.y - 1901) * 372 + (g.m - 1) * 31 + (g.d - 1)) % 31 + 1 = g.d := by omega
  simp only [chkD, ey, em, ed, Bool.or_eq_true, Bool.not_eq_true', decide_eq_false_iff_not,
    Bool.and_eq_true, beq_iff_eq, decide_eq_true_eq] at h
  rcases h with h | h
  · exact absurd h6 h
  · exact ⟨h.1.1, h.1.2, h.2⟩

theorem chkD_index (g : Ymd) (hg : ValidG g) :
    (g.y - 1901) * 372 + (g.m - 1) * 31 + (g.d - 1) < nDates := by
  obtain ⟨h1, h2, h3, h4, h5, h6⟩ := hg
  have h7 := monthLen_le g.y g.m
  unfold nDates; omega

/-- arithmetic Hijri scale `s` (1..8), per day number -/
def chkH (s j : Nat) : Bool :=
  let h := mjd2hij (scalTyp s) (scalEpo s) j
  hij2mjd (scalTyp s) (scalEpo s) h == j && decide (1 ≤ h.y) && decide (1 ≤ h.m) && decide (h.m ≤ 12)
    && decide (1 ≤ h.d) && decide (h.d ≤ scaleNdim s h.y h.m)
    && mjd2hij (scalTyp s) (scalEpo s) (j + 1) == succDate s h

theorem chkH_spec (s j : Nat) (h : chkH s j = true) :
    hij2mjd (scalTyp s) (scalEpo s) (mjd2hij (scalTyp s) (scalEpo s) j) = j ∧
    1 ≤ (mjd2hij (scalTyp s) (scalEpo s) j).y ∧
    1 ≤ (mjd2hij (scalTyp s) (scalEpo s) j).m ∧ (mjd2hij (scalTyp s) (scalEpo s) j).m ≤ 12 ∧
    1 ≤ (mjd2hij (scalTyp s) (scalEpo s) j).d ∧
    (mjd2hij (scalTyp s) (scalEpo s) j).d ≤
      scaleNdim s (mjd2hij (scalTyp s) (scalEpo s) j).y (mjd2hij (scalTyp s) (scalEpo s) j).m ∧
    mjd2hij (scalTyp s) (scalEpo s) (j + 1) = succDate s (mjd2hij (scalTyp s) (scalEpo s) j) := by
  simpa only [chkH, Bool.and_eq_true, beq_iff_eq, decide_eq_true_eq, and_assoc] using h

end Echse.Scale
