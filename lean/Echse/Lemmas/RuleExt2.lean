/-
  C17 lemmas, part 2: `strtol` on a decimal numeral followed by a non-digit.
-/
import Echse.Model.Rrule
namespace Echse.RuleExt
open Echse.Rrule

theorem digit_ge (c : Char) (h : c.isDigit = true) : 48 ≤ c.toNat := by
  simp only [Char.isDigit, Bool.and_eq_true, decide_eq_true_eq, ge_iff_le, UInt32.le_iff_toNat_le] at h
  have := h.1
  simpa using this

theorem digit_not (c : Char) (h : c.isDigit = true) :
    c ≠ '-' ∧ c ≠ '+' ∧ ¬ (c = ' ' ∨ c = '\t' ∨ c = '\n' ∨ c = '\r' ∨ c.toNat = 11 ∨ c.toNat = 12) := by
  have h48 := digit_ge c h
  refine ⟨?_, ?_, ?_⟩
  · intro e; subst e; revert h48; decide
  · intro e; subst e; revert h48; decide
  · intro e
    rcases e with e|e|e|e|e|e
    · subst e; revert h48; decide
    · subst e; revert h48; decide
    · subst e; revert h48; decide
    · subst e; revert h48; decide
    · omega
    · omega

theorem takeWhile_digits (ds rest : List Char) (hds : ds.all Char.isDigit = true)
    (hr : ∀ x ∈ rest.head?, Char.isDigit x = false) : (ds ++ rest).takeWhile Char.isDigit = ds := by
  induction ds with
  | nil =>
    cases rest with
    | nil => rfl
    | cons x r => simp at hr; simp [hr]
  | cons c ds ih =>
    simp at hds
    simp [hds.1]
    exact ih (by simpa using hds.2)

def numVal (ds : List Char) : Nat := ds.foldl (fun a c => a * 10 + (c.toNat - 48)) 0

theorem strtol_pos (c : Char) (ds rest : List Char) (hc : c.isDigit = true) (hds : ds.all Char.isDigit = true)
    (hr : ∀ x ∈ rest.head?, Char.isDigit x = false) :
    strtol (c :: ds ++ rest) = ((numVal (c :: ds) : Int), rest) := by
  obtain ⟨n1, n2, n3⟩ := digit_not c hc
  have tw := takeWhile_digits (c :: ds) rest (by simp [hc]; simpa using hds) hr
  unfold strtol
  simp only [List.cons_append] at tw ⊢
  rw [List.dropWhile_cons_of_neg (by simpa using n3)]
  split
  · next h => simp at h; exact absurd h.1 n1
  · next h => simp at h; exact absurd h.1 n2
  · simp only [tw]
    simp [numVal]

theorem strtol_neg (c : Char) (ds rest : List Char) (hc : c.isDigit = true) (hds : ds.all Char.isDigit = true)
    (hr : ∀ x ∈ rest.head?, Char.isDigit x = false) :
    strtol ('-' :: c :: ds ++ rest) = (-(numVal (c :: ds) : Int), rest) := by
  have tw := takeWhile_digits (c :: ds) rest (by simp [hc]; simpa using hds) hr
  unfold strtol
  simp only [List.cons_append] at tw ⊢
  rw [List.dropWhile_cons_of_neg (by decide)]
  simp only [tw]
  simp [numVal]

end Echse.RuleExt
