/-
  Helper lemmas for C18, part 2: the sixteen second-resolution spellings parse to the instant
  (`len = 0` and `len` exact).
-/
import Echse.Lemmas.Strpf
namespace Echse.Strpf
open Echse.Instant Echse.Spec.Cal

set_option maxHeartbeats 1000000 in
theorem spell_parse (dsep tsep : Bool) (sep : Char) (z : Bool) (y m d H M S : Nat) (len : Nat)
    (hlen : len = 0 ∨ len = 15 + (if dsep then 2 else 0) + (if tsep then 2 else 0) + (if z then 1 else 0))
    (hsep : sep = 'T' ∨ sep = ' ') (hy : y ≤ 9999) (hn : NormalSec ⟨y,m,d,H,M,S,allSec⟩) :
    dtStrp (spell dsep tsep sep z ⟨y,m,d,H,M,S,allSec⟩) len
      = some (⟨y,m,d,H,M,S,allSec⟩,
          15 + (if dsep then 2 else 0) + (if tsep then 2 else 0) + (if z then 1 else 0)) := by
  obtain ⟨⟨hm1, hm2, hd1, hd2⟩, hH, hM, hS, -⟩ := hn
  simp only at hm1 hm2 hd1 hd2 hH hM hS
  have hd3 : d ≤ 31 := by have := monthLen_le y m; omega
  have hS6 : S / 10 < 6 := by omega
  have hS6' : ¬ S / 10 = 6 := by omega
  have hM6 : M / 10 < 6 := by omega
  have eS : S / 10 % 10 = S / 10 := by omega
  have eM : M / 10 % 10 = M / 10 := by omega
  have ed : d / 10 % 10 = d / 10 := by omega
  have ey : y / 10 / 10 / 10 % 10 = y / 10 / 10 / 10 := by omega
  have hy10 : y / 10 / 10 / 10 < 10 := by omega
  have hH4 : H / 10 = 2 → H % 10 < 4 := by omega
  have hmA : m / 10 % 10 = 0 ∨ m / 10 % 10 = 1 := by omega
  have hmB : (if m / 10 % 10 = 1 then 10 else 0) + m % 10 = m := by split <;> omega
  have hH' : H / 10 = 0 ∨ H / 10 = 1 ∨ H / 10 = 2 := by omega
  rcases hsep with rfl | rfl <;> cases dsep <;> cases tsep <;> cases z <;>
  rcases hlen with rfl | rfl <;> rcases hH' with hH' | hH' | hH' <;>
  · simp [spell, dayStr, tpstr2, tpstr4, dtStrp, dtStrpTime, fin, chr_cons_zero, chr_cons_succ, chr_nil,
      x0_digitChar, hmA, hmB, hH', mod10_lt, hS6, hS6', hM6, eS, eM, ed, ey, hy10, hH4]
    and_intros <;> omega

end Echse.Strpf
