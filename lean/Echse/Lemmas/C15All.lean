/-
  C15: the enumeration parts put together: the per-point checks hold on the whole range
  1901-01-01 … 2099-12-31 (72 684 day numbers) resp. for all 74 028 date indices.
-/
import Echse.Lemmas.C15GregA
import Echse.Lemmas.C15GregB
import Echse.Lemmas.C15GregC
import Echse.Lemmas.C15DateA
import Echse.Lemmas.C15DateB
import Echse.Lemmas.C15Hij1A
import Echse.Lemmas.C15Hij1B
import Echse.Lemmas.C15Hij1C
import Echse.Lemmas.C15Hij1D
import Echse.Lemmas.C15Hij2A
import Echse.Lemmas.C15Hij2B
import Echse.Lemmas.C15Hij2C
import Echse.Lemmas.C15Hij2D
import Echse.Lemmas.C15Hij3A
import Echse.Lemmas.C15Hij3B
import Echse.Lemmas.C15Hij3C
import Echse.Lemmas.C15Hij3D
import Echse.Lemmas.C15Hij4A
import Echse.Lemmas.C15Hij4B
import Echse.Lemmas.C15Hij4C
import Echse.Lemmas.C15Hij4D
import Echse.Lemmas.C15Hij5A
import Echse.Lemmas.C15Hij5B
import Echse.Lemmas.C15Hij5C
import Echse.Lemmas.C15Hij5D
import Echse.Lemmas.C15Hij6A
import Echse.Lemmas.C15Hij6B
import Echse.Lemmas.C15Hij6C
import Echse.Lemmas.C15Hij6D
import Echse.Lemmas.C15Hij7A
import Echse.Lemmas.C15Hij7B
import Echse.Lemmas.C15Hij7C
import Echse.Lemmas.C15Hij7D
import Echse.Lemmas.C15Hij8A
import Echse.Lemmas.C15Hij8B
import Echse.Lemmas.C15Hij8C
import Echse.Lemmas.C15Hij8D
namespace Echse.Scale

theorem chkG_all (j : Nat) (h1 : dLo ≤ j) (h2 : j ≤ dHi) : chkG j = true := by
  unfold dLo at h1; unfold dHi at h2
  by_cases a : j < dLo + 1024 * (0 + 24)
  · exact gregA j (by unfold dLo; omega) a
  by_cases b : j < dLo + 1024 * (24 + 24)
  · exact gregB j (by unfold dLo at a ⊢; omega) b
  by_cases c : j < dLo + 1024 * (48 + 22)
  · exact gregC j (by unfold dLo at b ⊢; omega) c
  · exact allFrom_spec _ _ _ gregC_tail j (by unfold dLo at c ⊢; omega) (by unfold dLo; omega)

theorem chkD_all (k : Nat) (h : k < nDates) : chkD k = true := by
  unfold nDates at h
  by_cases a : k < 0 + 1024 * (0 + 36)
  · exact dateA k (by omega) a
  by_cases b : k < 0 + 1024 * (36 + 36)
  · exact dateB k (by omega) b
  · exact allFrom_spec _ _ _ dateB_tail k (by omega) (by omega)

theorem chkH1_all (j : Nat) (h1 : dLo ≤ j) (h2 : j ≤ dHi) : chkH 1 j = true := by
  unfold dLo at h1; unfold dHi at h2
  by_cases a : j < dLo + 1024 * (0 + 18)
  · exact hij1A j (by unfold dLo; omega) a
  by_cases b : j < dLo + 1024 * (18 + 18)
  · exact hij1B j (by unfold dLo at a ⊢; omega) b
  by_cases c : j < dLo + 1024 * (36 + 18)
  · exact hij1C j (by unfold dLo at b ⊢; omega) c
  by_cases d : j < dLo + 1024 * (54 + 16)
  · exact hij1D j (by unfold dLo at c ⊢; omega) d
  · exact allFrom_spec _ _ _ hij1D_tail j (by unfold dLo at d ⊢; omega) (by unfold dLo; omega)

theorem chkH2_all (j : Nat) (h1 : dLo ≤ j) (h2 : j ≤ dHi) : chkH 2 j = true := by
  unfold dLo at h1; unfold dHi at h2
  by_cases a : j < dLo + 1024 * (0 + 18)
  · exact hij2A j (by unfold dLo; omega) a
  by_cases b : j < dLo + 1024 * (18 + 18)
  · exact hij2B j (by unfold dLo at a ⊢; omega) b
  by_cases c : j < dLo + 1024 * (36 + 18)
  · exact hij2C j (by unfold dLo at b ⊢; omega) c
  by_cases d : j < dLo + 1024 * (54 + 16)
  · exact hij2D j (by unfold dLo at c ⊢; omega) d
  · exact allFrom_spec _ _ _ hij2D_tail j (by unfold dLo at d ⊢; omega) (by unfold dLo; omega)

theorem chkH3_all (j : Nat) (h1 : dLo ≤ j) (h2 : j ≤ dHi) : chkH 3 j = true := by
  unfold dLo at h1; unfold dHi at h2
  by_cases a : j < dLo + 1024 * (0 + 18)
  · exact hij3A j (by unfold dLo; omega) a
  by_cases b : j < dLo + 1024 * (18 + 18)
  · exact hij3B j (by unfold dLo at a ⊢; omega) b
  by_cases c : j < dLo + 1024 * (36 + 18)
  · exact hij3C j (by unfold dLo at b ⊢; omega) c
  by_cases d : j < dLo + 1024 * (54 + 16)
  · exact hij3D j (by unfold dLo at c ⊢; omega) d
  · exact allFrom_spec _ _ _ hij3D_tail j (by unfold dLo at d ⊢; omega) (by unfold dLo; omega)

theorem chkH4_all (j : Nat) (h1 : dLo ≤ j) (h2 : j ≤ dHi) : chkH 4 j = true := by
  unfold dLo at h1; unfold dHi at h2
  by_cases a : j < dLo + 1024 * (0 + 18)
  · exact hij4A j (by unfold dLo; omega) a
  by_cases b : j < dLo + 1024 * (18 + 18)
  · exact hij4B j (by unfold dLo at a ⊢; omega) b
  by_cases c : j < dLo + 1024 * (36 + 18)
  · exact hij4C j (by unfold dLo at b ⊢; omega) c
  by_cases d : j < dLo + 1024 * (54 + 16)
  · exact hij4D j (by unfold dLo at c ⊢; omega) d
  · exact allFrom_spec _ _ _ hij4D_tail j (by unfold dLo at d ⊢; omega) (by unfold dLo; omega)

theorem chkH5_all (j : Nat) (h1 : dLo ≤ j) (h2 : j ≤ dHi) : chkH 5 j = true := by
  unfold dLo at h1; unfold dHi at h2
  by_cases a : j < dLo + 1024 * (0 + 18)
  · exact hij5A j (by unfold dLo; omega) a
  by_cases b : j < dLo + 1024 * (18 + 18)
  · exact hij5B j (by unfold dLo at a ⊢; omega) b
  by_cases c : j < dLo + 1024 * (36 + 18)
  · exact hij5C j (by unfold dLo at b ⊢; omega) c
  by_cases d : j < dLo + 1024 * (54 + 16)
  · exact hij5D j (by unfold dLo at c ⊢; omega) d
  · exact allFrom_spec _ _ _ hij5D_tail j (by unfold dLo at d ⊢; omega) (by unfold dLo; omega)

theorem chkH6_all (j : Nat) (h1 : dLo ≤ j) (h2 : j ≤ dHi) : chkH 6 j = true := by
  unfold dLo at h1; unfold dHi at h2
  by_cases a : j < dLo + 1024 * (0 + 18)
  · exact hij6A j (by unfold dLo; omega) a
  by_cases b : j < dLo + 1024 * (18 + 18)
  · exact hij6B j (by unfold dLo at a ⊢; omega) b
  by_cases c : j < dLo + 1024 * (36 + 18)
  · exact hij6C j (by unfold dLo at b ⊢; omega) c
  by_cases d : j < dLo + 1024 * (54 + 16)
  · exact hij6D j (by unfold dLo at c ⊢; omega) d
  · exact allFrom_spec _ _ _ hij6D_tail j (by unfold dLo at d ⊢; omega) (by unfold dLo; omega)

theorem chkH7_all (j : Nat) (h1 : dLo ≤ j) (h2 : j ≤ dHi) : chkH 7 j = true := by
  unfold dLo at h1; unfold dHi at h2
  by_cases a : j < dLo + 1024 * (0 + 18)
  · exact hij7A j (by unfold dLo; omega) a
  by_cases b : j < dLo + 1024 * (18 + 18)
  · exact hij7B j (by unfold dLo at a ⊢; omega) b
  by_cases c : j < dLo + 1024 * (36 + 18)
  · exact hij7C j (by unfold dLo at b ⊢; omega) c
  by_cases d : j < dLo + 1024 * (54 + 16)
  · exact hij7D j (by unfold dLo at c ⊢; omega) d
  · exact allFrom_spec _ _ _ hij7D_tail j (by unfold dLo at d ⊢; omega) (by unfold dLo; omega)

theorem chkH8_all (j : Nat) (h1 : dLo ≤ j) (h2 : j ≤ dHi) : chkH 8 j = true := by
  unfold dLo at h1; unfold dHi at h2
  by_cases a : j < dLo + 1024 * (0 + 18)
  · exact hij8A j (by unfold dLo; omega) a
  by_cases b : j < dLo + 1024 * (18 + 18)
  · exact hij8B j (by unfold dLo at a ⊢; omega) b
  by_cases c : j < dLo + 1024 * (36 + 18)
  · exact hij8C j (by unfold dLo at b ⊢; omega) c
  by_cases d : j < dLo + 1024 * (54 + 16)
  · exact hij8D j (by unfold dLo at c ⊢; omega) d
  · exact allFrom_spec _ _ _ hij8D_tail j (by unfold dLo at d ⊢; omega) (by unfold dLo; omega)

theorem chkH_all (s : Nat) (hs1 : 1 ≤ s) (hs8 : s ≤ 8) (j : Nat) (h1 : dLo ≤ j) (h2 : j ≤ dHi) :
    chkH s j = true := by
  have : s = 1 ∨ s = 2 ∨ s = 3 ∨ s = 4 ∨ s = 5 ∨ s = 6 ∨ s = 7 ∨ s = 8 := by omega
  rcases this with h | h | h | h | h | h | h | h <;> subst h
  · exact chkH1_all j h1 h2
  · exact chkH2_all j h1 h2
  · exact chkH3_all j h1 h2
  · exact chkH4_all j h1 h2
  · exact chkH5_all j h1 h2
  · exact chkH6_all j h1 h2
  · exact chkH7_all j h1 h2
  · exact chkH8_all j h1 h2

end Echse.Scale
