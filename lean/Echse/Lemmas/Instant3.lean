import Echse.Lemmas.Instant2
/-
  `echs_instant_add` on normal instants: equational form, and the point in time of the result.
-/
namespace Echse.Instant
open Echse.Gen Echse.Spec.Cal

theorem add_timed_eq (b : Inst) (δ : Int) (hH : b.H < 24) (hms : b.ms < 1000) :
    add b δ =
      (let dd := δ.tdiv 86400000
       let t0 := (b.ms : Int) + δ.tmod 86400000
       let t1 := (b.S : Int) + t0 / 1000
       let t2 := (b.M : Int) + t1 / 60
       let t3 := (b.H : Int) + t2 / 60
       let res : Inst := { b with ms := (t0 % 1000).toNat, S := (t1 % 60).toNat % 64,
                                  M := (t2 % 60).toNat % 256, H := (t3 % 24).toNat % 256 }
       if dd + t3 / 24 ≠ 0 then addDays b res (dd + t3 / 24) else res) := by
  have h1 : b.isAllDay = false := by simp [Inst.isAllDay, allDay]; omega
  have h2 : b.isAllSec = false := by simp [Inst.isAllSec, allSec]; omega
  unfold add
  simp only [h1, h2, carry_eq _ _ _ (by decide : (0:Int) < 1000), carry_eq _ _ _ (by decide : (0:Int) < 60),
    carry_eq _ _ _ (by decide : (0:Int) < 24)]
  rfl

theorem absMs_1901 : absMs ⟨1901,1,1,0,0,0,0⟩ = days 1901 1 1 * 86400000 := by decide
theorem absMs_2100 : absMs ⟨2100,1,1,0,0,0,0⟩ = days 2100 1 1 * 86400000 := by decide

theorem add_spec (b : Inst) (δ : Int) (hb : Normal b) (rb : InRange b)
    (hlo : absMs ⟨1901,1,1,0,0,0,0⟩ ≤ absMs b + δ) (hhi : absMs b + δ < absMs ⟨2100,1,1,0,0,0,0⟩) :
    Normal (add b δ) ∧ InRange (add b δ) ∧ absMs (add b δ) = absMs b + δ := by
  obtain ⟨hv, hH, hM, hS, hms⟩ := hb
  rw [add_timed_eq b δ hH hms]
  rw [absMs_1901] at hlo
  rw [absMs_2100] at hhi
  obtain ⟨e, -, -, l, u⟩ := tdivmod_day δ
  generalize δ.tdiv 86400000 = dd at *
  generalize δ.tmod 86400000 = msd at *
  simp only []
  simp only [absMs, msPerDay] at hlo hhi
  by_cases hz : dd + ((b.H : Int) + ((b.M : Int) + ((b.S : Int) + ((b.ms : Int) + msd) / 1000) / 60) / 60) / 24 ≠ 0
  · rw [if_pos hz]
    obtain ⟨y', m', d', ea, r1, r2, r3, r4, r5, r6, r7⟩ := addDays_spec b
      { b with ms := (((b.ms : Int) + msd) % 1000).toNat,
               S := (((b.S : Int) + ((b.ms : Int) + msd) / 1000) % 60).toNat % 64,
               M := (((b.M : Int) + ((b.S : Int) + ((b.ms : Int) + msd) / 1000) / 60) % 60).toNat % 256,
               H := (((b.H : Int) + ((b.M : Int) + ((b.S : Int) + ((b.ms : Int) + msd) / 1000) / 60) / 60) % 24).toNat % 256 }
      (dd + ((b.H : Int) + ((b.M : Int) + ((b.S : Int) + ((b.ms : Int) + msd) / 1000) / 60) / 60) / 24)
      hv rb (by omega) (by omega)
    rw [ea]
    refine ⟨⟨⟨r3, r4, r5, r6⟩, ?_, ?_, ?_, ?_⟩, ⟨r1, r2⟩, ?_⟩
    · show _ % 256 < 24; omega
    · show _ % 256 < 60; omega
    · show _ % 64 < 60; omega
    · show Int.toNat _ < 1000; omega
    · simp only [absMs, msPerDay]
      rw [r7]
      omega
  · rw [if_neg hz]
    refine ⟨⟨hv, ?_, ?_, ?_, ?_⟩, rb, ?_⟩
    · show _ % 256 < 24; omega
    · show _ % 256 < 60; omega
    · show _ % 64 < 60; omega
    · show Int.toNat _ < 1000; omega
    · simp only [absMs, msPerDay]
      omega
theorem add_day_eq (b : Inst) (δ : Int) (hH : b.H = allDay) : add b δ = addDays b b (δ.tdiv 86400000) := by
  have h1 : b.isAllDay = true := by simp [Inst.isAllDay, hH]
  unfold add
  simp only [h1, if_true]

theorem add_sec_eq (b : Inst) (δ : Int) (hH : b.H < 24) (hms : b.ms = allSec) :
    add b δ =
      (let dd := δ.tdiv 86400000
       let t1 := (b.S : Int) + (δ.tmod 86400000).tdiv 1000
       let t2 := (b.M : Int) + t1 / 60
       let t3 := (b.H : Int) + t2 / 60
       let res : Inst := { b with S := (t1 % 60).toNat % 64,
                                  M := (t2 % 60).toNat % 256, H := (t3 % 24).toNat % 256 }
       if dd + t3 / 24 ≠ 0 then addDays b res (dd + t3 / 24) else res) := by
  have h1 : b.isAllDay = false := by simp [Inst.isAllDay, allDay]; omega
  have h2 : b.isAllSec = true := by simp [Inst.isAllSec, hms]
  unfold add
  simp only [h1, h2, carry_eq _ _ _ (by decide : (0:Int) < 60),
    carry_eq _ _ _ (by decide : (0:Int) < 24)]
  rfl

theorem tdivmod_1000 (a : Int) :
    a = a.tdiv 1000 * 1000 + a.tmod 1000 ∧
    (0 ≤ a → 0 ≤ a.tmod 1000) ∧ (a ≤ 0 → a.tmod 1000 ≤ 0) ∧
    -1000 < a.tmod 1000 ∧ a.tmod 1000 < 1000 := by
  simp only [Int.tmod_eq_emod, Int.tdiv_eq_ediv]
  have : (1000 : Int).sign = 1 := rfl
  rw [this]
  by_cases h : 0 ≤ a ∨ (1000 : Int) ∣ a
  · simp only [h, if_true]; omega
  · simp only [h, if_false]; omega

/-- splitting off whole days first does not change the truncated second count -/
theorem tdiv_split (δ : Int) : δ.tdiv 86400000 * 86400 + (δ.tmod 86400000).tdiv 1000 = δ.tdiv 1000 := by
  obtain ⟨e1, p1, n1, l1, u1⟩ := tdivmod_day δ
  obtain ⟨e2, p2, n2, l2, u2⟩ := tdivmod_1000 δ
  obtain ⟨e3, p3, n3, l3, u3⟩ := tdivmod_1000 (δ.tmod 86400000)
  generalize δ.tdiv 86400000 = a at *
  generalize δ.tmod 86400000 = b at *
  omega

theorem add_spec_day (b : Inst) (δ : Int) (hb : NormalDay b) (rb : InRange b)
    (hlo : days 1901 1 1 ≤ days b.y b.m b.d + δ.tdiv 86400000)
    (hhi : days b.y b.m b.d + δ.tdiv 86400000 < days 2100 1 1) :
    NormalDay (add b δ) ∧ InRange (add b δ) ∧
    days (add b δ).y (add b δ).m (add b δ).d = days b.y b.m b.d + δ.tdiv 86400000 ∧
    (add b δ).M = b.M ∧ (add b δ).S = b.S ∧ (add b δ).ms = b.ms := by
  obtain ⟨hv, hH⟩ := hb
  rw [add_day_eq b δ hH]
  obtain ⟨y', m', d', ea, r1, r2, r3, r4, r5, r6, r7⟩ := addDays_spec b b _ hv rb hlo hhi
  rw [ea]
  exact ⟨⟨⟨r3, r4, r5, r6⟩, hH⟩, ⟨r1, r2⟩, r7, rfl, rfl, rfl⟩

theorem add_spec_sec (b : Inst) (δ : Int) (hb : NormalSec b) (rb : InRange b)
    (hlo : days 1901 1 1 * 86400 ≤ absSec b + δ.tdiv 1000) (hhi : absSec b + δ.tdiv 1000 < days 2100 1 1 * 86400) :
    NormalSec (add b δ) ∧ InRange (add b δ) ∧ absSec (add b δ) = absSec b + δ.tdiv 1000 := by
  obtain ⟨hv, hH, hM, hS, hms⟩ := hb
  rw [add_sec_eq b δ hH hms]
  rw [← tdiv_split δ] at *
  generalize δ.tdiv 86400000 = dd at *
  generalize (δ.tmod 86400000).tdiv 1000 = sd at *
  simp only []
  simp only [absSec] at hlo hhi
  by_cases hz : dd + ((b.H : Int) + ((b.M : Int) + ((b.S : Int) + sd) / 60) / 60) / 24 ≠ 0
  · rw [if_pos hz]
    obtain ⟨y', m', d', ea, r1, r2, r3, r4, r5, r6, r7⟩ := addDays_spec b
      { b with S := (((b.S : Int) + sd) % 60).toNat % 64,
               M := (((b.M : Int) + ((b.S : Int) + sd) / 60) % 60).toNat % 256,
               H := (((b.H : Int) + ((b.M : Int) + ((b.S : Int) + sd) / 60) / 60) % 24).toNat % 256 }
      (dd + ((b.H : Int) + ((b.M : Int) + ((b.S : Int) + sd) / 60) / 60) / 24)
      hv rb (by omega) (by omega)
    rw [ea]
    refine ⟨⟨⟨r3, r4, r5, r6⟩, ?_, ?_, ?_, hms⟩, ⟨r1, r2⟩, ?_⟩
    · show _ % 256 < 24; omega
    · show _ % 256 < 60; omega
    · show _ % 64 < 60; omega
    · simp only [absSec]
      rw [r7]
      omega
  · rw [if_neg hz]
    refine ⟨⟨hv, ?_, ?_, ?_, hms⟩, rb, ?_⟩
    · show _ % 256 < 24; omega
    · show _ % 256 < 60; omega
    · show _ % 64 < 60; omega
    · simp only [absSec]
      omega
theorem jan00_doyOf (i : Inst) (hr : InRange i) (h1 : 1 ≤ i.m) (h2 : i.m ≤ 12) :
    (jan00 i.y : Int) + doyOf i + dayC = days i.y i.m i.d :=
  jan00_doy i.y i.m i.d hr.1 hr.2 h1 h2

theorem hourOf_timed (i : Inst) (h : i.H < 24) : hourOf i = i.H := by
  have : (i.H == allDay) = false := by simp [allDay]; omega
  simp [hourOf, Inst.isAllDay, this]
theorem hourOf_day (i : Inst) (h : i.H = allDay) : hourOf i = 0 := by
  simp [hourOf, Inst.isAllDay, h]
theorem msecOf_day (i : Inst) (h : i.H = allDay) : msecOf i = 0 := by
  simp [msecOf, Inst.isAllDay, h]
theorem msecOf_sec (i : Inst) (h : i.ms = allSec) : msecOf i = 0 := by
  simp [msecOf, h]
theorem msecOf_ms (i : Inst) (h : i.H < 24) (hms : i.ms < 1000) : msecOf i = i.ms := by
  have a : (i.H == allDay) = false := by simp [allDay]; omega
  have b : (i.ms == allSec) = false := by simp [allSec]; omega
  simp [msecOf, Inst.isAllDay, a, b]

/-- `diff` on in-range dates whose time-of-day difference stays within a day; the hour of a day as such and the
millisecond of a second as such count as 0 (`hourOf`, `msecOf`) -/
theorem diff_general (a b : Inst) (ra : InRange a) (rb : InRange b)
    (ha1 : 1 ≤ a.m) (ha2 : a.m ≤ 12) (hb1 : 1 ≤ b.m) (hb2 : b.m ≤ 12) (t : Int)
    (ht : t = (((hourOf a - hourOf b) * 60 + ((a.M : Int) - b.M)) * 60 + ((a.S : Int) - b.S)) * 1000 +
      (msecOf a - msecOf b))
    (hu : t < 86400000) :
    diff a b = (days a.y a.m a.d - days b.y b.m b.d) * 86400000 + t := by
  have ea := jan00_doyOf a ra ha1 ha2
  have eb := jan00_doyOf b rb hb1 hb2
  unfold diff
  simp only [← ht]
  by_cases c1 : t < 0
  · simp only [c1, if_true]; omega
  · simp only [c1, if_false, hu, if_true]; omega
theorem inst_ext (a b : Inst) (h1 : a.y = b.y) (h2 : a.m = b.m) (h3 : a.d = b.d) (h4 : a.H = b.H)
    (h5 : a.M = b.M) (h6 : a.S = b.S) (h7 : a.ms = b.ms) : a = b := by
  cases a; cases b; simp_all

/-- `absMs` is injective on normal instants -/
theorem absMs_inj (a b : Inst) (ha : Normal a) (hb : Normal b) (h : absMs a = absMs b) : a = b := by
  obtain ⟨⟨a1, a2, a3, a4⟩, a5, a6, a7, a8⟩ := ha
  obtain ⟨⟨b1, b2, b3, b4⟩, b5, b6, b7, b8⟩ := hb
  simp only [absMs, msPerDay] at h
  have hd : days a.y a.m a.d = days b.y b.m b.d := by omega
  obtain ⟨e1, e2, e3⟩ := days_inj _ _ _ _ _ _ a1 a2 a3 a4 b1 b2 b3 b4 hd
  exact inst_ext a b e1 e2 e3 (by omega) (by omega) (by omega) (by omega)

/-- `absSec` is injective on normal second-resolution instants -/
theorem absSec_inj (a b : Inst) (ha : NormalSec a) (hb : NormalSec b) (h : absSec a = absSec b) : a = b := by
  obtain ⟨⟨a1, a2, a3, a4⟩, a5, a6, a7, a8⟩ := ha
  obtain ⟨⟨b1, b2, b3, b4⟩, b5, b6, b7, b8⟩ := hb
  simp only [absSec] at h
  have hd : days a.y a.m a.d = days b.y b.m b.d := by omega
  obtain ⟨e1, e2, e3⟩ := days_inj _ _ _ _ _ _ a1 a2 a3 a4 b1 b2 b3 b4 hd
  exact inst_ext a b e1 e2 e3 (by omega) (by omega) (by omega) (by omega)

/-- in-range normal instants lie between 1901-01-01T00:00 and 2100-01-01T00:00 -/
theorem absMs_bounds (a : Inst) (ha : Normal a) (ra : InRange a) :
    absMs ⟨1901,1,1,0,0,0,0⟩ ≤ absMs a ∧ absMs a < absMs ⟨2100,1,1,0,0,0,0⟩ := by
  obtain ⟨⟨a1, a2, a3, a4⟩, a5, a6, a7, a8⟩ := ha
  have l := days_ge_1901 a.y a.m a.d ra.1 a1 a2 a3
  have u := days_lt_2100 a.y a.m a.d ra.2 a1 a2 a4
  rw [absMs_1901, absMs_2100]
  simp only [absMs, msPerDay]
  omega

theorem absSec_bounds (a : Inst) (ha : NormalSec a) (ra : InRange a) :
    days 1901 1 1 * 86400 ≤ absSec a ∧ absSec a < days 2100 1 1 * 86400 := by
  obtain ⟨⟨a1, a2, a3, a4⟩, a5, a6, a7, a8⟩ := ha
  have l := days_ge_1901 a.y a.m a.d ra.1 a1 a2 a3
  have u := days_lt_2100 a.y a.m a.d ra.2 a1 a2 a4
  simp only [absSec]
  omega
end Echse.Instant
