/-
  Stream layer, part 5: the exception filter `next_evfilt` over an event source and an
  exception source that refine sorted lists.
-/
import Echse.Lemmas.Stream
namespace Echse.Stream
open Echse.Instant

section
variable {σ τ : Type} (eops : Ops σ) (xops : Ops τ) (eabs : σ → List Event) (xabs : τ → List Event)
  (EI : σ → Prop) (XI : τ → Prop)

/-- the filter as a stream -/
def filtOps (fuel : Nat) : Ops (Filt σ τ) where
  peek := fun f => filtNext eops xops fuel f false
  pop := fun f => filtNext eops xops fuel f true

/-- starts of the exceptions still in force: the current one and those not yet fetched -/
def curStarts (f : Filt σ τ) : List Nat :=
  if f.exNul then [] else f.exBeg :: (xabs f.x).map (·.from_)

/-- `e` starts at none of the instants `starts` -/
def passes (starts : List Nat) (e : Event) : Bool := !(starts.any (fun u => u == e.from_))

/-- what the filter has still to deliver -/
def filtAbs (f : Filt σ τ) : List Event := (eabs f.e).filter (passes (curStarts xabs f))

/-- what a source list has to be: nul-free, sorted, 64-bit starts -/
def SrcOK (l : List Event) : Prop := NonNul l ∧ Sorted l ∧ Words l

/-- representation invariant of `struct evfilt_s` -/
structure FiltInv (f : Filt σ τ) : Prop where
  e : EI f.e
  x : XI f.x
  cur : f.exNul = false → f.exBeg ≠ 0 ∧ f.exBeg < 2^64 ∧ ∀ x ∈ xabs f.x, key f.exBeg ≤ key x.from_

/-- loop measure: every iteration pops an event or an exception -/
def mu (f : Filt σ τ) : Nat :=
  (eabs f.e).length + (if f.exNul then 0 else (xabs f.x).length + 1)

variable {eops xops eabs xabs EI XI}

theorem passes_cons (u : Nat) (L : List Nat) (e : Event) :
    passes (u :: L) e = (!(u == e.from_) && passes L e) := by
  simp [passes, Bool.not_or]

theorem passes_nil (e : Event) : passes [] e = true := rfl

theorem SrcOK.tail {l : List Event} (h : SrcOK l) : SrcOK l.tail := ⟨h.1.tail, h.2.1.tail, h.2.2.tail⟩

/-- state after dropping the current event -/
def dropE (eops : Ops σ) (f : Filt σ τ) : Filt σ τ := { f with e := (eops.peek (eops.pop f.e).2).2 }
/-- state after fetching the next exception -/
def fetchX (xops : Ops τ) (f : Filt σ τ) : Filt σ τ :=
  { f with x := (xops.pop f.x).2, exBeg := (xops.pop f.x).1.from_, exNul := (xops.pop f.x).1.isNul }

theorem filtLoop_zero (f : Filt σ τ) (e : Event) : filtLoop eops xops 0 f e = (f, e) := rfl

theorem filtLoop_nul {f : Filt σ τ} (h : f.exNul = true) (n : Nat) (e : Event) :
    filtLoop eops xops (n+1) f e = (f, e) := by
  simp only [filtLoop, h, if_true]

theorem filtLoop_drop {f : Filt σ τ} (h : f.exNul = false) (n : Nat) {e : Event}
    (heq : (e.from_ == f.exBeg) = true) :
    filtLoop eops xops (n+1) f e =
      filtLoop eops xops n (dropE eops f) (eops.peek (eops.pop f.e).2).1 := by
  rw [filtLoop]
  simp only [h, heq, if_true, Bool.false_eq_true, if_false, dropE]

theorem filtLoop_fetch {f : Filt σ τ} (h : f.exNul = false) (n : Nat) {e : Event}
    (heq : ¬ (e.from_ == f.exBeg) = true) (hlt : ltP (Inst.unpack f.exBeg) (Inst.unpack e.from_) = true) :
    filtLoop eops xops (n+1) f e =
      filtLoop eops xops n (fetchX xops f) e := by
  rw [filtLoop]
  simp only [h, heq, hlt, if_true, Bool.false_eq_true, if_false, fetchX]

theorem filtLoop_stop {f : Filt σ τ} (h : f.exNul = false) (n : Nat) {e : Event}
    (heq : ¬ (e.from_ == f.exBeg) = true) (hlt : ¬ ltP (Inst.unpack f.exBeg) (Inst.unpack e.from_) = true) :
    filtLoop eops xops (n+1) f e = (f, e) := by
  rw [filtLoop]
  simp only [h, heq, hlt, Bool.false_eq_true, if_false]

/-- the `check:` loop -/
theorem filtLoop_spec (RE : Refines eops eabs EI) (RX : Refines xops xabs XI)
    (hE : ∀ s, EI s → SrcOK (eabs s)) (hX : ∀ s, XI s → SrcOK (xabs s)) :
    ∀ (fuel : Nat) (f : Filt σ τ) (e : Event), FiltInv xabs EI XI f → e = hd (eabs f.e) →
      mu eabs xabs f ≤ fuel →
      FiltInv xabs EI XI (filtLoop eops xops fuel f e).1 ∧
      (filtLoop eops xops fuel f e).2 = hd (eabs (filtLoop eops xops fuel f e).1.e) ∧
      filtAbs eabs xabs (filtLoop eops xops fuel f e).1 = filtAbs eabs xabs f ∧
      (eabs (filtLoop eops xops fuel f e).1.e = [] ∨
        passes (curStarts xabs (filtLoop eops xops fuel f e).1) (filtLoop eops xops fuel f e).2 = true) ∧
      (eabs (filtLoop eops xops fuel f e).1.e).length ≤ (eabs f.e).length ∧
      (xabs (filtLoop eops xops fuel f e).1.x).length ≤ (xabs f.x).length := by
  intro fuel
  induction fuel with
  | zero =>
    intro f e hf he hmu
    rw [filtLoop_zero]
    refine ⟨hf, he, rfl, Or.inl ?_, Nat.le_refl _, Nat.le_refl _⟩
    show eabs f.e = []
    unfold mu at hmu
    exact List.length_eq_zero_iff.mp (by omega)
  | succ fuel ih =>
    intro f e hf he hmu
    cases hx : f.exNul with
    | true =>
      rw [filtLoop_nul hx]
      refine ⟨hf, he, rfl, Or.inr ?_, Nat.le_refl _, Nat.le_refl _⟩
      simp only [curStarts, hx, if_true, passes_nil]
    | false =>
      obtain ⟨c1, c2, c3⟩ := hf.cur hx
      obtain ⟨en, es, ew⟩ := hE _ hf.e
      obtain ⟨xn, xs, xw⟩ := hX _ hf.x
      by_cases heq : (e.from_ == f.exBeg) = true
      · -- the event is named by the current exception: drop it
        rw [filtLoop_drop hx fuel heq]
        have hfrom : e.from_ = f.exBeg := by simpa using heq
        cases hl : eabs f.e with
        | nil =>
          rw [hl] at he
          rw [he] at hfrom
          exact absurd hfrom.symm c1
        | cons a t =>
          rw [hl] at he
          simp only [hd_cons] at he
          subst he
          have i1 := RE.pop_inv _ hf.e
          have a1 : eabs (eops.pop f.e).2 = t := by rw [RE.pop_abs _ hf.e, hl]; rfl
          have i2 := RE.peek_inv _ i1
          have a2 : eabs (eops.peek (eops.pop f.e).2).2 = t := by rw [RE.peek_abs _ i1, a1]
          have v2 : (eops.peek (eops.pop f.e).2).1 = hd t := by rw [RE.peek_val _ i1, a1]; rfl
          have hf1 : FiltInv xabs EI XI (dropE eops f) := ⟨i2, hf.x, hf.cur⟩
          have e5 : eabs (dropE eops f).e = t := a2
          have hmu1 : mu eabs xabs (dropE eops f) ≤ fuel := by
            have m0 : mu eabs xabs f = (e :: t).length + (if f.exNul then 0 else (xabs f.x).length + 1) := by
              unfold mu; rw [hl]
            have m1 : mu eabs xabs (dropE eops f) = t.length + (if f.exNul then 0 else (xabs f.x).length + 1) := by
              show (eabs (dropE eops f).e).length + _ = _
              rw [e5]; rfl
            rw [m1]; rw [m0, List.length_cons] at hmu; omega
          obtain ⟨r1, r2, r3, r4, r5, r6⟩ := ih _ (eops.peek (eops.pop f.e).2).1 hf1 (by rw [v2, e5]) hmu1
          refine ⟨r1, r2, ?_, r4, ?_, r6⟩
          · rw [r3]
            have hb : (f.exBeg == e.from_) = true := by simpa using hfrom.symm
            simp only [filtAbs, dropE, a2, hl, curStarts, hx, Bool.false_eq_true, if_false, List.filter_cons,
              passes_cons, hb, Bool.not_true, Bool.false_and]
          · rw [e5] at r5; simp only [List.length_cons]; omega
      · by_cases hlt : ltP (Inst.unpack f.exBeg) (Inst.unpack e.from_) = true
        · -- the current exception lies before the event: fetch the next one
          rw [filtLoop_fetch hx fuel heq hlt]
          have hk : key f.exBeg < key e.from_ := by simpa [ltP, key] using hlt
          have i1 := RX.pop_inv _ hf.x
          have a1 : xabs (xops.pop f.x).2 = (xabs f.x).tail := RX.pop_abs _ hf.x
          have v1 : (xops.pop f.x).1 = hd (xabs f.x) := RX.pop_val _ hf.x
          have hcs : curStarts xabs (fetchX xops f) = (xabs f.x).map (·.from_) := by
            simp only [curStarts, fetchX, v1, a1]
            cases hxl : xabs f.x with
            | nil => rfl
            | cons b t =>
              have : b.isNul = false := xn b (by rw [hxl]; exact List.mem_cons_self)
              simp [this]
          have hf1 : FiltInv xabs EI XI (fetchX xops f) := by
            refine ⟨hf.e, i1, ?_⟩
            intro hnn
            simp only [fetchX, v1, a1] at hnn ⊢
            cases hxl : xabs f.x with
            | nil => rw [hxl] at hnn; simp [Event.isNul, Event.nul] at hnn
            | cons b t =>
              rw [hxl] at xs xw
              simp only [hd_cons, List.tail_cons]
              refine ⟨?_, xw b List.mem_cons_self, ?_⟩
              · have : b.isNul = false := xn b (by rw [hxl]; exact List.mem_cons_self)
                simpa [Event.isNul] using this
              · intro x hx'
                have := (List.pairwise_cons.mp xs).1 x hx'
                exact (evLt_false_iff _ _).mp this
          have e6 : xabs (fetchX xops f).x = (xabs f.x).tail := a1
          have hmu1 : mu eabs xabs (fetchX xops f) ≤ fuel := by
            have m0 : mu eabs xabs f = (eabs f.e).length + ((xabs f.x).length + 1) := by
              unfold mu; rw [hx]; rfl
            have m1 : mu eabs xabs (fetchX xops f) ≤ (eabs f.e).length + ((xabs f.x).tail.length + 1) := by
              show (eabs f.e).length + (if (fetchX xops f).exNul then 0 else (xabs (fetchX xops f).x).length + 1) ≤ _
              rw [e6]; split <;> omega
            rw [m0] at hmu
            rw [List.length_tail] at m1
            have : 0 < (xabs f.x).length ∨ (xabs f.x).length = 0 := by omega
            rcases this with h0 | h0
            · omega
            · -- no exception left: the fetched one is nul
              have hnil : xabs f.x = [] := List.length_eq_zero_iff.mp h0
              have : (fetchX xops f).exNul = true := by
                show (xops.pop f.x).1.isNul = true
                rw [v1, hnil]; rfl
              have m2 : mu eabs xabs (fetchX xops f) = (eabs f.e).length + 0 := by
                show (eabs f.e).length + (if (fetchX xops f).exNul then 0 else _) = _
                rw [this]; rfl
              omega
          obtain ⟨r1, r2, r3, r4, r5, r6⟩ := ih _ e hf1 he hmu1
          refine ⟨r1, r2, ?_, r4, r5, ?_⟩
          · rw [r3]
            simp only [filtAbs, hcs]
            simp only [curStarts, hx, Bool.false_eq_true, if_false]
            apply List.filter_congr
            intro y hy
            have hy : y ∈ eabs f.e := hy
            rw [passes_cons]
            have hne : (f.exBeg == y.from_) = false := by
              cases hl : eabs f.e with
              | nil => rw [hl] at hy; cases hy
              | cons a t =>
                rw [hl] at he es hy
                simp only [hd_cons] at he
                subst he
                have := (evLt_false_iff _ _).mp (es.head_le y hy)
                simp only [beq_eq_false_iff_ne, ne_eq]
                intro h; rw [h] at hk; omega
            simp [hne]
          · rw [e6, List.length_tail] at r6; omega
        · -- neither: the event passes
          rw [filtLoop_stop hx fuel heq hlt]
          refine ⟨hf, he, rfl, ?_, Nat.le_refl _, Nat.le_refl _⟩
          cases hl : eabs f.e with
          | nil => exact Or.inl rfl
          | cons a t =>
            right
            rw [hl] at he ew
            simp only [hd_cons] at he
            subst he
            have hk : key e.from_ ≤ key f.exBeg := by
              have : ¬ key f.exBeg < key e.from_ := by simpa [ltP, key] using hlt
              omega
            have hne : e.from_ ≠ f.exBeg := by simpa using heq
            have hew : e.from_ < 2^64 := ew e List.mem_cons_self
            simp only [curStarts, hx, Bool.false_eq_true, if_false, passes_cons]
            have h1 : (f.exBeg == e.from_) = false := by
              simp only [beq_eq_false_iff_ne, ne_eq]; exact fun h => hne h.symm
            simp only [h1, Bool.not_false, Bool.true_and, passes, List.any_map, Bool.not_eq_true',
              List.any_eq_false, Function.comp]
            intro x hxm
            simp only [beq_iff_eq]
            intro hxe
            have := c3 x hxm
            rw [hxe] at this
            exact hne (key_inj hew c2 (by omega))

/-- state after the initial peek of `next_evfilt` -/
def peekE (eops : Ops σ) (f : Filt σ τ) : Filt σ τ := { f with e := (eops.peek f.e).2 }

theorem filtNext_eq (fuel : Nat) (f : Filt σ τ) (popp : Bool) :
    filtNext eops xops fuel f popp =
      if popp then
        ((filtLoop eops xops fuel (peekE eops f) (eops.peek f.e).1).2,
          { (filtLoop eops xops fuel (peekE eops f) (eops.peek f.e).1).1 with
            e := (eops.pop (filtLoop eops xops fuel (peekE eops f) (eops.peek f.e).1).1.e).2 })
      else ((filtLoop eops xops fuel (peekE eops f) (eops.peek f.e).1).2,
            (filtLoop eops xops fuel (peekE eops f) (eops.peek f.e).1).1) := by
  cases popp <;> rfl

/-- invariant of the filter as a stream: representation invariant and enough fuel for the loop -/
def FiltI (eabs : σ → List Event) (xabs : τ → List Event) (EI : σ → Prop) (XI : τ → Prop)
    (fuel : Nat) (f : Filt σ τ) : Prop :=
  FiltInv xabs EI XI f ∧ (eabs f.e).length + (xabs f.x).length + 1 ≤ fuel

theorem mu_le (f : Filt σ τ) : mu eabs xabs f ≤ (eabs f.e).length + (xabs f.x).length + 1 := by
  unfold mu; split <;> omega

theorem filter_hd_tail {p : Event → Bool} {l : List Event} {e : Event} (he : e = hd l)
    (h : l = [] ∨ p e = true) : e = hd (l.filter p) ∧ l.tail.filter p = (l.filter p).tail := by
  cases l with
  | nil => exact ⟨he, rfl⟩
  | cons a t =>
    simp only [hd_cons] at he
    subst he
    rcases h with h | h
    · cases h
    · simp only [List.filter_cons, h, if_true, hd_cons, List.tail_cons, and_self]

/-- filter_spec: the filter refines the list of the events whose start is no exception start -/
theorem filt_refines (RE : Refines eops eabs EI) (RX : Refines xops xabs XI)
    (hE : ∀ s, EI s → SrcOK (eabs s)) (hX : ∀ s, XI s → SrcOK (xabs s)) (fuel : Nat) :
    Refines (filtOps eops xops fuel) (filtAbs eabs xabs) (FiltI eabs xabs EI XI fuel) := by
  -- the loop, started behind the initial peek
  have loop : ∀ f : Filt σ τ, FiltI eabs xabs EI XI fuel f →
      FiltInv xabs EI XI (filtLoop eops xops fuel (peekE eops f) (eops.peek f.e).1).1 ∧
      (filtLoop eops xops fuel (peekE eops f) (eops.peek f.e).1).2
        = hd (eabs (filtLoop eops xops fuel (peekE eops f) (eops.peek f.e).1).1.e) ∧
      filtAbs eabs xabs (filtLoop eops xops fuel (peekE eops f) (eops.peek f.e).1).1 = filtAbs eabs xabs f ∧
      (eabs (filtLoop eops xops fuel (peekE eops f) (eops.peek f.e).1).1.e = [] ∨
        passes (curStarts xabs (filtLoop eops xops fuel (peekE eops f) (eops.peek f.e).1).1)
          (filtLoop eops xops fuel (peekE eops f) (eops.peek f.e).1).2 = true) ∧
      (eabs (filtLoop eops xops fuel (peekE eops f) (eops.peek f.e).1).1.e).length ≤ (eabs f.e).length ∧
      (xabs (filtLoop eops xops fuel (peekE eops f) (eops.peek f.e).1).1.x).length ≤ (xabs f.x).length := by
    intro f hf
    have a0 : eabs (peekE eops f).e = eabs f.e := RE.peek_abs _ hf.1.e
    have hf0 : FiltInv xabs EI XI (peekE eops f) := ⟨RE.peek_inv _ hf.1.e, hf.1.x, hf.1.cur⟩
    have he0 : (eops.peek f.e).1 = hd (eabs (peekE eops f).e) := by rw [a0]; exact RE.peek_val _ hf.1.e
    have hmu0 : mu eabs xabs (peekE eops f) ≤ fuel := by
      have h1 := mu_le (eabs := eabs) (xabs := xabs) (peekE eops f)
      rw [a0] at h1
      have h2 := hf.2
      have h3 : (xabs (peekE eops f).x) = xabs f.x := rfl
      rw [h3] at h1
      omega
    obtain ⟨r1, r2, r3, r4, r5, r6⟩ := filtLoop_spec RE RX hE hX fuel _ _ hf0 he0 hmu0
    refine ⟨r1, r2, ?_, r4, ?_, r6⟩
    · rw [r3]; unfold filtAbs; rw [a0]; rfl
    · rw [a0] at r5; exact r5
  constructor
  · intro f hf
    obtain ⟨r1, r2, r3, r4, _, _⟩ := loop f hf
    show (filtNext eops xops fuel f false).1 = _
    rw [filtNext_eq]
    simp only [Bool.false_eq_true, if_false]
    rw [← r3]
    exact (filter_hd_tail r2 r4).1
  · intro f hf
    obtain ⟨r1, r2, r3, r4, _, _⟩ := loop f hf
    show filtAbs eabs xabs (filtNext eops xops fuel f false).2 = _
    rw [filtNext_eq]
    exact r3
  · intro f hf
    obtain ⟨r1, r2, r3, r4, r5, r6⟩ := loop f hf
    show FiltI eabs xabs EI XI fuel (filtNext eops xops fuel f false).2
    rw [filtNext_eq]
    refine ⟨r1, ?_⟩
    have := hf.2
    simp only [Bool.false_eq_true, if_false]
    omega
  · intro f hf
    obtain ⟨r1, r2, r3, r4, _, _⟩ := loop f hf
    show (filtNext eops xops fuel f true).1 = _
    rw [filtNext_eq]
    simp only [if_true]
    rw [← r3]
    exact (filter_hd_tail r2 r4).1
  · intro f hf
    obtain ⟨r1, r2, r3, r4, _, _⟩ := loop f hf
    show filtAbs eabs xabs (filtNext eops xops fuel f true).2 = _
    rw [filtNext_eq]
    simp only [if_true]
    rw [← r3]
    refine Eq.trans ?_ (filter_hd_tail r2 r4).2
    unfold filtAbs
    simp only []
    rw [RE.pop_abs _ r1.e]
    rfl
  · intro f hf
    obtain ⟨r1, r2, r3, r4, r5, r6⟩ := loop f hf
    show FiltI eabs xabs EI XI fuel (filtNext eops xops fuel f true).2
    rw [filtNext_eq]
    simp only [if_true]
    refine ⟨⟨RE.pop_inv _ r1.e, r1.x, r1.cur⟩, ?_⟩
    have := hf.2
    simp only []
    rw [RE.pop_abs _ r1.e, List.length_tail]
    omega

/-- `make_evfilt` establishes the invariant, and the filter then stands for the events of `e`
that start at no start of an exception of `x` -/
theorem filt_make (RX : Refines xops xabs XI) (hX : ∀ s, XI s → SrcOK (xabs s))
    {e : σ} {x : τ} (he : EI e) (hx : XI x) {fuel : Nat}
    (hfuel : (eabs e).length + (xabs x).length + 1 ≤ fuel) :
    FiltI eabs xabs EI XI fuel (Filt.make xops e x) ∧
    filtAbs eabs xabs (Filt.make xops e x)
      = (eabs e).filter (fun ev => !((xabs x).any (fun ex => ex.from_ == ev.from_))) := by
  obtain ⟨xn, xs, xw⟩ := hX _ hx
  have a1 : xabs (xops.pop x).2 = (xabs x).tail := RX.pop_abs _ hx
  have v1 : (xops.pop x).1 = hd (xabs x) := RX.pop_val _ hx
  refine ⟨⟨⟨he, RX.pop_inv _ hx, ?_⟩, ?_⟩, ?_⟩
  · intro hnn
    show (xops.pop x).1.from_ ≠ 0 ∧ (xops.pop x).1.from_ < 2^64 ∧
      ∀ y ∈ xabs (xops.pop x).2, key (xops.pop x).1.from_ ≤ key y.from_
    have hnn : (xops.pop x).1.isNul = false := hnn
    rw [v1] at hnn ⊢
    rw [a1]
    cases hxl : xabs x with
    | nil => rw [hxl] at hnn; simp [Event.isNul, Event.nul] at hnn
    | cons b t =>
      rw [hxl] at xs xw
      simp only [hd_cons, List.tail_cons]
      refine ⟨?_, xw b List.mem_cons_self, ?_⟩
      · have : b.isNul = false := xn b (by rw [hxl]; exact List.mem_cons_self)
        simpa [Event.isNul] using this
      · intro y hy
        exact (evLt_false_iff _ _).mp ((List.pairwise_cons.mp xs).1 y hy)
  · show (eabs e).length + (xabs (xops.pop x).2).length + 1 ≤ fuel
    rw [a1, List.length_tail]; omega
  · show (eabs e).filter (passes (curStarts xabs (Filt.make xops e x))) = _
    have hcs : curStarts xabs (Filt.make xops e x) = (xabs x).map (·.from_) := by
      show (if (xops.pop x).1.isNul then [] else (xops.pop x).1.from_ :: (xabs (xops.pop x).2).map (·.from_)) = _
      rw [v1, a1]
      cases hxl : xabs x with
      | nil => rfl
      | cons b t =>
        have : b.isNul = false := xn b (by rw [hxl]; exact List.mem_cons_self)
        simp [this]
    rw [hcs]
    apply List.filter_congr
    intro y _
    simp only [passes, List.any_map]
    rfl
end
end Echse.Stream
