/-
  C01 for the daily filler, part 4: a day of a round that passes the loop's tests, with a time of the enumeration, is an
  instance of the rule (`dly_inst`), and every instance is such a day and time (`dly_inst_conv`).
-/
import Echse.Lemmas.RrDlyRfc3
namespace Echse.Lemmas.RrRfc
open Echse.Rrule Echse.Instant Echse.Spec.RrOk Echse.Spec.Cal Echse.Spec.RuleExt Echse.Spec.Rfc
open Echse.Lemmas.RrOkBase

/-- the day of round `j` as a day number -/
theorem rnd_days (r : Rule) (p : Inst) (nti j : Nat) (hp : WfInst p) (hy : 1901 ≤ p.y) {y m d : Nat}
    (hc : Carry p.y p.m (rnd (dctx r p nti) j) y m d) (hy2 : y ≤ 2099) :
    days y m d = dayOf p + (j : Int) * (r.inter : Int) ∧ VDs y m d := by
  have hpm := hp.month
  have hpd := hp.day
  have hD : 1 ≤ rnd (dctx r p nti) j := by unfold rnd; show 1 ≤ p.d + j * r.inter; omega
  have h := carry_days hc hpm.1 hpm.2 hD (lowOk_seed hy) hy2
  obtain ⟨hv, -, -, -⟩ := hc.props hpm.1 hpm.2 hD
  have hyy := carry_year hc hpm.1 hpm.2 hD
  refine ⟨?_, hv.1, hv.2.1, hv.2.2.1, ?_⟩
  · rw [h]
    unfold dayOf
    rw [days_d p.y p.m p.d]
    show days p.y p.m 1 + ((p.d + j * r.inter : Nat) : Int) - 1 = _
    rw [Int.natCast_add, Int.natCast_mul]
    omega
  · rw [← ndom_eq hv.1 hv.2.1 (Or.inl (by omega)) hy2]; exact hv.2.2.2

/-- what the day loop looks at is an instance of the rule -/
theorem dly_inst (r : Rule) (p : Inst) (nti : Nat) (hr : WfRule r) (hp : WfInst p) (hy : 1901 ≤ p.y)
    (j y m d : Nat) (hc : Carry p.y p.m (rnd (dctx r p nti) j) y m d) (hy2 : y ≤ 2099)
    (hsk : dlySkipDay (dctx r p nti) m d (rndW (dctx r p nti) j) (getNdom y m) = false)
    (t : Tix) (ht : t ∈ (makeEnum p r).timesIx) :
    DailyInst r p ⟨y, m, d, t.2.1, t.2.2.1, t.2.2.2, p.ms⟩ := by
  have hpm := hp.month
  have hpd := hp.day
  have hD : 1 ≤ rnd (dctx r p nti) j := by unfold rnd; show 1 ≤ p.d + j * r.inter; omega
  obtain ⟨hv, -, -, -⟩ := hc.props hpm.1 hpm.2 hD
  obtain ⟨hdays, hvs⟩ := rnd_days r p nti j hp hy hc hy2
  have hyy := carry_year hc hpm.1 hpm.2 hD
  have hnd := ndom_eq hv.1 hv.2.1 (Or.inl (by omega)) hy2
  obtain ⟨m1, m2, m3⟩ := mem_timesIx ht
  obtain ⟨hk, hte⟩ := exp_of_enum (x := ⟨y, m, d, t.2.1, t.2.2.1, t.2.2.2, p.ms⟩) hr hp m1 m2 m3
  have hw : rndW (dctx r p nti) j = wdayOf (days y m d) := by
    unfold rndW; rw [hdays]; show wdayOf (dayOf p + ((j * r.inter : Nat) : Int)) = _; rw [Int.natCast_mul]
  have hwr := wdayOf_range (days y m d)
  rw [hw] at hsk
  obtain ⟨a, b, c⟩ := (dlySkipDay_iff r p nti hr hv hwr.1 hwr.2).1 hsk
  refine ⟨⟨hvs.1, hvs.2.1, hvs.2.2.1, hvs.2.2.2, rfl, hk⟩, ⟨j, hdays⟩, ⟨b, ?_, a⟩, hte⟩
  unfold mdayOk
  show r.dom = [] ∨ ∃ n ∈ r.dom, (0 < n ∧ n = (d : Int)) ∨ (n < 0 ∧ (monthLen y m : Int) + 1 + n = d)
  rw [← hnd]; exact c

/-- every instance is a day some round looks at and lets pass, with a time of the enumeration -/
theorem dly_inst_conv (r : Rule) (p : Inst) (nti : Nat) (hr : WfRule r) (hp : WfInst p)
    (hy : 1901 ≤ p.y) (x : Inst) (hx : DailyInst r p x) (hxy : x.y ≤ 2099) :
    ∃ k, Carry p.y p.m (rnd (dctx r p nti) k) x.y x.m x.d ∧
      dlySkipDay (dctx r p nti) x.m x.d (rndW (dctx r p nti) k) (getNdom x.y x.m) = false ∧
      dayOf x = dayOf p + (k : Int) * (r.inter : Int) ∧
      ∃ ix, (ix, x.H, x.M, x.S) ∈ (makeEnum p r).timesIx := by
  obtain ⟨⟨s1, s2, s3, s4, s5, s6⟩, ⟨k, hk⟩, ⟨d1, d2, d3⟩, hte⟩ := hx
  have hpm := hp.month
  have hpd := hp.day
  have hxv : VDs x.y x.m x.d := ⟨s1, s2, s3, s4⟩
  have hlt := days_lt_2100 hxv hxy
  have hge := days_ge_1901 hy hpm.1 hpm.2 hpd.1
  rw [days_2100] at hlt
  unfold dayOf at hk
  have hN : ((k * r.inter : Nat) : Int) = (k : Int) * (r.inter : Int) := Int.natCast_mul _ _
  have hD : 1 ≤ rnd (dctx r p nti) k := by unfold rnd; show 1 ≤ p.d + k * r.inter; omega
  have hrnd : rnd (dctx r p nti) k = p.d + k * r.inter := rfl
  have hd31 := hp.day.2
  have hb := ndom_bounds p.y p.m hpm.1 hpm.2
  obtain ⟨y2, m2, d2, -, hc⟩ := carryMon_spec (rnd (dctx r p nti) k + 1) p.y p.m (rnd (dctx r p nti) k) hpm.1 hpm.2
    (by omega) (by unfold pot; have := hp.year; omega)
  obtain ⟨e1, e2, e3⟩ := carry_of_days hc x.y x.m x.d hxv hxy hpm.1 hpm.2 hD (lowOk_seed hy)
    (by rw [hk, days_d p.y p.m p.d, hrnd]; omega)
  subst e1 e2 e3
  obtain ⟨hv, -, -, -⟩ := hc.props hpm.1 hpm.2 hD
  have hyy := carry_year hc hpm.1 hpm.2 hD
  have hnd := ndom_eq hv.1 hv.2.1 (Or.inl (by omega)) hxy
  refine ⟨k, hc, ?_, hk, ?_⟩
  · have hw : rndW (dctx r p nti) k = wdayOf (days x.y x.m x.d) := by
      unfold rndW; rw [hk]; show wdayOf (dayOf p + ((k * r.inter : Nat) : Int)) = _; rw [hN]; rfl
    have hwr := wdayOf_range (days x.y x.m x.d)
    rw [hw]
    refine (dlySkipDay_iff r p nti hr hv hwr.1 hwr.2).2 ⟨d3, d1, ?_⟩
    rw [hnd]; exact d2
  · obtain ⟨a, b, c⟩ := enum_of_exp hp s6 hte
    obtain ⟨iH, aH⟩ := mem_getElem? a
    obtain ⟨iM, aM⟩ := mem_getElem? b
    obtain ⟨iS, aS⟩ := mem_getElem? c
    exact ⟨(iH, iM, iS), (mem_timesIx_iff _ _ _ _ _ _ _).2 ⟨aH, aM, aS⟩⟩

end Echse.Lemmas.RrRfc
