/-
  C01 for the YEARLY / MONTHLY filler models, part 10: BYYEARDAY (`fill_yly_yd`) read for a date `x`
  (`mem_yly_yd_date`): the n-th day of the year or the |n|-th last, limited by the plain weekdays of BYDAY.
-/
import Echse.Lemmas.RrCandRfc9
import Echse.Lemmas.RuleExt18
namespace Echse.Lemmas.RrCandRfc
open Echse.Rrule Echse.Instant Echse.Spec.RrOk Echse.Lemmas.RrCandOk Echse.Spec.Rfc Echse.Lemmas.RrRfc
open Echse.Spec.Cal Echse.Spec.RuleExt Echse.Lemmas.RrMlyRfc Echse.Lemmas.RrOkBase

/-- a real date of a year is determined by its day number -/
theorem vds_days_inj {y m d m' d' : Nat} (h : VDs y m d) (h' : VDs y m' d') (e : days y m d = days y m' d') :
    m = m' ∧ d = d' := by
  have a := dkey_le_of_days h h' (by omega)
  have b := dkey_le_of_days h' h (by omega)
  have a1 := h.d31; have b1 := h'.d31
  unfold dkey at a b
  omega

theorem leapN_isLeap (y : Nat) (h1 : 1901 ≤ y) (h2 : y ≤ 2099) : yearLen y = 365 + leapN y := by
  unfold yearLen leapN isLeap
  by_cases c : y % 4 = 0
  · have : (y % 100 ≠ 0 ∨ y % 400 = 0) := by omega
    simp [c, this]
  · simp [c]

theorem dateIn_yday {x : Inst} (hx : DateIn x) : 1 ≤ ydayOf x ∧ ydayOf x ≤ 365 + (leapN x.y : Int) := by
  have hv := hx.v
  have ml1 : monthLen x.y 1 = 31 := rfl
  have ml12 : monthLen x.y 12 = 31 := rfl
  have h1 : VDs x.y 1 1 := ⟨by omega, by omega, by omega, by omega⟩
  have h12 : VDs x.y 12 31 := ⟨by omega, by omega, by omega, by omega⟩
  have a1 := h1.d31; have a2 := h12.d31; have a3 := hv.d31
  have lo : days x.y 1 1 ≤ days x.y x.m x.d := by
    by_cases c : dkey x.y 1 1 < dkey x.y x.m x.d
    · exact Int.le_of_lt (days_lt_of_dkey h1 hv c)
    · have : x.m = 1 ∧ x.d = 1 := by have := hv.1; have := hv.2.2.1; unfold dkey at c; omega
      rw [this.1, this.2]; exact Int.le_refl _
  have hi : days x.y x.m x.d ≤ days x.y 12 31 := by
    by_cases c : dkey x.y x.m x.d < dkey x.y 12 31
    · exact Int.le_of_lt (days_lt_of_dkey hv h12 c)
    · have : x.m = 12 ∧ x.d = 31 := by
        have := hv.2.1; have hd := hv.2.2.2
        unfold dkey at c
        have e12 : x.m = 12 := by omega
        rw [e12] at hd
        omega
      rw [this.1, this.2]; exact Int.le_refl _
  have e : days x.y 12 31 = days x.y 1 1 + 364 + (leapN x.y : Int) := by
    have hl := hx.lo; have hh := hx.hi
    unfold days leapN
    simp only [show ¬ (12 ≤ 2) by omega, show (1 ≤ 2) by omega, if_true, if_false]
    split <;> omega
  unfold ydayOf Echse.Spec.Rfc.dayOf
  omega

/-- the selection `fill_yly_yd` makes for one BYYEARDAY value -/
def ydSel (dow : List Int) (y wdMask : Nat) (mp : Bool) (yd0 : Int) : Option Nat :=
  if (if yd0 < 0 then yd0 + 366 + (leapN y : Int) else yd0) > 365 + (leapN y : Int) then none
  else if (ydToMd y (if yd0 < 0 then yd0 + 366 + (leapN y : Int) else yd0)).m = 0 then none
  else if wdMask ≠ 0 ∧ !dowLimitP dow wdMask y (ydToMd y (if yd0 < 0 then yd0 + 366 + (leapN y : Int) else yd0)).m
      (ydToMd y (if yd0 < 0 then yd0 + 366 + (leapN y : Int) else yd0)).d
      (ydGetWday y (toU32 (if yd0 < 0 then yd0 + 366 + (leapN y : Int) else yd0))) mp then none
  else some (packCand (ydToMd y (if yd0 < 0 then yd0 + 366 + (leapN y : Int) else yd0)).m
    (ydToMd y (if yd0 < 0 then yd0 + 366 + (leapN y : Int) else yd0)).d)

theorem fillYlyYd_eq (cand : List Nat) (y : Nat) (doy : List Int) (dow : List Int) (wdMask : Nat) (mp : Bool) :
    fillYlyYd cand y doy dow wdMask mp = doy.foldl (fun cand a => assO cand (ydSel dow y wdMask mp a)) cand := by
  unfold fillYlyYd
  congr 1
  funext cand yd0
  unfold ydSel
  dsimp only
  generalize (if yd0 < 0 then yd0 + 366 + (leapN y : Int) else yd0) = yd
  by_cases c2 : yd > 365 + (leapN y : Int)
  · rw [if_pos c2, if_pos c2]; rfl
  rw [if_neg c2, if_neg c2]
  by_cases c3 : (ydToMd y yd).m = 0
  · rw [if_pos c3, if_pos c3]; rfl
  rw [if_neg c3, if_neg c3]
  by_cases c1 : wdMask ≠ 0 ∧ (!dowLimitP dow wdMask y (ydToMd y yd).m (ydToMd y yd).d (ydGetWday y (toU32 yd)) mp) = true
  · rw [if_pos c1, if_pos c1]; rfl
  rw [if_neg c1, if_neg c1]; rfl

theorem ydToMd_zero (y : Nat) (h : y % 4 ≠ 0) : (ydToMd y 0).m = 0 := by
  rw [ydToMd_class, if_neg h]; decide

/-- the weekday of a day of the year -/
theorem ydGetWday_eq (y : Nat) (yd : Nat) (h : 1 ≤ yd ∧ yd ≤ 366) :
    ydGetWday y yd = wdAdd (ymdGetWday y 1 1) (yd - 1) := by
  have hw := ymdGetWday_range y 1 1
  unfold ydGetWday wdAdd u32
  dsimp only
  have e1 : (yd + 4294967296 - 1) % 4294967296 = yd - 1 := by omega
  rw [e1]
  have e2 : (ymdGetWday y 1 1 + (yd - 1)) % 4294967296 = ymdGetWday y 1 1 + (yd - 1) := by omega
  rw [e2]
  split <;> omega

/-- BYYEARDAY selection for the date `x` -/
def YdaySel (doy : List Int) (x : Inst) : Prop :=
  ∃ n ∈ doy, (0 < n ∧ n = ydayOf x) ∨ (n < 0 ∧ (yearLen x.y : Int) + 1 + n = ydayOf x)

/-- BYYEARDAY with the BYDAY limit (`fill_yly_yd`) for a date -/
theorem mem_yly_yd_date (cand : List Nat) (doy : List Int) (dow : List Int) (wdMask : Nat) (mp : Bool) (x : Inst)
    (hx : DateIn x) (hdoy : ∀ n ∈ doy, n ≠ 0 ∧ -366 ≤ n ∧ n ≤ 366) :
    packCand x.m x.d ∈ fillYlyYd cand x.y doy dow wdMask mp ↔ packCand x.m x.d ∈ cand ∨
      (YdaySel doy x ∧ DLimB dow wdMask x.y x.m x.d (wdayOf (dayOf x)) mp) := by
  have hv := hx.v
  have h31 := hv.d31
  have hm1 := hv.1
  have hm2 := hv.2.1
  have hyd := dateIn_yday hx
  have hyl := leapN_isLeap x.y hx.lo hx.hi
  have hln := leapN_le x.y
  have hdx : dayOf x = days x.y 1 1 + ydayOf x - 1 := by unfold ydayOf; omega
  -- what a value between 1 and the year's length selects
  have key : ∀ yd : Int, 1 ≤ yd → yd ≤ 365 + (leapN x.y : Int) →
      ((ydToMd x.y yd).m ≠ 0 ∧ (packCand x.m x.d = packCand (ydToMd x.y yd).m (ydToMd x.y yd).d ↔ yd = ydayOf x) ∧
        (yd = ydayOf x → ydGetWday x.y (toU32 yd) = wdayOf (dayOf x)) ∧
        (yd = ydayOf x → (ydToMd x.y yd).m = x.m ∧ (ydToMd x.y yd).d = x.d)) := by
    intro yd y1 y2
    have e : yd = ((yd.toNat : Nat) : Int) := by omega
    have hu : toU32 yd = yd.toNat := by unfold toU32 u32; omega
    have sp := Echse.RuleExt.ydToMd_spec x.y yd.toNat hx.lo hx.hi (by omega) (by
      have hle : leapN x.y = (if x.y % 4 = 0 then 1 else 0) := rfl
      rw [← hle]; omega)
    rw [← e] at sp
    obtain ⟨s1, s2, s3, s4, s5⟩ := sp
    have hvd : VDs x.y (ydToMd x.y yd).m (ydToMd x.y yd).d := ⟨s1, s2, s3, s4⟩
    have hinj : yd = ydayOf x → (ydToMd x.y yd).m = x.m ∧ (ydToMd x.y yd).d = x.d := by
      intro he
      have : days x.y (ydToMd x.y yd).m (ydToMd x.y yd).d = days x.y x.m x.d := by
        rw [s5, he]; unfold ydayOf Echse.Spec.Rfc.dayOf; omega
      exact vds_days_inj hvd hv this
    refine ⟨by omega, ?_, ?_, hinj⟩
    · constructor
      · intro he
        obtain ⟨e1, e2⟩ := packCand_inj ⟨hm1, hm2⟩ h31 ⟨s1, s2⟩ hvd.d31 he
        rw [← e1, ← e2] at s5
        unfold ydayOf Echse.Spec.Rfc.dayOf; omega
      · intro he
        obtain ⟨e1, e2⟩ := hinj he
        rw [e1, e2]
    · intro he
      rw [hu, ydGetWday_eq x.y yd.toNat (by omega),
        Echse.RuleExt.wday_eq x.y 1 1 (by have := hx.lo; omega) (by have := hx.hi; omega) (by omega) (by omega) (by omega),
        ← wdayOf_add, hdx]
      congr 1; omega
  rw [fillYlyYd_eq, mem_foldl_assO]
  apply or_congr Iff.rfl
  unfold YdaySel
  constructor
  · rintro ⟨n, hn, hs⟩
    have hnr := hdoy n hn
    unfold ydSel at hs
    generalize hyd' : (if n < 0 then n + 366 + (leapN x.y : Int) else n) = yd at hs
    by_cases c2 : yd > 365 + (leapN x.y : Int)
    · rw [if_pos c2] at hs; cases hs
    rw [if_neg c2] at hs
    by_cases c3 : (ydToMd x.y yd).m = 0
    · rw [if_pos c3] at hs; cases hs
    rw [if_neg c3] at hs
    by_cases c1 : wdMask ≠ 0 ∧ (!dowLimitP dow wdMask x.y (ydToMd x.y yd).m (ydToMd x.y yd).d
        (ydGetWday x.y (toU32 yd)) mp) = true
    · rw [if_pos c1] at hs; cases hs
    rw [if_neg c1] at hs
    injection hs with hs
    have y0 : 0 ≤ yd := by split at hyd' <;> omega
    have y1 : 1 ≤ yd := by
      by_cases e0 : yd = 0
      · exfalso
        have hl : x.y % 4 ≠ 0 := by
          intro hl; unfold leapN at hyd'; rw [if_pos hl] at hyd'; split at hyd' <;> omega
        rw [e0, ydToMd_zero x.y hl] at c3; exact c3 rfl
      · omega
    obtain ⟨_, k2, k3, k4⟩ := key yd y1 (by omega)
    have he := k2.1 hs.symm
    refine ⟨⟨n, hn, ?_⟩, ?_⟩
    · split at hyd'
      · right; exact ⟨by omega, by omega⟩
      · left; exact ⟨by omega, by omega⟩
    · have := (dlimB_neg _ _ _ _ _ _ _).1 c1
      rw [k3 he, (k4 he).1, (k4 he).2] at this
      exact this
  · rintro ⟨⟨n, hn, hc⟩, hw⟩
    refine ⟨n, hn, ?_⟩
    have hnr := hdoy n hn
    unfold ydSel
    have hyd' : (if n < 0 then n + 366 + (leapN x.y : Int) else n) = ydayOf x := by
      split <;> omega
    rw [hyd']
    obtain ⟨k1, k2, k3, k4⟩ := key (ydayOf x) hyd.1 hyd.2
    rw [if_neg (by omega), if_neg k1, if_neg (by
      rw [k3 rfl, (k4 rfl).1, (k4 rfl).2]
      exact (dlimB_neg _ _ _ _ _ _ _).2 hw)]
    rw [k2.2 rfl]

end Echse.Lemmas.RrCandRfc
