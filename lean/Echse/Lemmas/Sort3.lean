/-
  Sorting, part 3: the level loop of `WikiSort` (cache branch) and the main theorem.
-/
import Echse.Lemmas.Sort2
namespace Echse.Sort

variable {α : Type}

section
variable (lt : α → α → Bool) (key : α → Nat) (hlt : ∀ a b, lt a b = decide (key a < key b))
include hlt
variable [Inhabited α]

/-- one pass of the level loop: `2c` sorted ranges become `c` sorted ranges, elements with equal
keys keep their order -/
theorem level_step (it : WikiIter) (c w : Nat) (arr : List α) (L : Lvl it (2 * c) w) (hc : 0 < c)
    (hlen : arr.length = it.size)
    (hs : ∀ x ∈ chunks (lens it.size (2 * c) 0 (2 * c)) arr, SortedK key x) :
    let arr' := (mergeLevel lt (chunks (it.lengths (it.size + 1) 0 0) arr)).flatten
    arr'.length = it.size ∧ (∀ x ∈ chunks (lens it.size c 0 c) arr', SortedK key x) ∧
      ∀ k, fk key k arr' = fk key k arr := by
  intro arr'
  have hL : it.lengths (it.size + 1) 0 0 = lens it.size (2 * c) 0 (2 * c) := lengths_level it _ w L
  have hsum := lens_sum it.size (2 * c) L.hc
  obtain ⟨m1, m2, m3⟩ := mergeLevel_spec lt key hlt _ hs
  rw [chunks_map_length _ arr (by omega), pairSums_lens] at m2
  have harr' : arr' = (mergeLevel lt (chunks (lens it.size (2 * c) 0 (2 * c)) arr)).flatten := by
    simp only [arr', hL]
  rw [harr']
  refine ⟨?_, ?_, ?_⟩
  · rw [List.length_flatten, m2, lens_sum it.size c hc]
  · rw [← m2, chunks_of_flatten]
    exact m1
  · intro k
    rw [m3 k, chunks_flatten _ arr (by omega)]

theorem levels_spec (xs : List α) : ∀ fuel e it w (arr r : List α), Lvl it (2 * 2 ^ e) w →
    arr.length = it.size →
    (∀ x ∈ chunks (lens it.size (2 * 2 ^ e) 0 (2 * 2 ^ e)) arr, SortedK key x) →
    (∀ k, fk key k arr = fk key k xs) →
    levels lt fuel it arr = some r → SortedK key r ∧ ∀ k, fk key k r = fk key k xs := by
  intro fuel
  induction fuel with
  | zero => intro e it w arr r _ _ _ _ h; simp [levels] at h
  | succ fuel ih =>
    intro e it w arr r L hlen hs hf h
    have hpos : 0 < 2 ^ e := Nat.pow_pos (by omega)
    obtain ⟨s1, s2, s3⟩ := level_step lt key hlt it (2 ^ e) w arr L hpos hlen hs
    obtain ⟨n1, n2, n3⟩ := nextLevel_spec it (2 ^ e) w L hpos
    unfold levels at h
    by_cases c : it.decimalStep < 512
    · simp only [c, if_true] at h
      generalize (mergeLevel lt (chunks (it.lengths (it.size + 1) 0 0) arr)).flatten = arr' at h s1 s2 s3
      have hpair : it.nextLevel = (it.nextLevel.1, it.nextLevel.2) := rfl
      rw [hpair] at h
      simp only at h
      cases e with
      | zero =>
        rw [n3] at h
        simp only [Nat.pow_zero, Nat.lt_irrefl, decide_false, Bool.false_eq_true, if_false,
          Option.some.injEq] at h
        subst h
        have hone : lens it.size 1 0 1 = [it.size] := by
          simp [lens, bnd]
        rw [Nat.pow_zero, hone] at s2
        have := s2 (arr'.take it.size) (by simp [chunks])
        rw [List.take_of_length_le (by omega)] at this
        exact ⟨this, fun k => (s3 k).trans (hf k)⟩
      | succ e =>
        have h1 : 1 < 2 ^ (e + 1) := by
          have := Nat.pow_pos (n := e) (a := 2) (by omega)
          rw [Nat.pow_succ]; omega
        rw [n3] at h
        simp only [h1, decide_true, if_true] at h
        rw [Nat.pow_succ, Nat.mul_comm] at n1 s2
        apply ih e it.nextLevel.1 (2 * w) arr' r n1 (by rw [n2]; exact s1) (by rw [n2]; exact s2)
          (fun k => (s3 k).trans (hf k)) h
    · simp only [c, if_false] at h
      exact absurd h (by simp)

omit hlt in
theorem levels_isSome : ∀ fuel e it w (arr : List α), Lvl it (2 * 2 ^ e) w → it.size < 1024 →
    e < fuel → (levels lt fuel it arr).isSome = true := by
  intro fuel
  induction fuel with
  | zero => intro e it w arr _ _ h; omega
  | succ fuel ih =>
    intro e it w arr L hsz hfuel
    have hpos : 0 < 2 ^ e := Nat.pow_pos (by omega)
    obtain ⟨n1, n2, n3⟩ := nextLevel_spec it (2 ^ e) w L hpos
    have c : it.decimalStep < 512 := by
      rw [L.decimalStep_eq]
      have : it.size / (2 * 2 ^ e) ≤ it.size / 2 := Nat.div_le_div_left (by omega) (by omega)
      omega
    unfold levels
    simp only [c, if_true]
    have hpair : it.nextLevel = (it.nextLevel.1, it.nextLevel.2) := rfl
    rw [hpair]
    simp only
    cases e with
    | zero =>
      rw [n3]
      simp
    | succ e =>
      have h1 : 1 < 2 ^ (e + 1) := by
        have := Nat.pow_pos (n := e) (a := 2) (by omega)
        rw [Nat.pow_succ]; omega
      rw [n3]
      simp only [h1, decide_true, if_true]
      rw [Nat.pow_succ, Nat.mul_comm] at n1
      exact ih e _ (2 * w) _ n1 (by rw [n2]; exact hsz) (by omega)

/-- the array after the `InsertionSortBinary` pass over the level-0 ranges -/
theorem level0_spec (xs : List α) (it : WikiIter) (c w : Nat) (L : Lvl it c w) (hsz : it.size = xs.length) :
    let arr := ((chunks (it.lengths (xs.length + 1) 0 0) xs).map (insertionSortBinary lt)).flatten
    arr.length = it.size ∧ (∀ x ∈ chunks (lens it.size c 0 c) arr, SortedK key x) ∧
      ∀ k, fk key k arr = fk key k xs := by
  intro arr
  have hL : it.lengths (xs.length + 1) 0 0 = lens it.size c 0 c := by
    rw [← hsz]; exact lengths_level it c w L
  have hsum := lens_sum it.size c L.hc
  have hfun : insertionSortBinary lt = stableSort lt := funext (insertionSortBinary_eq lt key hlt)
  have harr : arr = ((chunks (lens it.size c 0 c) xs).map (stableSort lt)).flatten := by
    simp only [arr, hL, hfun]
  have hml : ((chunks (lens it.size c 0 c) xs).map (stableSort lt)).map List.length = lens it.size c 0 c := by
    rw [List.map_map]
    have : (List.length ∘ stableSort lt) = (List.length : List α → Nat) := by
      funext l
      exact (stableSort_perm lt key hlt l).length_eq
    rw [this, chunks_map_length _ xs (by omega)]
  rw [harr]
  refine ⟨?_, ?_, ?_⟩
  · rw [List.length_flatten, hml, hsum]
  · have hcf := chunks_of_flatten ((chunks (lens it.size c 0 c) xs).map (stableSort lt))
    rw [hml] at hcf
    rw [hcf]
    intro x hx
    obtain ⟨y, _, rfl⟩ := List.mem_map.mp hx
    exact stableSort_sorted lt key hlt y
  · intro k
    rw [fk_flatten_map_stableSort lt key hlt, chunks_flatten _ xs (by omega)]

/-- D -/
theorem wikiSortCache_eq (xs r : List α) (h : wikiSortCache lt xs = some r) : r = stableSort lt xs := by
  unfold wikiSortCache at h
  by_cases c : xs.length ≤ 32
  · simp only [c, if_true, Option.some.injEq] at h
    exact h.symm
  · simp only [c, if_false] at h
    obtain ⟨e, _, L, hsz⟩ := Lvl_new xs.length (by omega)
    obtain ⟨a1, a2, a3⟩ := level0_spec lt key hlt xs _ _ _ L hsz
    obtain ⟨b1, b2⟩ := levels_spec lt key hlt xs 70 e _ 1 _ r L a1 a2 a3 h
    exact eq_stableSort lt key hlt xs r b1 b2

omit hlt in
theorem wikiSortCache_isSome (xs : List α) (h : xs.length < 1024) : (wikiSortCache lt xs).isSome = true := by
  unfold wikiSortCache
  by_cases c : xs.length ≤ 32
  · simp only [c, if_true, Option.isSome_some]
  · simp only [c, if_false]
    obtain ⟨e, he, L, hsz⟩ := Lvl_new xs.length (by omega)
    exact levels_isSome lt 70 e _ 1 _ L (by rw [hsz]; exact h) (by omega)

end

/-! ### the iterator, level by level -/

/-- the iterator after `l` calls of `nextLevel` -/
def iterLevel : Nat → WikiIter → WikiIter
  | 0, it => it
  | l+1, it => (iterLevel l it).nextLevel.1

theorem lengths_mem (it : WikiIter) : ∀ fuel d f, ∀ x ∈ it.lengths fuel d f,
    x = it.decimalStep ∨ x = it.decimalStep + 1 := by
  intro fuel
  induction fuel with
  | zero => intro d f x hx; simp [WikiIter.lengths] at hx
  | succ fuel ih =>
    intro d f x hx
    unfold WikiIter.lengths at hx
    by_cases c : d ≥ it.size
    · simp [c] at hx
    · simp only [c, if_false] at hx
      by_cases cf : f + it.fractionalStep ≥ it.fractionalBase
      · simp only [cf, if_true, List.mem_cons] at hx
        rcases hx with e | m
        · right; omega
        · exact ih _ _ x m
      · simp only [cf, if_false, List.mem_cons] at hx
        rcases hx with e | m
        · left; omega
        · exact ih _ _ x m

theorem iterLevel_Lvl (it : WikiIter) (e w : Nat) (L : Lvl it (2 * 2 ^ e) w) : ∀ l, l ≤ e →
    Lvl (iterLevel l it) (2 * 2 ^ (e - l)) (2 ^ l * w) ∧ (iterLevel l it).size = it.size := by
  intro l
  induction l with
  | zero => intro _; simpa [iterLevel] using L
  | succ l ih =>
    intro hl
    obtain ⟨i1, i2⟩ := ih (by omega)
    have he : 2 * 2 ^ (e - l) = 2 * (2 * 2 ^ (e - (l + 1))) := by
      rw [show e - l = (e - (l + 1)) + 1 by omega, Nat.pow_succ]; omega
    rw [he] at i1
    obtain ⟨n1, n2, _⟩ := nextLevel_spec _ _ _ i1 (by have := Nat.pow_pos (n := e - (l + 1)) (a := 2) (by omega); omega)
    refine ⟨?_, by rw [← i2]; exact n2⟩
    rw [Nat.pow_succ, Nat.mul_comm (2 ^ l) 2, Nat.mul_assoc]
    exact n1

/-- C, all levels of `WikiIterator_new(size, 8)`: level `l ≤ e` has `2^(e+1-l)` ranges whose lengths
sum to `size` and are `decimalStep` or `decimalStep + 1`; the next level's ranges are the unions of
adjacent pairs; `nextLevel` reports "finished" exactly at level `e`, where two ranges are left. -/
theorem iter_levels (size : Nat) (h : 32 < size) :
    ∃ e, 1 ≤ e ∧ e ≤ 60 ∧ ∀ l, l ≤ e →
      let it := iterLevel l (WikiIter.new size 8)
      let L := it.lengths (size + 1) 0 0
      it.size = size ∧ L.length = 2 ^ (e + 1 - l) ∧ L.sum = size ∧
      (∀ x ∈ L, x = it.decimalStep ∨ x = it.decimalStep + 1) ∧
      it.nextLevel.1.lengths (size + 1) 0 0 = pairSums L ∧
      it.nextLevel.2 = decide (l < e) := by
  obtain ⟨p, hp, ep, le, mx⟩ := floorPow2_spec 64 size (by omega)
  obtain ⟨e, he, L0, hsz⟩ := Lvl_new size h
  have he1 : 1 ≤ e := by
    -- level 0 has at least 4 ranges: fractionalBase = floorPow2 size / 8 ≥ 32 / 8
    have h5 : 5 ≤ p := mx 5 (by omega) (by omega)
    have hfb := L0.hfb
    have : (WikiIter.new size 8).fractionalBase = 2 ^ p / 8 := by
      show floorPow2 64 size / 8 = _
      rw [ep]
    rw [this, Nat.mul_one] at hfb
    have : 2 ^ 5 ≤ 2 ^ p := Nat.pow_le_pow_right (by omega) h5
    rcases Nat.eq_zero_or_pos e with z | pos
    · subst z; simp at hfb; omega
    · exact pos
  refine ⟨e, he1, he, ?_⟩
  intro l hl it L
  obtain ⟨i1, i2⟩ := iterLevel_Lvl _ e 1 L0 l hl
  have hs : it.size = size := i2.trans hsz
  have hL : L = lens size (2 * 2 ^ (e - l)) 0 (2 * 2 ^ (e - l)) := by
    have := lengths_level _ _ _ i1
    rw [hs] at this
    exact this
  have hpos : 0 < 2 ^ (e - l) := Nat.pow_pos (by omega)
  obtain ⟨n1, n2, n3⟩ := nextLevel_spec _ _ _ i1 hpos
  refine ⟨hs, ?_, ?_, ?_, ?_, ?_⟩
  · rw [hL, lens, List.length_map, List.length_range', show e + 1 - l = (e - l) + 1 by omega,
      Nat.pow_succ, Nat.mul_comm]
  · rw [hL]; exact lens_sum _ _ (by omega)
  · exact lengths_mem it _ _ _
  · have := lengths_level _ _ _ n1
    rw [n2, hs] at this
    rw [this, hL, pairSums_lens]
  · rw [n3]
    congr 1
    apply propext
    constructor
    · intro h1
      rcases Nat.lt_or_ge l e with c | c
      · exact c
      · have : e - l = 0 := by omega
        rw [this] at h1; simp at h1
    · intro h1
      have : 2 ^ 1 ≤ 2 ^ (e - l) := Nat.pow_le_pow_right (by omega) (by omega)
      omega

end Echse.Sort
