/* the command line tool under test: echse.c of the scratch copy, unmodified (it reads files through one 64 KiB buffer) */
#define _GNU_SOURCE
#include "echse.c"
