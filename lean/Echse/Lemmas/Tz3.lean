/-
  Lemmas for C07, part 3: the instant level (`instantLoc`, `instantUtc`, `tzobOffs`),
  tied to the calendar specification through the C08 theorems.
-/
import Echse.Lemmas.Tz2
import Echse.Lemmas.Tz6
import Echse.Props.C08
namespace Echse.Tz
open Echse.Instant Echse.Spec.Cal

/-- `__inst_to_epoch` read as an integer -/
def ep (i : Inst) : Int := (instToEpoch i : Int)

theorem days_2038 : days 2038 1 1 = 744305 := by decide
theorem days_1901 : days 1901 1 1 = 694266 := by decide

theorem days_1902 : days 1902 1 1 = 694631 := by decide

/-- an instant of the years 1902..2037 has an epoch time (negative before 1970) that fits `int32_t`, with more
than two days to spare at either end (`24837 * 86400 = 2145916800`; `INT32_MIN` is 1901-12-13T20:45:52Z,
`INT32_MAX` 2038-01-19T03:14:07Z) -/
theorem ep_spec (i : Inst) (h : NormalSec i) (hy1 : 1902 ≤ i.y) (hy2 : i.y ≤ 2037) :
    ep i = absSec i - epochDays * 86400 ∧ -(24837 * 86400) ≤ ep i ∧ ep i < 24837 * 86400 := by
  have e := C08.toEpoch_spec i (Or.inl h) (by omega) (by omega)
  obtain ⟨⟨a1, a2, a3, a4⟩, a5, a6, a7, a8⟩ := h
  have l : days 1902 1 1 ≤ days i.y i.m i.d := by
    have := days_year_mono 1902 i.y hy1
    have := days_month_mono i.y 1 i.m (by omega) a1 a2
    have := days_d i.y i.m i.d
    omega
  rw [days_1902] at l
  have u := days_lt_of_lex i.y i.m i.d 2038 1 1 a1 a2 a4 (by omega) (by omega) (by omega) (Or.inl (by omega))
  rw [days_2038] at u
  unfold ep
  refine ⟨e, ?_, ?_⟩ <;> rw [e, epochDays_eq] <;> simp only [absSec] <;> omega

/-- … and it is not negative exactly from 1970 on -/
theorem ep_nonneg_iff (i : Inst) (h : NormalSec i) (hy1 : 1902 ≤ i.y) (hy2 : i.y ≤ 2037) :
    0 ≤ ep i ↔ 1970 ≤ i.y :=
  C08.toEpoch_nonneg_iff i h (by omega) (by omega)

theorem not_allDay (i : Inst) (h : i.H < 24) : i.isAllDay = false := by
  simp [Inst.isAllDay, allDay]; omega

/-- a second-resolution instant of 1901..2099, before or after the epoch, is determined by its epoch time -/
theorem ep_of_absSec (j : Inst) (h : NormalSec j) (t : Int) (h0 : -2177452800 ≤ t) (h1 : t < 4102444800)
    (e : absSec j = epochDays * 86400 + t) : ep j = t := by
  obtain ⟨n, a⟩ := C08.frEpoch_spec t h0 h1
  have : j = epochToInstI t := absSec_inj _ _ h n (by rw [a, e])
  unfold ep
  rw [this, C08.epoch_roundtrip' t h0 h1]

/-- `instantLoc`, with the facts about `instToEpoch` as explicit hypotheses -/
theorem instantLoc_gen (z : Zone) (wf : WF z) (c : ZRng) (hc : CacheOK z c) (i : Inst)
    (h : NormalSec i) (hr : InRange i) (hI : I32 (ep i))
    (hlo : days 1901 1 1 * 86400 ≤ absSec i + off z (ep i))
    (hhi : absSec i + off z (ep i) < days 2100 1 1 * 86400) :
    ∃ j c', instantLoc z c i = some (j, c') ∧ CacheOK z c' ∧ NormalSec j ∧ InRange j ∧
      absSec j = absSec i + off z (ep i) := by
  obtain ⟨c1, e1, h1⟩ := localTime_spec z wf c hc (ep i) hI
  obtain ⟨n, r, a⟩ := C08.add_spec_sec i (off z (ep i)) h hr hlo hhi
  refine ⟨_, c1, ?_, h1, n, r, a⟩
  unfold instantLoc
  rw [not_allDay i h.2.1]
  simp only [Bool.false_eq_true, if_false]
  unfold ep at e1
  rw [e1]
  simp only []
  have : 1000 * ((instToEpoch i : Int) + off z (instToEpoch i : Int) - (instToEpoch i : Int))
      = off z (ep i) * 1000 := by unfold ep; omega
  rw [this]

/-- `instantLoc` through a cache that holds a reported range leaves such a cache -/
theorem instantLoc_rng (z : Zone) (wf : WF z) (c : ZRng) (hc : CacheRng z c) (i : Inst)
    (h : NormalSec i) (hr : InRange i) (hI : I32 (ep i))
    (hlo : days 1901 1 1 * 86400 ≤ absSec i + off z (ep i))
    (hhi : absSec i + off z (ep i) < days 2100 1 1 * 86400) :
    ∃ j c', instantLoc z c i = some (j, c') ∧ CacheRng z c' ∧ NormalSec j ∧ InRange j ∧
      absSec j = absSec i + off z (ep i) := by
  have e1 := localTime_rng z wf c hc (ep i) hI
  obtain ⟨n, r, a⟩ := C08.add_spec_sec i (off z (ep i)) h hr hlo hhi
  refine ⟨_, _, ?_, cacheRng_rngAt z (ep i) hI, n, r, a⟩
  unfold instantLoc
  rw [not_allDay i h.2.1]
  simp only [Bool.false_eq_true, if_false]
  unfold ep at e1
  rw [e1]
  simp only []
  have : 1000 * ((instToEpoch i : Int) + off z (instToEpoch i : Int) - (instToEpoch i : Int))
      = off z (ep i) * 1000 := by unfold ep; omega
  rw [this]; rfl

/-- `instantUtc`, with the facts about `instToEpoch` as explicit hypotheses: the instant moves by
`utcVal z w − w`, `w` its epoch time; the cache is left on the stretch of the first guess -/
theorem instantUtc_gen (z : Zone) (wf : WF z) (c : ZRng) (hc : CacheRng z c) (i : Inst)
    (h : NormalSec i) (hr : InRange i) (hI : I32 (ep i)) (hI' : I32 (ep i - off z (ep i)))
    (hlo : days 1901 1 1 * 86400 ≤ absSec i + (utcVal z (ep i) - ep i))
    (hhi : absSec i + (utcVal z (ep i) - ep i) < days 2100 1 1 * 86400) :
    ∃ j c', instantUtc z c i = some (j, c') ∧ CacheRng z c' ∧ NormalSec j ∧ InRange j ∧
      absSec j = absSec i - (ep i - utcVal z (ep i)) := by
  have e1 := utcTime_eq' z wf c hc (ep i) hI hI'
  obtain ⟨n, r, a⟩ := C08.add_spec_sec i (utcVal z (ep i) - ep i) h hr hlo hhi
  refine ⟨_, _, ?_, cacheRng_rngAt z _ hI', n, r, by rw [a]; omega⟩
  unfold instantUtc
  rw [not_allDay i h.2.1]
  simp only [Bool.false_eq_true, if_false]
  unfold ep at e1
  rw [e1]
  simp only []
  have : 1000 * (utcVal z (instToEpoch i : Int) - (instToEpoch i : Int))
      = (utcVal z (ep i) - ep i) * 1000 := by unfold ep; omega
  rw [this]; rfl

theorem tzobOffs_gen (z : Zone) (wf : WF z) (i : Inst) (hH : i.H < 24) (hI : I32 (ep i)) :
    tzobOffs z i = some (off z (ep i)) := by
  unfold tzobOffs
  rw [not_allDay i hH]
  simp only [Bool.false_eq_true, if_false]
  unfold ep at *
  rw [clamp32_of_I32 _ hI, findZrng_eq z wf _ hI]
  simp only [Option.map_some, rngAt_offs]
  rfl

end Echse.Tz
