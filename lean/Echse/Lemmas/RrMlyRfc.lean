/-
  Property C01 for the monthly filler `rrul_fill_mly` (model `fillMly`) against the RFC 5545 specification
  `Echse.Spec.Rfc.MonthlyInst`, layer L1: no SHIFT, no BYSETPOS (BYEASTER plays no part in this filler).

    fillMly_sound          every instant written is an instance of the rule anchored at the seed
    fillMly_complete       none missing: an instance `x` at or after the seed, not after UNTIL and not after 2099 is in
                           the result `l`, or `l` is full (`capOf r n` elements: `n`, or COUNT if smaller) and all of `l`
                           comes before `x`
    fillMly_complete_sync  the same for a seed that is itself an occurrence

  Hypotheses added to the brief's:
    (gone: `SeedOk r p`, a DATE seed has no BYHOUR/BYMINUTE/BYSECOND -- `make_enum` ignores them there, as `TimeExp` does)
    `MlySup r`     BYMONTHDAY has at most 62 values (the parser's bit set).  BYDAY next to BYMONTHDAY limits through
                   `dow_limit_p`: a plain entry lets every such weekday pass, a numbered one the n-th of the month —
                   e.g. FREQ=MONTHLY;BYMONTHDAY=1;BYDAY=1MO: those 1sts of a month that are Mondays
    `MlyFirst r p` (completeness only) the rule has an occurrence within its first 336 periods: the code gives up
                   after MLY_TRIES = 337 periods without one; the calendar repeats after 336 months, so later periods
                   bring nothing new, except when the only dates the rule allows in the cycle fall into the seed's month
                   before the seed — a corner the proof leaves open (no counterexample known)
-/
import Echse.Lemmas.RrMlyRfc6
import Echse.Lemmas.RrRfcBase5
namespace Echse.Lemmas.RrMlyRfc
open Echse.Rrule Echse.Instant Echse.Spec.RrOk Echse.Lemmas.RrCandOk Echse.Spec.Rfc Echse.Lemmas.RrRfc
open Echse.Lemmas.RrCandRfc Echse.Lemmas.RrMlyOk Echse.Spec.Cal Echse.Spec.RuleExt Echse.Lemmas.RrOkBase

/-- the fuel `fillMly` gives its loop -/
def mlyFuel (nti : Nat) : Nat := mlyTries * (nti + 1) + 12 * 2100 + 1

/-- the ways a call can go (no SHIFT) -/
theorem fillMly_cases (r : Rule) (p : Inst) (n : Nat) (l : List Inst) (hr : WfRule r) (hp : WfInst p)
    (hsh : r.shift = 0) (h : fillMly r p n = some l) :
    (capNti r n = none ∧ l = []) ∨ ∃ nti, capNti r n = some nti ∧
      ((mlyStart r p = none ∧ l = []) ∨ ∃ q, mlyStart r p = some q ∧
        l = (mlyLoop (mlyCtxOf r p nti) (mlyFuel nti) q.1 q.2 mlyTries {}).out.reverse) := by
  rw [fillMly_eq] at h
  have h1 := hr.scale
  have h2 := hp.year
  have h3 := hp.month
  rw [if_neg (by omega)] at h
  cases hc : capNti r n with
  | none => rw [hc] at h; injection h with h; exact Or.inl ⟨rfl, h.symm⟩
  | some nti =>
    rw [hc] at h
    dsimp only at h
    rw [if_neg (by omega), if_neg (by rw [mlyTmp_zero r hsh]; omega)] at h
    right
    refine ⟨nti, rfl, ?_⟩
    cases hst : mlyStart r p with
    | none => rw [hst] at h; injection h with h; exact Or.inl ⟨rfl, h.symm⟩
    | some q =>
      rw [hst] at h
      obtain ⟨y, m⟩ := q
      injection h with h
      exact Or.inr ⟨(y, m), rfl, h.symm⟩

/-- C01, soundness of the monthly filler (no SHIFT, no BYSETPOS): every instant written is an instance of the rule
anchored at the seed -/
theorem fillMly_sound (r : Rule) (p : Inst) (n : Nat) (l : List Inst) (hr : WfRule r) (hp : WfInst p)
    (_hn : n ≤ 64) (hy : 1901 ≤ p.y) (hsup : MlySup r) (hsh : r.shift = 0) (hpos : r.pos = [])
    (h : fillMly r p n = some l) : ∀ x ∈ l, MonthlyInst r p x ∧ SetposOk r p x := by
  intro x hx
  refine ⟨?_, Or.inl hpos⟩
  rcases fillMly_cases r p n l hr hp hsh h with ⟨_, e⟩ | ⟨nti, _, ⟨_, e⟩ | ⟨q, hq, e⟩⟩
  · rw [e] at hx; cases hx
  · rw [e] at hx; cases hx
  · rw [e] at hx
    have hx := List.mem_reverse.mp hx
    rw [(mlyLoop_aLoop r p nti hsh hpos (mlyFuel nti) q).1] at hx
    have hst := mlyStart_spec r p hr hp hsh
    rw [hq] at hst
    rcases aLoop_mem (mkFillCtx r p nti) mlyTries _ _ _ (mly_loopHyp r p nti hr hp hsup hy) (mlyFuel nti) q mlyTries {}
      hst.1 x hx with h | ⟨q', r1, r2, r3, _⟩
    · cases h
    · exact mE_inst r p nti hr hp hsup hy q' r1 r2 x r3

/-- C01, completeness of the monthly filler (no SHIFT, no BYSETPOS): an instance `x` at or after the seed, not after
UNTIL and not after 2099 is in the result `l`, or `l` is full (`capOf r n` elements) and all of it comes before `x`.
Extra hypothesis `MlyFirst`: the rule has an occurrence within the first 336 periods (else the code gives up after
`MLY_TRIES` = 337 periods without one; see `fillMly_complete_sync` for seeds that are occurrences themselves). -/
theorem fillMly_complete (r : Rule) (p : Inst) (n : Nat) (l : List Inst) (hr : WfRule r) (hp : WfInst p)
    (_hn : n ≤ 64) (hy : 1901 ≤ p.y) (hsup : MlySup r) (hsh : r.shift = 0) (hpos : r.pos = [])
    (hf : MlyFirst r p) (h : fillMly r p n = some l)
    (x : Inst) (hx : MonthlyInst r p x) (hge : absOf p ≤ absOf x) (hle : ltP r.untl x = false) (hxy : x.y ≤ 2099) :
    x ∈ l ∨ (l.length = capOf r n ∧ ∀ z ∈ l, ltP z x = true) := by
  have hT : mTarget r p x := ⟨hx, (ge_seed hp hy hx.1 hxy hge).1, hle, hxy⟩
  rcases fillMly_cases r p n l hr hp hsh h with ⟨hc, e⟩ | ⟨nti, hc, ⟨hq, e⟩ | ⟨q, hq, e⟩⟩
  · right; rw [e]; unfold capOf; rw [hc]; exact ⟨rfl, fun z hz => by cases hz⟩
  · have hst := mlyStart_spec r p hr hp hsh
    rw [hq] at hst
    exact absurd hT (hst x)
  · have hst := mlyStart_spec r p hr hp hsh
    rw [hq] at hst
    have hsim := mlyLoop_aLoop r p nti hsh hpos (mlyFuel nti) q
    have hI : CInv (mkFillCtx r p nti) mlyTries (fun q : Nat × Int => q.1) (mE r p nti) (mReach r p) (mG r p)
        (mTarget r p) (mGi r p) q mlyTries {} := by
      refine ⟨hst.1, ⟨rfl, Nat.zero_le _⟩, rfl, ?_, ?_, ?_⟩
      · intro w hw hlt; exact absurd hlt (hst.2 w hw)
      · intro z hz; cases hz
      · intro h _ _; omega
    have hB : 25201 < qIdx q + mlyFuel nti := by
      have : 0 ≤ mlyTries * (nti + 1) := Nat.zero_le _
      have := hst.1.2.2.1
      unfold mlyFuel qIdx; omega
    have hcomp := aLoop_complete (mkFillCtx r p nti) mlyTries _ _ _ (mly_loopHyp r p nti hr hp hsup hy)
      (mly_targetHyp r p nti hr hp hsup hy hf) (by decide) (mlyFuel nti) q mlyTries {} hI hB x hT
    have hbase := aLoop_base (mkFillCtx r p nti) mlyTries (fun q : Nat × Int => q.1) (mE r p nti)
      (fun q => mlyNext r.mon r.inter 12 q.1 q.2) (mlyFuel nti) q mlyTries {} rfl (Nat.zero_le _)
    rw [← hsim.1, ← hsim.2.1] at hcomp
    rw [← hsim.1, ← hsim.2.1] at hbase
    have hcap : capOf r n = nti := by unfold capOf; rw [hc]; rfl
    rw [e, hcap]
    rcases hcomp with h1 | ⟨h1, h2⟩
    · exact Or.inl (List.mem_reverse.mpr h1)
    · right
      refine ⟨?_, fun z hz => h2 z (List.mem_reverse.mp hz)⟩
      rw [List.length_reverse, ← hbase.1]
      have hk : (mkFillCtx r p nti).nti = nti := rfl
      rw [hk] at h1 hbase
      have : ¬ (mlyLoop (mlyCtxOf r p nti) (mlyFuel nti) q.1 q.2 mlyTries {}).res < nti := by
        intro hlt; rw [decide_eq_true hlt] at h1; cases h1
      omega

/-- … in particular when the seed is itself an occurrence (DTSTART "synchronized with the rule", RFC 5545 3.8.5.3) -/
theorem fillMly_complete_sync (r : Rule) (p : Inst) (n : Nat) (l : List Inst) (hr : WfRule r) (hp : WfInst p)
    (hn : n ≤ 64) (hy : 1901 ≤ p.y) (hsup : MlySup r) (hsh : r.shift = 0) (hpos : r.pos = [])
    (hsync : MonthlyInst r p p) (h : fillMly r p n = some l)
    (x : Inst) (hx : MonthlyInst r p x) (hge : absOf p ≤ absOf x) (hle : ltP r.untl x = false) (hxy : x.y ≤ 2099) :
    x ∈ l ∨ (l.length = capOf r n ∧ ∀ z ∈ l, ltP z x = true) := by
  have hxp := (ge_seed hp hy hx.1 hxy hge).1
  have hf : MlyFirst r p := by
    refine ⟨p, hsync, ltP_irrefl p, ?_, ?_⟩
    · cases hu : ltP r.untl p with
      | false => rfl
      | true =>
        -- UNTIL before the seed: then x, not before the seed, would be after UNTIL
        exfalso
        unfold ltP at hu hxp hle
        simp only [decide_eq_true_eq, decide_eq_false_iff_not] at hu hxp hle
        omega
    · have := hr.inter
      have : 0 < 336 * r.inter := by omega
      omega
  exact fillMly_complete r p n l hr hp hn hy hsup hsh hpos hf h x hx hge hle hxy

end Echse.Lemmas.RrMlyRfc
