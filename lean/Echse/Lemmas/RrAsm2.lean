/-
  Assembly of C16 / C09, part 2: the weekly and the daily filler write only instants whose hour is one of the ENUM
  loop (`HFrom`), so `KindOk` is handed on from the seed to what is written (see RrAsm1).
-/
import Echse.Lemmas.RrAsm1
import Echse.Lemmas.RrWlyOk
import Echse.Lemmas.RrDlyOk
namespace Echse.Lemmas.RrAsm
open Echse.Rrule Echse.Instant Echse.Spec.RrOk
open Echse.Lemmas.RrOkBase

/-- all hours in the accumulator satisfy `G` -/
def AllH (G : Nat → Prop) (res : List Inst) : Prop := ∀ z ∈ res, G z.H

theorem AllH.nil (G : Nat → Prop) : AllH G [] := fun _ h => nomatch h

theorem genEnum_allH (G : Nat → Prop) (r : Rule) (p : Inst) (nti : Nat) (brk : Bool) (skip : Nat × Nat × Nat → Bool)
    (y m d : Nat) : ∀ (l : List Tix) (res : List Inst), (∀ t ∈ l, G (t.2.1 % 256)) → AllH G res →
      AllH G (genEnum r p nti brk skip y m d l res).1 := by
  intro l
  induction l with
  | nil => intro res _ h; exact h
  | cons t rest ih =>
    obtain ⟨ix, h, mi, s⟩ := t
    intro res hl hres
    have hl' : ∀ t ∈ rest, G (t.2.1 % 256) := fun t ht => hl t (List.mem_cons_of_mem _ ht)
    have hh : G (h % 256) := hl _ List.mem_cons_self
    unfold genEnum
    by_cases hlen : res.length < nti
    · simp only [hlen, not_true_eq_false, if_false]
      by_cases c1 : ltP (mkInst y m d h mi s p.ms) p = true
      · rw [if_pos c1]; exact ih res hl' hres
      · rw [if_neg c1]
        by_cases c2 : ltP r.untl (mkInst y m d h mi s p.ms) = true
        · rw [if_pos c2]; exact hres
        · rw [if_neg c2]
          by_cases c3 : brk = true
          · rw [if_pos c3]; exact hres
          · rw [if_neg c3]
            by_cases c4 : skip ix = true
            · rw [if_pos c4]; exact ih res hl' hres
            · rw [if_neg c4]
              apply ih _ hl'
              intro z hz
              rcases List.mem_cons.mp hz with e | e
              · rw [e]; exact hh
              · exact hres z e
    · simp only [hlen, not_false_eq_true, if_true]; exact hres

theorem wlyWeek_allH (G : Nat → Prop) (c : WlyCtx) (hc : ∀ t ∈ c.e.timesIx, G (t.2.1 % 256)) (nset : Nat) :
    ∀ (fuel incs ty tm td tmaxd nday : Nat) (res res' : List Inst) (fin : Bool), AllH G res →
      wlyWeek c nset fuel incs ty tm td tmaxd nday res = some (res', fin) → AllH G res' := by
  intro fuel
  induction fuel with
  | zero => intro _ _ _ _ _ _ _ _ _ _ h; cases h
  | succ fuel ih =>
    intro incs ty tm td tmaxd nday res res' fin hres h
    unfold wlyWeek at h
    dsimp only at h
    split at h
    · cases h
    · cases h; exact hres
    · rename_i ty2 tm2 td2 tmaxd2 _
      split at h
      · cases h; exact hres
      · have he := genEnum_allH G c.r c.proto c.nti (!bit c.mMask tm2)
          (wlySkip c nset (if bit c.mMask tm2 then nday + 1 else nday)) ty2 tm2 td2 c.e.timesIx res hc hres
        rw [← wlyEnum_eq] at he
        generalize wlyEnum c nset (if bit c.mMask tm2 then nday + 1 else nday) ty2 tm2 td2 c.e.timesIx res = w at he h
        obtain ⟨res2, fin2⟩ := w
        dsimp only at h he
        split at h
        · cases h; exact he
        split at h
        · exact ih _ _ _ _ _ _ _ _ _ he h
        · cases h; exact he

theorem wlyLoop_allH (G : Nat → Prop) (c : WlyCtx) (hc : ∀ t ∈ c.e.timesIx, G (t.2.1 % 256)) :
    ∀ (fuel y m d maxd : Nat) (res res' : List Inst), AllH G res →
      wlyLoop c fuel y m d maxd res = some res' → AllH G res' := by
  intro fuel
  induction fuel with
  | zero => intro _ _ _ _ _ _ _ h; cases h
  | succ fuel ih =>
    intro y m d maxd res res' hres h
    unfold wlyLoop at h
    split at h
    · cases h; exact hres
    dsimp only at h
    split at h
    · cases h
    · rename_i res2 hw
      cases h
      exact wlyWeek_allH G c hc _ _ _ _ _ _ _ _ _ _ _ hres hw
    · rename_i res2 hw
      have h2 := wlyWeek_allH G c hc _ _ _ _ _ _ _ _ _ _ _ hres hw
      split at h
      · cases h; exact h2
      split at h
      · cases h
      · cases h; exact h2
      · exact ih _ _ _ _ _ _ h2 h

theorem dlyLoop_allH (G : Nat → Prop) (c : DlyCtx) (hc : ∀ t ∈ c.e.timesIx, G (t.2.1 % 256)) :
    ∀ (fuel y m d w maxd : Nat) (res res' : List Inst), AllH G res →
      dlyLoop c fuel y m d w maxd res = some res' → AllH G res' := by
  intro fuel
  induction fuel with
  | zero => intro _ _ _ _ _ _ _ _ h; cases h
  | succ fuel ih =>
    intro y m d w maxd res res' hres h
    unfold dlyLoop at h
    split at h
    · cases h; exact hres
    split at h
    · cases h; exact hres
    dsimp only at h
    have he := genEnum_allH G c.r c.proto c.nti false (dlySkip c) y m d c.e.timesIx res hc hres
    rw [← dlyEnum_eq] at he
    generalize dlyEnum c y m d c.e.timesIx res = w2 at he h
    obtain ⟨res2, fin2⟩ := w2
    dsimp only at he
    split at h
    all_goals
      dsimp only at h
      split at h
      · cases h; assumption
      split at h
      · cases h
      · cases h; assumption
      · exact ih _ _ _ _ _ _ _ (by assumption) h

/-- the hours the ENUM loop visits are hours of `make_enum` -/
theorem timesIx_hfrom (r : Rule) (p : Inst) :
    ∀ t ∈ (makeEnum p r).timesIx, (fun h => h ∈ (makeEnum p r).H) (t.2.1 % 256) := by
  intro t ht
  have h1 := (mem_timesIx ht).1
  show t.2.1 % 256 ∈ (makeEnum p r).H
  rw [enumH_mod r p _ h1]; exact h1

theorem fillWly_hfrom (r : Rule) (p : Inst) (n : Nat) (l : List Inst) (h : fillWly r p n = some l) :
    ∀ x ∈ l, HFrom r p x := by
  unfold fillWly at h
  split at h
  · cases h
  split at h
  · cases h; exact fun x hx => (nomatch hx)
  dsimp only at h
  split at h
  · cases h; exact fun x hx => (nomatch hx)
  split at h
  · cases h; exact fun x hx => (nomatch hx)
  · obtain ⟨res, hw, rfl⟩ := Option.map_eq_some_iff.mp h
    have := wlyLoop_allH (fun h => h ∈ (makeEnum p r).H) _ (timesIx_hfrom r p) _ _ _ _ _ _ _ (AllH.nil _) hw
    exact fun x hx => this x (List.mem_reverse.mp hx)

theorem fillDly_hfrom (r : Rule) (p : Inst) (n : Nat) (l : List Inst) (h : fillDly r p n = some l) :
    ∀ x ∈ l, HFrom r p x := by
  unfold fillDly at h
  split at h
  · cases h
  split at h
  · cases h; exact fun x hx => (nomatch hx)
  dsimp only at h
  split at h
  · cases h; exact fun x hx => (nomatch hx)
  split at h
  · exact fillWly_hfrom r p _ l h
  · obtain ⟨res, hw, rfl⟩ := Option.map_eq_some_iff.mp h
    have := dlyLoop_allH (fun h => h ∈ (makeEnum p r).H) _ (timesIx_hfrom r p) _ _ _ _ _ _ _ _ (AllH.nil _) hw
    exact fun x hx => this x (List.mem_reverse.mp hx)

end Echse.Lemmas.RrAsm
