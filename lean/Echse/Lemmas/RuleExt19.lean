/-
  C17 lemmas, part 19: BYEASTER with one offset: inside the year it selects the day, outside nothing.
-/
import Echse.Lemmas.RuleExt18
namespace Echse.RuleExt
open Echse.Rrule Echse.Spec.Cal Echse.Spec.RuleExt Echse.Instant Echse.Gen

theorem year_days (y : Nat) (hy1 : 1901 ≤ y) (hy2 : y ≤ 2099) :
    days y 12 31 = days y 1 1 + 364 + (if y % 4 = 0 then 1 else 0) := by
  have j1 := jan00_doy y 12 31 hy1 hy2 (by omega) (by omega)
  have j2 := jan00_doy y 1 1 hy1 hy2 (by omega) (by omega)
  have i1 : instDoy.getD 1 0 = 0 := by decide
  have i2 : instDoy.getD 12 0 = 334 := by decide
  rw [i1] at j2; rw [i2] at j1
  by_cases h : y % 4 = 0 <;> simp [h] at j1 j2 ⊢ <;> omega

theorem eastrYd_in (yd0 : Nat) (o : Int) (h : 0 ≤ (yd0 : Int) + o) (h2 : (yd0 : Int) + o ≤ 1000) :
    eastrYd yd0 o = ((yd0 : Int) + o).toNat := by
  unfold eastrYd u32
  rw [if_neg (by omega)]; omega

theorem selects_core (y yd0 : Nat) (o : Int) (hy1 : 1901 ≤ y) (hy2 : y ≤ 2099) (h0 : yd0 ≠ 0)
    (h1 : 1 ≤ (yd0 : Int) + o) (h2 : (yd0 : Int) + o ≤ 365 + (if y % 4 = 0 then 1 else 0)) :
    eastrOk y yd0 o ∧ VCand y (eastrVal y yd0 o) ∧
      days y (unpackCand (eastrVal y yd0 o)).m (unpackCand (eastrVal y yd0 o)).d = days y 1 1 + ((yd0 : Int) + o) - 1 := by
  have hle : (yd0 : Int) + o ≤ 1000 := by split at h2 <;> omega
  have e := eastrYd_in yd0 o (by omega) hle
  have hs2 : ((yd0 : Int) + o).toNat ≤ 365 + (if y % 4 = 0 then 1 else 0) := by
    by_cases hl : y % 4 = 0 <;> simp only [hl, if_true, if_false] at h2 ⊢ <;> omega
  obtain ⟨c1, c2, c3, c4, c5⟩ := ydToMd_spec y ((yd0 : Int) + o).toNat hy1 hy2 (by omega) hs2
  have hml := monthLen_pos y _ c1 c2
  have hup := unpack_pack _ _ c1 c2 (by omega : (ydToMd y (((yd0 : Int) + o).toNat : Nat)).d ≤ 31)
  unfold eastrOk VCand eastrVal
  rw [e, hup]
  refine ⟨⟨h0, ?_, by omega⟩, ⟨c1, c2, c3, c4⟩, by rw [c5]; omega⟩
  intro hc
  rcases hc with hc | hc <;> omega

theorem outside_core (y yd0 : Nat) (o : Int) (hb : yd0 ≤ 116) (ho : -366 ≤ o ∧ o ≤ 366)
    (h : (yd0 : Int) + o ≤ 0 ∨ (yd0 : Int) + o > 365 + (if y % 4 = 0 then 1 else 0)) : ¬ eastrOk y yd0 o := by
  unfold eastrOk
  intro ⟨_, h2, _⟩
  apply h2
  unfold eastrYd u32
  by_cases hl : y % 4 = 0 <;> simp only [hl, if_true, if_false] at h ⊢ <;> split <;> omega

theorem byeaster_selects (y : Nat) (o : Int) (hy1 : 1901 ≤ y) (hy2 : y ≤ 2099)
    (hin : days y 1 1 ≤ easterDay y + o ∧ easterDay y + o ≤ days y 12 31) :
    ∃ c, fillYlyEastr [] y [o] [] [] 0 = [c] ∧ VCand y c ∧
      days y (unpackCand c).m (unpackCand c).d = easterDay y + o := by
  have hyd := easter_yday y hy1 hy2
  have hbd := easter_yday_bounds y hy1 hy2
  have hyr := year_days y hy1 hy2
  rw [fill_single]
  generalize easterGetYday y = yd0 at *
  obtain ⟨a, b, c⟩ := selects_core y yd0 o hy1 hy2 (by omega) (by omega) (by omega)
  exact ⟨eastrVal y yd0 o, by rw [if_pos a], b, by rw [c]; omega⟩

theorem byeaster_outside (y : Nat) (o : Int) (hy1 : 1901 ≤ y) (hy2 : y ≤ 2099) (ho : -366 ≤ o ∧ o ≤ 366)
    (hout : easterDay y + o < days y 1 1 ∨ days y 12 31 < easterDay y + o) :
    fillYlyEastr [] y [o] [] [] 0 = [] := by
  have hyd := easter_yday y hy1 hy2
  have hbd := easter_yday_bounds y hy1 hy2
  have hyr := year_days y hy1 hy2
  rw [fill_single]
  generalize easterGetYday y = yd0 at *
  rw [if_neg (outside_core y yd0 o hbd.2 ho (by omega))]
end Echse.RuleExt
