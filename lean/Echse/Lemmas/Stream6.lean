/-
  Stream layer, part 6: concrete guards that imply `Guard`, what a mux hands to the next level
  (a mux of muxes, a filter over muxes), and the mux/filter algebra.
-/
import Echse.Lemmas.Stream4
import Echse.Lemmas.Stream5
namespace Echse.Stream

/-! ### concrete guards -/

/-- each source is free of twins and holds a single UID at any one instant -/
def OneUidPerInstant (ls : List (List Event)) : Prop :=
  ∀ l ∈ ls, NoTwin l ∧ ∀ a ∈ l, ∀ b ∈ l, a.from_ = b.from_ → a.oid = b.oid

/-- each source is free of twins and no occurrence is listed by two different sources -/
def DisjointSrc (ls : List (List Event)) : Prop :=
  (∀ l ∈ ls, NoTwin l) ∧ ls.Pairwise (fun l1 l2 => ∀ x ∈ l1, ∀ y ∈ l2, evEq x y = false)

theorem NoTwin.eq_of_evEq {l : List Event} (h : NoTwin l) {z x : Event} (hz : z ∈ l) (hx : x ∈ l)
    (he : evEq z x = true) : z = x := by
  induction l with
  | nil => cases hz
  | cons a t ih =>
    have hp := List.pairwise_cons.mp h
    rcases List.mem_cons.mp hz with hza | hzt
    · rcases List.mem_cons.mp hx with hxa | hxt
      · rw [hza, hxa]
      · rw [hza, hp.1 x hxt] at he; cases he
    · rcases List.mem_cons.mp hx with hxa | hxt
      · rw [hxa, evEq_comm, hp.1 z hzt] at he; cases he
      · exact ih hp.2 hzt hxt

theorem pairwise_of_forall_mem {α : Type} {R : α → α → Prop} :
    ∀ (l : List α), (∀ a ∈ l, ∀ b ∈ l, R a b) → l.Pairwise R := by
  intro l
  induction l with
  | nil => intro _; exact List.Pairwise.nil
  | cons a t ih =>
    intro h
    refine List.pairwise_cons.mpr ⟨fun b hb => h a List.mem_cons_self b (List.mem_cons_of_mem _ hb), ?_⟩
    exact ih (fun x hx y hy => h x (List.mem_cons_of_mem _ hx) y (List.mem_cons_of_mem _ hy))

theorem guard_of_oneUid {ls : List (List Event)} (hw : ∀ l ∈ ls, Words l) (h : OneUidPerInstant ls) :
    Guard ls := by
  have lone : ∀ l ∈ ls, ∀ x ∈ l, Lone x l := by
    intro l hl x hx z hz hk
    have hf : z.from_ = x.from_ := key_inj (hw l hl z hz) (hw l hl x hx) hk
    have ho := (h l hl).2 z hz x hx hf
    exact (h l hl).1.eq_of_evEq hz hx ((evEq_iff z x).mpr ⟨ho, hf⟩)
  refine ⟨fun l hl => (h l hl).1, pairwise_of_forall_mem ls ?_⟩
  intro l1 h1 l2 h2 x hx y hy _
  exact ⟨lone l1 h1 x hx, lone l2 h2 y hy⟩

theorem guard_of_disjoint {ls : List (List Event)} (h : DisjointSrc ls) : Guard ls := by
  refine ⟨h.1, List.Pairwise.imp ?_ h.2⟩
  intro l1 l2 hd x hx y hy he
  rw [hd x hx y hy] at he; cases he

/-- the form with plain `Nodup`: it needs in addition that a source does not list one
occurrence with two durations -/
theorem oneUid_of_nodup {ls : List (List Event)}
    (h : ∀ l ∈ ls, l.Nodup ∧ ∀ a ∈ l, ∀ b ∈ l, a.from_ = b.from_ → a.oid = b.oid)
    (hd : ∀ l ∈ ls, ∀ a ∈ l, ∀ b ∈ l, evEq a b = true → a = b) : OneUidPerInstant ls := by
  intro l hl
  refine ⟨?_, (h l hl).2⟩
  have := (h l hl).1
  unfold List.Nodup at this
  refine List.Pairwise.imp_of_mem ?_ this
  intro a b ha hb hne
  cases he : evEq a b
  · rfl
  · exact absurd (hd l hl a ha b hb he) hne

/-! ### sizes -/

theorem mergeFuel_length : ∀ (n : Nat) (ls : List (List Event)), (mergeFuel n ls).length ≤ n := by
  intro n
  induction n with
  | zero => intro ls; simp [mergeFuel]
  | succ n ih =>
    intro ls
    simp only [mergeFuel]
    split
    · simp
    · simp only [List.length_cons]; have := ih (lstep ls true).2; omega

theorem mergeRef_length (ls : List (List Event)) : (mergeRef ls).length ≤ total ls :=
  mergeFuel_length _ ls

theorem total_map_length {σ : Type} (abs : σ → List Event) : ∀ ss : List σ,
    total (ss.map abs) = ((ss.map abs).map List.length).sum := by
  intro ss
  induction ss with
  | nil => rfl
  | cons s ss ih => simp only [List.map_cons, total, ih, List.sum_cons]

/-! ### what a mux hands to the next level -/

section
variable {σ : Type} {ops : Ops σ} {abs : σ → List Event} {I : σ → Prop}

/-- sources free of twins, with 64-bit starts -/
def TwinFreeWords (ls : List (List Event)) : Prop := (∀ l ∈ ls, NoTwin l) ∧ ∀ l ∈ ls, Words l

theorem TwinFreeWords.suf {ls' ls : List (List Event)} (h : LSuf ls' ls) (p : TwinFreeWords ls) :
    TwinFreeWords ls' := by
  constructor
  · intro l' hl'
    obtain ⟨l, hl, hs⟩ := h.mem l' hl'
    exact (p.1 l hl).suffix hs
  · intro l' hl' e he
    obtain ⟨l, hl, hs⟩ := h.mem l' hl'
    exact p.2 l hl e (hs.subset he)

theorem mergeRef_words {ls : List (List Event)} (hv : Valid ls) (hw : ∀ l ∈ ls, Words l) :
    Words (mergeRef ls) := by
  intro e he
  obtain ⟨l, hl, hm⟩ := mergeRef_sub hv e he
  exact hw l hl e hm

/-- the mux of sources with 64-bit starts is a source the filter accepts -/
theorem mux_refines_words (R : Refines ops abs I) (hsrc : ∀ s, I s → NonNul (abs s) ∧ Sorted (abs s)) :
    Refines (muxOps ops) (muxAbs abs) (fun m => MuxInv abs I m ∧ TwinFreeWords (rem abs m)) :=
  mux_refines_of R hsrc TwinFreeWords (fun _ p => p.1) (fun _ _ h p => p.suf h)

theorem muxAbs_srcOK (hsrc : ∀ s, I s → NonNul (abs s) ∧ Sorted (abs s)) {m : Mux σ}
    (h : MuxInv abs I m ∧ TwinFreeWords (rem abs m)) : SrcOK (muxAbs abs m) :=
  ⟨mergeRef_nonnul (rem_valid hsrc h.1), mergeRef_sorted (rem_valid hsrc h.1),
   mergeRef_words (rem_valid hsrc h.1) h.2.2⟩

end

/-! ### the algebra of filter and mux -/

section
variable {σ τ : Type} {eops : Ops σ} {xops : Ops τ} {eabs : σ → List Event} {xabs : τ → List Event}
  {EI : σ → Prop} {XI : τ → Prop}

/-- what a filter over two muxes delivers: the events of the event sources (identical ones
collapsed) whose start is not the start of any event of any exception source -/
theorem filt_mux_algebra (RE : Refines eops eabs EI) (RX : Refines xops xabs XI)
    (hE : ∀ s, EI s → SrcOK (eabs s) ∧ NoTwin (eabs s)) (hX : ∀ s, XI s → SrcOK (xabs s) ∧ NoTwin (xabs s))
    (es : List σ) (xs : List τ) (hes : ∀ s ∈ es, EI s) (hxs : ∀ s ∈ xs, XI s)
    (fuel : Nat) (hfuel : total (es.map eabs) + total (xs.map xabs) + 1 ≤ fuel) (sc : List Bool) :
    (∀ ev ∈ popped (filtOps (muxOps eops) (muxOps xops) fuel)
          (Filt.make (muxOps xops) (Mux.make es) (Mux.make xs)) sc, ev.isNul = false →
        (∃ s ∈ es, ev ∈ eabs s) ∧ ∀ t ∈ xs, ∀ ex ∈ xabs t, ex.from_ ≠ ev.from_) ∧
    (total (es.map eabs) ≤ pops sc → ∀ s ∈ es, ∀ ev ∈ eabs s,
        (∀ t ∈ xs, ∀ ex ∈ xabs t, ex.from_ ≠ ev.from_) →
        ∃ ev' ∈ popped (filtOps (muxOps eops) (muxOps xops) fuel)
          (Filt.make (muxOps xops) (Mux.make es) (Mux.make xs)) sc, evEq ev' ev = true) := by
  have hsE : ∀ s, EI s → NonNul (eabs s) ∧ Sorted (eabs s) := fun s h => ⟨(hE s h).1.1, (hE s h).1.2.1⟩
  have hsX : ∀ s, XI s → NonNul (xabs s) ∧ Sorted (xabs s) := fun s h => ⟨(hX s h).1.1, (hX s h).1.2.1⟩
  have RE' := mux_refines_words RE hsE
  have RX' := mux_refines_words RX hsX
  have hE' : ∀ m, (MuxInv eabs EI m ∧ TwinFreeWords (rem eabs m)) → SrcOK (muxAbs eabs m) :=
    fun m h => muxAbs_srcOK hsE h
  have hX' : ∀ m, (MuxInv xabs XI m ∧ TwinFreeWords (rem xabs m)) → SrcOK (muxAbs xabs m) :=
    fun m h => muxAbs_srcOK hsX h
  have he : MuxInv eabs EI (Mux.make es) ∧ TwinFreeWords (rem eabs (Mux.make es)) := by
    refine ⟨MuxInv.make hes, ?_, ?_⟩ <;>
    · intro l hl
      rw [rem_make] at hl
      obtain ⟨s, hs, rfl⟩ := List.mem_map.mp hl
      first
        | exact (hE s (hes s hs)).2
        | exact (hE s (hes s hs)).1.2.2
  have hx : MuxInv xabs XI (Mux.make xs) ∧ TwinFreeWords (rem xabs (Mux.make xs)) := by
    refine ⟨MuxInv.make hxs, ?_, ?_⟩ <;>
    · intro l hl
      rw [rem_make] at hl
      obtain ⟨s, hs, rfl⟩ := List.mem_map.mp hl
      first
        | exact (hX s (hxs s hs)).2
        | exact (hX s (hxs s hs)).1.2.2
  have hvE : Valid (es.map eabs) := by
    intro l hl
    obtain ⟨s, hs, rfl⟩ := List.mem_map.mp hl
    exact hsE s (hes s hs)
  have hvX : Valid (xs.map xabs) := by
    intro l hl
    obtain ⟨s, hs, rfl⟩ := List.mem_map.mp hl
    exact hsX s (hxs s hs)
  have hlenE : (muxAbs eabs (Mux.make es)).length ≤ total (es.map eabs) := mergeRef_length _
  have hlenX : (muxAbs xabs (Mux.make xs)).length ≤ total (xs.map xabs) := mergeRef_length _
  obtain ⟨hI, habs⟩ := filt_make (eabs := muxAbs eabs) (EI := fun m => MuxInv eabs EI m ∧ TwinFreeWords (rem eabs m)) (e := Mux.make es) (x := Mux.make xs) RX' hX' he hx (fuel := fuel) (by omega)
  have hpop := (filt_refines RE' RX' hE' hX' fuel).popped_eq sc _ hI
  rw [hpop, habs]
  have hmE : muxAbs eabs (Mux.make es) = mergeRef (es.map eabs) := rfl
  have hmX : muxAbs xabs (Mux.make xs) = mergeRef (xs.map xabs) := rfl
  rw [hmE, hmX]
  constructor
  · intro ev hev hn
    have hmem := mem_deliver hev hn
    rw [List.mem_filter] at hmem
    obtain ⟨l, hl, hm⟩ := mergeRef_sub hvE ev hmem.1
    obtain ⟨s, hs, rfl⟩ := List.mem_map.mp hl
    refine ⟨⟨s, hs, hm⟩, ?_⟩
    intro t ht ex hex
    obtain ⟨ex', hex', hq⟩ := mergeRef_complete hvX (xabs t) (List.mem_map_of_mem ht) ex hex
    have hp := hmem.2
    simp only [Bool.not_eq_true', List.any_eq_false, beq_iff_eq] at hp
    rw [← evEq_from hq]
    exact hp ex' hex'
  · intro hpops s hs ev hev hnot
    obtain ⟨ev', hev', hq⟩ := mergeRef_complete hvE (eabs s) (List.mem_map_of_mem hs) ev hev
    refine ⟨ev', ?_, hq⟩
    apply mem_deliver_of_le
    · have := List.length_filter_le (fun ev => !((mergeRef (xs.map xabs)).any (fun ex => ex.from_ == ev.from_)))
        (mergeRef (es.map eabs))
      rw [hmE] at hlenE
      omega
    · rw [List.mem_filter]
      refine ⟨hev', ?_⟩
      simp only [Bool.not_eq_true', List.any_eq_false, beq_iff_eq]
      intro ex hex
      obtain ⟨l, hl, hm⟩ := mergeRef_sub hvX ex hex
      obtain ⟨t, ht, rfl⟩ := List.mem_map.mp hl
      rw [evEq_from hq]
      exact hnot t ht ex hm

end
end Echse.Stream
