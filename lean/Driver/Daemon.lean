import Echse.Model.Daemon
import Echse.Model.Conn
import Echse.Model.Instant
import Driver.Util
open Echse.Daemon
namespace Driver

structure DSt where
  s : St
  cut : Option (Nat × String) := none      -- armed K
  fault : Option (Nat × String) := none    -- armed F
  lastT : Nat := 0

def parseInstr? (tok : String) : Option Instr :=
  match tok.splitOn "|" with
  | ["S", uid, owner, ms, dur, occ, isTask] => do
    let ms ← ms.toNat?
    let dur ← dur.toNat?
    let occ ← (if occ == "" then some [] else (occ.splitOn ",").mapM String.toNat?)
    let owner := if owner == "-" then none else owner.toNat?
    pure (.sched uid owner ms dur occ (isTask == "1"))
  | ["U", uid] => some (.cancel uid)
  | _ => none

def showSpawn (sp : Spawn) : String :=
  s!"sp({sp.uid},nd={if sp.nd then 1 else 0},dur=PT{sp.durS}S,as={sp.asUid})"

def curHex (c : Nat) : String :=
  if c == 0 then toHex16 0 else toHex16 (Echse.Instant.epochToInst c).pack

def sortStrs (xs : List String) : List String := (xs.toArray.qsort (· < ·)).toList

def showTable (s : St) : String :=
  let rows := (s.tasks.filter (·.inTable)).map fun t => (t.uid, s!"{t.uid}:{t.owner}:{curHex t.cur}:{t.nsim}")
  let rows := (rows.toArray.qsort (fun a b => a.1 < b.1)).toList
  joinWith "," (rows.map (·.2))

def showFiles (s : St) : String :=
  let fs := s.files.map fun ((u : Nat), (ts : List DTask)) =>
    (s!"echsq_{u}.ics", s!"echsq_{u}.ics:" ++ joinWith "+" (sortStrs (ts.map DTask.uid)))
  let fs := (fs.toArray.qsort (fun a b => a.1 < b.1)).toList
  joinWith "," (fs.map (·.2))

def dStep (d : DSt) (op : List String) : DSt × String :=
  match op with
  | ["T", t] => match t.toNat? with
    | some t =>
      let (s, sps) := tick d.s t
      ({ d with s := s, lastT := t }, joinWith "," (sps.map showSpawn))
    | none => (d, "bad-op")
  | ["TB", t, _busy] => match t.toNat? with
    -- an iteration whose callbacks take a while on the wall clock: nothing in echsd asks libev to look at the clock
    -- again (`ev_loop_fork` is not called), so it is an iteration like any other
    | some t =>
      let (s, sps) := tick d.s t
      ({ d with s := s, lastT := t }, joinWith "," (sps.map showSpawn))
    | none => (d, "bad-op")
  | ["J", t] => match t.toNat? with
    | some t =>
      let (s, sps) := jump d.s t
      ({ d with s := s, lastT := t }, joinWith "," (sps.map showSpawn))
    | none => (d, "bad-op")
  | "A" :: peer :: _hex :: rest => match peer.toNat?, rest.mapM parseInstr? with
    | some peer, some ins =>
      let (s, rps) := cmdIcal d.s peer ins
      ({ d with s := s }, joinWith "," (rps.map fun (u, ok) => s!"rp({u}={if ok then "2.0" else "5.1"})"))
    | _, _ => (d, "bad-op")
  | ["X", k, _st] => match k.toNat? with
    | some k => let (s, ok) := childExit d.s k; ({ d with s := s }, if ok then "x" else "nochild")
    | none => (d, "bad-op")
  | ["TX", t, k] => match t.toNat?, k.toNat? with
    | some t, some k =>
      -- loop iteration in which child k is reaped: periodics are re-armed first, then the child watcher runs,
      -- then the periodic callbacks (a stopped watcher's pending callback is dropped)
      let s0 := { d.s with now := t }
      let (s1, pend) := reify t (s0.tasks.length + 1) s0 []
      let (s2, ok) := childExitPending s1 k pend
      let (s3, sps) := runPending s2 pend
      ({ d with s := s3, lastT := t }, joinWith "," ((if ok then "x" else "nochild") :: sps.map showSpawn))
    | _, _ => (d, "bad-op")
  | "HQ" :: peer :: _hex :: urluid :: _ => match peer.toNat? with
    | some peer =>
      let (s, st, us) := httpQueue d.s peer (if urluid == "-" then none else urluid.toNat?)
      ({ d with s := s }, if us.isEmpty then s!"{st}" else s!"{st}:" ++ joinWith "+" (sortStrs us))
    | none => (d, "bad-op")
  | "H" :: peer :: _hex :: urluid :: tuids => match peer.toNat? with
    | some peer =>
      let (st, us) := httpSched d.s peer (if urluid == "-" then none else urluid.toNat?) (tuids.filter (· ≠ "-"))
      (d, if us.isEmpty then s!"{st}" else s!"{st}:" ++ joinWith "+" (sortStrs us))
    | none => (d, "bad-op")
  | "N" :: k :: frees => match k.toNat? with
    | some k =>
      -- k clients connect, the listed ones hang up, as many connect again (the pool is all free between operations)
      let conn := fun (st : Nat × List (Option Nat) × List Nat × List String) =>
        let (free, got, used, outs) := st
        let (r, free') := Echse.Conn.makeConn free
        match r with
        | none => (free', got ++ [none], used, outs ++ ["-"])
        | some i => (free', got ++ [some i], i :: used, outs ++ [toString i ++ (if used.contains i then "!" else "")])
      let st := (List.range (min k 256)).foldl (fun st _ => conn st) (Echse.Conn.allFree, [], [], [])
      let (st, nfree) := frees.foldl (fun (acc : (Nat × List (Option Nat) × List Nat × List String) × Nat) f =>
        let ((free, got, used, outs), nf) := acc
        match f.toNat? with
        | some x => match got[x]? with
          | some (some i) => if used.contains i
              then ((Echse.Conn.freeConn free i, got.set x none, used.erase i, outs), nf + 1) else acc
          | _ => acc
        | none => acc) (st, 0)
      let st := (List.range nfree).foldl (fun st _ => if st.2.1.length < 256 then conn st else st) st
      (d, joinWith "," st.2.2.2)
    | none => (d, "bad-op")
  | ["QM"] =>
    let rows := (d.s.tasks.filter (·.inTable)).map fun t => (t.uid, s!"{t.uid}:{t.owner}:{t.maxSimul}")
    (d, joinWith "," ((rows.toArray.qsort (fun a b => a.1 < b.1)).toList.map (·.2)))
  | ["Q"] => (d, showTable d.s)
  | ["L"] => (d, showFiles d.s)
  | ["P", v] => ({ d with s := { d.s with spawnFail := v == "1" } }, "p")
  | ["K", u, kind] => match u.toNat? with
    | some u => ({ d with cut := some (u, kind) }, "k")
    | none => (d, "bad-op")
  | ["F", u, kind, _errno] => match u.toNat? with
    | some u => ({ d with fault := some (u, kind) }, "f")
    | none => (d, "bad-op")
  | ["C"] =>
    match d.cut, d.fault with
    | some (u, kind), _ =>
      if (chkpntUsers d.s).contains u then
        let s := chkpnt d.s (some { u := u, afterRename := kind == "a" })
        ({ s := reload s.files d.s.me d.lastT, lastT := d.lastT }, "CRASH")
      else ({ d with s := chkpnt d.s, cut := none }, "c")
    | none, some (u, _) =>
      if (chkpntUsers d.s).contains u then ({ d with s := chkpntFault d.s u, fault := none }, "c")
      else ({ d with s := chkpnt d.s, fault := none }, "c")
    | none, none => ({ d with s := chkpnt d.s }, "c")
  | ["R"] =>
    let s := chkpnt d.s
    ({ s := reload s.files d.s.me d.lastT, lastT := d.lastT }, "r")
  | _ => (d, "bad-op")

/-- `d.hist ME ; OP ; OP …` -/
def runDaemon (args : List String) : String :=
  match args with
  | me :: rest =>
    match me.toNat? with
    | none => "bad-op"
    | some me =>
      -- split on ";"
      let ops := (rest.foldl (fun (acc : List (List String)) tok =>
        if tok == ";" then [] :: acc else match acc with
          | [] => [[tok]]
          | cur :: more => (cur ++ [tok]) :: more) []).reverse.filter (· ≠ [])
      let d0 : DSt := { s := { me := me } }
      let (_, outs) := ops.foldl (fun (acc : DSt × List String) op =>
        let (d, o) := dStep acc.1 op
        (d, s!"[{o}]" :: acc.2)) (d0, [])
      String.join outs.reverse
  | _ => "bad-op"

end Driver
