/- helpers for the line-protocol driver -/
namespace Driver

def joinWith (sep : String) (xs : List String) : String := sep.intercalate xs

def parseInt? (s : String) : Option Int := s.toInt?

def parseInts (ws : List String) : Option (List Int) := ws.mapM parseInt?
def parseNats (ws : List String) : Option (List Nat) := ws.mapM String.toNat?

def showList {α} [ToString α] (xs : List α) : String := joinWith "," (xs.map toString)

def bits (bs : List Bool) : String := String.ofList (bs.map fun b => if b then '1' else '0')

end Driver
