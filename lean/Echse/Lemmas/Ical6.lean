/-
  C10 lemmas, part 6: the callers' loop `drain`; the statements behind `fuel_suffices`.
-/
import Echse.Lemmas.Ical5
namespace Echse.Ical

def mkInstr (p : Parser) (ls : List (List Byte)) : Instr := { verb := verbOf p.comp.meth ls, lines := ls }

theorem drain_zero (p : Parser) (acc : List Instr) : drain 0 p acc = (p, acc) := by rw [drain]

theorem drain_succ (f : Nat) (p : Parser) (acc : List Instr) :
    drain (f+1) p acc =
      match (pullEv (p.buf.length + 2) p).2 with
      | .ve ls => drain f (pullEv (p.buf.length + 2) p).1
                    (acc ++ [mkInstr (pullEv (p.buf.length + 2) p).1 ls])
      | _ => ((pullEv (p.buf.length + 2) p).1, acc) := by
  rw [drain]
  rcases pullEv (p.buf.length + 2) p with ⟨q, r⟩
  cases r <;> rfl

theorem mu_lt_fuel (p : Parser) : mu p < p.buf.length + 2 := by
  have := mu_le p; omega

theorem drain_buf : ∀ (f : Nat) (p : Parser) (acc : List Instr), (drain f p acc).1.buf = p.buf
  | 0, p, acc => by rw [drain_zero]
  | f+1, p, acc => by
    rw [drain_succ]
    have hb := loop_buf pullEv_isLoop evStep_good (p.buf.length + 2) p
    split
    · rw [drain_buf f, hb]
    · exact hb

theorem drain_fuel : ∀ (f k : Nat) (p : Parser) (acc : List Instr), mu p < f →
    drain (f + k) p acc = drain f p acc
  | 0, k, p, acc, h => by omega
  | f+1, k, p, acc, h => by
    have e : f + 1 + k = (f + k) + 1 := by omega
    rw [e, drain_succ, drain_succ]
    have hb := loop_buf pullEv_isLoop evStep_good (p.buf.length + 2) p
    have hm := loop_mu pullEv_isLoop evStep_good (p.buf.length + 2) p
    cases hx : (pullEv (p.buf.length + 2) p).2 with
    | need => rfl
    | eop => rfl
    | ve ls =>
      dsimp only
      have := hm (by rw [hx]; rfl)
      exact drain_fuel f k _ _ (by omega)

end Echse.Ical
