"""C04 — daemon runs every future occurrence exactly once, on time, in order."""
from . import p_echsd

RULE = ("random histories on echsd.c compiled against the virtual-time event loop: clock advances of 1..30 s (late wake-ups "
        "crossing several occurrences, several occurrences in one second), add / replace / cancel requests from 3 users for "
        "tasks with 1..6 occurrences starting before, at or after the current time (SECONDLY rules and RDATE lists), child "
        "exits in random order, table dumps, occasional failing spawns, iterations whose callbacks take 1..30 s of wall clock "
        "(the event loop stand-in does what libev 4.33 does after ev_loop_fork: periodics_reschedule with a fresh time), one "
        "history in twelve with steps of the wall clock (periodics_reschedule before the timers are looked at); the reference says: one execution per task and tick in "
        "which at least one occurrence since loading came due, none for the past, retirement after the last one.")


def run(ctx):
    p_echsd.run_checks(ctx, "C04", {"steps": 26, "spawnfail": True, "chk": False, "p_cancel": 0.15, "allday": True, "busy": True,
                                      "jump_share": 12}, 500, 6000, RULE)


replay = p_echsd.replay
