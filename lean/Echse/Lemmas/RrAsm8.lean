/-
  Assembly of C16 / C09, part 8: the stream theorem with the contract the fillers actually keep
  (`strm_contract`: proviso `ShiftOk r`), the stream never gets stuck (`pops_some`), and how a stream ends:
  a short fill notes the end (`refill_short`), a stream whose end is noted drains its cache and stops (`pops_drain`).
-/
import Echse.Lemmas.RrAsm12
import Echse.Lemmas.RrStrmOk
namespace Echse.Lemmas.RrAsm
open Echse.Rrule Echse.Instant Echse.Spec.RrOk Echse.Lemmas.RrStrmOk

/-- the proviso the stream carries from seed to seed: on the rule's SHIFT only (the kind of the seed does not matter,
`make_enum` ignores BYHOUR / BYMINUTE / BYSECOND next to a DATE) -/
def StrmK (r : Rule) (_p : Inst) : Prop := ShiftOk r

theorem strm_contract : Contract StrmK where
  fill := fun r p n l hr hp hk hn h =>
    ⟨fill_contract r p n l hr hp hk hn h, fun _ _ => hk⟩
  count := fun _ _ _ hk => hk

/-! ### `fix_rrul_dflts` touches BYMONTH, BYMONTHDAY, BYDAY only -/

theorem fixDflts_shift (r : Rule) (p : Inst) : (fixDflts r p).shift = r.shift := by
  unfold fixDflts; repeat' split
  all_goals rfl
theorem fixDflts_freq (r : Rule) (p : Inst) : (fixDflts r p).freq = r.freq := by
  unfold fixDflts; repeat' split
  all_goals rfl
theorem fixDflts_H (r : Rule) (p : Inst) : (fixDflts r p).H = r.H := by
  unfold fixDflts; repeat' split
  all_goals rfl
theorem fixDflts_M (r : Rule) (p : Inst) : (fixDflts r p).M = r.M := by
  unfold fixDflts; repeat' split
  all_goals rfl
theorem fixDflts_S (r : Rule) (p : Inst) : (fixDflts r p).S = r.S := by
  unfold fixDflts; repeat' split
  all_goals rfl

theorem strmK_start (r : Rule) (ds : Inst) (hs : ShiftOk r) : StrmK (fixDflts r ds) ds :=
  hs.congr (fixDflts_shift r ds)

/-! ### the stream never gets stuck -/

theorem refill_some {K} {r ds out s} (hr : WfRule r) (hI : Inv K r ds out s) : (refill s).isSome := by
  unfold refill
  split
  · rfl
  next proto hp =>
  split
  · rfl
  have ht := fill_total s.rule proto GRP_CCH_OFF (inv_wfRule hr hI) (hI.seed proto hp).1 (Nat.le_refl _)
  cases hf : fill s.rule proto GRP_CCH_OFF with
  | none => rw [hf] at ht; cases ht
  | some l => rfl

theorem pop_some {K} {r ds out s} (hr : WfRule r) (hI : Inv K r ds out s) : (pop s).isSome := by
  unfold pop
  split
  · have := refill_some hr hI
    cases hf : refill s with
    | none => rw [hf] at this; cases this
    | some s' => dsimp only; split <;> rfl
  · rfl

theorem pops_some {K} (hc : Contract K) {r ds} (hr : WfRule r) (n : Nat) :
    ∀ (out : List Inst) (s : Strm), Inv K r ds out s → (pops n s).isSome := by
  induction n with
  | zero => intro out s _; rfl
  | succ n ih =>
    intro out s hI
    rw [pops]
    have hp := pop_some hr hI
    cases hpp : pop s with
    | none => rw [hpp] at hp; cases hp
    | some os =>
      obtain ⟨o, s1⟩ := os
      cases o with
      | none => rfl
      | some x =>
        dsimp only
        have := ih (out ++ [x]) s1 (inv_pop hc hr hI x s1 hpp)
        cases h1 : pops n s1 with
        | none => rw [h1] at this; cases this
        | some le => rfl

/-! ### how a stream ends -/

/-- a fill that returns fewer instants than the cache holds notes the end of the stream: no seed is kept -/
theorem refill_short (s : Strm) (p : Inst) (l : List Inst) (hp : s.from_ = some p) (hc : s.rule.count ≠ 0)
    (hf : fill s.rule p GRP_CCH_OFF = some l) (hl : l.length < GRP_CCH_OFF) :
    ∃ s', refill s = some s' ∧ s'.from_ = none ∧ s'.cch = sortInst l ∧ s'.rdi = 0 := by
  unfold refill
  rw [hp]
  dsimp only
  rw [if_neg hc, hf]
  have hn : ¬ l.length ≥ GRP_CCH_OFF := by omega
  simp only [if_neg hn]
  exact ⟨_, rfl, rfl, rfl, rfl⟩

/-- once the end is noted the stream hands out what is left in its cache and ends; no filler is called again -/
theorem pops_drain : ∀ (n : Nat) (s : Strm), s.from_ = none →
    pops n s = some ((rem s).take n, decide ((rem s).length < n)) := by
  intro n
  induction n with
  | zero => intro s _; simp [pops]
  | succ n ih =>
    intro s hs
    rw [pops]
    unfold pop
    by_cases hge : s.rdi ≥ s.cch.length
    · rw [if_pos hge]
      have hr : refill s = some { s with cch := [], rdi := 0 } := by unfold refill; rw [hs]
      have hrem : rem s = [] := List.drop_eq_nil_of_le hge
      rw [hr, hrem]
      simp
    · rw [if_neg hge]
      have hlt : s.rdi < s.cch.length := by omega
      rw [List.getElem?_eq_getElem hlt]
      dsimp only
      have h1 := ih { s with rdi := s.rdi + 1 } hs
      have hrem : rem s = s.cch[s.rdi] :: rem { s with rdi := s.rdi + 1 } := by simp [rem]
      rw [h1, hrem]
      simp

end Echse.Lemmas.RrAsm
