/-
  C01, `fillMnly` (FREQ=MINUTELY) against RFC 5545, part 3: the time-of-day search, the filler past its entry checks,
  what it writes (`fillMnly_good`) and that it misses nothing (`fillMnly_complete_pick`, BYSETPOS as a hypothesis).
-/
import Echse.Lemmas.RrMnlyRfc2
namespace Echse.Lemmas.RrMnlyRfc
open Echse.Rrule Echse.Instant Echse.Spec.RrOk Echse.Lemmas.RrSubOk Echse.Spec.Rfc Echse.Spec.Cal Echse.Spec.RuleExt
open Echse.Lemmas.RrMnlyOk Echse.Lemmas.RrSubRfc

/-! ### the search for a time of day that passes the masks -/

theorem mnlyReach_true (c : SubCtx) : ∀ (fuel k0 tmp n : Nat),
    ((c.HMask &&& shl1 ((tmp + n * (c.inter % 1440)) % 1440 / 60)) ≠ 0 ∧
     (c.MMask &&& shl1q ((tmp + n * (c.inter % 1440)) % 1440 % 60)) ≠ 0) →
    k0 + n < 1440 → n < fuel → tmp < 1440 → mnlyReach c fuel k0 tmp = some true := by
  intro fuel
  induction fuel with
  | zero => intro k0 tmp n _ _ h; omega
  | succ f ih =>
    intro k0 tmp n hp hk hn htmp
    unfold mnlyReach
    by_cases hA : (c.HMask &&& shl1 (tmp / 60)) ≠ 0 ∧ (c.MMask &&& shl1q (tmp % 60)) ≠ 0
    · rw [if_pos hA]
    · rw [if_neg hA]
      have hn0 : n ≠ 0 := by
        intro h0
        rw [h0, Nat.zero_mul, Nat.add_zero, Nat.mod_eq_of_lt htmp] at hp
        exact hA hp
      rw [if_neg (by omega)]
      apply ih (k0 + 1) _ (n - 1) ?_ (by omega) (by omega) (Nat.mod_lt _ (by omega))
      rw [phase_step tmp (c.inter % 1440) n 1440 hn0]
      exact hp

/-- `fillMnly` past its entry checks -/
theorem fillMnly_eq (r : Rule) (p : Inst) (n k : Nat) (hr : WfRule r) (hp : WfInst p) (hcap : capNti r n = some k) :
    fillMnly r p n =
      if !posPickAnyP r.pos (subEnum p r).S.length then some [] else
      match mnlyReach (mkSubCtx r p k) 1440 0 ((seedT p).H * 60 + (seedT p).M) with
      | none => none
      | some false => some []
      | some true =>
        (mnlyLoop (mkSubCtx r p k) (subEnum p r).S.zipIdx (mnlyFuel p.y) p.y p.m p.d (seedT p).H (seedT p).M
          (ymdGetWday p.y p.m p.d) (getNdom p.y p.m) 0 []).map List.reverse := by
  obtain ⟨hy1, hy2⟩ := hp.year
  obtain ⟨hm1, hm2⟩ := hp.month
  obtain ⟨hd1, hd2⟩ := hp.day
  have hnb := getNdom_bounds p.y p.m hm1 hm2
  unfold fillMnly
  rw [hcap]
  simp only []
  rw [if_neg (by simp [hr.scale])]
  have e2 : r.inter % u32 = r.inter := by
    have := hr.inter
    simp only [u32]; omega
  have hs : (if p.H = allDay then ((0 : Nat), (0 : Nat)) else (p.H, p.M)) = ((seedT p).H, (seedT p).M) := by
    unfold seedT
    by_cases h : p.H = allDay
    · simp only [if_pos h]
    · simp only [if_neg h]
  rw [hs]
  simp only []
  rw [if_neg (by omega), if_neg (by rw [e2]; have := hr.inter; omega)]
  rfl

theorem mabsOf_seedT (p : Inst) (hp : WfInst p) :
    mabsOf (seedT p) = mcabs p.y p.m p.d (seedT p).H (seedT p).M ∧ absOf (seedT p) / 60 = mabsOf (seedT p) := by
  obtain ⟨h1, h2, h3, _, e1, e2, e3⟩ := seedT_time p hp
  refine ⟨by simp only [mabsOf, mcabs, dayOf, e1, e2, e3], ?_⟩
  rw [absOf_timed _ h1]; simp only [mabsOf, dayOf]; omega

theorem good_inst (r : Rule) (p : Inst) (hr : WfRule r) (hp : WfInst p) (z : Inst)
    (h : MnlyGood r p (mabsOf (seedT p)) z) : MinutelyInst r (seedT p) z := by
  obtain ⟨hv, hms, ⟨l1, l2, l3, l4⟩, ⟨j, hj⟩, ⟨i, hi, _⟩, _⟩ := h
  obtain ⟨t1, _, _, tms, _⟩ := seedT_time p hp
  obtain ⟨a1, a2, a3, a4, aH, aM, aS, _⟩ := hv
  have hne : (seedT p).H ≠ allDay := by simp only [allDay]; omega
  refine ⟨⟨a1, a2, a3, a4, by rw [hms, tms], Or.inr ⟨hne, aH, aM, aS⟩⟩, by simp only [allDay]; omega,
    ⟨j, ?_⟩, l1, l2, l3, l4, ?_⟩
  · rw [(mabsOf_seedT p hp).2, ← Int.natCast_mul]; exact hj
  · rw [if_neg hne]
    exact (secExp_iff r p hr hp z).mpr (List.fst_mem_of_mem_zipIdx hi)

/-- what is written: see `MnlyGood` -/
theorem fillMnly_good (r : Rule) (p : Inst) (n : Nat) (l : List Inst) (hr : WfRule r) (hp : WfInst p)
    (hy : 1901 ≤ p.y) (h : fillMnly r p n = some l) : ∀ x ∈ l, MnlyGood r p (mabsOf (seedT p)) x := by
  cases hcap : capNti r n with
  | none =>
    unfold fillMnly at h
    rw [hcap] at h
    cases h
    intro x hx; cases hx
  | some k =>
    rw [fillMnly_eq r p n k hr hp hcap] at h
    split at h
    · cases h; intro x hx; cases hx
    split at h
    · cases h
    · cases h; intro x hx; cases hx
    · cases hloop : mnlyLoop (mkSubCtx r p k) (subEnum p r).S.zipIdx (mnlyFuel p.y) p.y p.m p.d (seedT p).H
          (seedT p).M (ymdGetWday p.y p.m p.d) (getNdom p.y p.m) 0 [] with
      | none => rw [hloop] at h; cases h
      | some acc' =>
        rw [hloop] at h
        simp only [Option.map_some, Option.some.injEq] at h
        subst h
        obtain ⟨t1, t2, _⟩ := seedT_time p hp
        obtain ⟨hm1, hm2⟩ := hp.month
        obtain ⟨hd1, hd2⟩ := hp.day
        have hnb := getNdom_bounds p.y p.m hm1 hm2
        intro x hx
        have := mnlyLoop_sound r p k hr hp (mabsOf (seedT p)) _ p.y p.m p.d _ _ _ 0 [] acc' hy hm1 hm2 hd1 hd2
          t1 t2 (fun _ => ⟨wday_start p.y p.m p.d hy hp.year.2 hm1 hm2 (by omega), 0, by
            rw [(mabsOf_seedT p hp).1]; simp⟩) hloop x (List.mem_reverse.mp hx)
        rcases this with h0 | hg
        · cases h0
        · exact hg

/-- an instance is a real, timed instant with the seed's sub-second part -/
theorem inst_vt (r : Rule) (ds x : Inst) (h : MinutelyInst r ds x) (hy : x.y ≤ 2099) : VT x ∧ x.ms = ds.ms := by
  obtain ⟨⟨a1, a2, a3, a4, a5, a6⟩, hne, _⟩ := h
  rcases a6 with ⟨_, h2, _⟩ | ⟨_, b1, b2, b3⟩
  · exact absurd h2 hne
  · exact ⟨⟨a1, a2, a3, a4, b1, b2, b3, by omega⟩, a5⟩

/-- none missing, with the BYSETPOS test as a hypothesis on the position of the instance's second -/
theorem fillMnly_complete_pick (r : Rule) (p : Inst) (n cap : Nat) (l : List Inst) (hr : WfRule r) (hp : WfInst p)
    (hy : 1901 ≤ p.y) (hcap : capNti r n = some cap) (h : fillMnly r p n = some l)
    (x : Inst) (hx : MinutelyInst r (seedT p) x)
    (hpk : ∀ i, (x.S, i) ∈ (subEnum p r).S.zipIdx → posPickP r.pos i (subEnum p r).S.length = true)
    (hge : absOf (seedT p) ≤ absOf x) (hu : ltP r.untl x = false) (hxy : x.y ≤ 2099) :
    x ∈ l ∨ (l.length = cap ∧ ∀ z ∈ l, ltP z x = true) := by
  obtain ⟨hv, hxms⟩ := inst_vt r _ x hx hxy
  obtain ⟨t1, t2, t3, tms, _⟩ := seedT_time p hp
  obtain ⟨hm1, hm2⟩ := hp.month
  obtain ⟨hd1, hd2⟩ := hp.day
  have hnb := getNdom_bounds p.y p.m hm1 hm2
  obtain ⟨_, _, ⟨kk, hk⟩, l1, l2, l3, l4, l5⟩ := hx
  have hne : (seedT p).H ≠ allDay := by simp only [allDay]; omega
  rw [if_neg hne] at l5
  have hxs := (secExp_iff r p hr hp x).mp l5
  obtain ⟨hsm, hsd⟩ := mabsOf_seedT p hp
  have hk' : mabsOf x = mcabs p.y p.m p.d (seedT p).H (seedT p).M + ((kk * r.inter : Nat) : Int) := by
    rw [← hsm, ← hsd, Int.natCast_mul]; exact hk
  have hlt := abs_lt_2100 x hv hxy
  have hxa := absOf_m x hv
  -- the seed lies before 2100
  have hy2 : p.y ≤ 2099 := by
    by_cases c : p.y ≤ 2099
    · exact c
    · exfalso
      have h1 := days_year_mono 2100 p.y (by omega)
      have h2 := days_month_mono p.y 1 p.m (by omega) hm1 hm2
      have h3 := days_d p.y p.m p.d
      simp only [mcabs] at hk'
      omega
  have hxp := ge_seed p x hp hy hy2 hv (by rw [hxms, tms]) hge
  have hci := ctx_inter r p cap hr
  -- some position is picked
  have hany : posPickAnyP r.pos (subEnum p r).S.length = true := by
    obtain ⟨i, hi⟩ := List.mem_iff_getElem?.mp hxs
    have hil : i < (subEnum p r).S.length := by
      by_cases c : i < (subEnum p r).S.length
      · exact c
      · rw [List.getElem?_eq_none (by omega)] at hi; cases hi
    exact posAny_of _ i _ hil (hpk i (List.mem_zipIdx_iff_getElem?.mpr hi))
  -- the search for a time of day succeeds
  have hreach : mnlyReach (mkSubCtx r p cap) 1440 0 ((seedT p).H * 60 + (seedT p).M) = some true := by
    have hv' := hv
    obtain ⟨_, _, _, _, bH, bM, bS, _⟩ := hv'
    have e0 : ((seedT p).H * 60 + (seedT p).M + kk * r.inter) % 1440 = x.H * 60 + x.M := by
      simp only [mcabs, mabsOf] at hk'
      generalize kk * r.inter = T at hk'
      omega
    apply mnlyReach_true _ 1440 0 _ (kk % 1440) ?_ (by omega) (by omega) (by omega)
    rw [hci, ← phase_mod, e0]
    have e1 : (x.H * 60 + x.M) / 60 = x.H := by omega
    have e2 : (x.H * 60 + x.M) % 60 = x.M := by omega
    rw [e1, e2]
    exact ⟨fun h0 => (t_hour r p cap hr x hv).mp h0 l3, fun h0 => (t_min r p cap hr x hv).mp h0 l4⟩
  rw [fillMnly_eq r p n cap hr hp hcap, hany, hreach] at h
  simp only [Bool.not_true, Bool.false_eq_true, if_false] at h
  cases hloop : mnlyLoop (mkSubCtx r p cap) (subEnum p r).S.zipIdx (mnlyFuel p.y) p.y p.m p.d (seedT p).H
      (seedT p).M (ymdGetWday p.y p.m p.d) (getNdom p.y p.m) 0 [] with
  | none => rw [hloop] at h; cases h
  | some acc' =>
    rw [hloop] at h
    simp only [Option.map_some, Option.some.injEq] at h
    subst h
    have := mnlyLoop_complete r p cap hr hp x hv (by rw [hxms, tms]) ⟨l1, l2, l3, l4⟩ hu hxp hxy hxs hpk _
      p.y p.m p.d _ _ _ 0 [] acc' hy hy2 hm1 hm2 hd1 hd2 t1 t2
      (wday_start p.y p.m p.d hy hp.year.2 hm1 hm2 (by omega)) ⟨kk, hk'⟩ rfl (Nat.zero_le _)
      (by intro z hz; cases hz) hloop
    rcases this with h1 | ⟨h1, h2⟩
    · exact Or.inl (List.mem_reverse.mpr h1)
    · exact Or.inr ⟨by rw [List.length_reverse]; exact h1, fun z hz => h2 z (List.mem_reverse.mp hz)⟩

end Echse.Lemmas.RrMnlyRfc
