/-
  C01 for the yearly filler, part 2 (layer L2): the candidate set of a year is exactly the set of days the
  specification's `YearlyInst` allows (`ylyCand_iff`), branch by branch of the combinations `YlySup` covers.
-/
import Echse.Lemmas.RrYlyRfc1
set_option linter.unusedSimpArgs false
namespace Echse.Lemmas.RrYlyRfc
open Echse.Rrule Echse.Instant Echse.Spec.RrOk Echse.Lemmas.RrCandOk Echse.Spec.Rfc Echse.Lemmas.RrRfc
open Echse.Lemmas.RrCandRfc Echse.Lemmas.RrYlyOk Echse.Spec.Cal Echse.Spec.RuleExt Echse.Lemmas.RrMlyRfc

/-- the candidate set of a year for a date, with what the filler sets up filled in -/
theorem ylyCand_date (r : Rule) (p : Inst) (nti : Nat) (hr : WfRule r) (hp : WfInst p) (hs : YlySup r)
    (x : Inst) (hx : DateIn x) (ms : List Nat) (ds pdow : List Int)
    (hms : ms = (if r.mon = [] ∧ r.wk = [] ∧ r.dow = [] ∧ r.doy = [] ∧ r.dom = [] then [p.m] else r.mon))
    (hds : ds = (if r.dom = [] ∧ r.wk = [] ∧ r.dow = [] ∧ r.doy = [] then [(p.d : Int)] else r.dom))
    (hpd : pdow = (if r.dow = [] ∧ r.wk ≠ [] ∧ r.mon = [] ∧ r.dom = [] ∧ r.doy = [] then
      [(ymdGetWday p.y p.m p.d : Int)] else [])) :
    packCand x.m x.d ∈ ylyCand (ylyCtxOf r p nti) x.y ↔
      (((if wdMaskOf r.dow ≠ 0 ∧ (ds.length ≠ 0 ∨ (!r.doy.isEmpty) = true) then False
         else if wdMaskOf r.dow ≠ 0 ∧ (!r.wk.isEmpty) = true then packCand x.m x.d ∈ fillYlyYwd [] x.y r.wk r.dow
         else if (!pdow.isEmpty) = true then packCand x.m x.d ∈ fillYlyYwd [] x.y r.wk pdow
         else if wdMaskOf r.dow ≠ 0 ∧ ms.length ≠ 0 then x.m ∈ ms ∧ bydayInMonth r x
         else if wdMaskOf r.dow ≠ 0 then bydayInYear r x
         else False) ∨ (YdaySel r.doy x ∧ WLim (wdMaskOf r.dow) x)) ∨
      (if ms.length = 0 ∧ ds.length = 0 then False
       else if ms.length = 0 then MdaySel ds x ∧ WLim0 (wdMaskOf r.dow) x
       else if ds.length = 0 then x.m ∈ ms ∧ WLim0 (wdMaskOf r.dow) x
       else x.m ∈ ms ∧ MdaySel ds x ∧ WLim (wdMaskOf r.dow) x)) := by
  obtain ⟨f1, f2, f3, f4, f5⟩ := ylyCtx_fields r p nti hs hp
  have h1 := ylyCand_mem (ylyCtxOf r p nti) (by rw [f1]; exact hs.easter) x hx (ylyCtxOf_ms r p nti hr hp)
    (ylyCtxOf_ds r p nti hr hp) (by rw [f1]; exact hr.doy)
  have h2 := ylyCand0_mem (ylyCtxOf r p nti) x hx (by rw [f1]; exact hr) (by rw [f1]; exact hs.ord)
    (ylyCtxOf_ms r p nti hr hp) (by rw [f1, f2])
  rw [h2] at h1
  rw [f1, f2, f3, f4, f5, ← hms, ← hds, ← hpd] at h1
  exact h1

theorem wm_nil : wdMaskOf ([] : List Int) = 0 := rfl

theorem wlim_zero (x : Inst) : WLim 0 x := Or.inl rfl
theorem wlim0_zero (x : Inst) : WLim0 0 x := Or.inl rfl

/-- no date part at all, or BYMONTH alone: DTSTART's day (and month) -/
theorem ylyCand_iff_A (r : Rule) (p : Inst) (nti : Nat) (hr : WfRule r) (hp : WfInst p) (hs : YlySup r)
    (x : Inst) (hx : DateIn x) (h1 : r.wk = []) (h2 : r.doy = []) (h3 : r.dow = []) (h4 : r.dom = []) :
    packCand x.m x.d ∈ ylyCand (ylyCtxOf r p nti) x.y ↔ YlyDate r p x := by
  have hpd := hp.day.1
  rw [ylyCand_date r p nti hr hp hs x hx (if r.mon = [] then [p.m] else r.mon) [(p.d : Int)] []
    (by simp [h1, h2, h3, h4]) (by simp [h1, h2, h3, h4]) (by simp [h1, h3])]
  unfold YlyDate
  simp only [h1, h2, h3, h4, wm_nil, ne_eq, not_true_eq_false, false_and, if_false, List.isEmpty_nil, Bool.not_true,
    Bool.false_eq_true, and_self, if_true, true_or, true_and, and_true, List.length_cons, List.length_nil,
    Nat.succ_ne_zero, and_false, false_or, or_false, wlim_zero, mdayOk, ydayOk, ydaySel_nil,
    mdaySel_seed p x hpd]
  by_cases c : r.mon = []
  · simp [c, monthOk]
    constructor
    · rintro ⟨a, b⟩; exact ⟨b, a⟩
    · rintro ⟨a, b⟩; exact ⟨b, a⟩
  · have hl : r.mon.length ≠ 0 := fun e => c (List.length_eq_zero_iff.mp e)
    simp [c, monthOk, hl]

theorem len_ne {α : Type} (l : List α) (h : l ≠ []) : l.length ≠ 0 := fun e => h (List.length_eq_zero_iff.mp e)

/-- BYMONTHDAY, with or without BYMONTH, BYDAY (plain weekdays) limits -/
theorem ylyCand_iff_B (r : Rule) (p : Inst) (nti : Nat) (hr : WfRule r) (hp : WfInst p) (hs : YlySup r)
    (x : Inst) (hx : DateIn x) (h1 : r.wk = []) (h2 : r.doy = []) (h4 : r.dom ≠ []) (hpl : Plain r) :
    packCand x.m x.d ∈ ylyCand (ylyCtxOf r p nti) x.y ↔ YlyDate r p x := by
  rw [ylyCand_date r p nti hr hp hs x hx r.mon r.dom []
    (by simp [h4]) (by simp [h4]) (by simp [h1])]
  unfold YlyDate
  have hl := len_ne _ h4
  have e1 : ¬ (r.doy ≠ [] ∨ r.dom ≠ []) ↔ False := by simp [h4]
  simp only [h1, h2, hl, ne_eq, not_true_eq_false, not_false_eq_true, true_or, and_true, List.isEmpty_nil,
    Bool.not_true, Bool.false_eq_true, and_false, if_false, ydaySel_nil, false_and, or_false, false_or,
    mdaySel_iff r x h4, wlim_plain r hr hpl x, wlim0_plain r hr hpl x, true_and, ydayOk, h4, or_true, if_true]
  by_cases cw : wdMaskOf r.dow = 0
  · have hd : r.dow = [] := by
      by_cases c : r.dow = []
      · exact c
      · exact absurd cw ((wdMask_ne_zero r).2 c)
    simp only [hd, wm_nil, not_true_eq_false, if_false, true_or, and_true, monthOk, false_and, false_or]
    by_cases cm : r.mon = []
    · simp [cm]
    · simp [cm, len_ne _ cm]
  · have hd : r.dow ≠ [] := by intro e; rw [e] at cw; exact cw rfl
    simp only [cw, not_false_eq_true, if_true, false_or, hd, monthOk]
    by_cases cm : r.mon = []
    · simp [cm]
    · simp [cm, len_ne _ cm]

/-- BYYEARDAY, BYDAY (plain weekdays) limits -/
theorem ylyCand_iff_C (r : Rule) (p : Inst) (nti : Nat) (hr : WfRule r) (hp : WfInst p) (hs : YlySup r)
    (x : Inst) (hx : DateIn x) (h1 : r.wk = []) (h2 : r.doy ≠ []) (h4 : r.dom = []) (h5 : r.mon = [])
    (hpl : Plain r) :
    packCand x.m x.d ∈ ylyCand (ylyCtxOf r p nti) x.y ↔ YlyDate r p x := by
  rw [ylyCand_date r p nti hr hp hs x hx [] [] []
    (by simp [h2, h5]) (by simp [h2, h4]) (by simp [h1])]
  unfold YlyDate
  have hde : (!r.doy.isEmpty) = true := by
    cases hd : r.doy with
    | nil => exact absurd hd h2
    | cons a l => rfl
  simp only [h1, h4, h5, hde, h2, ne_eq, not_true_eq_false, not_false_eq_true, true_or, or_true, and_true,
    List.isEmpty_nil, Bool.not_true, Bool.false_eq_true, and_false, if_false, false_and, or_false, List.length_nil,
    and_self, if_true, ydaySel_iff r x h2, wlim_plain r hr hpl x, true_and, monthOk, mdayOk]
  by_cases cw : wdMaskOf r.dow = 0
  · have hd : r.dow = [] := by
      by_cases c : r.dow = []
      · exact c
      · exact absurd cw ((wdMask_ne_zero r).2 c)
    simp [hd, wm_nil]
  · have hd : r.dow ≠ [] := by intro e; rw [e] at cw; exact cw rfl
    simp [cw, hd]

/-- BYDAY within the year, or within the months of BYMONTH -/
theorem ylyCand_iff_D (r : Rule) (p : Inst) (nti : Nat) (hr : WfRule r) (hp : WfInst p) (hs : YlySup r)
    (x : Inst) (hx : DateIn x) (h1 : r.wk = []) (h2 : r.doy = []) (h4 : r.dom = []) (h3 : r.dow ≠ []) :
    packCand x.m x.d ∈ ylyCand (ylyCtxOf r p nti) x.y ↔ YlyDate r p x := by
  rw [ylyCand_date r p nti hr hp hs x hx r.mon [] []
    (by simp [h3]) (by simp [h3, h4]) (by simp [h1])]
  unfold YlyDate
  have cw : wdMaskOf r.dow ≠ 0 := (wdMask_ne_zero r).2 h3
  have hwdr := wdayOf_range (dayOf x)
  have hw0 : WLim0 (wdMaskOf r.dow) x → bydayInMonth r x := by
    rintro (h | h)
    · exact absurd h cw
    · obtain ⟨t, ht, a1, a2⟩ := (mask_bit_iff r hr _ hwdr).1 h
      exact ⟨t, ht, a2, Or.inl a1⟩
  simp only [h1, h2, h4, h3, cw, ne_eq, not_true_eq_false, not_false_eq_true, true_or, or_true, and_true,
    List.isEmpty_nil, Bool.not_true, Bool.false_eq_true, and_false, if_false, false_and, or_false, List.length_nil,
    and_self, if_true, ydaySel_nil, true_and, mdayOk, ydayOk, or_self]
  by_cases cm : r.mon = []
  · simp [cm, monthOk]
  · have hl := len_ne _ cm
    simp only [hl, cm, not_false_eq_true, if_true, if_false, monthOk, false_or, false_and]
    constructor
    · rintro (h | ⟨h, hw⟩)
      · exact h
      · exact ⟨h, hw0 hw⟩
    · intro h; exact Or.inl h

/-- BYWEEKNO, with BYDAY (plain weekdays) or else DTSTART's weekday -/
theorem ylyCand_iff_E (r : Rule) (p : Inst) (nti : Nat) (hr : WfRule r) (hp : WfInst p) (hs : YlySup r)
    (hy : 1901 ≤ p.y) (x : Inst) (hx : DateIn x) (h1 : r.wk ≠ []) (h2 : r.doy = []) (h4 : r.dom = [])
    (h5 : r.mon = []) (hpl : Plain r) :
    packCand x.m x.d ∈ ylyCand (ylyCtxOf r p nti) x.y ↔ YlyDate r p x := by
  have hwk : (!r.wk.isEmpty) = true := by
    cases hd : r.wk with
    | nil => exact absurd hd h1
    | cons a l => rfl
  have hpy := hp.year
  have hpd : p.d ≤ 31 := by have := hp.day.2; have := getNdom_le p.y p.m; omega
  have hwp : ymdGetWday p.y p.m p.d = wdayOf (dayOf p) :=
    Echse.RuleExt.wday_eq p.y p.m p.d (by omega) (by omega) hp.month.1 hp.month.2 hpd
  have hwdr := wdayOf_range (dayOf x)
  have hwdp := wdayOf_range (dayOf p)
  unfold YlyDate
  by_cases c3 : r.dow = []
  · rw [ylyCand_date r p nti hr hp hs x hx [] [] [(ymdGetWday p.y p.m p.d : Int)]
      (by simp [h1, h5]) (by simp [h1, h4]) (by simp [c3, h1, h2, h4, h5])]
    simp only [c3, wm_nil, h2, h4, h5, h1, hwk, ne_eq, not_true_eq_false, not_false_eq_true, false_and, if_false,
      List.isEmpty_cons, Bool.not_false, if_true, ydaySel_nil, or_false, List.length_nil, and_self, false_or,
      and_true, true_and, monthOk, mdayOk, ydayOk, true_or,
      mem_ywd_date_rule r x hx _ (fun w hw => hr.wk w hw)]
    rw [hwp]
    constructor
    · rintro ⟨⟨dc, hdc, _, _, e⟩, hw⟩
      simp only [List.mem_singleton] at hdc
      exact ⟨hw, by omega⟩
    · rintro ⟨hw, e⟩
      exact ⟨⟨_, List.mem_singleton.mpr rfl, by omega, by omega, by omega⟩, hw⟩
  · have cw : wdMaskOf r.dow ≠ 0 := (wdMask_ne_zero r).2 c3
    rw [ylyCand_date r p nti hr hp hs x hx [] [] []
      (by simp [h1, h5]) (by simp [h1, h4]) (by simp [c3])]
    simp only [c3, cw, h2, h4, h5, h1, hwk, ne_eq, not_true_eq_false, not_false_eq_true, false_and, if_false,
      List.isEmpty_nil, Bool.not_true, Bool.false_eq_true, or_self, and_false, and_true, if_true, ydaySel_nil,
      or_false, List.length_nil, and_self, false_or, true_and, monthOk, mdayOk, ydayOk, true_or,
      mem_ywd_date_rule r x hx _ (fun w hw => hr.wk w hw), ywd_limit r hpl x]
    constructor
    · rintro ⟨a, b⟩; exact ⟨b, a⟩
    · rintro ⟨a, b⟩; exact ⟨b, a⟩

/-- L2: the candidate set of a year is the set of days the specification allows, for the combinations `YlySup` covers -/
theorem ylyCand_iff (r : Rule) (p : Inst) (nti : Nat) (hr : WfRule r) (hp : WfInst p) (hs : YlySup r) (hy : 1901 ≤ p.y)
    (x : Inst) (hx : DateIn x) :
    packCand x.m x.d ∈ ylyCand (ylyCtxOf r p nti) x.y ↔ YlyDate r p x := by
  rcases hs.combo with ⟨a, b, c, d⟩ | ⟨a, b, c, d⟩ | ⟨a, b, c, d, e⟩ | ⟨a, b, c, d⟩ | ⟨a, b, c, d, e⟩
  · exact ylyCand_iff_A r p nti hr hp hs x hx a b c d
  · exact ylyCand_iff_B r p nti hr hp hs x hx a b c d
  · exact ylyCand_iff_C r p nti hr hp hs x hx a b c d e
  · exact ylyCand_iff_D r p nti hr hp hs x hx a b c d
  · exact ylyCand_iff_E r p nti hr hp hs hy x hx a b c d e

end Echse.Lemmas.RrYlyRfc
