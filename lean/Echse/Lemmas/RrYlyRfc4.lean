/-
  C01 for the yearly filler, part 4: the instants wanted (`yTarget`) fit the abstract loop (`yly_targetHyp`); the
  calendar repeating after 28 years, they recur within 28 periods, well within the 64 tries (`yly_shadow`,
  `yly_periodic`).
-/
import Echse.Lemmas.RrYlyRfc3
namespace Echse.Lemmas.RrYlyRfc
open Echse.Rrule Echse.Instant Echse.Spec.RrOk Echse.Lemmas.RrCandOk Echse.Spec.Rfc Echse.Lemmas.RrRfc
open Echse.Lemmas.RrCandRfc Echse.Lemmas.RrYlyOk Echse.Spec.Cal Echse.Spec.RuleExt Echse.Lemmas.RrMlyRfc
open Echse.Lemmas.RrOkBase

/-- the instants wanted: instances of the rule from the seed on, up to UNTIL, up to 2099 -/
def yTarget (r : Rule) (p x : Inst) : Prop := YearlyInst r p x ∧ ltP x p = false ∧ ltP r.untl x = false ∧ x.y ≤ 2099

theorem ylyInst_iff (r : Rule) (p x : Inst) : YearlyInst r p x ↔
    SameKind p x ∧ (∃ k : Nat, x.y = p.y + k * r.inter) ∧ YlyDate r p x ∧ TimeExp r p x := by
  unfold YearlyInst YlyDate
  constructor
  · rintro ⟨a, b, c, d, e, f, g, h⟩; exact ⟨a, b, ⟨c, d, e, f, g⟩, h⟩
  · rintro ⟨a, b, ⟨c, d, e, f, g⟩, h⟩; exact ⟨a, b, c, d, e, f, g, h⟩

theorem ylyDate_sh28 (r : Rule) (p x : Inst) (n : Nat) (h1 : 1901 ≤ x.y) (h2 : x.y + 28 * n ≤ 2099) :
    YlyDate r p (sh28 x n) ↔ YlyDate r p x := by
  unfold YlyDate
  rw [weeknoOk_sh28 r x n h1 h2, ydayOk_sh28 r x n h1 h2, mdayOk_sh28 r x n h1 h2, bydayLimit_sh28 r x n h1 h2,
    bydayInMonth_sh28 r x n h1 h2, bydayInYear_sh28 r x n h1 h2, dayOf_sh28 x n h1 h2, wdayOf_28]
  exact Iff.rfl

/-- the same date `28 q INTERVAL` years earlier, `28 q` periods back, is an instance as well -/
theorem yly_shadow (r : Rule) (p x : Inst) (hy : 1901 ≤ p.y) (hx : YearlyInst r p x) (hx2 : x.y ≤ 2099)
    (k s q : Nat) (hk : x.y = p.y + k * r.inter) (hq : k = s + 28 * q) :
    ∃ x' : Inst, YearlyInst r p x' ∧ x'.y = p.y + s * r.inter ∧ x'.y + 28 * (q * r.inter) = x.y := by
  obtain ⟨a1, _, a3, a4⟩ := (ylyInst_iff r p x).1 hx
  have e1 : k * r.inter = s * r.inter + 28 * (q * r.inter) := by
    rw [hq, Nat.add_mul, Nat.mul_assoc]
  generalize q * r.inter = N at *
  generalize hS : s * r.inter = S at *
  have hN : 28 * N ≤ x.y := by omega
  have hback := sh28_back x N hN
  generalize hx' : ({ x with y := x.y - 28 * N } : Inst) = x' at hback
  have fy : x'.y = x.y - 28 * N := by rw [← hx']
  have h1 : 1901 ≤ x'.y := by omega
  have h2 : x'.y + 28 * N ≤ 2099 := by omega
  refine ⟨x', (ylyInst_iff r p x').2 ⟨?_, ⟨s, by rw [hS]; omega⟩, ?_, ?_⟩, by omega, by omega⟩
  · rw [← hback] at a1; exact (sameKind_sh28 p x' N h1 h2).1 a1
  · rw [← hback] at a3; exact (ylyDate_sh28 r p x' N h1 h2).1 a3
  · rw [← hback] at a4; exact a4

theorem yTarget_facts (r : Rule) (p x : Inst) (hi : 0 < r.inter) (hx : yTarget r p x) :
    ∃ k : Nat, x.y = p.y + k * r.inter ∧ yGi r p x = k := by
  obtain ⟨_, ⟨k, hk⟩, _, _⟩ := (ylyInst_iff r p x).1 hx.1
  refine ⟨k, hk, ?_⟩
  unfold yGi; rw [hk]; exact grid_div _ _ _ hi

theorem yly_periodic (r : Rule) (p : Inst) (hr : WfRule r) (_hp : WfInst p) (hy : 1901 ≤ p.y)
    (x : Inst) (j : Nat) (hx : yTarget r p x) (hj : 64 - 1 ≤ j) (hjx : j ≤ yGi r p x) :
    ∃ x', yTarget r p x' ∧ yGi r p x' < j ∧ j ≤ yGi r p x' + (64 - 1) := by
  have hi := hr.inter
  obtain ⟨k, hk, hgk⟩ := yTarget_facts r p x (by omega) hx
  rw [hgk] at hjx
  obtain ⟨x', s1, s2, s3⟩ := yly_shadow r p x hy hx.1 hx.2.2.2 k (k - 28 * ((k - j) / 28 + 1))
    ((k - j) / 28 + 1) hk (by omega)
  generalize hs : k - 28 * ((k - j) / 28 + 1) = s at *
  have hgs : yGi r p x' = s := by unfold yGi; rw [s2]; exact grid_div _ _ _ (by omega)
  have hs1 : 1 ≤ s := by omega
  have hpos : 0 < s * r.inter := Nat.mul_pos (by omega) (by omega)
  have hN : 0 < ((k - j) / 28 + 1) * r.inter := Nat.mul_pos (by omega) (by omega)
  have hx2 := hx.2.2.2
  refine ⟨x', ⟨s1, ?_, ?_, by omega⟩, by rw [hgs]; omega, by rw [hgs]; omega⟩
  · exact ltP_asymm (ltP_of_year_lt p x' (by omega))
  · have hlt : ltP x' x = true := ltP_of_year_lt x' x (by omega)
    cases hu : ltP r.untl x' with
    | false => rfl
    | true => have := ltP_trans hu hlt; rw [hx.2.2.1] at this; cases this

theorem yly_targetHyp (r : Rule) (p : Inst) (nti : Nat) (hr : WfRule r) (hp : WfInst p)
    (hsup : YlySup r) (hy : 1901 ≤ p.y) :
    TargetHyp (mkFillCtx r p nti) 64 (fun y : Nat => y) (yE r p nti)
      (fun y => (y + r.inter) % u32) (yReach r p) (yG r p) (yTarget r p) (yGi r p) := by
  have hi := hr.inter
  refine ⟨?_, ?_, ?_, ?_, ?_⟩
  · -- skip
    intro x y hx hq hlt
    obtain ⟨k, hk, hgk⟩ := yTarget_facts r p x (by omega) hx
    obtain ⟨j, hj⟩ := hq
    rw [yG_of r p y j (by omega) hj, hgk] at hlt
    have hidx := (grid_lt p.y j k r.inter (by omega)).2 hlt
    rw [← hj, ← hk] at hidx
    have hx2 := hx.2.2.2
    have hy2 : y ≤ 2099 := by omega
    refine ⟨hy2, ?_⟩
    have e : (y + r.inter) % u32 = y + r.inter := by unfold u32; omega
    show yG r p ((y + r.inter) % u32) ≤ yGi r p x
    rw [e]
    have hg : y + r.inter = p.y + (j + 1) * r.inter := by rw [Nat.add_mul, hj]; omega
    rw [yG_of r p _ (j + 1) (by omega) hg, hgk]; omega
  · -- here
    intro x y hx hq heq
    obtain ⟨k, hk, hgk⟩ := yTarget_facts r p x (by omega) hx
    obtain ⟨j, hj⟩ := hq
    rw [yG_of r p y j (by omega) hj, hgk] at heq
    have e1 : x.y = y := by rw [hk, hj, heq]
    have hx2 := hx.2.2.2
    have hy2 : y ≤ 2099 := by omega
    refine ⟨hy2, ?_⟩
    obtain ⟨b1, _, b4, b5⟩ := (ylyInst_iff r p x).1 hx.1
    obtain ⟨t1, t2, t3⟩ := enum_of_exp hp (kindOk_of_same b1) b5
    have : 0 ≤ j * r.inter := Nat.zero_le _
    exact (mem_yE_iff r p nti hr hp hsup hy y ⟨by omega, hy2⟩ x).2
      ⟨e1, b1.1, b1.2.1, b1.2.2.1, b1.2.2.2.1, b4, b1.2.2.2.2.1, t1, t2, t3⟩
  · intro x hx
    exact ⟨hx.2.2.1, hx.2.1⟩
  · -- later
    intro x y hx hq hy2 hlt a ha
    have hy2 : y ≤ 2099 := hy2
    obtain ⟨k, hk, hgk⟩ := yTarget_facts r p x (by omega) hx
    have fa := yE_year r p nti hr hp hsup hy y hq hy2 a ha
    obtain ⟨j, hj⟩ := hq
    rw [yG_of r p y j (by omega) hj, hgk] at hlt
    have hidx := (grid_lt p.y j k r.inter (by omega)).2 hlt
    rw [← hj, ← hk] at hidx
    have hx2 := hx.2.2.2
    apply ltP_of_year_lt a x
    rw [fa]; omega
  · intro x j hx hj hjx
    exact yly_periodic r p hr hp hy x j hx hj hjx

end Echse.Lemmas.RrYlyRfc
