/-
  C05, rule text round trip — part 3: the field loop.  A text `head ++ ;part ++ ;part …` is read field by field:
  `parseFrom r t` is what the loop does from a position `t` that stands at the end of a field.
-/
import Echse.Lemmas.RrText2
namespace Echse.RrText
open Echse.Rrule

/-- the byte `c` does not occur in `l` -/
def Avoid (c : Char) (l : List Char) : Prop := ∀ x ∈ l, x ≠ c

instance (c : Char) (l : List Char) : Decidable (Avoid c l) := by unfold Avoid; infer_instance

theorem avoid_nil (c : Char) : Avoid c [] := by simp [Avoid]
theorem avoid_cons {c x : Char} {l : List Char} (hx : x ≠ c) (hl : Avoid c l) : Avoid c (x :: l) := by
  intro y hy
  rcases List.mem_cons.mp hy with h | h
  · exact h ▸ hx
  · exact hl y h
theorem avoid_append {c : Char} {a b : List Char} (ha : Avoid c a) (hb : Avoid c b) : Avoid c (a ++ b) := by
  intro y hy
  rcases List.mem_append.mp hy with h | h
  · exact ha y h
  · exact hb y h
theorem avoid_ite {c : Char} {p : Prop} [Decidable p] {a b : List Char} (ha : Avoid c a) (hb : Avoid c b) :
    Avoid c (if p then a else b) := by
  split <;> assumption
theorem avoid_digits {c : Char} (hc : c.isDigit = false) (n : Nat) : Avoid c (Nat.toDigits 10 n) := by
  intro x hx hxc
  have := Nat.isDigit_of_mem_toDigits (b := 10) (by omega) (by omega) hx
  rw [hxc, hc] at this
  exact absurd this (by decide)
theorem avoid_fmtU {c : Char} (hc : c.isDigit = false) (n : Nat) : Avoid c (fmtU n) := avoid_digits hc n
theorem avoid_fmtD {c : Char} (hc : c.isDigit = false) (hm : '-' ≠ c) (z : Int) : Avoid c (fmtD z) := by
  unfold fmtD
  split
  · exact avoid_cons hm (avoid_digits hc _)
  · exact avoid_digits hc _
theorem avoid_flatMap {α : Type} {c : Char} (f : α → List Char) (l : List α) (h : ∀ x, Avoid c (f x)) :
    Avoid c (l.flatMap f) := by
  intro y hy
  obtain ⟨a, _, ha⟩ := List.mem_flatMap.mp hy
  exact h a y ha

theorem takeWhile_avoid (c : Char) (l t : List Char) (h : Avoid c l) :
    (l ++ c :: t).takeWhile (· ≠ c) = l := by
  rw [List.takeWhile_append_of_pos (fun a ha => by simpa using h a ha)]
  simp
theorem takeWhile_avoid_end (c : Char) (l : List Char) (h : Avoid c l) : l.takeWhile (· ≠ c) = l := by
  have := List.takeWhile_append_of_pos (p := (· ≠ c)) (l₁ := l) (l₂ := []) (fun a ha => by simpa using h a ha)
  simpa using this
theorem dropWhile_avoid (c : Char) (l t : List Char) (h : Avoid c l) :
    (l ++ c :: t).dropWhile (· ≠ c) = c :: t := by
  rw [List.dropWhile_append_of_pos (fun a ha => by simpa using h a ha)]
  simp
theorem dropWhile_avoid_end (c : Char) (l : List Char) (h : Avoid c l) : l.dropWhile (· ≠ c) = [] := by
  have := List.dropWhile_append_of_pos (p := (· ≠ c)) (l₁ := l) (l₂ := []) (fun a ha => by simpa using h a ha)
  simpa using this

/-- a part of the text: absent, or `;` and something -/
def IsPart (p : List Char) : Prop := p = [] ∨ ∃ q, p = ';' :: q

theorem term_nil : Term [] := Or.inl rfl
theorem IsPart.term {p t : List Char} (hp : IsPart p) (ht : Term t) : Term (p ++ t) := by
  rcases hp with h | ⟨q, h⟩ <;> subst h
  · simpa using ht
  · exact Or.inr ⟨q ++ t, rfl⟩
theorem isPart_nil : IsPart [] := Or.inl rfl
theorem isPart_semi (q : List Char) : IsPart (';' :: q) := Or.inr ⟨q, rfl⟩
theorem isPart_ite {p : Prop} [Decidable p] {a b : List Char} (ha : IsPart a) (hb : IsPart b) :
    IsPart (if p then a else b) := by
  split <;> assumption
theorem isPart_sendPart {α : Type} (key : List Char) (fmt : α → List Char) (l : List α) :
    IsPart (sendPart key fmt l) := by
  cases l with
  | nil => exact isPart_nil
  | cons x xs => exact isPart_semi _

/-! ### one field -/

/-- `fieldStep` on `KEY=value` followed by the end of the text or the next part -/
theorem fieldStep_kv (r : Rule) (key value t : List Char) (hk1 : Avoid ';' key) (hk2 : Avoid '=' key)
    (hv : Avoid ';' value) (ht : Term t) :
    fieldStep r (key ++ '=' :: (value ++ t)) = keyStep (keyOf key) (value ++ t) r := by
  have hfld : (key ++ '=' :: (value ++ t)).takeWhile (· ≠ ';') = key ++ '=' :: value := by
    have e : key ++ '=' :: (value ++ t) = (key ++ '=' :: value) ++ t := by simp
    have hav : Avoid ';' (key ++ '=' :: value) := avoid_append hk1 (avoid_cons (by decide) hv)
    rw [e]
    rcases ht with h | ⟨q, h⟩ <;> subst h
    · rw [List.append_nil]; exact takeWhile_avoid_end _ _ hav
    · exact takeWhile_avoid _ _ _ hav
  unfold fieldStep
  simp only [hfld]
  have hall : (key ++ '=' :: value).all (· ≠ '=') = false := by
    simp
  rw [hall]
  simp only [Bool.false_eq_true, if_false]
  rw [takeWhile_avoid '=' key value hk2, dropWhile_avoid '=' key (value ++ t) hk2]
  rfl

/-! ### the field loop -/

/-- the rounds of the loop that start behind a `;` of `t` -/
def parseFrom (r : Rule) (t : List Char) : Option Rule := ((afterSemis t).filter (· ≠ [])).foldlM fieldStep r

theorem afterSemis_avoid (l t : List Char) (h : Avoid ';' l) : afterSemis (l ++ t) = afterSemis t := by
  induction l with
  | nil => rfl
  | cons c cs ih =>
    have hc : c ≠ ';' := h c (by simp)
    rw [List.cons_append, afterSemis]
    simp only [hc, if_false]
    exact ih (fun x hx => h x (by simp [hx]))

theorem parseFrom_nil (r : Rule) : parseFrom r [] = some r := rfl

/-- the loop at `;body` + rest: one round on `body ++ rest`, then on from behind the body -/
theorem parseFrom_part (r : Rule) (body t : List Char) (hb : body ≠ []) (hc : Avoid ';' body) :
    parseFrom r (';' :: (body ++ t)) = (fieldStep r (body ++ t)).bind (fun r' => parseFrom r' t) := by
  unfold parseFrom
  rw [afterSemis]
  simp only [if_true, afterSemis_avoid body t hc]
  have hne : (body ++ t ≠ []) := by
    intro h; exact hb (List.append_eq_nil_iff.mp h).1
  rw [List.filter_cons_of_pos (by simp [hb]), List.foldlM_cons]
  rfl

/-- the whole parser on `head ++ rest`, `head` being the first field -/
theorem snarfRruleL_head (head t : List Char) (hb : head ≠ []) (hc : Avoid ';' head)
    (hn : Avoid '\x00' (head ++ t)) :
    snarfRruleL (head ++ t) =
      match (fieldStep {} (head ++ t)).bind (fun r' => parseFrom r' t) with
      | some r => r
      | none => bogusRule := by
  unfold snarfRruleL
  simp only [takeWhile_avoid_end _ _ hn]
  unfold fieldStarts
  have hne : (head ++ t ≠ []) := by
    intro h; exact hb (List.append_eq_nil_iff.mp h).1
  rw [List.filter_cons_of_pos (by simp [hb]), List.foldlM_cons, afterSemis_avoid head t hc]
  rfl

end Echse.RrText
