/-
  Daemon model: histories — the table entry of a uid across operations (`find_step_nonreq`), order and
  number of the spawns of a uid (`run_order`, `run_count`, `run_spawn_occ`), loading and retiring
  (`injectAs_find`, `retire_phase`, `retire_iter`, `retire_exit`).  Used by C04.
-/
import Echse.Lemmas.Daemon3
namespace Echse.Daemon

/-! ### the table entry of a uid across operations that are not requests -/

def Op.isReq : Op → Bool
  | .req _ _ => true
  | _ => false

theorem loaded_occ (s : St) (t0 : DTask) : (loaded s t0).occ = t0.occ.dropWhile (· < s.now) := by
  unfold loaded
  cases hdw : t0.occ.dropWhile (· < s.now) with
  | nil => rw [resched_nil hdw]; split <;> rfl
  | cons e r => rw [resched_cons hdw]

/-- `find` after an operation that is not a request: the entry is the old one, its stream cut at the clock -/
theorem find_step_nonreq {s : St} (h : Inv s) (op : Op) (hop : OpOk s op) (hnr : op.isReq = false)
    {u : String} {t' : DTask} (hf : (step s op).1.find u = some t') :
    ∃ t, s.find u = some t ∧ t'.sid = t.sid ∧ t'.owner = t.owner ∧ t'.maxSimul = t.maxSimul ∧
      t'.occ = t.occ.filter (fun o => decide (op.clock s ≤ o)) := by
  obtain ⟨ht'm, hi', hu'⟩ := find_some hf
  have key_iter : ∀ now ko, t' ∈ (iter s now ko).1.tasks →
      ∃ t, s.find u = some t ∧ t'.sid = t.sid ∧ t'.owner = t.owner ∧ t'.maxSimul = t.maxSimul ∧
        t'.occ = t.occ.filter (fun o => decide (now ≤ o)) := by
    intro now ko hm
    obtain ⟨t, ht, hit⟩ := (mem_iter_tasks h).mp hm
    have hk := iterTask_keeps hit
    have hti : t.inTable = true := by rw [← hk.2.2.2.1]; exact hi'
    refine ⟨t, (find_eq_some_iff h).mpr ⟨ht, hti, by rw [← hk.2.1]; exact hu'⟩, hk.1, hk.2.2.1, hk.2.2.2.2.1,
      iterTask_occ (h.tinv' ht) hti hit⟩
  cases op with
  | tick now => exact key_iter now none ht'm
  | tickExit now k => exact key_iter now (some k) ht'm
  | req p ins => cases hnr
  | chk =>
    refine ⟨t', hf, rfl, rfl, rfl, ?_⟩
    symm; rw [List.filter_eq_self]
    intro o ho
    have := occ_ge_now (h.tinv' ht'm) hi' o ho
    exact decide_eq_true this
  | exit k =>
    simp only [step, childExit] at ht'm hf
    cases hc : s.children[k]? with
    | none =>
      rw [exit_none s k [] (by intro c hc'; rw [hc] at hc'; cases hc')] at ht'm hf
      refine ⟨t', hf, rfl, rfl, rfl, ?_⟩
      symm; rw [List.filter_eq_self]
      intro o ho
      have := occ_ge_now (h.tinv' ht'm) hi' o ho
      exact decide_eq_true this
    | some c =>
      by_cases hlv : c.live = true
      · obtain ⟨hts, _, _⟩ := exit_spec s k [] h.sidU c hc hlv
        rw [hts, List.mem_filterMap] at ht'm
        obtain ⟨t, htm, he⟩ := ht'm
        have he' : exitO (some c.sid) ([].contains t.sid) t = some t' := he
        have hx := exitO_some he'
        have hti : t.inTable = true := by rw [hx] at hi'; exact hi'
        refine ⟨t, (find_eq_some_iff h).mpr ⟨htm, hti, by rw [hx] at hu'; exact hu'⟩, by rw [hx], by rw [hx],
          by rw [hx], ?_⟩
        rw [hx]; simp only []
        symm; rw [List.filter_eq_self]
        intro o ho
        have := occ_ge_now (h.tinv' htm) hti o ho
        exact decide_eq_true this
      · rw [exit_none s k [] (by intro c' hc'; rw [hc] at hc'; cases hc'; simpa using hlv)] at ht'm hf
        refine ⟨t', hf, rfl, rfl, rfl, ?_⟩
        symm; rw [List.filter_eq_self]
        intro o ho
        have := occ_ge_now (h.tinv' ht'm) hi' o ho
        exact decide_eq_true this

/-! ### spawns of a uid over a history -/

theorem iter_spawn_clock {s : St} {now : Nat} {ko : Option Nat} (h : Inv s) {sp : Spawn}
    (hsp : sp ∈ (iter s now ko).2) : s.now < now := by
  obtain ⟨t, _, _, _, _, h1, h2, _⟩ := spawn_char h hsp
  omega

theorem iter_spawns_uid_le {s : St} (now : Nat) (ko : Option Nat) (h : Inv s) (u : String) :
    ((iter s now ko).2.filter (·.uid == u)).length ≤ 1 := by
  cases hf : s.find u with
  | none =>
    have : (iter s now ko).2.filter (·.uid == u) = [] := by
      rw [List.filter_eq_nil_iff]
      intro sp hsp hu
      obtain ⟨t, htm, hit, _, _, _, _, _, he⟩ := spawn_char h hsp
      have : sp.uid = t.uid := by rw [he]
      exact find_eq_none_iff.mp hf t htm hit (by rw [← this]; simpa using hu)
    rw [this]; simp
  | some t =>
    obtain ⟨htm, hit, hu⟩ := find_some hf
    rw [← hu, iter_spawns_uid now ko h htm hit]
    exact iterSpawns_length _ _ _ _

/-- spawns of an operation -/
theorem step_spawns_cases (s : St) (op : Op) :
    (step s op).2.1 = [] ∨ ∃ now ko, (op = .tick now ∨ ∃ k, op = .tickExit now k) ∧ op.clock s = now ∧
      (step s op).2.1 = (iter s now ko).2 ∧ (step s op).1 = (iter s now ko).1 := by
  cases op with
  | tick now => exact Or.inr ⟨now, none, Or.inl rfl, rfl, rfl, rfl⟩
  | tickExit now k => exact Or.inr ⟨now, some k, Or.inr ⟨k, rfl⟩, rfl, rfl, rfl⟩
  | req p ins => exact Or.inl rfl
  | exit k => exact Or.inl rfl
  | chk => exact Or.inl rfl

theorem run_now_ge : ∀ (ops : List Op) (s : St), Inv s → Mono s.now ops → s.now ≤ (run s ops).1.now := by
  intro ops
  induction ops with
  | nil => intro s _ _; exact Nat.le_refl _
  | cons op ops ih =>
    intro s h hm
    obtain ⟨h1, h2⟩ := Mono_cons hm
    rw [run_cons]
    simp only []
    have hs := step_now h op
    have := ih (step s op).1 (Inv_step h op h1) (by rw [hs]; exact h2)
    have hc : s.now ≤ op.clock s := by
      cases op <;> first | exact h1 | exact Nat.le_refl _
    omega

/-- every spawn of a history is tagged with a clock value later than the clock at its start -/
theorem run_tags_gt : ∀ (ops : List Op) (s : St), Inv s → Mono s.now ops →
    ∀ p ∈ (run s ops).2.1, s.now < p.1 := by
  intro ops
  induction ops with
  | nil => intro s _ _ p hp; cases hp
  | cons op ops ih =>
    intro s h hm p hp
    obtain ⟨h1, h2⟩ := Mono_cons hm
    rw [run_cons] at hp
    simp only [List.mem_append, List.mem_map] at hp
    have hs := step_now h op
    have hc : s.now ≤ op.clock s := by
      cases op <;> first | exact h1 | exact Nat.le_refl _
    rcases hp with ⟨sp, hsp, rfl⟩ | hp
    · rcases step_spawns_cases s op with he | ⟨now, ko, _, hcl, he, _⟩
      · rw [he] at hsp; cases hsp
      · rw [he] at hsp
        simp only [hcl]
        exact iter_spawn_clock h hsp
    · have := ih (step s op).1 (Inv_step h op h1) (by rw [hs]; exact h2) p hp
      omega

/-- `order`: the clock values of the successive spawns of one uid strictly increase -/
theorem run_order (u : String) : ∀ (ops : List Op) (s : St), Inv s → Mono s.now ops →
    (((run s ops).2.1.filter (·.2.uid == u)).map (·.1)).Pairwise (· < ·) := by
  intro ops
  induction ops with
  | nil => intro s _ _; simp [run]
  | cons op ops ih =>
    intro s h hm
    obtain ⟨h1, h2⟩ := Mono_cons hm
    have hs := step_now h op
    have hinv' := Inv_step h op h1
    have hm' : Mono (step s op).1.now ops := by rw [hs]; exact h2
    rw [run_cons]
    simp only [List.filter_append, List.map_append]
    rw [List.pairwise_append]
    refine ⟨?_, ih _ hinv' hm', ?_⟩
    · rw [List.filter_map, List.map_map]
      have hle : (List.filter ((fun x => x.2.uid == u) ∘ fun sp => (op.clock s, sp)) (step s op).2.1).length ≤ 1 := by
        rcases step_spawns_cases s op with he | ⟨now, ko, _, _, he, _⟩
        · rw [he]; simp
        · rw [he]; exact iter_spawns_uid_le now ko h u
      generalize List.filter ((fun x => x.2.uid == u) ∘ fun sp => (op.clock s, sp)) (step s op).2.1 = A at hle
      match A, hle with
      | [], _ => simp
      | [a], _ => simp
    · intro a ha b hb
      simp only [List.mem_map, List.mem_filter] at ha hb
      obtain ⟨⟨c1, sp1⟩, ⟨hm1, _⟩, rfl⟩ := ha
      obtain ⟨p2, ⟨hm2, _⟩, rfl⟩ := hb
      obtain ⟨sp, _, hsp⟩ := hm1
      have : c1 = op.clock s := by cases hsp; rfl
      have := run_tags_gt ops (step s op).1 hinv' hm' p2 hm2
      omega

/-- the number of occurrences of `u`'s table entry that come due before `final` -/
def dueBound (s : St) (u : String) (final : Nat) : Nat :=
  match s.find u with
  | some t => (t.occ.filter (fun o => decide (o < final))).length
  | none => 0

theorem filter_split (p q : Nat → Bool) : ∀ (l : List Nat),
    (l.filter p).length = (l.filter (fun x => p x && q x)).length + (l.filter (fun x => p x && !q x)).length := by
  intro l
  induction l with
  | nil => rfl
  | cons a l ih =>
    simp only [List.filter_cons]
    cases hp : p a <;> cases hq : q a <;> simp [ih] <;> omega

/-- `count`: over a history without requests, the spawns of a uid are at most as many as the occurrences of
its table entry that came due -/
theorem run_count (u : String) : ∀ (ops : List Op) (s : St), Inv s → Mono s.now ops →
    (∀ op ∈ ops, op.isReq = false) →
    ((run s ops).2.1.filter (·.2.uid == u)).length ≤ dueBound s u (run s ops).1.now := by
  intro ops
  induction ops with
  | nil => intro s _ _ _; simp [run]
  | cons op ops ih =>
    intro s h hm hnr
    obtain ⟨h1, h2⟩ := Mono_cons hm
    have hs := step_now h op
    have hinv' := Inv_step h op h1
    have hm' : Mono (step s op).1.now ops := by rw [hs]; exact h2
    have hnr1 := hnr op List.mem_cons_self
    have IH := ih (step s op).1 hinv' hm' (fun o ho => hnr o (List.mem_cons_of_mem _ ho))
    have hfin : op.clock s ≤ (run (step s op).1 ops).1.now := by
      have := run_now_ge ops (step s op).1 hinv' hm'
      omega
    rw [run_cons]
    simp only [List.filter_append, List.length_append]
    rw [List.filter_map, List.length_map]
    generalize (run (step s op).1 ops).1.now = final at IH hfin ⊢
    -- the spawns of this operation
    have hA : (List.filter ((fun x => x.2.uid == u) ∘ fun sp => (op.clock s, sp)) (step s op).2.1).length ≤ 1 ∧
        ((List.filter ((fun x => x.2.uid == u) ∘ fun sp => (op.clock s, sp)) (step s op).2.1) ≠ [] →
          ∃ t, s.find u = some t ∧ t.cur ∈ t.occ ∧ t.cur < op.clock s) := by
      rcases step_spawns_cases s op with he | ⟨now, ko, _, hcl, he, _⟩
      · rw [he]; simp
      · rw [he, hcl]
        refine ⟨iter_spawns_uid_le now ko h u, ?_⟩
        intro hne
        obtain ⟨sp, hsp⟩ := List.exists_mem_of_ne_nil _ hne
        rw [List.mem_filter] at hsp
        obtain ⟨t, htm, hit, _, hh, _, hlt, _, he'⟩ := spawn_char h hsp.1
        have hu : t.uid = u := by
          have : sp.uid = u := by simpa using hsp.2
          rw [← this, he']
        exact ⟨t, (find_eq_some_iff h).mpr ⟨htm, hit, hu⟩, List.mem_of_mem_head? (by rw [hh]; rfl), hlt⟩
    generalize (List.filter ((fun x => x.2.uid == u) ∘ fun sp => (op.clock s, sp)) (step s op).2.1) = A at hA
    obtain ⟨hA1, hA2⟩ := hA
    unfold dueBound at IH ⊢
    cases hf : s.find u with
    | none =>
      have hAnil : A = [] := by
        cases A with
        | nil => rfl
        | cons a r => obtain ⟨t, ht, _⟩ := hA2 (by simp); rw [hf] at ht; cases ht
      cases hf' : (step s op).1.find u with
      | none => rw [hf'] at IH; simp only [] at IH ⊢; rw [hAnil]; simpa using IH
      | some t' =>
        obtain ⟨t, ht, _⟩ := find_step_nonreq h op h1 hnr1 hf'
        rw [hf] at ht; cases ht
    | some t =>
      simp only []
      rw [filter_split (fun o => decide (o < final)) (fun o => decide (op.clock s ≤ o)) t.occ]
      have hfirst : A.length ≤ (t.occ.filter (fun x => decide (x < final) && !decide (op.clock s ≤ x))).length := by
        cases A with
        | nil => simp
        | cons a r =>
          obtain ⟨t2, ht2, hmem, hlt⟩ := hA2 (by simp)
          rw [hf] at ht2; cases ht2
          have : 1 ≤ (t.occ.filter (fun x => decide (x < final) && !decide (op.clock s ≤ x))).length := by
            apply List.length_pos_of_mem (a := t.cur)
            rw [List.mem_filter]
            refine ⟨hmem, ?_⟩
            simp; omega
          simp only [List.length_cons] at hA1 ⊢
          omega
      cases hf' : (step s op).1.find u with
      | none => rw [hf'] at IH; simp only [] at IH; omega
      | some t' =>
        rw [hf'] at IH
        simp only [] at IH
        obtain ⟨t2, ht2, _, _, _, hocc⟩ := find_step_nonreq h op h1 hnr1 hf'
        rw [hf] at ht2; cases ht2
        rw [hocc, List.filter_filter] at IH
        omega

/-! ### loading and retiring -/

/-- a successful `_inject_task1`: the table entry of the uid afterwards -/
theorem injectAs_find {s : St} (h : Inv s) {uid : String} {ms dur : Nat} {occ : List Nat} {e : Nat}
    (hs : occ.Pairwise (· ≤ ·)) (he : e ≠ notAUid ∧ s.users.contains e = true)
    (hown : ∀ old, s.find uid = some old → old.owner = e) (hu : uid ≠ "") :
    (injectAs s uid ms dur occ true e).2 = true ∧
    ∃ t', (injectAs s uid ms dur occ true e).1.find uid = some t' ∧ t'.uid = uid ∧ t'.owner = e ∧
      t'.maxSimul = ms ∧ t'.occ = occ.dropWhile (· < s.now) ∧
      (match s.find uid with | some old => t'.sid = old.sid ∧ t'.nsim = old.nsim | none => t'.sid = s.nextSid ∧ t'.nsim = 0) := by
  have hinv' := Inv_injectAs h uid ms dur occ true e hs he
  unfold injectAs at hinv' ⊢
  have hue : (uid == "") = false := by simpa using hu
  simp only [hue, Bool.not_true, Bool.or_false, Bool.false_eq_true, if_false] at hinv' ⊢
  cases hf : s.find uid with
  | none =>
    rw [hf] at hinv'
    simp only [] at hinv' ⊢
    have hk := loaded_keeps s (fresh s.nextSid uid e ms dur occ)
    refine ⟨trivial, loaded s (fresh s.nextSid uid e ms dur occ), ?_, hk.2.1, hk.2.2.2.2.1, hk.2.2.2.2.2.1,
      loaded_occ _ _, hk.1, hk.2.2.2.1⟩
    rw [find_eq_some_iff hinv']
    exact ⟨by simp, hk.2.2.1, hk.2.1⟩
  | some old =>
    rw [hf] at hinv'
    have ho := hown old hf
    obtain ⟨hom, hoi, hou⟩ := find_some hf
    simp only [ho, ne_eq, not_true_eq_false, if_false] at hinv' ⊢
    have hk := loaded_keeps s (replaced old e ms dur occ)
    refine ⟨trivial, loaded s (replaced old e ms dur occ), ?_, hk.2.1.trans hou, hk.2.2.2.2.1, hk.2.2.2.2.2.1,
      loaded_occ _ _, hk.1, hk.2.2.2.1⟩
    rw [find_eq_some_iff hinv']
    refine ⟨?_, hk.2.2.1.trans hoi, hk.2.1.trans hou⟩
    rw [mem_upd]
    right
    exact ⟨rfl, old, hom, hk.1.symm⟩

/-- `retire`: an in-table task with an exhausted stream and no live child is one that was loaded without a
future occurrence and never ran; its `unsched` is queued -/
theorem retire_phase {s : St} (h : Inv s) {t : DTask} (htm : t ∈ s.tasks) (ho : t.occ = []) (hn : t.nsim = 0) :
    t.resched = false ∧ t.cbUnsched = true ∧ t.active = true ∧ t.nrun = 0 ∧ ∃ a, t.due = some a ∧ a ≤ s.now := by
  have ht := h.tinv' htm
  have hr : t.resched = false := by
    cases hr : t.resched with
    | false => rfl
    | true =>
      have := (ht.armed hr).2.2.2.2.1
      rw [ho] at this; cases this
  have hw := ht.wait rfl
  have hact : t.active = true := by
    cases ha : t.active with
    | true => rfl
    | false => exact absurd hn (hw (Or.inl ha))
  have hcb : t.cbUnsched = true := by
    cases hc : t.cbUnsched with
    | true => rfl
    | false => exact absurd hn (hw (Or.inr ⟨hr, hc⟩))
  obtain ⟨p1, p2⟩ := ht.pend hact hcb
  exact ⟨hr, hcb, hact, p1, p2⟩

/-- … and the next iteration with a later clock value removes it -/
theorem retire_iter {s : St} (h : Inv s) {t : DTask} (htm : t ∈ s.tasks) (hit : t.inTable = true)
    (ho : t.occ = []) (hn : t.nsim = 0) {now : Nat} (hnow : s.now < now) (ko : Option Nat) :
    (iter s now ko).1.find t.uid = none := by
  obtain ⟨hr, hcb, hact, _, a, hdue, hle⟩ := retire_phase h htm ho hn
  rw [find_eq_none_iff]
  intro t' ht' hi' hu'
  obtain ⟨x, hx, hix⟩ := (mem_iter_tasks h).mp ht'
  have hk := iterTask_keeps hix
  have : x = t := h.uidU x hx t htm (by rw [← hk.2.2.2.1]; exact hi') hit (by rw [← hk.2.1]; exact hu')
  subst this
  have hd : isDue now x = true := isDue_iff.mpr ⟨hact, a, hdue, by omega⟩
  rw [iterTask_unsched hit hcb hr hd hn] at hix
  cases hix

/-- the last child of a task with an exhausted stream exits: the task leaves the table -/
theorem retire_exit {s : St} (h : Inv s) {t : DTask} (htm : t ∈ s.tasks) (hit : t.inTable = true)
    (ho : t.occ = []) (hn : t.nsim = 1) {k : Nat} {c : Child} (hc : s.children[k]? = some c)
    (hl : c.live = true) (hcs : c.sid = t.sid) : (childExit s k).1.find t.uid = none := by
  have ht := h.tinv' htm
  have hr : t.resched = false := by
    cases hr : t.resched with
    | false => rfl
    | true =>
      have := (ht.armed hr).2.2.2.2.1
      rw [ho] at this; cases this
  obtain ⟨hts, _, _⟩ := exit_spec s k [] h.sidU c hc hl
  rw [find_eq_none_iff]
  intro t' ht' hi' hu'
  have ht'' : t' ∈ (childExitPending s k []).1.tasks := ht'
  rw [hts, List.mem_filterMap] at ht''
  obtain ⟨x, hx, hex⟩ := ht''
  have hxo : exitO (some c.sid) ([].contains x.sid) x = some t' := hex
  have hx' := exitO_some hxo
  have : x = t := h.uidU x hx t htm (by rw [hx'] at hi'; exact hi') hit (by rw [hx'] at hu'; exact hu')
  subst this
  simp [exitTask, hcs, hit, hr, hn] at hex

/-- over a history without requests every spawn of a uid runs an occurrence of the entry the uid had at the
start, one that was not yet past then and is past when the spawn is made -/
theorem run_spawn_occ : ∀ (ops : List Op) (s : St), Inv s → Mono s.now ops → (∀ op ∈ ops, op.isReq = false) →
    ∀ p ∈ (run s ops).2.1, ∃ t, s.find p.2.uid = some t ∧ ∃ c ∈ t.occ, s.now ≤ c ∧ c < p.1 := by
  intro ops
  induction ops with
  | nil => intro s _ _ _ p hp; cases hp
  | cons op ops ih =>
    intro s h hm hnr p hp
    obtain ⟨h1, h2⟩ := Mono_cons hm
    have hs := step_now h op
    have hinv' := Inv_step h op h1
    have hm' : Mono (step s op).1.now ops := by rw [hs]; exact h2
    have hnr1 := hnr op List.mem_cons_self
    have hc : s.now ≤ op.clock s := by
      cases op <;> first | exact h1 | exact Nat.le_refl _
    rw [run_cons] at hp
    simp only [List.mem_append, List.mem_map] at hp
    rcases hp with ⟨sp, hsp, rfl⟩ | hp
    · rcases step_spawns_cases s op with he | ⟨now, ko, _, hcl, he, _⟩
      · rw [he] at hsp; cases hsp
      · rw [he] at hsp
        obtain ⟨t, htm, hit, _, hh, h5, h6, _, he'⟩ := spawn_char h hsp
        have hu : t.uid = sp.uid := by rw [he']
        refine ⟨t, (find_eq_some_iff h).mpr ⟨htm, hit, hu⟩, t.cur, List.mem_of_mem_head? (by rw [hh]; rfl), h5, ?_⟩
        simp only [hcl]; exact h6
    · obtain ⟨t', hf', c, hcm, hc1, hc2⟩ := ih (step s op).1 hinv' hm'
        (fun o ho => hnr o (List.mem_cons_of_mem _ ho)) p hp
      obtain ⟨t, hf, _, _, _, hocc⟩ := find_step_nonreq h op h1 hnr1 hf'
      rw [hocc, List.mem_filter] at hcm
      exact ⟨t, hf, c, hcm.1, by omega, hc2⟩

end Echse.Daemon
