/-
  FREQ=YEARLY filler model (Echse.Model.RrYly): properties C09 / C16 of one call `fillYly r proto nti`.
-/
import Echse.Lemmas.RrCandOk
namespace Echse.Lemmas.RrYlyOk
open Echse.Rrule Echse.Instant Echse.Spec.RrOk
open Echse.Lemmas.RrCandOk

/-- the set-up of `rrul_fill_yly` -/
def ylyCtxOf (r : Rule) (proto : Inst) (nti : Nat) : YlyCtx :=
    let ymdp := r.wk.isEmpty ∧ r.dow.isEmpty ∧ r.doy.isEmpty ∧ r.easter.isEmpty ∧ r.dom.isEmpty
    let k := mkFillCtx r proto nti
    let ms := r.mon.take 12
    let ms := if ms.isEmpty ∧ ymdp ∧ proto.m ≠ 0 then [proto.m] else ms
    let ds := r.dom.take 62
    let ds := if ds.isEmpty ∧ ymdp ∧ proto.d ≠ 0 then [(proto.d : Int)] else ds
    let wdMask := wdMaskOf r.dow
    let pdow : List Int :=
      if wdMask = 0 ∧ !r.wk.isEmpty ∧ ms.isEmpty ∧ ds.isEmpty ∧ r.doy.isEmpty ∧ proto.m ≠ 0 ∧ proto.m ≤ 12 then
        [(ymdGetWday proto.y proto.m proto.d : Int)]
      else []
    { k := k, r := r, ms := ms, ds := ds, wdMask := wdMask, pdow := pdow }

/-- the year the loop starts with -/
def ylyStart (r : Rule) (proto : Inst) : Nat :=
    let y := proto.y
    if (shDvalue r.shift > 0 ∨ (shBdayP r.shift ∧ !shNegP r.shift)) ∧ r.inter ≤ y then y - r.inter else y

theorem fillYly_eq (r : Rule) (proto : Inst) (n : Nat) : fillYly r proto n =
    if r.scale ≠ 0 ∨ proto.y ≥ 4096 then none else
    match capNti r n with
    | none => some []
    | some nti => some (ylyLoop (ylyCtxOf r proto nti) (64 * (nti + 1) + 2101) (ylyStart r proto) 64 {}).out.reverse := rfl

/-- induction over the year loop: an invariant kept by every period holds at the end -/
theorem ylyLoop_ind (c : YlyCtx) (J : Nat → FillSt → Prop)
    (hstep : ∀ y st, y ≤ maxYear → J y st → J ((y + c.r.inter) % u32) (finishPeriod c.k y (ylyCand c y) st)) :
    ∀ fuel y tries st, J y st → ∃ y', J y' (ylyLoop c fuel y tries st) := by
  intro fuel
  induction fuel with
  | zero => intro y _ st h; exact ⟨y, h⟩
  | succ fuel ih =>
    intro y tries st h
    unfold ylyLoop
    split
    · exact ⟨y, h⟩
    simp only []
    split
    · exact ⟨y, h⟩
    split
    · exact ⟨y, h⟩
    rename_i hy
    have h' := hstep y st (by omega) h
    split
    · exact ⟨_, h'⟩
    · exact ih _ _ _ h'

theorem ylyCtxOf_k (r : Rule) (p : Inst) (nti : Nat) : (ylyCtxOf r p nti).k = mkFillCtx r p nti := rfl
theorem ylyCtxOf_r (r : Rule) (p : Inst) (nti : Nat) : (ylyCtxOf r p nti).r = r := rfl

/-- the loop keeps `res` = number written ≤ `nti`, and everything written passed the UNTIL and the seed test -/
theorem ylyLoop_base (c : YlyCtx) (fuel y tries : Nat) (st : FillSt) (hb : Base c.k st)
    (hg : ∀ x ∈ st.out, ltP c.k.untl x = false ∧ ltP x c.k.proto = false) :
    Base c.k (ylyLoop c fuel y tries st) ∧
      ∀ x ∈ (ylyLoop c fuel y tries st).out, ltP c.k.untl x = false ∧ ltP x c.k.proto = false := by
  obtain ⟨_, h⟩ := ylyLoop_ind c
    (fun _ st => Base c.k st ∧ ∀ x ∈ st.out, ltP c.k.untl x = false ∧ ltP x c.k.proto = false)
    (fun y st _ h => by
      have he := finishPeriod_emits c.k y (ylyCand c y) st
      exact ⟨he.base h.1, he.inv (fun x _ h1 h2 => ⟨h1, h2⟩) h.2⟩)
    fuel y tries st ⟨hb, hg⟩
  exact h

/-- what `fillYly` returns: nothing, or the cache of the year loop -/
theorem fillYly_some (r : Rule) (p : Inst) (n : Nat) (l : List Inst) (h : fillYly r p n = some l) :
    l = [] ∨ ∃ nti, capNti r n = some nti ∧
      l = (ylyLoop (ylyCtxOf r p nti) (64 * (nti + 1) + 2101) (ylyStart r p) 64 {}).out.reverse := by
  rw [fillYly_eq] at h
  split at h
  · cases h
  split at h
  · injection h with h; exact Or.inl h.symm
  · rename_i nti hc
    injection h with h
    exact Or.inr ⟨nti, hc, h.symm⟩

/-- C09 / C16: at most `nti` and at most COUNT instants are written -/
theorem fillYly_len (r : Rule) (p : Inst) (n : Nat) (l : List Inst) (hr : WfRule r) (h : fillYly r p n = some l) :
    l.length ≤ n ∧ (0 ≤ r.count → (l.length : Int) ≤ r.count) := by
  rcases fillYly_some r p n l h with rfl | ⟨nti, hc, rfl⟩
  · exact ⟨Nat.zero_le _, fun h => h⟩
  · have hb := (ylyLoop_base (ylyCtxOf r p nti) (64 * (nti + 1) + 2101) (ylyStart r p) 64 {} (Base.init _)
      (fun x hx => by cases hx)).1
    have hcap := capNti_le r n nti hr hc
    have hl : (ylyLoop (ylyCtxOf r p nti) (64 * (nti + 1) + 2101) (ylyStart r p) 64 {}).out.length ≤ nti := by
      have := hb.le; rw [hb.len] at this; exact this
    rw [List.length_reverse]
    refine ⟨by omega, fun h0 => ?_⟩
    have := hcap.2 h0
    omega

/-- C16: nothing before the seed, nothing after UNTIL -/
theorem fillYly_bounds (r : Rule) (p : Inst) (n : Nat) (l : List Inst) (h : fillYly r p n = some l) :
    (∀ x ∈ l, ltP x p = false) ∧ (∀ x ∈ l, ltP r.untl x = false) := by
  rcases fillYly_some r p n l h with rfl | ⟨nti, hc, rfl⟩
  · exact ⟨fun x hx => (nomatch hx), fun x hx => (nomatch hx)⟩
  · have hb := (ylyLoop_base (ylyCtxOf r p nti) (64 * (nti + 1) + 2101) (ylyStart r p) 64 {} (Base.init _)
      (fun x hx => by cases hx)).2
    exact ⟨fun x hx => (hb x (List.mem_reverse.mp hx)).2, fun x hx => (hb x (List.mem_reverse.mp hx)).1⟩
/-- beyond the supported range the loop does nothing -/
theorem ylyLoop_beyond (c : YlyCtx) (f y tries : Nat) (st : FillSt) (hy : maxYear < y) : ylyLoop c f y tries st = st := by
  cases f with
  | zero => rfl
  | succ f =>
    unfold ylyLoop
    split
    · rfl
    simp only []
    split
    · rfl
    first
      | rfl
      | (split
         · rfl
         · omega)

/-- C09: the fuel never runs out — the year grows by `inter ≥ 1` every round and the loop ends beyond 2099, so
any two amounts of fuel that reach beyond 2100 give the same run -/
theorem ylyLoop_fuel (c : YlyCtx) (hi : 1 ≤ c.r.inter ∧ c.r.inter < 2147483648) :
    ∀ f f' y tries st, 2100 < y + f → 2100 < y + f' → ylyLoop c f y tries st = ylyLoop c f' y tries st := by
  intro f
  induction f with
  | zero =>
    intro f' y tries st h _
    rw [ylyLoop_beyond c 0 y tries st (by unfold maxYear; omega), ylyLoop_beyond c f' y tries st (by unfold maxYear; omega)]
  | succ f ih =>
    intro f' y tries st h h'
    cases f' with
    | zero => rw [ylyLoop_beyond c _ y tries st (by unfold maxYear; omega), ylyLoop_beyond c 0 y tries st (by unfold maxYear; omega)]
    | succ f' =>
      unfold ylyLoop
      split
      · rfl
      simp only []
      split
      · rfl
      split
      · rfl
      rename_i hy
      split
      · rfl
      · have hu : u32 = 4294967296 := rfl
        unfold maxYear at hy
        apply ih <;> (rw [hu]; omega)

theorem fillYly_total (r : Rule) (p : Inst) (n : Nat) (hr : WfRule r) (hp : WfInst p) (_hn : n ≤ 64) :
    (fillYly r p n).isSome := by
  rw [fillYly_eq]
  have h1 := hr.scale
  have h2 := hp.year
  rw [if_neg (by omega)]
  split <;> rfl

/-- `fillYly_total` says little, as the model returns the cache also when its fuel is used up; this is the content:
the fuel `fillYly` gives the loop is enough — any larger amount leads to the same run -/
theorem fillYly_fuel_enough (r : Rule) (p : Inst) (nti F : Nat) (hr : WfRule r)
    (hF : 64 * (nti + 1) + 2101 ≤ F) :
    ylyLoop (ylyCtxOf r p nti) F (ylyStart r p) 64 {} =
      ylyLoop (ylyCtxOf r p nti) (64 * (nti + 1) + 2101) (ylyStart r p) 64 {} :=
  ylyLoop_fuel _ hr.inter _ _ _ _ _ (by omega) (by omega)

end Echse.Lemmas.RrYlyOk
