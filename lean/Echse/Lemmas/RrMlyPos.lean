/-
  Property C01 for the monthly filler, layer L3: BYSETPOS (no SHIFT).

    fillMly_sound_pos / fillMly_complete_pos   rules with BYSETPOS (`r.pos ≠ []`; `hf`: the rule's frequency, which
                                               `SetposOk` refers to, is MONTHLY)
    fillMly_sound_all / fillMly_complete_all   with or without BYSETPOS, in the form of the daily / weekly theorems

  Both ways the code applies BYSETPOS are covered: `clr_poss` on the day set when a day has one instant, position
  counting during the emission (`tposp`) when it has several.  Extra hypothesis of completeness: `MlyFirstPos` (an
  occurrence within the first 336 periods, see `RrMlyRfc`).
-/
import Echse.Lemmas.RrMlyPos3
namespace Echse.Lemmas.RrMlyRfc
open Echse.Rrule Echse.Instant Echse.Spec.RrOk Echse.Lemmas.RrCandOk Echse.Spec.Rfc Echse.Lemmas.RrRfc
open Echse.Lemmas.RrCandRfc Echse.Lemmas.RrMlyOk Echse.Spec.Cal Echse.Spec.RuleExt Echse.Lemmas.RrOkBase

theorem mkFillCtx_sh (r : Rule) (p : Inst) (nti : Nat) : (mkFillCtx r p nti).sh = r.shift := rfl

/-- with BYSETPOS (no SHIFT) the month loop is the abstract loop over what BYSETPOS leaves of the months' lists -/
theorem mlyLoop_aLoop_pos (r : Rule) (p : Inst) (nti : Nat) (hsh : r.shift = 0) (fuel : Nat) (q : Nat × Int) :
    Sim (mlyLoop (mlyCtxOf r p nti) fuel q.1 q.2 mlyTries {})
      (aLoop (mkFillCtx r p nti) mlyTries (fun q : Nat × Int => q.1) (mEp r p nti)
        (fun q => mlyNext r.mon r.inter 12 q.1 q.2) fuel q mlyTries {}) := by
  have h := mlyLoop_sim (mlyCtxOf r p nti) (mEp r p nti) (by
    intro y m a b hab
    rw [mlyCtxOf_k]
    exact finishPeriod_posE _ y _ a b (by rw [mkFillCtx_sh]; exact hsh) (mkFillCtx_nT r p nti) hab)
    fuel q.1 q.2 mlyTries {} {} (Sim.rfl' _)
  exact h

theorem mEp_sub (r : Rule) (p : Inst) (nti : Nat) (hr : WfRule r) (hp : WfInst p)
    (hsup : MlySup r) (hy : 1901 ≤ p.y) (hf : r.freq = 2) (hsh : r.shift = 0) (hpos : r.pos ≠ [])
    (q : Nat × Int) (hq : mReach r p q) (hq2 : q.1 ≤ 2099) :
    (mEp r p nti q).Pairwise (fun a b => ltP a b = true) ∧ ∀ z ∈ mEp r p nti q, z ∈ mE r p nti q := by
  refine ⟨?_, fun z hz => ((mem_mEp_iff r p nti hr hp hsup hy hf hsh hpos q hq hq2 z).1 hz).1⟩
  exact posE_sorted r p nti hr hp q.1 (by omega) _ (mlyCand_allVC r p nti hr hp q ⟨hq.1, hq.2.1⟩)

theorem mlyFirst_of_pos {r : Rule} {p : Inst} (h : MlyFirstPos r p) : MlyFirst r p := by
  obtain ⟨z, z1, _, z2, z3, z4⟩ := h
  exact ⟨z, z1, z2, z3, z4⟩

/-- C01, soundness of the monthly filler with BYSETPOS (no SHIFT): every instant written is an instance of the rule
anchored at the seed and is chosen by BYSETPOS -/
theorem fillMly_sound_pos (r : Rule) (p : Inst) (n : Nat) (l : List Inst) (hr : WfRule r) (hp : WfInst p)
    (_hn : n ≤ 64) (hy : 1901 ≤ p.y) (hsup : MlySup r) (hsh : r.shift = 0) (hf : r.freq = 2)
    (hpos : r.pos ≠ []) (h : fillMly r p n = some l) : ∀ x ∈ l, MonthlyInst r p x ∧ SetposOk r p x := by
  intro x hx
  rcases fillMly_cases r p n l hr hp hsh h with ⟨_, e⟩ | ⟨nti, _, ⟨_, e⟩ | ⟨q, hq, e⟩⟩
  · rw [e] at hx; cases hx
  · rw [e] at hx; cases hx
  · rw [e] at hx
    have hx := List.mem_reverse.mp hx
    rw [(mlyLoop_aLoop_pos r p nti hsh (mlyFuel nti) q).1] at hx
    have hst := mlyStart_spec r p hr hp hsh
    rw [hq] at hst
    have H := loopHyp_sub (fun q : Nat × Int => q.1) (mE r p nti) (mEp r p nti)
      (fun q => mlyNext r.mon r.inter 12 q.1 q.2) (mly_loopHyp r p nti hr hp hsup hy)
      (fun q hq hq2 => mEp_sub r p nti hr hp hsup hy hf hsh hpos q hq hq2)
    rcases aLoop_mem (mkFillCtx r p nti) mlyTries _ _ _ H (mlyFuel nti) q mlyTries {}
      hst.1 x hx with h | ⟨q', r1, r2, r3, _⟩
    · cases h
    · obtain ⟨m1, m2⟩ := (mem_mEp_iff r p nti hr hp hsup hy hf hsh hpos q' r1 r2 x).1 r3
      exact ⟨mE_inst r p nti hr hp hsup hy q' r1 r2 x m1, m2⟩

/-- C01, completeness of the monthly filler with BYSETPOS (no SHIFT): an instance `x` chosen by BYSETPOS, at or after the
seed, not after UNTIL and not after 2099 is in the result `l`, or `l` is full and all of it comes before `x`
(`MlyFirstPos`: the rule has an occurrence within its first 336 periods) -/
theorem fillMly_complete_pos (r : Rule) (p : Inst) (n : Nat) (l : List Inst) (hr : WfRule r) (hp : WfInst p)
    (_hn : n ≤ 64) (hy : 1901 ≤ p.y) (hsup : MlySup r) (hsh : r.shift = 0) (hf : r.freq = 2)
    (hpos : r.pos ≠ []) (hfp : MlyFirstPos r p) (h : fillMly r p n = some l)
    (x : Inst) (hx : MonthlyInst r p x) (hsp : SetposOk r p x) (hge : absOf p ≤ absOf x)
    (hle : ltP r.untl x = false) (hxy : x.y ≤ 2099) :
    x ∈ l ∨ (l.length = capOf r n ∧ ∀ z ∈ l, ltP z x = true) := by
  have hT : mTarget r p x ∧ SetposOk r p x := ⟨⟨hx, (ge_seed hp hy hx.1 hxy hge).1, hle, hxy⟩, hsp⟩
  rcases fillMly_cases r p n l hr hp hsh h with ⟨hc, e⟩ | ⟨nti, hc, ⟨hq, e⟩ | ⟨q, hq, e⟩⟩
  · right; rw [e]; unfold capOf; rw [hc]; exact ⟨rfl, fun z hz => by cases hz⟩
  · have hst := mlyStart_spec r p hr hp hsh
    rw [hq] at hst
    exact absurd hT.1 (hst x)
  · have hst := mlyStart_spec r p hr hp hsh
    rw [hq] at hst
    have hsim := mlyLoop_aLoop_pos r p nti hsh (mlyFuel nti) q
    have hsubAll := fun q hq hq2 => mEp_sub r p nti hr hp hsup hy hf hsh hpos q hq hq2
    have H := loopHyp_sub (fun q : Nat × Int => q.1) (mE r p nti) (mEp r p nti)
      (fun q => mlyNext r.mon r.inter 12 q.1 q.2) (mly_loopHyp r p nti hr hp hsup hy) hsubAll
    have G0 := mly_targetHyp r p nti hr hp hsup hy (mlyFirst_of_pos hfp)
    have G := targetHyp_sub (mkFillCtx r p nti) mlyTries (fun q : Nat × Int => q.1) (mE r p nti) (mEp r p nti)
      (fun q => mlyNext r.mon r.inter 12 q.1 q.2) G0 (fun x => SetposOk r p x)
      (fun q hq hq2 => (hsubAll q hq hq2).2)
      (fun x q hx hQ hq he => by
        obtain ⟨y2, hm⟩ := G0.here x q hx hq he
        exact (mem_mEp_iff r p nti hr hp hsup hy hf hsh hpos q hq y2 x).2 ⟨hm, hQ⟩)
      (fun x j hx hQ hj hjx => mly_periodic_pos r p hr hp hy hf hfp x j hx hQ hj hjx)
    have hI : CInv (mkFillCtx r p nti) mlyTries (fun q : Nat × Int => q.1) (mEp r p nti) (mReach r p) (mG r p)
        (fun x => mTarget r p x ∧ SetposOk r p x) (mGi r p) q mlyTries {} := by
      refine ⟨hst.1, ⟨rfl, Nat.zero_le _⟩, rfl, ?_, ?_, ?_⟩
      · intro w hw hlt; exact absurd hlt (hst.2 w hw.1)
      · intro z hz; cases hz
      · intro h _ _; omega
    have hB : 25201 < qIdx q + mlyFuel nti := by
      have : 0 ≤ mlyTries * (nti + 1) := Nat.zero_le _
      have := hst.1.2.2.1
      unfold mlyFuel qIdx; omega
    have hcomp := aLoop_complete (mkFillCtx r p nti) mlyTries _ _ _ H G (by decide) (mlyFuel nti) q mlyTries {}
      hI hB x hT
    have hbase := aLoop_base (mkFillCtx r p nti) mlyTries (fun q : Nat × Int => q.1) (mEp r p nti)
      (fun q => mlyNext r.mon r.inter 12 q.1 q.2) (mlyFuel nti) q mlyTries {} rfl (Nat.zero_le _)
    rw [← hsim.1, ← hsim.2.1] at hcomp
    rw [← hsim.1, ← hsim.2.1] at hbase
    have hcap : capOf r n = nti := by unfold capOf; rw [hc]; rfl
    rw [e, hcap]
    rcases hcomp with h1 | ⟨h1, h2⟩
    · exact Or.inl (List.mem_reverse.mpr h1)
    · right
      refine ⟨?_, fun z hz => h2 z (List.mem_reverse.mp hz)⟩
      rw [List.length_reverse, ← hbase.1]
      have hk : (mkFillCtx r p nti).nti = nti := rfl
      rw [hk] at h1 hbase
      have : ¬ (mlyLoop (mlyCtxOf r p nti) (mlyFuel nti) q.1 q.2 mlyTries {}).res < nti := by
        intro hlt; rw [decide_eq_true hlt] at h1; cases h1
      omega

/-- C01, soundness of the monthly filler (no SHIFT), with or without BYSETPOS -/
theorem fillMly_sound_all (r : Rule) (p : Inst) (n : Nat) (l : List Inst) (hr : WfRule r) (hp : WfInst p)
    (hn : n ≤ 64) (hy : 1901 ≤ p.y) (hsup : MlySup r) (hsh : r.shift = 0)
    (hf : r.pos ≠ [] → r.freq = 2) (h : fillMly r p n = some l) : ∀ x ∈ l, MonthlyInst r p x ∧ SetposOk r p x := by
  by_cases hpos : r.pos = []
  · exact fillMly_sound r p n l hr hp hn hy hsup hsh hpos h
  · exact fillMly_sound_pos r p n l hr hp hn hy hsup hsh (hf hpos) hpos h

/-- C01, completeness of the monthly filler (no SHIFT), with or without BYSETPOS -/
theorem fillMly_complete_all (r : Rule) (p : Inst) (n : Nat) (l : List Inst) (hr : WfRule r) (hp : WfInst p)
    (hn : n ≤ 64) (hy : 1901 ≤ p.y) (hsup : MlySup r) (hsh : r.shift = 0)
    (hf : r.pos ≠ [] → r.freq = 2) (hfp : MlyFirstPos r p) (h : fillMly r p n = some l)
    (x : Inst) (hx : MonthlyInst r p x) (hsp : SetposOk r p x) (hge : absOf p ≤ absOf x)
    (hle : ltP r.untl x = false) (hxy : x.y ≤ 2099) :
    x ∈ l ∨ (l.length = capOf r n ∧ ∀ z ∈ l, ltP z x = true) := by
  by_cases hpos : r.pos = []
  · exact fillMly_complete r p n l hr hp hn hy hsup hsh hpos (mlyFirst_of_pos hfp) h x hx hge hle hxy
  · exact fillMly_complete_pos r p n l hr hp hn hy hsup hsh (hf hpos) hpos hfp h x hx hsp hge hle hxy

end Echse.Lemmas.RrMlyRfc
