/-
  C01, `fillMnly` (FREQ=MINUTELY) against RFC 5545, part 4: BYSETPOS and the theorems `fillMnly_sound_*`,
  `fillMnly_complete_*` against `Echse.Spec.Rfc.MinutelyInst`.
-/
import Echse.Lemmas.RrMnlyRfc3
import Echse.Lemmas.RrSubRfc6
namespace Echse.Lemmas.RrMnlyRfc
open Echse.Rrule Echse.Instant Echse.Spec.RrOk Echse.Lemmas.RrSubOk Echse.Spec.Rfc Echse.Spec.Cal Echse.Spec.RuleExt
open Echse.Lemmas.RrMnlyOk Echse.Lemmas.RrSubRfc

/-! ### BYSETPOS: the instances of a minute are its enumerated seconds -/

/-- the instances in the minute of an instance `x`: `x` with its second replaced by an enumerated one -/
theorem minute_insts (r : Rule) (p : Inst) (hr : WfRule r) (hp : WfInst p) (hf : r.freq = 6) (x : Inst)
    (hx : MinutelyInst r (seedT p) x) (y : Inst) :
    (Instance r (seedT p) y ∧ periodOf r.freq y = periodOf r.freq x) ↔
      ∃ s ∈ (subEnum p r).S, y = { x with S := s } := by
  have hI : Instance r (seedT p) y = MinutelyInst r (seedT p) y := by unfold Instance; rw [hf]; rfl
  have hP : ∀ z, periodOf r.freq z = mabsOf z := by intro z; rw [hf]; rfl
  rw [hI, hP, hP]
  obtain ⟨t1, _, _, _⟩ := seedT_time p hp
  have hne : (seedT p).H ≠ allDay := by simp only [allDay]; omega
  have hS := (subEnum_S r p hr hp).2
  obtain ⟨⟨a1, a2, a3, a4, a5, a6⟩, xne, xk, l1, l2, l3, l4, l5⟩ := hx
  rcases a6 with ⟨c, _⟩ | ⟨_, aH, aM, aS⟩
  · exact absurd c hne
  constructor
  · rintro ⟨⟨⟨b1, b2, b3, b4, b5, b6⟩, yne, _, _, _, _, _, m5⟩, hper⟩
    rcases b6 with ⟨c, _⟩ | ⟨_, bH, bM, bS⟩
    · exact absurd c hne
    rw [if_neg hne] at m5
    refine ⟨y.S, (secExp_iff r p hr hp y).mp m5, ?_⟩
    simp only [mabsOf, dayOf] at hper
    have he : days y.y y.m y.d = days x.y x.m x.d := by omega
    obtain ⟨e1, e2, e3⟩ := days_inj _ _ _ _ _ _ b1 b2 b3 b4 a1 a2 a3 a4 he
    rw [he] at hper
    have e4 : y.H = x.H := by omega
    have e5 : y.M = x.M := by omega
    have e6 : y.ms = x.ms := by rw [b5, a5]
    cases y; cases x; simp_all
  · rintro ⟨s, hs, rfl⟩
    have hs60 := hS s hs
    refine ⟨⟨⟨a1, a2, a3, a4, a5, Or.inr ⟨hne, aH, aM, hs60⟩⟩, xne, xk, l1, l2, l3, l4, ?_⟩, rfl⟩
    rw [if_neg hne]
    exact (secExp_iff r p hr hp _).mpr hs

theorem setpos_mnly (r : Rule) (p : Inst) (hr : WfRule r) (hp : WfInst p) (hf : r.freq = 6) (x : Inst)
    (hx : MinutelyInst r (seedT p) x) (i : Nat) (hi : (x.S, i) ∈ (subEnum p r).S.zipIdx) :
    SetposOk r (seedT p) x ↔ posPickP r.pos i (subEnum p r).S.length = true := by
  have hxne : x.H ≠ allDay := hx.2.1
  refine setpos_generic r (seedT p) x (subEnum p r).S (fun s => s) (fun s => { x with S := s }) i x.S
    (subEnum_S r p hr hp).1 (List.mem_zipIdx_iff_getElem?.mp hi) rfl (minute_insts r p hr hp hf x hx) ?_
  intro a b
  simp only [absOf, dayOf, secOf, if_neg hxne]
  omega

/-! ### the theorems -/

/-- none extra, general seed: every instant written is an instance of the rule anchored at the seed -/
theorem fillMnly_sound_gen (r : Rule) (p : Inst) (n : Nat) (l : List Inst) (hr : WfRule r) (hp : WfInst p)
    (hy : 1901 ≤ p.y) (h : fillMnly r p n = some l) : ∀ x ∈ l, MinutelyInst r (seedT p) x :=
  fun x hx => good_inst r p hr hp x (fillMnly_good r p n l hr hp hy h x hx)

/-- BYSETPOS, general seed: what is written is one of the chosen positions of its minute -/
theorem fillMnly_setpos_gen (r : Rule) (p : Inst) (n : Nat) (l : List Inst) (hr : WfRule r) (hp : WfInst p)
    (hy : 1901 ≤ p.y) (hf : r.freq = 6) (h : fillMnly r p n = some l) : ∀ x ∈ l, SetposOk r (seedT p) x := by
  intro x hx
  have hg := fillMnly_good r p n l hr hp hy h x hx
  have hinst := good_inst r p hr hp x hg
  obtain ⟨_, _, _, _, ⟨i, hi, hpk⟩, _⟩ := hg
  exact (setpos_mnly r p hr hp hf x hinst i hi).mpr hpk

/-- none missing, general seed, no BYSETPOS -/
theorem fillMnly_complete_gen (r : Rule) (p : Inst) (n cap : Nat) (l : List Inst) (hr : WfRule r) (hp : WfInst p)
    (hy : 1901 ≤ p.y) (hpos : r.pos = []) (hcap : capNti r n = some cap) (h : fillMnly r p n = some l)
    (x : Inst) (hx : MinutelyInst r (seedT p) x) (hge : absOf (seedT p) ≤ absOf x)
    (hu : ltP r.untl x = false) (hxy : x.y ≤ 2099) :
    x ∈ l ∨ (l.length = cap ∧ ∀ z ∈ l, ltP z x = true) :=
  fillMnly_complete_pick r p n cap l hr hp hy hcap h x hx (fun i _ => by rw [hpos]; rfl) hge hu hxy

/-- none missing, general seed, with BYSETPOS -/
theorem fillMnly_complete_pos_gen (r : Rule) (p : Inst) (n cap : Nat) (l : List Inst) (hr : WfRule r) (hp : WfInst p)
    (hy : 1901 ≤ p.y) (hf : r.freq = 6) (hcap : capNti r n = some cap) (h : fillMnly r p n = some l)
    (x : Inst) (hx : MinutelyInst r (seedT p) x) (hsp : SetposOk r (seedT p) x) (hge : absOf (seedT p) ≤ absOf x)
    (hu : ltP r.untl x = false) (hxy : x.y ≤ 2099) :
    x ∈ l ∨ (l.length = cap ∧ ∀ z ∈ l, ltP z x = true) :=
  fillMnly_complete_pick r p n cap l hr hp hy hcap h x hx
    (fun i hi => (setpos_mnly r p hr hp hf x hx i hi).mp hsp) hge hu hxy

/-- none extra (timed seed): every instant written is an instance of the rule anchored at the seed, at one of the
positions BYSETPOS asks for -/
theorem fillMnly_sound_partial (r : Rule) (p : Inst) (n : Nat) (l : List Inst) (hr : WfRule r) (hp : WfInst p)
    (hy : 1901 ≤ p.y) (hH : p.H ≠ allDay) (hf : r.freq = 6) (h : fillMnly r p n = some l) :
    ∀ x ∈ l, MinutelyInst r p x ∧ SetposOk r p x := by
  intro x hx
  have h1 := fillMnly_sound_gen r p n l hr hp hy h x hx
  have h2 := fillMnly_setpos_gen r p n l hr hp hy hf h x hx
  rw [seedT_timed p hH] at h1 h2
  exact ⟨h1, h2⟩

/-- none missing (timed seed): an instance at one of the chosen positions, at or after the seed, not after UNTIL and
not after 2099, is in the list, or the list is full (`cap` = what `capNti` allows: `n`, or COUNT if smaller) and ends
before it -/
theorem fillMnly_complete_partial (r : Rule) (p : Inst) (n cap : Nat) (l : List Inst) (hr : WfRule r) (hp : WfInst p)
    (hy : 1901 ≤ p.y) (hH : p.H ≠ allDay) (hf : r.freq = 6) (hcap : capNti r n = some cap)
    (h : fillMnly r p n = some l) (x : Inst) (hx : MinutelyInst r p x) (hsp : SetposOk r p x)
    (hge : absOf p ≤ absOf x) (hu : ltP r.untl x = false) (hxy : x.y ≤ 2099) :
    x ∈ l ∨ (l.length = cap ∧ ∀ z ∈ l, ltP z x = true) := by
  have := fillMnly_complete_pos_gen r p n cap l hr hp hy hf hcap h x
  rw [seedT_timed p hH] at this
  exact this hx hsp hge hu hxy

end Echse.Lemmas.RrMnlyRfc
