#!/bin/sh
# tools/confirm_seed.sh Cxx : the demonstration fails on the patched worktree, passes on the clean /repo, and the suite passes with the patch
P=$1
WT=/tmp/wt_$P
( cd $WT && make -j8 >/dev/null 2>&1; make check 2>&1 | grep -E "^# (PASS|FAIL)" | tr '\n' ' ' ); echo
sh $WT/_seeded/demo.sh $WT >/tmp/confirm_$P.patched 2>&1; echo "demo on patched tree: exit $?"
sh $WT/_seeded/demo.sh /repo >/tmp/confirm_$P.clean 2>&1; echo "demo on clean tree:   exit $?"
