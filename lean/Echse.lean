import Echse.Model.Bitint
import Echse.Model.Instant
import Echse.Spec.Cal
import Echse.Model.Strpf
import Echse.Model.Scale
import Echse.Model.Sort
import Echse.Model.Stream
import Echse.Model.Tz
