/-
  Daemon model: a loop iteration that begins with a step of the wall clock (`reschedAll`, `jump`; finding D158).

  * `reschedAll_tasks` — libev's `periodics_reschedule` asks every started watcher that still has its reschedule
    callback, each once: the table afterwards is the table before with `stepArm` applied to every record;
  * `jump_no_spawn` — the iteration that follows makes no spawn at all: what came due across the step was
    skipped by `resched` with no callback to follow, and the only watchers left due are those of tasks loaded
    without a future (`cbUnsched`), whose callback is `unsched`.
-/
import Echse.Lemmas.Daemon2
namespace Echse.Daemon

/-- what `periodics_reschedule` does to one record -/
def stepArm (now : Nat) (t : DTask) : DTask := if t.active && t.resched then resched t now else t

theorem stepArm_sid (now : Nat) (t : DTask) : (stepArm now t).sid = t.sid := by
  unfold stepArm; split
  · exact resched_sid t now
  · rfl

/-- one step of the fold in `reschedAll` -/
def reschedStep (now : Nat) (s : St) (t : DTask) : St :=
  match s.tasks.find? (·.sid == t.sid) with
  | some t => if t.active && t.resched then s.upd (resched t now) else s
  | none => s

theorem reschedAll_eq (s : St) (now : Nat) : reschedAll s now = s.tasks.foldl (reschedStep now) s := rfl

theorem reschedStep_tasks {s : St} (now : Nat) (hu : SidU s.tasks) {t : DTask} (ht : t ∈ s.tasks) :
    (reschedStep now s t).tasks = s.tasks.map (fun x => if x.sid = t.sid then stepArm now x else x) := by
  have hg := get_of_mem hu ht
  unfold St.get at hg
  unfold reschedStep
  rw [hg]
  simp only []
  split
  · rename_i hc
    show s.tasks.map _ = _
    apply List.map_congr_left
    intro x hx
    rw [resched_sid]
    by_cases h : x.sid = t.sid
    · have : x = t := hu.inj hx ht h
      subst this
      simp [stepArm, hc]
    · simp [h]
  · rename_i hc
    have : s.tasks.map (fun x => if x.sid = t.sid then stepArm now x else x) = s.tasks.map id := by
      apply List.map_congr_left
      intro x hx
      by_cases h : x.sid = t.sid
      · have : x = t := hu.inj hx ht h
        subst this
        simp [stepArm, hc]
      · simp [h]
    rw [this, List.map_id]

theorem reschedFold_tasks (now : Nat) : ∀ (l : List DTask) (s : St), SidU s.tasks → (∀ t ∈ l, t ∈ s.tasks) →
    (l.map (·.sid)).Nodup →
    (l.foldl (reschedStep now) s).tasks =
      s.tasks.map (fun x => if x.sid ∈ l.map (·.sid) then stepArm now x else x) := by
  intro l
  induction l with
  | nil =>
    intro s _ _ _
    simp
  | cons a l ih =>
    intro s hu hl hnd
    rw [List.map_cons, List.nodup_cons] at hnd
    have ha : a ∈ s.tasks := hl a (List.mem_cons_self ..)
    have h1 := reschedStep_tasks now hu ha
    have hu1 : SidU (reschedStep now s a).tasks := by
      rw [h1]
      unfold SidU at hu ⊢
      rw [List.map_map]
      have : ((fun x : DTask => x.sid) ∘ fun x => if x.sid = a.sid then stepArm now x else x)
          = fun x : DTask => x.sid := by
        funext x
        simp only [Function.comp]
        split <;> simp [stepArm_sid]
      rw [this]; exact hu
    have hl1 : ∀ t ∈ l, t ∈ (reschedStep now s a).tasks := by
      intro t ht
      rw [h1, List.mem_map]
      refine ⟨t, hl t (List.mem_cons_of_mem _ ht), ?_⟩
      have : t.sid ≠ a.sid := by
        intro h
        exact hnd.1 (by rw [← h]; exact List.mem_map.mpr ⟨t, ht, rfl⟩)
      simp [this]
    rw [List.foldl_cons, ih _ hu1 hl1 hnd.2, h1, List.map_map]
    apply List.map_congr_left
    intro x _
    simp only [Function.comp, List.map_cons, List.mem_cons]
    by_cases h : x.sid = a.sid
    · have hn : ¬ (stepArm now x).sid ∈ l.map (·.sid) := by rw [stepArm_sid, h]; exact hnd.1
      simp only [h, if_true, true_or]
      rw [if_neg hn]
    · simp only [h, if_false, false_or]

/-- `periodics_reschedule`: every started watcher with a reschedule callback is asked, once -/
theorem reschedAll_tasks {s : St} (now : Nat) (hu : SidU s.tasks) :
    (reschedAll s now).tasks = s.tasks.map (stepArm now) := by
  rw [reschedAll_eq, reschedFold_tasks now s.tasks s hu (fun _ h => h) hu]
  apply List.map_congr_left
  intro x hx
  rw [if_pos (List.mem_map.mpr ⟨x, hx, rfl⟩)]

/-- an iteration that begins with a step of the wall clock makes no spawn, whatever the new clock value is -/
theorem jump_no_spawn {s : St} (now : Nat) (hu : SidU s.tasks)
    (hd : ∀ t ∈ s.tasks, t.active = true → t.resched = false → t.cbUnsched = true ∨ t.due = none) :
    (jump s now).2 = [] := by
  have hu0 : SidU ({ s with now := now } : St).tasks := hu
  have ht := reschedAll_tasks now hu0
  have hu1 : SidU (reschedAll { s with now := now } now).tasks := by
    rw [ht]
    unfold SidU at hu ⊢
    rw [List.map_map]
    have : ((fun x : DTask => x.sid) ∘ stepArm now) = fun x : DTask => x.sid := by
      funext x; simp [Function.comp, stepArm_sid]
    rw [this]; exact hu
  unfold jump
  rw [tick_eq_iter]
  obtain ⟨L, _, _, hsp, _⟩ := iter_spec (reschedAll { s with now := now } now) now none hu1
  rw [hsp, List.flatMap_eq_nil_iff]
  intro sid _
  cases hg : (reschedAll { s with now := now } now).get sid with
  | none => exact onGet_none _ hg
  | some t =>
    rw [onGet_some _ hg]
    have hm := (get_some_mem hg).1
    rw [ht, List.mem_map] at hm
    obtain ⟨x, hx, hxt⟩ := hm
    subst hxt
    by_cases hc : (x.active && x.resched) = true
    · have : stepArm now x = resched x now := by unfold stepArm; rw [if_pos hc]
      rw [this]
      unfold iterSpawns
      rw [isDue_resched]
      rfl
    · have : stepArm now x = x := by unfold stepArm; rw [if_neg hc]
      rw [this]
      unfold iterSpawns
      cases hdue : isDue now x with
      | false => rfl
      | true =>
        have hact : x.active = true := by
          unfold isDue at hdue
          simp only [Bool.and_eq_true] at hdue
          exact hdue.1
        have hr : x.resched = false := by
          cases h : x.resched with
          | false => rfl
          | true => exact absurd (by simp [hact, h]) hc
        rcases hd x hx hact hr with hcb | hnone
        · simp [exitSid, exitO, rearm, hr, spawnsOf, hcb]
        · unfold isDue at hdue
          rw [hnone] at hdue
          simp at hdue

end Echse.Daemon
