#!/usr/bin/env python3
"""job run by echsx in the C13/C14 checks: writes the chunks named on the command line.
spec: o<N> / e<N> = N bytes to stdout / stderr (position-dependent patterns over disjoint alphabets),
      x<code> = exit code, k<sig> = kill self with signal, s<sec> = sleep, i = copy stdin to stdout first,
      w = print cwd and umask on stdout as a first line"""
import os, signal, sys, time
O = b"0123456789"
E = b"abcdefghijklmnopqrstuvwxyz"
po = pe = 0
def pat(alpha, start, n):
    reps = (start + n) // len(alpha) + 2
    s = alpha * reps
    off = start % len(alpha)
    return s[off:off + n]
code = 0
for a in sys.argv[1:]:
    k, v = a[0], a[1:]
    if k == "o":
        n = int(v); os.write(1, pat(O, po, n)) if n else None; po += n
    elif k == "e":
        n = int(v); os.write(2, pat(E, pe, n)) if n else None; pe += n
    elif k == "x":
        code = int(v)
    elif k == "s":
        time.sleep(float(v))
    elif k == "k":
        os.kill(os.getpid(), int(v))
    elif k == "i":
        d = sys.stdin.buffer.read(); os.write(1, b"<" + d + b">")
    elif k == "w":
        m = os.umask(0); os.umask(m)
        os.write(1, ("[%s|%03o]" % (os.getcwd(), m)).encode())
sys.exit(code)
