/-
  C15 helpers: complete enumeration of a `Bool` predicate over an interval of naturals by
  binary splitting (evaluated by the kernel with `decide +kernel`), the lifting lemma that
  turns the evaluated `true` into a `∀`, and the definitions shared by the enumeration modules.
-/
import Echse.Model.Scale
import Echse.Spec.Cal
namespace Echse.Scale

/-- `allFromF p f lo n` : `p lo && … && p (lo+n-1)`, halving `n`; `f` bounds the depth
(running out of fuel yields `false`, so the fuel never has to be justified). -/
def allFromF (p : Nat → Bool) : Nat → Nat → Nat → Bool
  | 0, _, n => n == 0
  | f + 1, lo, n =>
    if n = 0 then true
    else if n = 1 then p lo
    else allFromF p f lo (n / 2) && allFromF p f (lo + n / 2) (n - n / 2)

/-- `allFrom p lo n` : `p` holds on `lo, …, lo+n-1` -/
def allFrom (p : Nat → Bool) (lo n : Nat) : Bool := allFromF p 64 lo n

theorem allFromF_spec (p : Nat → Bool) :
    ∀ f lo n, allFromF p f lo n = true → ∀ k, lo ≤ k → k < lo + n → p k = true := by
  intro f
  induction f with
  | zero =>
    intro lo n h k h1 h2
    simp only [allFromF, beq_iff_eq] at h
    omega
  | succ f ih =>
    intro lo n h k h1 h2
    unfold allFromF at h
    by_cases h0 : n = 0
    · omega
    · by_cases h1' : n = 1
      · simp only [h1', if_true] at h
        have : k = lo := by omega
        rw [this]; simpa using h
      · simp only [h0, h1', if_false, Bool.and_eq_true] at h
        by_cases hk : k < lo + n / 2
        · exact ih lo (n / 2) h.1 k h1 hk
        · exact ih (lo + n / 2) (n - n / 2) h.2 k (by omega) (by omega)

theorem allFrom_spec (p : Nat → Bool) (lo n : Nat) (h : allFrom p lo n = true) :
    ∀ k, lo ≤ k → k < lo + n → p k = true :=
  allFromF_spec p 64 lo n h

/-- first and last day number of the enumerated range: 1901-01-01 … 2099-12-31 -/
def dLo : Nat := 15386
def dHi : Nat := 88069
/-- `Spec.Cal.days` (days since 0000-03-01) minus the model's day number (JDN − 2400000) -/
def dayOff : Int := 678880

/-- the day after `h` in scale `s`, computed from the month lengths `scaleNdim` reports -/
def succDate (s : Nat) (h : Ymd) : Ymd :=
  if h.d < scaleNdim s h.y h.m then ⟨h.y, h.m, h.d + 1⟩
  else if h.m < 12 then ⟨h.y, h.m + 1, 1⟩
  else ⟨h.y + 1, 1, 1⟩

/-- a valid Gregorian date of the years 1901..2099 -/
def ValidG (g : Ymd) : Prop :=
  1901 ≤ g.y ∧ g.y ≤ 2099 ∧ 1 ≤ g.m ∧ g.m ≤ 12 ∧ 1 ≤ g.d ∧ g.d ≤ Echse.Spec.Cal.monthLen g.y g.m

instance (g : Ymd) : Decidable (ValidG g) := by unfold ValidG; infer_instance

end Echse.Scale
