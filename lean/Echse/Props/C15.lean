import Echse.Model.Scale
namespace C15
open Echse.Scale

/-- smoke (the enumeration theorems replace this) -/
theorem hijri_iva_1440 : rescale 7 0 ⟨1440, 1, 1⟩ = some ⟨2018, 9, 11⟩ := by decide

end C15
