"""C10 — iCalendar parsing is independent of how the bytes arrive.

The real push parser (evical.c #included into harness hx_strm with the ECHSE_VERIF hook enabled) is fed generated
calendars under many chunkings with the callers' protocol (push, pull until the verb is unknown, one last pull).
Oracle: every chunking of an input yields the same instruction dump (verb, every task field, first occurrences) as the
single-chunk run; no input crashes, overruns (ASan) or loops.  Correspondence: Echse.Model.Ical on the unfolded lines
the parser acts upon and the verb/UID sequence.
"""
import collections
import re

from . import common
from . import p_strm
from .p_echsd import stamp, T0

FIELDS = ["SUMMARY:echo hello world", "DESCRIPTION:some text; with, punctuation", "X-ECHS-SHELL:/bin/sh", "LOCATION:/tmp",
          "X-ECHS-IFILE:/dev/null", "X-ECHS-OFILE:/tmp/out", "X-ECHS-EFILE:/tmp/err", "X-ECHS-MAIL-OUT:1", "X-ECHS-MAIL-ERR:0",
          "X-ECHS-MAIL-RUN:1", "X-ECHS-MAX-SIMUL:2", "X-ECHS-UMASK:027", "X-ECHS-SETUID:1001", "X-ECHS-SETGID:1001",
          "ORGANIZER:echse", "ATTENDEE:root", "ATTENDEE:ops@example.com", "X-UNKNOWN-PROP;PARAM=1:whatever", "DURATION:PT5M",
          "STATUS:CONFIRMED", "CATEGORIES:a,b,c", "DTSTAMP:20200101T000000Z"]
RULES = ["RRULE:FREQ=DAILY;COUNT=5", "RRULE:FREQ=WEEKLY;BYDAY=MO,WE,FR;COUNT=6", "RRULE:FREQ=MONTHLY;BYMONTHDAY=1,15;COUNT=4",
         "RRULE:FREQ=YEARLY;BYMONTH=3;BYDAY=-1SU;COUNT=3", "RRULE:FREQ=HOURLY;INTERVAL=6;COUNT=5",
         "RDATE:20300301T000000Z,20300401T000000Z", "EXDATE:20300102T000010Z"]


def fold(rng, line, nl):
    """fold a content line at random positions (RFC 5545: CRLF followed by one SP or TAB)"""
    if len(line) < 12 or rng.random() < 0.5:
        return line
    out, i = "", 0
    while i < len(line):
        k = rng.randint(4, 40)
        out += line[i:i + k]
        i += k
        if i < len(line):
            out += nl + rng.choice(" \t")
    return out


def gen_calendar(rng, tidy=True):
    nl = rng.choice(["\n", "\r\n"])
    lines = ["BEGIN:VCALENDAR", "VERSION:2.0", "PRODID:-//x//y//EN"]
    meth = rng.choice(["PUBLISH", "PUBLISH", "REQUEST", None, "CANCEL", "REPLY", "ADD", "REFRESH", "COUNTER", "BOGUS"])
    if meth:
        lines.append("METHOD:%s" % meth)
    if rng.random() < 0.3:
        lines += ["X-ECHS-MAX-SIMUL:1", "X-ECHS-OWNER:1001", "X-ECHS-UMASK:077"][:rng.randint(1, 3)]
    if rng.random() < 0.2:
        lines += ["BEGIN:VTIMEZONE", "TZID:Europe/Berlin", "BEGIN:STANDARD", "DTSTART:19701025T030000", "END:STANDARD", "END:VTIMEZONE"]
    for k in range(rng.choice([1, 1, 2, 3, 5])):
        comp = rng.choice(["VEVENT", "VEVENT", "VEVENT", "VTODO"])
        ev = ["BEGIN:%s" % comp, "UID:u%d-%d" % (k, rng.randint(0, 999))]
        if comp == "VEVENT" or rng.random() < 0.5:
            ev.append("DTSTART:%s" % stamp(T0 + 10 + k))
        body = rng.sample(FIELDS, rng.randint(1, 8)) + rng.sample(RULES, rng.randint(0, 2))
        if meth == "REPLY":
            body.append("REQUEST-STATUS:%s" % rng.choice(["2.0;Success", "5.1;Service unavailable", "3.1;Invalid property value"]))
        if rng.random() < 0.15:
            body.append("SUMMARY:" + "x" * rng.choice([200, 600, 900]))            # long; the stash grows in steps of 1 KiB doubled
        if rng.random() < 0.15:
            ev += ["BEGIN:VALARM", "ACTION:DISPLAY", "TRIGGER:-PT5M", "END:VALARM"]
        rng.shuffle(body)
        ev += body + ["END:%s" % comp]
        lines += ev
    lines.append("END:VCALENDAR")
    folded = [fold(rng, l, nl) for l in lines]
    text = nl.join(folded) + nl
    cls = set()
    if any(len(f) + len(nl) >= 1024 for f in folded):
        # lines that make the parser's stash grow (once a fixed 1 KiB: findings D18d, D191)
        cls.add("long-line")
    if not tidy:
        r = rng.random()
        if r < 0.3:
            text = text.replace("echo hello", "echo a\\nb \\; c\\, d \\\\ e", 1).replace("some text", "so\\me te\\xt", 1)
            cls.add("backslash")
        elif r < 0.5:
            text = text + gen_calendar(rng, True)[0]
            cls.add("after-end")
        elif r < 0.65:
            text = text.replace("SUMMARY:", "SUMMARY:" + "y" * rng.choice([1020, 1024, 1500, 3000, 9000]), 1)
            cls.add("long-line")
        elif r < 0.8:
            if rng.random() < 0.5:
                text = text.replace(nl, nl + nl, rng.randint(1, 3))
            else:
                # an empty line that is continued: the fold's newline belongs to a line with nothing on it
                k = rng.randint(1, max(1, text.count(nl) - 1))
                parts = text.split(nl)
                parts[k:k] = ["" if rng.random() < 0.7 else rng.choice([" ", "\t"])]
                parts[k + 1] = rng.choice([" ", "\t"]) + parts[k + 1]
                text = nl.join(parts)
            cls.add("empty-line")
        elif r < 0.9:
            ends = [m.end() for m in re.finditer(r"END:V(?:EVENT|TODO)" + nl, text)]
            if ends and rng.random() < 0.6:
                # the stream stops right behind a complete component: nothing said so far is left open
                text = text[:rng.choice(ends)]
                cls.add("stops-after-component")
            else:
                text = text[:rng.randint(1, len(text) - 1)]
                cls.add("truncated")
        else:
            b = bytearray(text.encode())
            for _ in range(rng.randint(1, 12)):
                b[rng.randrange(len(b))] = rng.randrange(1, 256)
            text = b.decode("latin-1")
            cls.add("garbage")
    if "\\" in text:
        cls.add("backslash")
    return text, cls


def chunkings(rng, n, thorough, text=""):
    out = [[], [1] * n, [7] * (n // 7 + 1), [64] * (n // 64 + 1), [4096]]
    cuts = range(1, n) if (thorough and n <= 600) else sorted(rng.sample(range(1, n), min(n - 1, 25))) if n > 1 else []
    out += [[c] for c in cuts]
    for _ in range(6 if thorough else 3):
        sizes, tot = [], 0
        while tot < n:
            k = rng.choice([1, 2, 3, 5, 17, 50, 200])
            sizes.append(k); tot += k
        out.append(sizes)
    # the daemon's way of ending the input: an empty push when recv() returns 0
    out += [["e"], [7] * (n // 7 + 1) + ["e"]] + [[c, "e"] for c in list(cuts)[:: max(1, len(cuts) // 6)]]
    # ... with the last read starting at the blank of a fold
    folds = [m.start() + 1 for m in re.finditer(r"\n[ \t]", text)]
    out += [[c, "e"] for c in (folds if thorough else rng.sample(folds, min(len(folds), 6)))]
    return out


def canon(ans):
    # `L`: the task came with the last pull; after an empty push it comes with an ordinary one, all the same to the caller
    return re.sub(r"(^| )L([SUR]\{)", r"\1\2", ans.partition(" # ")[0])


def run(ctx):
    exe = p_strm.build(ctx)
    rng = ctx.rng
    thorough = ctx.tier == "thorough"
    ninputs = 400 if thorough else 60
    inputs = []
    for i in range(ninputs):
        tidy = i % 3 != 2
        text, cls = gen_calendar(rng, tidy)
        if tidy and rng.random() < 0.25:
            text += gen_calendar(rng, True)[0]          # several calendars in one stream
        inputs.append((text, cls))
    for l in common.load_corpus("C10"):
        t = bytes.fromhex(l).decode("latin-1")
        inputs.append((t, {"corpus"} | ({"backslash"} if "\\" in t else set())))
    ops, meta = [], []
    for idx, (text, cls) in enumerate(inputs):
        h = text.encode("latin-1").hex()
        for ch in chunkings(rng, len(text), thorough, text):
            ops.append("p.lines %s | %s" % (h, " ".join(map(str, ch))))
            meta.append(idx)
    impl, st, err = ctx.impl(exe, ops, timeout=3600)
    model = ctx.model(ops)
    # oracle: all chunkings of an input agree with its first (single chunk) answer
    first = {}
    fails, known = [], collections.Counter()
    for i, idx in enumerate(meta):
        a = canon(impl[i]) if i < len(impl) else "<no answer>"
        if a.startswith("<crash") or a.startswith("<timeout") or a == "<no answer>":
            fails.append((i, "the parser %s on input %d (%r…) fed as %s" % (a[:120], idx, inputs[idx][0][:40], ops[i].split("|")[1][:40])))
            continue
        if idx not in first:
            first[idx] = (i, a)
            continue
        if a != first[idx][1]:
            cls = inputs[idx][1]
            kf = cls & {"backslash", "long-line"} if not (cls & {"after-end", "truncated", "garbage"}) else cls & {"backslash", "after-end", "long-line", "truncated", "garbage"}
            if "backslash" in kf:
                known["backslash"] += 1          # (whatever else the input is: finding D17 alone explains it)
            elif kf:
                for k in kf:
                    known[k] += 1
            else:
                fails.append((i, "input %d parses differently when fed as [%s]: %s  versus (whole) %s" % (
                    idx, ops[i].split("|")[1].strip()[:40], a[:300], first[idx][1][:300])))
    # correspondence: verb:uid sequence and the log of lines
    def verbs(x):
        x = re.sub(r"([SL]+)\{uid=([^|}]*)[^}]*\}", lambda m: m.group(1)[0] + ":" + m.group(2), x.partition(" # ")[0])
        return re.sub(r"(L?[UR])\{([^}]*)\}", r"\1:\2", x)
    # a task without UID line gets a generated one (field level, not modelled): the model says `~'
    impl_c = [re.sub(r"echse/autouid-0x[0-9a-f]+@echse", "~", verbs(x)) + " # " + x.partition(" # ")[2] for x in impl]
    # bytes >= 0x80 in a UID: the harness writes the byte, the driver the character's UTF-8 form
    hi = lambda s: re.sub(r"[^\x00-\x7f]+", "?", s)
    corr = common.diff_lines(ops, [hi(x) for x in impl_c], [hi(x) for x in model])
    kl = common.load_known("C10")
    for k in kl:
        if k.get("status") == "known" and known.get(k.get("class"), 0):
            ctx.known(k["what"])
    unlisted = [c for c in known if c not in {k.get("class") for k in kl if k.get("status") == "known"}]
    if unlisted and not fails:
        i0 = next(i for i, idx in enumerate(meta) if inputs[idx][1] & set(unlisted) and idx in first and canon(impl[i]) != first[idx][1])
        fails.append((i0, "chunk-dependent parse of an input of class %s (not a recorded finding)" % unlisted))
    cli_fails, cli_sizes = cli_part(ctx, rng, 60 if thorough else 16)
    ctx.cov["cli_files"] = {"n": len(cli_sizes), "over_64KiB": sum(1 for s in cli_sizes if s > 65536), "over_128KiB": sum(1 for s in cli_sizes if s > 131072),
                            "failures": len(cli_fails), "rule": "files of 2-5 calendars (PUBLISH/REQUEST/none/CANCEL/REPLY, one one-off event each, "
                            "0-1100 padding lines) through the real `echse unroll' (64 KiB reads); listed events = events of the scheduling calendars"}
    ctx.cov.update({
        "evaluations": len(ops),
        "distinct_nontrivial": len(set(ops)),
        "traces_validated_against_impl": len(ops) - len(corr),
        "rule": "generated calendars (1-5 VEVENT/VTODO, 1-8 properties each from the full field list, rules, folds with SP/TAB, LF or "
                "CRLF, nested VALARM/VTIMEZONE, calendar-level defaults, METHOD variants, values up to 900 bytes); a third of them "
                "malformed (backslash escapes, a second calendar behind the first, lines of 1 to 9 KiB (the stash has to grow), empty lines, "
                "truncation, random byte damage); each fed whole, byte-wise, in 7/64/4096-byte pieces, split in two at "
                + ("every position" if thorough else "25 sampled positions") + ", in random pieces, and with an empty push behind the data (echsd's end of input); non-trivial = every run; "
                "distinct = distinct (input, chunking)",
        "samples": [ops[i][:90] + " … | " + ops[i].split("|")[1][:40] + "  =>  " + canon(impl[i])[:120] for i in
                    sorted(rng.sample(range(len(ops)), min(4, len(ops))))],
        "inputs": len(inputs),
        "chunk_dependent_runs_in_known_classes": dict(known),
        "harness_status": st,
        "impl_vs_spec_failures": len(fails),
        "impl_vs_model_differences": len(corr),
        "exhaustive": False,
    })
    ctx.assumptions += ["the callers' protocol: after each push pull until the verb is unknown, one last pull at the end; a pushed buffer "
                        "stays valid until the next push", "what a property line means (field parsing) is compared through the task dump, "
                        "the Lean model covers the byte/line/component layers"]
    if st != "ok" and not fails and not corr:
        ctx.violation("correspondence", "harness ended with %s: %s" % (st, err[-600:]), {"stderr": err}, found_input=False)
    if cli_fails and not fails:
        ctx.violation("property", cli_fails[0], {"op": "real echse unroll on a generated file", "all": cli_fails[:5],
                                                 "file_zlib_b64": ctx.cov.pop("cli_failing_file_hex_gz", None)})
    elif fails:
        i, why = fails[0]
        ctx.violation("property", why, {"op": ops[i], "impl": impl[i] if i < len(impl) else None, "model": model[i],
                                        "failures_total": len(fails)})
    elif corr:
        i, op, a, b = corr[0]
        ctx.violation("correspondence", "implementation and model act on different unfolded lines in %d runs although all chunkings agree; first: %s"
                      % (len(corr), op[:120]), {"correspondence": "Echse.Model.Ical vs evical.c (_ical_pull, esccpy, _ical_proc)", "op": op,
                                                 "impl": a, "model": b}, found_input=False)


def cli_part(ctx, rng, n):
    """the command line tool reads files through one 64 KiB buffer: what it makes of a file must not depend on where
    the 64 KiB marks fall.  Files are sequences of calendars (PUBLISH, REQUEST, none, CANCEL, REPLY) with one one-off
    event each and comment lines as padding; `echse unroll' must list exactly the events of the calendars that schedule."""
    import os, subprocess, tempfile
    objs, log = ctx.lib_objects()
    if objs is None:
        raise common.Broken("library does not compile: " + log[-1500:])
    exe, log = ctx.cc("echse_hx", [os.path.join(common.HARNESS, "hx_echse.c"), os.path.join(ctx.src, "version.c")] + objs,
                      extra=["-DHAVE_VERSION_H", "-DSTANDALONE"])
    if exe is None:
        raise common.Broken("echse.c does not compile against the working tree:\n" + log[-2500:])
    base = tempfile.mkdtemp(prefix="hxc10-", dir=ctx.scratch)
    fails, sizes = [], []
    for i in range(n):
        cals, want = [], []
        for k in range(rng.randint(2, 5)):
            meth = rng.choice(["PUBLISH", "REQUEST", None, "CANCEL", "REPLY", "CANCEL"])
            pad = ["X-C:%s" % ("c" * rng.randint(10, 70)) for _ in range(rng.choice([0, 0, 3, 400, 900, 1100]))]
            ev = ["BEGIN:VEVENT", "UID:e%d" % k, "SUMMARY:E%d" % k, "DTSTART:201501%02dT000000Z" % (k + 2)]
            if meth == "REPLY":
                ev.append("REQUEST-STATUS:2.0;Success")
            ev.append("END:VEVENT")
            where = rng.choice(["before", "after", "inside"])
            body = (pad + ev) if where == "before" else (ev + pad) if where == "after" else (ev[:3] + ["DESCRIPTION:" + "d" * 30] * (len(pad) // 2) + ev[3:])
            cals.append(["BEGIN:VCALENDAR", "VERSION:2.0"] + (["METHOD:" + meth] if meth else []) + body + ["END:VCALENDAR"])
            if meth in ("PUBLISH", "REQUEST", None):
                want.append("2015-01-%02dT00:00:00\tE%d" % (k + 2, k))
        text = "\r\n".join(l for c in cals for l in c) + "\r\n"
        fn = os.path.join(base, "f%d.ics" % i)
        open(fn, "w", newline="").write(text)
        sizes.append(len(text))
        r = subprocess.run([exe, "unroll", fn, "--from", "2015-01-01", "--till", "2015-02-01"], stdout=subprocess.PIPE, stderr=subprocess.PIPE,
                           env=dict(os.environ, ASAN_OPTIONS="detect_leaks=0"), timeout=120)
        got = sorted(r.stdout.decode("latin-1").split("\n")[:-1])
        errtxt = r.stderr.decode("latin-1")
        crashed = r.returncode < 0 or "Sanitizer" in errtxt or "runtime error" in errtxt
        if crashed or got != sorted(want):
            fails.append("`echse unroll' on a file of %d bytes (%s) lists %s, the calendars that schedule hold %s%s" % (
                len(text), ", ".join("%s:%d lines" % (c[2][7:] if c[2].startswith("METHOD") else "no method", len(c)) for c in cals),
                got, sorted(want), "; exit %d %s" % (r.returncode, errtxt[-300:]) if crashed else ""))
            if len(fails) == 1:
                ctx.cov["cli_failing_file_hex_gz"] = __import__("base64").b64encode(__import__("zlib").compress(text.encode())).decode()
    return fails, sizes


def replay(ctx, rep):
    exe = p_strm.build(ctx)
    op = rep["data"].get("op")
    if not op:
        print("replay names no input: %s" % rep.get("what"))
        return 1
    whole = op.split("|")[0] + "|"
    out, st, _ = ctx.impl(exe, [op, whole])
    print("chunked: %s\nwhole  : %s" % (canon(out[0])[:400], canon(out[1])[:400] if len(out) > 1 else st))
    return 0 if len(out) > 1 and canon(out[0]) == canon(out[1]) else 1
