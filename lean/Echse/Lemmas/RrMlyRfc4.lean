/-
  C01 for the monthly filler, part 4: the month loop fits the abstract loop — positions on the period grid (`mReach`),
  their grid index (`mG`), and the hypotheses `LoopHyp` about what the periods offer (`mly_loopHyp`).
-/
import Echse.Lemmas.RrMlyRfc3
import Echse.Lemmas.RrCandRfc6
namespace Echse.Lemmas.RrMlyRfc
open Echse.Rrule Echse.Instant Echse.Spec.RrOk Echse.Lemmas.RrCandOk Echse.Spec.Rfc Echse.Lemmas.RrRfc
open Echse.Lemmas.RrCandRfc Echse.Lemmas.RrMlyOk Echse.Spec.Cal Echse.Spec.RuleExt Echse.Lemmas.RrOkBase

/-- the month count of a loop position -/
def qIdx (q : Nat × Int) : Nat := 12 * q.1 + q.2.toNat
/-- … of the seed -/
def pIdx (p : Inst) : Nat := 12 * p.y + p.m

/-- positions the month loop can be at: on the grid, in BYMONTH (while within range) -/
def mReach (r : Rule) (p : Inst) (q : Nat × Int) : Prop :=
  1 ≤ q.2 ∧ q.2 ≤ 12 ∧ p.y ≤ q.1 ∧ (∃ j : Nat, qIdx q = pIdx p + j * r.inter) ∧
    (q.1 ≤ 2099 → r.mon = [] ∨ q.2.toNat ∈ r.mon)

def mG (r : Rule) (p : Inst) (q : Nat × Int) : Nat := (qIdx q - pIdx p) / r.inter
def mGi (r : Rule) (p : Inst) (x : Inst) : Nat := (pIdx x - pIdx p) / r.inter

theorem grid_div (a j n : Nat) (hn : 0 < n) : (a + j * n - a) / n = j := by
  rw [Nat.add_sub_cancel_left, Nat.mul_div_cancel _ hn]

theorem grid_lt (a j j' n : Nat) (hn : 0 < n) : a + j * n < a + j' * n ↔ j < j' := by
  constructor
  · intro h
    have : j * n < j' * n := by omega
    exact Nat.lt_of_mul_lt_mul_right this
  · intro h
    have : j * n < j' * n := Nat.mul_lt_mul_of_pos_right h hn
    omega

theorem grid_inj (a j j' n : Nat) (hn : 0 < n) (h : a + j * n = a + j' * n) : j = j' := by
  have : j * n = j' * n := by omega
  exact Nat.eq_of_mul_eq_mul_right hn this

theorem mG_of (r : Rule) (p : Inst) (q : Nat × Int) (j : Nat) (hi : 0 < r.inter) (h : qIdx q = pIdx p + j * r.inter) :
    mG r p q = j := by
  unfold mG; rw [h]; exact grid_div _ _ _ hi

theorem mGi_of (r : Rule) (p x : Inst) (j : Nat) (hi : 0 < r.inter) (h : pIdx x = pIdx p + j * r.inter) :
    mGi r p x = j := by
  unfold mGi; rw [h]; exact grid_div _ _ _ hi

/-- one step of the loop, in terms of the month counts -/
theorem mNext_facts (r : Rule) (hr : WfRule r) (q : Nat × Int) (h1 : 1 ≤ q.2 ∧ q.2 ≤ 12) (hy : q.1 ≤ 2099) :
    ∃ j : Nat, 1 ≤ j ∧ j ≤ 12 ∧
      1 ≤ (mlyNext r.mon r.inter 12 q.1 q.2).2 ∧ (mlyNext r.mon r.inter 12 q.1 q.2).2 ≤ 12 ∧
      qIdx (mlyNext r.mon r.inter 12 q.1 q.2) = qIdx q + j * r.inter ∧
      (∀ i : Nat, 1 ≤ i → i < j → r.mon ≠ [] ∧ moy ((qIdx q + i * r.inter : Nat) : Int) ∉ r.mon) ∧
      ((mlyNext r.mon r.inter 12 q.1 q.2).1 ≤ 2099 →
        r.mon = [] ∨ ((mlyNext r.mon r.inter 12 q.1 q.2).2).toNat ∈ r.mon ∨ j = 12) := by
  obtain ⟨j, a1, a2, a3, a4, a5, a6, a7⟩ := mlyNext_skip r.mon r.inter hr.inter 12 q.1 q.2 (by omega) hy h1
  refine ⟨j, a1, a2, a3, a4, ?_, ?_, a7⟩
  · unfold qIdx
    generalize mlyNext r.mon r.inter 12 q.1 q.2 = q' at *
    have : ((j * r.inter : Nat) : Int) = (j : Int) * r.inter := by simp
    omega
  · intro i i1 i2
    have := a6 i i1 i2
    have e : (((qIdx q + i * r.inter : Nat)) : Int) = 12 * (q.1 : Int) + q.2 + (i : Int) * r.inter := by
      unfold qIdx
      have : ((i * r.inter : Nat) : Int) = (i : Int) * r.inter := by simp
      omega
    rw [e]; exact this

/-- the fields of what a month's period offers -/
theorem mE_fields (r : Rule) (p : Inst) (nti : Nat) (hr : WfRule r) (hp : WfInst p) (hs : MlySup r) (hy : 1901 ≤ p.y)
    (q : Nat × Int) (hq : mReach r p q) (hq2 : q.1 ≤ 2099) (z : Inst) (hz : z ∈ mE r p nti q) :
    z.y = q.1 ∧ z.m = q.2.toNat := by
  obtain ⟨h1, h2, h3, _, _⟩ := hq
  have := (mem_mE_iff r p nti hr hp hs q.1 q.2 ⟨by omega, hq2⟩ ⟨h1, h2⟩ z).1 hz
  exact ⟨this.1, this.2.1⟩

theorem ltP_of_idx (a x : Inst) (ha : 1 ≤ a.m ∧ a.m ≤ 12 ∧ a.y ≤ 2099) (hx : 1 ≤ x.m ∧ x.m ≤ 12 ∧ x.y ≤ 2099)
    (h : pIdx a < pIdx x) : ltP a x = true := by
  unfold pIdx at h
  apply ltP_of_month_lt a x <;> omega

theorem mly_loopHyp (r : Rule) (p : Inst) (nti : Nat) (hr : WfRule r) (hp : WfInst p) (hs : MlySup r)
    (hy : 1901 ≤ p.y) :
    LoopHyp (fun q : Nat × Int => q.1) (mE r p nti) (fun q => mlyNext r.mon r.inter 12 q.1 q.2)
      (mReach r p) (mG r p) qIdx 25201 := by
  have hi := hr.inter
  refine ⟨?_, ?_, ?_, ?_⟩
  · -- step
    intro q hq hq2
    obtain ⟨h1, h2, h3, ⟨j0, h4⟩, h5⟩ := hq
    obtain ⟨j, a1, a2, a3, a4, a5, a6, a7⟩ := mNext_facts r hr q ⟨h1, h2⟩ hq2
    generalize mlyNext r.mon r.inter 12 q.1 q.2 = q' at *
    have hg : qIdx q' = pIdx p + (j0 + j) * r.inter := by rw [a5, h4, Nat.add_mul]; omega
    have hpos : 0 < j * r.inter := Nat.mul_pos (by omega) (by omega)
    refine ⟨⟨a3, a4, ?_, ⟨j0 + j, hg⟩, ?_⟩, ?_, ?_⟩
    · unfold qIdx at a5; omega
    · intro hle
      rcases a7 hle with h | h | h
      · exact Or.inl h
      · exact Or.inr h
      · subst h
        have e : q'.2.toNat = q.2.toNat := by unfold qIdx at a5; omega
        rw [e]; exact h5 hq2
    · rw [mG_of r p q j0 (by omega) h4, mG_of r p q' (j0 + j) (by omega) hg]; omega
    · rw [a5]; omega
  · -- beyond
    intro q hq hb
    obtain ⟨h1, h2, _⟩ := hq
    show 2099 < q.1
    unfold qIdx at hb; omega
  · -- sorted
    intro q hq hq2
    obtain ⟨h1, h2, h3, _, _⟩ := hq
    have hq2 : q.1 ≤ 2099 := hq2
    have hmu : toU32 q.2 = q.2.toNat := by unfold toU32 u32; omega
    have hdow : ∀ t ∈ (mlyCtxOf r p nti).r.dow, -431 ≤ t ∧ t ≤ 431 ∧ t % 8 ≠ 0 := by
      intro t ht; have := hr.dow t ht; omega
    have hc := mlyCand_ok (mlyCtxOf r p nti) q.1 q.2.toNat (by omega) (mlyCtxOf_ds r p nti hr hp) hdow
    unfold mE
    rw [hmu]
    exact setE_sorted _ q.1 _ (by omega) hc.2 (fun c h => (hc.1 c h).1) (mkFillCtx_times_sorted r p nti hr)
      (times_lt60 r p hr hp)
  · -- cross
    intro q q' hq hq' hy1 hy2 hg a ha b hb
    have hy1 : q.1 ≤ 2099 := hy1
    have hy2 : q'.1 ≤ 2099 := hy2
    obtain ⟨fa1, fa2⟩ := mE_fields r p nti hr hp hs hy q hq hy1 a ha
    obtain ⟨fb1, fb2⟩ := mE_fields r p nti hr hp hs hy q' hq' hy2 b hb
    obtain ⟨h1, h2, h3, ⟨j, h4⟩, _⟩ := hq
    obtain ⟨h1', h2', h3', ⟨j', h4'⟩, _⟩ := hq'
    rw [mG_of r p q j (by omega) h4, mG_of r p q' j' (by omega) h4'] at hg
    have := (grid_lt (pIdx p) j j' r.inter (by omega)).2 hg
    rw [← h4, ← h4'] at this
    apply ltP_of_idx a b (by omega) (by omega)
    unfold pIdx; unfold qIdx at this; rw [fa1, fa2, fb1, fb2]; exact this

end Echse.Lemmas.RrMlyRfc
