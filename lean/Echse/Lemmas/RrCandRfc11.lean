/-
  C01 for the YEARLY / MONTHLY filler models, part 11: the 28-year repetition (`sh28`) for the date limits only the
  yearly frequency uses — BYYEARDAY, BYWEEKNO (ISO weeks), BYDAY within the year.
-/
import Echse.Lemmas.RrCandRfc6
namespace Echse.Lemmas.RrCandRfc
open Echse.Rrule Echse.Instant Echse.Spec.RrOk Echse.Lemmas.RrCandOk Echse.Spec.Rfc Echse.Lemmas.RrRfc
open Echse.Spec.Cal Echse.Spec.RuleExt

/-- January and February also of the year after the range -/
theorem days_28_jan (y m d n : Nat) (hm : m ≤ 2) (h1 : 1901 ≤ y) (h2 : y + 28 * n ≤ 2100) :
    days (y + 28 * n) m d = days y m d + 10227 * n := by
  have k : ∀ z : Int, 1900 ≤ z → z ≤ 2099 → z / 100 - z / 400 = 15 := by intro z _ _; omega
  have q : ∀ z : Int, (z + 28 * n) / 4 = z / 4 + 7 * n := by intro z; omega
  unfold days
  simp only [hm, if_true]
  have e : ((y + 28 * n : Nat) : Int) - 1 = ((y : Int) - 1) + 28 * n := by omega
  rw [e, q]
  have := k ((y : Int) - 1) (by omega) (by omega)
  have := k ((y : Int) - 1 + 28 * n) (by omega) (by omega)
  omega

theorem yearLen_28 (y n : Nat) (h1 : 1901 ≤ y) (h2 : y + 28 * n ≤ 2099) : yearLen (y + 28 * n) = yearLen y := by
  unfold yearLen; rw [isLeap_28 y n h1 h2]

theorem ydayOf_sh28 (x : Inst) (n : Nat) (h1 : 1901 ≤ x.y) (h2 : x.y + 28 * n ≤ 2099) :
    ydayOf (sh28 x n) = ydayOf x := by
  unfold ydayOf
  rw [dayOf_sh28 x n h1 h2]
  show dayOf x + 10227 * n - days (x.y + 28 * n) 1 1 + 1 = _
  rw [days_28 x.y 1 1 n h1 h2]; omega

theorem ydayOk_sh28 (r : Rule) (x : Inst) (n : Nat) (h1 : 1901 ≤ x.y) (h2 : x.y + 28 * n ≤ 2099) :
    ydayOk r (sh28 x n) ↔ ydayOk r x := by
  unfold ydayOk
  rw [ydayOf_sh28 x n h1 h2]
  show (r.doy = [] ∨ ∃ k ∈ r.doy, (0 < k ∧ k = ydayOf x) ∨ (k < 0 ∧ (yearLen (x.y + 28 * n) : Int) + 1 + k = ydayOf x)) ↔ _
  rw [yearLen_28 x.y n h1 h2]

theorem weekStart_28 (d : Int) (n : Nat) : weekStart (d + 10227 * n) = weekStart d + 10227 * n := by
  unfold weekStart; rw [wdayOf_28]; omega

theorem week1Start_28 (y n : Nat) (h1 : 1901 ≤ y) (h2 : y + 28 * n ≤ 2100) :
    week1Start (y + 28 * n) = week1Start y + 10227 * n := by
  unfold week1Start
  rw [days_28_jan y 1 4 n (by omega) h1 h2, weekStart_28]

theorem isoWeeks_28 (y n : Nat) (h1 : 1901 ≤ y) (h2 : y + 28 * n ≤ 2099) : isoWeeks (y + 28 * n) = isoWeeks y := by
  unfold isoWeeks
  have e : y + 28 * n + 1 = (y + 1) + 28 * n := by omega
  rw [e, week1Start_28 (y + 1) n (by omega) (by omega), week1Start_28 y n h1 (by omega)]
  congr 1; omega

/-- the Monday of week 1 of 1900 too repeats after 28 years (January 1900 does not: 1900 is no leap year) -/
theorem week1Start_28_1900 : ∀ n, n < 8 → week1Start (1900 + 28 * n) = week1Start 1900 + 10227 * n := by decide +kernel

theorem week1Start_28' (y n : Nat) (h1 : 1900 ≤ y) (h2 : y + 28 * n ≤ 2100) :
    week1Start (y + 28 * n) = week1Start y + 10227 * n := by
  by_cases c : y = 1900
  · subst c; exact week1Start_28_1900 n (by omega)
  · exact week1Start_28 y n (by omega) h2

theorem isoWeeks_tab1 : ∀ i, i < 101 → (isoWeeks (1900 + i) == (getIsowk (1900 + i) : Int)) = true := by decide +kernel
theorem isoWeeks_tab2 : ∀ i, i < 100 → (isoWeeks (2001 + i) == (getIsowk (2001 + i) : Int)) = true := by decide +kernel

theorem isoWeeks_tab (y : Nat) (h1 : 1900 ≤ y) (h2 : y ≤ 2100) : isoWeeks y = (getIsowk y : Int) := by
  by_cases c : y ≤ 2000
  · have a := isoWeeks_tab1 (y - 1900) (by omega)
    have e1 : 1900 + (y - 1900) = y := by omega
    rw [e1, beq_iff_eq] at a; exact a
  · have a := isoWeeks_tab2 (y - 2001) (by omega)
    have e1 : 2001 + (y - 2001) = y := by omega
    rw [e1, beq_iff_eq] at a; exact a

theorem isoWeeks_28' (y n : Nat) (h1 : 1900 ≤ y) (h2 : y + 28 * n ≤ 2100) : isoWeeks (y + 28 * n) = isoWeeks y := by
  rw [isoWeeks_tab y h1 (by omega), isoWeeks_tab (y + 28 * n) (by omega) h2]
  have : (y + 28 * n) % 28 = y % 28 := by omega
  unfold getIsowk; rw [this]

/-- day `D` lies in week `k` of the ISO year `iy` -/
def InWkD (iy : Nat) (k D : Int) : Prop :=
  let w := if k > 0 then k else isoWeeks iy + 1 + k
  1 ≤ w ∧ w ≤ isoWeeks iy ∧ week1Start iy + 7 * (w - 1) ≤ D ∧ D < week1Start iy + 7 * w

theorem inWk_28 (iy n : Nat) (k D : Int) (h1 : 1900 ≤ iy) (h2 : iy + 28 * n ≤ 2100) :
    InWkD (iy + 28 * n) k (D + 10227 * n) ↔ InWkD iy k D := by
  unfold InWkD
  rw [isoWeeks_28' iy n h1 h2, week1Start_28' iy n h1 h2]
  dsimp only
  constructor
  · rintro ⟨a, b, c, d⟩; exact ⟨a, b, by omega, by omega⟩
  · rintro ⟨a, b, c, d⟩; exact ⟨a, b, by omega, by omega⟩

theorem weeknoOk_sh28 (r : Rule) (x : Inst) (n : Nat) (h1 : 1901 ≤ x.y) (h2 : x.y + 28 * n ≤ 2099) :
    weeknoOk r (sh28 x n) ↔ weeknoOk r x := by
  unfold weeknoOk
  rw [dayOf_sh28 x n h1 h2]
  show (∃ k ∈ r.wk, ∃ iy ∈ [x.y + 28 * n - 1, x.y + 28 * n, x.y + 28 * n + 1], InWkD iy k (dayOf x + 10227 * n)) ↔
    (∃ k ∈ r.wk, ∃ iy ∈ [x.y - 1, x.y, x.y + 1], InWkD iy k (dayOf x))
  have e1 : x.y + 28 * n - 1 = (x.y - 1) + 28 * n := by omega
  have e3 : x.y + 28 * n + 1 = (x.y + 1) + 28 * n := by omega
  have a1 := inWk_28 (x.y - 1) n
  have a2 := inWk_28 x.y n
  have a3 := inWk_28 (x.y + 1) n
  rw [e1, e3]
  apply exists_congr; intro k
  apply and_congr Iff.rfl
  constructor
  · rintro ⟨iy, hiy, h⟩
    simp only [List.mem_cons, List.not_mem_nil, or_false] at hiy
    rcases hiy with rfl | rfl | rfl
    · exact ⟨x.y - 1, by simp, (a1 k _ (by omega) (by omega)).1 h⟩
    · exact ⟨x.y, by simp, (a2 k _ (by omega) (by omega)).1 h⟩
    · exact ⟨x.y + 1, by simp, (a3 k _ (by omega) (by omega)).1 h⟩
  · rintro ⟨iy, hiy, h⟩
    simp only [List.mem_cons, List.not_mem_nil, or_false] at hiy
    rcases hiy with rfl | rfl | rfl
    · exact ⟨x.y - 1 + 28 * n, by simp, (a1 k _ (by omega) (by omega)).2 h⟩
    · exact ⟨x.y + 28 * n, by simp, (a2 k _ (by omega) (by omega)).2 h⟩
    · exact ⟨x.y + 1 + 28 * n, by simp, (a3 k _ (by omega) (by omega)).2 h⟩

theorem bydayInYear_sh28 (r : Rule) (x : Inst) (n : Nat) (h1 : 1901 ≤ x.y) (h2 : x.y + 28 * n ≤ 2099) :
    bydayInYear r (sh28 x n) ↔ bydayInYear r x := by
  unfold bydayInYear
  rw [dayOf_sh28 x n h1 h2, wdayOf_28]
  show (∃ t ∈ r.dow, wdOf t = wdayOf (dayOf x) ∧ (ordOf t = 0 ∨
    NthWeekday (ordOf t) (days (x.y + 28 * n) 1 1) (days (x.y + 28 * n) 12 31) (dayOf x + 10227 * n))) ↔ _
  rw [days_28 x.y 1 1 n h1 h2, days_28 x.y 12 31 n h1 h2]
  apply exists_congr; intro t
  apply and_congr Iff.rfl
  apply and_congr Iff.rfl
  apply or_congr Iff.rfl
  exact nth_shift _ _ _ _ _

end Echse.Lemmas.RrCandRfc
