/-
  C17 lemmas, part 10: the `reassess` loop of `shift()` lands on the date with the same day number.
-/
import Echse.Lemmas.RuleExt9
namespace Echse.RuleExt
open Echse.Rrule Echse.Spec.Cal Echse.Instant

theorem valid_final (y m : Nat) (d : Int) (hok : OkYM y m) (hv : 1 ≤ d ∧ d ≤ getNdom y m)
    (hhi : days y m 1 + d - 1 ≤ dHI) :
    ∃ nd : Nat, d = (nd : Int) ∧ 1 ≤ nd ∧ nd ≤ monthLen y m ∧ days y m nd = days y m 1 + d - 1 ∧
      1900 ≤ y ∧ y ≤ 2100 := by
  refine ⟨d.toNat, by omega, by omega, ?_, ?_, ?_, ?_⟩
  · by_cases h : y = 2100 ∧ m = 2
    · obtain ⟨rfl, rfl⟩ := h
      rw [days_2100_2, dHI_eq] at hhi
      have : monthLen 2100 2 = 28 := by decide
      omega
    · rw [← getNdom_eq y m hok h]; omega
  · rw [days_d y m d.toNat]; omega
  · unfold OkYM at hok; omega
  · unfold OkYM at hok; omega

theorem prev_if (y m : Nat) (h1 : 1 ≤ m) (hy : 1 ≤ y) :
    (if (m : Int) - 1 ≤ 0 then ((m : Int) - 1 + 12, (y : Int) - 1) else ((m : Int) - 1, (y : Int))) =
      ((((prevYM y m).2 : Nat) : Int), (((prevYM y m).1 : Nat) : Int)) := by
  unfold prevYM
  by_cases h : m = 1
  · subst h; simp; omega
  · have : ¬ ((m : Int) - 1 ≤ 0) := by omega
    simp [h, this]; omega

theorem next_if (y m : Nat) (h2 : m ≤ 12) :
    (if (m : Int) + 1 > 12 then ((m : Int) + 1 - 12, (y : Int) + 1) else ((m : Int) + 1, (y : Int))) =
      ((((nextYM y m).2 : Nat) : Int), (((nextYM y m).1 : Nat) : Int)) := by
  unfold nextYM
  by_cases h : m = 12
  · subst h; simp
  · have : ¬ ((m : Int) + 1 > 12) := by omega
    simp [h, this]

theorem okYM_prev (y m : Nat) (h : OkYM y m) (hn : ¬ (y = 1900 ∧ m = 3)) :
    OkYM (prevYM y m).1 (prevYM y m).2 ∧ ¬ ((prevYM y m).1 = 2100 ∧ (prevYM y m).2 = 2) := by
  unfold OkYM prevYM at *
  split <;> simp <;> omega

theorem okYM_next (y m : Nat) (h : OkYM y m) (hn : ¬ (y = 2100 ∧ m = 2)) :
    OkYM (nextYM y m).1 (nextYM y m).2 := by
  unfold OkYM nextYM at *
  split <;> simp <;> omega

theorem reassess_spec : ∀ (fuel y m : Nat) (d : Int), OkYM y m →
    ((1 ≤ d ∧ d ≤ getNdom y m) ∨ (-28 * (fuel : Int) < d ∧ d ≤ 28 * (fuel : Int) + 28)) →
    dLO ≤ days y m 1 + d - 1 → days y m 1 + d - 1 ≤ dHI →
    ∃ ny nm nd : Nat, reassess fuel y m d = ((ny : Int), (nm : Int), (nd : Int)) ∧
      1 ≤ nm ∧ nm ≤ 12 ∧ 1 ≤ nd ∧ nd ≤ monthLen ny nm ∧ days ny nm nd = days y m 1 + d - 1 ∧
      1900 ≤ ny ∧ ny ≤ 2100 := by
  intro fuel
  induction fuel with
  | zero =>
    intro y m d hok hf hlo hhi
    have hb := getNdom_bounds y m hok.1 hok.2.1
    have hv : 1 ≤ d ∧ d ≤ getNdom y m := by omega
    obtain ⟨nd, e, v1, v2, v3, v4, v5⟩ := valid_final y m d hok hv hhi
    exact ⟨y, m, nd, by rw [reassess, e], hok.1, hok.2.1, v1, v2, v3, v4, v5⟩
  | succ f ih =>
    intro y m d hok hf hlo hhi
    have hb := getNdom_bounds y m hok.1 hok.2.1
    rw [reassess]
    simp only [Int.toNat_natCast]
    by_cases hd0 : d ≤ 0
    · rw [if_pos hd0]
      have hy1 : 1 ≤ y := by unfold OkYM at hok; omega
      rw [prev_if y m hok.1 hy1]
      simp only [Int.toNat_natCast]
      have hn : ¬ (y = 1900 ∧ m = 3) := by
        intro ⟨e1, e2⟩; subst e1; subst e2
        rw [days_1900_3, dLO_eq] at hlo; omega
      obtain ⟨hok', hn'⟩ := okYM_prev y m hok hn
      have hg := getNdom_eq (prevYM y m).1 (prevYM y m).2 hok' hn'
      have hb' := getNdom_bounds (prevYM y m).1 (prevYM y m).2 hok'.1 hok'.2.1
      have hdays := days_prevYM y m hok.1 hok.2.1 hy1
      obtain ⟨ny, nm, nd, e, r⟩ := ih (prevYM y m).1 (prevYM y m).2 (d + getNdom (prevYM y m).1 (prevYM y m).2) hok'
        (by omega) (by omega) (by omega)
      refine ⟨ny, nm, nd, e, ?_⟩
      have : days (prevYM y m).1 (prevYM y m).2 1 + (d + getNdom (prevYM y m).1 (prevYM y m).2) - 1
          = days y m 1 + d - 1 := by omega
      rw [← this]; exact r
    · rw [if_neg hd0]
      by_cases hbig : d > getNdom y m
      · rw [if_pos hbig]
        rw [next_if y m hok.2.1]
        have hn : ¬ (y = 2100 ∧ m = 2) := by
          intro ⟨e1, e2⟩; subst e1; subst e2
          rw [days_2100_2, dHI_eq] at hhi; omega
        have hok' := okYM_next y m hok hn
        have hg := getNdom_eq y m hok hn
        have hdays := days_nextYM y m hok.1 hok.2.1
        obtain ⟨ny, nm, nd, e, r⟩ := ih (nextYM y m).1 (nextYM y m).2 (d - getNdom y m) hok'
          (by omega) (by omega) (by omega)
        refine ⟨ny, nm, nd, e, ?_⟩
        have : days (nextYM y m).1 (nextYM y m).2 1 + (d - getNdom y m) - 1 = days y m 1 + d - 1 := by omega
        rw [← this]; exact r
      · rw [if_neg hbig]
        have hv : 1 ≤ d ∧ d ≤ getNdom y m := by omega
        obtain ⟨nd, e, v1, v2, v3, v4, v5⟩ := valid_final y m d hok hv hhi
        exact ⟨y, m, nd, by rw [e], hok.1, hok.2.1, v1, v2, v3, v4, v5⟩
end Echse.RuleExt
