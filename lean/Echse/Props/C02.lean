import Echse.Model.Stream
namespace C02
open Echse.Stream

/-- smoke (general statements replace this): a zero-duration occurrence named by an exception is removed
(was finding D12 before the repair of next_evfilt) -/
theorem zero_duration_excluded :
    (filtNext listOps listOps 10 (Filt.make listOps [⟨5, 0, 1⟩, ⟨9, 0, 1⟩] [⟨5, 0, 1⟩]) true).1 = ⟨9, 0, 1⟩ := by decide

end C02
