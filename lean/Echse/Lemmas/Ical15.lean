/-
  C10 lemmas, part 15: one round of `_ical_pull` (with the bookkeeping of the loops around it) in terms of
  the automaton.
-/
import Echse.Lemmas.Ical14
namespace Echse.Ical

theorem round_marked' (p : Parser) (h : Marked p ∧ ¬ Fold (bpOf p)) : round p = procStep (unmark p) := by
  unfold round; rw [if_pos h]

theorem round_marked (p : Parser) (h : Marked p ∧ ¬ Fold (bpOf p)) (hk : p.skip = false)
    (hs : p.stash.length ≠ 0) : round p = procRes (doProc (unmark p)) := by
  rw [round_marked' p h]; unfold procStep
  have hk' : ¬ (unmark p).skip = true := by show ¬ p.skip = true; rw [hk]; simp
  have hs' : (unmark p).stash.length ≠ 0 := hs
  rw [if_neg hk', if_pos hs']

/-- the marked line turns out complete, but it is empty: no line -/
theorem round_marked_empty (p : Parser) (h : Marked p ∧ ¬ Fold (bpOf p)) (hk : p.skip = false)
    (hs : ¬ p.stash.length ≠ 0) : round p = (unmark p, none) := by
  rw [round_marked' p h]; unfold procStep
  have hk' : ¬ (unmark p).skip = true := by show ¬ p.skip = true; rw [hk]; simp
  have hs' : ¬ (unmark p).stash.length ≠ 0 := hs
  rw [if_neg hk', if_neg hs']

/-- the marked line turns out complete with `skip` set (allocation failure, not reachable under `Rel`): passed over -/
theorem round_marked_skip (p : Parser) (h : Marked p ∧ ¬ Fold (bpOf p)) (hk : p.skip = true) :
    round p = ({ unmark p with skip := false, stash := [] }, none) := by
  rw [round_marked' p h]; unfold procStep
  have hk' : (unmark p).skip = true := hk
  rw [if_pos hk']

theorem round_chop (p : Parser) (h : ¬ (Marked p ∧ ¬ Fold (bpOf p))) : round p = chopR (preChop p) := by
  unfold round; rw [if_neg h]

/-- no complete line in these bytes -/
def NoLine (b : List Byte) : Prop := eolR b = none ∨ ∃ e, eolR b = some e ∧ e ≥ b.length

theorem noLine_nil : NoLine [] := Or.inl eolR_nil

theorem round_spec (p : Parser) (A : Abs) (h : Pre p A) (hne : rest p ≠ []) :
    (flatNext p A.ins = none ∧ Post (round p).1 (runA A (rest p)) ∧ (runA A (rest p)).ins = A.ins ∧
      NoLine (rest (round p).1)) ∨
    (∃ q acc' A', flatNext p A.ins = some (q, acc') ∧ Pre q A' ∧ rest q ≠ [] ∧ acc' = A'.ins ∧
      runA A (rest p) = runA A' (rest q)) := by
  by_cases hc : Marked p ∧ ¬ Fold (bpOf p)
  · -- the marked line is complete
    right
    cases hr : rest p with
    | nil => exact absurd hr hne
    | cons c r =>
      have hbp : bpOf p = c := by rw [bpOf_eq, hr]; rfl
      have hf : isFold c = false := by
        cases hx : isFold c with
        | false => rfl
        | true => exact absurd ((fold_iff c).2 hx) (by rw [← hbp]; exact hc.2)
      have hpend : A.sc.pend = true := h.rel.mark.1 hc.1
      obtain ⟨q', hbook, hrel, hbuf, hbix⟩ := procStep_spec (unmark p) A h.rel.skip
        h.rel.stash h.rel.comp h.rel.log rfl
      have hrest : rest q' = c :: r := by
        unfold rest; rw [hbuf, hbix]; exact hr
      refine ⟨q', _, flushA A, by rw [flatNext_eq, round_marked' p hc]; exact hbook,
        ⟨hrel, flushA_inv A, by rw [hrest, ← hr]; exact h.nobsl⟩, by rw [hrest]; simp, rfl, ?_⟩
      rw [hrest]; exact runA_flush A c r hpend hf
  · obtain ⟨A1, h1, hp1, hins1, hrun1⟩ := pre_chop p A h hne hc
    rw [flatNext_eq, round_chop p hc, hrun1, ← hins1]
    cases he : eolR (rest (preChop p)) with
    | none =>
      left
      have hl := eolR_none _ _ (Nat.le_refl _) he
      have hs := stash_spec _ A1 h1 hp1 false hl
      rw [chopR_stash0 _ he]
      exact ⟨rfl, hs.1, hs.2, by rw [hs.1.done]; exact noLine_nil⟩
    | some e =>
      by_cases hge : e ≥ (rest (preChop p)).length
      · left
        have hb := eolR_bounds _ _ he
        have hs0 := eolR_some _ _ _ (Nat.le_refl _) he
        have hl : lineEnd (rest (preChop p)) = some true := by
          have := hs0.1; rw [List.take_of_length_le hge] at this; exact this
        have hs := stash_spec _ A1 h1 hp1 true hl
        rw [chopR_stash1 _ e he hge]
        exact ⟨rfl, hs.1, hs.2, by rw [hs.1.done]; exact noLine_nil⟩
      · right
        exact line_spec _ A1 h1 hp1 e he (by omega)

end Echse.Ical
