/-
  Model of src/echsx.c `prep_task` (the descriptor plan for the combinations of X-ECHS-OFILE / X-ECHS-EFILE /
  MAIL-OUT / MAIL-ERR) and of the routing it implies: direct descriptors, or pipes pumped by `data_cb`
  (append to the mail descriptor, then copy the same bytes to the tee descriptor), and `mail_task`'s body
  (the contents of `mfn`).  Hand transcription of the decision chain; tied to the C code by vlib/p_C13.py,
  which runs the real echsx on jobs writing patterned output.

  Sinks: 0 = /dev/null, 1 = the mkstemp file, 2 = the file named by OFILE, 3 = the file named by EFILE when it
  is a different name (with the same name both are 2).
-/
namespace Echse.Exec

abbrev Sink := Nat
def nul : Sink := 0
def tmp : Sink := 1

structure Cfg where
  out : Option Sink      -- t->t->out
  err : Option Sink      -- t->t->err
  mailout : Bool
  mailerr : Bool
deriving Repr, DecidableEq

def Cfg.mk' (so se same mo me : Bool) : Cfg :=
  { out := if so then some 2 else none, err := if se then some (if so && same then 2 else 3) else none,
    mailout := mo, mailerr := me }

structure Plan where
  ofd : Option Sink := none       -- none = a pipe
  efd : Option Sink := none
  piped : Bool := false
  mfd : Option Sink := none       -- where the pump (or the child) writes the mail copy
  teeo : Option Sink := none
  teee : Option Sink := none
  mfn : Option Sink := none       -- the file mail_task sends
  mrm : Bool := false
deriving Repr, DecidableEq

/-- `prep_task` -/
def prep (c : Cfg) : Plan :=
  let sameName := c.out.isSome && c.err.isSome && c.out == c.err
  if c.out.isNone && c.err.isNone && !c.mailout && !c.mailerr then
    { ofd := some nul, efd := some nul }                                        -- R4
  else if c.out.isNone && c.err.isNone then
    if c.mailout && c.mailerr then { ofd := some tmp, efd := some tmp, mfd := some tmp, mfn := some tmp, mrm := true }   -- R1
    else if c.mailout then { ofd := some tmp, mfd := some tmp, efd := some nul, mfn := some tmp, mrm := true }           -- R2
    else { efd := some tmp, mfd := some tmp, ofd := some nul, mfn := some tmp, mrm := true }                             -- R3
  else if !c.mailout && !c.mailerr then                                         -- R8 R12 R16 R20
    let ofd := c.out
    let efd := if c.err.isSome && (c.out.isNone || !sameName) then c.err
               else if c.err.isSome && ofd.isSome then ofd else none
    { ofd := some (ofd.getD nul), efd := some (efd.getD nul) }
  else if c.mailout && c.mailerr && sameName then
    { ofd := c.out, efd := c.out, mfd := c.out, mfn := c.out }                  -- R13
  else if (c.mailout != c.mailerr) && (c.out.isNone || c.err.isNone || !sameName) then
    if c.out.isNone && c.mailout then { ofd := some tmp, mfd := some tmp, efd := c.err, mfn := some tmp, mrm := true }   -- R6
    else if c.out.isNone then { ofd := some nul, efd := c.err, mfd := c.err, mfn := c.err }                              -- R7
    else if c.err.isNone && c.mailout then { ofd := c.out, mfd := c.out, efd := some nul, mfn := c.out }                 -- R10
    else if c.err.isNone then { efd := some tmp, mfd := some tmp, ofd := c.out, mfn := some tmp, mrm := true }           -- R11
    else if c.mailout then { ofd := c.out, mfd := c.out, efd := c.err, mfn := c.out }                                    -- R18
    else { ofd := c.out, efd := c.err, mfd := c.err, mfn := c.err }                                                      -- R19
  else
    -- pipes: R5 R9 R14 R15 R17
    let p : Plan := { piped := true, mfd := some tmp, mfn := some tmp, mrm := true }
    if sameName then
      if c.mailout then { p with teeo := some tmp, mfd := c.out }               -- R14
      else { p with teee := some tmp, mfd := c.out }                            -- R15
    else if c.out.isSome && c.err.isSome then { p with teeo := c.out, teee := c.err }   -- R17
    else if c.out.isSome then { p with teeo := c.out }                          -- R9
    else { p with teee := c.err }                                               -- R5

/-- a chunk the job writes: `true` = stdout, `false` = stderr, with its bytes -/
abbrev Chunk := Bool × List Nat

/-- what one chunk adds to sink `k` under plan `p` -/
def deliver (p : Plan) (k : Sink) (ch : Chunk) : List Nat :=
  if k = nul then [] else
  if p.piped then
    (if p.mfd == some k then ch.2 else []) ++
    (if (if ch.1 then p.teeo else p.teee) == some k then ch.2 else [])
  else
    if (if ch.1 then p.ofd else p.efd) == some k then ch.2 else []

/-- contents of sink `k` after the job wrote `chunks` (every file is opened O_TRUNC) -/
def content (p : Plan) (k : Sink) (chunks : List Chunk) : List Nat := (chunks.map (deliver p k)).flatten

/-- the body `mail_task` sends -/
def mailBody (p : Plan) (chunks : List Chunk) : List Nat :=
  match p.mfn with
  | some k => content p k chunks
  | none => []

end Echse.Exec
