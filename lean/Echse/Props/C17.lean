/-
  Property C17: BYEASTER and SHIFT mean what the README says.
  Statements only (proofs call lemmas from Echse/Lemmas/RuleExt*.lean).
  Model: Echse.Model.Rrule (easter_get_yday, fill_yly_eastr, shift, snarf_shift); spec: Echse.Spec.RuleExt.
-/
import Echse.Model.Rrule
import Echse.Spec.RuleExt
import Echse.Lemmas.RuleExt1
import Echse.Lemmas.RuleExt5
import Echse.Lemmas.RuleExt7
import Echse.Lemmas.RuleExt8
import Echse.Lemmas.RuleExt15
import Echse.Lemmas.RuleExt17
import Echse.Lemmas.RuleExt19
namespace C17
open Echse.Rrule Echse.Spec.Cal Echse.Spec.RuleExt

/-- years in which echse's leap rule `y % 4 = 0` is the Gregorian one -/
def YearOk (y : Nat) : Prop := 1901 ≤ y ∧ y ≤ 2099
/-- a packed candidate (month - 1) * 32 + day that is a real date of year y -/
def ValidCand (y c : Nat) : Prop :=
  1 ≤ (unpackCand c).m ∧ (unpackCand c).m ≤ 12 ∧ 1 ≤ (unpackCand c).d ∧ (unpackCand c).d ≤ monthLen y (unpackCand c).m
/-- day number of a candidate of year y -/
def candDay (y c : Nat) : Int := days y (unpackCand c).m (unpackCand c).d
/-- the year a result set of `shift()` is emitted under -/
def bucketYear (y k : Nat) : Nat := if k = 1 then y - 1 else if k = 2 then y + 1 else y
/-- the packed SHIFT value for `d` days and `count` business days (`back`: backwards, `keep`: the B+ / B- form) -/
def mkShift (d : Int) (count : Nat) (back keep : Bool) : Int :=
  d * 65536 + (count * 4 + (if keep ∨ count = 0 then 2 else 0) + (if back then 1 else 0) : Nat)

/-! ### Easter -/

/-- `easter_get_yday` is the day of the year of Easter Sunday by the anonymous Gregorian computus, every year 1901-2099 -/
theorem easter_is_computus (y : Nat) (h : YearOk y) : (easterGetYday y : Int) = easterDay y - days y 1 1 + 1 := by
  exact Echse.RuleExt.easter_yday y h.1 h.2

theorem easter_is_sunday (y : Nat) (h : YearOk y) : wdayOf (easterDay y) = 7 := by
  exact Echse.RuleExt.easter_wday y h.1 h.2

/-- BYEASTER=o selects the day o days after (before) Easter Sunday — as long as that day lies in the same year -/
theorem byeaster_selects (y : Nat) (o : Int) (h : YearOk y) (ho : -366 ≤ o ∧ o ≤ 366)
    (hin : days y 1 1 ≤ easterDay y + o ∧ easterDay y + o ≤ days y 12 31) :
    ∃ c, fillYlyEastr [] y [o] [] [] 0 = [c] ∧ ValidCand y c ∧ candDay y c = easterDay y + o := by
  exact Echse.RuleExt.byeaster_selects y o h.1 h.2 hin

/-- finding D61 (recorded): an offset that leaves the calendar year selects nothing -/
theorem byeaster_outside_year_dropped (y : Nat) (o : Int) (h : YearOk y) (ho : -366 ≤ o ∧ o ≤ 366)
    (hout : easterDay y + o < days y 1 1 ∨ days y 12 31 < easterDay y + o) :
    fillYlyEastr [] y [o] [] [] 0 = [] := by
  exact Echse.RuleExt.byeaster_outside y o h.1 h.2 ho hout

/-- several offsets select the union of what each selects -/
theorem byeaster_many (y : Nat) (offs : List Int) (c : Nat) (h : YearOk y) (ho : ∀ o ∈ offs, -366 ≤ o ∧ o ≤ 366) :
    c ∈ fillYlyEastr [] y offs [] [] 0 ↔ ∃ o ∈ offs, fillYlyEastr [] y [o] [] [] 0 = [c] := by
  exact Echse.RuleExt.byeaster_many y offs c

/-! ### SHIFT=N (calendar days) -/

/-- SHIFT=n moves a date by n calendar days: the result is the real date n days away, filed under the set of its year -/
theorem shift_days_one (y c : Nat) (n : Int) (hy : 1902 ≤ y ∧ y ≤ 2098) (hc : ValidCand y c)
    (hn : n ≠ 0 ∧ -366 ≤ n ∧ n ≤ 366) :
    ∃ ny nm nd : Nat, 1 ≤ nm ∧ nm ≤ 12 ∧ 1 ≤ nd ∧ nd ≤ monthLen ny nm ∧
      days ny nm nd = candDay y c + n ∧
      shift { same := [c] } y (n * 65536) = Cand3.ass {} (bucket y ny) (packCand nm nd) := by
  exact Echse.RuleExt.shift_days_one y c n hy hc hn

/-- up to 365 days the result lies in the year the set stands for -/
theorem shift_days_year (y c : Nat) (n : Int) (hy : 1902 ≤ y ∧ y ≤ 2098) (hc : ValidCand y c)
    (hn : n ≠ 0 ∧ -365 ≤ n ∧ n ≤ 365) (ny nm nd : Nat) (hv : 1 ≤ nm ∧ nm ≤ 12 ∧ 1 ≤ nd ∧ nd ≤ monthLen ny nm)
    (hd : days ny nm nd = candDay y c + n) : ny = bucketYear y (bucket y ny) := by
  have r := Echse.RuleExt.shift_days_year y _ _ n hc.1 hc.2.1 hc.2.2.1 hc.2.2.2 (by omega) hn.2 ny nm nd hv hd
  unfold bucketYear bucket
  split <;> (try split) <;> (try simp) <;> omega

/-- finding D64 (recorded): SHIFT=-366 from January 1st after a common year reaches the year before last, which is
filed under "previous year" -/
theorem shift_366_reaches_two_years_back :
    shift { same := [1] } 2022 (-366 * 65536) = { prev := [packCand 12 31] } ∧ days 2020 12 31 = days 2022 1 1 - 366 := by
  decide

/-! ### SHIFT=NB (business days) -/

/- SHIFT=NB / NB+ / NB- / -0B: the result is the date the specification `shiftB` names.
ORIGINAL STATEMENT -- FALSE for y = 2098 (echse takes 2100 for a leap year: `__get_ndom` tests `y % 4` only, and
`reassess` then counts a February 29th, 2100):

theorem shift_bdays_one (y c count : Nat) (back keep : Bool) (hy : 1902 ≤ y ∧ y ≤ 2098) (hc : ValidCand y c)
    (hcount : count ≤ 366) :
    ∃ ny nm nd : Nat, 1 ≤ nm ∧ nm ≤ 12 ∧ 1 ≤ nd ∧ nd ≤ monthLen ny nm ∧
      days ny nm nd = shiftB (candDay y c) count back keep ∧
      shift { same := [c] } y (mkShift 0 count back keep) = Cand3.ass {} (bucket y ny) (packCand nm nd)

Counterexample (theorem `shift_bdays_one_counterexample` below): y = 2098, c = packCand 12 31, count = 366,
back = keep = false.  `shift` yields { next := [packCand 5 26] } (2100-05-26, day number 767095), the specification
names day 767096 = 2100-05-27.  From 2098-12-31 every count 303..366 fails (all that pass 2100-02-28). -/

/-- the counterexample to the original `shift_bdays_one` -/
theorem shift_bdays_one_counterexample :
    shift { same := [packCand 12 31] } 2098 (mkShift 0 366 false false) = { next := [packCand 5 26] } ∧
    shiftB (candDay 2098 (packCand 12 31)) 366 false false = days 2100 5 27 ∧ days 2100 5 26 = days 2100 5 27 - 1 := by
  decide +kernel

/-- SHIFT=NB / NB+ / NB- / -0B: the result is the date the specification `shiftB` names -- as long as the result
does not lie beyond 2100-02-28 (always so for y ≤ 2097) -/
theorem shift_bdays_one_partial (y c count : Nat) (back keep : Bool) (hy : 1902 ≤ y ∧ y ≤ 2098) (hc : ValidCand y c)
    (hcount : count ≤ 366) (hlim : y ≤ 2097 ∨ shiftB (candDay y c) count back keep ≤ days 2100 2 28) :
    ∃ ny nm nd : Nat, 1 ≤ nm ∧ nm ≤ 12 ∧ 1 ≤ nd ∧ nd ≤ monthLen ny nm ∧
      days ny nm nd = shiftB (candDay y c) count back keep ∧
      shift { same := [c] } y (mkShift 0 count back keep) = Cand3.ass {} (bucket y ny) (packCand nm nd) := by
  exact Echse.RuleExt.shift_bdays_one y c count back keep hy hc hcount hlim

/- SHIFT=n,NB: first the calendar days, then the business days.
ORIGINAL STATEMENT -- FALSE for y = 2097 (same cause: the business-day part crosses echse's February 29th, 2100):

theorem shift_both_one (y c count : Nat) (n : Int) (back keep : Bool) (hy : 1903 ≤ y ∧ y ≤ 2097) (hc : ValidCand y c)
    (hn : n ≠ 0 ∧ -365 ≤ n ∧ n ≤ 365) (hcount : count ≤ 366) :
    ∃ ny nm nd : Nat, 1 ≤ nm ∧ nm ≤ 12 ∧ 1 ≤ nd ∧ nd ≤ monthLen ny nm ∧
      days ny nm nd = shiftB (candDay y c + n) count back keep ∧
      shift { same := [c] } y (mkShift n count back keep) = Cand3.ass {} (bucket y ny) (packCand nm nd)

Counterexample (theorem `shift_both_one_counterexample` below): y = 2097, c = packCand 12 31, n = 365, count = 366,
back = keep = false: `shift` yields { next := [packCand 5 26] }, the specification names 767096 = 2100-05-27. -/

/-- the counterexample to the original `shift_both_one` -/
theorem shift_both_one_counterexample :
    shift { same := [packCand 12 31] } 2097 (mkShift 365 366 false false) = { next := [packCand 5 26] } ∧
    shiftB (candDay 2097 (packCand 12 31) + 365) 366 false false = days 2100 5 27 := by
  decide +kernel

/-- SHIFT=n,NB: first the calendar days, then the business days (when the day part stays within the neighbouring
years) -- as long as the result does not lie beyond 2100-02-28 (always so for y ≤ 2096) -/
theorem shift_both_one_partial (y c count : Nat) (n : Int) (back keep : Bool) (hy : 1903 ≤ y ∧ y ≤ 2097)
    (hc : ValidCand y c) (hn : n ≠ 0 ∧ -365 ≤ n ∧ n ≤ 365) (hcount : count ≤ 366)
    (hlim : y ≤ 2096 ∨ shiftB (candDay y c + n) count back keep ≤ days 2100 2 28) :
    ∃ ny nm nd : Nat, 1 ≤ nm ∧ nm ≤ 12 ∧ 1 ≤ nd ∧ nd ≤ monthLen ny nm ∧
      days ny nm nd = shiftB (candDay y c + n) count back keep ∧
      shift { same := [c] } y (mkShift n count back keep) = Cand3.ass {} (bucket y ny) (packCand nm nd) := by
  exact Echse.RuleExt.shift_both_one y c count n back keep hy hc hn hcount hlim

/-- a set of dates is shifted date by date: every result comes from one candidate, every candidate yields its result -/
theorem shift_set (y : Nat) (cs : List Nat) (sh : Int) (k c' : Nat) :
    c' ∈ (shift { same := cs.foldl assC [] } y sh).get k ↔
      (sh = 0 ∧ k = 0 ∧ c' ∈ cs) ∨ (sh ≠ 0 ∧ ∃ c ∈ cs, c' ∈ (shift { same := [c] } y sh).get k) := by
  exact Echse.RuleExt.shift_set y cs sh k c'

/-! ### SHIFT text -/

theorem snarf_days (n : Int) (hn : -366 ≤ n ∧ n ≤ 366) : snarfShift (toString n) = n * 65536 := by
  exact Echse.RuleExt.snarf_days n hn

theorem snarf_bdays (n : Int) (hn : n ≠ 0 ∧ -366 ≤ n ∧ n ≤ 366) :
    snarfShift (toString n ++ "B") = mkShift 0 n.natAbs (n < 0) false := by
  exact Echse.RuleExt.snarf_bdays n hn

theorem snarf_bdays_keep_fwd (n : Nat) (hn : 1 ≤ n ∧ n ≤ 366) :
    snarfShift (toString n ++ "B+") = mkShift 0 n false true := by
  exact Echse.RuleExt.snarf_bdays_keep_fwd n hn

theorem snarf_bdays_keep_back (n : Nat) (hn : 1 ≤ n ∧ n ≤ 366) :
    snarfShift ("-" ++ toString n ++ "B-") = mkShift 0 n true true := by
  exact Echse.RuleExt.snarf_bdays_keep_back n hn

/-- zero business days: `0B`, `0B+` go forward to Monday, `-0B`, `0B-` back to Friday -/
theorem snarf_zero_forms :
    snarfShift "0B" = mkShift 0 0 false true ∧ snarfShift "0B+" = mkShift 0 0 false true ∧
    snarfShift "-0B" = mkShift 0 0 true true ∧ snarfShift "0B-" = mkShift 0 0 true true := by
  exact Echse.RuleExt.snarf_zero_forms

theorem snarf_both (d n : Int) (hd : d ≠ 0 ∧ -366 ≤ d ∧ d ≤ 366) (hn : -366 ≤ n ∧ n ≤ 366) :
    snarfShift (toString d ++ "," ++ toString n ++ "B") = mkShift d n.natAbs (n < 0) false := by
  exact Echse.RuleExt.snarf_both d n hd hn

/-! ### the premises are satisfiable -/
example : YearOk 2024 ∧ ValidCand 2024 (packCand 2 29) ∧ candDay 2024 (packCand 2 29) = days 2024 2 29 := by
  unfold YearOk ValidCand candDay; decide
example : shift { same := [packCand 4 15] } 2018 (mkShift 0 1 false false) = { same := [packCand 4 16] } := by decide
example : shift { same := [packCand 4 15] } 2018 (mkShift 0 1 false true) = { same := [packCand 4 17] } := by decide

end C17
