/-
  Facts about the emission loop shared by the YEARLY and MONTHLY filler models (`emitDay`, `emitPeriod`,
  `finishPeriod` of Echse.Model.RrCand): what one period appends to the cache is a sublist of the period's full
  enumeration (candidate days × times of day), every element passed the UNTIL and the seed test, the count stays
  within `nti`, and under a SHIFT the cache stays strictly ordered.
-/
import Echse.Model.RrYly
import Echse.Model.RrMly
import Echse.Spec.RrOk
namespace Echse.Lemmas.RrCandOk
open Echse.Rrule Echse.Instant Echse.Spec.RrOk

/-- the cache (latest first) is strictly descending -/
def Desc (l : List Inst) : Prop := l.Pairwise (fun a b => ltP b a = true)

/-- the instant the ENUM loop forms for candidate `yd` of year `yy` and time `t` -/
def mkX (k : FillCtx) (yy yd : Nat) (t : Nat × Nat × Nat) : Inst :=
  mkInst yy (yd / 32 + 1) (yd % 32) t.1 t.2.1 t.2.2 k.proto.ms

/-- `st'` comes from `st` by writing some of the instants `E` (in that order), each of which passed the tests -/
def Emits (k : FillCtx) (E : List Inst) (st st' : FillSt) : Prop :=
  ∃ new : List Inst, st'.out = new.reverse ++ st.out ∧ st'.res = st.res + new.length ∧ new.Sublist E ∧
    (∀ x ∈ new, ltP k.untl x = false ∧ ltP x k.proto = false) ∧
    (st.res ≤ k.nti → st'.res ≤ k.nti) ∧
    (k.sh ≠ 0 → st.res = st.out.length → Desc st.out → Desc st'.out)

theorem Emits.skip {k : FillCtx} {E : List Inst} {st st' : FillSt} (h1 : st'.out = st.out) (h2 : st'.res = st.res) :
    Emits k E st st' := by
  refine ⟨[], by simp [h1], by simp [h2], List.nil_sublist _, by simp, by simp [h2], ?_⟩
  intro _ _ h; rw [h1]; exact h

theorem Emits.refl (k : FillCtx) (E : List Inst) (st : FillSt) : Emits k E st st := Emits.skip rfl rfl

theorem Emits.trans {k : FillCtx} {E1 E2 : List Inst} {a b c : FillSt} (h1 : Emits k E1 a b) (h2 : Emits k E2 b c) :
    Emits k (E1 ++ E2) a c := by
  obtain ⟨n1, o1, r1, s1, g1, b1, d1⟩ := h1
  obtain ⟨n2, o2, r2, s2, g2, b2, d2⟩ := h2
  refine ⟨n1 ++ n2, ?_, ?_, List.Sublist.append s1 s2, ?_, fun h => b2 (b1 h), ?_⟩
  · simp [o2, o1]
  · simp [r2, r1]; omega
  · intro x hx
    rcases List.mem_append.mp hx with h | h
    · exact g1 x h
    · exact g2 x h
  · intro hs hl hd
    have hb : b.res = b.out.length := by simp [o1, r1, hl]; omega
    exact d2 hs hb (d1 hs hl hd)

theorem Emits.mono {k : FillCtx} {E E' : List Inst} {a b : FillSt} (h : Emits k E a b) (hs : E.Sublist E') :
    Emits k E' a b := by
  obtain ⟨n1, o1, r1, s1, g1, b1, d1⟩ := h
  exact ⟨n1, o1, r1, s1.trans hs, g1, b1, d1⟩

theorem ltP_trans {a b c : Inst} (h1 : ltP a b = true) (h2 : ltP b c = true) : ltP a c = true := by
  simp only [ltP, decide_eq_true_eq] at *
  omega

/-- one round of the ENUM loop, as `emitDay` folds it -/
def emitStep (k : FillCtx) (ninst yy yd : Nat) (st : FillSt) (t : Nat × Nat × Nat) : FillSt :=
    if st.fin ∨ !(st.res < k.nti) then st else
    let x := mkInst yy (yd / 32 + 1) (yd % 32) t.1 t.2.1 t.2.2 k.proto.ms
    let st := if k.tposp then { st with inst := st.inst + 1 } else st
    if k.tposp ∧ !possSelP k.pos st.inst st.inst ninst then st
    else if ltP k.untl x then { st with fin := true }
    else if ltP x k.proto then st
    else
      let st := { st with hit := true }
      match st.out with
      | prev :: _ =>
        if st.res ≠ 0 ∧ k.sh ≠ 0 ∧ !ltP prev x then st
        else { st with out := x :: st.out, res := st.res + 1 }
      | [] => { st with out := x :: st.out, res := st.res + 1 }

theorem emitDay_eq (k : FillCtx) (ninst yy yd : Nat) (st : FillSt) :
    emitDay k ninst yy yd st = k.times.foldl (emitStep k ninst yy yd) st := rfl

theorem Emits.push {k : FillCtx} {x : Inst} {st st' : FillSt} (ho : st'.out = x :: st.out) (hr : st'.res = st.res + 1)
    (hlt : st.res < k.nti) (hu : ltP k.untl x = false) (hp : ltP x k.proto = false)
    (hs : k.sh ≠ 0 → st.res = st.out.length → ∀ prev rest, st.out = prev :: rest → ltP prev x = true) : Emits k [x] st st' := by
  refine ⟨[x], by simp [ho], by simp [hr], List.Sublist.refl _, by simp [hu, hp], by omega, ?_⟩
  intro h hl hd
  rw [ho]
  unfold Desc at *
  refine List.pairwise_cons.mpr ⟨?_, hd⟩
  intro b hb
  cases hso : st.out with
  | nil => rw [hso] at hb; cases hb
  | cons prev rest =>
    have hpx := hs h hl prev rest hso
    rw [hso] at hb hd
    rcases List.mem_cons.mp hb with rfl | hb'
    · exact hpx
    · exact ltP_trans ((List.pairwise_cons.mp hd).1 b hb') hpx

theorem emitStep_emits (k : FillCtx) (ninst yy yd : Nat) (st : FillSt) (t : Nat × Nat × Nat) :
    Emits k [mkX k yy yd t] st (emitStep k ninst yy yd st t) := by
  unfold emitStep
  by_cases h0 : st.fin ∨ !(st.res < k.nti)
  · rw [if_pos h0]; exact Emits.refl _ _ _
  rw [if_neg h0]
  have hlt : st.res < k.nti := by simp at h0; omega
  simp only []
  generalize hst1 : (if k.tposp = true then ({ st with inst := st.inst + 1 } : FillSt) else st) = st1
  have ho1 : st1.out = st.out := by rw [← hst1]; split <;> rfl
  have hr1 : st1.res = st.res := by rw [← hst1]; split <;> rfl
  unfold mkX
  generalize mkInst yy (yd / 32 + 1) (yd % 32) t.1 t.2.1 t.2.2 k.proto.ms = x
  by_cases h1 : k.tposp = true ∧ (!possSelP k.pos st1.inst st1.inst ninst) = true
  · rw [if_pos h1]; exact Emits.skip ho1 hr1
  rw [if_neg h1]
  by_cases h2 : ltP k.untl x = true
  · rw [if_pos h2]; exact Emits.skip ho1 hr1
  rw [if_neg h2]
  by_cases h3 : ltP x k.proto = true
  · rw [if_pos h3]; exact Emits.skip ho1 hr1
  rw [if_neg h3]
  simp only [Bool.not_eq_true] at h2 h3
  split
  · rename_i prev tail hso
    by_cases h4 : st1.res ≠ 0 ∧ k.sh ≠ 0 ∧ (!ltP prev x) = true
    · rw [if_pos h4]; exact Emits.skip ho1 hr1
    rw [if_neg h4]
    refine Emits.push (by simp [ho1]) (by simp [hr1]) hlt h2 h3 ?_
    intro hs hl p r hpr
    rw [ho1, hpr] at hso
    injection hso with hp _
    subst hp
    have : st1.res ≠ 0 := by rw [hr1, hl, hpr]; simp
    cases hq : ltP p x
    · exact absurd ⟨this, hs, by simp [hq]⟩ h4
    · rfl
  · rename_i hso
    refine Emits.push (by simp [ho1]) (by simp [hr1]) hlt h2 h3 ?_
    intro _ _ p r hpr
    rw [ho1, hpr] at hso
    cases hso
/-- everything the ENUM loop can form on day `yd` of year `yy` -/
def dayE (k : FillCtx) (yy yd : Nat) : List Inst := k.times.map (mkX k yy yd)
/-- … on the days of one candidate set -/
def setE (k : FillCtx) (yy : Nat) (cs : List Nat) : List Inst := cs.flatMap (dayE k yy)
/-- … of one period: previous year's set, same year's, next year's -/
def periodE (k : FillCtx) (y : Nat) (c3 : Cand3) : List Inst :=
  [((y + u32 - 1) % u32, c3.prev), (y, c3.same), ((y + 1) % u32, c3.next)].flatMap fun p => setE k p.1 p.2

theorem foldl_emitStep_emits (k : FillCtx) (ninst yy yd : Nat) (ts : List (Nat × Nat × Nat)) (st : FillSt) :
    Emits k (ts.map (mkX k yy yd)) st (ts.foldl (emitStep k ninst yy yd) st) := by
  induction ts generalizing st with
  | nil => exact Emits.refl _ _ _
  | cons t ts ih =>
    have h := Emits.trans (emitStep_emits k ninst yy yd st t) (ih (emitStep k ninst yy yd st t))
    rw [List.singleton_append] at h
    rw [List.map_cons, List.foldl_cons]
    exact h

theorem emitDay_emits (k : FillCtx) (ninst yy yd : Nat) (st : FillSt) :
    Emits k (dayE k yy yd) st (emitDay k ninst yy yd st) :=
  foldl_emitStep_emits k ninst yy yd k.times st

theorem emitSet_emits (k : FillCtx) (ninst yy : Nat) (cs : List Nat) (st : FillSt) :
    Emits k (setE k yy cs) st (cs.foldl (fun st yd =>
        if st.fin ∨ !(st.res < k.nti) then st
        else if k.tposp ∧ !possSelP k.pos (st.inst + 1) (st.inst + k.nT) ninst then
          { st with inst := st.inst + k.nT }
        else emitDay k ninst yy yd st) st) := by
  induction cs generalizing st with
  | nil => exact Emits.refl _ _ _
  | cons c cs ih =>
    simp only [List.foldl_cons, setE, List.flatMap_cons]
    refine Emits.trans ?_ (ih _)
    split
    · exact Emits.refl _ _ _
    split
    · exact Emits.skip rfl rfl
    · exact emitDay_emits _ _ _ _ _

theorem emitPeriod_emits (k : FillCtx) (ninst y : Nat) (c3 : Cand3) (st : FillSt) :
    Emits k (periodE k y c3) st (emitPeriod k ninst y c3 st) := by
  unfold emitPeriod periodE
  generalize [((y + u32 - 1) % u32, c3.prev), (y, c3.same), ((y + 1) % u32, c3.next)] = ps
  induction ps generalizing st with
  | nil => exact Emits.refl _ _ _
  | cons p ps ih =>
    rw [List.foldl_cons, List.flatMap_cons]
    exact Emits.trans (emitSet_emits _ _ _ _ _) (ih _)

/-- what one period can write: the candidates after BYSETPOS (when it numbers days) and SHIFT -/
def finE (k : FillCtx) (y : Nat) (cand : List Nat) : List Inst :=
  periodE k y (shift { same := if !k.tposp then clrPoss cand k.pos else cand } y k.sh)

theorem finishPeriod_emits (k : FillCtx) (y : Nat) (cand : List Nat) (st : FillSt) :
    Emits k (finE k y cand) st (finishPeriod k y cand st) := by
  unfold finishPeriod finE
  simp only []
  have h := emitPeriod_emits k (if k.tposp then cntCand cand * k.nT else 0) y
    (shift { same := if !k.tposp then clrPoss cand k.pos else cand } y k.sh)
    { (if k.tposp then { st with inst := 0 } else st) with hit := false }
  obtain ⟨n1, o1, r1, s1, g1, b1, d1⟩ := h
  have ho : ({ (if k.tposp then { st with inst := 0 } else st) with hit := false } : FillSt).out = st.out := by
    split <;> rfl
  have hr : ({ (if k.tposp then { st with inst := 0 } else st) with hit := false } : FillSt).res = st.res := by
    split <;> rfl
  rw [ho] at o1 d1; rw [hr] at r1 b1 d1
  exact ⟨n1, o1, r1, s1, g1, b1, d1⟩

/-- `res` counts the cache and stays within `nti` -/
structure Base (k : FillCtx) (st : FillSt) : Prop where
  len : st.res = st.out.length
  le : st.res ≤ k.nti

theorem Emits.base {k : FillCtx} {E : List Inst} {st st' : FillSt} (h : Emits k E st st') (hb : Base k st) :
    Base k st' := by
  obtain ⟨n1, o1, r1, _, _, b1, _⟩ := h
  exact ⟨by simp [o1, r1, hb.len]; omega, b1 hb.le⟩

/-- whatever holds for the instants of `E` that pass the UNTIL and the seed test holds for what is written -/
theorem Emits.inv {k : FillCtx} {E : List Inst} {st st' : FillSt} {P : Inst → Prop} (h : Emits k E st st')
    (hE : ∀ x ∈ E, ltP k.untl x = false → ltP x k.proto = false → P x) (hst : ∀ x ∈ st.out, P x) :
    ∀ x ∈ st'.out, P x := by
  obtain ⟨n1, o1, _, s1, g1, _, _⟩ := h
  intro x hx
  rw [o1] at hx
  rcases List.mem_append.mp hx with h | h
  · have hn : x ∈ n1 := List.mem_reverse.mp h
    exact hE x (s1.subset hn) (g1 x hn).1 (g1 x hn).2
  · exact hst x h

theorem Emits.desc {k : FillCtx} {E : List Inst} {st st' : FillSt} (h : Emits k E st st') (hs : k.sh ≠ 0)
    (hb : Base k st) (hd : Desc st.out) : Desc st'.out := by
  obtain ⟨_, _, _, _, _, _, d1⟩ := h
  exact d1 hs hb.len hd

theorem Base.init (k : FillCtx) : Base k {} := ⟨rfl, Nat.zero_le _⟩

/-- `capNti`: the cap is within `nti` and within COUNT -/
theorem capNti_le (r : Rule) (n nti : Nat) (hr : WfRule r) (h : capNti r n = some nti) :
    nti ≤ n ∧ (0 ≤ r.count → (nti : Int) ≤ r.count) := by
  unfold capNti at h
  simp only [] at h
  have hc := hr.count
  have hu : (u32 : Int) = 4294967296 := rfl
  rw [hu] at h
  split at h
  · split at h
    · cases h
    · injection h with h; subst h; omega
  · injection h with h; subst h; omega

end Echse.Lemmas.RrCandOk
