/-
  C01 for the daily filler, part 2: the day loop `dlyLoop` cannot miss an instant (`dlyLoop_complete`).
-/
import Echse.Lemmas.RrDlyRfc1
namespace Echse.Lemmas.RrRfc
open Echse.Rrule Echse.Instant Echse.Spec.RrOk Echse.Spec.Cal Echse.Spec.RuleExt Echse.Spec.Rfc
open Echse.Lemmas.RrOkBase

theorem rnd_mono (c : DlyCtx) {j k : Nat} (h : j ≤ k) : rnd c j ≤ rnd c k := by
  unfold rnd
  have := Nat.mul_le_mul_right c.r.inter h
  omega

theorem rnd_lt (c : DlyCtx) {j k : Nat} (h : j < k) : rnd c j + c.r.inter ≤ rnd c k := by
  rw [← rnd_succ]; exact rnd_mono c h

theorem dkey_year {y m d y' m' d' : Nat} (hv : VD y m d) (hv' : VD y' m' d') (h : dkey y m d ≤ dkey y' m' d') :
    y ≤ y' := by
  have := hv.d31; have := hv'.d31; have := hv.2.1; have := hv'.2.1
  unfold dkey at h; omega

/-- the day loop cannot miss an instant `x` of round `k` whose day passes the tests and whose time is enumerated and not
skipped: it ends with `x` written, or full with earlier instants only -/
theorem dlyLoop_complete (c : DlyCtx) (hr : WfRule c.r) (hp : WfInst c.proto) (he : EnumOk c.e) (x : Inst) (k : Nat)
    (hxc : Carry c.proto.y c.proto.m (rnd c k) x.y x.m x.d) (hxy : x.y ≤ 2099) (hxms : x.ms = c.proto.ms)
    (ix : Nat × Nat × Nat) (hxt : (ix, x.H, x.M, x.S) ∈ c.e.timesIx) (hxs : dlySkip c ix = false)
    (hday : dlySkipDay c x.m x.d (rndW c k) (getNdom x.y x.m) = false)
    (hge : ltP x c.proto = false) (hle : ltP c.r.untl x = false) :
    ∀ (fuel j y m d : Nat) (res l : List Inst), j ≤ k → Carry c.proto.y c.proto.m (rnd c j) y m d →
      Acc c.r c.proto c.nti res → Below res c.proto.y c.proto.m (rnd c j) →
      dlyLoop c fuel y m d (rndW c j) (getNdom y m) res = some l →
      x ∈ l ∨ (l.length = c.nti ∧ ∀ z ∈ l, ikey z < ikey x) := by
  have hpm := hp.month
  have hpd := hp.day
  have hi := hr.inter
  have hDk : 1 ≤ rnd c k := by unfold rnd; omega
  obtain ⟨hxv, -, -, -⟩ := hxc.props hpm.1 hpm.2 hDk
  have htg : TimeGood x.H x.M x.S := timesIx_good he hxt
  have hxeq : x = ⟨x.y, x.m, x.d, x.H, x.M, x.S, c.proto.ms⟩ := by
    cases x; simp only at hxms; subst hxms; rfl
  have hxin : InR x := by rw [hxeq]; exact inR_mk hxv hxy htg hp.ms
  have hxk : dkey x.y x.m x.d * 4194304 ≤ ikey x := by unfold ikey; omega
  have before : ∀ (res : List Inst) (D : Nat), D ≤ rnd c k → Below res c.proto.y c.proto.m D →
      ∀ z ∈ res, ikey z < ikey x := by
    intro res D hD hb z hz
    have := hb z hz (rnd c k) x.y x.m x.d hD hxc
    omega
  intro fuel
  induction fuel with
  | zero => intro j y m d res l _ _ _ _ h; cases h
  | succ f ih =>
    intro j y m d res l hjk hc hacc hb h
    have hD : 1 ≤ rnd c j := by unfold rnd; omega
    obtain ⟨hv, hpot, -, -⟩ := hc.props hpm.1 hpm.2 hD
    rw [dlyLoop_succ] at h
    by_cases c1 : res.length < c.nti
    · rw [if_neg (by omega)] at h
      -- the date of round `j` is not after `x`'s
      have hle' : dkey y m d ≤ dkey x.y x.m x.d := by
        by_cases e : j = k
        · subst e; obtain ⟨e1, e2, e3⟩ := carry_det hc hxc; rw [e1, e2, e3]; exact Nat.le_refl _
        · have := rnd_lt c (show j < k by omega)
          exact Nat.le_of_lt (hc.mono _ _ _ _ hxc (by omega) hpm.1 hpm.2 hD)
      have hyx : y ≤ x.y := dkey_year hv hxv hle'
      have hux := year_le_of_not_lt c.r.untl x hxin hle
      rw [if_neg (by unfold wlyDlyMaxYear; omega)] at h
      have hy99 : y ≤ 2099 := by omega
      by_cases e : j = k
      · -- the round of `x`
        subst e
        obtain ⟨e1, e2, e3⟩ := carry_det hc hxc
        subst e1 e2 e3
        have hcomp : x ∈ (dlyDay c x.y x.m x.d (rndW c j) (getNdom x.y x.m) res).1 ∨
            ((dlyDay c x.y x.m x.d (rndW c j) (getNdom x.y x.m) res).1.length = c.nti ∧
              ∀ z ∈ (dlyDay c x.y x.m x.d (rndW c j) (getNdom x.y x.m) res).1, ikey z < ikey x) := by
          unfold dlyDay
          rw [hday]
          simp only [Bool.false_eq_true, if_false]
          exact genEnum_complete c.r c.proto c.nti false (dlySkip c) hp hv hy99 ix x.H x.M x.S x hxeq rfl hxs hge hle
            c.e.timesIx res (fun t ht => timesIx_good he ht) (timesIx_asc he) hxt (before res _ (Nat.le_refl _) hb)
            hacc.len
        generalize dlyDay c x.y x.m x.d (rndW c j) (getNdom x.y x.m) res = out at h hcomp
        have fin_case : ∀ l', l' = out.1 → x ∈ l' ∨ (l'.length = c.nti ∧ ∀ z ∈ l', ikey z < ikey x) := by
          intro l' e; rw [e]; exact hcomp
        split at h
        · cases h; exact fin_case _ rfl
        · split at h
          · cases h
          · cases h; exact fin_case _ rfl
          · rcases hcomp with a | ⟨b1, b2⟩
            · exact Or.inl (dlyLoop_subset c _ _ _ _ _ _ _ _ h x a)
            · have := dlyLoop_full c _ _ _ _ _ _ _ _ (by omega) h
              rw [this]; exact Or.inr ⟨b1, b2⟩
      · -- an earlier round
        have hlt := rnd_lt c (show j < k by omega)
        have hdk : dkey y m d < dkey x.y x.m x.d := hc.mono _ _ _ _ hxc (by omega) hpm.1 hpm.2 hD
        have hday' : Acc c.r c.proto c.nti (dlyDay c y m d (rndW c j) (getNdom y m) res).1 ∧
            Below (dlyDay c y m d (rndW c j) (getNdom y m) res).1 c.proto.y c.proto.m (rnd c j + 1) := by
          unfold dlyDay
          split
          · exact ⟨hacc, hb.mono (by omega)⟩
          · exact day_step c.r c.proto c.nti false (dlySkip c) hp he hc hpm.1 hpm.2 hD hy99 hacc hb
        have hfin : (dlyDay c y m d (rndW c j) (getNdom y m) res).2 = true → False := by
          intro hf
          unfold dlyDay at hf
          split at hf
          · cases hf
          · obtain ⟨t, ht, hu⟩ := genEnum_fin c.r c.proto c.nti false (dlySkip c) hp hv hy99 c.e.timesIx res
              (fun t ht => timesIx_good he ht) hf
            have htg' := timesIx_good he ht
            have := ltP_mono_right c.r.untl _ x (inR_mk hv hy99 htg' hp.ms) hxin hxms.symm hu
              (Nat.le_of_lt (ikey_day_lt hdk (tkey_lt htg')))
            rw [hle] at this; cases this
        generalize dlyDay c y m d (rndW c j) (getNdom y m) res = out at h hday' hfin
        split at h
        · rename_i hf; exact absurd hf hfin
        · have hd31 := hv.d31
          have hm12 := hv.2.1
          have e1 : (d + c.r.inter % u32) % u32 = d + c.r.inter := by unfold u32; omega
          rw [e1] at h
          obtain ⟨y2, m2, d2, hcm, hc2⟩ := carryMon_spec (d + c.r.inter + 1) y m (d + c.r.inter) hv.1 hv.2.1
            (by omega) (by unfold pot at hpot ⊢; unfold rnd at hpot; omega)
          rw [hcm] at h
          simp only at h
          rw [rndW_succ c hr j] at h
          refine ih (j + 1) y2 m2 d2 _ l (by omega) ?_ hday'.1 (hday'.2.mono (by rw [rnd_succ]; omega)) h
          rw [rnd_succ]
          exact hc.comp _ _ _ _ hc2
    · rw [if_pos (by omega)] at h
      cases h
      exact Or.inr ⟨by have := hacc.len; omega, before res _ (rnd_mono c hjk) hb⟩

end Echse.Lemmas.RrRfc
