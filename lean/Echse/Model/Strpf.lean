/-
  Model of src/dt-strpf.c: dt_strp, dt_strf, dt_strf_ical, idiff_strp, idiff_strf
  (and the digit printers ui32tpstr / ui32tostr they use).

  Strings are `List Char`; reading past the end yields NUL, as the C code does on
  the NUL-terminated buffers its callers pass.  Output buffers are assumed large
  enough (the callers use 32..256 byte buffers; the longest output is 23 bytes for
  an instant and 2+10+1+1+2+1+2+1+2+1 for a duration).
  Hand transcription, tied to the C code by vlib/p_C18.py.
-/
import Echse.Model.Instant
namespace Echse.Strpf
open Echse.Instant

def chr (s : List Char) (i : Nat) : Char := s.getD i '\x00'

/-- `(uint8_t)(c ^ '0')` -/
def x0 (c : Char) : Nat := (c.toNat ^^^ 48) % 256

def digitChar (d : Nat) : Char := Char.ofNat (48 + d % 10)

/-- `ui32tpstr(buf, bsz, d, pad)` for pad ∈ {2,3,4}: the `pad` lowest decimal digits, zero padded. -/
def tpstr (d : Nat) : Nat → List Char
  | 0 => []
  | pad+1 => tpstr (d / 10) pad ++ [digitChar d]

/-- number of decimal digits as `ilog10_ceil` computes it (bit length, then the 1233/4096 estimate) -/
def bitLen : Nat → Nat → Nat
  | 0, _ => 0
  | fuel+1, n => if n = 0 then 0 else bitLen fuel (n / 2) + 1

def ilog10Ceil (n : Nat) : Nat :=
  let l2 := max 4 (bitLen 32 n)           -- ilog2_ceil: n |= 0b1111 first
  let l := l2 * 1233 / 4096
  l + (if n ≥ 10 ^ l then 1 else 0)

/-- `ui32tostr`: decimal digits without padding -/
def tostr (d : Nat) : List Char := tpstr d (ilog10Ceil d)

def dtStrf (i : Inst) : List Char :=
  tpstr i.y 4 ++ ['-'] ++ tpstr i.m 2 ++ ['-'] ++ tpstr i.d 2 ++
  (if i.isAllDay then [] else
    ['T'] ++ tpstr i.H 2 ++ [':'] ++ tpstr i.M 2 ++ [':'] ++ tpstr i.S 2 ++
    (if i.isAllSec then [] else ['.'] ++ tpstr i.ms 3))

def dtStrfIcal (i : Inst) : List Char :=
  tpstr i.y 4 ++ tpstr i.m 2 ++ tpstr i.d 2 ++
  (if i.isAllDay then [] else ['T'] ++ tpstr i.H 2 ++ tpstr i.M 2 ++ tpstr i.S 2 ++ ['Z'])

/-- the `res:` epilogue: over-read a final `Z` -/
def fin (s : List Char) (r : Inst) (sp : Nat) : Option (Inst × Nat) :=
  some (r, if chr s sp = 'Z' then sp + 1 else sp)

/-- millisecond loop `for (tmp = 100U; digit(*++sp) && tmp < 100000U;) tmp = tmp * 10 + digit` -/
def msLoop (s : List Char) : Nat → Nat → Nat → Nat × Nat
  | 0, sp, tmp => (sp, tmp)
  | fuel+1, sp, tmp =>
    let sp := sp + 1
    if x0 (chr s sp) < 10 ∧ tmp < 100000 then msLoop s fuel sp (tmp * 10 + x0 (chr s sp))
    else (sp, tmp)

/-- time part of `dt_strp`, entered with `sp` just behind the `T`/space -/
def dtStrpTime (s : List Char) (ep : Nat) (r : Inst) (sp : Nat) : Option (Inst × Nat) :=
  let c := chr s sp
  let sp := sp + 1
  let hour : Option (Nat × Nat) :=
    if c = '2' then (if x0 (chr s sp) < 4 then some (20 + x0 (chr s sp), sp + 1) else none)
    else if c = '1' then (if x0 (chr s sp) < 10 then some (10 + x0 (chr s sp), sp + 1) else none)
    else if c = '0' then (if x0 (chr s sp) < 10 then some (x0 (chr s sp), sp + 1) else none)
    else none
  match hour with
  | none => none
  | some (h, sp) =>
    let r := { r with H := h }
    let sp := if chr s sp = ':' then sp + 1 else sp
    if sp + 2 > ep then none else
    if x0 (chr s sp) < 6 ∧ x0 (chr s (sp + 1)) < 10 then
      let r := { r with M := 10 * x0 (chr s sp) + x0 (chr s (sp + 1)) }
      let sp := sp + 2
      let sp := if sp ≥ ep ∨ chr s sp = ':' then sp + 1 else sp
      if sp + 2 > ep then fin s r sp else
      let (sec, sp) : Nat × Nat :=
        if chr s sp = '6' ∧ chr s (sp + 1) = '0' then (60, sp + 2)
        else if x0 (chr s sp) < 6 then
          (if x0 (chr s (sp + 1)) < 10 then (10 * x0 (chr s sp) + x0 (chr s (sp + 1)), sp + 2) else (0, sp + 1))
        else (0, sp)
      let r := { r with S := sec % 64 }
      if sp ≥ ep ∨ chr s sp ≠ '.' then fin s { r with ms := allSec } sp
      else
        let (sp, tmp) := msLoop s 8 sp 100
        fin s { r with ms := tmp % 1000 } sp
    else none

/-- `dt_strp(str, &on, len)`: `none` is the nul instant; otherwise the instant and the offset
`on - str`. -/
def dtStrp (s : List Char) (len : Nat) : Option (Inst × Nat) :=
  let ep := if len = 0 then 23 else len
  if len ≠ 0 ∧ len < 8 then none else
  if ¬ (x0 (chr s 0) < 10 ∧ x0 (chr s 1) < 10 ∧ x0 (chr s 2) < 10 ∧ x0 (chr s 3) < 10) then none else
  let y := ((x0 (chr s 0) * 10 + x0 (chr s 1)) * 10 + x0 (chr s 2)) * 10 + x0 (chr s 3)
  let r : Inst := { y := y, m := 0, d := 0, H := 0, M := 0, S := 0, ms := 0 }
  let sp := 4
  let sp := if chr s sp = '-' then sp + 1 else sp
  let c := chr s sp
  let sp := sp + 1
  -- no month beyond the twelfth
  if ¬ ((c = '0' ∧ x0 (chr s sp) < 10) ∨ (c = '1' ∧ x0 (chr s sp) < 3)) then none else
  let r := { r with m := (if c = '1' then 10 else 0) + x0 (chr s sp) }
  let sp := sp + 1
  let sp := if chr s sp = '-' then sp + 1 else sp
  if sp ≥ ep then none else
  let c := chr s sp
  let sp := sp + 1
  if ¬ (c = '0' ∨ c = '1' ∨ c = '2' ∨ c = '3') then none else
  let tens := 10 * x0 c
  if sp ≥ ep then none else
  if ¬ (x0 (chr s sp) < 10) then none else
  -- nor a day beyond the thirty-first
  if tens + x0 (chr s sp) > 31 then none else
  let r := { r with d := tens + x0 (chr s sp) }
  let sp := sp + 1
  if sp ≥ ep ∨ (chr s sp ≠ 'T' ∧ chr s sp ≠ ' ') then fin s { r with H := allDay } sp
  else if sp + 4 ≥ ep then none
  else dtStrpTime s ep r (sp + 1)

/-! ### durations -/

/-- `for (; i < len; i++) { if ((tmp = str[i] ^ '0') >= 10U) break; val = val * 10 + tmp; }`
with `val` an `unsigned int` -/
def numLoop (s : List Char) (len : Nat) : Nat → Nat → Nat → Nat × Nat
  | 0, i, val => (i, val)
  | fuel+1, i, val =>
    if i < len ∧ (chr s i).toNat < 128 ∧ ((chr s i).toNat ^^^ 48) < 10 then
      numLoop s len fuel (i + 1) ((val * 10 + ((chr s i).toNat ^^^ 48)) % 2^32)
    else (i, val)

/-- the digits behind a decimal point: hundreds, tens and units of milliseconds, further digits are read over
(`for (i++; i < len; i++, mul /= 10U) { … frac += tmp * mul; }`) -/
def fracLoop (s : List Char) (len : Nat) : Nat → Nat → Nat → Nat → Nat × Nat
  | 0, i, _, frac => (i, frac)
  | fuel+1, i, mul, frac =>
    if i < len ∧ (chr s i).toNat < 128 ∧ ((chr s i).toNat ^^^ 48) < 10 then
      fracLoop s len fuel (i + 1) (mul / 10) (frac + ((chr s i).toNat ^^^ 48) * mul)
    else (i, frac)

/-- the `more_time:` part; `step` as in the C code; a number may carry a fraction, which must be seconds' -/
def idiffTime (s : List Char) (len : Nat) : Nat → Nat → Nat → Int → Nat × Int
  | 0, i, _, msd => (i, msd)
  | fuel+1, i, step, msd =>
    let (i, val) := numLoop s len (len + 1) i 0
    let fr : Option (Nat × Nat) := if i < len ∧ chr s i = '.' then some (fracLoop s len (len + 1) (i + 1) 100 0) else none
    match (match fr with
           | some (j, frac) => if j ≥ len ∨ chr s j ≠ 'S' then (none : Option (Nat × Int)) else some (j, msd + (frac : Int))
           | none => some (i, msd)), fr with
    | none, some (j, _) => (j, msd)            -- `goto out`
    | none, none => (i, msd)
    | some (i, msd), _ =>
    let c := if (chr s i).toNat < 128 then (chr s i).toNat ||| step else 0
    let i := i + 1
    if c = 72 then idiffTime s len fuel i (step ||| 0x1) (msd + (val : Int) * 3600000)        -- 'H'
    else if c = 77 then idiffTime s len fuel i (step ||| 0x11) (msd + (val : Int) * 60000)    -- 'M'
    else if c = 83 then idiffTime s len fuel i (step ||| 0x21) (msd + (val : Int) * 1000)     -- 'S'
    else (i, msd)

/-- the `more_date:` part; returns `(i, dd, msd)` at label `out` -/
def idiffDate (s : List Char) (len : Nat) : Nat → Nat → Bool → Bool → Int → Nat × Int × Int
  | 0, i, _, _, dd => (i, dd, 0)
  | fuel+1, i, seenW, seenD, dd =>
    let (i, val) := numLoop s len (len + 1) i 0
    let c := chr s i
    let i := i + 1
    if c = 'T' then
      let (i, msd) := idiffTime s len 5 i 0 0
      (i, dd, msd)
    else if c = 'W' then
      if seenW then (i, dd, 0) else idiffDate s len fuel i true seenD (dd + (val : Int) * 7)
    else if c = 'D' then
      if seenD then (i, dd, 0) else idiffDate s len fuel i seenW true (dd + (val : Int))
    else (i, dd, 0)

/-- `idiff_strp(str, &on, len)`: milliseconds and the offset `on - str` -/
def idiffStrp (s : List Char) (len : Nat) : Int × Nat :=
  if len < 3 then (0, 0) else
  let c := chr s 0
  let start : Option (Nat × Bool) :=
    if c = 'P' then some (1, false)
    else if c = '-' ∨ c = '+' then (if chr s 1 = 'P' then some (2, c = '-') else none)
    else none
  match start with
  | none => (0, if c = '-' ∨ c = '+' then 2 else 1)
  | some (i, neg) =>
    let (i, dd, msd) := idiffDate s len 4 i false false 0
    let v := dd * 86400000 + msd
    (if neg then -v else v, i)

/-- `idiff_strf` into a large enough buffer -/
def idiffStrf (d : Int) : List Char :=
  let sign := if d < 0 then ['-'] else []
  let n := d.natAbs
  if n = 0 then sign ++ ['P', '0', 'D'] else
  let days := n / 86400000 % 2^32
  let r := n % 86400000
  let p1 := if days ≠ 0 then tostr days ++ ['D'] else []
  let p2 :=
    if r ≠ 0 then
      let h := r / 3600000
      let r := r % 3600000
      let mi := r / 60000
      let r := r % 60000
      let sec := r / 1000
      let ms := r % 1000
      let dig := fun (k : Nat) => Char.ofNat (48 + k)
      ['T'] ++ (if h ≠ 0 then tostr h ++ ['H'] else []) ++ (if mi ≠ 0 then tostr mi ++ ['M'] else [])
        ++ (if sec ≠ 0 ∨ ms ≠ 0 then
              (if sec ≠ 0 then tostr sec else ['0']) ++
              (if ms ≠ 0 then ['.', dig (ms / 100), dig (ms / 10 % 10), dig (ms % 10)] else []) ++ ['S']
            else [])
    else []
  sign ++ ['P'] ++ p1 ++ p2

end Echse.Strpf
