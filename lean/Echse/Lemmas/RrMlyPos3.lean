/-
  BYSETPOS for the monthly filler, part 3: the wanted instants chosen by BYSETPOS recur within `MLY_TRIES` periods
  (`mly_periodic_pos`, under `MlyFirstPos`); what a month's period offers under BYSETPOS (`mEp`) is what BYSETPOS
  chooses of the month's list (`mem_mEp_iff`).
-/
import Echse.Lemmas.RrMlyPos2
import Echse.Lemmas.RrCandPos5
import Echse.Lemmas.RrCandPos4
namespace Echse.Lemmas.RrMlyRfc
open Echse.Rrule Echse.Instant Echse.Spec.RrOk Echse.Lemmas.RrCandOk Echse.Spec.Rfc Echse.Lemmas.RrRfc
open Echse.Lemmas.RrCandRfc Echse.Lemmas.RrMlyOk Echse.Spec.Cal Echse.Spec.RuleExt Echse.Lemmas.RrOkBase

/-- the rule has an occurrence (chosen by BYSETPOS, from the seed on, up to UNTIL) in one of the first 336 periods -/
def MlyFirstPos (r : Rule) (p : Inst) : Prop :=
  ∃ z, MonthlyInst r p z ∧ SetposOk r p z ∧ ltP z p = false ∧ ltP r.untl z = false ∧
    pIdx z < pIdx p + 336 * r.inter

theorem mly_periodic_pos (r : Rule) (p : Inst) (hr : WfRule r) (hp : WfInst p) (hy : 1901 ≤ p.y) (hf : r.freq = 2)
    (hfp : MlyFirstPos r p)
    (x : Inst) (j : Nat) (hx : mTarget r p x) (hQ : SetposOk r p x) (hj : mlyTries - 1 ≤ j) (hjx : j ≤ mGi r p x) :
    ∃ x', (mTarget r p x' ∧ SetposOk r p x') ∧ mGi r p x' < j ∧ j ≤ mGi r p x' + (mlyTries - 1) := by
  have hi := hr.inter
  have hT : mlyTries - 1 = 336 := rfl
  rw [hT] at hj ⊢
  obtain ⟨k, hk, hgk, hm1, hm2, _⟩ := mTarget_facts r p x (by omega) hx
  rw [hgk] at hjx
  have hkq : k = (k - 336 * ((k - j) / 336 + 1)) + 336 * ((k - j) / 336 + 1) := by omega
  obtain ⟨s1, s2, s3, s4⟩ := mly_back r p x hp hy hx.1 hx.2.2.2 k (k - 336 * ((k - j) / 336 + 1))
    ((k - j) / 336 + 1) hk hkq
  have sQ := mly_setpos_back r p x hp hy hf hx.1 hx.2.2.2 k (k - 336 * ((k - j) / 336 + 1))
    ((k - j) / 336 + 1) hk hkq hQ
  have hNpos : 0 < ((k - j) / 336 + 1) * r.inter := Nat.mul_pos (by omega) (by omega)
  generalize hs : k - 336 * ((k - j) / 336 + 1) = s at *
  generalize ((k - j) / 336 + 1) * r.inter = N at *
  generalize hx' : back28 x N = x' at *
  have fy : x'.y = x.y - 28 * N := by rw [← hx']; rfl
  have hgs : mGi r p x' = s := mGi_of r p x' s (by omega) s2
  have hpm := hp.month
  have hx2 := hx.2.2.2
  by_cases c : s = 0
  · obtain ⟨z, z1, zQ, z2, z3, z4⟩ := hfp
    obtain ⟨za, ⟨kz, hkz⟩, _, _, _⟩ := (mlyInst_iff r p z).1 z1
    have hkz336 : kz < 336 := by
      rw [hkz] at z4
      exact (grid_lt (pIdx p) kz 336 r.inter (by omega)).1 (by omega)
    have hkk : kz < k := by omega
    have hlt := (grid_lt (pIdx p) kz k r.inter (by omega)).2 hkk
    rw [← hkz, ← hk] at hlt
    have hzy : z.y ≤ 2099 := by
      have := za.1; have := za.2.1
      unfold pIdx at hlt; omega
    exact ⟨z, ⟨⟨z1, z2, z3, hzy⟩, zQ⟩, by rw [mGi_of r p z kz (by omega) hkz]; omega,
      by rw [mGi_of r p z kz (by omega) hkz]; omega⟩
  · refine ⟨x', ⟨⟨s1, ?_, ?_, by omega⟩, sQ⟩, by rw [hgs]; omega, by rw [hgs]; omega⟩
    · have hpos : 0 < s * r.inter := Nat.mul_pos (by omega) (by omega)
      obtain ⟨b1, _⟩ := (mlyInst_iff r p x').1 s1
      exact ltP_asymm (ltP_of_idx p x' ⟨hpm.1, hpm.2, by omega⟩ ⟨b1.1, b1.2.1, by omega⟩ (by omega))
    · have hlt : ltP x' x = true := ltP_of_year_lt x' x (by omega)
      cases hu : ltP r.untl x' with
      | false => rfl
      | true => have := ltP_trans hu hlt; rw [hx.2.2.1] at this; cases this

/-- what the period of month `y-m` offers under BYSETPOS -/
def mEp (r : Rule) (p : Inst) (nti : Nat) (q : Nat × Int) : List Inst :=
  posE (mkFillCtx r p nti) q.1 (mlyCand (mlyCtxOf r p nti) q.1 (toU32 q.2))

theorem mlyCand_allVC (r : Rule) (p : Inst) (nti : Nat) (hr : WfRule r) (hp : WfInst p) (q : Nat × Int)
    (hm : 1 ≤ q.2 ∧ q.2 ≤ 12) : AllVC q.1 (mlyCand (mlyCtxOf r p nti) q.1 (toU32 q.2)) := by
  have hmu : toU32 q.2 = q.2.toNat := by unfold toU32 u32; omega
  rw [hmu]
  apply mlyCand_ok _ q.1 q.2.toNat (by omega) (mlyCtxOf_ds r p nti hr hp)
  intro t ht; have := hr.dow t ht; omega

/-- … the entries of the month's list that BYSETPOS chooses -/
theorem mem_mEp_iff (r : Rule) (p : Inst) (nti : Nat) (hr : WfRule r) (hp : WfInst p)
    (hsup : MlySup r) (hy : 1901 ≤ p.y) (hf : r.freq = 2) (hsh : r.shift = 0) (hpos : r.pos ≠ [])
    (q : Nat × Int) (hq : mReach r p q) (hq2 : q.1 ≤ 2099) (z : Inst) :
    z ∈ mEp r p nti q ↔ z ∈ mE r p nti q ∧ SetposOk r p z := by
  unfold mEp
  rw [mem_posE_mk r p nti hr hsh hpos q.1 _ (mlyCand_allVC r p nti hr hp q ⟨hq.1, hq.2.1⟩) z]
  show (∃ i, (mE r p nti q)[i]? = some z ∧ PosSel r.pos i (mE r p nti q).length) ↔ _
  constructor
  · rintro ⟨i, hi, hs'⟩
    exact ⟨List.mem_of_getElem? hi, (mE_setpos r p nti hr hp hsup hy hf hpos q hq hq2 z i hi).2 hs'⟩
  · rintro ⟨hz, hs'⟩
    obtain ⟨i, hi⟩ := List.getElem?_of_mem hz
    exact ⟨i, hi, (mE_setpos r p nti hr hp hsup hy hf hpos q hq hq2 z i hi).1 hs'⟩

end Echse.Lemmas.RrMlyRfc
