/-
  BYSETPOS for the YEARLY / MONTHLY fillers, part 4: the hypotheses of the abstract loop go over to sublists of what
  the periods offer and to wanted instants with a further property (`loopHyp_sub`, `targetHyp_sub`).
-/
import Echse.Lemmas.RrCandRfc3
namespace Echse.Lemmas.RrCandRfc
open Echse.Rrule Echse.Instant Echse.Spec.RrOk Echse.Lemmas.RrCandOk

section
variable {P : Type} (k : FillCtx) (T : Nat) (yr : P → Nat) (E E' : P → List Inst) (next : P → P)

/-- the loop hypotheses go over to sublists of what the periods offer -/
theorem loopHyp_sub {Reach : P → Prop} {g mu : P → Nat} {B : Nat} (H : LoopHyp yr E next Reach g mu B)
    (hsub : ∀ p, Reach p → yr p ≤ 2099 → (E' p).Pairwise (fun a b => ltP a b = true) ∧ ∀ z ∈ E' p, z ∈ E p) :
    LoopHyp yr E' next Reach g mu B := by
  refine ⟨H.step, H.beyond, fun p hp hy => (hsub p hp hy).1, ?_⟩
  intro q p hq hp hyq hyp hg a ha b hb
  exact H.cross q p hq hp hyq hyp hg a ((hsub q hq hyq).2 a ha) b ((hsub p hp hyp).2 b hb)

/-- … and the target hypotheses to the wanted instants with a further property `Q`, if the sublists still offer them
and they still recur often enough -/
theorem targetHyp_sub {Reach : P → Prop} {g : P → Nat} {Target : Inst → Prop} {gi : Inst → Nat}
    (G : TargetHyp k T yr E next Reach g Target gi) (Q : Inst → Prop)
    (hsub : ∀ p, Reach p → yr p ≤ 2099 → ∀ z ∈ E' p, z ∈ E p)
    (hhere : ∀ x p, Target x → Q x → Reach p → g p = gi x → x ∈ E' p)
    (hper : ∀ x j, Target x → Q x → T - 1 ≤ j → j ≤ gi x →
      ∃ x', (Target x' ∧ Q x') ∧ gi x' < j ∧ j ≤ gi x' + (T - 1)) :
    TargetHyp k T yr E' next Reach g (fun x => Target x ∧ Q x) gi := by
  refine ⟨?_, ?_, ?_, ?_, ?_⟩
  · intro x p hx hp hlt; exact G.skip x p hx.1 hp hlt
  · intro x p hx hp he; exact ⟨(G.here x p hx.1 hp he).1, hhere x p hx.1 hx.2 hp he⟩
  · intro x hx; exact G.tests x hx.1
  · intro x p hx hp hy hlt a ha; exact G.later x p hx.1 hp hy hlt a (hsub p hp hy a ha)
  · intro x j hx hj hjx; exact hper x j hx.1 hx.2 hj hjx

end
end Echse.Lemmas.RrCandRfc
