#!/usr/bin/env python3
"""writes MANIFEST.json from the table below (so it is always schema-valid)."""
import json, os
V = os.path.dirname(os.path.dirname(os.path.abspath(__file__)))
props = [json.loads(l) for l in open(os.path.join(V, "properties.jsonl"))]

CLAIMED = {
 "C19": dict(
   text="Lean theorems (Echse.Props.C19) state, for all insertion sequences over the documented ranges of "
        "all six containers, that iteration terminates and yields exactly the inserted values once each and "
        "that membership agrees with 'was inserted'; proved by induction over the insertion list with a "
        "representation invariant. The hand-written model is tied to bitint.h/bitint.c by running both on "
        "the same insertion sequences (exhaustive for short sequences) and the set semantics is also checked "
        "on the implementation's answers directly.",
   note="Trusted: Lean kernel; axioms propext/Classical.choice/Quot.sound at most; the harness hx_bitint.c; "
        "flattening of the 12/14-word arrays into one natural number in the model (DESIGN §4). "
        "Values outside the documented ranges are not modelled.",
   technique="Lean 4 proof by induction over insertion sequences + differential correspondence check",
   design="§5 C19"),
 "C08": dict(
   text="Lean theorems (Echse.Props.C08) about the transcribed model of echs_instant_fixup/diff/add, the ordering "
        "predicates, the two library epoch conversions and echsd's instant_to_tstamp: agreement with the proleptic "
        "Gregorian day count for all instants 1901-2099 and all durations (induction over the month loops, "
        "arithmetic on the generated tables). The model is tied to the C code by a differential run on "
        "in-domain instants (month ends, leap days, all kinds) and the calendar oracle (Python datetime) judges "
        "the implementation's answers directly. Since the repairs D159, D193 and D194 the daemon's wake-up time is proved for every year, the library's "
        "epoch conversions from 1901 (negative unix times) and the difference of two instants for any two kinds (date, second, millisecond); "
        "KNOWN FINDING D201: on all-day instants library (end of the day) and daemon (its beginning) differ by design.",
   note="Trusted: Lean kernel, the calendar spec Echse/Spec/Cal.lean, tools/gen.py for the tables, harness hx_cal.c "
        "(instant_to_tstamp is cut textually out of echsd.c). Instants with scale/zone bits and years < 1601 are outside the model; "
        "epoch conversions are claimed from 1970 on.",
   technique="Lean 4 proof (induction + linear arithmetic over generated tables) + differential correspondence check",
   design="§5 C08"),
 "C18": dict(
   text="Lean theorems (Echse.Props.C18) about the transcribed model of dt_strp/dt_strf/dt_strf_ical/idiff_strp/"
        "idiff_strf: print-then-parse is the identity for every normal instant (ISO and iCalendar forms, all "
        "separator spellings) and for every duration of any length and any number of milliseconds (written as a decimal fraction of the seconds since the repair D173); equivalent W/D/H/M/S spellings and "
        "a leading sign read as the value they denote. Model tied to dt-strpf.c by a two-pass differential run "
        "(print, then parse what the implementation printed) including malformed texts; the identity is also "
        "checked on the implementation's answers directly.",
   note="Trusted: Lean kernel; harness hx_cal.c; strings are byte lists, output buffers assumed large enough "
        "(callers use >= 32 bytes). range_strp/range_strf are not modelled.",
   technique="Lean 4 proof (symbolic evaluation of the parser on printed digit strings, induction over digit lists) + differential correspondence check",
   design="§5 C18"),
 "C15": dict(
   text="Lean theorems (Echse.Props.C15) over the transcribed model of scale.c with the data tables regenerated "
        "from the source on every run: for each of the ten Hijri scales and every day of 1901-2099, round trip in "
        "both directions, consecutive days map to consecutive dates, reported month length = distance of first "
        "days, weekday commutes, dates outside a table's coverage are rejected (kernel enumeration of the finite "
        "domain, lifted by lemmas; a sorted-table lemma for the two table scales). Model tied to the C code by a "
        "differential run through the public API (all days x 10 scales in thorough), and the bijection statements "
        "are evaluated on the implementation's answers directly.",
   note="Trusted: Lean kernel, tools/gen.py (tables), harness hx_cal.c, Python datetime for the Gregorian side of "
        "the oracle. Coverage of a table scale is defined as [first entry, last entry) of its table.",
   technique="Lean 4 proof by complete kernel enumeration (decide +kernel over a splitting combinator) and a sorted-table induction + differential correspondence check",
   design="§5 C15"),
 "C20": dict(
   text="Lean theorems (Echse.Props.C20) about the transcribed model of WikiSort (insertion sort, binary insertion sort, "
        "the fixed-point range iterator, the cache merge and the level loop): for every array shorter than 1024 "
        "elements - every length on which only these paths run - the result is the stable sort of the input "
        "(permutation, ordered by key, equal keys in input order), for any comparison induced by a key. For lengths "
        ">= 1024 (in-place block merge) nothing is proved; there the check relies on the differential run against the "
        "stable-sort specification only. Implementation and model/spec are compared on lengths 0..4096 in many "
        "orders with index-tagged events; arrays of 262145 to 700001 events generated inside the harness (where blocks outgrow the "
        "512-element cache and the internal buffers of the in-place merge are used; 97 % of wikisort.c's lines are reached) are "
        "judged against a stable reference sort.",
   note="Trusted: Lean kernel, harness hx_cal.c. PARTIAL: the in-place branch of wikisort.c (n >= 1024) is not modelled; "
        "the comparison's being a key order is C08's ltP theorem.",
   technique="Lean 4 proof (refinement of each sort phase to the unique stable sort; iterator invariant) + differential correspondence check",
   design="§5 C20"),
 "C03": dict(
   text="Lean theorems (Echse.Props.C03) about the transcribed model of next_evmux over abstract sub-streams that refine "
        "sorted lists, for every sequence of peek/pop calls: non-decreasing order, peek returns what the next pop returns, "
        "no occurrence is lost or invented, end-of-stream iff all sources ended; identical (uid,start) collapse to one "
        "under the guard that a source holds one uid per instant (the guard is necessary: recorded finding D42 with a "
        "kernel-evaluated witness). Real mux objects (nested, ties, duplicates) are driven by random scripts in the "
        "harness and compared with the model; the order/multiset/peek conditions are checked on the implementation.",
   note="Trusted: Lean kernel, harness hx_strm.c (#includes evical.c for the array stream). Sources are assumed sorted (C16). "
        "KNOWN FINDING D42 (duplicate hidden behind another uid at the same instant). Scripts continue a stream as its clone at random points (clone_echs_evstrm; found D177).",
   technique="Lean 4 proof (invariant by induction over peek/pop scripts, refinement to a reference merge) + differential correspondence check",
   design="§5 C03"),
 "C02": dict(
   text="Lean theorems (Echse.Props.C02) about the transcribed model of next_evfilt/make_evfilt: for sorted occurrence and "
        "exception lists of any length and any duration the filter delivers exactly the occurrences whose start equals no "
        "exception start, under any peek/pop script (refinement to List.filter; loop bound proved). Combined with C03 this "
        "is (RRULE u RDATE) minus (EXRULE u EXDATE). The RDATE / EXDATE lists as one stream (__make_evrdat, transcribed as "
        "Echse.Model.Evrdat over the WikiSort model): for lists shorter than 1024 the stream holds exactly the listed instants (a "
        "DATE taking DTSTART's time of day), strictly ascending, each once (rdate_members, rdate_ascending, rdate_nodup). Real filter "
        "objects over muxes are compared with the model and with the set expression in the harness, including zero durations, near "
        "misses inside a duration and runs of exceptions; __make_evrdat is compared call by call; calendars with 0-3 RRULEs, RDATE "
        "lines (repeats, several lines), EXRULEs and EXDATE lines go through the whole parser and their first 60 occurrences are "
        "compared with the set expression over the RFC reference expansions of the single rules.",
   note="Trusted: Lean kernel, harness hx_strm.c, vlib/rfc5545.py for the single rules' instances (C01). The cloning / ownership of "
        "the constituent streams in make_task is exercised, not modelled. evfilt.c was repaired (start equality instead of strict "
        "range overlap), __make_evrdat too (repeats dropped).",
   technique="Lean 4 proof (refinement of the two-pointer walk to a list filter) + differential correspondence check",
   design="§5 C02"),
 "C07": dict(
   text="Lean theorems (Echse.Props.C07) about the transcribed model of the zone table search, the range cache, the "
        "local->UTC conversion (first guess, the stretch found and its two neighbours) and echs_instant_utc/loc, for EVERY "
        "strictly increasing transition table (not per zone): the search terminates and finds the enclosing range, the "
        "cache is transparent and the answer independent of it, UTC->local->UTC is the identity, local->UTC returns the "
        "EARLIEST instant that shows the wall clock (utc_of_local_first; with a decidable spacing condition on the table, "
        "the earliest of all) and for a wall clock inside a gap - proved to have no preimage - the value read with the "
        "offset before the gap (utc_of_local_gap), as RFC 5545 3.3.5 asks; Berlin/New York witnesses by decide. The model "
        "is fed the v1 table of each installed zone (independent Python reader) and compared with the C code on conversions "
        "at both sides of transitions and inside every gap and overlap in evolving cache states; glibc with TZ=<zone> and an "
        "RFC oracle over the table's preimages judge the implementation's answers directly.",
   note="Trusted: Lean kernel; harness hx_cal.c; TZif parsing (__conv_zif) and the tzob interning/MFU cache are not "
        "modelled (exercised only); glibc as oracle; occurrence-level correction in refill() belongs to C01/C16's harness. "
        "Instants of 2038..2099 are converted too and judged in zones whose last recorded offset still holds (offs_beyond_table: behind the table the offset stays, no wrap - repair D207). Known: D147 (64th zone), D190 (zones whose rules go on behind 2037).",
   technique="Lean 4 proof (induction on the bisection, case analysis over the three candidate stretches) + differential correspondence check against all installed zones",
   design="§5 C07"),
 "C04": dict(
   text="Lean theorems (Echse.Props.C04) about the transcribed model of echsd's scheduling core (resched/unwind_till, one event-loop "
        "iteration under the libev contract of Appendix B, task_cb, chld_cb, unsched), by induction over histories of load / tick "
        "/ child-exit: never early, one execution per task and tick in which occurrences came due (late ones collapse), nothing "
        "for the past, spawn times increasing, retirement after the last occurrence. echsd.c itself is compiled unmodified "
        "against a virtual-time <ev.h> and run on random histories; its spawn log, replies and table are compared with the "
        "model and with a Python reference of the specified behaviour. Histories include daily tasks that began before 2001 (repair D159), iterations whose callbacks take seconds of wall clock (the stand-in then does what libev 4.33 does after ev_loop_fork: repair D157) and, one in twelve, steps of the wall clock (KNOWN FINDING D158: occurrences in between get no run; model: jump).",
   note="Trusted: Lean kernel; the libev stand-in harness/fakeev/ev.h (written from libev 4.33 periodics_reify); harness hx_echsd.c; "
        "recurrence streams abstracted to their occurrence lists (C01/C05); real clock jitter and real libev are not exercised.",
   technique="Lean 4 proof (invariants by induction over daemon histories) + differential correspondence check on echsd.c under a virtual-time event loop",
   design="§5 C04"),
 "C11": dict(
   text="Lean theorems (Echse.Props.C11) about the transcribed model of _inject_task1/_eject_task1/cmd_ical: the table refines the "
        "abstract map UID -> (owner, task), requests of one user never change, list or re-own another user's entries, and every "
        "instruction gets exactly one reply that is 2.0 iff the map changed as requested - for all finite request histories "
        "(root daemon and per-user daemon), for ANY socket peer, known to the password database or not (a peer that cannot be "
        "resolved acts for nobody: unknown_peer_cannot_inject). The GET /queue view (httpQueue: gate, forced checkpoint of "
        "unsaved changes, the user's file): in every reachable state (reachable_fresh, an invariant tying the spool to the "
        "table for users without unsaved changes) a user is shown only its own tasks (queue_isolation) and every task of "
        "its own still to run (queue_complete). Real echsd.c is driven with requests from known users of two uid ranges, "
        "root and an unknown peer over colliding UIDs, with GET /sched and GET /queue requests, busy spells that overflow "
        "the daemon's list of marked users, and compared with the model and the abstract-map reference. The pool of 64 connection "
        "slots (make_conn / free_conn, where each connection keeps its credentials): for every history of connects and hang-ups no "
        "two live connections share a slot and a client is turned away only when 64 are live (slots_distinct, "
        "turned_away_only_when_full); the real functions are driven with up to 100 simultaneous clients. Requests carry UIDs of 256 to 700 characters, tasks without UID line (listed and cancelled by the name made from the command's hash) and tasks with neither UID nor SUMMARY (empty_uid_refused, reachable_uid_ne; repairs D153-D156); root's own views (queue_root*, http_root*; repair D154). KNOWN FINDINGS D29 (two UIDs with equal 32-bit hashes are one entry) and D28 (the direct-mapped table grows to 1 << (ctz(a^b)+1) slots): two fixed probes.",
   note="Trusted: as C04. NOT modelled: the 32-bit hash key of a UID and the open-addressing table (two UIDs with equal hash are one "
        "task, low-bit collisions grow the table) - findings D28/D29 are outside the model and shown by probes on the real code; getpwuid is replaced.",
   technique="Lean 4 proof (refinement to an abstract map, induction over request histories) + differential correspondence check",
   design="§5 C11"),
 "C12": dict(
   text="Lean theorems (Echse.Props.C12) about the transcribed model of task_cb/run_task/chld_cb: in every reachable state the "
        "number of running executions of a task equals its counter and never exceeds N; a due occurrence is a --no-run spawn "
        "iff N are running; after an exit the next one runs; the decision for a task depends on that task's record only. "
        "echsd.c is driven with overlapping runs, late exits and replacements and compared with model and reference.",
   note="Trusted: as C04. The executor's side of --no-run (echsx reporting NOT RUN) belongs to C13.",
   technique="Lean 4 proof (state invariant by induction over timer/child-exit interleavings) + differential correspondence check",
   design="§5 C12"),
 "C06": dict(
   text="Lean theorems (Echse.Props.C06) about the transcribed checkpoint model (dirty-user list, chkpnt1/chkpnta order, the "
        "dot-file-then-rename protocol as a cut point per user, single failing open/close/rename, reload through "
        "_inject_task1): for every state, user and cut point the live file is the previous or the new complete file, "
        "never a mixture; a restarted daemon arms exactly the tasks of the files under their owners; a clean shutdown "
        "checkpoints every acknowledged change. echsd.c is run with its checkpoint's file-system calls interposed: the "
        "process dies at a named call or one call fails, a new daemon starts on the spool, and files and table are compared "
        "with the model and judged old-or-new directly.",
   note="Trusted: as C04, plus rename(2) atomicity and 'a died process keeps the effects of completed calls' (no power-loss "
        "model; the code never fsyncs). Queue files are compared by the UIDs they hold (byte fidelity is C05). Failing write(2) "
        "is the recorded finding D23 and is not injected. The nedtrie dirty index is not modelled.",
   technique="Lean 4 proof (case analysis over cut points of the write-then-rename trace, induction over the dirty list) + fault-injecting differential check",
   design="§5 C06"),
 "C13": dict(
   text="Lean theorems (Echse.Props.C13) about the transcribed prep_task decision chain and the routing it implies (direct "
        "descriptors, or pipes pumped by data_cb into the mail file and tee'd to the output files, mail body = contents of "
        "mfn): for all 20 documented OFILE/EFILE/same-file/MAIL-OUT/MAIL-ERR rows (all 2^5 inputs) and ALL chunk lists, OFILE "
        "receives exactly the stdout bytes in order iff set, EFILE likewise, a shared file both in order, the mail body the "
        "requested stream(s), nothing duplicated, the temporary file is marked for removal iff it is the mail file. The real "
        "echsx (echsx.c compiled unmodified, mailer redirected to a recorder) is run on every row with jobs writing up to "
        "300 000 patterned bytes, exit codes and fatal signals; files, mail, journal, cwd, umask, stdin and left-over "
        "temporary files are judged directly and the per-sink totals compared with the model.",
   note="Trusted: Lean kernel; splice/sendfile/posix_spawn/fcntl locking as on this kernel; harness hx_echsx.c + jobgen.py; "
        "setuid/setgid only exercised for the invoking user; mail headers and the SMTP side are not checked; cross-stream "
        "interleaving in a shared sink is not compared.",
   technique="Lean 4 proof (decision table by case analysis x induction over chunk lists) + differential run of the real executor",
   design="§5 C13"),
 "C14": dict(
   text="Lean theorems (Echse.Props.C14) over the duration printer/parser model (C18) and the daemon model: the limit echsd "
        "writes into the execution request (DURATION:PT<n>S with n = ceil(limit / 1 s)) parses back to n*1000 ms and arms "
        "alarm(n), for every limit; overdue DUE requests are refused. echsd.c (virtual-time loop) is run on tasks whose limit "
        "is spelled as DURATION in every ISO form or as DTEND and the VTODO it hands to the executor is compared with model "
        "and reference; the real echsx is run with limits of 1-3 s and a DUE time against a sleeping job and must kill it "
        "with SIGXCPU after about the limit.",
   note="Trusted: as C04 and C13; signal delivery and scheduling jitter of about a second; echsx's ms->s conversion is modelled "
        "from the source expression, not translated mechanically.",
   technique="Lean 4 proof (unit pipeline as composed functions) + differential daemon histories + timed runs of the real executor",
   design="§5 C14"),
 "C10": dict(
   text="Lean theorems (Echse.Props.C10) about the transcribed byte/line/component layers of the push parser (esccpy, _ical_pull "
        "with the stash and its mark, the component state machine of _ical_proc, push/pull/last_pull and the callers' "
        "protocol): every pull terminates for ALL byte strings and chunkings; for inputs "
        "without backslashes, lines of any length, the sequence of unfolded lines acted upon and of instructions is "
        "the same for EVERY partition into chunks, and the lines acted upon are exactly the input's non-empty logical lines "
        "(no_line_passed_over: the stash grows since the repair of D191). The real parser (ECHSE_VERIF hook reporting the lines it acts upon) is "
        "fed generated and damaged calendars under byte-wise, every-split-position and random chunkings with ASan; all "
        "chunkings must yield the same instruction dump as the whole input, and lines/verbs are compared with the model.",
   note="Trusted: Lean kernel; harness hx_strm.c; keyword tables regenerated from the .erf files; the meaning of property lines "
        "(snarf_fld, make_task) is compared through the dump only (C05). Chunkings include the empty push by which echsd ends the input (theorems chunk_independent_eof*, repair D148); the command line tool is run on generated files around its 64 KiB reads (repair D149). Chunk independence is proved and checked for every input without backslash, lines of up to 9 KiB generated (the stash grows with the line, repairs D18d and D191; a failed allocation - the remaining `skip` branch - is not modelled). KNOWN FINDING D17 (backslash escapes).",
   technique="Lean 4 proof (invariant over the stash + induction over the partition) + differential chunking check with a source hook",
   design="§5 C10"),
 "C17": dict(
   text="Lean theorems (Echse.Props.C17) about the transcribed easter_get_yday, yd_to_md, fill_yly_eastr, shift() and snarf_shift(): "
        "Easter is the anonymous Gregorian computus for every year 1901-2099 (kernel enumeration) and a Sunday; BYEASTER=N selects the date N "
        "days from Easter whenever it lies in the same year; SHIFT=N is the date N calendar days away for all dates, years and N in "
        "-366..366 (symbolic in the year: induction over the month/year carry loop); SHIFT=NB / NB+ / NB- / -0B equals a business-day "
        "specification written from the README for all dates and 0..366 business days (closed form of the u5/u7 arithmetic against an "
        "iterative spec); both parts compose; a set is shifted date by date; the SHIFT text forms parse to the packed value. "
        "The real functions (evrrul.c #included into harness hx_rrul) are compared with the model op by op, and whole rules "
        "(RFC 5545 reference expansion + date arithmetic, then DTSTART/UNTIL/COUNT) judge the real parser and rule stream.",
   note="Trusted: Lean kernel; Spec/RuleExt.lean (computus, business-day stepping) and Spec/Cal.lean; harnesses hx_rrul.c, hx_strm.c; "
        "vlib/rfc5545.py for the unshifted sets. Two theorems hold as `_partial` only because echse's leap rule y%4 makes 2100 a leap "
        "year (results beyond 2100-02-28 excluded; counterexamples proved). KNOWN FINDINGS D61 (BYEASTER offset leaving the year is dropped), "
        "D64 (shift beyond the neighbouring year), D66 (SHIFT with INTERVAL>1 loses the phase at a refill).",
   technique="Lean 4 proof (kernel enumeration over 199 years; induction over the carry loop; closed-form arithmetic vs iterative spec) + function-level differential correspondence + reference-expander oracle",
   design="§5 C17, §9"),
 "C05": dict(
   text="Lean theorems (Echse.Props.C05) about the transcribed rule serialiser and parser (send_rrul, snarf_rrule with strtol/strtoul, "
        "the keyword table, BYDAY tokens, snarf_scale, snarf_shift, dt_strp/dt_strf_ical for UNTIL): for EVERY rule the parser can produce "
        "(PrintableRule: all BYxxx lists of any length in iterator order, ordinals, negative values, all ten scales, SHIFT, UNTIL, COUNT) "
        "writing it and reading it back yields the same rule, with the cached occurrences added to COUNT; the same for EXRULE. The model "
        "is compared op by op with the real functions on well-formed, hostile and mutated texts. The field mapping of the README and the "
        "full round trip of tasks (read, consume k occurrences incl. across refills, write with echs_task_icalify, read back; RRULE, several "
        "RRULEs, EXRULE, EXDATE, RDATE lists, TZID, DURATION, every X-ECHS field, calendar-level defaults) are judged on the real code by "
        "an oracle written from the README.",
   note="Trusted: Lean kernel; harness hx_strm.c (ops p.parse, p.rt, r.parse, r.print); the expected-attribute table of vlib/p_C05.py. "
        "The Lean part covers the rule text layer; task attributes and the stream position (DTSTART = next occurrence, remaining COUNT) "
        "are covered by the oracle on the implementation only. SCALE=HIJRI events are not in the round-trip generator. KNOWN FINDINGS D15 "
        "(INTERVAL phase of secondary or shifted rules is not preserved by the written form), D161-D164, D179 and D208 (written form of several COUNT rules, EXRULE with COUNT, RRULE+RDATE+EXRULE, rules across the night the clocks go forward, BYWEEKNO with BYEASTER, an RDATE before DTSTART next to a rule): each a shape of its own in the generator.",
   technique="Lean 4 proof (string-level round trip by induction over the printed parts) + differential correspondence + README oracle on the implementation",
   design="§5 C05, §9"),
 "C16": dict(
   text="Lean theorems (Echse.Props.C16) about the transcribed rule engine - all seven fillers (rrul_fill_yly/mly/wly/dly/Hly/Mly/Sly with their "
        "candidate builders, BYSETPOS, SHIFT, BYEASTER) and the rule stream on top (refill with the held-back seed, COUNT bookkeeping, sort, "
        "pop): for EVERY parser-producible Gregorian rule and DTSTART, every prefix of the stream, across any number of refills, is strictly "
        "ascending, not before DTSTART, not after UNTIL, at most COUNT long, ends after COUNT, and consists of real dates; per filler call: "
        "FillOk (length, bounds, sanity, order). Hypothesis: SHIFT a pure day shift up to 365 days or a pure business-day shift up to 250 (ShiftOk; counterexample proved); the former hypothesis KindOk (no time parts next to a DATE DTSTART) went with the repair D150. The models "
        "are compared with the real fillers call by call (op r.fill, chains imitating refills) and with the real stream (op r.strm); the "
        "invariants are also checked on the real streams of the full accepted language (SCALE=HIJRI, TZID, SHIFT, BYEASTER) over thousands "
        "of occurrences.",
   note="Trusted: Lean kernel; harness hx_strm.c; the transcriptions Echse/Model/Rr*.lean (differentially validated, 0 differences on tens of "
        "thousands of calls). Not covered by the theorems (oracle on the implementation only): SCALE=HIJRI rules, zoned DTSTART (zone "
        "conversion and duplicate removal in refill), SHIFT with both a day and a business-day part, several RRULEs per event (mux: C03).",
   technique="Lean 4 proof (loop invariants over fuelled transcriptions, stream invariant by induction over pops) + call-level differential correspondence + invariant oracle on the implementation",
   design="§5 C16, §9"),
 "C09": dict(
   text="Lean theorems (Echse.Props.C09) about the same transcribed fillers, whose loops carry explicit fuel: for EVERY parser-producible rule "
        "and seed every filler returns (the fuel is never what ends a loop: per-filler `_total` theorems, `fuel_irrelevant` for the yearly and "
        "monthly loops), writes at most the 64 instants asked for (so the group stamps at +64 stay inside the 128-entry cache), a fill that "
        "finds nothing or fewer than 64 ends the stream, never-matching rules answer end-of-stream. On the real code: hostile RRULE texts "
        "(INTERVAL 0/-1/2^31/2^32, full BYHOUR x BYMINUTE x BYSECOND products, BYDAY/BYSETPOS/BYEASTER lists beyond the native slots, "
        "out-of-range ordinals, damaged bytes, DTSTART at the range edges and invalid dates) through parser and stream under ASan/UBSan with "
        "a work budget per stream; rules the RFC reference judges empty must end at once; calendars with several RRULE/EXRULE/RDATE lines "
        "through the whole parser.",
   note="Trusted: Lean kernel; harness hx_strm.c; sanitizers (-fno-sanitize=shift-base); the transcriptions Echse/Model/Rr*.lean. Memory safety "
        "of the C code itself is observed (sanitizers on the inputs run), not proved; the theorems bound the number of writes and loop rounds "
        "of the model. `Bounded work' on the real code means 200 occurrences within 5 s in the sanitizer build.",
   technique="Lean 4 proof (measure arguments for every fuelled loop) + sanitizer run of hostile inputs with a work budget + differential correspondence",
   design="§5 C09, §9"),
 "C01": dict(
   text="Lean theorems (Echse.Props.C01): a specification of RFC 5545 recurrence sets written from the RFC (Echse/Spec/Rfc5545.lean: instances per "
        "frequency by the expand/limit table, Monday-based weeks, BYSETPOS within the period, DTSTART, UNTIL) and, for the transcribed "
        "fillers of FREQ=SECONDLY, MINUTELY, HOURLY, DAILY and WEEKLY, `none extra' (everything a call writes is an instance and passes "
        "BYSETPOS) and `none missing' (every instance not before the seed, not after UNTIL/2099 is written, or the cache is full and the "
        "instance comes later) for EVERY parser-producible rule (any INTERVAL, BYMONTH, BYMONTHDAY incl. negative, BYDAY, BYYEARDAY, "
        "BYHOUR/BYMINUTE/BYSECOND, BYSETPOS, COUNT, UNTIL) and every seed 1901-2099 - including the skip-ahead over filtered "
        "days/hours/minutes, the month/year carry, the Monday alignment of weeks, the daily-to-weekly hand-over. FREQ=MONTHLY "
        "and YEARLY: the same two statements, BYSETPOS included, and across a refill (the seed is an occurrence of the original "
        "DTSTART/rule; instances and BYSETPOS anchored at the seed equal those anchored at DTSTART), for every combination of "
        "BYMONTH / BYWEEKNO / BYYEARDAY / BYMONTHDAY / BYDAY (numbered entries included, also as a limit) that RFC 5545 allows - the "
        "one combination it forbids, numbered BYDAY with BYWEEKNO alone, is excluded by hypothesis (YlySup.wkPlain) with a proved "
        "counterexample; monthly completeness assumes an occurrence within the first 336 periods (the code gives up after 337 months, "
        "the calendar cycle plus one), which holds whenever the seed is an occurrence. SHIFT and BYEASTER are C17's (r.shift = 0, "
        "r.easter = [] here). "
        "On the real code: generated rules of all seven frequencies through the real parser and stream, 150-200 occurrences each across "
        "refills, compared one by one with an independent RFC 5545 reference expander; parsed rule structs compared with the expected "
        "encoding; the same events through the whole calendar parser.",
   note="Trusted: Lean kernel; Spec/Rfc5545.lean and Spec/Cal.lean (the reading of the RFC); vlib/rfc5545.py (independent second reading, "
        "used as oracle); harness hx_strm.c; the transcriptions Echse/Model/Rr*.lean. Hypothesis of the theorems: no BYHOUR/BYMINUTE/BYSECOND "
        "on a DATE-valued DTSTART (the code does not ignore them as the RFC demands; recorded). Zoned DTSTART is judged by the oracle only. "
        "D125 (numbered BYDAY next to BYMONTHDAY/BYYEARDAY not applied as a limit) and D129 (YEARLY: BYWEEKNO/BYYEARDAY next to "
        "BYMONTH/BYMONTHDAY united instead of intersected) were found by the proof attempt, are repaired in /repo, and both rule "
        "classes are generated on every run.",
   technique="Lean 4 proof (loop invariants linking incremental date arithmetic to day numbers; completeness by reachability of every instance) + reference-expander oracle + differential correspondence",
   design="§5 C01, §9"),
}

checks = []
for p in props:
    i = p["id"]
    if i not in CLAIMED:
        continue
    c = CLAIMED[i]
    checks.append({
        "property_id": i,
        "quick_cmd": "python3 check.py %s --tier quick" % i,
        "thorough_cmd": "python3 check.py %s --tier thorough" % i,
        "evidence_file": "/verif/evidence/%s.json" % i,
        "replay_cmd_template": "python3 check.py %s --replay {path}" % i,
        "engine": "lean-proof+correspondence",
        "level_claimed": {"category": "proof", "text": c["text"], "design_ref": c["design"]},
        "level_note": c["note"],
        "technique": c["technique"],
    })
na = [{"property_id": p["id"], "reason": "check not built yet in this round (planned, see DESIGN.md §8); nothing is claimed"}
      for p in props if p["id"] not in CLAIMED]
m = {
    "version": 1,
    "setup_cmd": "sh ./setup.sh",
    "hooks": {"guard": "ECHSE_VERIF",
              "enable": "harness/hx_strm.c #includes evical.c from a scratch copy of /repo/src compiled with -DECHSE_VERIF and provides echse_verif_line(); all other objects are compiled without the guard",
              "baseline_off_cmd": "make -C /repo check",
              "source_commits": ["e34d23c"], "add_only": True},
    "engines": [{"name": "lean-proof+correspondence", "path": "/verif/check.py",
                 "serves_properties": [c["property_id"] for c in checks],
                 "kind_free_text": "Lean 4 theorems about an executable model (lean/Echse), tied to the C code by "
                                   "a differential correspondence run (harness/*.c vs lean_exe echsemodel) and a "
                                   "spec oracle applied to the implementation's answers"}],
    "checks": checks,
    "not_applicable": na,
    "notes": "fix: commits in /repo and recorded findings are listed in /verif/known_findings.jsonl",
}
json.dump(m, open(os.path.join(V, "MANIFEST.json"), "w"), indent=1)
print("claimed:", [c["property_id"] for c in checks])
