"""C14 — a job outliving its DTEND/DURATION/DUE limit is killed by the deadline.

(a) daemon half: histories on echsd.c with limits spelled as DURATION in every ISO form or as DTEND; the VTODO handed to
    the executor must carry the limit (seconds, rounded up);
(b) executor half: the real echsx is run on execution requests with DURATION / DUE limits of 1-3 s against a job that
    sleeps 8 s; it must be killed (SIGXCPU in the journal) after about the limit, an overdue request must be refused,
    a job without limit or finishing early must be left alone.
Correspondence for (a): Echse.Model.Daemon.  Model for the unit pipeline: Echse.Props.C14 over Echse.Model.Strpf.
"""
import concurrent.futures
import datetime
import os
import re
import subprocess
import tempfile
import time

from . import common
from . import p_echsd
from . import p_C13

RULE = ("(a) random daemon histories whose tasks carry limits of 1 s .. 9 weeks spelled as PTnS, as mixed "
        "weeks/days/hours/minutes/seconds, or as DTEND; every spawn's DURATION line is compared with ceil(limit / 1 s). "
        "(b) real echsx runs: DURATION PT1S/PT2S/PT3S and DUE now+2 s against `sleep 8` (kill time and X-SIGNAL observed), "
        "DUE in the past (refused), no limit and a limit longer than the job (unaffected).")


def exec_case(exe, base, name, lines, job):
    d = os.path.join(base, name)
    os.makedirs(d)
    vt = ["BEGIN:VCALENDAR", "VERSION:2.0", "BEGIN:VTODO", "UID:%s" % name, "SUMMARY:exec %s" % job,
          "X-ECHS-SETUID:%d" % os.getuid(), "X-ECHS-SETGID:%d" % os.getgid(), "X-ECHS-SHELL:/bin/sh", "LOCATION:%s" % d] + lines + \
         ["X-ECHS-MAIL-OUT:0", "X-ECHS-MAIL-ERR:0", "ORGANIZER:echse", "END:VTODO", "END:VCALENDAR", ""]
    t0 = time.time()
    try:
        r = subprocess.run([exe, "-v"], input="\n".join(vt).encode(), stdout=subprocess.PIPE, stderr=subprocess.PIPE,
                           env=dict(os.environ, HX_SENDMAIL="/bin/true", ASAN_OPTIONS="detect_leaks=0"), timeout=60)
        j = r.stdout.decode("latin-1")
    except subprocess.TimeoutExpired:
        j = "TIMEOUT"
    return time.time() - t0, j


def run(ctx):
    from . import p_strm
    exs = p_strm.build(ctx)
    wired = [0]

    def wire(text):
        # what echsq sends and what checkpoint files hold: the tasks written by echs_task_icalify (dt-strpf's idiff_strf)
        out, st, err = ctx.impl(exs, ["p.wire " + text.encode().hex()])
        if not out or " " not in out[0]:
            return text
        wired[0] += 1
        return bytes.fromhex(out[0].split()[0]).decode("latin-1")
    knobs = {"wire": wire, "p_wire": 0.5, "steps": 20, "durs": [1000, 2000, 59000, 60000, 61000, 3600000, 86400000, 90061000, 604800000, 5443200000, 2147558400000, 2147483648000],
             "dur_forms": [None, "iso", "iso", "dtend"], "chk": False, "limits": [None], "p_cancel": 0.1,
             # start times: 2030-01-01, and the minutes before the leap day of 2028 and before its end (DTEND - DTSTART across them)
             "t0s": [p_echsd.T0, p_echsd.T0, 1835395140, 1835481510]}
    cases, lines, impl, model = p_echsd.run_checks(ctx, "C14", knobs, 300, 4000, RULE)
    # ---- (b) executor
    exe = p_C13.build(ctx)
    base = tempfile.mkdtemp(prefix="hxc14-", dir=os.environ.get("TMPDIR", "/tmp"))
    now = datetime.datetime.utcnow()
    due_future = (now + datetime.timedelta(seconds=5)).strftime("%Y%m%dT%H%M%SZ")
    due_past = (now - datetime.timedelta(seconds=30)).strftime("%Y%m%dT%H%M%SZ")
    plan = [("d1", ["DURATION:PT1S"], "sleep 8", ("killed", 1)), ("d2", ["DURATION:PT2S"], "sleep 8", ("killed", 2)),
            ("d3", ["DURATION:PT3S"], "sleep 8", ("killed", 3)), ("m1", ["DURATION:PT1M"], "sleep 1", ("ok", None)),
            ("n0", [], "sleep 1", ("ok", None)), ("du", ["DUE:%s" % due_future], "sleep 12", ("killed", 5)),
            ("dp", ["DUE:%s" % due_past], "sleep 1", ("refused", None)),
            # the same with the due time given as local time of a zone
            ("dz", ["DUE;TZID=Asia/Kolkata:%s" % (now + datetime.timedelta(seconds=5, hours=5, minutes=30)).strftime("%Y%m%dT%H%M%S")],
             "sleep 12", ("killed", 5)),
            ("dq", ["DUE;TZID=America/New_York:%s" % (now.astimezone(__import__("zoneinfo").ZoneInfo("America/New_York"))
                                                      - datetime.timedelta(seconds=30)).strftime("%Y%m%dT%H%M%S")],
             "sleep 1", ("refused", None))]
    if ctx.tier == "thorough":
        plan += [("t%d" % k, ["DURATION:PT%dS" % k], "sleep 12", ("killed", k)) for k in range(4, 9)]
    with concurrent.futures.ThreadPoolExecutor(max_workers=len(plan)) as ex:
        futs = {n: ex.submit(exec_case, exe, base, n, l, j) for n, l, j, _ in plan}
        res = {n: f.result() for n, f in futs.items()}
    subprocess.run(["rm", "-rf", base])
    fails = []
    obs = []
    for n, l, j, (want, lim) in plan:
        el, jr = res[n]
        sig = re.search(r"X-SIGNAL:(\d+)", jr)
        obs.append("%s %s: %.1f s, %s" % (n, l, el, "signal " + sig.group(1) if sig else ("CANCELLED" if "STATUS:CANCELLED" in jr else "exit " + "".join(re.findall(r"X-EXIT-STATUS:(\d+)", jr)))))
        if want == "killed":
            if not sig or sig.group(1) != "24":
                fails.append("execution request %s with limit %s: the job (`%s`) was not terminated by the deadline signal (%.1f s, journal: %s)"
                             % (n, l, j, el, re.findall(r"X-SIGNAL:.*|X-EXIT-STATUS:.*|STATUS:.*", jr)))
            elif not (lim - 1.2 <= el <= lim + 2.5):
                fails.append("execution request %s with limit %s: killed after %.1f s, expected about %d s" % (n, l, el, lim))
        elif want == "ok":
            if "X-EXIT-STATUS:0" not in jr or sig:
                fails.append("execution request %s (%s): a job finishing before its limit did not complete normally: %s" % (n, l, jr[-200:]))
        else:
            if "STATUS:CANCELLED" not in jr or el > 0.9:
                fails.append("overdue execution request %s was not refused (ran %.1f s): %s" % (n, el, jr[-200:]))
    # ---- (c) two hand-made requests: a limit is its task's and nobody else's
    base2 = tempfile.mkdtemp(prefix="hxc14b-", dir=os.environ.get("TMPDIR", "/tmp"))
    uid, gid = os.getuid(), os.getgid()
    head = ["X-ECHS-SETUID:%d" % uid, "X-ECHS-SETGID:%d" % gid, "X-ECHS-SHELL:/bin/sh", "X-ECHS-MAIL-OUT:0", "X-ECHS-MAIL-ERR:0", "ORGANIZER:echse"]
    # (1) the first task of a request cannot be started and leaves its alarm behind, the second has no limit
    two = "\n".join(["BEGIN:VCALENDAR", "VERSION:2.0", "BEGIN:VTODO", "UID:first", "SUMMARY:sleep 1", "LOCATION:%s/nonexistent" % base2, "DURATION:PT2S"] + head +
                    ["END:VTODO", "BEGIN:VTODO", "UID:second", "SUMMARY:sleep 4", "LOCATION:%s" % base2] + head + ["END:VTODO", "END:VCALENDAR", ""])
    env = dict(os.environ, HX_SENDMAIL="/bin/true", ASAN_OPTIONS="detect_leaks=0")
    try:
        r = subprocess.run([exe, "-v"], input=two.encode(), stdout=subprocess.PIPE, stderr=subprocess.PIPE, env=env, timeout=60)
        j = r.stdout.decode("latin-1")
    except subprocess.TimeoutExpired:
        j = "TIMEOUT"
    sec = j.split("UID:second")[-1] if "UID:second" in j else ""
    obs.append("two tasks, the first with PT2S not started: second %s" % (re.findall(r"X-SIGNAL:\d+|X-EXIT-STATUS:\d+", sec) or j[-80:]))
    if "X-EXIT-STATUS:0" not in sec or "X-SIGNAL" in sec:
        fails.append("a request of two tasks: the first (DURATION:PT2S) cannot be started, the second (`sleep 4', no limit) must run to its end; its journal entry: %s"
                     % (re.findall(r"X-SIGNAL:.*|X-EXIT-STATUS:.*|STATUS:.*", sec) or j[-200:]))
    # (1b) what the job's shell has forked (recorded finding, class job-descendants)
    surv = os.path.join(base2, "survivor.txt")
    desc = "\n".join(["BEGIN:VCALENDAR", "VERSION:2.0", "BEGIN:VTODO", "UID:pipe", "SUMMARY:{ sleep 5; date > %s; } | cat" % surv, "LOCATION:%s" % base2, "DURATION:PT2S"] + head +
                     ["END:VTODO", "END:VCALENDAR", ""])
    t1 = time.time()
    try:
        r = subprocess.run([exe, "-v"], input=desc.encode(), stdout=subprocess.PIPE, stderr=subprocess.PIPE, env=env, timeout=60)
        j = r.stdout.decode("latin-1")
    except subprocess.TimeoutExpired:
        j = "TIMEOUT"
    time.sleep(max(0.0, 6.5 - (time.time() - t1)))
    obs.append("pipeline under PT2S: journal %s, the part behind the pipe %s" % (re.findall(r"X-SIGNAL:\d+|X-EXIT-STATUS:\d+", j), "ran on to its end" if os.path.exists(surv) else "was stopped"))
    if os.path.exists(surv):
        kn = [k for k in common.load_known("C14") if k.get("status") == "known" and k.get("class") == "job-descendants"]
        if kn:
            ctx.known(kn[0]["what"])
        else:
            fails.append("`{ sleep 5; date > survivor; } | cat' under DURATION:PT2S: journalled %s, but the command behind the pipe ran on and wrote its file" % re.findall(r"X-SIGNAL:\d+", j))
    # (2) the limit runs out while echsx is still opening the task's stdin (a FIFO nobody writes to): nothing but the task may be hit
    fifo = os.path.join(base2, "fifo")
    os.mkfifo(fifo)
    one = "\n".join(["BEGIN:VCALENDAR", "VERSION:2.0", "BEGIN:VTODO", "UID:blocked", "SUMMARY:cat", "LOCATION:%s" % base2, "X-ECHS-IFILE:%s" % fifo, "DURATION:PT2S"] + head +
                    ["END:VTODO", "END:VCALENDAR", ""])
    p = subprocess.Popen(["bash", "-c", 'sleep 30 >/dev/null 2>&1 </dev/null & echo $!; exec "$0" -v', exe], stdin=subprocess.PIPE, stdout=subprocess.PIPE, stderr=subprocess.PIPE,
                         env=env, start_new_session=True)
    t0 = time.time()
    try:
        out, err = p.communicate(one.encode(), timeout=20)
        out = out.decode("latin-1")
    except subprocess.TimeoutExpired:
        os.killpg(p.pid, 9)
        out, err = "0\nTIMEOUT", b""
    el = time.time() - t0
    sib = int(out.split("\n")[0] or 0) if out.split("\n")[0].strip().isdigit() else 0
    alive = False
    if sib:
        try:
            os.kill(sib, 0); alive = True; os.kill(sib, 9)
        except OSError:
            alive = False
    obs.append("limit running out while the stdin FIFO is being opened: %.1f s, sibling process of the group %s, echsx ended %s" % (
        el, "alive" if alive else "gone", p.returncode))
    if not alive or "TIMEOUT" in out:
        fails.append("DURATION:PT2S and an X-ECHS-IFILE FIFO nobody writes to: %s" % (
            "echsx does not come back" if "TIMEOUT" in out else "the time limit's signal hit a process of echsx's group that is not the task (as echsd would be); echsx ended with %s" % p.returncode))
    subprocess.run(["rm", "-rf", base2])
    # ---- (d) a limit given as DTEND in a Hijri scale: the span is so many days, whatever calendar the dates are written in
    hops, hwant = [], []
    for a, b, ms in (("14490129T120000", "14490201T120000", 86400000), ("14490229T120000", "14490301T120000", 86400000),
                     ("14490105T120000", "14490105T120500", 300000), ("14410201T000000", "14410301T000000", 29 * 86400000)):
        sc = "HIJRI.UMMULQURA" if a.startswith("1449") else "HIJRI.IIA"
        cal = "BEGIN:VCALENDAR\nBEGIN:VEVENT\nUID:h\nSUMMARY:x\nDTSTART;SCALE=%s:%s\nDTEND;SCALE=%s:%s\nEND:VEVENT\nEND:VCALENDAR\n" % (sc, a, sc, b)
        hops.append("p.occ %s 1" % cal.encode().hex()); hwant.append((a, b, sc, ms))
    hout, _, _ = ctx.impl(exs, hops)
    for k, (a, b, sc, ms) in enumerate(hwant):
        m_ = re.search(r"occ=[0-9a-f]{16}\+(-?\d+)", hout[k] if k < len(hout) else "")
        obs.append("DTSTART;SCALE=%s:%s DTEND:%s -> limit %s ms" % (sc, a, b, m_.group(1) if m_ else "?"))
        if not m_ or int(m_.group(1)) != ms:
            fails.append("DTSTART;SCALE=%s:%s with DTEND;SCALE=%s:%s: the limit is %s ms, the dates are %d ms apart" % (sc, a, sc, b, m_.group(1) if m_ else (hout[k][:80] if k < len(hout) else "?"), ms))
    ctx.cov["executor_runs"] = obs
    ctx.cov["evaluations"] = ctx.cov.get("evaluations", 0) + len(plan)
    if fails and not any(v["found"] for v in ctx.violations):
        ctx.violation("property", fails[0], {"op": "real echsx run", "all": fails, "observed": obs})


replay = p_echsd.replay
